// C09 (sequential half): the layered key-value store behaves as one ordered
// map on every backend. This file: key universe, scenarios, the reference
// model (one plain Go map per level) and the documented range semantics.
package c09

import (
	"bytes"
	"fmt"
	"sort"
	"strings"

	"github.com/nspcc-dev/neo-go/pkg/vm/stackitem"
)

// ---- values -------------------------------------------------------------------

// Values are valid serialized stack items (arrays of two byte strings) so that
// System.Storage.Find can be driven with DeserializeValues/PickField*; the
// empty value is a legal stored value and is not deserializable.
var (
	vals     [][]byte
	valNames = []string{"v1", "empty", "v2"}
	// string forms of the deserialized value, its field 0 and field 1 (see itemStr)
	valDeser = [][3]string{
		{"A[B:78,B:79]", "B:78", "B:79"},
		{},
		{"A[B:7a,B:77]", "B:7a", "B:77"},
	}
)

func init() {
	mk := func(a, b string) []byte {
		raw, err := stackitem.Serialize(stackitem.NewArray([]stackitem.Item{stackitem.NewByteArray([]byte(a)), stackitem.NewByteArray([]byte(b))}))
		if err != nil {
			panic(err)
		}
		return raw
	}
	vals = [][]byte{mk("x", "y"), {}, mk("z", "w")}
}

func valIndex(v []byte) int {
	for i := range vals {
		if bytes.Equal(vals[i], v) {
			return i
		}
	}
	return -1
}

func valName(v []byte) string {
	if v == nil {
		return "TOMB"
	}
	if i := valIndex(v); i >= 0 {
		return valNames[i]
	}
	return fmt.Sprintf("?%x", v)
}

// ---- scenarios -----------------------------------------------------------------

const (
	daoID = 1
	baseS = "p\x01\x00\x00\x00" // STStorage | contract id 1 (LE): the dao.Simple storage item layout
	baseM = "m"                 // a key class that MemoryStore keeps in its other map (`mem`, not `stor`)

	otherID = 2
	baseS2  = "p\x02\x00\x00\x00" // storage of a second contract: touched by re-entrant Seek callbacks
)

type rangeQ struct {
	Prefix, Start string
	Bwd           bool
}

func (q rangeQ) String() string {
	d := "fwd"
	if q.Bwd {
		d = "bwd"
	}
	if q.Start == "" {
		return fmt.Sprintf("prefix=%q %s", q.Prefix, d)
	}
	return fmt.Sprintf("prefix=%q start=%q %s", q.Prefix, q.Start, d)
}

type scen struct {
	Name     string
	Class    string // "S": STStorage-prefixed (stor map, reachable through dao/Find), "M": other (mem map)
	Base     string
	Suffixes []string
	Keys     []string          // keys the operations write
	BeInit   map[string][]byte // decoys: initial backend content (neighbouring key classes)
	L1Init   map[string][]byte // decoy initially pending in the lowest cache layer
	GetKeys  []string          // keys probed by Get
	Ranges   []rangeQ          // non-empty prefixes (every level)
	BeRanges []rangeQ          // empty prefix (disk backends only, as documented)
	UserPfx  []string          // Find prefixes (class S)
	universe []string
}

type group struct {
	name string
	sfx  []string // {B} is replaced by the class base (doubled prefix)
}

// Key groups: keys are prefixes/extensions of each other and of the seek
// prefixes; 0xff tails exercise the upper bound computation of the disk
// backends; "dbl" has keys that contain the seek prefix twice (prefix trimming).
var groups = []group{
	{"chain", []string{"", "a", "ab", "abc"}},
	{"sibling", []string{"ab", "abc", "ac", "b"}},
	{"ffmid", []string{"a", "a\xff", "a\xff\xff", "b"}},
	{"fftop", []string{"", "\xfe", "\xff", "\xff\xff"}},
	{"dbl", []string{"a", "{B}a", "z", "{B}z"}},
}

func buildScenarios(nkeys int) []*scen {
	var out []*scen
	for _, cl := range []string{"S", "M"} {
		for _, g := range groups {
			sc := &scen{Name: cl + "/" + g.name, Class: cl}
			if cl == "S" {
				sc.Base = baseS
				// baseS+"\x01": an item of the scanned contract that is already in the backend.
				// Contract 2: "a" flushed, "b" pending in the lowest layer, "c" flushed and deleted
				// in the lowest layer (they take no part in the choice of Start values).
				sc.BeInit = map[string][]byte{"o\xff": vals[2], "q": vals[2], "p\x01\x00\x00\x01": vals[2], "p\x00\xff\xff\xff\xff": vals[2],
					baseS + "\x01": vals[2], baseS2 + "a": vals[2], baseS2 + "c": vals[2]}
				sc.L1Init = map[string][]byte{"q\x00": vals[2], baseS2 + "b": vals[2], baseS2 + "c": nil}
			} else {
				sc.Base = baseM
				sc.BeInit = map[string][]byte{"l\xff": vals[2], "n": vals[2]}
				sc.L1Init = map[string][]byte{"n\x00": vals[2]}
			}
			for i, s := range g.sfx {
				if i >= nkeys {
					break
				}
				s = strings.ReplaceAll(s, "{B}", sc.Base)
				sc.Suffixes = append(sc.Suffixes, s)
				sc.Keys = append(sc.Keys, sc.Base+s)
			}
			sc.finish()
			out = append(out, sc)
		}
	}
	return out
}

func (sc *scen) finish() {
	u := map[string]bool{}
	for _, k := range sc.Keys {
		u[k] = true
	}
	for k := range sc.BeInit {
		u[k] = true
	}
	for k := range sc.L1Init {
		u[k] = true
	}
	for k := range u {
		if !strings.HasPrefix(k, baseS2) {
			sc.universe = append(sc.universe, k)
		}
	}
	sort.Strings(sc.universe)
	sc.GetKeys = append(append([]string{}, sc.universe...), sc.Base+"zz", sc.Base[:1])
	for k := range u {
		if strings.HasPrefix(k, baseS2) {
			sc.GetKeys = append(sc.GetKeys, k)
		}
	}
	sort.Strings(sc.GetKeys)
	sc.GetKeys = uniq(sc.GetKeys)

	// prefixes: every non-empty prefix of every key (class S: length 1 and
	// from the dao base on), one prefix longer than any key.
	ps := map[string]bool{}
	for _, k := range sc.Keys {
		for l := 1; l <= len(k); l++ {
			if sc.Class == "S" && l > 1 && l < len(sc.Base) {
				continue
			}
			if l > len(sc.Base)+3 {
				continue // inside the doubled tail nothing new happens
			}
			ps[k[:l]] = true
		}
	}
	ps[sc.Keys[len(sc.Keys)-1]+"a"] = true
	var prefixes []string
	for p := range ps {
		prefixes = append(prefixes, p)
	}
	sort.Slice(prefixes, func(i, j int) bool {
		if len(prefixes[i]) != len(prefixes[j]) {
			return len(prefixes[i]) < len(prefixes[j])
		}
		return prefixes[i] < prefixes[j]
	})
	for _, p := range prefixes {
		for _, s := range sc.starts(p) {
			for _, b := range []bool{false, true} {
				sc.Ranges = append(sc.Ranges, rangeQ{p, s, b})
			}
		}
		if sc.Class == "S" && strings.HasPrefix(p, sc.Base) {
			sc.UserPfx = append(sc.UserPfx, p[len(sc.Base):])
		}
	}
	for _, s := range sc.starts("") {
		for _, b := range []bool{false, true} {
			sc.BeRanges = append(sc.BeRanges, rangeQ{"", s, b})
		}
	}
}

func uniq(s []string) []string {
	var o []string
	for i, x := range s {
		if i == 0 || x != s[i-1] {
			o = append(o, x)
		}
	}
	return o
}

// starts returns the Start values used with prefix p: none, and for every key
// of the universe under p its suffix, the suffix extended, the greatest string
// below it, the suffix shortened, and the extremes. Two candidates that
// compare identically (<,=,>, "is extended by") with every key of the universe
// and end in the same number of 0xff bytes are merged (the simplest stays).
func (sc *scen) starts(p string) []string {
	cand := []string{"\x00", "\xff"}
	for _, k := range sc.universe {
		if !strings.HasPrefix(k, p) || k == p {
			continue
		}
		s := k[len(p):]
		cand = append(cand, s, pred(s))
		if len(p) < len(sc.Base) {
			continue // one-byte prefix of class S: exact and just-below starts only
		}
		cand = append(cand, s+"\x00")
		for l := 1; l < len(s); l++ {
			cand = append(cand, s[:l])
		}
	}
	sort.Slice(cand, func(i, j int) bool {
		if len(cand[i]) != len(cand[j]) {
			return len(cand[i]) < len(cand[j])
		}
		return cand[i] < cand[j]
	})
	seen := map[string]bool{}
	out := []string{""}
	for _, s := range cand {
		if s == "" {
			continue
		}
		var sig strings.Builder
		for _, k := range sc.universe {
			if !strings.HasPrefix(k, p) {
				continue
			}
			fmt.Fprintf(&sig, "%d%v,", strings.Compare(k[len(p):], s), strings.HasPrefix(k, p+s))
		}
		ff := 0
		for t := p + s; ff < 2 && strings.HasSuffix(t, "\xff"); t = t[:len(t)-1] {
			ff++
		}
		fmt.Fprintf(&sig, "ff%d", ff)
		if seen[sig.String()] {
			continue
		}
		seen[sig.String()] = true
		out = append(out, s)
	}
	return out
}

func pred(s string) string {
	n := len(s)
	if s[n-1] == 0 {
		return s[:n-1]
	}
	return s[:n-1] + string([]byte{s[n-1] - 1}) + "\xff"
}

// ---- the reference -----------------------------------------------------------

// level is the content of one level of the stack: nil value = tombstone.
type level map[string][]byte

func (l level) clone() level {
	o := make(level, len(l))
	for k, v := range l {
		o[k] = v
	}
	return o
}

type model struct {
	beKind string  // mem | bolt | level
	be     level   // backend (tombstones survive only in the in-memory backend, they are never visible)
	ly     []level // live cache layers, bottom first
	kinds  []byte  // 'r' regular, 'p' private, per live layer
}

func newModel(beKind, shape string, sc *scen) *model {
	m := &model{beKind: beKind, be: level{}}
	for k, v := range sc.BeInit {
		m.be[k] = v
	}
	for i := range shape {
		m.ly = append(m.ly, level{})
		m.kinds = append(m.kinds, shape[i])
	}
	for k, v := range sc.L1Init {
		m.ly[0][k] = v
	}
	return m
}

func (m *model) clone() *model {
	o := &model{beKind: m.beKind, be: m.be.clone(), kinds: append([]byte{}, m.kinds...)}
	for _, l := range m.ly {
		o.ly = append(o.ly, l.clone())
	}
	return o
}

func (m *model) writeBackend(cs level) {
	for k, v := range cs {
		if v == nil && m.beKind != "mem" {
			delete(m.be, k)
		} else {
			m.be[k] = v
		}
	}
}

// flush moves layer i (0-based) into the level below it.
func (m *model) flush(i int) {
	if i == 0 {
		m.writeBackend(m.ly[0])
	} else {
		for k, v := range m.ly[i] {
			m.ly[i-1][k] = v
		}
	}
	m.ly[i] = level{}
}

func (m *model) pop() {
	m.ly = m.ly[:len(m.ly)-1]
	m.kinds = m.kinds[:len(m.kinds)-1]
}

// view is the net effect seen from level t (0 = the backend itself, t = t-th
// cache layer) with search depth d: d = 0 or d > t means everything down to
// and including the backend; otherwise only the top d layers counted from t.
func (m *model) view(t, d int) (map[string][]byte, bool) {
	out := map[string][]byte{}
	lo := 0
	withBackend := d == 0 || d > t
	if withBackend {
		for k, v := range m.be {
			if v != nil {
				out[k] = v
			}
		}
	} else {
		lo = t - d
	}
	for i := lo; i < t; i++ {
		for k, v := range m.ly[i] {
			if v == nil {
				delete(out, k)
			} else {
				out[k] = v
			}
		}
	}
	return out, withBackend
}

type kv struct{ K, V string }

// expect is SeekRange as documented: keys with the prefix, forwards the keys
// >= prefix+start ascending, backwards the keys <= prefix+start descending.
func expect(view map[string][]byte, q rangeQ) []kv {
	var out []kv
	from := q.Prefix + q.Start
	for k, v := range view {
		if !strings.HasPrefix(k, q.Prefix) {
			continue
		}
		if q.Start != "" {
			if !q.Bwd && k < from {
				continue
			}
			if q.Bwd && k > from {
				continue
			}
		}
		out = append(out, kv{k, string(v)})
	}
	sort.Slice(out, func(i, j int) bool {
		if q.Bwd {
			return out[i].K > out[j].K
		}
		return out[i].K < out[j].K
	})
	return out
}

// expectDiskDeviation is what a stack over BoltDB/LevelDB returns if the
// backend (and only the backend) additionally yields, for a backwards seek with
// a start, its own keys that strictly extend prefix+start. Used only to
// recognise that one root cause; it is not an accepted answer.
func (m *model) expectDiskDeviation(view map[string][]byte, withBackend bool, q rangeQ) ([]kv, bool) {
	if !q.Bwd || q.Start == "" || !withBackend || m.beKind == "mem" {
		return nil, false
	}
	from := q.Prefix + q.Start
	var ext []kv
	for k, v := range m.be {
		if v != nil && k != from && strings.HasPrefix(k, from) {
			ext = append(ext, kv{k, string(v)})
		}
	}
	if len(ext) == 0 {
		return nil, false
	}
	sort.Slice(ext, func(i, j int) bool { return ext[i].K > ext[j].K })
	return append(ext, expect(view, q)...), true
}

// levelKeys[t] identifies the content of levels 0..t (values and tombstones)
// and the kinds of the layers up to t.
func (m *model) levelKeys() []string {
	var b strings.Builder
	out := make([]string, 0, len(m.ly)+1)
	wr := func(l level) {
		ks := make([]string, 0, len(l))
		for k := range l {
			ks = append(ks, k)
		}
		sort.Strings(ks)
		for _, k := range ks {
			fmt.Fprintf(&b, "%x=%s,", k, valName(l[k]))
		}
		b.WriteByte('|')
	}
	wr(m.be)
	out = append(out, b.String())
	for i, l := range m.ly {
		b.WriteByte(m.kinds[i])
		wr(l)
		out = append(out, b.String())
	}
	return out
}

func (m *model) describe() []string {
	var out []string
	wr := func(name string, l level) {
		ks := make([]string, 0, len(l))
		for k := range l {
			ks = append(ks, k)
		}
		sort.Strings(ks)
		var p []string
		for _, k := range ks {
			p = append(p, fmt.Sprintf("%q=%s", k, valName(l[k])))
		}
		out = append(out, name+": "+strings.Join(p, " "))
	}
	wr("backend("+m.beKind+")", m.be)
	for i, l := range m.ly {
		wr(fmt.Sprintf("layer%d(%c)", i+1, m.kinds[i]), l)
	}
	return out
}

func kvsStr(l []kv) string {
	var p []string
	for _, e := range l {
		p = append(p, fmt.Sprintf("%q=%s", e.K, valName([]byte(e.V))))
	}
	return "[" + strings.Join(p, " ") + "]"
}
