package c09

import (
	"fmt"
	"os"
	"strings"

	"github.com/nspcc-dev/neo-go/pkg/core/dao"
	"github.com/nspcc-dev/neo-go/pkg/core/storage"
	"github.com/nspcc-dev/neo-go/pkg/core/storage/dbconfig"

	"verif/lib/vk"
)

// ---- operations ----------------------------------------------------------------

type opKind int

const (
	opPut opKind = iota
	opDel
	opPersist
	opPersistSync
	opPersistPrivate
	opChangeSet // PutChangeSet{Key: v1, Key2: nil} directly on the backend
	opGC        // SeekGC on the backend over the class base, dropping entries with an empty value
	opReopen    // Close() of the top layer (closes everything below it), then the database is opened again
)

type op struct {
	Kind  opKind
	Layer int // 1-based cache layer; 0 = backend
	Key   int
	Key2  int
	Val   int
	Name  string
}

// alphabet for a stack of n layers, simplest first.
func alphabet(sc *scen, shape string, nvals int, lowerWrites, reopen bool) []op {
	var ops []op
	n := len(shape)
	valOrder := []int{0, 1, 2}[:nvals]
	for l := n; l >= 1; l-- {
		if l < n && !lowerWrites {
			break
		}
		for k := range sc.Keys {
			for _, v := range valOrder {
				ops = append(ops, op{Kind: opPut, Layer: l, Key: k, Val: v, Name: fmt.Sprintf("Put(L%d,%q,%s)", l, sc.Keys[k], valNames[v])})
			}
			ops = append(ops, op{Kind: opDel, Layer: l, Key: k, Name: fmt.Sprintf("Delete(L%d,%q)", l, sc.Keys[k])})
		}
	}
	for l := n; l >= 1; l-- {
		ops = append(ops, op{Kind: opPersist, Layer: l, Name: fmt.Sprintf("Persist(L%d)", l)})
		ops = append(ops, op{Kind: opPersistSync, Layer: l, Name: fmt.Sprintf("PersistSync(L%d)", l)})
		if l >= 2 && shape[l-1] == 'p' {
			ops = append(ops, op{Kind: opPersistPrivate, Layer: l, Name: fmt.Sprintf("L%d.PersistPrivate(L%d)", l-1, l)})
		}
	}
	nk := len(sc.Keys)
	for k := range sc.Keys {
		k2 := (k + 1) % nk
		ops = append(ops, op{Kind: opChangeSet, Key: k, Key2: k2, Name: fmt.Sprintf("Backend.PutChangeSet{%q:v1,%q:nil}", sc.Keys[k], sc.Keys[k2])})
	}
	ops = append(ops, op{Kind: opChangeSet, Key: 0, Key2: -1, Val: 1, Name: fmt.Sprintf("Backend.PutChangeSet{%q:empty}", sc.Keys[0])})
	ops = append(ops, op{Kind: opGC, Name: fmt.Sprintf("Backend.SeekGC(%q,drop empty values)", sc.Base)})
	if reopen {
		ops = append(ops, op{Kind: opReopen, Name: "Top.Close()+reopen the database"})
	}
	return ops
}

// legal says whether o may be applied in model state m (API contract: a layer
// must exist; a private layer is flushed only while it is the top one and is
// gone afterwards; PersistPrivate needs a cache layer below).
func legal(m *model, o op) bool {
	n := len(m.ly)
	switch o.Kind {
	case opPut, opDel:
		return o.Layer <= n
	case opPersist, opPersistSync:
		if o.Layer > n {
			return false
		}
		if m.kinds[o.Layer-1] == 'p' {
			return o.Layer == n
		}
		return true
	case opPersistPrivate:
		return o.Layer == n && n >= 2 && m.kinds[n-1] == 'p'
	case opReopen:
		return m.beKind == "bolt" || m.beKind == "level"
	}
	return true
}

// refused: the operation writes to a read-only backend; it has to fail and to
// leave every level as it was.
func refused(m *model, o op) bool {
	if !isRO(m.beKind) {
		return false
	}
	switch o.Kind {
	case opPersist, opPersistSync:
		return o.Layer == 1
	case opChangeSet, opGC:
		return true
	}
	return false
}

// persistPops: a flushed private layer is gone afterwards.
func persistPops(m *model, o op) bool {
	switch o.Kind {
	case opPersist, opPersistSync, opPersistPrivate:
		return m.kinds[o.Layer-1] == 'p' && !refused(m, o)
	}
	return false
}

func applyModel(m *model, sc *scen, o op) {
	if refused(m, o) {
		return
	}
	switch o.Kind {
	case opPut:
		m.ly[o.Layer-1][sc.Keys[o.Key]] = vals[o.Val]
	case opDel:
		m.ly[o.Layer-1][sc.Keys[o.Key]] = nil
	case opPersist, opPersistSync, opPersistPrivate:
		i := o.Layer - 1
		private := m.kinds[i] == 'p'
		m.flush(i)
		if private {
			m.pop()
		}
	case opChangeSet:
		cs := level{sc.Keys[o.Key]: vals[o.Val]}
		if o.Key2 >= 0 {
			cs[sc.Keys[o.Key2]] = nil
		}
		m.writeBackend(cs)
	case opGC:
		for k, v := range m.be {
			if strings.HasPrefix(k, sc.Base) && v != nil && len(v) == 0 {
				delete(m.be, k)
			}
		}
	case opReopen:
		for i := range m.ly {
			m.ly[i] = level{} // pending changes die with the process
		}
	}
}

// ---- the real stack -----------------------------------------------------------

// env holds the disk backends of one worker; they are opened once (real files
// in a private scratch directory) and wiped between cases.
type env struct {
	dir   string
	clean func()
	bolt  *storage.BoltDBStore
	lvl   *storage.LevelDBStore

	lvlDir   string
	lvlUses  int
	boltPath string
	ro       map[string]storage.Store
}

func newEnv() *env {
	d, c := vk.Scratch("c09-")
	return &env{dir: d, clean: c}
}

func (e *env) close() {
	if e.bolt != nil {
		_ = e.bolt.Close()
	}
	if e.lvl != nil {
		_ = e.lvl.Close()
	}
	for _, st := range e.ro {
		_ = st.Close()
	}
	e.clean()
}

var envSeq vk.Counter

// open goes through storage.NewStore (the configuration-driven constructor the
// node uses) and insists on the configured implementation.
func open(kind, path string, ro bool) storage.Store {
	var cfg dbconfig.DBConfiguration
	switch kind {
	case "mem":
		cfg.Type = dbconfig.InMemoryDB
	case "bolt":
		cfg.Type = dbconfig.BoltDB
		cfg.BoltDBOptions = dbconfig.BoltDBOptions{FilePath: path, ReadOnly: ro}
	case "level":
		cfg.Type = dbconfig.LevelDB
		cfg.LevelDBOptions = dbconfig.LevelDBOptions{DataDirectoryPath: path, ReadOnly: ro}
	}
	st, err := storage.NewStore(cfg)
	if err != nil {
		panic(fmt.Sprintf("NewStore(%s): %v", kind, err))
	}
	ok := false
	switch kind {
	case "mem":
		_, ok = st.(*storage.MemoryStore)
	case "bolt":
		_, ok = st.(*storage.BoltDBStore)
	case "level":
		_, ok = st.(*storage.LevelDBStore)
	}
	if !ok {
		panic(fmt.Sprintf("NewStore(%s) returned %T", kind, st))
	}
	return st
}

func isRO(kind string) bool { return strings.HasSuffix(kind, "-ro") }

func (e *env) backend(kind string, sc *scen) storage.Store {
	switch kind {
	case "mem":
		return open("mem", "", false)
	case "bolt":
		if e.bolt == nil {
			envSeq.Inc()
			e.boltPath = fmt.Sprintf("%s/bolt-%d.db", e.dir, envSeq.Get())
			e.bolt = open("bolt", e.boltPath, false).(*storage.BoltDBStore)
		}
		return e.bolt
	case "level":
		// every case adds table files (one per committed transaction); start
		// over with an empty database regularly to keep iterators cheap.
		if e.lvlUses++; e.lvl != nil && e.lvlUses%30 == 0 {
			_ = e.lvl.Close()
			e.lvl = nil
			_ = os.RemoveAll(e.lvlDir)
		}
		if e.lvl == nil {
			envSeq.Inc()
			e.lvlDir = fmt.Sprintf("%s/level-%d", e.dir, envSeq.Get())
			e.lvl = open("level", e.lvlDir, false).(*storage.LevelDBStore)
		}
		return e.lvl
	case "bolt-ro", "level-ro":
		// a database holding the scenario's initial content, reopened read-only:
		// every write to it fails, so one instance per scenario serves all cases.
		key := kind + "/" + sc.Name + fmt.Sprint(len(sc.Keys))
		if st := e.ro[key]; st != nil {
			return st
		}
		envSeq.Inc()
		base := strings.TrimSuffix(kind, "-ro")
		path := fmt.Sprintf("%s/%s-ro-%d", e.dir, base, envSeq.Get())
		rw := open(base, path, false)
		a, b := splitCS(level(sc.BeInit))
		if err := rw.PutChangeSet(a, b); err != nil {
			panic(err)
		}
		if err := rw.Close(); err != nil {
			panic(err)
		}
		st := open(base, path, true)
		if e.ro == nil {
			e.ro = map[string]storage.Store{}
		}
		e.ro[key] = st
		return st
	}
	panic("backend kind " + kind)
}

// reopened returns the disk backend of this worker opened again from its files
// after it has been closed (a node restart).
func (e *env) reopened(kind string) storage.Store {
	switch kind {
	case "bolt":
		e.bolt = open("bolt", e.boltPath, false).(*storage.BoltDBStore)
		return e.bolt
	case "level":
		e.lvl = open("level", e.lvlDir, false).(*storage.LevelDBStore)
		return e.lvl
	}
	panic("reopen " + kind)
}

// drop forgets a disk backend whose state can not be trusted any more (panic).
func (e *env) drop(kind string) {
	switch kind {
	case "bolt":
		if e.bolt != nil {
			_ = e.bolt.Close()
			e.bolt = nil
		}
	case "level":
		if e.lvl != nil {
			_ = e.lvl.Close()
			e.lvl = nil
		}
	default:
		for k, st := range e.ro {
			_ = st.Close()
			delete(e.ro, k)
		}
	}
}

type rstack struct {
	env    *env
	sc     *scen
	beKind string
	be     storage.Store
	ly     []*storage.MemCachedStore
	daos   []*dao.Simple // parallel to ly when the stack was built through dao.Simple
}

func splitCS(cs level) (map[string][]byte, map[string][]byte) {
	mem, stor := map[string][]byte{}, map[string][]byte{}
	for k, v := range cs {
		if k[0] == byte(storage.STStorage) || k[0] == byte(storage.STTempStorage) {
			stor[k] = v
		} else {
			mem[k] = v
		}
	}
	return mem, stor
}

// newStack builds backend + layers. A disk backend is first brought to the
// scenario's initial content (strays of a previous case are deleted in the same
// batch). Stacks whose lowest layer is a regular one are built the way the node
// does it: dao.NewSimple(backend), then GetWrapped()/GetPrivate().
func newStack(e *env, sc *scen, beKind, shape string) *rstack {
	s := &rstack{env: e, sc: sc, beKind: beKind, be: e.backend(beKind, sc)}
	if !isRO(beKind) {
		init := level{}
		if beKind != "mem" {
			s.be.Seek(storage.SeekRange{}, func(k, v []byte) bool {
				init[string(k)] = nil
				return true
			})
		}
		for k, v := range sc.BeInit {
			init[k] = v
		}
		a, b := splitCS(init)
		if err := s.be.PutChangeSet(a, b); err != nil {
			panic(err)
		}
	}
	s.buildLayers(shape)
	for k, v := range sc.L1Init {
		if v == nil {
			s.ly[0].Delete([]byte(k))
		} else {
			s.ly[0].Put([]byte(k), v)
		}
	}
	return s
}

func (s *rstack) buildLayers(shape string) {
	s.ly, s.daos = nil, nil
	if shape == "" {
		return // every layer was a flushed private one: the bare database is left
	}
	if shape[0] == 'r' {
		d := dao.NewSimple(s.be, false)
		s.daos = append(s.daos, d)
		s.ly = append(s.ly, d.Store)
		for i := 1; i < len(shape); i++ {
			if shape[i] == 'r' {
				d = d.GetWrapped()
			} else {
				d = d.GetPrivate()
			}
			s.daos = append(s.daos, d)
			s.ly = append(s.ly, d.Store)
		}
		return
	}
	var lower storage.Store = s.be
	for i := range shape {
		var c *storage.MemCachedStore
		if shape[i] == 'r' {
			c = storage.NewMemCachedStore(lower)
		} else {
			c = storage.NewPrivateMemCachedStore(lower)
		}
		s.ly = append(s.ly, c)
		lower = c
	}
}

func (s *rstack) daoKey(k string) ([]byte, bool) {
	if s.daos != nil && s.sc.Class == "S" && strings.HasPrefix(k, baseS) {
		return []byte(k[len(baseS):]), true
	}
	return nil, false
}

// apply runs one operation on the real stack; the result is "ok" or a
// description of what went wrong.
func (s *rstack) apply(m *model, o op) (res string) {
	defer func() {
		if r := recover(); r != nil {
			res = fmt.Sprintf("panic: %v", r)
		}
	}()
	sc := s.sc
	switch o.Kind {
	case opPut:
		k := sc.Keys[o.Key]
		if uk, ok := s.daoKey(k); ok && o.Layer == len(s.ly) {
			// top layer: the way a contract writes (System.Storage.Put / Local.Put)
			if err := interopPut(newIC(s.daos[o.Layer-1]), uk, vals[o.Val], o.Key); err != nil {
				return "error: " + err.Error()
			}
		} else if ok {
			s.daos[o.Layer-1].PutStorageItem(daoID, uk, vals[o.Val])
		} else {
			s.ly[o.Layer-1].Put([]byte(k), vals[o.Val])
		}
	case opDel:
		k := sc.Keys[o.Key]
		if uk, ok := s.daoKey(k); ok && o.Layer == len(s.ly) {
			if err := interopDelete(newIC(s.daos[o.Layer-1]), uk, o.Key); err != nil {
				return "error: " + err.Error()
			}
		} else if ok {
			s.daos[o.Layer-1].DeleteStorageItem(daoID, uk)
		} else {
			s.ly[o.Layer-1].Delete([]byte(k))
		}
	case opPersist, opPersistSync:
		i := o.Layer - 1
		want := len(m.ly[i])
		var n int
		var err error
		switch {
		case s.daos != nil && o.Kind == opPersist:
			n, err = s.daos[i].Persist()
		case s.daos != nil:
			n, err = s.daos[i].PersistSync()
		case o.Kind == opPersist:
			n, err = s.ly[i].Persist()
		default:
			n, err = s.ly[i].PersistSync()
		}
		if refused(m, o) {
			if err == nil {
				return "ok-but-no-error-from-read-only-backend"
			}
			return "ok-refused"
		}
		if err != nil {
			return "error: " + err.Error()
		}
		if n != want {
			res = fmt.Sprintf("persisted %d keys, layer held %d", n, want)
		}
		if m.kinds[i] == 'p' {
			s.pop()
		}
		if res != "" {
			return res
		}
	case opPersistPrivate:
		i := o.Layer - 1
		want := len(m.ly[i])
		var n int
		if s.daos != nil {
			n = s.daos[i-1].PersistPrivate(s.daos[i])
		} else {
			n = s.ly[i-1].PersistPrivate(s.ly[i])
		}
		s.pop()
		if n != want {
			return fmt.Sprintf("persisted %d keys, layer held %d", n, want)
		}
	case opChangeSet:
		cs := level{sc.Keys[o.Key]: vals[o.Val]}
		if o.Key2 >= 0 {
			cs[sc.Keys[o.Key2]] = nil
		}
		a, b := splitCS(cs)
		if err := s.be.PutChangeSet(a, b); err != nil {
			if refused(m, o) {
				return "ok-refused"
			}
			return "error: " + err.Error()
		}
	case opGC:
		err := s.be.SeekGC(storage.SeekRange{Prefix: []byte(sc.Base)}, func(k, v []byte) (bool, bool) {
			return len(v) != 0, true
		})
		if err != nil {
			if refused(m, o) {
				return "ok-refused"
			}
			return "error: " + err.Error()
		}
	case opReopen:
		// Close of a layer closes all the stores below it, the database included.
		// (a flushed private layer is gone: with no layer left the database itself is closed)
		var top storage.Store = s.be
		if len(s.ly) > 0 {
			top = s.ly[len(s.ly)-1]
		}
		if err := top.Close(); err != nil {
			return "error: Close: " + err.Error()
		}
		s.be = s.env.reopened(s.beKind)
		s.buildLayers(string(m.kinds))
	}
	return "ok"
}

func (s *rstack) pop() {
	s.ly = s.ly[:len(s.ly)-1]
	if s.daos != nil {
		s.daos = s.daos[:len(s.daos)-1]
	}
}
