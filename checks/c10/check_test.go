// C10: the state trie is a canonical authenticated map (DESIGN.md section 4, C10).
//
// Bounded exhaustive exploration on the real mpt.Trie / mpt.VerifyProof /
// mpt.TrieStore with a Go map as the model and an independent reference trie
// (ref_test.go) as the oracle for roots, stored nodes and proofs.
//
//	part A  every sequence of single operations (Put/Delete over the key
//	        universe, Flush, Flush+Collapse(d), Flush+reload) up to a depth
//	part B  batches: every (base batch, persistence step, batch) combination
//	        and (base batch, single op, batch) over small key sets, each key of
//	        the second batch in {absent, delete, put a, put b}
//	part C  proof tampering: the whole tamper menu on every proof of every
//	        root of a scenario (all contents over a key subset)
//	part D  range queries: the whole Find / TrieStore.Seek query matrix on
//	        every content of a family
//	part R  read operations (Find / Get / GetProof / TrieStore.Seek /
//	        Collapse) as history steps on the same trie object (reads_test.go)
//
// After every step of parts A and B: StateRoot against the reference (and the
// reference against fresh tries filled in sorted order, in reverse order and
// by one batch), Get of every key of the universe, GetProof (must be the path
// of the reference trie) + VerifyProof for present keys, failing GetProof and
// failing VerifyProof of the partial path for absent keys, proofs made before
// the step against the root after it, Find on the live trie; then on a second
// instance of the same history: Flush, a walk over the nodes stored under the
// root (hashes, the three invariants of doc.go, exactly the node set of the
// reference trie, spelled content = model), reload from the root hash with
// Get/GetProof/Find, TrieStore.Get/Seek in both directions.
//
// Deliberately not asserted (not promised by the property or by doc comments):
//   - Find with maxNum <= 0 (maxNum 0 returns one element when the start node
//     is a leaf);
//   - whether "no results" of Find is an error or an empty list;
//   - keys strictly extending prefix+start in a backwards Seek;
//   - that Put refuses empty keys / nil values / oversized arguments (only:
//     a refused Put or Delete changes nothing);
//   - refcounts, garbage and deletion of stored nodes (C11).
package c10

import (
	"bytes"
	"encoding/json"
	"errors"
	"fmt"
	"os"
	"runtime/debug"
	"runtime/pprof"
	"sort"
	"strings"
	"sync"
	"testing"
	"time"

	"github.com/nspcc-dev/neo-go/pkg/core/mpt"
	"github.com/nspcc-dev/neo-go/pkg/core/storage"
	"github.com/nspcc-dev/neo-go/pkg/util"

	"verif/lib/vk"
)

// assertReadsAfterFind: Trie.Find called on a trie with unflushed changes used
// to replace the in-memory nodes it visited by hash nodes that were not in the
// store yet, so Get/Put on that trie failed until Flush. The first round only
// counted this (coverage key reads_broken_after_find_on_unflushed_trie); it
// was a genuine defect ("reads ... agree with that content"), repaired in
// a610538, and is asserted since the second round (here after a single Find,
// systematically with reads as history steps in part R, reads_test.go).
const assertReadsAfterFind = true

// ---- universe -------------------------------------------------------------------

type uni struct {
	Name string
	Keys [][]byte
	KN   []string
	Vals [][]byte
	VN   []string
	QP   [][]byte // prefixes queried after every step
}

func maxKey() []byte {
	k := make([]byte, mpt.MaxKeyLength)
	for i := range k {
		k[i] = 0xab
	}
	k[0], k[1] = 0x12, 0x34
	return k
}

var bigVal = func() []byte {
	v := make([]byte, mpt.MaxValueLength)
	for i := range v {
		v[i] = byte(i*7 + 1)
	}
	return v
}()

var tooBigVal = make([]byte, mpt.MaxValueLength+1)

// longKey extends kmax by one byte: one byte more than any key the trie accepts.
var longKey = append(maxKey(), 0xab)

// The key universe: k12 is a prefix of k1201/k1234/k123456/k1235/kmax, k1234
// is a prefix of k123456 and kmax, k1234/k1235 share three nibbles, k1201 has
// a zero nibble right after k12, k02/k12/k20 differ in the first nibble,
// kmax has the maximal length.
func universe() *uni {
	u := &uni{Name: "U8"}
	add := func(n string, k []byte) { u.KN = append(u.KN, n); u.Keys = append(u.Keys, k) }
	add("k12", []byte{0x12})
	add("k1201", []byte{0x12, 0x01})
	add("k1234", []byte{0x12, 0x34})
	add("k123456", []byte{0x12, 0x34, 0x56})
	add("k1235", []byte{0x12, 0x35})
	add("k20", []byte{0x20})
	add("kmax", maxKey())
	add("k02", []byte{0x02})
	u.Vals = [][]byte{{0xaa}, {0xbb, 0xbb}, {}, bigVal}
	u.VN = []string{"a", "b", "empty", "big"}
	u.QP = [][]byte{{}, {0x12}, {0x12, 0x34}, {0x12, 0x01}, {0x12, 0x34, 0xab}, {0x20}, {0x13}}
	return u
}

// tinyUniverse is for the deep plans in the refcounting modes: two keys that
// get the same value (the leaf's hash depends on the value only, so deleting
// its only holder drops the stored leaf to count 0 and putting the value under
// any key re-creates a node with the same hash) and one key sharing three
// nibbles with the second.
func tinyUniverse() *uni {
	u := &uni{Name: "U3"}
	u.KN = []string{"k1201", "k1234", "k1235"}
	u.Keys = [][]byte{{0x12, 0x01}, {0x12, 0x34}, {0x12, 0x35}}
	u.Vals = [][]byte{{0xaa}, {0xbb, 0xbb}}
	u.VN = []string{"a", "b"}
	u.QP = [][]byte{{}, {0x12}, {0x12, 0x34}, {0x13}}
	return u
}

func universeByName(n string) *uni {
	if n == "U3" {
		return tinyUniverse()
	}
	return universe()
}

func (u *uni) ck(c []int8) string {
	b := make([]byte, 0, len(c)+3)
	b = append(b, u.Name...)
	b = append(b, ':')
	for _, v := range c {
		b = append(b, byte(v+1))
	}
	return string(b)
}

func (u *uni) mkModel(c []int8) map[string][]byte {
	m := map[string][]byte{}
	for i, v := range c {
		if v >= 0 {
			m[string(u.Keys[i])] = u.Vals[v]
		}
	}
	return m
}

func (u *uni) ref(c []int8) *refTrie {
	return refFor(u.ck(c), func() map[string][]byte { return u.mkModel(c) })
}

// model returns the (shared, read-only) content map.
func (u *uni) model(c []int8) map[string][]byte { return u.ref(c).m }

func (u *uni) show(c []int8) string {
	var p []string
	for i, v := range c {
		if v >= 0 {
			p = append(p, u.KN[i]+"="+u.VN[v])
		}
	}
	return "{" + strings.Join(p, ",") + "}"
}

// ---- operations -------------------------------------------------------------------

type opSpec struct {
	K     string `json:"k"` // put del batch flush collapse reload
	Key   int    `json:"key,omitempty"`
	Val   int    `json:"val,omitempty"`
	D     int    `json:"d,omitempty"`
	Batch []int8 `json:"batch,omitempty"` // per universe key: 0 absent, 1 delete, 2+i put value i
	// part R (reads_test.go): K "read"
	R       *readSpec `json:"r,omitempty"`
	Block   string    `json:"block,omitempty"` // K "readblock": core | core-reversed
	Probing bool      `json:"probing,omitempty"`
}

func (o opSpec) name(u *uni) string {
	switch o.K {
	case "put":
		return "Put(" + u.KN[o.Key] + "," + u.VN[o.Val] + ")"
	case "del":
		return "Delete(" + u.KN[o.Key] + ")"
	case "flush":
		return "Flush"
	case "collapse":
		return fmt.Sprintf("Flush+Collapse(%d)", o.D)
	case "reload":
		return "Flush+Reload"
	case "read":
		return o.R.name(u)
	case "readblock":
		return "ReadBlock(" + o.Block + ")"
	case "batch":
		var p []string
		for i, b := range o.Batch {
			switch {
			case b == 1:
				p = append(p, u.KN[i]+"=del")
			case b >= 2:
				p = append(p, u.KN[i]+"="+u.VN[b-2])
			}
		}
		return "PutBatch{" + strings.Join(p, ",") + "}"
	}
	return "?" + o.K
}

func opNames(u *uni, ops []opSpec) []string {
	r := make([]string, len(ops))
	for i, o := range ops {
		r[i] = o.name(u)
	}
	return r
}

func modeName(m mpt.TrieMode) string {
	switch m {
	case mpt.ModeAll:
		return "ModeAll"
	case mpt.ModeLatest:
		return "ModeLatest"
	case mpt.ModeGC:
		return "ModeGC"
	}
	return fmt.Sprintf("Mode%d", m)
}

// ---- instance ---------------------------------------------------------------------

type inst struct {
	u     *uni
	mode  mpt.TrieMode
	ms    *storage.MemoryStore
	st    *storage.MemCachedStore
	tr    *mpt.Trie
	c     []int8
	idx   uint32
	dirty bool
	repr  string
	dead  bool
}

func newInst(u *uni, mode mpt.TrieMode) *inst {
	in := &inst{u: u, mode: mode, ms: storage.NewMemoryStore(), c: make([]int8, len(u.Keys)), repr: "new"}
	in.st = storage.NewMemCachedStore(in.ms)
	in.tr = mpt.NewTrie(nil, mode, in.st)
	for i := range in.c {
		in.c[i] = -1
	}
	return in
}

func trieAt(root util.Uint256, mode mpt.TrieMode, st *storage.MemCachedStore) *mpt.Trie {
	if root == (util.Uint256{}) {
		return mpt.NewTrie(nil, mode, st)
	}
	return mpt.NewTrie(mpt.NewHashNode(root), mode, st)
}

func (in *inst) flush() {
	in.tr.Flush(in.idx)
	in.idx++
	in.dirty = false
}

// apply runs one operation on the real trie and on the model. "" = as expected.
func (in *inst) apply(o opSpec) (res string) {
	defer func() {
		if r := recover(); r != nil {
			in.dead = true
			res = fmt.Sprintf("panic: %v", r)
		}
	}()
	u := in.u
	switch o.K {
	case "put":
		if err := in.tr.Put(u.Keys[o.Key], u.Vals[o.Val]); err != nil {
			return "err: " + err.Error()
		}
		in.c[o.Key] = int8(o.Val)
		in.dirty = true
	case "del":
		if err := in.tr.Delete(u.Keys[o.Key]); err != nil {
			return "err: " + err.Error()
		}
		in.c[o.Key] = -1
		in.dirty = true
	case "batch":
		m := map[string][]byte{}
		for i, b := range o.Batch {
			switch {
			case b == 1:
				m["\x70"+string(u.Keys[i])] = nil
			case b >= 2:
				m["\x70"+string(u.Keys[i])] = u.Vals[b-2]
			}
		}
		n, err := in.tr.PutBatch(mpt.MapToMPTBatch(m))
		if err != nil {
			return "err: " + err.Error()
		}
		if n != len(m) {
			return fmt.Sprintf("err: PutBatch processed %d of %d elements without an error", n, len(m))
		}
		for i, b := range o.Batch {
			switch {
			case b == 1:
				in.c[i] = -1
			case b >= 2:
				in.c[i] = b - 2
			}
		}
		in.dirty = true
	case "flush":
		in.flush()
		in.repr = "flushed"
	case "collapse":
		in.flush()
		in.tr.Collapse(o.D)
		in.repr = fmt.Sprintf("collapsed%d", o.D)
	case "reload":
		in.flush()
		root := in.tr.StateRoot()
		if _, err := in.st.Persist(); err != nil {
			return "err: persist: " + err.Error()
		}
		in.st = storage.NewMemCachedStore(in.ms)
		in.tr = trieAt(root, in.mode, in.st)
		in.repr = "reloaded"
	default:
		panic("bad op " + o.K)
	}
	return ""
}

// ---- models of the range queries -----------------------------------------------------

type kvp struct{ k, v []byte }

func sortedKeys(m map[string][]byte) []string {
	ks := make([]string, 0, len(m))
	for k := range m {
		ks = append(ks, k)
	}
	sort.Strings(ks)
	return ks
}

// modelFind: keys with the prefix, not less than prefix+from, without
// prefix+from itself when from is not nil (doc comments of Trie.Find and
// stateroot.Module.FindStates), ascending, at most max.
func modelFind(m map[string][]byte, prefix, from []byte, max int) []kvp {
	var r []kvp
	pf := string(prefix) + string(from)
	for _, k := range sortedKeys(m) {
		if !strings.HasPrefix(k, string(prefix)) {
			continue
		}
		if from != nil && k <= pf {
			continue
		}
		r = append(r, kvp{[]byte(k), m[k]})
		if len(r) == max {
			break
		}
	}
	return r
}

// modelSeek: keys with the prefix starting from prefix+start (inclusive) in
// the direction asked for (doc comment of storage.SeekRange). amb are keys
// strictly extending prefix+start in a backwards seek: whether those belong to
// the result is not stated (memory and disk stores of the repository
// disagree), so they are ignored on both sides.
func modelSeek(m map[string][]byte, prefix, start []byte, backwards bool) (r []kvp, amb map[string]bool) {
	ps := string(prefix) + string(start)
	amb = map[string]bool{}
	ks := sortedKeys(m)
	if backwards {
		sort.Sort(sort.Reverse(sort.StringSlice(ks)))
	}
	for _, k := range ks {
		if !strings.HasPrefix(k, string(prefix)) {
			continue
		}
		if len(start) > 0 {
			if !backwards && k < ps {
				continue
			}
			if backwards && k > ps {
				if strings.HasPrefix(k, ps) {
					amb[k] = true
				}
				continue
			}
		}
		r = append(r, kvp{[]byte(k), m[k]})
	}
	return r, amb
}

func showKVs(l []kvp) string {
	var p []string
	for _, e := range l {
		if len(e.v) > 8 {
			p = append(p, fmt.Sprintf("%s=<%d bytes>", shortHex(e.k), len(e.v)))
		} else {
			p = append(p, fmt.Sprintf("%s=%x", shortHex(e.k), e.v))
		}
	}
	return "[" + strings.Join(p, " ") + "]"
}

func sameKVs(a, b []kvp) bool {
	if len(a) != len(b) {
		return false
	}
	for i := range a {
		if !bytes.Equal(a[i].k, b[i].k) || !bytes.Equal(a[i].v, b[i].v) {
			return false
		}
	}
	return true
}

// doFind calls Trie.Find and compares with the model; "" = agrees.
func doFind(tr *mpt.Trie, m map[string][]byte, prefix, from []byte, max int) (bad string) {
	defer func() {
		if r := recover(); r != nil {
			bad = fmt.Sprintf("panic: %v", r)
		}
	}()
	want := modelFind(m, prefix, from, max)
	res, err := tr.Find(prefix, from, max)
	if len(want) == 0 {
		// "no results" may be an error (ErrNotFound for an unused prefix) or an empty list.
		if err != nil || len(res) == 0 {
			return ""
		}
	} else if err != nil {
		return fmt.Sprintf("error %q, want %s", err, showKVs(want))
	}
	got := make([]kvp, len(res))
	for i, e := range res {
		got[i] = kvp{e.Key, e.Value}
	}
	if !sameKVs(got, want) {
		return fmt.Sprintf("got %s want %s", showKVs(got), showKVs(want))
	}
	return ""
}

// doSeek calls TrieStore.Seek and compares with the model. stop > 0: the
// callback returns false at the stop-th element. cls classifies a mismatch.
func doSeek(ts *mpt.TrieStore, m map[string][]byte, prefix, start []byte, backwards bool, stop int) (bad, cls string) {
	return doSeekP(ts, storage.STStorage, m, prefix, start, backwards, stop)
}

func doSeekP(ts *mpt.TrieStore, sp storage.KeyPrefix, m map[string][]byte, prefix, start []byte, backwards bool, stop int) (bad, cls string) {
	defer func() {
		if r := recover(); r != nil {
			bad, cls = fmt.Sprintf("panic: %v", r), "panic"
		}
	}()
	want, amb := modelSeek(m, prefix, start, backwards)
	var got []kvp
	n := 0
	full := append([]byte{byte(sp)}, prefix...)
	badKey := ""
	ts.Seek(storage.SeekRange{Prefix: full, Start: start, Backwards: backwards}, func(k, v []byte) bool {
		n++
		if len(k) == 0 || k[0] != byte(sp) {
			badKey = fmt.Sprintf("key %x lacks the storage prefix", k)
			return false
		}
		if !amb[string(k[1:])] {
			got = append(got, kvp{bytes.Clone(k[1:]), bytes.Clone(v)})
		}
		return stop <= 0 || n < stop
	})
	if badKey != "" {
		return badKey, "key"
	}
	if stop > 0 {
		if n > stop {
			return fmt.Sprintf("callback called %d times after returning false at call %d", n, stop), "stop"
		}
		if len(amb) == 0 && len(want) > stop {
			want = want[:stop]
		} else if len(amb) != 0 {
			// cannot tell how many unambiguous elements fit: compare the common part
			if len(got) > len(want) {
				return fmt.Sprintf("got %s want a prefix of %s", showKVs(got), showKVs(want)), "extra"
			}
			want = want[:len(got)]
		}
	}
	if !sameKVs(got, want) {
		ws, gs := map[string]bool{}, map[string]bool{}
		for _, e := range want {
			ws[string(e.k)] = true
		}
		for _, e := range got {
			gs[string(e.k)] = true
		}
		cls = "order-or-value"
		for k := range ws {
			if !gs[k] {
				cls = "missing"
			}
		}
		for k := range gs {
			if !ws[k] {
				if cls == "missing" {
					cls = "missing+extra"
				} else {
					cls = "extra"
				}
				break
			}
		}
		return fmt.Sprintf("got %s want %s", showKVs(got), showKVs(want)), cls
	}
	return "", ""
}

// ---- statistics ---------------------------------------------------------------------

type stats struct {
	nodes, replays, gets, proofs, verifies, finds, seeks, walks int64
	findBreaksReads, findOnDirty                                int64
	tamperLists, tamperVerifies, tamperAccepted                 int64
	queryContents, queryFinds, querySeeks                       int64
	classes                                                     map[string]int64
	perPart                                                     map[string]int64
	roots                                                       map[util.Uint256]struct{}
	states                                                      map[string]struct{}
	nontrivial                                                  map[string]struct{}
}

func newStats() *stats {
	return &stats{perPart: map[string]int64{}, classes: map[string]int64{}, roots: map[util.Uint256]struct{}{}, states: map[string]struct{}{}, nontrivial: map[string]struct{}{}}
}

type global struct {
	r  *vk.Run
	mu sync.Mutex
	s  *stats
	// first failing case per class of range-query mismatch (classes are
	// properties of (content, query), not of the history)
	qbest  map[string]*queryCase
	qcount map[string]int64
	canon  sync.Map // content key -> string ("" ok / description)
}

func (g *global) merge(s *stats) {
	g.mu.Lock()
	defer g.mu.Unlock()
	t := g.s
	t.nodes += s.nodes
	t.replays += s.replays
	t.gets += s.gets
	t.proofs += s.proofs
	t.verifies += s.verifies
	t.finds += s.finds
	t.seeks += s.seeks
	t.walks += s.walks
	t.findBreaksReads += s.findBreaksReads
	t.findOnDirty += s.findOnDirty
	t.tamperLists += s.tamperLists
	t.tamperVerifies += s.tamperVerifies
	t.tamperAccepted += s.tamperAccepted
	t.queryContents += s.queryContents
	t.queryFinds += s.queryFinds
	t.querySeeks += s.querySeeks
	for k, v := range s.classes {
		t.classes[k] += v
	}
	for k, v := range s.perPart {
		t.perPart[k] += v
	}
	for k := range s.roots {
		t.roots[k] = struct{}{}
	}
	for k := range s.states {
		t.states[k] = struct{}{}
	}
	for k := range s.nontrivial {
		t.nontrivial[k] = struct{}{}
	}
}

// ---- replay records -------------------------------------------------------------------

type caseRec struct {
	Part    string   `json:"part"`
	Uni     string   `json:"universe,omitempty"`
	Mode    byte     `json:"mode"`
	Ops     []opSpec `json:"ops,omitempty"`
	Names   []string `json:"op_names,omitempty"`
	Content string   `json:"content,omitempty"`
	Broken  string   `json:"broken,omitempty"`
	Detail  string   `json:"detail,omitempty"`
	Shape   string   `json:"shape,omitempty"`
	// parts C and D
	Scenario string `json:"scenario,omitempty"`
	CIdx     []int8 `json:"content_idx,omitempty"`
	Query    string `json:"query,omitempty"`
}

// ---- fresh builds of a content (demanded by the property: "same root as a fresh trie
// built from the final contents") -------------------------------------------------------

func (g *global) canonCheck(u *uni, c []int8) string {
	ck := u.ck(c)
	if v, ok := g.canon.Load(ck); ok {
		return v.(string)
	}
	res := func() (res string) {
		defer func() {
			if r := recover(); r != nil {
				res = fmt.Sprintf("panic: %v", r)
			}
		}()
		ref := u.ref(c)
		var idx []int
		for i, v := range c {
			if v >= 0 {
				idx = append(idx, i)
			}
		}
		sort.Slice(idx, func(a, b int) bool { return bytes.Compare(u.Keys[idx[a]], u.Keys[idx[b]]) < 0 })
		build := func(order []int) util.Uint256 {
			tr := mpt.NewTrie(nil, mpt.ModeAll, storage.NewMemCachedStore(storage.NewMemoryStore()))
			for _, i := range order {
				if err := tr.Put(u.Keys[i], u.Vals[c[i]]); err != nil {
					panic(err)
				}
			}
			return tr.StateRoot()
		}
		if r := build(idx); r != ref.root {
			return "fresh trie (sorted insertion) has another root than the reference"
		}
		rev := make([]int, len(idx))
		for i := range idx {
			rev[len(idx)-1-i] = idx[i]
		}
		if r := build(rev); r != ref.root {
			return "fresh trie (reverse insertion) has another root than the reference"
		}
		if len(idx) > 0 {
			m := map[string][]byte{}
			for _, i := range idx {
				m["\x70"+string(u.Keys[i])] = u.Vals[c[i]]
			}
			tr := mpt.NewTrie(nil, mpt.ModeAll, storage.NewMemCachedStore(storage.NewMemoryStore()))
			if n, err := tr.PutBatch(mpt.MapToMPTBatch(m)); err != nil || n != len(m) {
				return fmt.Sprintf("fresh trie (one batch): PutBatch returned %d, %v", n, err)
			}
			if tr.StateRoot() != ref.root {
				return "fresh trie (one batch) has another root than the reference"
			}
		}
		return ""
	}()
	g.canon.Store(ck, res)
	return res
}

// ---- oracles on one instance ----------------------------------------------------------------

func safeVerify(root util.Uint256, key []byte, proof [][]byte) (v []byte, ok bool, pan string) {
	defer func() {
		if r := recover(); r != nil {
			pan = fmt.Sprint(r)
		}
	}()
	v, ok = mpt.VerifyProof(root, key, proof)
	return
}

// soundness of one VerifyProof answer against the content under that root.
func unsound(m map[string][]byte, key []byte, v []byte, ok bool, pan string) string {
	if pan != "" {
		return "panic: " + pan
	}
	if !ok {
		return ""
	}
	want, present := m[string(key)]
	if !present {
		return fmt.Sprintf("verified value %x for the absent key %s", v, shortHex(key))
	}
	if !bytes.Equal(v, want) {
		return fmt.Sprintf("verified value %x for key %s whose stored value is %x", v, shortHex(key), want)
	}
	return ""
}

func sameProof(a, b [][]byte) bool {
	if len(a) != len(b) {
		return false
	}
	for i := range a {
		if !bytes.Equal(a[i], b[i]) {
			return false
		}
	}
	return true
}

// readsOf checks StateRoot and Get of tr against content c; level 1 adds
// GetProof (must be the path of the reference trie), level 2 adds VerifyProof
// of those proofs and of the partial paths of absent keys.
func readsOf(tr *mpt.Trie, u *uni, c []int8, s *stats, what string, level int) (kind, detail string) {
	ref := u.ref(c)
	root := tr.StateRoot()
	if root != ref.root {
		return "root" + what, fmt.Sprintf("StateRoot %s, canonical root of %s is %s", root.StringBE()[:16], u.show(c), ref.root.StringBE()[:16])
	}
	for i, k := range u.Keys {
		v, err := tr.Get(k)
		s.gets++
		if c[i] >= 0 {
			if err != nil {
				return "get" + what, fmt.Sprintf("Get(%s) fails with %q, model has %s", u.KN[i], err, u.VN[c[i]])
			}
			if !bytes.Equal(v, u.Vals[c[i]]) {
				return "get" + what, fmt.Sprintf("Get(%s) returns %d bytes %x.., model has %s", u.KN[i], len(v), v[:min(len(v), 4)], u.VN[c[i]])
			}
		} else if err == nil {
			return "get" + what, fmt.Sprintf("Get(%s) returns %x for an absent key", u.KN[i], v)
		} else if !errors.Is(err, mpt.ErrNotFound) {
			return "get" + what, fmt.Sprintf("Get(%s) of an absent key fails with %q instead of ErrNotFound", u.KN[i], err)
		}
	}
	// a key longer than MaxKeyLength cannot be present
	if v, err := tr.Get(longKey); err == nil {
		return "get" + what, fmt.Sprintf("Get of a %d-byte key returns %x", len(longKey), v)
	}
	if level == 0 {
		return "", ""
	}
	if p, err := tr.GetProof(longKey); err == nil {
		return "proof" + what, fmt.Sprintf("GetProof of a %d-byte key succeeds with %d nodes", len(longKey), len(p))
	} else if level >= 2 {
		if v, ok, pan := safeVerify(root, longKey, p); ok || pan != "" {
			return "proof" + what, fmt.Sprintf("VerifyProof of a %d-byte key = (%x, %v) %s", len(longKey), v, ok, pan)
		}
	}
	for i, k := range u.Keys {
		p, err := tr.GetProof(k)
		s.proofs++
		if c[i] >= 0 {
			if err != nil {
				return "proof" + what, fmt.Sprintf("GetProof(%s) fails with %q for a present key", u.KN[i], err)
			}
			if !sameProof(p, ref.proofs[string(k)]) {
				return "proof" + what, fmt.Sprintf("GetProof(%s) is not the list of serialized nodes on the path (%d nodes, reference has %d)", u.KN[i], len(p), len(ref.proofs[string(k)]))
			}
			if level < 2 {
				continue
			}
			v, ok, pan := safeVerify(root, k, p)
			s.verifies++
			if pan != "" || !ok || !bytes.Equal(v, u.Vals[c[i]]) {
				return "proof" + what, fmt.Sprintf("VerifyProof(root, %s, GetProof(%s)) = (%x.., %v) %s, model has %s", u.KN[i], u.KN[i], v[:min(len(v), 4)], ok, pan, u.VN[c[i]])
			}
		} else {
			if err == nil {
				return "proof" + what, fmt.Sprintf("GetProof(%s) succeeds for an absent key", u.KN[i])
			}
			if level < 2 {
				continue
			}
			v, ok, pan := safeVerify(root, k, p)
			s.verifies++
			if pan != "" || ok {
				return "proof" + what, fmt.Sprintf("VerifyProof(root, %s, partial path of the absent key) = (%x, %v) %s", u.KN[i], v, ok, pan)
			}
		}
	}
	if tr.StateRoot() != root {
		return "root-changed-by-reads" + what, "StateRoot differs after Get/GetProof"
	}
	return "", ""
}

// findsOf: Find(prefix, nil, many) for every standing prefix.
func findsOf(tr *mpt.Trie, u *uni, c []int8, s *stats, what string) (kind, detail string) {
	m := u.model(c)
	for _, p := range u.QP {
		s.finds++
		if bad := doFind(tr, m, p, nil, 1000); bad != "" {
			return "find" + what, fmt.Sprintf("Find(prefix=%s, nil, 1000): %s", shortHex(p), bad)
		}
	}
	return "", ""
}

type explorer struct {
	g    *global
	u    *uni
	mode mpt.TrieMode
	part string
}

func (e *explorer) replay(ops []opSpec, s *stats) (*inst, string) {
	in := newInst(e.u, e.mode)
	s.replays++
	for i, o := range ops {
		if r := in.apply(o); r != "" {
			return in, fmt.Sprintf("step %d %s: %s", i+1, o.name(e.u), r)
		}
	}
	return in, ""
}

func (e *explorer) observe(ops []opSpec, in *inst, prev []int8, s *stats) (kind, detail string) {
	defer func() {
		if r := recover(); r != nil {
			kind, detail = "panic-in-observation", fmt.Sprint(r)
		}
	}()
	u := e.u
	c := in.c
	if bad := e.g.canonCheck(u, c); bad != "" {
		return "fresh-build", bad + " for " + u.show(c)
	}
	if kind, detail = readsOf(in.tr, u, c, s, "", 2); kind != "" {
		return
	}
	root := in.tr.StateRoot()
	m := u.model(c)
	// proofs of the previous content against the new root
	if prev != nil {
		pref := u.ref(prev)
		for i, k := range u.Keys {
			if prev[i] < 0 {
				continue
			}
			v, ok, pan := safeVerify(root, k, pref.proofs[string(k)])
			s.verifies++
			if bad := unsound(m, k, v, ok, pan); bad != "" {
				return "stale-proof", "proof made before the last step, checked against the root after it: " + bad
			}
		}
	}
	// range search on the live trie (last: see assertReadsAfterFind)
	if !in.dirty {
		if kind, detail = findsOf(in.tr, u, c, s, ""); kind != "" {
			return
		}
		if kind, detail = readsOf(in.tr, u, c, s, "-after-find", 0); kind != "" {
			return
		}
	} else {
		// unflushed changes: one Find per fresh instance of the same history
		for qi, p := range u.QP[:3] {
			inq := in
			if qi > 0 {
				var bad string
				if inq, bad = e.replay(ops, s); bad != "" {
					return "nondeterministic-replay", bad
				}
			}
			s.finds++
			s.findOnDirty++
			if bad := doFind(inq.tr, m, p, nil, 1000); bad != "" {
				return "find", fmt.Sprintf("Find(prefix=%s, nil, 1000) on the trie with unflushed changes: %s", shortHex(p), bad)
			}
			if qi == 0 {
				if k2, d2 := readsOf(inq.tr, u, c, &stats{}, "-after-find-on-unflushed-trie", 0); k2 != "" {
					s.findBreaksReads++
					if assertReadsAfterFind {
						return k2, d2
					}
				}
			}
			// whatever Find did to the nodes in memory, Flush must still persist the trie
			if qi == 0 {
				inq.flush()
				if kind, detail = readsOf(trieAt(root, inq.mode, inq.st), u, c, s, "-reloaded-after-find-and-flush", 0); kind != "" {
					return
				}
			}
		}
	}

	// persistence: on a second instance of the same history
	in2, bad := e.replay(ops, s)
	if bad != "" {
		return "nondeterministic-replay", bad
	}
	in2.flush()
	w := &walker{content: map[string][]byte{}, nodes: map[util.Uint256]bool{}}
	st := in2.st
	rc := in2.mode.RC()
	w.get = func(h util.Uint256) ([]byte, error) {
		b, err := st.Get(append([]byte{byte(storage.DataMPT)}, h[:]...))
		if err == nil && rc {
			if len(b) < 5 {
				return nil, fmt.Errorf("stored value shorter than the refcount suffix")
			}
			b = b[:len(b)-5]
		}
		return b, err
	}
	s.walks++
	ref := u.ref(c)
	if root != (util.Uint256{}) {
		w.walk(root, nil, false)
	}
	if w.broken != "" {
		return "stored-structure", w.broken
	}
	if !sameContent(w.content, m) {
		return "stored-content", fmt.Sprintf("nodes stored under the root spell %s, model is %s", showContent(w.content), showContent(m))
	}
	if len(w.nodes) != len(ref.nodes) {
		return "stored-structure", fmt.Sprintf("%d nodes under the root, canonical trie has %d", len(w.nodes), len(ref.nodes))
	}
	for h := range w.nodes {
		if _, ok := ref.nodes[h]; !ok {
			return "stored-structure", "a stored node is not a node of the canonical trie"
		}
	}
	// reload from the store
	tr2 := trieAt(root, in2.mode, st)
	if kind, detail = readsOf(tr2, u, c, s, "-reloaded", 1); kind != "" {
		return
	}
	if kind, detail = findsOf(tr2, u, c, s, "-reloaded"); kind != "" {
		return
	}
	ts := mpt.NewTrieStore(root, in2.mode&^mpt.ModeGCFlag, st)
	for _, p := range u.QP[:4] {
		for _, bw := range []bool{false, true} {
			s.seeks++
			if bad, _ := doSeek(ts, m, p, nil, bw, 0); bad != "" {
				return "seek", fmt.Sprintf("TrieStore.Seek(prefix=%s, no start, backwards=%v): %s", shortHex(p), bw, bad)
			}
		}
	}
	// Billet.Traverse from the root hash: every stored node once per occurrence, in pre-order
	// (history-independent given the walk above: only after short histories here, and on every content of part D)
	if root != (util.Uint256{}) && len(ops) <= 2 {
		var got [][]byte
		bl := mpt.NewBillet(root, in2.mode&^mpt.ModeGCFlag, mpt.DummySTTempStoragePrefix, st)
		if err := bl.Traverse(func(_ []byte, _ mpt.Node, nb []byte) bool { got = append(got, nb); return false }, false); err != nil {
			return "billet-traverse", "Billet.Traverse fails with " + err.Error()
		}
		if !sameProof(got, ref.pre) {
			return "billet-traverse", fmt.Sprintf("Billet.Traverse visits %d nodes, the pre-order of the canonical trie has %d (or they differ)", len(got), len(ref.pre))
		}
	}
	// an operation that is refused (returns an error) changes nothing
	long := longKey
	for _, bad := range []struct {
		n    string
		k, v []byte
	}{{"empty key", []byte{}, []byte{1}}, {"too long key", long, []byte{1}}, {"nil value", u.Keys[0], nil}, {"too long value", u.Keys[0], tooBigVal}} {
		if err := tr2.Put(bad.k, bad.v); err != nil && tr2.StateRoot() != root {
			return "refused-put-changed-root", "Put with " + bad.n + " returns an error and changes StateRoot"
		}
	}
	if err := tr2.Delete(long); err != nil && tr2.StateRoot() != root {
		return "refused-delete-changed-root", "Delete with too long key returns an error and changes StateRoot"
	}
	for i, k := range u.Keys {
		v, err := ts.Get(append([]byte{byte(storage.STStorage)}, k...))
		if (c[i] >= 0) != (err == nil) || (err == nil && !bytes.Equal(v, u.Vals[c[i]])) {
			return "triestore-get", fmt.Sprintf("TrieStore.Get(%s) = %x.., %v; model %s", u.KN[i], v[:min(len(v), 4)], err, u.show(c))
		}
		if err != nil && !errors.Is(err, storage.ErrKeyNotFound) {
			return "triestore-get", fmt.Sprintf("TrieStore.Get(%s) of an absent key fails with %q instead of ErrKeyNotFound", u.KN[i], err)
		}
	}
	// TrieStore over a backend that is not a MemCachedStore (persisted MemoryStore), temp storage prefix
	if len(ops) > 2 {
		return "", ""
	}
	if _, err := st.Persist(); err != nil {
		return "persist", err.Error()
	}
	ts2 := mpt.NewTrieStore(root, in2.mode&^mpt.ModeGCFlag, in2.ms)
	s.seeks++
	if bad, _ := doSeekP(ts2, storage.STTempStorage, m, u.QP[1], nil, false, 0); bad != "" {
		return "seek-plain-store", fmt.Sprintf("TrieStore over a MemoryStore, Seek(temp storage prefix, %s): %s", shortHex(u.QP[1]), bad)
	}
	for i, k := range u.Keys {
		v, err := ts2.Get(append([]byte{byte(storage.STTempStorage)}, k...))
		if (c[i] >= 0) != (err == nil) || (err == nil && !bytes.Equal(v, u.Vals[c[i]])) {
			return "triestore-get-plain-store", fmt.Sprintf("TrieStore over a MemoryStore: Get(%s) = %x.., %v; model %s", u.KN[i], v[:min(len(v), 4)], err, u.show(c))
		}
	}
	return "", ""
}

// node evaluates the history ops (whose proper prefixes are evaluated elsewhere).
// Returns false if it must not be extended.
func (e *explorer) node(ops []opSpec, s *stats) bool {
	s.nodes++
	s.perPart[e.part]++
	u := e.u
	last := ops[len(ops)-1]
	report := func(kind, detail string, in *inst) {
		names := opNames(u, ops)
		key := fmt.Sprintf("%s:%s:%s", kind, modeName(e.mode), strings.Join(names, ","))
		if u.Name != "U8" {
			key = fmt.Sprintf("%s:%s/%s:%s", kind, modeName(e.mode), u.Name, strings.Join(names, ","))
		}
		rec := caseRec{Part: e.part, Uni: u.Name, Mode: byte(e.mode), Ops: ops, Names: names, Broken: kind, Detail: detail}
		if in != nil {
			rec.Content = u.show(in.c)
			rec.Shape = u.ref(in.c).shape
		}
		e.g.r.Violation(key, rec)
	}
	in, bad := e.replay(ops[:len(ops)-1], s)
	if bad != "" {
		return false // reported at the shorter history
	}
	prev := append([]int8{}, in.c...)
	if r := in.apply(last); r != "" {
		kind := "op-failed"
		if in.dead {
			kind = "panic"
		}
		report(kind, last.name(u)+": "+r, nil)
		return false
	}
	kind, detail := e.observe(ops, in, prev, s)
	if kind == "fresh-build" {
		// a property of the content, not of this history
		e.g.r.Violation("fresh-build:"+u.show(in.c), caseRec{Part: e.part, Uni: u.Name, Mode: byte(e.mode), Ops: ops, Names: opNames(u, ops), Broken: kind, Detail: detail, Content: u.show(in.c)})
		return false
	}
	if kind != "" {
		report(kind, detail, in)
		return false
	}
	ref := u.ref(in.c)
	s.roots[ref.root] = struct{}{}
	d := "clean"
	if in.dirty {
		d = "dirty"
	}
	stKey := modeName(e.mode) + "/" + u.ck(in.c) + "/" + in.repr + "/" + d
	s.states[stKey] = struct{}{}
	if len(ref.nodes) > 1 {
		s.nontrivial[stKey] = struct{}{}
	}
	// transition class: operation kind, what it did to the content, shape of the result
	eff := "same-content"
	if u.ck(prev) != u.ck(in.c) {
		pr := u.ref(prev)
		switch {
		case len(ref.nodes) > len(pr.nodes):
			eff = "grew"
		case len(ref.nodes) < len(pr.nodes):
			eff = "shrank"
		default:
			eff = "changed"
		}
	}
	rootT := "empty"
	if len(ref.shape) > 0 && ref.shape != "empty" {
		rootT = ref.shape[:1]
	}
	s.classes[last.K+"/"+in.repr+"/"+eff+"/root="+rootT]++
	if len(ops) <= 3 {
		e.g.r.Sample(caseRec{Part: e.part, Mode: byte(e.mode), Names: opNames(u, ops), Content: u.show(in.c), Shape: ref.shape})
	}
	return true
}

// exact evaluates every history of exactly length l that extends ops (shorter
// ones are evaluated in earlier phases).
func (e *explorer) exact(ops []opSpec, alpha []opSpec, l int, s *stats) {
	if e.g.r.Expired() || e.g.r.TooMany() {
		return
	}
	if len(ops) == l {
		e.node(ops, s)
		return
	}
	for _, o := range alpha {
		e.exact(append(ops[:len(ops):len(ops)], o), alpha, l, s)
	}
}

const lastPhase = 8

func (e *explorer) dfs(ops []opSpec, alpha []opSpec, depth int, s *stats) {
	if e.g.r.Expired() || e.g.r.TooMany() {
		return
	}
	if len(ops) > 0 && !e.node(ops, s) {
		return
	}
	if len(ops) >= depth {
		return
	}
	for _, o := range alpha {
		e.dfs(append(ops[:len(ops):len(ops)], o), alpha, depth, s)
	}
}

// ---- alphabets ------------------------------------------------------------------------------

func persistOps() []opSpec {
	return []opSpec{{K: "flush"}, {K: "collapse", D: 0}, {K: "collapse", D: 1}, {K: "collapse", D: 10}, {K: "reload"}}
}

func singleOps(keys []int, emptyOn []int) []opSpec {
	var a []opSpec
	for _, k := range keys {
		a = append(a, opSpec{K: "put", Key: k, Val: 0})
	}
	for _, k := range keys {
		a = append(a, opSpec{K: "del", Key: k})
	}
	for _, k := range keys {
		a = append(a, opSpec{K: "put", Key: k, Val: 1})
	}
	for _, k := range emptyOn {
		a = append(a, opSpec{K: "put", Key: k, Val: 2})
	}
	return a
}

// allBatches enumerates every batch over keys with each key in choices
// (0 absent, 1 delete, 2 put a, 3 put b, ...), simplest first.
func allBatches(nkeys int, keys []int, choices []int8) []opSpec {
	var out []opSpec
	cur := make([]int8, nkeys)
	var rec func(i int)
	rec = func(i int) {
		if i == len(keys) {
			out = append(out, opSpec{K: "batch", Batch: append([]int8{}, cur...)})
			return
		}
		for _, ch := range choices {
			cur[keys[i]] = ch
			rec(i + 1)
		}
		cur[keys[i]] = 0
	}
	rec(0)
	sort.SliceStable(out, func(a, b int) bool { return batchSize(out[a]) < batchSize(out[b]) })
	return out
}

func batchSize(o opSpec) int {
	n := 0
	for _, b := range o.Batch {
		if b != 0 {
			n++
		}
	}
	return n
}

// ---- part C: proof tampering ----------------------------------------------------------------------

type tamperScenario struct {
	Name string
	Keys []int // universe keys that vary
	Vals []int8
	Ask  []int // keys every tampered list is verified for (besides its own)
}

type proofRec struct {
	ci      int // content index
	key     int
	present bool
	p       [][]byte
}

func permutations(n int) [][]int {
	if n == 1 {
		return [][]int{{0}}
	}
	var out [][]int
	for _, p := range permutations(n - 1) {
		for pos := 0; pos <= len(p); pos++ {
			q := append(append(append([]int{}, p[:pos]...), n-1), p[pos:]...)
			out = append(out, q)
		}
	}
	return out
}

// flipPositions: every byte of small and medium nodes, a fixed subset for huge ones.
func flipPositions(n int) []int {
	var r []int
	if n <= 700 {
		for i := 0; i < n; i++ {
			r = append(r, i)
		}
		return r
	}
	for i := 0; i < 24; i++ {
		r = append(r, i)
	}
	for i := 24; i < n-24; i += 1999 {
		r = append(r, i)
	}
	for i := n - 24; i < n; i++ {
		r = append(r, i)
	}
	return r
}

func leafBytes(v []byte) []byte {
	return append(appendVarUint([]byte{tLeaf}, len(v)), v...)
}

// tamperings calls emit for every element of the tamper menu applied to p.
func tamperings(p [][]byte, pool [][]byte, root util.Uint256, emit func(name string, q [][]byte)) {
	n := len(p)
	cp := func() [][]byte { return append([][]byte{}, p...) }
	emit("empty-list", nil)
	emit("empty-nonnil-list", [][]byte{})
	for i := 0; i < n; i++ {
		emit(fmt.Sprintf("drop[%d]", i), append(cp()[:i], p[i+1:]...))
	}
	for i := 0; i < n; i++ {
		q := append(append(cp()[:i+1:i+1], p[i]), p[i+1:]...)
		emit(fmt.Sprintf("dup[%d]", i), q)
	}
	if n >= 2 && n <= 4 {
		for _, perm := range permutations(n) {
			q := make([][]byte, n)
			for i, j := range perm {
				q[i] = p[j]
			}
			emit(fmt.Sprintf("perm%v", perm), q)
		}
	} else if n > 4 {
		q := cp()
		for i, j := 0, n-1; i < j; i, j = i+1, j-1 {
			q[i], q[j] = q[j], q[i]
		}
		emit("reverse", q)
		emit("rotate-left", append(cp()[1:], p[0]))
		emit("rotate-right", append([][]byte{p[n-1]}, p[:n-1]...))
		for i := 0; i+1 < n; i++ {
			q := cp()
			q[i], q[i+1] = q[i+1], q[i]
			emit(fmt.Sprintf("swap[%d,%d]", i, i+1), q)
		}
	}
	for i := 0; i < n; i++ {
		for j, f := range pool {
			if bytes.Equal(f, p[i]) {
				continue
			}
			q := cp()
			q[i] = f
			emit(fmt.Sprintf("replace[%d]<-pool[%d]", i, j), q)
		}
	}
	for j, f := range pool {
		emit(fmt.Sprintf("append-pool[%d]", j), append(cp(), f))
	}
	for i := 0; i < n; i++ {
		for _, pos := range flipPositions(len(p[i])) {
			masks := []byte{0x01, 0x80, 0xff}
			if len(p[i]) <= 48 {
				masks = []byte{0x01, 0x02, 0x04, 0x08, 0x10, 0x20, 0x40, 0x80, 0xff}
			}
			for _, mk := range masks {
				q := cp()
				q[i] = bytes.Clone(p[i])
				q[i][pos] ^= mk
				emit(fmt.Sprintf("flip[%d][%d]^%02x", i, pos, mk), q)
			}
		}
		if len(p[i]) > 0 {
			q := cp()
			q[i] = p[i][:len(p[i])-1]
			emit(fmt.Sprintf("truncate[%d]", i), q)
		}
		q := cp()
		q[i] = append(bytes.Clone(p[i]), 0)
		emit(fmt.Sprintf("extend[%d]", i), q)
	}
	garbage := [][]byte{{}, {0x00}, {tEmpty}, leafBytes([]byte{}), leafBytes([]byte{0xaa}), leafBytes([]byte{0xbb, 0xbb}), leafBytes([]byte{0xcc}),
		append([]byte{tHash}, root[:]...), bytes.Repeat([]byte{0xff}, 33), {tLeaf, 0xff}, {tExt, 0x00, tEmpty}}
	for gi, gb := range garbage {
		emit(fmt.Sprintf("append-garbage[%d]", gi), append(cp(), gb))
		emit(fmt.Sprintf("prepend-garbage[%d]", gi), append([][]byte{gb}, p...))
		if n > 0 {
			q := cp()
			q[n-1] = gb
			emit(fmt.Sprintf("last<-garbage[%d]", gi), q)
		}
	}
	// forged suffix: another leaf, parents re-linked to it from level j downwards
	if n >= 1 && len(p[n-1]) > 0 && p[n-1][0] == tLeaf {
		for fi, fv := range [][]byte{{0xcc}, {}, {0xbb, 0xbb}, {0xaa}} {
			forged := leafBytes(fv)
			if bytes.Equal(forged, p[n-1]) {
				continue
			}
			for j := n - 1; j >= 0; j-- {
				// nodes j..n-1 are forged consistently, nodes < j are original
				q := cp()
				q[n-1] = forged
				for l := n - 2; l >= j; l-- {
					oldH, newH := dsha(p[l+1]), dsha(q[l+1])
					q[l] = bytes.Replace(p[l], oldH[:], newH[:], 1)
				}
				emit(fmt.Sprintf("forge-leaf[%d]-relinked-from[%d]", fi, j), q)
			}
		}
	}
}

// malformedRoots: node lists whose first node cannot be a node of any trie
// (unknown type, truncated, extension key / leaf value / nesting beyond the
// limits of extension.go, leaf.go and base.go). With the hash of that first
// node as the root nothing is stored under the root, so VerifyProof must fail,
// without a panic, for every key.
func (g *global) malformedRoots(u *uni) {
	r := g.r
	s := newStats()
	leaf := leafBytes([]byte{0xaa})
	hashChild := func(n []byte) []byte { h := dsha(n); return append([]byte{tHash}, h[:]...) }
	ext := func(nib []byte, child []byte) []byte {
		return append(append(appendVarUint([]byte{tExt}, len(nib)), nib...), child...)
	}
	type mcase struct {
		name  string
		nodes [][]byte
		key   []byte
	}
	k69 := append(maxKey(), 0xab)
	big1 := leafBytes(tooBigVal)
	nested := leaf
	for i := 0; i < 140; i++ {
		nested = ext([]byte{1}, nested)
	}
	branchShort := append([]byte{tBranch}, bytes.Repeat([]byte{tEmpty}, 5)...)
	cases := []mcase{
		{"unknown-node-type-05", [][]byte{{0x05}}, nil},
		{"unknown-node-type-ff", [][]byte{append([]byte{0xff}, leaf...)}, nil},
		{"empty-node-bytes", [][]byte{{}}, nil},
		{"truncated-branch", [][]byte{branchShort}, nil},
		{"branch-with-unknown-child-type", [][]byte{append([]byte{tBranch, 0x07}, bytes.Repeat([]byte{tEmpty}, 16)...)}, nil},
		{"truncated-leaf", [][]byte{{tLeaf, 0x03, 0xaa}}, nil},
		{"truncated-extension-key", [][]byte{{tExt, 0x04, 0x01, 0x02}}, []byte{0x12, 0x34}},
		{"extension-without-next", [][]byte{{tExt, 0x02, 0x01, 0x02}}, []byte{0x12}},
		{"extension-key-of-138-nibbles", [][]byte{ext(nibbles(k69), hashChild(leaf)), leaf}, k69},
		{"leaf-value-of-MaxValueLength+1", [][]byte{ext(nibbles(u.Keys[0]), hashChild(big1)), big1}, u.Keys[0]},
		{"leaf-value-of-MaxValueLength+1-as-root", [][]byte{big1}, []byte{}},
		{"140-nested-inline-extensions", [][]byte{nested}, bytes.Repeat([]byte{0x11}, 70)},
	}
	for _, mc := range cases {
		root := dsha(mc.nodes[0])
		keys := [][]byte{mc.key, {}, u.Keys[0], u.Keys[2]}
		for _, k := range keys {
			if k == nil {
				continue
			}
			v, ok, pan := safeVerify(root, k, mc.nodes)
			s.tamperVerifies++
			if ok || pan != "" {
				r.Violation(fmt.Sprintf("malformed-root:%s:key-%s", mc.name, shortHex(k)), caseRec{Part: "C", Scenario: "malformed-roots", Query: mc.name, Broken: "malformed-root",
					Detail: fmt.Sprintf("VerifyProof(hash of the malformed node, %s, nodes) = (%d bytes, %v) %s", shortHex(k), len(v), ok, pan)})
			}
		}
		s.tamperLists++
	}
	s.classes[fmt.Sprintf("C/malformed-roots/cases=%d", len(cases))]++
	g.merge(s)
}

func tamperScenarios(thorough bool) []tamperScenario {
	scs := []tamperScenario{
		{Name: "prefix-chain", Keys: []int{0, 1, 2}, Vals: []int8{0, 1}, Ask: []int{4}},
		{Name: "shared-nibbles-max-key-empty-value", Keys: []int{2, 4, 6}, Vals: []int8{0, 2}, Ask: []int{3}},
		{Name: "first-nibble", Keys: []int{0, 5, 7}, Vals: []int8{0, 2}, Ask: []int{1}},
		{Name: "max-value", Keys: []int{0, 1}, Vals: []int8{3, 0}, Ask: []int{2}},
	}
	if thorough {
		scs = append(scs,
			tamperScenario{Name: "prefix-chain-4", Keys: []int{0, 1, 2, 3}, Vals: []int8{0, 1}, Ask: []int{4}},
			tamperScenario{Name: "shared-nibbles-max-key-empty-value-4", Keys: []int{2, 4, 6, 3}, Vals: []int8{0, 2}, Ask: []int{0}},
			tamperScenario{Name: "first-nibble-3-values", Keys: []int{0, 5, 7}, Vals: []int8{0, 1, 2}, Ask: []int{1}},
			tamperScenario{Name: "five-keys", Keys: []int{0, 1, 2, 4, 5}, Vals: []int8{0, 1}, Ask: []int{3}},
			tamperScenario{Name: "all-keys-one-value", Keys: []int{0, 1, 2, 3, 4, 5, 6, 7}, Vals: []int8{0}})
	}
	return scs
}

func (g *global) partC(sc tamperScenario, u *uni) {
	r := g.r
	// contents
	var contents [][]int8
	cur := make([]int8, len(u.Keys))
	for i := range cur {
		cur[i] = -1
	}
	var rec func(i int)
	rec = func(i int) {
		if i == len(sc.Keys) {
			contents = append(contents, append([]int8{}, cur...))
			return
		}
		for _, v := range append([]int8{-1}, sc.Vals...) {
			cur[sc.Keys[i]] = v
			rec(i + 1)
		}
		cur[sc.Keys[i]] = -1
	}
	rec(0)
	// proofs from the real trie
	var proofs []proofRec
	poolSet := map[string]bool{}
	var pool [][]byte
	fail := false
	for ci, c := range contents {
		in := newInst(u, mpt.ModeAll)
		var b []int8
		for _, v := range c {
			b = append(b, v+2)
			if v < 0 {
				b[len(b)-1] = 0
			}
		}
		if ci%2 == 0 { // half of the tries by one batch, half by single puts
			if len(u.model(c)) > 0 {
				if res := in.apply(opSpec{K: "batch", Batch: b}); res != "" {
					r.Violation(fmt.Sprintf("op-failed:C:%s:%s", sc.Name, u.show(c)), res)
					fail = true
				}
			}
		} else {
			for i, v := range c {
				if v >= 0 {
					in.apply(opSpec{K: "put", Key: i, Val: int(v)})
				}
			}
		}
		if ci%3 == 0 {
			in.apply(opSpec{K: "collapse", D: 0})
		}
		if in.tr.StateRoot() != u.ref(c).root {
			r.Violation(fmt.Sprintf("root:C:%s:%s", sc.Name, u.show(c)), "root differs from the reference")
			fail = true
		}
		for _, k := range sc.Keys {
			p, err := in.tr.GetProof(u.Keys[k])
			if (err == nil) != (c[k] >= 0) {
				r.Violation(fmt.Sprintf("proof:C:%s:%s:%s", sc.Name, u.show(c), u.KN[k]), fmt.Sprintf("GetProof error %v", err))
				fail = true
			}
			proofs = append(proofs, proofRec{ci: ci, key: k, present: c[k] >= 0, p: p})
			for _, nb := range p {
				if !poolSet[string(nb)] {
					poolSet[string(nb)] = true
					pool = append(pool, nb)
				}
			}
		}
	}
	if fail {
		return
	}
	sort.Slice(pool, func(a, b int) bool { return bytes.Compare(pool[a], pool[b]) < 0 })
	ask := map[int]bool{}
	for _, k := range sc.Ask {
		ask[k] = true
	}
	for _, k := range sc.Keys {
		ask[k] = true
	}
	var askKeys []int
	for k := range ask {
		askKeys = append(askKeys, k)
	}
	sort.Ints(askKeys)

	nproofs := vk.Counter{}
	r.Parallel(len(proofs), func(pi int) {
		s := newStats()
		defer g.merge(s)
		pr := proofs[pi]
		c := contents[pr.ci]
		m := u.model(c)
		root := u.ref(c).root
		nproofs.Inc()
		check := func(name string, R util.Uint256, mm map[string][]byte, q [][]byte, cshow string) {
			if r.TooMany() {
				return
			}
			s.tamperLists++
			keys := askKeys
			if strings.HasPrefix(name, "flip") || strings.Contains(name, "pool[") {
				// byte flips and foreign nodes: the key of the proof and one other key
				keys = []int{pr.key, askKeys[0]}
				if askKeys[0] == pr.key {
					keys[1] = askKeys[1]
				}
			}
			for _, k := range keys {
				v, ok, pan := safeVerify(R, u.Keys[k], q)
				s.tamperVerifies++
				if ok {
					s.tamperAccepted++
				}
				if bad := unsound(mm, u.Keys[k], v, ok, pan); bad != "" {
					key := fmt.Sprintf("tamper:%s:root-of%s:proof-of-%s:%s:verify-%s", sc.Name, cshow, u.KN[pr.key], name, u.KN[k])
					r.Violation(key, caseRec{Part: "C", Scenario: sc.Name, CIdx: c, Content: cshow, Query: fmt.Sprintf("proof of %s (%d nodes), tampering %s, verified for %s", u.KN[pr.key], len(pr.p), name, u.KN[k]), Broken: "tamper", Detail: bad})
				}
			}
		}
		// the untouched list: complete for its own key if present
		v, ok, _ := safeVerify(root, u.Keys[pr.key], pr.p)
		if pr.present && (!ok || !bytes.Equal(v, m[string(u.Keys[pr.key])])) {
			r.Violation(fmt.Sprintf("proof:C:%s:%s:%s", sc.Name, u.show(c), u.KN[pr.key]), "own proof does not verify")
		}
		check("untouched", root, m, pr.p, u.show(c))
		tamperings(pr.p, pool, root, func(name string, q [][]byte) {
			check(name, root, m, q, u.show(c))
		})
		// the untouched list against every other root of the scenario
		for ci2, c2 := range contents {
			if ci2 != pr.ci {
				check(fmt.Sprintf("untouched-vs-root-of%s", u.show(c)), u.ref(c2).root, u.model(c2), pr.p, u.show(c2))
			}
		}
	})
	// all nodes of the scenario at once against every root: complete and sound
	s := newStats()
	for _, c := range contents {
		m := u.model(c)
		root := u.ref(c).root
		for _, k := range askKeys {
			v, ok, pan := safeVerify(root, u.Keys[k], pool)
			s.tamperVerifies++
			bad := unsound(m, u.Keys[k], v, ok, pan)
			if _, present := m[string(u.Keys[k])]; bad == "" && present && !ok {
				bad = "present key does not verify although every node is supplied"
			}
			if bad != "" {
				r.Violation(fmt.Sprintf("tamper:%s:root-of%s:whole-pool:verify-%s", sc.Name, u.show(c), u.KN[k]), caseRec{Part: "C", Scenario: sc.Name, CIdx: c, Content: u.show(c), Broken: "tamper-pool", Detail: bad})
			}
		}
		s.tamperLists++
		s.roots[root] = struct{}{}
	}
	s.classes["C/"+sc.Name+fmt.Sprintf("/roots=%d/proofs=%d/pool=%d", len(contents), nproofs.Get(), len(pool))]++
	g.merge(s)
	g.mu.Lock()
	g.s.proofs += nproofs.Get()
	g.mu.Unlock()
}

// ---- part D: the range query matrix --------------------------------------------------------------------

type queryCase struct {
	caseRec
	size int
}

func (g *global) queryFail(cls string, u *uni, c []int8, query, detail string) {
	g.mu.Lock()
	defer g.mu.Unlock()
	g.qcount[cls]++
	n := 0
	for _, v := range c {
		if v >= 0 {
			n++
		}
	}
	qc := &queryCase{caseRec: caseRec{Part: "D", CIdx: append([]int8{}, c...), Content: u.show(c), Query: query, Broken: cls, Detail: detail, Shape: u.ref(c).shape}, size: n*1000 + len(query)}
	b := g.qbest[cls]
	if b == nil || qc.size < b.size || (qc.size == b.size && qc.Content+qc.Query < b.Content+b.Query) {
		g.qbest[cls] = qc
	}
}

func dedupe(l [][]byte) [][]byte {
	seen := map[string]bool{}
	var out [][]byte
	hasNil := false
	for _, b := range l {
		if b == nil {
			if !hasNil {
				hasNil = true
				out = append(out, nil)
			}
			continue
		}
		if !seen[string(b)] {
			seen[string(b)] = true
			out = append(out, b)
		}
	}
	return out
}

func queryPrefixes(u *uni) [][]byte {
	l := [][]byte{{}}
	for _, k := range u.Keys {
		for n := 1; n <= len(k) && n <= 3; n++ {
			l = append(l, k[:n])
		}
		l = append(l, k)
	}
	l = append(l, []byte{0x13}, []byte{0x12, 0x00}, []byte{0xff}, []byte{0x12, 0x34, 0xab}, []byte{0x00}, []byte{0x12, 0x34, 0x56, 0x00})
	return dedupe(l)
}

func queryStarts(u *uni, p []byte) [][]byte {
	l := [][]byte{nil, {}, {0x00}, {0xff}, {0x01}, {0x35}}
	for _, k := range u.Keys {
		if !bytes.HasPrefix(k, p) || len(k) == len(p) {
			continue
		}
		sfx := k[len(p):]
		l = append(l, sfx, append(bytes.Clone(sfx), 0x00), sfx[:len(sfx)-1])
		up := bytes.Clone(sfx)
		up[len(up)-1]++
		l = append(l, up)
		if sfx[len(sfx)-1] > 0 {
			dn := bytes.Clone(sfx)
			dn[len(dn)-1]--
			l = append(l, dn)
		}
	}
	var out [][]byte
	for _, s := range dedupe(l) {
		if len(s) <= mpt.MaxKeyLength-len(p) {
			out = append(out, s)
		}
	}
	return out
}

func (g *global) partD(u *uni, c []int8, s *stats) {
	m := u.model(c)
	s.queryContents++
	build := func(flush bool) *inst {
		in := newInst(u, mpt.ModeAll)
		for i, v := range c {
			if v >= 0 {
				if r := in.apply(opSpec{K: "put", Key: i, Val: int(v)}); r != "" {
					panic(r)
				}
			}
		}
		if flush {
			in.flush()
		}
		return in
	}
	flushed := build(true)
	root := flushed.tr.StateRoot()
	if root != u.ref(c).root {
		g.r.Violation("root:D:"+u.show(c), "root differs from the reference")
		return
	}
	reusedTS := mpt.NewTrieStore(root, mpt.ModeAll, flushed.st)
	for _, p := range queryPrefixes(u) {
		for _, from := range queryStarts(u, p) {
			qn := fmt.Sprintf("prefix=%s from=%s", shortHex(p), shortHex(from))
			if from == nil {
				qn = fmt.Sprintf("prefix=%s from=nil", shortHex(p))
			}
			for _, max := range []int{1, 2, 3, 1000} {
				// (i) trie with unflushed changes, fresh for every query
				s.queryFinds += 2
				if max == 2 || max == 1000 {
					s.queryFinds++
					if bad := doFind(build(false).tr, m, p, from, max); bad != "" {
						g.queryFail("find:unflushed-trie", u, c, qn+fmt.Sprintf(" max=%d", max), bad)
					}
				}
				// (ii) flushed trie, reused for every query
				if bad := doFind(flushed.tr, m, p, from, max); bad != "" {
					g.queryFail("find:flushed-trie", u, c, qn+fmt.Sprintf(" max=%d", max), bad)
				}
				// (iii) trie reloaded from the root hash
				if bad := doFind(trieAt(root, mpt.ModeAll, flushed.st), m, p, from, max); bad != "" {
					g.queryFail("find:reloaded-trie", u, c, qn+fmt.Sprintf(" max=%d", max), bad)
				}
			}
			for _, bw := range []bool{false, true} {
				dir := "fwd"
				if bw {
					dir = "bwd"
				}
				st := "start"
				if len(from) == 0 {
					st = "nostart"
				}
				for _, stop := range []int{0, 1, 2} {
					s.querySeeks += 2
					sq := fmt.Sprintf("prefix=%s start=%s backwards=%v stop-after=%d", shortHex(p), shortHex(from), bw, stop)
					bad1, cls := doSeek(mpt.NewTrieStore(root, mpt.ModeAll, flushed.st), m, p, from, bw, stop)
					if bad1 != "" {
						g.queryFail("seek:"+dir+"-"+st+":"+cls, u, c, sq, bad1)
					}
					if bad, cls := doSeek(reusedTS, m, p, from, bw, stop); bad != "" && bad1 == "" {
						g.queryFail("seek-reused-store:"+dir+"-"+st+":"+cls, u, c, sq, bad)
					}
				}
			}
		}
	}
	// arguments beyond the length limits: refused with an error, or answered like the model
	for _, q := range []struct{ p, f []byte }{{longKey, nil}, {longKey, []byte{}}, {maxKey(), []byte{0x00}}, {[]byte{0x12}, longKey[1:]}, {[]byte{}, longKey}} {
		s.queryFinds++
		res, err := func() (res []storage.KeyValue, err error) {
			defer func() {
				if r := recover(); r != nil {
					err = nil
					res = []storage.KeyValue{{Key: []byte("panic: " + fmt.Sprint(r))}}
				}
			}()
			return trieAt(root, mpt.ModeAll, flushed.st).Find(q.p, q.f, 1000)
		}()
		if err == nil {
			want := modelFind(m, q.p, q.f, 1000)
			got := make([]kvp, len(res))
			for i, e := range res {
				got[i] = kvp{e.Key, e.Value}
			}
			if !sameKVs(got, want) {
				g.queryFail("find:over-length-arguments", u, c, fmt.Sprintf("prefix of %d bytes, from of %d bytes", len(q.p), len(q.f)), fmt.Sprintf("no error, got %s want %s", showKVs(got), showKVs(want)))
			}
		}
	}
	// Billet.Traverse stopped by the callback after n nodes: exactly the first n nodes of the pre-order, no error
	pre := u.ref(c).pre
	for n := 1; n <= len(pre); n++ {
		var got [][]byte
		bl := mpt.NewBillet(root, mpt.ModeAll, mpt.DummySTTempStoragePrefix, flushed.st)
		err := bl.Traverse(func(_ []byte, _ mpt.Node, nb []byte) bool { got = append(got, nb); return len(got) >= n }, false)
		if err != nil || !sameProof(got, pre[:n]) {
			g.queryFail("billet-traverse:stop", u, c, fmt.Sprintf("stop after %d nodes", n), fmt.Sprintf("error %v, %d nodes visited (or other nodes than the first %d of the pre-order)", err, len(got), n))
		}
	}
	// TrieStore over a backend that is not a MemCachedStore, temp storage prefix
	if _, err := flushed.st.Persist(); err != nil {
		g.r.Violation("persist:D:"+u.show(c), err.Error())
	}
	{
		ts2 := mpt.NewTrieStore(root, mpt.ModeAll, flushed.ms)
		for _, p := range [][]byte{{}, {0x12}, {0x12, 0x34}} {
			for _, bw := range []bool{false, true} {
				s.querySeeks++
				if bad, cls := doSeekP(ts2, storage.STTempStorage, m, p, nil, bw, 0); bad != "" {
					g.queryFail("seek-plain-store:"+cls, u, c, fmt.Sprintf("temp storage prefix, prefix=%s backwards=%v", shortHex(p), bw), bad)
				}
			}
		}
		for i, k := range u.Keys {
			v, err := ts2.Get(append([]byte{byte(storage.STTempStorage)}, k...))
			if (c[i] >= 0) != (err == nil) || (err == nil && !bytes.Equal(v, u.Vals[c[i]])) {
				g.queryFail("triestore-get-plain-store", u, c, "Get("+u.KN[i]+")", fmt.Sprintf("%x.., %v", v[:min(len(v), 4)], err))
			}
		}
	}
	// TrieStore is read-only: the documented refusals, and nothing changes
	{
		ts := mpt.NewTrieStore(root, mpt.ModeAll, flushed.st)
		bad := ""
		if _, err := ts.Get([]byte{}); !errors.Is(err, errors.ErrUnsupported) {
			bad = fmt.Sprintf("Get(empty key) = %v, want ErrUnsupported", err)
		}
		if _, err := ts.Get(append([]byte{byte(storage.DataMPT)}, root[:]...)); !errors.Is(err, errors.ErrUnsupported) {
			bad = fmt.Sprintf("Get(non-storage key) = %v, want ErrUnsupported", err)
		}
		if err := ts.PutChangeSet(map[string][]byte{"\x70\x12": {1}}, map[string][]byte{"\x70\x13": {2}}); !errors.Is(err, errors.ErrUnsupported) {
			bad = fmt.Sprintf("PutChangeSet = %v, want ErrUnsupported", err)
		}
		if err := ts.SeekGC(storage.SeekRange{Prefix: []byte{byte(storage.STStorage)}}, func(k, v []byte) (bool, bool) { return false, false }); !errors.Is(err, errors.ErrUnsupported) {
			bad = fmt.Sprintf("SeekGC = %v, want ErrUnsupported", err)
		}
		if b2, _ := doSeek(ts, m, []byte{}, nil, false, 0); b2 != "" && bad == "" {
			bad = "Seek after the refused operations: " + b2
		}
		if err := ts.Close(); err != nil {
			bad = fmt.Sprintf("Close = %v", err)
		}
		if bad != "" {
			g.queryFail("triestore:read-only", u, c, "Get/PutChangeSet/SeekGC/Close", bad)
		}
	}
	// the reused flushed trie still reads correctly after all those queries
	if kind, detail := readsOf(flushed.tr, u, c, s, "-after-queries", 2); kind != "" {
		g.r.Violation(kind+":D:"+u.show(c), detail)
	}
}

func (g *global) flushQueryFindings() {
	g.mu.Lock()
	cls := make([]string, 0, len(g.qbest))
	for k := range g.qbest {
		cls = append(cls, k)
	}
	sort.Strings(cls)
	best := g.qbest
	counts := g.qcount
	g.mu.Unlock()
	for _, k := range cls {
		b := best[k]
		b.Detail = fmt.Sprintf("%s (%d failing (content, query) pairs in this class; this is the smallest)", b.Detail, counts[k])
		g.r.Violation(fmt.Sprintf("%s:%s:%s", k, b.Content, strings.ReplaceAll(b.Query, " ", ",")), b.caseRec)
	}
}

// ---- driver ----------------------------------------------------------------------------------------

func allContents(u *uni, keys []int, vals []int8) [][]int8 {
	var out [][]int8
	cur := make([]int8, len(u.Keys))
	for i := range cur {
		cur[i] = -1
	}
	var rec func(i int)
	rec = func(i int) {
		if i == len(keys) {
			out = append(out, append([]int8{}, cur...))
			return
		}
		for _, v := range append([]int8{-1}, vals...) {
			cur[keys[i]] = v
			rec(i + 1)
		}
		cur[keys[i]] = -1
	}
	rec(0)
	return out
}

type job struct {
	name  string
	phase int // 1: histories of one or two steps, 2..: longer ones of the deep plans by length, lastPhase: the rest (shortest counterexample first)
	run   func(s *stats)
}

func TestCheck(t *testing.T) {
	vk.UseT(t)
	r := vk.Start("C10", "model_checking", 150*time.Second, 24*time.Minute)
	debug.SetMaxStack(128 << 20) // a runaway recursion in the subject should die quickly
	u := universe()
	g := &global{r: r, s: newStats(), qbest: map[string]*queryCase{}, qcount: map[string]int64{}}
	if r.Replay != "" {
		replay(g, u)
		return
	}
	thorough := r.Thorough()
	bounds := map[string]any{}
	if pf := os.Getenv("C10_CPUPROFILE"); pf != "" { // development aid
		if f, err := os.Create(pf); err == nil {
			_ = pprof.StartCPUProfile(f)
			defer pprof.StopCPUProfile()
		}
	}

	only := os.Getenv("C10_PARTS") // development aid: e.g. "AB"; empty = everything
	want := func(p string) bool { return only == "" || strings.Contains(only, p) }

	// ---- part D first (small, and its classes are deterministic when complete)
	var dContents [][]int8
	if want("D") {
		if thorough {
			dContents = append(dContents, allContents(u, []int{0, 1, 2, 3, 4, 5, 6, 7}, []int8{0})...)
			dContents = append(dContents, allContents(u, []int{0, 1, 2, 3, 4, 6}, []int8{0, 2})...)
		} else {
			dContents = append(dContents, allContents(u, []int{0, 1, 2, 4, 6, 7}, []int8{0})...)
			dContents = append(dContents, allContents(u, []int{1, 2, 3, 5}, []int8{2})...)
		}
	}
	r.Parallel(len(dContents), func(i int) {
		s := newStats()
		g.partD(u, dContents[i], s)
		g.merge(s)
	})
	bounds["D_contents"] = len(dContents)
	g.flushQueryFindings()

	// ---- part C
	scs := tamperScenarios(thorough)
	if !want("C") {
		scs = nil
	}
	var scNames []string
	for _, sc := range scs {
		if r.Expired() {
			break
		}
		g.partC(sc, u)
		scNames = append(scNames, sc.Name)
	}
	if want("C") {
		g.malformedRoots(u)
		scNames = append(scNames, "malformed-roots")
	}
	bounds["C_scenarios"] = scNames

	// ---- part R: read operations as history steps (reads_test.go)
	var rCov map[string]any
	if want("R") && r.NViolations() == 0 {
		rCov = g.partR(u, thorough, map[mpt.TrieMode]int{mpt.ModeAll: vk.Pick(r, 3, 4), mpt.ModeLatest: vk.Pick(r, 3, 4), mpt.ModeGC: 3})
	}

	// ---- parts A and B as one pool of jobs
	var jobs []job
	var addSeqU func(u *uni, part string, mode mpt.TrieMode, alpha []opSpec, depth int)
	addSeq := func(part string, mode mpt.TrieMode, alpha []opSpec, depth int) {
		addSeqU(u, part, mode, alpha, depth)
	}
	addSeqU = func(u *uni, part string, mode mpt.TrieMode, alpha []opSpec, depth int) {
		e := &explorer{g: g, u: u, mode: mode, part: part}
		for _, o1 := range alpha {
			o1 := o1
			jobs = append(jobs, job{part, 1, func(s *stats) {
				if !e.node([]opSpec{o1}, s) || depth < 2 {
					return
				}
				for _, o2 := range alpha {
					if e.g.r.TooMany() {
						return
					}
					e.node([]opSpec{o1, o2}, s)
				}
			}})
		}
		for _, o1 := range alpha {
			for _, o2 := range alpha {
				if depth < 3 {
					continue
				}
				if depth >= 6 {
					// long plans: by length (each length is its own phase, the
					// last one runs with everything else), in small jobs
					for _, o3 := range alpha {
						pre := []opSpec{o1, o2, o3}
						for l := 3; l <= depth; l++ {
							l := l
							ph := l - 1
							if l == depth {
								ph = lastPhase
							}
							jobs = append(jobs, job{part, ph, func(s *stats) { e.exact(pre, alpha, l, s) }})
						}
					}
					continue
				}
				pre := []opSpec{o1, o2}
				jobs = append(jobs, job{part, lastPhase, func(s *stats) {
					for _, o3 := range alpha {
						e.dfs(append(pre[:2:2], o3), alpha, depth, s)
					}
				}})
			}
		}
		bounds[part+"_"+modeName(mode)] = fmt.Sprintf("alphabet %d ops, depth %d", len(alpha), depth)
	}
	all8 := []int{0, 1, 2, 3, 4, 5, 6, 7}
	// the whole universe at a smaller depth, six keys one level deeper
	alphaFull := append(singleOps(all8, []int{0, 2}), persistOps()...)
	deep := []int{0, 1, 2, 4, 6} // both tiers: the thorough tier goes one level deeper instead of one key wider
	alphaDeep := append(singleOps(deep, []int{0}), persistOps()...)
	addSeq("A-full", mpt.ModeAll, alphaFull, vk.Pick(r, 3, 4))
	addSeq("A-deep", mpt.ModeAll, alphaDeep, vk.Pick(r, 4, 5))
	alphaRC := append(singleOps([]int{0, 1, 2, 3, 4, 5}, []int{0}), persistOps()...)
	addSeq("A-rc", mpt.ModeLatest, alphaRC, vk.Pick(r, 3, 4))
	addSeq("A-gc", mpt.ModeGC, alphaRC, vk.Pick(r, 3, 4))
	// deep histories over a tiny universe in the refcounting modes (ModeAll as
	// control): a stored node dropping to count 0 at one Flush and re-created
	// with the same hash by a later step must be readable after the next
	// Flush + collapse/reload. Flush heights increase by one per Flush.
	{
		u3 := tinyUniverse()
		alpha := []opSpec{
			{K: "put", Key: 0, Val: 0}, {K: "put", Key: 1, Val: 0}, {K: "del", Key: 0}, {K: "del", Key: 1},
			{K: "batch", Batch: []int8{2, 0, 3}}, // PutBatch{k1201=a,k1235=b}
			{K: "flush"}, {K: "collapse", D: 0}, {K: "reload"},
		}
		d := vk.Pick(r, 5, 6)
		addSeqU(u3, "A-deep-gc", mpt.ModeGC, alpha, d)
		addSeqU(u3, "A-deep-rc", mpt.ModeLatest, alpha, d)
		addSeqU(u3, "A-deep-all", mpt.ModeAll, alpha, d-1)
		if thorough {
			// three more operations one level less deep (11^5 instead of 11^6 per mode keeps the tier exhaustive)
			alpha11 := append(append([]opSpec{}, alpha...), opSpec{K: "batch", Batch: []int8{1, 2, 1}}, // PutBatch{k1201=del,k1234=a,k1235=del}
				opSpec{K: "put", Key: 2, Val: 0}, opSpec{K: "del", Key: 2})
			addSeqU(u3, "A-deep11-gc", mpt.ModeGC, alpha11, 5)
			addSeqU(u3, "A-deep11-rc", mpt.ModeLatest, alpha11, 5)
		}
	}

	// part B: base (puts only) x persistence step x batch
	addPairs := func(part string, keys []int, mids [][]opSpec) {
		e := &explorer{g: g, u: u, mode: mpt.ModeAll, part: part}
		bases := allBatches(len(u.Keys), keys, []int8{0, 2, 3})
		seconds := allBatches(len(u.Keys), keys, []int8{0, 1, 2, 3})
		jobs = append(jobs, job{part, 1, func(s *stats) {
			for _, b := range seconds {
				if g.r.TooMany() {
					return
				}
				e.node([]opSpec{b}, s) // including the empty batch
			}
		}})
		for _, b1 := range bases {
			b1 := b1
			jobs = append(jobs, job{part, lastPhase, func(s *stats) {
				if batchSize(b1) > 0 {
					if !e.node([]opSpec{b1}, s) {
						return
					}
				}
				for _, mid := range mids {
					pre := append([]opSpec{}, mid...)
					if batchSize(b1) > 0 {
						pre = append([]opSpec{b1}, mid...)
					}
					if len(mid) > 0 && len(pre) > 0 {
						if !e.node(pre, s) {
							continue
						}
					}
					for _, b2 := range seconds {
						if g.r.Expired() || g.r.TooMany() {
							return
						}
						e.node(append(pre[:len(pre):len(pre)], b2), s)
					}
				}
			}})
		}
		bounds[part] = fmt.Sprintf("%d bases x %d middles x %d batches over keys %v", len(bases), len(mids), len(seconds)-1, keys)
	}
	mids := [][]opSpec{{}, {{K: "flush"}}, {{K: "collapse", D: 0}}, {{K: "collapse", D: 1}}, {{K: "reload"}}}
	var singles [][]opSpec
	for _, o := range singleOps(all8, []int{0, 2}) {
		singles = append(singles, []opSpec{o})
	}
	addTriples := func(part string, keys []int, choices []int8) {
		e := &explorer{g: g, u: u, mode: mpt.ModeAll, part: part}
		bs := allBatches(len(u.Keys), keys, choices)
		for _, b1 := range bs {
			for _, b2 := range bs {
				if batchSize(b1) == 0 || batchSize(b2) == 0 {
					continue
				}
				pre := []opSpec{b1, b2}
				jobs = append(jobs, job{part, lastPhase, func(s *stats) {
					for _, b3 := range bs {
						if batchSize(b3) == 0 {
							continue
						}
						if g.r.Expired() || g.r.TooMany() {
							return
						}
						e.node(append(pre[:2:2], b3), s)
					}
				}})
			}
		}
		bounds[part] = fmt.Sprintf("%d^3 batches over keys %v, choices %v", len(bs)-1, keys, choices)
	}
	if thorough {
		addPairs("B-pairs", []int{0, 1, 2, 3, 4}, mids)
		addPairs("B-pairs-max", []int{1, 2, 3, 6, 7}, mids)
		addPairs("B-mixed", []int{0, 1, 2, 4}, singles)
		addTriples("B-triples", []int{0, 1, 2}, []int8{0, 1, 2, 3})
		addTriples("B-triples4", []int{0, 1, 2, 4}, []int8{0, 1, 2})
		addPairs("B-pairs6", []int{0, 1, 2, 3, 4, 5}, [][]opSpec{{}, {{K: "reload"}}})
	} else {
		addPairs("B-pairs", []int{0, 1, 2, 4}, mids)
		addPairs("B-pairs-max", []int{2, 3, 6, 7}, mids)
		addPairs("B-mixed", []int{0, 1, 2}, singles)
		addTriples("B-triples", []int{0, 1, 2}, []int8{0, 1, 2})
	}

	if !want("A") && !want("B") {
		jobs = nil
	}
	// phase 1 first; then round-robin over the parts, so that a run cut by the
	// deadline has touched all of them
	before := r.NViolations()
	for phase := 1; phase <= lastPhase; phase++ {
		if phase > 1 && r.NViolations() > before {
			r.Capped() // short counterexamples exist: longer histories are not explored
			break
		}
		var order []string
		by := map[string][]job{}
		for _, j := range jobs {
			if j.phase != phase {
				continue
			}
			if _, ok := by[j.name]; !ok {
				order = append(order, j.name)
			}
			by[j.name] = append(by[j.name], j)
		}
		var pj []job
		for more := true; more; {
			more = false
			for _, n := range order {
				if l := by[n]; len(l) > 0 {
					pj = append(pj, l[0])
					by[n] = l[1:]
					more = true
				}
			}
		}
		r.Parallel(len(pj), func(i int) {
			s := newStats()
			pj[i].run(s)
			g.merge(s)
		})
	}
	pprof.StopCPUProfile()
	s := g.s
	classes := map[string]int64{}
	for k, v := range s.classes {
		classes[k] = v
	}
	for k := range classes {
		r.Outcome(k)
	}
	qc := map[string]int64{}
	for k, v := range g.qcount {
		qc[k] = v
	}
	cov := map[string]any{
		"states":                        len(s.states),
		"transitions":                   int(s.nodes),
		"traces_validated_against_impl": int(s.nodes),
		"evaluations":                   int(s.nodes),
		"distinct_nontrivial":           len(s.nontrivial),
		"rule":                          "every history of the bounds below on a fresh real mpt.Trie over MemCachedStore(MemoryStore); a state is (mode, content, representation after the last persistence step, dirty flag); non-trivial = canonical trie of more than one node",
		"distinct_roots":                len(s.roots),
		"trie_rebuilds":                 int(s.replays),
		"gets":                          int(s.gets),
		"proofs_checked":                int(s.proofs),
		"proof_verifications":           int(s.verifies),
		"tampered_proofs_checked":       int(s.tamperLists),
		"tampered_proof_verifications":  int(s.tamperVerifies),
		"tampered_proofs_still_verifying_correct_value": int(s.tamperAccepted),
		"find_calls_after_steps":                        int(s.finds),
		"seek_calls_after_steps":                        int(s.seeks),
		"stored_trie_walks":                             int(s.walks),
		"query_matrix_contents":                         int(s.queryContents),
		"query_matrix_find_calls":                       int(s.queryFinds),
		"query_matrix_seek_calls":                       int(s.querySeeks),
		"query_mismatch_classes":                        qc,
		"find_on_unflushed_trie":                        int(s.findOnDirty),
		"reads_broken_after_find_on_unflushed_trie":     int(s.findBreaksReads),
		"transition_classes":                            classes,
		"transitions_per_plan":                          s.perPart,
		"bounds":                                        bounds,
		"universe":                                      fmt.Sprintf("keys %v, values a=aa b=bbbb empty big=%d bytes", u.KN, len(bigVal)),
	}
	for k, v := range rCov {
		cov[k] = v
	}
	r.Finish(cov, []string{
		"the reference root/nodes/proofs are computed from doc.go and the node encodings by code that shares nothing with package mpt; collisions of SHA-256 are not considered",
		"Collapse is only applied right after Flush, as its doc comment requires",
		"Find is compared for maxNum >= 1; 'no results' may be reported as an error or as an empty list",
		"backwards Seek with a start: keys strictly extending prefix+start are ignored on both sides (not specified)",
		"part R: Collapse is a read step only on a trie without unflushed changes (its doc comment), TrieStore.Seek reads the root of the last Flush; 'invisible in the store' = the store after the final Flush equals byte for byte the store of the same write history without the read step",
		"refcounts and garbage collection of ModeLatest/ModeGC are C11; here those modes must only agree on roots, reads and the nodes reachable from the current root",
	})
}

// ---- replay --------------------------------------------------------------------------------------------

func replay(g *global, u *uni) {
	r := g.r
	var c caseRec
	if err := r.ReadReplay(&c); err != nil {
		fmt.Println("cannot read replay:", err)
		r.Finish(map[string]any{"states": 1, "transitions": 1, "traces_validated_against_impl": 0}, nil)
	}
	n := 0
	switch {
	case c.Part == "C":
		if c.Scenario == "malformed-roots" {
			for i := 0; i < 5; i++ {
				g.malformedRoots(u)
				n++
			}
		}
		for _, sc := range tamperScenarios(true) {
			if sc.Name == c.Scenario {
				for i := 0; i < 5; i++ {
					g.partC(sc, u)
					n++
				}
			}
		}
		fmt.Printf("replayed tamper scenario %s 5x: violations=%d\n", c.Scenario, r.NViolations())
	case c.Part == "R":
		outs := map[string]bool{}
		for i := 0; i < 5; i++ {
			outs[fmt.Sprint(g.rReplay(&c))] = true
			n++
		}
		fmt.Printf("replayed R %s %v 5x: clean=%v\n", modeName(mpt.TrieMode(c.Mode)), c.Names, outs)
	case c.Part == "D":
		for i := 0; i < 5; i++ {
			g.qbest, g.qcount = map[string]*queryCase{}, map[string]int64{}
			g.partD(u, c.CIdx, newStats())
			var cl []string
			for k, v := range g.qcount {
				cl = append(cl, fmt.Sprintf("%s x%d", k, v))
			}
			sort.Strings(cl)
			fmt.Printf("replay %d of query matrix on %s: mismatch classes %v\n", i+1, c.Content, cl)
			n++
		}
		g.flushQueryFindings()
	default:
		u = universeByName(c.Uni)
		e := &explorer{g: g, u: u, mode: mpt.TrieMode(c.Mode), part: c.Part}
		outs := map[string]bool{}
		for i := 0; i < 5; i++ {
			g.canon = sync.Map{}
			outs[fmt.Sprint(e.node(c.Ops, newStats()))] = true
			n++
		}
		b, _ := json.Marshal(opNames(u, c.Ops))
		var ks []string
		for k := range outs {
			ks = append(ks, k)
		}
		sort.Strings(ks)
		fmt.Printf("replayed %s %s %s 5x: clean=%v\n", c.Part, modeName(e.mode), b, ks)
	}
	r.Finish(map[string]any{"states": 1, "transitions": n, "traces_validated_against_impl": n}, nil)
}
