// Part R: READ operations as history steps (second extension round).
//
// The histories of parts A and B only ever searched flushed or reloaded tries
// and never went on with the SAME trie object after a search. Here a read
// step - Find(prefix, from, max), Get, GetProof, TrieStore.Seek (+Get) on a
// TrieStore over the same store, Collapse(depth) where its doc comment allows
// it (nothing unflushed) - is inserted at every position of every history of
// write steps (Put / Delete / PutBatch / Flush) of a bound, on the same trie
// object, in ModeAll, ModeLatest and ModeLatest|ModeGCFlag. A read must not
// change anything:
//
//   - the read itself agrees with the model (the map the history spells);
//   - after the read step and after every later step ("probing" variant):
//     StateRoot = root of the reference trie of the model, Get of every key of
//     the universe, Find over every standing prefix = the model's sorted range;
//   - after the final Flush a trie reloaded from the store agrees too, and the
//     store holds byte for byte what the same history WITHOUT the read step
//     (and without any observation) leaves there - reference counters of the
//     RC modes included;
//   - "blind" variant: the same history with the read step and no observation
//     at all until the final Flush (the observations of the probing variant
//     are reads themselves and could repair or hide what the read step did).
package c10

import (
	"bytes"
	"encoding/hex"
	"fmt"
	"sort"
	"strings"

	"github.com/nspcc-dev/neo-go/pkg/core/mpt"
	"github.com/nspcc-dev/neo-go/pkg/core/storage"
	"github.com/nspcc-dev/neo-go/pkg/util"
)

type readSpec struct {
	Op      string `json:"op"` // find get proof seek collapse
	P       string `json:"p,omitempty"`    // hex
	From    string `json:"from,omitempty"` // hex
	FromNil bool   `json:"from_nil,omitempty"`
	Max     int    `json:"max,omitempty"`
	Key     int    `json:"key,omitempty"`
	Back    bool   `json:"back,omitempty"`
	Stop    int    `json:"stop,omitempty"`
	D       int    `json:"d,omitempty"`
	core    bool   // member of the reduced menu used at the deepest level
}

func unhex(s string) []byte {
	b, err := hex.DecodeString(s)
	if err != nil {
		panic(err)
	}
	if b == nil {
		b = []byte{}
	}
	return b
}

func (q *readSpec) from() []byte {
	if q.FromNil {
		return nil
	}
	return unhex(q.From)
}

func (q *readSpec) name(u *uni) string {
	switch q.Op {
	case "find":
		f := "nil"
		if !q.FromNil {
			f = "'" + q.From + "'"
		}
		return fmt.Sprintf("Find('%s',%s,%d)", q.P, f, q.Max)
	case "get":
		return "Get(" + u.KN[q.Key] + ")"
	case "proof":
		return "GetProof(" + u.KN[q.Key] + ")"
	case "seek":
		d := "fwd"
		if q.Back {
			d = "bwd"
		}
		f := ""
		if !q.FromNil {
			f = ",start='" + q.From + "'"
		}
		return fmt.Sprintf("TrieStore.Seek('%s'%s,%s,stop=%d)", q.P, f, d, q.Stop)
	case "collapse":
		return fmt.Sprintf("Collapse(%d)", q.D)
	}
	return "?" + q.Op
}

// readMenu: the read steps. Keys of the family: k12 k1201 k1234 k1235 k20
// (written), k123456 k02 (never written: below a leaf / unused first nibble).
func readMenu(u *uni, thorough bool) []readSpec {
	var l []readSpec
	type pf struct {
		p     string
		froms []string // "-" = nil
	}
	pfs := []pf{
		{"", []string{"-", "12", "1201", "1234", "1235", "20", "11", "1202", "1234ff"}},
		{"12", []string{"-", "", "01", "34", "35", "02", "3400"}},
		{"1234", []string{"-", ""}},
		{"1201", []string{"-"}},
		{"20", []string{"-", "00"}},
		{"13", []string{"-"}},
		{"1235", []string{"-"}},
	}
	maxes := []int{1, 2, 1000}
	if thorough {
		maxes = []int{1, 2, 3, 4, 1000}
	}
	for _, x := range pfs {
		for _, f := range x.froms {
			for _, mx := range maxes {
				if !thorough && mx == 2 && !(f == "-" || f == "12" || f == "01") {
					continue // quick: the middle limit only from the start and from one inner key per prefix
				}
				q := readSpec{Op: "find", P: x.p, Max: mx}
				if f == "-" {
					q.FromNil = true
				} else {
					q.From = f
				}
				l = append(l, q)
			}
		}
	}
	gk := []int{0, 1, 2, 4, 5, 3, 7}
	for _, k := range gk {
		l = append(l, readSpec{Op: "get", Key: k})
	}
	for _, k := range gk {
		l = append(l, readSpec{Op: "proof", Key: k})
	}
	sks := []pf{
		{"", []string{"-", "12", "1234", "13"}},
		{"12", []string{"-", "34", "02"}},
		{"1234", []string{"-"}},
		{"13", []string{"-"}},
	}
	for _, x := range sks {
		for _, f := range x.froms {
			for _, back := range []bool{false, true} {
				for _, stop := range []int{0, 1, 2} {
					q := readSpec{Op: "seek", P: x.p, Back: back, Stop: stop}
					if f == "-" {
						q.FromNil = true
					} else {
						q.From = f
					}
					l = append(l, q)
				}
			}
		}
	}
	for _, d := range []int{0, 1, 2, 3, 10} {
		l = append(l, readSpec{Op: "collapse", D: d})
	}
	// the reduced menu for the deepest histories: every kind of read, early
	// stops and full walks, starts inside and outside, hits and misses
	core := map[string]bool{}
	for _, n := range []string{
		"Find('',nil,1)", "Find('',nil,2)", "Find('',nil,1000)", "Find('','12',1)", "Find('','1201',1000)", "Find('','1234',1)",
		"Find('12',nil,1)", "Find('12',nil,1000)", "Find('12','01',1000)", "Find('12','34',1)", "Find('1234',nil,1000)", "Find('20',nil,1)", "Find('13',nil,1000)",
		"Get(k12)", "Get(k1201)", "Get(k1234)", "Get(k20)", "Get(k123456)",
		"GetProof(k12)", "GetProof(k1234)", "GetProof(k1235)", "GetProof(k02)",
		"TrieStore.Seek('',fwd,stop=0)", "TrieStore.Seek('',bwd,stop=1)", "TrieStore.Seek('12',fwd,stop=1)", "TrieStore.Seek('12',start='34',bwd,stop=0)",
		"TrieStore.Seek('',start='12',fwd,stop=2)", "TrieStore.Seek('1234',fwd,stop=0)",
		"Collapse(0)", "Collapse(1)", "Collapse(2)",
	} {
		core[n] = true
	}
	n := 0
	for i := range l {
		if core[l[i].name(u)] {
			l[i].core = true
			n++
		}
	}
	if n != len(core) {
		panic(fmt.Sprintf("part R: %d of %d core reads found in the menu", n, len(core)))
	}
	return l
}

func coreMenu(l []readSpec) []readSpec {
	var c []readSpec
	for _, q := range l {
		if q.core {
			c = append(c, q)
		}
	}
	return c
}

// writeAlphabet of part R (universe U8, keys k12 k1201 k1234 k1235 k20).
func readsWriteAlphabet(thorough bool) []opSpec {
	b := func(m map[int]int8) opSpec {
		o := opSpec{K: "batch", Batch: make([]int8, 8)}
		for k, v := range m {
			o.Batch[k] = v
		}
		return o
	}
	a := []opSpec{
		{K: "put", Key: 1, Val: 0}, {K: "put", Key: 2, Val: 0}, {K: "put", Key: 4, Val: 0}, {K: "put", Key: 0, Val: 0}, {K: "put", Key: 5, Val: 0},
		{K: "flush"}, {K: "collapse", D: 0}, // Flush; Flush+Collapse(0): later steps and reads meet hash nodes
		{K: "del", Key: 2}, {K: "del", Key: 1},
		{K: "put", Key: 2, Val: 1},
		b(map[int]int8{0: 2, 1: 2, 2: 2, 4: 2, 5: 2}), // fill: all five = a
		b(map[int]int8{0: 1, 4: 3, 2: 1}),             // PutBatch{k12=del,k1234=del,k1235=b}
	}
	if thorough {
		a = append(a, opSpec{K: "del", Key: 0}, opSpec{K: "collapse", D: 1})
	}
	return a
}

// rrun: one trie object going through a history with read steps.
type rrun struct {
	in    *inst
	fc    []int8 // content at the last Flush (nil: no Flush yet)
	froot util.Uint256
	ts    *mpt.TrieStore // over in.st at froot, kept until the next Flush
}

func (rr *rrun) write(o opSpec) string {
	r := rr.in.apply(o)
	if r == "" && (o.K == "flush" || o.K == "collapse") {
		rr.fc = append([]int8{}, rr.in.c...)
		rr.froot = rr.in.tr.StateRoot()
		rr.ts = nil
	}
	return r
}

func present(c []int8) int {
	n := 0
	for _, v := range c {
		if v >= 0 {
			n++
		}
	}
	return n
}

// applicable: Collapse needs a trie without unflushed changes (doc comment of
// Trie.Collapse), TrieStore.Seek a flushed non-empty root.
func (rr *rrun) applicable(q *readSpec) bool {
	switch q.Op {
	case "collapse":
		return !rr.in.dirty && rr.fc != nil
	case "seek":
		return rr.fc != nil && present(rr.fc) > 0
	}
	return true
}

// read runs one read step; kind "" = agrees with the model. cls classifies the answer.
func (rr *rrun) read(q *readSpec, s *stats) (kind, detail, cls string) {
	defer func() {
		if r := recover(); r != nil {
			kind, detail = "panic-in-read", fmt.Sprint(r)
		}
	}()
	in := rr.in
	u := in.u
	m := u.model(in.c)
	st := "clean"
	if in.dirty {
		st = "dirty"
	}
	switch q.Op {
	case "find":
		p, from := unhex(q.P), q.from()
		s.finds++
		want := modelFind(m, p, from, q.Max)
		all := modelFind(m, p, from, 1<<30)
		if bad := doFind(in.tr, m, p, from, q.Max); bad != "" {
			return "read-find", bad, ""
		}
		t := "all"
		if len(all) > len(want) {
			t = "cut"
		}
		return "", "", fmt.Sprintf("find/%s/n=%d/%s", st, len(want), t)
	case "get":
		k := u.Keys[q.Key]
		v, err := in.tr.Get(k)
		s.gets++
		if in.c[q.Key] >= 0 {
			if err != nil || !bytes.Equal(v, u.Vals[in.c[q.Key]]) {
				return "read-get", fmt.Sprintf("Get(%s) = %x, %v; model has %s", u.KN[q.Key], v, err, u.VN[in.c[q.Key]]), ""
			}
			return "", "", "get/" + st + "/hit"
		}
		if err == nil {
			return "read-get", fmt.Sprintf("Get(%s) = %x for an absent key", u.KN[q.Key], v), ""
		}
		return "", "", "get/" + st + "/miss"
	case "proof":
		k := u.Keys[q.Key]
		p, err := in.tr.GetProof(k)
		s.proofs++
		ref := u.ref(in.c)
		if in.c[q.Key] >= 0 {
			if err != nil {
				return "read-proof", fmt.Sprintf("GetProof(%s) fails with %q for a present key", u.KN[q.Key], err), ""
			}
			if !sameProof(p, ref.proofs[string(k)]) {
				return "read-proof", fmt.Sprintf("GetProof(%s) is not the path of the canonical trie (%d nodes, reference %d)", u.KN[q.Key], len(p), len(ref.proofs[string(k)])), ""
			}
			v, ok, pan := safeVerify(ref.root, k, p)
			s.verifies++
			if pan != "" || !ok || !bytes.Equal(v, u.Vals[in.c[q.Key]]) {
				return "read-proof", fmt.Sprintf("VerifyProof(canonical root, %s, GetProof) = (%x, %v) %s", u.KN[q.Key], v, ok, pan), ""
			}
			return "", "", fmt.Sprintf("proof/%s/hit/len=%d", st, len(p))
		}
		if err == nil {
			return "read-proof", fmt.Sprintf("GetProof(%s) succeeds for an absent key", u.KN[q.Key]), ""
		}
		return "", "", "proof/" + st + "/miss"
	case "seek":
		fm := u.model(rr.fc)
		if rr.ts == nil {
			rr.ts = mpt.NewTrieStore(rr.froot, in.mode&^mpt.ModeGCFlag, in.st)
		}
		p, start := unhex(q.P), q.from()
		// twice on the same TrieStore object (the second walk meets what the first left), Get of every key between
		for round := 0; round < 2; round++ {
			s.seeks++
			if bad, c := doSeek(rr.ts, fm, p, start, q.Back, q.Stop); bad != "" {
				return "read-seek", fmt.Sprintf("round %d on the same TrieStore (content at the last Flush %s): %s [%s]", round+1, u.show(rr.fc), bad, c), ""
			}
			for i, k := range u.Keys {
				v, err := rr.ts.Get(append([]byte{byte(storage.STStorage)}, k...))
				if (rr.fc[i] >= 0) != (err == nil) || (err == nil && !bytes.Equal(v, u.Vals[rr.fc[i]])) {
					return "read-triestore-get", fmt.Sprintf("TrieStore.Get(%s) after Seek round %d = %x, %v; content at the last Flush %s", u.KN[i], round+1, v, err, u.show(rr.fc)), ""
				}
			}
		}
		want, _ := modelSeek(fm, p, start, q.Back)
		return "", "", fmt.Sprintf("seek/%s/n=%d/stop=%d", st, len(want), q.Stop)
	case "collapse":
		in.tr.Collapse(q.D)
		return "", "", fmt.Sprintf("collapse/%d/nodes=%d", q.D, min(len(u.ref(in.c).nodes), 9))
	}
	panic("bad read op " + q.Op)
}

func dumpStore(st *storage.MemCachedStore) string {
	// Seek of a MemCachedStore is ordered: the raw dump is canonical
	var sb []byte
	st.Seek(storage.SeekRange{Prefix: []byte{byte(storage.DataMPT)}}, func(k, v []byte) bool {
		sb = append(sb, byte(len(k)), byte(len(v)>>8), byte(len(v)))
		sb = append(sb, k...)
		sb = append(sb, v...)
		return true
	})
	return string(sb)
}

// dumpLines: readable form of a dump for a report.
func dumpLines(d string) []string {
	var l []string
	for len(d) >= 3 {
		lk, lv := int(d[0]), int(d[1])<<8|int(d[2])
		d = d[3:]
		l = append(l, hex.EncodeToString([]byte(d[:lk]))+"="+hex.EncodeToString([]byte(d[lk:lk+lv])))
		d = d[lk+lv:]
	}
	sort.Strings(l)
	return l
}

func dumpDiff(a, b string) string {
	la, lb := dumpLines(a), dumpLines(b)
	sa, sbm := map[string]bool{}, map[string]bool{}
	for _, x := range la {
		sa[x] = true
	}
	for _, x := range lb {
		sbm[x] = true
	}
	var only []string
	short := func(x string) string {
		if len(x) > 60 {
			return x[:24] + ".." + x[len(x)-24:]
		}
		return x
	}
	for _, x := range la {
		if x != "" && !sbm[x] {
			only = append(only, "with-reads-only "+short(x))
		}
	}
	for _, x := range lb {
		if x != "" && !sa[x] {
			only = append(only, "without-reads-only "+short(x))
		}
	}
	if len(only) > 4 {
		only = append(only[:4], fmt.Sprintf("(+%d more)", len(only)-4))
	}
	return fmt.Sprintf("%d records with the read step, %d without; %s", len(la), len(lb), strings.Join(only, "; "))
}

// rBaseline: the write steps alone, no observation, final Flush; "" dump = the history itself fails (judged elsewhere).
func (e *explorer) rBaseline(h []opSpec, s *stats) (dump string, ok bool) {
	in, bad := e.replay(h, s)
	if bad != "" {
		return "", false
	}
	in.flush()
	return dumpStore(in.st), true
}

// rCase runs history h with read step q after step p (1-based count of write
// steps before it). probing: observe after the read and after every later step.
func (e *explorer) rCase(h []opSpec, p int, qs []*readSpec, probing bool, base string, s *stats) (kind, detail, cls string, ran bool) {
	defer func() {
		if r := recover(); r != nil {
			kind, detail = "panic", fmt.Sprint(r)
		}
	}()
	u := e.u
	rr := &rrun{in: newInst(u, e.mode)}
	s.replays++
	for i := 0; i < p; i++ {
		if r := rr.write(h[i]); r != "" {
			return "", "", "", false // the write history itself fails: part A's business
		}
	}
	// one read step, or a block of read steps in a row (inapplicable members are left out)
	for _, q := range qs {
		if !rr.applicable(q) {
			continue
		}
		ran = true
		kind, detail, cls = rr.read(q, s)
		if kind != "" {
			if len(qs) > 1 {
				detail = "at " + q.name(u) + " of the block: " + detail
			}
			return
		}
	}
	if !ran {
		return "", "", "", false
	}
	observe := func(what string, level int) (string, string) {
		if !probing {
			return "", ""
		}
		if k, d := readsOf(rr.in.tr, u, rr.in.c, s, what, level); k != "" {
			return k, d
		}
		return findsOf(rr.in.tr, u, rr.in.c, s, what)
	}
	if k, d := observe("-after-read-step", 1); k != "" {
		return k, d, cls, true
	}
	for i := p; i < len(h); i++ {
		if r := rr.write(h[i]); r != "" {
			k := "op-failed-after-read-step"
			if rr.in.dead {
				k = "panic-after-read-step"
			}
			return k, fmt.Sprintf("step %s: %s", h[i].name(u), r), cls, true
		}
		if k, d := observe(fmt.Sprintf("-%d-steps-after-read-step", i-p+1), 0); k != "" {
			return k, d, cls, true
		}
	}
	rr.in.flush()
	root := rr.in.tr.StateRoot()
	if ref := u.ref(rr.in.c); root != ref.root {
		return "root-after-final-flush", fmt.Sprintf("StateRoot %s, canonical root of %s is %s", root.StringBE()[:16], u.show(rr.in.c), ref.root.StringBE()[:16]), cls, true
	}
	tr2 := trieAt(root, e.mode, rr.in.st)
	if k, d := readsOf(tr2, u, rr.in.c, s, "-reloaded-after-history-with-read-step", 0); k != "" {
		return k, d, cls, true
	}
	if k, d := findsOf(tr2, u, rr.in.c, s, "-reloaded-after-history-with-read-step"); k != "" {
		return k, d, cls, true
	}
	if d := dumpStore(rr.in.st); d != base {
		return "store-differs-with-read-step", dumpDiff(d, base), cls, true
	}
	return "", "", cls, true
}

type rStats struct {
	histories, cases, skipped, blocks int64
	byOp                      map[string]int64
	classes                   map[string]int64
}

func (g *global) rMerge(t *rStats, s *rStats) {
	g.mu.Lock()
	defer g.mu.Unlock()
	t.histories += s.histories
	t.cases += s.cases
	t.skipped += s.skipped
	t.blocks += s.blocks
	for k, v := range s.byOp {
		t.byOp[k] += v
	}
	for k, v := range s.classes {
		t.classes[k] += v
	}
}

func (e *explorer) rReport(h []opSpec, p int, qs []*readSpec, block string, probing bool, kind, detail string) {
	u := e.u
	ops := make([]opSpec, 0, len(h)+1)
	ops = append(ops, h[:p]...)
	if block != "" {
		ops = append(ops, opSpec{K: "readblock", Block: block, Probing: probing})
	} else {
		ops = append(ops, opSpec{K: "read", R: qs[0], Probing: probing})
	}
	ops = append(ops, h[p:]...)
	names := opNames(u, ops)
	v := "probing"
	if !probing {
		v = "blind"
	}
	key := fmt.Sprintf("%s:%s:R-%s:%s", kind, modeName(e.mode), v, strings.Join(names, ","))
	e.g.r.Violation(key, caseRec{Part: "R", Uni: u.Name, Mode: byte(e.mode), Ops: ops, Names: names, Broken: kind, Detail: detail})
}

// readBlock: the reduced menu as one block of consecutive read steps, in menu
// order or reversed (what one read leaves in memory meets every other kind of read).
func readBlock(menu []readSpec, which string) []*readSpec {
	var b []*readSpec
	for i := range menu {
		if menu[i].core {
			b = append(b, &menu[i])
		}
	}
	if which == "core-reversed" {
		for i, j := 0, len(b)-1; i < j; i, j = i+1, j-1 {
			b[i], b[j] = b[j], b[i]
		}
	}
	return b
}

// rHistory: every (position, read step, variant) of one write history.
func (e *explorer) rHistory(h []opSpec, minP int, menu, full []readSpec, s *stats, rs *rStats) {
	base, ok := e.rBaseline(h, s)
	if !ok {
		return
	}
	rs.histories++
	reported := 0
	for p := minP; p <= len(h); p++ {
		for qi := range menu {
			q := &menu[qi]
			if e.g.r.Expired() || e.g.r.TooMany() {
				return
			}
			for _, probing := range []bool{true, false} {
				if !probing && p == len(h) && !e.g.r.Thorough() {
					break // quick: the blind variant only where steps follow the read
				}
				kind, detail, cls, ran := e.rCase(h, p, []*readSpec{q}, probing, base, s)
				if !ran {
					rs.skipped++
					break
				}
				rs.cases++
				s.nodes++
				s.perPart[e.part]++
				if kind != "" {
					e.rReport(h, p, []*readSpec{q}, "", probing, kind, detail)
					if reported++; reported >= 3 {
						return // enough of this history: let the other ones speak
					}
					break
				}
				if probing {
					rs.byOp[q.Op]++
					rs.classes[cls]++
				}
			}
		}
	}
	// blocks of read steps in a row, at every position (also the first)
	for p := 1; p <= len(h); p++ {
		for _, which := range []string{"core", "core-reversed"} {
			for _, probing := range []bool{true, false} {
				if e.g.r.Expired() || e.g.r.TooMany() {
					return
				}
				if !probing && p == len(h) && !e.g.r.Thorough() {
					continue
				}
				qs := readBlock(full, which)
				kind, detail, _, ran := e.rCase(h, p, qs, probing, base, s)
				if !ran {
					continue
				}
				rs.cases++
				rs.blocks++
				s.nodes++
				s.perPart[e.part]++
				if kind != "" {
					e.rReport(h, p, qs, which, probing, kind, detail)
					return
				}
			}
		}
	}
}

// partR enumerates the family; returns the coverage counters.
func (g *global) partR(u *uni, thorough bool, depths map[mpt.TrieMode]int) map[string]any {
	menu := readMenu(u, thorough)
	cmenu := coreMenu(menu)
	alpha := readsWriteAlphabet(thorough)
	total := &rStats{byOp: map[string]int64{}, classes: map[string]int64{}}
	type rjob struct {
		e    *explorer
		h    []opSpec
		minP int
		menu []readSpec
	}
	var jobs []rjob
	modes := []mpt.TrieMode{mpt.ModeAll, mpt.ModeLatest, mpt.ModeGC}
	maxD := 0
	for _, d := range depths {
		maxD = max(maxD, d)
	}
	for l := 1; l <= maxD; l++ { // shortest histories first
		for _, mode := range modes {
			if depths[mode] < l {
				continue
			}
			e := &explorer{g: g, u: u, mode: mode, part: "R-" + modeName(mode)}
			var rec func(h []opSpec)
			rec = func(h []opSpec) {
				if len(h) == l {
					minP := 1
					if (!thorough && l >= 3) || l >= 4 {
						minP = 2 // the deepest level: a single read after the first step is left to the shorter histories (read blocks run at every position)
					}
					mn := menu
					if l >= 3 && l == depths[mode] {
						mn = cmenu // the deepest level: the reduced menu
					}
					jobs = append(jobs, rjob{e, append([]opSpec{}, h...), minP, mn})
					return
				}
				for _, o := range alpha {
					rec(append(h[:len(h):len(h)], o))
				}
			}
			rec(nil)
		}
	}
	g.r.Parallel(len(jobs), func(i int) {
		if g.r.TooMany() {
			return
		}
		s := newStats()
		rs := &rStats{byOp: map[string]int64{}, classes: map[string]int64{}}
		jobs[i].e.rHistory(jobs[i].h, jobs[i].minP, jobs[i].menu, menu, s, rs)
		g.merge(s)
		g.rMerge(total, rs)
	})
	for k := range total.classes {
		g.r.Outcome("R/" + k)
	}
	by := map[string]int64{}
	for k, v := range total.byOp {
		by[k] = v
	}
	return map[string]any{
		"R_write_histories":       int(total.histories),
		"R_cases":                 int(total.cases),
		"R_inapplicable_skipped":  int(total.skipped),
		"R_read_block_cases":      int(total.blocks),
		"R_read_menu":             len(menu),
		"R_read_menu_deepest":     len(cmenu),
		"R_write_alphabet":        len(alpha),
		"R_read_answer_classes":   len(total.classes),
		"R_probing_cases_by_read": by,
		"R_find_steps":            int(by["find"]),
		"R_get_steps":             int(by["get"]),
		"R_proof_steps":           int(by["proof"]),
		"R_seek_steps":            int(by["seek"]),
		"R_collapse_steps":        int(by["collapse"]),
		"R_depths":                fmt.Sprintf("ModeAll %d, ModeLatest %d, ModeGC %d", depths[mpt.ModeAll], depths[mpt.ModeLatest], depths[mpt.ModeGC]),
	}
}

// rReplay re-runs one recorded case of part R.
func (g *global) rReplay(c *caseRec) (clean bool) {
	u := universeByName(c.Uni)
	e := &explorer{g: g, u: u, mode: mpt.TrieMode(c.Mode), part: "R"}
	var h []opSpec
	p := -1
	var qs []*readSpec
	block := ""
	probing := true
	menu := readMenu(u, true)
	for _, o := range c.Ops {
		switch o.K {
		case "read":
			p, qs, probing = len(h), []*readSpec{o.R}, o.Probing
		case "readblock":
			p, qs, block, probing = len(h), readBlock(menu, o.Block), o.Block, o.Probing
		default:
			h = append(h, o)
		}
	}
	if qs == nil {
		return true
	}
	s := newStats()
	base, ok := e.rBaseline(h, s)
	if !ok {
		return true
	}
	kind, detail, _, _ := e.rCase(h, p, qs, probing, base, s)
	if kind != "" {
		e.rReport(h, p, qs, block, probing, kind, detail)
		return false
	}
	return true
}
