// Independent reference for C10: the canonical Merkle-Patricia trie of a set of
// key/value pairs, computed from the description in pkg/core/mpt/doc.go and the
// node encodings only (no code of package mpt is used here), a strict parser of
// serialized nodes and a walker over stored nodes.
package c10

import (
	"bytes"
	"crypto/sha256"
	"encoding/hex"
	"fmt"
	"sort"
	"strings"
	"sync"

	"github.com/nspcc-dev/neo-go/pkg/util"
)

const (
	tBranch = 0x00
	tExt    = 0x01
	tLeaf   = 0x02
	tHash   = 0x03
	tEmpty  = 0x04
)

func nibbles(k []byte) []byte {
	r := make([]byte, 0, 2*len(k))
	for _, b := range k {
		r = append(r, b>>4, b&0x0f)
	}
	return r
}

func dsha(b []byte) util.Uint256 {
	h1 := sha256.Sum256(b)
	h2 := sha256.Sum256(h1[:])
	return util.Uint256(h2)
}

func appendVarUint(b []byte, n int) []byte {
	switch {
	case n < 0xfd:
		return append(b, byte(n))
	case n <= 0xffff:
		return append(b, 0xfd, byte(n), byte(n>>8))
	default:
		return append(b, 0xfe, byte(n), byte(n>>8), byte(n>>16), byte(n>>24))
	}
}

// ---- reference trie ---------------------------------------------------------

type rnode struct {
	typ   byte
	kids  [17]*rnode
	key   []byte
	next  *rnode
	val   []byte
	bytes []byte
	hash  util.Uint256
}

type ritem struct {
	path []byte
	val  []byte
}

func mkRef(items []ritem) *rnode {
	if len(items) == 0 {
		return nil
	}
	if len(items) == 1 && len(items[0].path) == 0 {
		n := &rnode{typ: tLeaf, val: items[0].val}
		n.bytes = append(appendVarUint([]byte{tLeaf}, len(n.val)), n.val...)
		n.hash = dsha(n.bytes)
		return n
	}
	// longest common prefix of all paths
	p := items[0].path
	for _, it := range items[1:] {
		i := 0
		for i < len(p) && i < len(it.path) && p[i] == it.path[i] {
			i++
		}
		p = p[:i]
	}
	if len(p) > 0 {
		sub := make([]ritem, len(items))
		for i, it := range items {
			sub[i] = ritem{it.path[len(p):], it.val}
		}
		n := &rnode{typ: tExt, key: append([]byte{}, p...), next: mkRef(sub)}
		n.bytes = append(appendVarUint([]byte{tExt}, len(n.key)), n.key...)
		n.bytes = append(append(n.bytes, tHash), n.next.hash[:]...)
		n.hash = dsha(n.bytes)
		return n
	}
	n := &rnode{typ: tBranch}
	var groups [17][]ritem
	for _, it := range items {
		if len(it.path) == 0 {
			groups[16] = append(groups[16], it)
		} else {
			groups[it.path[0]] = append(groups[it.path[0]], ritem{it.path[1:], it.val})
		}
	}
	n.bytes = []byte{tBranch}
	for i := range groups {
		n.kids[i] = mkRef(groups[i])
		if n.kids[i] == nil {
			n.bytes = append(n.bytes, tEmpty)
		} else {
			n.bytes = append(append(n.bytes, tHash), n.kids[i].hash[:]...)
		}
	}
	n.hash = dsha(n.bytes)
	return n
}

type refTrie struct {
	root   util.Uint256 // zero for the empty trie
	nodes  map[util.Uint256][]byte
	proofs map[string][][]byte
	shape  string
	m      map[string][]byte // the content itself (read-only)
	pre    [][]byte          // serialized nodes in pre-order (a branch's value before its other children)
}

func (rt *refTrie) collect(n *rnode, path []byte, trail [][]byte, sb *strings.Builder) {
	if n == nil {
		return
	}
	rt.nodes[n.hash] = n.bytes
	trail = append(trail[:len(trail):len(trail)], n.bytes)
	switch n.typ {
	case tLeaf:
		k := make([]byte, len(path)/2)
		for i := range k {
			k[i] = path[2*i]<<4 | path[2*i+1]
		}
		rt.proofs[string(k)] = trail
		sb.WriteString("L")
	case tExt:
		fmt.Fprintf(sb, "E%d(", len(n.key))
		rt.collect(n.next, append(path[:len(path):len(path)], n.key...), trail, sb)
		sb.WriteString(")")
	case tBranch:
		sb.WriteString("B[")
		for i, c := range n.kids {
			if c == nil {
				continue
			}
			p := path
			if i < 16 {
				p = append(path[:len(path):len(path)], byte(i))
				fmt.Fprintf(sb, "%x:", i)
			} else {
				sb.WriteString("v:")
			}
			rt.collect(c, p, trail, sb)
			sb.WriteString(",")
		}
		sb.WriteString("]")
	}
}

func buildRef(m map[string][]byte) *refTrie {
	keys := make([]string, 0, len(m))
	for k := range m {
		keys = append(keys, k)
	}
	sort.Strings(keys)
	items := make([]ritem, len(keys))
	for i, k := range keys {
		items[i] = ritem{nibbles([]byte(k)), m[k]}
	}
	rt := &refTrie{nodes: map[util.Uint256][]byte{}, proofs: map[string][][]byte{}, m: m}
	root := mkRef(items)
	var sb strings.Builder
	if root != nil {
		rt.root = root.hash
		rt.collect(root, nil, nil, &sb)
		var po func(n *rnode)
		po = func(n *rnode) {
			if n == nil {
				return
			}
			rt.pre = append(rt.pre, n.bytes)
			switch n.typ {
			case tExt:
				po(n.next)
			case tBranch:
				po(n.kids[16])
				for i := 0; i < 16; i++ {
					po(n.kids[i])
				}
			}
		}
		po(root)
	} else {
		sb.WriteString("empty")
	}
	rt.shape = sb.String()
	return rt
}

var refMemo sync.Map // content key -> *refTrie

func refFor(ck string, mk func() map[string][]byte) *refTrie {
	if v, ok := refMemo.Load(ck); ok {
		return v.(*refTrie)
	}
	rt := buildRef(mk())
	v, _ := refMemo.LoadOrStore(ck, rt)
	return v.(*refTrie)
}

// ---- strict node parser -------------------------------------------------------

type pnode struct {
	typ  byte
	kids [17]*util.Uint256
	key  []byte
	next *util.Uint256
	val  []byte
}

func readVarBytes(b []byte, off *int, max int) ([]byte, error) {
	if *off >= len(b) {
		return nil, fmt.Errorf("truncated length")
	}
	n := int(b[*off])
	*off++
	switch {
	case n == 0xfd:
		if *off+2 > len(b) {
			return nil, fmt.Errorf("truncated length")
		}
		n = int(b[*off]) | int(b[*off+1])<<8
		*off += 2
	case n == 0xfe:
		if *off+4 > len(b) {
			return nil, fmt.Errorf("truncated length")
		}
		n = int(b[*off]) | int(b[*off+1])<<8 | int(b[*off+2])<<16 | int(b[*off+3])<<24
		*off += 4
	case n == 0xff:
		return nil, fmt.Errorf("8-byte length")
	}
	if n > max || *off+n > len(b) {
		return nil, fmt.Errorf("bad length %d", n)
	}
	r := b[*off : *off+n]
	*off += n
	return r, nil
}

func readChild(b []byte, off *int) (*util.Uint256, error) {
	if *off >= len(b) {
		return nil, fmt.Errorf("truncated child")
	}
	t := b[*off]
	*off++
	switch t {
	case tEmpty:
		return nil, nil
	case tHash:
		if *off+32 > len(b) {
			return nil, fmt.Errorf("truncated child hash")
		}
		var h util.Uint256
		copy(h[:], b[*off:*off+32])
		*off += 32
		return &h, nil
	}
	return nil, fmt.Errorf("child of type %d", t)
}

func parseNode(b []byte) (*pnode, error) {
	if len(b) == 0 {
		return nil, fmt.Errorf("empty node")
	}
	n := &pnode{typ: b[0]}
	off := 1
	var err error
	switch n.typ {
	case tBranch:
		for i := range n.kids {
			if n.kids[i], err = readChild(b, &off); err != nil {
				return nil, err
			}
		}
	case tExt:
		if n.key, err = readVarBytes(b, &off, 1<<20); err != nil {
			return nil, err
		}
		if n.next, err = readChild(b, &off); err != nil {
			return nil, err
		}
	case tLeaf:
		if n.val, err = readVarBytes(b, &off, 1<<20); err != nil {
			return nil, err
		}
	default:
		return nil, fmt.Errorf("stored node of type %d", n.typ)
	}
	if off != len(b) {
		return nil, fmt.Errorf("%d trailing bytes", len(b)-off)
	}
	return n, nil
}

// ---- walker over stored nodes ---------------------------------------------------

type walker struct {
	get     func(util.Uint256) ([]byte, error)
	content map[string][]byte
	nodes   map[util.Uint256]bool
	broken  string
}

func (w *walker) fail(f string, a ...any) {
	if w.broken == "" {
		w.broken = fmt.Sprintf(f, a...)
	}
}

// walk visits the node with hash h located at nibble path; underExt tells
// whether the parent is an extension node. Returns the node type.
func (w *walker) walk(h util.Uint256, path []byte, underExt bool) {
	if w.broken != "" {
		return
	}
	b, err := w.get(h)
	if err != nil {
		w.fail("node %s at path %x missing from the store: %v", hex.EncodeToString(h[:4]), path, err)
		return
	}
	if dsha(b) != h {
		w.fail("stored bytes of node at path %x do not hash to their key", path)
		return
	}
	n, err := parseNode(b)
	if err != nil {
		w.fail("node at path %x does not parse: %v", path, err)
		return
	}
	w.nodes[h] = true
	switch n.typ {
	case tLeaf:
		if len(path)%2 != 0 {
			w.fail("leaf at odd nibble path %x", path)
			return
		}
		k := make([]byte, len(path)/2)
		for i := range k {
			k[i] = path[2*i]<<4 | path[2*i+1]
		}
		if _, dup := w.content[string(k)]; dup {
			w.fail("two leaves for key %x", k)
		}
		w.content[string(k)] = n.val
	case tExt:
		if underExt {
			w.fail("invariant: extension directly under extension at path %x", path)
			return
		}
		if len(n.key) == 0 {
			w.fail("invariant: extension with empty key at path %x", path)
			return
		}
		for _, c := range n.key {
			if c > 15 {
				w.fail("extension key has a non-nibble at path %x", path)
				return
			}
		}
		if n.next == nil {
			w.fail("extension with empty next at path %x", path)
			return
		}
		w.walk(*n.next, append(path[:len(path):len(path)], n.key...), true)
	case tBranch:
		cnt := 0
		for _, c := range n.kids {
			if c != nil {
				cnt++
			}
		}
		if cnt < 2 {
			w.fail("invariant: branch with %d children at path %x", cnt, path)
			return
		}
		for i, c := range n.kids {
			if c == nil {
				continue
			}
			p := path
			if i < 16 {
				p = append(path[:len(path):len(path)], byte(i))
			}
			w.walk(*c, p, false)
			if i == 16 && w.broken == "" {
				// the value slot must hold a leaf
				cb, _ := w.get(*c)
				if len(cb) == 0 || cb[0] != tLeaf {
					w.fail("branch value slot holds a non-leaf at path %x", path)
				}
			}
		}
	}
}

func sameContent(a, b map[string][]byte) bool {
	if len(a) != len(b) {
		return false
	}
	for k, v := range a {
		w, ok := b[k]
		if !ok || !bytes.Equal(v, w) {
			return false
		}
	}
	return true
}

func showContent(m map[string][]byte) string {
	keys := make([]string, 0, len(m))
	for k := range m {
		keys = append(keys, k)
	}
	sort.Strings(keys)
	var sb strings.Builder
	for _, k := range keys {
		v := m[k]
		if len(v) > 8 {
			fmt.Fprintf(&sb, "%s=<%d bytes> ", shortHex([]byte(k)), len(v))
		} else {
			fmt.Fprintf(&sb, "%s=%x ", shortHex([]byte(k)), v)
		}
	}
	return strings.TrimSpace(sb.String())
}

func shortHex(b []byte) string {
	if len(b) > 10 {
		return fmt.Sprintf("%x..(%d bytes)", b[:6], len(b))
	}
	if len(b) == 0 {
		return "''"
	}
	return hex.EncodeToString(b)
}
