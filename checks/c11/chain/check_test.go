// C11, part "chain": the trie node storage oracle of the mpt-level part
// (../check_test.go) on real core.Blockchain replicas (Engine L, lib/chainx).
//
// Every history of D blocks over a small block alphabet that shares and
// re-creates trie nodes through contract storage (universal contract U: put
// flip=1, put flip=2, delete flip, put the same value under a second key, an
// empty block, a GAS transfer), followed by a fixed tail of 3 more blocks
// ("blocks after a GC are still accepted"), is built on an archival replica and
// replayed on replicas with KeepOnlyLatestState and with
// RemoveUntraceableBlocks + GC (GarbageCollectionPeriod 1, MaxTraceableBlocks 2),
// flushing after every / every second block and running the node's GC step
// (Blockchain.tryRunGC) after every flush. After every flush the raw DataMPT
// pairs of the replica's backing store are decoded by the harness and judged
// against the contract storage the archival replica had at every height.
package chain

import (
	"bytes"
	"encoding/binary"
	"encoding/json"
	"fmt"
	"hash/fnv"
	"os"
	"sort"
	"strings"
	"sync"
	"testing"
	"time"

	"github.com/nspcc-dev/neo-go/pkg/config"
	"github.com/nspcc-dev/neo-go/pkg/core/mpt"
	"github.com/nspcc-dev/neo-go/pkg/core/storage"
	"github.com/nspcc-dev/neo-go/pkg/core/transaction"
	"github.com/nspcc-dev/neo-go/pkg/util"

	"verif/lib/chainx"
	"verif/lib/vk"
)

const mtb = 2 // protocol MaxTraceableBlocks of the family: GC target = persisted height - 2

var fam = chainx.Family{Name: "single-mtb2", MTB: mtb}

// ---- block alphabet ----------------------------------------------------------------

func uTpl(name string, acc int, prog ...[]any) chainx.Tpl {
	return chainx.Tpl{Name: name, Build: func(w *chainx.World) ([]*transaction.Transaction, error) {
		p := make([]any, len(prog))
		for i := range prog {
			p[i] = prog[i]
		}
		tx, err := w.URun(acc, w.UA, p)
		if err != nil {
			return nil, err
		}
		return []*transaction.Transaction{tx}, nil
	}}
}

// Simplest first.
func templates() []chainx.Tpl {
	return append([]chainx.Tpl{
		uTpl("flip=1", 2, []any{chainx.OpPut, []byte("flip"), []byte("1")}),
		uTpl("flip-del", 3, []any{chainx.OpDel, []byte("flip")}),
		uTpl("flip=2", 2, []any{chainx.OpPut, []byte("flip"), []byte("2")}),
		uTpl("flop=1", 1, []any{chainx.OpPut, []byte("flop"), []byte("1")}), // the same value under a second key
	}, chainx.TplByName("empty", "gas-transfer")...)
}

// tail: indices into templates(), appended to every history.
var tail = []int{2, 1, 0}

// ---- variants ------------------------------------------------------------------------

type variant struct {
	Name    string
	Mode    string // trie mode the options select: all | latest | gc
	Latest  bool   // KeepOnlyLatestState
	Prune   bool   // RemoveUntraceableBlocks + GC step after every flush
	Flush   int    // flush after every n-th block
	Restart bool   // graceful restart after every flush
}

func (v variant) cfg(c *config.Blockchain) {
	c.Ledger.KeepOnlyLatestState = v.Latest
	if v.Prune {
		c.Ledger.RemoveUntraceableBlocks = true
		c.Ledger.GarbageCollectionPeriod = 1
	}
}

func variants(thorough bool) []variant {
	vs := []variant{
		{Name: "archival/f1", Mode: "all", Flush: 1}, // also the reference that builds the blocks
		{Name: "latest/f1", Mode: "latest", Latest: true, Flush: 1},
		{Name: "latest/f2", Mode: "latest", Latest: true, Flush: 2},
		{Name: "gc/f1", Mode: "gc", Prune: true, Flush: 1},
		{Name: "gc/f2", Mode: "gc", Prune: true, Flush: 2},
	}
	if thorough {
		vs = append(vs,
			variant{Name: "latest+gc/f1", Mode: "gc", Latest: true, Prune: true, Flush: 1},
			variant{Name: "gc/f1/restart", Mode: "gc", Prune: true, Flush: 1, Restart: true},
			variant{Name: "latest/f2/restart", Mode: "latest", Latest: true, Flush: 2, Restart: true},
			variant{Name: "gc/f3", Mode: "gc", Prune: true, Flush: 3},
		)
	}
	return vs
}

// ---- reference data of one history ---------------------------------------------------

type refData struct {
	blocks [][]byte            // wire bytes, index i = height i+1
	maps   []map[string][]byte // trie key -> value by height (0 = genesis)
	canons []*canon
	roots  []util.Uint256
	probe  []string // keys read through the API under every root
}

type world struct {
	preamble [][]byte
	w        *chainx.World
	tpls     []chainx.Tpl
}

func buildWorld() (*world, error) {
	n, err := chainx.New(fam.Opts())
	if err != nil {
		return nil, err
	}
	defer n.Close()
	w, err := chainx.BuildPreamble(n, 0)
	if err != nil {
		return nil, err
	}
	wd := &world{w: w, tpls: templates()}
	for _, b := range w.Preamble {
		bb, err := chainx.BlockBytes(b)
		if err != nil {
			return nil, err
		}
		wd.preamble = append(wd.preamble, bb)
	}
	return wd, nil
}

// trieMap reads the whole contract storage of the replica as the key/value
// set its state trie must hold: key = contract id (4 bytes LE) + storage key.
func trieMap(n *chainx.Node, maxID int32) map[string][]byte {
	m := map[string][]byte{}
	for _, id := range n.ContractIDs(maxID) {
		var p [4]byte
		binary.LittleEndian.PutUint32(p[:], uint32(id))
		n.BC.SeekStorage(id, nil, func(k, v []byte) bool {
			m[string(p[:])+string(k)] = bytes.Clone(v)
			return true
		})
	}
	return m
}

// ---- counters ------------------------------------------------------------------------

type stats struct {
	blocks, flushes, gcs, gcRemoved, restarts      int64
	checks, nodesDecoded, nodesWalked, rootsWalked int64
	activeChecked, inactiveChecked, shared         int64
	gets, finds, oldOK, oldErr, seeks, proofs      int64
	reactivated                                    int64
	maxNodes                                       int64
}

func (s *stats) merge(o *stats) {
	s.blocks += o.blocks
	s.flushes += o.flushes
	s.gcs += o.gcs
	s.gcRemoved += o.gcRemoved
	s.restarts += o.restarts
	s.checks += o.checks
	s.nodesDecoded += o.nodesDecoded
	s.nodesWalked += o.nodesWalked
	s.rootsWalked += o.rootsWalked
	s.activeChecked += o.activeChecked
	s.inactiveChecked += o.inactiveChecked
	s.shared += o.shared
	s.gets += o.gets
	s.finds += o.finds
	s.seeks += o.seeks
	s.proofs += o.proofs
	s.oldOK += o.oldOK
	s.oldErr += o.oldErr
	s.reactivated += o.reactivated
	s.maxNodes = max(s.maxNodes, o.maxNodes)
}

// ---- one replica run -------------------------------------------------------------------

type run struct {
	v   variant
	n   *chainx.Node
	rs  *chainx.RecStore
	ref *refData
	st  *stats

	h         uint32 // height of the last block added
	gmax      uint32
	gcRan     bool
	lastDeact map[h256]uint32
	folded    uint32 // lastDeact covers transitions up to this height
	digest    uint64
	findP     [][]byte
}

func (r *run) rc() bool { return r.v.Mode != "all" }

func (r *run) retained(x uint32) bool {
	switch r.v.Mode {
	case "latest":
		return x == r.h
	case "gc":
		return x >= r.gmax
	}
	return true
}

func (r *run) fold() {
	for r.folded < r.h {
		r.folded++
		pc, c := r.ref.canons[r.folded-1], r.ref.canons[r.folded]
		for x := range pc.mult {
			if _, ok := c.mult[x]; !ok {
				r.lastDeact[x] = r.folded
			}
		}
		for x := range c.mult {
			if _, ok := pc.mult[x]; !ok {
				if _, was := r.lastDeact[x]; was {
					r.st.reactivated++
				}
			}
		}
	}
}

// flush = what Run's timer does: persist, then the GC step.
func (r *run) flush() (kind, detail string) {
	old := r.n.BC.VerifPersistedHeight()
	if err := r.n.Persist(); err != nil {
		return "flush-error", err.Error()
	}
	r.st.flushes++
	if r.v.Prune {
		// tryRunGC: target = persisted height - MaxTraceableBlocks, rounded to the
		// period (1); it runs when the target is above the period and a new
		// period was persisted.
		p := r.n.BC.VerifPersistedHeight()
		tgt := int64(p) - int64(r.n.BC.GetMaxTraceableBlocks())
		before := countMPT(r.rs.Inner)
		r.n.BC.VerifTryRunGC(old)
		if tgt > 1 && p != old {
			r.st.gcs++
			r.gcRan = true
			if uint32(tgt) > r.gmax {
				r.gmax = uint32(tgt)
			}
			r.st.gcRemoved += int64(before - countMPT(r.rs.Inner))
		}
	}
	if r.v.Restart {
		m, err := r.n.Reopen()
		r.n = m
		if err != nil {
			return "restart-error", err.Error()
		}
		r.st.restarts++
	}
	return "", ""
}

func countMPT(s storage.Store) int {
	n := 0
	s.Seek(storage.SeekRange{Prefix: []byte{byte(storage.DataMPT)}}, func(k, v []byte) bool { n++; return true })
	return n
}

// check judges the backing store; must be called right after a flush.
func (r *run) check() (kind, detail string) {
	st := r.st
	st.checks++
	r.fold()
	h := r.h
	rc := r.rc()
	gcMode := r.v.Mode == "gc"
	db := map[h256]*stored{}
	fh := fnv.New64a()
	r.rs.Inner.Seek(storage.SeekRange{Prefix: []byte{byte(storage.DataMPT)}}, func(k, v []byte) bool {
		if len(k) != 33 {
			kind, detail = "bad-key", fmt.Sprintf("DataMPT key of length %d", len(k))
			return false
		}
		var x h256
		copy(x[:], k[1:])
		db[x] = decodeStored(x, bytes.Clone(v), rc)
		fh.Write(k)
		fh.Write(v)
		return true
	})
	if kind != "" {
		return
	}
	fmt.Fprintf(fh, "|%s|%d|%d", r.v.Name, h, r.gmax)
	r.digest = fh.Sum64()
	st.nodesDecoded += int64(len(db))
	st.maxNodes = max(st.maxNodes, int64(len(db)))
	hs := make([]h256, 0, len(db))
	for x := range db {
		hs = append(hs, x)
	}
	sort.Slice(hs, func(i, j int) bool { return bytes.Compare(hs[i][:], hs[j][:]) < 0 })
	for _, x := range hs {
		if s := db[x]; s.derr != nil {
			return "undecodable-node", fmt.Sprintf("node %s: %v (raw %x)", x.short(), s.derr, s.raw)
		}
	}
	sr, err := r.n.BC.GetStateRoot(h)
	if err != nil {
		return "state-root-record-missing", fmt.Sprintf("height %d: %v", h, err)
	}
	if sr.Root != r.ref.roots[h] {
		return "state-root-differs-from-reference", fmt.Sprintf("height %d: %s, archival replica %s", h, sr.Root.StringBE(), r.ref.roots[h].StringBE())
	}

	// (1) latest root
	latest := r.ref.canons[h]
	cnt := map[h256]int{}
	leaves := map[string][]byte{}
	if e := walkRaw(db, latest.root, nil, gcMode, cnt, leaves, 0); e != nil {
		return e.kind, fmt.Sprintf("latest root (height %d): %v", h, e)
	}
	st.rootsWalked++
	if d := diffLeaves(leaves, r.ref.maps[h]); d != "" {
		return "latest-root-holds-wrong-data", d
	}
	// (2)+(3)
	for _, x := range hs {
		s := db[x]
		c := cnt[x]
		st.nodesWalked += int64(c)
		if c >= 2 {
			st.shared++
		}
		if c != latest.mult[x] {
			return "harness-model-mismatch", fmt.Sprintf("node %s occurs %d times in the stored trie, %d in the canonical one", x.short(), c, latest.mult[x])
		}
		if !rc {
			continue
		}
		switch {
		case s.active && c == 0:
			return "stray-active-node", fmt.Sprintf("node %s (type %d, count %d) is stored active but is not reachable from the latest root of height %d; last dereferenced at %d", x.short(), s.node.typ, s.num, h, r.lastDeact[x])
		case s.active:
			st.activeChecked++
			if int(s.num) != c {
				return "refcount-mismatch", fmt.Sprintf("node %s (type %d) stored count %d, occurs %d times in the trie of height %d", x.short(), s.node.typ, s.num, c, h)
			}
		case !gcMode:
			return "inactive-node-without-gc", fmt.Sprintf("node %s has the inactive flag in mode %s", x.short(), r.v.Mode)
		default:
			st.inactiveChecked++
			want, ok := r.lastDeact[x]
			if !ok {
				return "inactive-node-never-referenced", fmt.Sprintf("node %s", x.short())
			}
			if s.num != want {
				return "inactive-height-wrong", fmt.Sprintf("node %s is marked inactive since %d, it lost its last reference at %d", x.short(), s.num, want)
			}
			if r.gcRan && s.num <= r.gmax {
				return "garbage-left-after-gc", fmt.Sprintf("node %s inactive since %d is still stored after GC(%d); no state at or above %d needs it", x.short(), s.num, r.gmax, r.gmax)
			}
		}
	}
	// (4)+(5)
	sm := r.n.BC.GetStateModule()
	for x := uint32(0); x <= h; x++ {
		c := r.ref.canons[x]
		ret := r.retained(x)
		root := r.ref.roots[x]
		if ret && x != h {
			lv := map[string][]byte{}
			if e := walkRaw(db, c.root, nil, false, map[h256]int{}, lv, 0); e != nil {
				return "retained-root-" + e.kind, fmt.Sprintf("root of height %d (latest %d, collected up to %d): %v", x, h, r.gmax, e)
			}
			st.rootsWalked++
			if d := diffLeaves(lv, r.ref.maps[x]); d != "" {
				return "retained-root-holds-wrong-data", fmt.Sprintf("height %d: %s", x, d)
			}
		}
		tag := "retained"
		if !ret {
			tag = "non-retained"
		}
		for _, k := range r.ref.probe {
			st.gets++
			v, err := sm.GetState(root, []byte(k))
			want, has := r.ref.maps[x][k]
			if err == nil {
				if !has || !bytes.Equal(v, want) {
					return "get-returns-wrong-data-" + tag, fmt.Sprintf("GetState(root of height %d, key %x) = %x, that state had %x (present=%v); latest %d, collected up to %d", x, k, v, want, has, h, r.gmax)
				}
				if !ret {
					st.oldOK++
				}
			} else {
				if ret && has {
					return "get-fails-on-retained-root", fmt.Sprintf("GetState(root of height %d, key %x): %v; latest %d, collected up to %d", x, k, err, h, r.gmax)
				}
				if !ret && has {
					st.oldErr++
				}
			}
		}
		for _, p := range r.findP {
			st.finds++
			res, err := sm.FindStates(root, p, nil, 1000)
			var want []storage.KeyValue
			for _, k := range sortedKeys(r.ref.maps[x]) {
				if strings.HasPrefix(k, string(p)) {
					want = append(want, storage.KeyValue{Key: []byte(k), Value: r.ref.maps[x][k]})
				}
			}
			if err == nil {
				if !sameKVs(res, want) {
					return "find-returns-wrong-data-" + tag, fmt.Sprintf("FindStates(root of height %d, prefix %x) = %s, that state had %s", x, p, kvString(res), kvString(want))
				}
			} else if ret && len(want) > 0 {
				return "find-fails-on-retained-root", fmt.Sprintf("FindStates(root of height %d, prefix %x): %v", x, p, err)
			}
		}
		// SeekStates (no error result): nothing, or the whole correct answer.
		if len(r.findP) > 0 {
			p := r.findP[0]
			st.seeks++
			var res, want []storage.KeyValue
			sm.SeekStates(root, p, func(k, v []byte) bool {
				res = append(res, storage.KeyValue{Key: append(append([]byte{}, p...), k...), Value: bytes.Clone(v)})
				return true
			})
			for _, k := range sortedKeys(r.ref.maps[x]) {
				if strings.HasPrefix(k, string(p)) {
					want = append(want, storage.KeyValue{Key: []byte(k), Value: r.ref.maps[x][k]})
				}
			}
			if !sameKVs(res, want) && (ret || len(res) != 0) {
				return "seek-returns-wrong-data-" + tag, fmt.Sprintf("SeekStates(root of height %d, prefix %x) = %s, that state had %s; latest %d, collected up to %d", x, p, kvString(res), kvString(want), h, r.gmax)
			}
		}
		// proofs under the root before the latest one, the oldest retained and the newest collected root
		if x+1 == h || x == r.gmax || x+1 == r.gmax {
			for _, k := range r.ref.probe {
				st.proofs++
				want, has := r.ref.maps[x][k]
				proof, err := sm.GetStateProof(root, []byte(k))
				if err != nil {
					if ret && has {
						return "proof-fails-on-retained-root", fmt.Sprintf("GetStateProof(root of height %d, key %x): %v; latest %d, collected up to %d", x, k, err, h, r.gmax)
					}
					continue
				}
				v, ok := mpt.VerifyProof(root, []byte(k), proof)
				if !ok || !has || !bytes.Equal(v, want) {
					return "proof-returns-wrong-data-" + tag, fmt.Sprintf("GetStateProof(root of height %d, key %x): %d nodes, verifies=%v value %x, that state had %x (present=%v)", x, k, len(proof), ok, v, want, has)
				}
			}
		}
	}
	return "", ""
}

func sortedKeys(m map[string][]byte) []string {
	ks := make([]string, 0, len(m))
	for k := range m {
		ks = append(ks, k)
	}
	sort.Strings(ks)
	return ks
}

func sameKVs(a, b []storage.KeyValue) bool {
	if len(a) != len(b) {
		return false
	}
	for i := range a {
		if !bytes.Equal(a[i].Key, b[i].Key) || !bytes.Equal(a[i].Value, b[i].Value) {
			return false
		}
	}
	return true
}

func kvString(a []storage.KeyValue) string {
	var s []string
	for _, e := range a {
		s = append(s, fmt.Sprintf("%x=%x", e.Key, e.Value))
	}
	return "[" + strings.Join(s, " ") + "]"
}

func diffLeaves(leaves map[string][]byte, m map[string][]byte) string {
	n := 0
	var first string
	for p, v := range leaves {
		k := fromNibbles(p)
		if w, ok := m[k]; !ok || !bytes.Equal(w, v) {
			n++
			if first == "" || k < first {
				first = k
			}
		}
	}
	for k := range m {
		if _, ok := leaves[string(nibbles(k))]; !ok {
			n++
			if first == "" || k < first {
				first = k
			}
		}
	}
	if n == 0 {
		return ""
	}
	return fmt.Sprintf("%d keys differ between the walk (%d leaves) and the storage (%d items), first %x: walk %x, storage %x", n, len(leaves), len(m), first, leaves[string(nibbles(first))], m[first])
}

// ---- one history ---------------------------------------------------------------------------

type caseRec struct {
	Variant string   `json:"variant"`
	Hist    []int    `json:"history"`
	Names   []string `json:"blocks"`
	Kind    string   `json:"violated,omitempty"`
	At      uint32   `json:"at_height,omitempty"`
	Detail  string   `json:"detail,omitempty"`
}

func names(wd *world, h []int) []string {
	var s []string
	for _, k := range h {
		s = append(s, wd.tpls[k].Name)
	}
	return s
}

// runReplica feeds the blocks to a replica of variant v. When ref holds no
// blocks yet the replica is the archival reference: it builds the blocks of the
// history itself and records the reference data height by height.
func runReplica(wd *world, v variant, ref *refData, full []int, st *stats, states *vk.Set) (kind, detail string, at uint32) {
	building := ref.blocks == nil
	rs := chainx.NewRecStore(storage.NewMemoryStore())
	rs.NoLog = true
	o := fam.Opts()
	o.Store = rs
	o.Cfg = v.cfg
	n, err := chainx.New(o)
	if err != nil {
		return "start-error", err.Error(), 0
	}
	r := &run{v: v, n: n, rs: rs, ref: ref, st: st, lastDeact: map[h256]uint32{}}
	defer func() {
		if r.n != nil {
			r.n.Close()
		}
	}()
	defer func() {
		if p := recover(); p != nil {
			kind, detail, at = "panic", fmt.Sprint(p), r.h
		}
	}()
	w := wd.w.Attach(n)
	record := func() string {
		m := trieMap(r.n, w.MaxID)
		c := canonOf(m)
		sr, err := r.n.BC.GetStateRoot(r.h)
		if err != nil {
			return err.Error()
		}
		ref.maps = append(ref.maps, m)
		ref.canons = append(ref.canons, c)
		ref.roots = append(ref.roots, sr.Root)
		if util.Uint256(c.root) != sr.Root {
			return fmt.Sprintf("height %d: state root %s, canonical trie of the %d storage items has %s", r.h, sr.Root.StringBE(), len(m), util.Uint256(c.root).StringBE())
		}
		return ""
	}
	if building {
		if e := record(); e != "" {
			return "reference-root-differs-from-canonical", e, 0
		}
	}
	total := len(wd.preamble) + len(full)
	var blocks [][]byte
	for i := 1; i <= total; i++ {
		r.h = uint32(i)
		at = r.h
		switch {
		case !building:
			err = r.n.AddBytes(ref.blocks[i-1])
		case i <= len(wd.preamble):
			blocks = append(blocks, wd.preamble[i-1])
			err = r.n.AddBytes(wd.preamble[i-1])
		default:
			w.N = r.n
			var txs []*transaction.Transaction
			if txs, err = wd.tpls[full[i-1-len(wd.preamble)]].Build(w); err == nil {
				b, e := r.n.AddBlock(txs...)
				err = e
				if e == nil {
					bb, _ := chainx.BlockBytes(b)
					blocks = append(blocks, bb)
					for _, tx := range b.Transactions {
						if e := r.n.CheckHalt(tx.Hash()); e != nil {
							return "harness-template-tx-did-not-halt", e.Error(), at
						}
					}
				}
			}
		}
		if err != nil {
			return "block-rejected", fmt.Sprintf("height %d: %v", i, err), at
		}
		st.blocks++
		if building {
			if e := record(); e != "" {
				return "reference-root-differs-from-canonical", e, at
			}
		}
		if i%v.Flush == 0 || i == total {
			if kind, detail = r.flush(); kind != "" {
				return
			}
			if r.findP == nil {
				r.findP = findPrefixes(r.n, w)
			}
			if building {
				ref.probe = probeKeys(ref) // keys known so far
			}
			if kind, detail = r.check(); kind != "" {
				return
			}
			if states != nil {
				states.Add(fmt.Sprintf("%x", r.digest))
			}
		}
	}
	if building {
		ref.blocks = blocks
		ref.probe = probeKeys(ref)
	}
	return "", "", 0
}

// findPrefixes: all storage of UA, and UA's keys starting with "fl".
func findPrefixes(n *chainx.Node, w *chainx.World) [][]byte {
	cs := n.BC.GetContractState(w.UA.Hash)
	if cs == nil {
		return nil
	}
	var p [4]byte
	binary.LittleEndian.PutUint32(p[:], uint32(cs.ID))
	return [][]byte{p[:], append(append([]byte{}, p[:]...), "fl"...)}
}

// probeKeys: every key of the deployed contracts that exists at some height so
// far, plus the first native keys whose value changed between two heights.
func probeKeys(ref *refData) []string {
	set := map[string]bool{}
	changed := map[string]bool{}
	for h, m := range ref.maps {
		for k, v := range m {
			if int32(binary.LittleEndian.Uint32([]byte(k[:4]))) > 0 {
				set[k] = true
			} else if h > 0 {
				if w, ok := ref.maps[h-1][k]; !ok || !bytes.Equal(w, v) {
					changed[k] = true
				}
			}
		}
	}
	var ck []string
	for k := range changed {
		ck = append(ck, k)
	}
	sort.Strings(ck)
	if len(ck) > 6 {
		ck = ck[:6]
	}
	for _, k := range ck {
		set[k] = true
	}
	var out []string
	for k := range set {
		out = append(out, k)
	}
	sort.Strings(out)
	return out
}

func runHistory(wd *world, vs []variant, h []int, only string, st *stats, states *vk.Set, report func(*caseRec)) {
	full := append(append([]int{}, h...), tail...)
	ref := &refData{}
	for i, v := range vs {
		if i > 0 && only != "" && v.Name != only {
			continue
		}
		kind, detail, at := runReplica(wd, v, ref, full, st, states)
		if kind != "" {
			report(&caseRec{Variant: v.Name, Hist: append([]int{}, h...), Names: names(wd, full), Kind: kind, At: at, Detail: detail})
			if i == 0 {
				return // no reference
			}
		}
	}
}

// ---- the check ---------------------------------------------------------------------------------

func enumerate(k, d int, f func([]int)) {
	h := make([]int, d)
	var rec func(i int)
	rec = func(i int) {
		if i == d {
			f(append([]int{}, h...))
			return
		}
		for x := 0; x < k; x++ {
			h[i] = x
			rec(i + 1)
		}
	}
	rec(0)
}

func TestCheck(t *testing.T) {
	vk.UseT(t)
	r := vk.Start("C11", "model_checking", 100*time.Second, 8*time.Minute)
	defer vk.CleanScratch()
	wd, err := buildWorld()
	if err != nil {
		fmt.Println("CHECK-ERROR: cannot build the preamble:", err)
		os.Exit(3)
	}
	if r.Replay != "" {
		replay(r, wd)
		return
	}
	vs := variants(r.Thorough())
	// phases {alphabet size, depth}
	type phase struct{ K, D int }
	phases := vk.Pick(r, []phase{{6, 3}, {4, 4}, {3, 5}}, []phase{{6, 4}, {4, 5}, {3, 6}})
	if e := os.Getenv("C11_CHAIN_PHASES"); e != "" { // experiments: "K,D;K,D"
		phases = nil
		for _, s := range strings.Split(e, ";") {
			var p phase
			fmt.Sscanf(s, "%d,%d", &p.K, &p.D)
			phases = append(phases, p)
		}
	}
	var hists [][]int
	seen := map[string]bool{}
	for _, p := range phases {
		enumerate(p.K, p.D, func(h []int) {
			if k := fmt.Sprint(h); !seen[k] {
				seen[k] = true
				hists = append(hists, h)
			}
		})
	}
	// simplest first
	sort.SliceStable(hists, func(a, b int) bool {
		ma, mb := 0, 0
		for _, k := range hists[a] {
			ma = max(ma, k)
		}
		for _, k := range hists[b] {
			mb = max(mb, k)
		}
		return ma < mb
	})
	states := vk.NewSet()
	var total stats
	var mu sync.Mutex
	var runs vk.Counter
	done := r.Parallel(len(hists), func(i int) {
		var st stats
		runHistory(wd, vs, hists[i], "", &st, states, func(c *caseRec) {
			r.Violation(c.Kind+":"+c.Variant+":"+strings.Join(names(wd, c.Hist), ","), c)
		})
		runs.Add(len(vs))
		if i%50 == 0 {
			r.Sample(map[string]any{"history": names(wd, hists[i]), "tail": names(wd, tail), "variants": len(vs)})
		}
		mu.Lock()
		total.merge(&st)
		mu.Unlock()
	})
	var vn, al []string
	for _, v := range vs {
		vn = append(vn, v.Name)
	}
	for _, t := range wd.tpls {
		al = append(al, t.Name)
	}
	r.Outcome(fmt.Sprintf("gc-removed-nodes:%v", total.gcRemoved > 0))
	r.Outcome(fmt.Sprintf("nodes-recreated-while-inactive:%v", total.reactivated > 0))
	r.Outcome(fmt.Sprintf("old-root-read-ok:%v", total.oldOK > 0))
	r.Outcome(fmt.Sprintf("old-root-read-error:%v", total.oldErr > 0))
	r.Finish(map[string]any{
		"states":                         states.Len(),
		"transitions":                    int(total.blocks + total.flushes + total.gcs),
		"traces_validated_against_impl":  int(runs.Get()),
		"rule":                           "every history of D blocks over the first K block templates (phases), + a fixed tail of 3 blocks, built on an archival core.Blockchain and replayed on every variant (trie mode x flush period x restart); oracle on the raw DataMPT pairs of the backing store after every flush; state = digest of those pairs + variant + height + collected-up-to",
		"phases_K_D":                     fmt.Sprint(phases),
		"histories":                      done,
		"block_alphabet":                 al,
		"tail":                           names(wd, tail),
		"variants":                       vn,
		"max_traceable_blocks":           mtb,
		"blocks_added":                   int(total.blocks),
		"flushes":                        int(total.flushes),
		"gc_steps_run":                   int(total.gcs),
		"gc_nodes_removed":               int(total.gcRemoved),
		"restarts":                       int(total.restarts),
		"oracle_evaluations":             int(total.checks),
		"raw_nodes_decoded":              int(total.nodesDecoded),
		"max_nodes_in_a_store":           int(total.maxNodes),
		"nodes_visited_by_latest_walks":  int(total.nodesWalked),
		"roots_walked":                   int(total.rootsWalked),
		"active_nodes_count_checked":     int(total.activeChecked),
		"inactive_nodes_height_checked":  int(total.inactiveChecked),
		"shared_node_sightings":          int(total.shared),
		"nodes_recreated_while_inactive": int(total.reactivated),
		"get_calls":                      int(total.gets),
		"seek_calls":                     int(total.seeks),
		"proof_calls":                    int(total.proofs),
		"find_calls":                     int(total.finds),
		"old_root_get_correct":           int(total.oldOK),
		"old_root_get_error":             int(total.oldErr),
	}, []string{
		"the expected content of the trie at a height is the archival replica's full contract storage at that height (key = contract id as 4 bytes LE + storage key); its canonical trie root must equal the archival replica's state root, which validates the dump",
		"the GC target is recomputed by the harness as tryRunGC does (persisted height - MaxTraceableBlocks, period 1, only when above 1 and the persisted height moved); retained roots in GC replicas are the heights at or above the highest target so far",
		"the store is judged right after a flush (+ GC step), when the node's write cache holds no trie changes; with flush period > 1 the heights in between are judged through their roots at the next flush",
		"restarts are graceful (crash points are C02)",
	})
}

func replay(r *vk.Run, wd *world) {
	var c caseRec
	if err := r.ReadReplay(&c); err != nil {
		fmt.Println("cannot read replay:", err)
		os.Exit(3)
	}
	if c.Variant == "" {
		fmt.Println("replay file is not a case of the chain part")
		r.Finish(map[string]any{"states": 1, "transitions": 1, "traces_validated_against_impl": 1}, nil)
	}
	vs := variants(true)
	outs := map[string]int{}
	for i := 0; i < 5; i++ {
		var st stats
		got := false
		runHistory(wd, vs, c.Hist, c.Variant, &st, nil, func(x *caseRec) {
			got = true
			outs[fmt.Sprintf("%s on %s at height %d: %s", x.Kind, x.Variant, x.At, x.Detail)]++
			if i == 0 {
				r.Violation(x.Kind+":"+x.Variant+":"+strings.Join(names(wd, x.Hist), ","), x)
			}
		})
		if !got {
			outs["clean"]++
		}
	}
	b, _ := json.Marshal(names(wd, c.Hist))
	fmt.Printf("replayed %s on %s 5x:\n", b, c.Variant)
	for k, n := range outs {
		fmt.Printf("  %dx %s\n", n, k)
	}
	r.Finish(map[string]any{"states": 1, "transitions": 5, "traces_validated_against_impl": 5}, nil)
}
