// The harness' own view of the MPT: a canonical trie builder (what the
// trie of a given key/value map must look like, node by node, with the
// number of times every node occurs) and a decoder of the raw DataMPT
// values as node.go / trie.go write them. Nothing here calls pkg/core/mpt.
// (Copy of ../model_test.go without the canon cache: the maps are big here.)
package chain

import (
	"bytes"
	"crypto/sha256"
	"errors"
	"fmt"
	"sort"
)

type h256 [32]byte

func (h h256) short() string { return fmt.Sprintf("%x", h[:4]) }

func dsha(b []byte) h256 {
	a := sha256.Sum256(b)
	return sha256.Sum256(a[:])
}

// node types on disk (node.go).
const (
	tBranch = 0x00
	tExt    = 0x01
	tLeaf   = 0x02
	tHash   = 0x03
	tEmpty  = 0x04
)

// ---- canonical trie of a map ---------------------------------------------------

type canon struct {
	empty bool
	root  h256
	mult  map[h256]int    // node -> number of occurrences in the (unfolded) trie
	body  map[h256][]byte // node -> serialization (without the storage suffix)
}

type kvp struct {
	path []byte // nibbles
	val  []byte
}

func nibbles(k string) []byte {
	r := make([]byte, 0, len(k)*2)
	for i := 0; i < len(k); i++ {
		r = append(r, k[i]>>4, k[i]&0x0f)
	}
	return r
}

func putVarBytes(w *bytes.Buffer, b []byte) {
	n := len(b)
	switch {
	case n < 0xfd:
		w.WriteByte(byte(n))
	case n <= 0xffff:
		w.WriteByte(0xfd)
		w.WriteByte(byte(n))
		w.WriteByte(byte(n >> 8))
	default:
		panic("value too long for the harness")
	}
	w.Write(b)
}

func (c *canon) add(b []byte) h256 {
	h := dsha(b)
	c.mult[h]++
	if _, ok := c.body[h]; !ok {
		c.body[h] = b
	}
	return h
}

func (c *canon) leaf(v []byte) h256 {
	var w bytes.Buffer
	w.WriteByte(tLeaf)
	putVarBytes(&w, v)
	return c.add(w.Bytes())
}

func (c *canon) ext(key []byte, next h256) h256 {
	var w bytes.Buffer
	w.WriteByte(tExt)
	putVarBytes(&w, key)
	w.WriteByte(tHash)
	w.Write(next[:])
	return c.add(w.Bytes())
}

// build returns the hash of the subtrie holding kv (sorted, non-empty).
func (c *canon) build(kv []kvp) h256 {
	if len(kv) == 1 {
		l := c.leaf(kv[0].val)
		if len(kv[0].path) == 0 {
			return l
		}
		return c.ext(kv[0].path, l)
	}
	// common prefix of all paths
	p := kv[0].path
	for _, e := range kv[1:] {
		i := 0
		for i < len(p) && i < len(e.path) && p[i] == e.path[i] {
			i++
		}
		p = p[:i]
	}
	if len(p) > 0 {
		sub := make([]kvp, len(kv))
		for i, e := range kv {
			sub[i] = kvp{e.path[len(p):], e.val}
		}
		return c.ext(append([]byte{}, p...), c.build(sub))
	}
	var ch [17]*h256
	i := 0
	if len(kv[0].path) == 0 {
		l := c.leaf(kv[0].val)
		ch[16] = &l
		i = 1
	}
	for i < len(kv) {
		n := kv[i].path[0]
		j := i
		var sub []kvp
		for j < len(kv) && kv[j].path[0] == n {
			sub = append(sub, kvp{kv[j].path[1:], kv[j].val})
			j++
		}
		h := c.build(sub)
		ch[n] = &h
		i = j
	}
	var w bytes.Buffer
	w.WriteByte(tBranch)
	for _, x := range ch {
		if x == nil {
			w.WriteByte(tEmpty)
		} else {
			w.WriteByte(tHash)
			w.Write(x[:])
		}
	}
	return c.add(w.Bytes())
}

func mapString(m map[string][]byte) string {
	ks := make([]string, 0, len(m))
	for k := range m {
		ks = append(ks, k)
	}
	sort.Strings(ks)
	var b bytes.Buffer
	for _, k := range ks {
		fmt.Fprintf(&b, "%x=%x;", k, m[k])
	}
	return b.String()
}

func canonOf(m map[string][]byte) *canon {
	c := &canon{mult: map[h256]int{}, body: map[h256][]byte{}}
	if len(m) == 0 {
		c.empty = true
	} else {
		ks := make([]string, 0, len(m))
		for k := range m {
			ks = append(ks, k)
		}
		sort.Strings(ks) // byte order == nibble order
		kv := make([]kvp, len(ks))
		for i, k := range ks {
			kv[i] = kvp{nibbles(k), m[k]}
		}
		c.root = c.build(kv)
	}
	return c
}

// ---- raw store decoding ----------------------------------------------------------

type rawNode struct {
	typ      byte
	children [17]*h256 // branch
	key      []byte    // extension (nibbles)
	next     h256      // extension
	value    []byte    // leaf
}

type stored struct {
	raw    []byte // value as stored
	body   []byte // node serialization
	node   *rawNode
	derr   error  // decoding error
	rc     bool   // has the 5-byte suffix
	active bool   // suffix flag
	num    uint32 // count (active) or height (inactive)
}

func readVarBytes(b []byte, max int) (v, rest []byte, err error) {
	if len(b) == 0 {
		return nil, nil, errors.New("truncated length")
	}
	n := int(b[0])
	b = b[1:]
	if n == 0xfd {
		if len(b) < 2 {
			return nil, nil, errors.New("truncated length")
		}
		n = int(b[0]) | int(b[1])<<8
		b = b[2:]
	} else if n > 0xfd {
		return nil, nil, errors.New("length too big")
	}
	if n > max || n > len(b) {
		return nil, nil, fmt.Errorf("bad length %d", n)
	}
	return b[:n], b[n:], nil
}

func readChild(b []byte) (h *h256, rest []byte, err error) {
	if len(b) == 0 {
		return nil, nil, errors.New("truncated child")
	}
	switch b[0] {
	case tEmpty:
		return nil, b[1:], nil
	case tHash:
		if len(b) < 33 {
			return nil, nil, errors.New("truncated child hash")
		}
		var x h256
		copy(x[:], b[1:33])
		return &x, b[33:], nil
	}
	return nil, nil, fmt.Errorf("child of type %#x in a stored node", b[0])
}

// decodeBody decodes one serialized node; all bytes must be consumed.
func decodeBody(b []byte) (*rawNode, error) {
	if len(b) == 0 {
		return nil, errors.New("empty node")
	}
	n := &rawNode{typ: b[0]}
	rest := b[1:]
	var err error
	switch n.typ {
	case tBranch:
		cnt := 0
		for i := 0; i < 17; i++ {
			n.children[i], rest, err = readChild(rest)
			if err != nil {
				return nil, err
			}
			if n.children[i] != nil {
				cnt++
			}
		}
		if cnt < 2 {
			return nil, fmt.Errorf("branch with %d children", cnt)
		}
	case tExt:
		n.key, rest, err = readVarBytes(rest, 1<<12)
		if err != nil {
			return nil, err
		}
		if len(n.key) == 0 {
			return nil, errors.New("extension with empty key")
		}
		for _, x := range n.key {
			if x > 15 {
				return nil, errors.New("extension key is not nibbles")
			}
		}
		var c *h256
		c, rest, err = readChild(rest)
		if err != nil {
			return nil, err
		}
		if c == nil {
			return nil, errors.New("extension to empty")
		}
		n.next = *c
	case tLeaf:
		n.value, rest, err = readVarBytes(rest, 1<<16)
		if err != nil {
			return nil, err
		}
	default:
		return nil, fmt.Errorf("node type %#x", n.typ)
	}
	if len(rest) != 0 {
		return nil, fmt.Errorf("%d trailing bytes", len(rest))
	}
	return n, nil
}

// decodeStored splits the refcounting suffix (flag byte + 4 bytes LE) off when
// the mode has one and decodes the node.
func decodeStored(key h256, v []byte, rc bool) *stored {
	s := &stored{raw: v, rc: rc, body: v, active: true}
	if rc {
		if len(v) < 6 {
			s.derr = errors.New("value shorter than the suffix")
			return s
		}
		suf := v[len(v)-5:]
		s.body = v[:len(v)-5]
		switch suf[0] {
		case 1:
		case 0:
			s.active = false
		default:
			s.derr = fmt.Errorf("active flag %#x", suf[0])
			return s
		}
		s.num = uint32(suf[1]) | uint32(suf[2])<<8 | uint32(suf[3])<<16 | uint32(suf[4])<<24
	}
	s.node, s.derr = decodeBody(s.body)
	if s.derr == nil && dsha(s.body) != key {
		s.derr = errors.New("key is not the hash of the node")
	}
	return s
}

// walkRaw walks the raw nodes from h. It counts every visit (cnt), collects
// the leaves by path (leaves, key = string of nibbles) and returns the first
// problem. needActive: reachable nodes must carry the active flag.
type walkErr struct {
	kind string
	node h256
	path []byte
	msg  string
}

func (e *walkErr) Error() string {
	return fmt.Sprintf("%s node=%s path=%x %s", e.kind, e.node.short(), e.path, e.msg)
}

func walkRaw(db map[h256]*stored, h h256, path []byte, needActive bool, cnt map[h256]int, leaves map[string][]byte, depth int) *walkErr {
	if depth > 64 {
		return &walkErr{"too-deep", h, path, ""}
	}
	s, ok := db[h]
	if !ok {
		return &walkErr{"missing-node", h, path, ""}
	}
	if s.derr != nil {
		return &walkErr{"undecodable-node", h, path, s.derr.Error()}
	}
	if needActive && !s.active {
		return &walkErr{"inactive-node-reachable-from-latest-root", h, path, fmt.Sprintf("height field %d", s.num)}
	}
	cnt[h]++
	switch s.node.typ {
	case tLeaf:
		if len(path)%2 != 0 {
			return &walkErr{"leaf-at-odd-path", h, path, ""}
		}
		leaves[string(path)] = s.node.value
	case tExt:
		return walkRaw(db, s.node.next, append(append([]byte{}, path...), s.node.key...), needActive, cnt, leaves, depth+1)
	case tBranch:
		for i, c := range s.node.children {
			if c == nil {
				continue
			}
			p := append([]byte{}, path...)
			if i < 16 {
				p = append(p, byte(i))
			}
			if e := walkRaw(db, *c, p, needActive, cnt, leaves, depth+1); e != nil {
				return e
			}
		}
	}
	return nil
}

func fromNibbles(p string) string {
	b := make([]byte, len(p)/2)
	for i := range b {
		b[i] = p[2*i]<<4 | p[2*i+1]
	}
	return string(b)
}
