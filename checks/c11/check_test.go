// C11: trie node storage stays exact under reference counting and garbage
// collection (DESIGN.md section 4, C11), mpt + stateroot level.
//
// Every history of B per-block change batches over a small alphabet (built so
// that nodes are shared) is applied the way Blockchain.storeBlock does it
// (private cache -> Module.AddMPTBatch = PutBatch+Flush(height) -> PersistPrivate
// -> UpdateCurrentLocal, Collapse after a persist, periodic Persist to the
// backing store) in the modes ModeLatest, ModeGC and ModeAll (reference), with
// Module.GC(G, backing store) at every point and every G for ModeGC. After every
// block the raw DataMPT key/value pairs are decoded by the harness (model_test.go)
// and compared with what the retained roots need.
//
// Parts (parts.txt): "main" = committed blocks only (this is where any new
// violation shows; keys never start with "dropped-block:"); "dropped"
// (C11_FAMILY=dropped) = one block per history computed with AddMPTBatch and
// never committed - a recorded finding, see FINDING-dropped-block.md; "chain"
// (checks/c11/chain) = the same oracle on real core.Blockchain replicas.
// Main part phases: 1) every history of B batches over K batches, plain and
// with every single GC(G)@point; 2) every pair of GC events (smaller alphabet,
// fewer configurations); 3) longer histories over the first batches (see phases).
//
// Round 2 (ext_heights_test.go, ext_sync_test.go; main part only): the height
// of block i is H(i) of a height sequence instead of i - sequences crossing
// 2^8, 2^16, 2^24, 2^31 and ending at MaxUint32, contiguous and sparse - with
// GC targets below / at / above every height and inside the gaps, two GC events
// in any order of targets (decreasing, equal, twice at one point), the module's
// own height bookkeeping (state root records, local height,
// GetLatestStateHeight); and histories that start from a state restored node
// by node through mpt.Billet + Module.JumpToState (state synchronisation)
// instead of from the empty trie. Inside this file block numbers are ORDINALS
// (in.height, in.persisted, gcEv.After, indices of maps/canons/repRoots); real
// heights appear only where the implementation is called (in.H) and in
// gcEv.G, in.gmax and lastDeact. Development: C11_HEIGHTS=off|only.
package c11

import (
	"bytes"
	"encoding/json"
	"fmt"
	"hash/fnv"
	"os"
	"runtime/debug"
	"runtime/pprof"
	"sort"
	"strings"
	"sync"
	"testing"
	"time"

	"github.com/nspcc-dev/neo-go/pkg/config"
	"github.com/nspcc-dev/neo-go/pkg/core/mpt"
	"github.com/nspcc-dev/neo-go/pkg/core/state"
	"github.com/nspcc-dev/neo-go/pkg/core/stateroot"
	"github.com/nspcc-dev/neo-go/pkg/core/storage"
	"github.com/nspcc-dev/neo-go/pkg/util"
	"go.uber.org/zap"

	"verif/lib/vk"
)

// ---- alphabet ------------------------------------------------------------------

// Keys (trie keys, i.e. after the storage prefix byte that MapToMPTBatch strips).
// a/b and c/d differ in the last nibble only, a/c and b/d in the first one, so
// equal values give equal leaves, equal extensions and equal branches in
// different places; e extends a (value on a branch's last child).
var keys = map[string]string{
	"a": "\x11", "b": "\x12", "c": "\x21", "d": "\x22", "e": "\x11\x11",
}
var keyOrder = []string{"a", "b", "c", "d", "e"}

var values = map[string][]byte{"1": []byte("x"), "2": []byte("yy"), "-": nil}

// A batch is written "a1 b1 c-": key a := value 1, b := value 1, c deleted.
type batch struct {
	Name string
	kv   map[string][]byte // trie key -> value (nil = delete)
}

func mkBatch(spec string) batch {
	b := batch{Name: "{" + spec + "}", kv: map[string][]byte{}}
	for _, f := range strings.Fields(spec) {
		b.kv[keys[f[:1]]] = values[f[1:]]
	}
	return b
}

// Ordered simplest first. Quick uses the first Kq, thorough the first Kt.
var alphabet = []batch{
	mkBatch(""),               // 0 a block that changes nothing
	mkBatch("a1 b1"),          // 1 same value under two keys sharing a nibble prefix
	mkBatch("c1 d1"),          // 2 the same subtrie under another first nibble (shared branch)
	mkBatch("a- b- c- d- e-"), // 3 delete everything (also keys that are absent)
	mkBatch("a-"),             // 4 delete one (collapses a branch into an extension)
	mkBatch("a2"),             // 5 overwrite / create with another value
	mkBatch("e1"),             // 6 key extending another key
	mkBatch("c1 e-"),          // 7 re-create / shared extension+leaf; delete the extending key alone (branch left with its value child only; delete of a key running past a leaf)
	mkBatch("b- c2"),          // 8 delete and put in one block
	mkBatch("a1 b1 c1 d1"),    // 9 everything at once
	mkBatch("d- e-"),          // 10
	mkBatch("a1"),             // 11 put of an unchanged value / re-create
}

var findPrefixes = [][]byte{{}, {0x11}}
var seekPrefixes = [][]byte{{}, {0x21}}

// ---- configurations --------------------------------------------------------------

type runCfg struct {
	Mode     string `json:"mode"`     // all | latest | gc
	Persist  int    `json:"persist"`  // Persist() to the backing store after every n-th block
	Collapse int    `json:"collapse"` // depth passed to Trie.Collapse where the node calls Collapse(10); -1 = node restart (new Module + Init) at every persist
	Applier  string `json:"applier"`  // batch = Module.AddMPTBatch (PutBatch); putdel = Trie.Put/Delete one by one + Flush
}

func (c runCfg) String() string {
	return fmt.Sprintf("%s/p%d/c%d/%s", c.Mode, c.Persist, c.Collapse, c.Applier)
}

func (c runCfg) trieMode() mpt.TrieMode {
	switch c.Mode {
	case "latest":
		return mpt.ModeLatest
	case "gc":
		return mpt.ModeGC
	}
	return mpt.ModeAll
}

type gcEv struct {
	After int    `json:"after_block"` // GC runs after this block (and after its persist)
	G     uint32 `json:"g"`
}

type dropEv struct {
	After int `json:"after_block"` // computed on top of this many committed blocks, never committed
	Batch int `json:"batch"`
}

type caseRec struct {
	Cfg     runCfg   `json:"config"`
	Hist    []int    `json:"history"`
	Names   []string `json:"batches,omitempty"`
	GC      []gcEv   `json:"gc,omitempty"`
	Drop    []dropEv `json:"dropped_blocks,omitempty"`
	Heights []uint32 `json:"heights,omitempty"`      // height of block i (1-based) = Heights[i-1]; absent: 1,2,3,... (ext_heights_test.go)
	Sync    *syncRec `json:"synced_start,omitempty"` // the history starts from a state restored through mpt.Billet (ext_sync_test.go)
	Kind    string   `json:"violated,omitempty"`
	AtBlock int      `json:"at_block,omitempty"`
	Detail  string   `json:"detail,omitempty"`
}

func (c *caseRec) key() string {
	var h, g, d []string
	for _, k := range c.Hist {
		h = append(h, fmt.Sprint(k))
	}
	for _, e := range c.GC {
		g = append(g, fmt.Sprintf("gc%d@%d", e.G, e.After))
	}
	for _, e := range c.Drop {
		d = append(d, fmt.Sprintf("drop%d@%d", e.Batch, e.After))
	}
	k := fmt.Sprintf("%s:%s:%s:%s", c.Cfg, strings.Join(h, "."), strings.Join(g, ","), strings.Join(d, ","))
	if c.Heights != nil {
		k += ":heights=" + heightsString(c.Heights)
	}
	if c.Sync != nil {
		k += ":" + c.Sync.String()
	}
	return k
}

// ---- counters --------------------------------------------------------------------

type stats struct {
	blocks, dropped, persists, gcs, restarts       int64
	checks, nodesDecoded, nodesWalked, rootsWalked int64
	gets, finds, seeks, proofs                     int64
	activeChecked, inactiveChecked                 int64
	sharedNodes, maxMult                           int64 // nodes seen with multiplicity >= 2
	gcRemoved, gcNoop, prunedNoopGC                int64
	reactivated                                    int64 // node re-created while an inactive copy was stored
	oldOK, oldErr                                  int64 // Get under a non-retained root: correct data / error
	emptied                                        int64
	hx                                             hstats // height-sequence families (ext_heights_test.go)
	sx                                             sstats // synchronised starts (ext_sync_test.go)
	ax                                             astats // aliasing oracle, restore paths (ext_alias_test.go)
	outcomes                                       map[string]int64
}

func (s *stats) oc(k string) {
	if s.outcomes == nil {
		s.outcomes = map[string]int64{}
	}
	s.outcomes[k]++
}

func (s *stats) merge(o *stats) {
	s.blocks += o.blocks
	s.dropped += o.dropped
	s.persists += o.persists
	s.gcs += o.gcs
	s.restarts += o.restarts
	s.checks += o.checks
	s.nodesDecoded += o.nodesDecoded
	s.nodesWalked += o.nodesWalked
	s.rootsWalked += o.rootsWalked
	s.gets += o.gets
	s.finds += o.finds
	s.seeks += o.seeks
	s.proofs += o.proofs
	s.activeChecked += o.activeChecked
	s.inactiveChecked += o.inactiveChecked
	s.sharedNodes += o.sharedNodes
	if o.maxMult > s.maxMult {
		s.maxMult = o.maxMult
	}
	s.gcRemoved += o.gcRemoved
	s.gcNoop += o.gcNoop
	s.prunedNoopGC += o.prunedNoopGC
	s.reactivated += o.reactivated
	s.oldOK += o.oldOK
	s.oldErr += o.oldErr
	s.emptied += o.emptied
	s.hx.merge(&o.hx)
	s.sx.merge(&o.sx)
	s.ax.merge(&o.ax)
	for k, v := range o.outcomes {
		if s.outcomes == nil {
			s.outcomes = map[string]int64{}
		}
		s.outcomes[k] += v
	}
}

// set of 64-bit state digests.
type u64set struct {
	mu [64]sync.Mutex
	m  [64]map[uint64]struct{}
}

func newU64set() *u64set {
	s := &u64set{}
	for i := range s.m {
		s.m[i] = map[uint64]struct{}{}
	}
	return s
}
func (s *u64set) add(x uint64) {
	i := x % 64
	s.mu[i].Lock()
	s.m[i][x] = struct{}{}
	s.mu[i].Unlock()
}
func (s *u64set) len() int {
	n := 0
	for i := range s.m {
		s.mu[i].Lock()
		n += len(s.m[i])
		s.mu[i].Unlock()
	}
	return n
}

// ---- one instance ----------------------------------------------------------------

var nopLog = zap.NewNop()

type inst struct {
	cfg  runCfg
	mode mpt.TrieMode
	ps   storage.Store           // the backing ("persistent") store, GC works on it (a MemoryStore unless a synced start asks for another stack)
	dao  *storage.MemCachedStore // the node's cache layer over it
	mod  *stateroot.Module
	tr   *mpt.Trie // applier putdel: the current trie

	// height, persisted: ORDINALS of blocks (1 = first block of the history);
	// the height handed to the implementation for block i is H(i). gmax and
	// the values of lastDeact are real heights.
	height, persisted uint32
	hs                []uint32
	synced            bool  // block 0 is a state restored by state synchronisation at height h0
	syncSizes         []int // module path: number of hashes asked for before each delivery
	h0                uint32
	gmax              uint32
	gcRan             bool

	maps      []map[string][]byte // model state by height (0 = empty)
	canons    []*canon
	repRoots  []util.Uint256 // roots reported by the implementation, by height
	lastDeact map[h256]uint32
	st        *stats
	digest    uint64
}

// H: the real height of the i-th block of the history.
func (in *inst) H(i uint32) uint32 {
	if i == 0 {
		return in.h0
	}
	if in.hs == nil {
		return i
	}
	return in.hs[i-1]
}

func newInst(cfg runCfg, st *stats, hs []uint32) *inst {
	return newInstOn(cfg, st, hs, storage.NewMemoryStore())
}

func newInstOn(cfg runCfg, st *stats, hs []uint32, ps storage.Store) *inst {
	in := &inst{cfg: cfg, mode: cfg.trieMode(), st: st, lastDeact: map[h256]uint32{}, hs: hs}
	in.ps = ps
	in.dao = storage.NewMemCachedStore(in.ps)
	in.newModule()
	if err := in.mod.Init(0); err != nil {
		panic(err)
	}
	in.tr = mpt.NewTrie(nil, in.mode, in.dao)
	in.maps = []map[string][]byte{{}}
	in.canons = []*canon{canonOf(map[string][]byte{})}
	in.repRoots = []util.Uint256{{}}
	return in
}

func (in *inst) newModule() {
	var c config.Blockchain
	c.KeepOnlyLatestState = in.cfg.Mode == "latest"
	c.RemoveUntraceableBlocks = in.cfg.Mode == "gc"
	in.mod = stateroot.NewModule(c, nil, nopLog, in.dao)
}

// compute does what storeBlock does up to (not including) the commit: a
// private cache over the node's store, the block's storage changes turned into
// an MPT batch, AddMPTBatch (= PutBatch + Flush(height) + state root record).
func (in *inst) compute(b batch, h uint32) (*storage.MemCachedStore, *mpt.Trie, util.Uint256, error) {
	cache := storage.NewPrivateMemCachedStore(in.dao)
	if in.cfg.Applier == "batch" {
		m := make(map[string][]byte, len(b.kv))
		for k, v := range b.kv {
			m[string([]byte{byte(storage.STStorage)})+k] = v
		}
		tr, sr, err := in.mod.AddMPTBatch(h, mpt.MapToMPTBatch(m), cache)
		if err != nil {
			return nil, nil, util.Uint256{}, err
		}
		return cache, tr, sr.Root, nil
	}
	t2 := *in.tr // same kind of copy as AddMPTBatch makes
	t2.Store = cache
	ks := make([]string, 0, len(b.kv))
	for k := range b.kv {
		ks = append(ks, k)
	}
	sort.Strings(ks)
	for _, k := range ks {
		var err error
		if v := b.kv[k]; v == nil {
			err = t2.Delete([]byte(k))
		} else {
			err = t2.Put([]byte(k), v)
		}
		if err != nil {
			return nil, nil, util.Uint256{}, err
		}
	}
	t2.Flush(h)
	return cache, &t2, t2.StateRoot(), nil
}

func (in *inst) collapseDepth() int {
	if in.cfg.Collapse < 0 {
		return 10
	}
	return in.cfg.Collapse
}

// commit applies b as the next block.
func (in *inst) commit(b batch) (kind, detail string) {
	h := in.height + 1
	H := in.H(h)
	var before *storeSnap
	if aliasOracle {
		before = in.snap()
	}
	cache, tr, root, err := in.compute(b, H)
	if err != nil {
		return "apply-error", err.Error()
	}
	if before != nil {
		// The block's changes sit in the private cache: no record of the node's
		// store may have changed yet (ext_alias_test.go).
		if d := in.snap().diff(before, nil, false); d != "" {
			return "store-record-changed-by-computing-a-block", fmt.Sprintf("computing the block at height %d: %s", H, d)
		}
		in.st.ax.computeChecked++
	}
	// storeBlock: "Every persist cycle we also compact our in-memory MPT."
	if in.persisted == h-1 {
		tr.Collapse(in.collapseDepth())
	}
	in.dao.PersistPrivate(cache)
	tr.Store = in.dao
	if in.cfg.Applier == "batch" {
		in.mod.UpdateCurrentLocal(tr, &state.MPTRoot{Index: H, Root: root})
	} else {
		in.tr = tr
	}
	in.height = h
	in.st.blocks++
	if in.cfg.Applier == "batch" {
		if got := in.mod.CurrentLocalStateRoot(); got != root || in.mod.CurrentLocalHeight() != H {
			return "current-local-state-root-wrong", fmt.Sprintf("after block %d: module reports root %s at height %d, AddMPTBatch returned %s", H, got.StringBE(), in.mod.CurrentLocalHeight(), root.StringBE())
		}
	}

	// model
	prev := in.maps[h-1]
	m := make(map[string][]byte, len(prev)+len(b.kv))
	for k, v := range prev {
		m[k] = v
	}
	for k, v := range b.kv {
		if v == nil {
			delete(m, k)
		} else {
			m[k] = v
		}
	}
	c := canonOf(m)
	pc := in.canons[h-1]
	for x := range pc.mult {
		if _, ok := c.mult[x]; !ok {
			in.lastDeact[x] = H
		}
	}
	if in.mode.GC() {
		for x := range c.mult {
			if _, ok := pc.mult[x]; !ok {
				if _, was := in.lastDeact[x]; was {
					in.st.reactivated++
				}
			}
		}
	}
	in.maps = append(in.maps, m)
	in.canons = append(in.canons, c)
	in.repRoots = append(in.repRoots, root)
	if len(m) == 0 && len(prev) != 0 {
		in.st.emptied++
	}
	var want util.Uint256
	if !c.empty {
		want = util.Uint256(c.root)
	}
	if root != want {
		return "state-root-differs-from-reference", fmt.Sprintf("height %d: got %s, the trie of %s has root %s", H, root.StringBE(), mapString(m), want.StringBE())
	}
	return "", ""
}

// drop computes a block and throws the result away (block computed, never committed).
func (in *inst) drop(b batch) (kind, detail string) {
	_, _, _, err := in.compute(b, in.H(in.height+1))
	in.st.dropped++
	if err != nil {
		return "apply-error-in-dropped-block", err.Error()
	}
	return "", ""
}

func (in *inst) persist() (kind, detail string) {
	if _, err := in.dao.Persist(); err != nil {
		return "persist-error", err.Error()
	}
	in.persisted = in.height
	in.st.persists++
	if in.cfg.Collapse < 0 && !in.canons[in.height].empty {
		// node restart: everything in memory is rebuilt from the store.
		in.st.restarts++
		if in.cfg.Applier == "batch" {
			in.newModule()
			if err := in.mod.Init(in.H(in.height)); err != nil {
				return "init-error-after-restart", err.Error()
			}
			if got := in.mod.CurrentLocalStateRoot(); got != in.repRoots[in.height] || in.mod.CurrentLocalHeight() != in.H(in.height) {
				return "current-local-state-root-wrong", fmt.Sprintf("after restart at %d: module reports root %s at height %d", in.H(in.height), got.StringBE(), in.mod.CurrentLocalHeight())
			}
		} else {
			in.tr = mpt.NewTrie(mpt.NewHashNode(in.repRoots[in.height]), in.mode, in.dao)
		}
	}
	return "", ""
}

func (in *inst) countStore(s storage.Store) int {
	n := 0
	s.Seek(storage.SeekRange{Prefix: []byte{byte(storage.DataMPT)}}, func(k, v []byte) bool { n++; return true })
	return n
}

func (in *inst) gc(g uint32) (removed int) {
	before := in.countStore(in.ps)
	in.mod.GC(g, in.ps)
	after := in.countStore(in.ps)
	if after < before {
		in.st.gcRemoved += int64(before - after)
		in.st.oc("gc:removed-some")
	} else {
		in.st.gcNoop++
		in.st.oc("gc:removed-none")
	}
	if in.hs != nil {
		in.noteHeightGC(g, before-after)
	}
	if g > in.gmax {
		in.gmax = g
	}
	in.gcRan = true
	in.st.gcs++
	return before - after
}

// retained: is the state of height r one the mode promises to keep?
// ModeAll: every height. ModeLatest: the latest only. ModeGC: every height at
// or above the highest G collected so far ("GC up to height G never removes a
// node needed by the state of any height at or above G").
func (in *inst) retained(r uint32) bool {
	switch in.cfg.Mode {
	case "latest":
		return r == in.height
	case "gc":
		return in.H(r) >= in.gmax
	}
	return true
}

// check is the oracle, evaluated on the raw DataMPT pairs of the node's store.
func (in *inst) check() (kind, detail string) {
	st := in.st
	st.checks++
	h := in.height
	rc := in.mode.RC()
	db := map[h256]*stored{}
	fh := fnv.New64a()
	bad := ""
	in.dao.Seek(storage.SeekRange{Prefix: []byte{byte(storage.DataMPT)}}, func(k, v []byte) bool {
		if len(k) != 33 {
			bad = fmt.Sprintf("DataMPT key of length %d", len(k))
			return false
		}
		var x h256
		copy(x[:], k[1:])
		db[x] = decodeStored(x, bytes.Clone(v), rc)
		fh.Write(k)
		fh.Write(v)
		return true
	})
	if bad != "" {
		return "bad-key", bad
	}
	fmt.Fprintf(fh, "|%s|%d|%d", in.cfg, h, in.gmax)
	if in.hs != nil {
		fmt.Fprintf(fh, "|H%d", in.H(h))
	}
	in.digest = fh.Sum64()
	st.nodesDecoded += int64(len(db))
	hs := make([]h256, 0, len(db)) // fixed order: the first problem reported is always the same one
	for x := range db {
		hs = append(hs, x)
	}
	sort.Slice(hs, func(i, j int) bool { return bytes.Compare(hs[i][:], hs[j][:]) < 0 })
	for _, x := range hs {
		if s := db[x]; s.derr != nil {
			return "undecodable-node", fmt.Sprintf("node %s: %v (raw %x)", x.short(), s.derr, s.raw)
		}
	}

	// (1) the latest root walks completely, through active nodes only.
	latest := in.canons[h]
	Hh := in.H(h) // real height of the latest block (messages)
	cnt := map[h256]int{}
	leaves := map[string][]byte{}
	if !latest.empty {
		if e := walkRaw(db, latest.root, nil, in.mode.GC(), cnt, leaves, 0); e != nil {
			return e.kind, fmt.Sprintf("latest root (height %d): %v", Hh, e)
		}
		st.rootsWalked++
	}
	if d := diffLeaves(leaves, in.maps[h]); d != "" {
		return "latest-root-holds-wrong-data", d
	}
	for _, x := range hs {
		c := cnt[x]
		if c == 0 {
			continue
		}
		st.nodesWalked += int64(c)
		if c >= 2 {
			st.sharedNodes++
			if int64(c) > st.maxMult {
				st.maxMult = int64(c)
			}
		}
		if latest.mult[x] != c {
			return "harness-model-mismatch", fmt.Sprintf("node %s occurs %d times in the stored trie, %d in the canonical one", x.short(), c, latest.mult[x])
		}
	}

	// (2)+(3) every stored node against the walk.
	if rc {
		for _, x := range hs {
			s := db[x]
			c := cnt[x]
			switch {
			case s.active && c == 0:
				return "stray-active-node", fmt.Sprintf("node %s (type %d, count %d) is stored active but is not reachable from the latest root of height %d; last dereferenced at %d", x.short(), s.node.typ, s.num, Hh, in.lastDeact[x])
			case s.active:
				st.activeChecked++
				if int(s.num) != c {
					return "refcount-mismatch", fmt.Sprintf("node %s (type %d) stored count %d, occurs %d times in the trie of height %d", x.short(), s.node.typ, s.num, c, Hh)
				}
			case !in.mode.GC():
				return "inactive-node-without-gc", fmt.Sprintf("node %s has the inactive flag in mode %s", x.short(), in.cfg.Mode)
			default:
				st.inactiveChecked++
				if in.hs != nil {
					st.hx.noteInactive(s.num)
				}
				want, ok := in.lastDeact[x]
				if !ok {
					return "inactive-node-never-referenced", fmt.Sprintf("node %s", x.short())
				}
				if s.num != want {
					return "inactive-height-wrong", fmt.Sprintf("node %s is marked inactive since %d, it lost its last reference at %d", x.short(), s.num, want)
				}
				if in.gcRan && s.num <= in.gmax {
					return "garbage-left-after-gc", fmt.Sprintf("node %s inactive since %d is still stored after GC(%d); no state at or above %d needs it", x.short(), s.num, in.gmax, in.gmax)
				}
			}
		}
	}

	// (4)+(5) every root: raw walk if retained, API reads always.
	var beforeReads *storeSnap
	if aliasOracle {
		beforeReads = in.snap()
		defer func() {
			if kind == "" {
				if d := in.snap().diff(beforeReads, nil, false); d != "" {
					kind, detail = "store-record-changed-by-reads", fmt.Sprintf("reads at height %d: %s", Hh, d)
				}
				st.ax.readsChecked++
			}
		}()
	}
	for r := in.first(); r <= h; r++ {
		c := in.canons[r]
		Hr := in.H(r)
		ret := in.retained(r)
		var root util.Uint256
		if !c.empty {
			root = util.Uint256(c.root)
		}
		if in.cfg.Applier == "batch" {
			sr, err := in.mod.GetStateRoot(Hr)
			if err != nil {
				return "state-root-record-missing", fmt.Sprintf("height %d: %v", Hr, err)
			}
			if sr.Root != root {
				return "state-root-record-wrong", fmt.Sprintf("height %d: %s, want %s", Hr, sr.Root.StringBE(), root.StringBE())
			}
			if in.hs != nil {
				if kind, detail := in.checkHeightRecords(r, sr.Index, root); kind != "" {
					return kind, detail
				}
			}
		}
		if ret && r != h && !c.empty {
			cn := map[h256]int{}
			lv := map[string][]byte{}
			if e := walkRaw(db, c.root, nil, false, cn, lv, 0); e != nil {
				return "retained-root-" + e.kind, fmt.Sprintf("root of height %d (latest %d, collected up to %d): %v", Hr, Hh, in.gmax, e)
			}
			st.rootsWalked++
			if d := diffLeaves(lv, in.maps[r]); d != "" {
				return "retained-root-holds-wrong-data", fmt.Sprintf("height %d: %s", Hr, d)
			}
		}
		tag := "retained"
		if !ret {
			tag = "non-retained"
		}
		for _, kn := range keyOrder {
			k := keys[kn]
			st.gets++
			v, err := in.mod.GetState(root, []byte(k))
			want, has := in.maps[r][k]
			if err == nil {
				if !has || !bytes.Equal(v, want) {
					return "get-returns-wrong-data-" + tag, fmt.Sprintf("GetState(root of height %d, key %s) = %x, that state had %x (present=%v); latest %d, collected up to %d", Hr, kn, v, want, has, Hh, in.gmax)
				}
				if !ret {
					st.oldOK++
				}
			} else {
				if ret && has {
					return "get-fails-on-retained-root", fmt.Sprintf("GetState(root of height %d, key %s): %v; latest %d, collected up to %d", Hr, kn, err, Hh, in.gmax)
				}
				if !ret && has {
					st.oldErr++
				}
			}
		}
		for _, p := range findPrefixes {
			st.finds++
			res, err := in.mod.FindStates(root, p, nil, 100)
			var want []storage.KeyValue
			for _, k := range sortedKeys(in.maps[r]) {
				if strings.HasPrefix(k, string(p)) {
					want = append(want, storage.KeyValue{Key: []byte(k), Value: in.maps[r][k]})
				}
			}
			if err == nil {
				if !sameKVs(res, want) {
					return "find-returns-wrong-data-" + tag, fmt.Sprintf("FindStates(root of height %d, prefix %x) = %s, that state had %s", Hr, p, kvString(res), kvString(want))
				}
			} else if ret && len(want) > 0 {
				return "find-fails-on-retained-root", fmt.Sprintf("FindStates(root of height %d, prefix %x): %v", Hr, p, err)
			}
		}
		// SeekStates has no error result: under a root whose start node is gone
		// it yields nothing; what it yields must be the whole correct answer.
		for _, p := range seekPrefixes {
			st.seeks++
			var res, want []storage.KeyValue
			in.mod.SeekStates(root, p, func(k, v []byte) bool {
				res = append(res, storage.KeyValue{Key: append(append([]byte{}, p...), k...), Value: bytes.Clone(v)})
				return true
			})
			for _, k := range sortedKeys(in.maps[r]) {
				if strings.HasPrefix(k, string(p)) {
					want = append(want, storage.KeyValue{Key: []byte(k), Value: in.maps[r][k]})
				}
			}
			if !sameKVs(res, want) && (ret || len(res) != 0) {
				return "seek-returns-wrong-data-" + tag, fmt.Sprintf("SeekStates(root of height %d, prefix %x) = %s, that state had %s; latest %d, collected up to %d", Hr, p, kvString(res), kvString(want), Hh, in.gmax)
			}
		}
		// Proofs: under the root before the latest one, the oldest retained
		// root and the newest collected one.
		if r+1 == h || in.gcEdge(r) {
			for _, kn := range keyOrder {
				k := keys[kn]
				st.proofs++
				want, has := in.maps[r][k]
				proof, err := in.mod.GetStateProof(root, []byte(k))
				if err != nil {
					if ret && has {
						return "proof-fails-on-retained-root", fmt.Sprintf("GetStateProof(root of height %d, key %s): %v; latest %d, collected up to %d", Hr, kn, err, Hh, in.gmax)
					}
					continue
				}
				v, ok := mpt.VerifyProof(root, []byte(k), proof)
				if !ok || !has || !bytes.Equal(v, want) {
					return "proof-returns-wrong-data-" + tag, fmt.Sprintf("GetStateProof(root of height %d, key %s): %d nodes, verifies=%v value %x, that state had %x (present=%v)", Hr, kn, len(proof), ok, v, want, has)
				}
			}
		}
	}
	return "", ""
}

func sortedKeys(m map[string][]byte) []string {
	ks := make([]string, 0, len(m))
	for k := range m {
		ks = append(ks, k)
	}
	sort.Strings(ks)
	return ks
}

func sameKVs(a, b []storage.KeyValue) bool {
	if len(a) != len(b) {
		return false
	}
	for i := range a {
		if !bytes.Equal(a[i].Key, b[i].Key) || !bytes.Equal(a[i].Value, b[i].Value) {
			return false
		}
	}
	return true
}

func kvString(a []storage.KeyValue) string {
	var s []string
	for _, e := range a {
		s = append(s, fmt.Sprintf("%x=%x", e.Key, e.Value))
	}
	return "[" + strings.Join(s, " ") + "]"
}

func diffLeaves(leaves map[string][]byte, m map[string][]byte) string {
	got := map[string][]byte{}
	for p, v := range leaves {
		got[fromNibbles(p)] = v
	}
	if len(got) != len(m) {
		return fmt.Sprintf("walk finds %s, the state is %s", mapString(got), mapString(m))
	}
	for k, v := range m {
		if g, ok := got[k]; !ok || !bytes.Equal(g, v) {
			return fmt.Sprintf("walk finds %s, the state is %s", mapString(got), mapString(m))
		}
	}
	return ""
}

// ---- running one case ---------------------------------------------------------------

// runCase executes the case; the oracle runs after block i (1-based) iff
// i >= checkFrom and (i is the last block or checkAll or all later batches are
// batch 0 - so that, enumerating histories in order, every distinct prefix is
// judged exactly once). states receives the digests of the judged stores.
func runCase(c *caseRec, st *stats, checkFrom int, checkAll bool, states *u64set) (kind, detail string, at int) {
	at = 0
	defer func() {
		if p := recover(); p != nil {
			kind, detail = "panic", fmt.Sprint(p)
		}
	}()
	if c.Heights != nil && len(c.Heights) < len(c.Hist) {
		return "harness-bad-case", "fewer heights than blocks", 0
	}
	in, closeStore := newInstFor(c, st)
	defer closeStore()
	if c.Sync != nil {
		if kind, detail = in.syncStart(c.Sync); kind != "" {
			return
		}
	}
	n := len(c.Hist)
	judge := func(i int) bool {
		if i < checkFrom {
			return false
		}
		if checkAll || i == n {
			return true
		}
		for _, k := range c.Hist[i:] {
			if k != 0 {
				return false
			}
		}
		return true
	}
	for i := 1; i <= n; i++ {
		at = i
		for _, d := range c.Drop {
			if d.After == i-1 {
				if kind, detail = in.drop(alphabet[d.Batch]); kind != "" {
					return
				}
			}
		}
		if kind, detail = in.commit(alphabet[c.Hist[i-1]]); kind != "" {
			return
		}
		if in.cfg.Persist > 0 && i%in.cfg.Persist == 0 {
			if kind, detail = in.persist(); kind != "" {
				return
			}
		}
		for _, g := range c.GC {
			if g.After == i {
				if g.G > in.H(in.persisted) {
					panic("harness: GC above the persisted height")
				}
				if in.gc(g.G) == 0 && !checkAll {
					// Nothing was deleted: from here on the implementation is in
					// the same state as in the case without this event (explored
					// elsewhere, with stronger retention demands). Judge the store
					// once with the new bound and stop.
					st.prunedNoopGC++
					kind, detail = in.check()
					if kind == "" && states != nil {
						states.add(in.digest)
					}
					return
				}
			}
		}
		if judge(i) {
			if kind, detail = in.check(); kind != "" {
				return
			}
			if states != nil {
				states.add(in.digest)
			}
		}
	}
	return "", "", 0
}

// persistedAfter: the persisted height right after block i under schedule p.
func persistedAfter(i, p int) int {
	if p <= 0 {
		return 0
	}
	return i - i%p
}

// gcPlans: pairs=false: every single event (point, G) with G <= persisted
// height; pairs=true: every two such events at different points with increasing G.
func gcPlans(n, persist int, pairs bool) [][]gcEv {
	var single []gcEv
	for i := 1; i <= n; i++ {
		for g := 1; g <= persistedAfter(i, persist); g++ {
			single = append(single, gcEv{i, uint32(g)})
		}
	}
	var out [][]gcEv
	if !pairs {
		for _, e := range single {
			out = append(out, []gcEv{e})
		}
		return out
	}
	for _, a := range single {
		for _, b := range single {
			if b.After > a.After && b.G > a.G {
				out = append(out, []gcEv{a, b})
			}
		}
	}
	return out
}

func names(h []int) []string {
	var s []string
	for _, k := range h {
		s = append(s, alphabet[k].Name)
	}
	return s
}

// ---- the check --------------------------------------------------------------------------

func TestCheck(t *testing.T) {
	vk.UseT(t)
	debug.SetGCPercent(400) // many tiny short-lived stores; the live heap is small
	bq, bt := 110*time.Second, 16*time.Minute
	if os.Getenv("C11_FAMILY") == "dropped" {
		bq, bt = 40*time.Second, 4*time.Minute
	}
	r := vk.Start("C11", "model_checking", bq, bt)
	if r.Replay != "" {
		replay(r)
		return
	}
	// C11_FAMILY=dropped selects the histories with a block that is computed
	// (AddMPTBatch) and never committed; it is a separate part of the check.
	family := os.Getenv("C11_FAMILY")
	dropped := family == "dropped"
	survey := os.Getenv("C11_SURVEY") != "" // development aid: count violation kinds instead of stopping
	// Phases {K batches, B blocks, GC events single/pairs}; every phase runs
	// under all configurations (pairs: under cfgs2).
	type phase struct {
		K, B  int
		Pairs bool
	}
	phases := vk.Pick(r,
		[]phase{{8, 4, false}, {5, 4, true}, {4, 5, false}},
		[]phase{{8, 4, false}, {7, 5, false}, {5, 5, true}, {4, 6, false}})
	if dropped {
		phases = vk.Pick(r, []phase{{8, 3, false}}, []phase{{7, 4, false}})
	}
	K := phases[0].K
	persists := vk.Pick(r, []int{1, 2}, []int{1, 2, 3})
	collapses := []int{10, 1, -1}
	var cfgs, cfgs2 []runCfg
	cfgs = append(cfgs, runCfg{"all", 1, 10, "batch"})
	for _, m := range []string{"latest", "gc"} {
		for _, p := range persists {
			for _, c := range collapses {
				cfgs = append(cfgs, runCfg{m, p, c, "batch"})
			}
		}
		cfgs = append(cfgs, runCfg{m, 1, 10, "putdel"}, runCfg{m, 2, 1, "putdel"}, runCfg{m, 2, -1, "putdel"})
	}
	cfgs2 = []runCfg{{"gc", 1, 10, "batch"}, {"gc", 1, 1, "batch"}, {"gc", 1, -1, "batch"}, {"gc", 2, 1, "batch"}, {"gc", 1, 10, "putdel"}}

	if pf := os.Getenv("C11_CPUPROFILE"); pf != "" { // development aid
		if f, err := os.Create(pf); err == nil {
			_ = pprof.StartCPUProfile(f)
		}
	}
	states := newU64set()
	var total stats
	var mu sync.Mutex
	var cases, gcCases, histories, droppedClean int64

	// a job = one configuration and the first two batches of the history.
	// Phase 1: the plain history and every single GC event. Phase 2 (smaller
	// alphabet, fewer configurations): every pair of GC events.
	type job struct {
		cfg    runCfg
		k0, k1 int
		K, B   int
		pairs  bool
		// height-sequence families (ext_heights_test.go)
		hs   *hseq
		pm   planMode
		fam  string
		sync *syncRec
	}
	var jobs []job
	for _, ph := range phases {
		cc := cfgs
		if ph.Pairs {
			cc = cfgs2
		}
		for _, c := range cc {
			for k0 := 0; k0 < ph.K; k0++ {
				for k1 := 0; k1 < ph.K; k1++ {
					jobs = append(jobs, job{cfg: c, k0: k0, k1: k1, K: ph.K, B: ph.B, pairs: ph.Pairs})
				}
			}
		}
	}
	surveyKinds := map[string]int{}
	surveyFirst := map[string]*caseRec{}
	report := func(c *caseRec, kind, detail string, at int) {
		c.Kind, c.Detail, c.AtBlock = kind, detail, at
		c.Names = names(c.Hist)
		if survey {
			mu.Lock()
			surveyKinds[kind]++
			if o := surveyFirst[kind]; o == nil || len(c.key()) < len(o.key()) {
				surveyFirst[kind] = c
			}
			mu.Unlock()
			return
		}
		if dropped {
			// One key per mode and symptom class; the history is in the detail.
			k := "dropped-block:" + c.Cfg.Mode + ":" + kind
			mu.Lock()
			surveyKinds[k]++
			mu.Unlock()
			r.Violation(k, c)
			return
		}
		r.Violation(kind+":"+c.key(), c)
	}
	var hphases []hphase
	var orderCases int
	if !dropped && os.Getenv("C11_HEIGHTS") != "off" {
		hphases = heightPhases(r, cfgs2)
		// Synchronised starts: first the restored stores alone (every state x
		// delivery order x mode), then the histories on top of them.
		var st stats
		var same bool
		orderCases, same = restoreOrders(r.Thorough(), &st, report)
		total.merge(&st)
		cases += int64(orderCases)
		sp := syncPhases(r.Thorough(), same)
		// Round 3: restore through statesync.Module (ext_alias_test.go); stores
		// that differ from the plain restore get the histories as well.
		rsCases, differing := restoreShared(r, &total, report)
		cases += rsCases
		sort.Slice(differing, func(i, j int) bool { return differing[i].String() < differing[j].String() })
		for _, d := range differing {
			if len(sp[0].Syncs) < 64 {
				sp[0].Syncs = append(sp[0].Syncs, d)
			}
		}
		hphases = append(hphases, sp...)
	}
	if os.Getenv("C11_HEIGHTS") == "only" { // development aid
		jobs = nil
	}
	for _, hp := range hphases {
		for si := range hp.Seqs {
			syncs := []*syncRec{nil}
			if len(hp.Syncs) > 0 {
				syncs = nil
				for i := range hp.Syncs {
					if hp.Syncs[i].At+1 == hp.Seqs[si].H[0] {
						syncs = append(syncs, &hp.Syncs[i])
					}
				}
			}
			for _, sy := range syncs {
				for _, c := range hp.Cfgs {
					if sy != nil && sy.Via == "module" && c.Mode == "all" {
						continue
					}
					for k0 := 0; k0 < hp.K; k0++ {
						for k1 := 0; k1 < hp.K; k1++ {
							jobs = append(jobs, job{cfg: c, k0: k0, k1: k1, K: hp.K, B: hp.B, pairs: hp.Plan != planSingle, hs: &hp.Seqs[si], pm: hp.Plan, fam: hp.Fam, sync: sy})
						}
					}
				}
			}
		}
	}
	// Simplest first, all configurations side by side: if the deadline stops the
	// run, what is missing are the histories starting with the later batches.
	sort.SliceStable(jobs, func(a, b int) bool {
		return max(jobs[a].k0, jobs[a].k1) < max(jobs[b].k0, jobs[b].k1)
	})
	r.Parallel(len(jobs), func(ji int) {
		j := jobs[ji]
		var st stats
		var nc, ng, nh, ndc int64
		B := j.B
		hist := make([]int, B)
		hist[0], hist[1] = j.k0, j.k1
		plans := [][]gcEv(nil)
		var heights []uint32
		if j.hs != nil {
			heights = j.hs.H[:B]
		}
		var h0 uint32
		if j.sync != nil {
			h0 = j.sync.At
		}
		if j.cfg.Mode == "gc" && !dropped {
			if j.hs != nil {
				plans = gcPlansH(heights, B, j.cfg.Persist, j.pm, r.Thorough(), h0)
			} else {
				plans = gcPlans(B, j.cfg.Persist, j.pairs)
			}
		}
		var rec func(pos int)
		rec = func(pos int) {
			if r.Expired() || r.TooMany() {
				return
			}
			if pos < B {
				for k := 0; k < j.K; k++ {
					hist[pos] = k
					rec(pos + 1)
				}
				return
			}
			nh++
			if dropped {
				for pos := 0; pos < B; pos++ {
					for k := 0; k < K; k++ {
						c := &caseRec{Cfg: j.cfg, Hist: append([]int{}, hist...), Drop: []dropEv{{pos, k}}}
						nc++
						if kind, detail, at := runCase(c, &st, pos+1, false, states); kind != "" {
							report(c, kind, detail, at)
						} else {
							ndc++
						}
					}
				}
				return
			}
			if !j.pairs {
				c := &caseRec{Cfg: j.cfg, Hist: append([]int{}, hist...), Heights: heights, Sync: j.sync}
				nc++
				if j.hs != nil {
					st.hx.countCase(j.fam, j.hs.Name, false)
				}
				if nc%64 == 1 {
					c.Names = names(c.Hist)
					r.Sample(*c)
				}
				if kind, detail, at := runCase(c, &st, 1, false, states); kind != "" {
					report(c, kind, detail, at)
					return
				}
			}
			for _, p := range plans {
				c := &caseRec{Cfg: j.cfg, Hist: append([]int{}, hist...), GC: p, Heights: heights, Sync: j.sync}
				nc++
				ng++
				if j.hs != nil {
					st.hx.countCase(j.fam, j.hs.Name, true)
				}
				if nc%64 == 1 {
					c.Names = names(c.Hist)
					r.Sample(*c)
				}
				if kind, detail, at := runCase(c, &st, p[0].After, false, states); kind != "" {
					report(c, kind, detail, at)
					return
				}
			}
		}
		rec(2)
		mu.Lock()
		total.merge(&st)
		cases += nc
		gcCases += ng
		histories += nh
		droppedClean += ndc
		mu.Unlock()
	})
	pprof.StopCPUProfile()
	for k := range total.outcomes {
		r.Outcome(k)
	}
	if survey {
		for k, n := range surveyKinds {
			b, _ := json.Marshal(surveyFirst[k])
			fmt.Printf("SURVEY %7d x %s; shortest: %s\n", n, k, b)
		}
	}
	var cs []string
	for _, c := range cfgs {
		cs = append(cs, c.String())
	}
	var al []string
	for _, b := range alphabet[:K] {
		al = append(al, b.Name)
	}
	maxB := 0
	for _, ph := range phases {
		maxB = max(maxB, ph.B)
	}
	transitions := total.blocks + total.dropped + total.persists + total.gcs
	cov := map[string]any{
		"states":                                states.len(),
		"transitions":                           int(transitions),
		"traces_validated_against_impl":         int(cases),
		"rule":                                  "every history of B batches over the first K batches of the alphabet (phases: K, B, single GC events or pairs), in every configuration (mode/persist period/collapse depth or restart/applier), plus for mode gc every GC(G) event (G <= persisted height) at every point; the same at the heights of every height sequence (height_families) and on top of every state restored through mpt.Billet (synced-start); a state = digest of the raw DataMPT content + configuration + height + collected-up-to",
		"phases_K_B_gcpairs":                    fmt.Sprint(phases),
		"alphabet_batches_K":                    K,
		"blocks_per_history_B_max":              maxB,
		"alphabet":                              al,
		"configurations":                        cs,
		"two_gc_events_phase_configs":           len(cfgs2),
		"histories_run":                         int(histories),
		"cases_run":                             int(cases),
		"cases_with_gc":                         int(gcCases),
		"family":                                map[bool]string{false: "committed blocks only", true: "one block computed and never committed per history"}[dropped],
		"blocks_computed_and_dropped":           int(total.dropped),
		"dropped_cases_failing":                 surveyKinds,
		"dropped_cases_clean":                   int(droppedClean),
		"blocks_applied":                        int(total.blocks),
		"persists":                              int(total.persists),
		"restarts":                              int(total.restarts),
		"gc_runs":                               int(total.gcs),
		"gc_runs_removing_nothing":              int(total.gcNoop),
		"cases_cut_after_a_gc_removing_nothing": int(total.prunedNoopGC),
		"gc_nodes_removed":                      int(total.gcRemoved),
		"oracle_evaluations":                    int(total.checks),
		"raw_nodes_decoded":                     int(total.nodesDecoded),
		"nodes_visited_by_walks":                int(total.nodesWalked),
		"roots_walked":                          int(total.rootsWalked),
		"active_nodes_count_checked":            int(total.activeChecked),
		"inactive_nodes_height_checked":         int(total.inactiveChecked),
		"shared_node_sightings":                 int(total.sharedNodes),
		"max_node_multiplicity":                 int(total.maxMult),
		"nodes_recreated_while_inactive":        int(total.reactivated),
		"blocks_emptying_the_trie":              int(total.emptied),
		"get_calls":                             int(total.gets),
		"seek_calls":                            int(total.seeks),
		"proof_calls":                           int(total.proofs),
		"find_calls":                            int(total.finds),
		"old_root_get_correct":                  int(total.oldOK),
		"old_root_get_error":                    int(total.oldErr),
	}
	heightCoverage(cov, hphases, &total.hx)
	syncCoverage(cov, hphases, &total.sx, orderCases)
	aliasCoverage(cov, &total.ax)
	r.Finish(cov, []string{
		"retained roots: ModeLatest the latest only; ModeGC every height >= the highest G collected so far; ModeAll all",
		"GC(G) is only issued with G <= persisted height (Blockchain.tryRunGC uses persisted height - MaxTraceableBlocks) and acts on the backing store while later blocks may still sit in the cache layer",
		"a GC run that deletes nothing has no other effect (Module.GC only reads and deletes), so such a case is judged once right after the GC and not continued: its continuation is the case without that event",
		"a node restart is not performed while the state is empty (a real chain never has an empty state after genesis; Init would give an unusable zero HashNode root)",
		"Find is exercised with nil start only (its from/maxNum semantics belong to C10)",
		"the search runs on the implementation itself: every transition is a call into pkg/core/mpt / pkg/core/stateroot / pkg/core/storage",
		"height-sequence families: block i of a history is applied at height H(i) of an increasing sequence (AddMPTBatch/Flush/UpdateCurrentLocal/Init get H(i)); a state is retained after GC(G) iff its own height H(r) >= G (in a gap of a sparse sequence nothing more is demanded); GC targets stay <= H(persisted block)",
		"a second GC with a target not above an earlier one is judged by the same oracle under the highest target so far",
	})
}

func replay(r *vk.Run) {
	var c caseRec
	if err := r.ReadReplay(&c); err != nil {
		fmt.Println("cannot read replay:", err)
		r.Finish(map[string]any{"states": 1, "transitions": 1, "traces_validated_against_impl": 0}, nil)
	}
	if c.Cfg.Mode == "" {
		fmt.Println("replay file is not a case of this part")
		r.Finish(map[string]any{"states": 1, "transitions": 1, "traces_validated_against_impl": 1}, nil)
	}
	outs := map[string]int{}
	var st stats
	for i := 0; i < 5; i++ {
		cc := c
		kind, detail, at := runCase(&cc, &st, 1, true, nil)
		if kind == "" {
			outs["clean"]++
			continue
		}
		outs[fmt.Sprintf("%s at block %d: %s", kind, at, detail)]++
		if i == 0 {
			cc.Kind, cc.Detail, cc.AtBlock = kind, detail, at
			if len(cc.Drop) > 0 {
				r.Violation("dropped-block:"+cc.Cfg.Mode+":"+kind, &cc)
			} else {
				r.Violation(kind+":"+cc.key(), &cc)
			}
		}
	}
	b, _ := json.Marshal(names(c.Hist))
	fmt.Printf("replayed %s %s gc=%v dropped=%v 5x:\n", c.Cfg, b, c.GC, c.Drop)
	for k, n := range outs {
		fmt.Printf("  %dx %s\n", n, k)
	}
	r.Finish(map[string]any{"states": 1, "transitions": int(st.blocks + st.gcs + st.persists + st.dropped), "traces_validated_against_impl": 5}, nil)
}
