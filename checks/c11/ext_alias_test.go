// C11 extension (round 3): restore through the REAL statesync.Module, nodes
// that are re-read from the store while the state is being restored, and an
// aliasing oracle.
//
// Blind spot closed: the synced-start family of round 2 hands the Billet fresh
// "network" bytes only. The node itself does more: statesync.Module.restoreNode
// looks every child of a restored node up in the store ("child is already in
// the storage") and restores it again from the bytes Billet.GetFromStore
// cached - a sub-slice of the STORE'S OWN record with five bytes of spare
// capacity; after a restart (new Module, new Billet over the same store)
// everything is re-read that way. A node (a leaf, or a whole inner subtree)
// that sits under two DIFFERENT parents takes this path whenever it is stored
// before its second parent arrives.
//
// Family restore-shared: state S0 (restoreInits: shared leaves with 2..4
// occurrences under one and under different parents, a shared inner subtree
// under different parents) x mode {gc, latest} x EVERY order in which the
// module can be fed (at each step any of the hashes it currently asks for;
// enumerated completely) x a restart of the module after each delivery
// (graceful = persisted first, or crash = the unpersisted layer is lost) x
// store stack {"" = MemCachedStore over MemoryStore, nothing persisted while
// restoring; mem-p = persisted into the MemoryStore after every delivery;
// bolt, level = persisted into BoltDB / LevelDB after every delivery} x (stacks
// "" and bolt, without the periodic persist) one delivery made while the flush
// of everything delivered before is in flight (MemCachedStore.Persist has
// detached the changeset and is handing it to the backend - hook store),
// optionally with a crash right after that flush.
// Oracle: the unchanged one (every counter == number of occurrences in the
// restored trie, latest root walks, reads) on the restored store. Restored
// stores whose bytes differ from the round-2 restore of the same state get the
// block histories on top (none on the unchanged tree - counted).
//
// Aliasing oracle (all families): around every Billet / statesync call, every
// computed block (Module.AddMPTBatch / Trie.Put+Flush into the private cache)
// and the reads of every oracle evaluation, the DataMPT records of the node's
// cache layer (merged view) and of the backing store are copied before and
// compared after: a call may change only what it legitimately writes (restore:
// the records of the restored hashes in the cache layer; computing a block and
// reading: nothing), and the backing store changes only by a Persist.
// Development: C11_ALIAS=off, C11_RESTORE=off|only.
package c11

import (
	"bytes"
	"fmt"
	"os"
	"sort"
	"strconv"
	"strings"
	"sync"

	"github.com/nspcc-dev/neo-go/pkg/config"
	"github.com/nspcc-dev/neo-go/pkg/core/block"
	"github.com/nspcc-dev/neo-go/pkg/core/dao"
	"github.com/nspcc-dev/neo-go/pkg/core/mpt"
	"github.com/nspcc-dev/neo-go/pkg/core/state"
	"github.com/nspcc-dev/neo-go/pkg/core/statesync"
	"github.com/nspcc-dev/neo-go/pkg/core/storage"
	"github.com/nspcc-dev/neo-go/pkg/core/storage/dbconfig"
	"github.com/nspcc-dev/neo-go/pkg/core/transaction"
	"github.com/nspcc-dev/neo-go/pkg/crypto/hash"
	"github.com/nspcc-dev/neo-go/pkg/util"

	"verif/lib/vk"
)

var aliasOracle = os.Getenv("C11_ALIAS") != "off"

func init() {
	// Two-byte keys for a state with an inner subtree under two different parents:
	// root = branch{3: A, 4: A'}; A = branch{1: E, 2: ext(1,1)->leaf},
	// A' = branch{1: E, 2: ext(1,2)->leaf}; E = ext(1)->branch{1: leaf, 2: leaf}.
	// Not in keyOrder: the API reads of the oracle stay on a..e, the raw walk
	// and the counters cover everything.
	keys["f"], keys["g"], keys["h"] = "\x31\x11", "\x31\x12", "\x32\x11"
	keys["i"], keys["j"], keys["k"] = "\x41\x11", "\x41\x12", "\x42\x12"
}

// States of the restore-shared family, simplest first.
var restoreInits = []string{
	"a1 b1 c2",             // leaf x twice under ONE parent
	"a2 b1 c1 d1",          // leaf x under two parents (1 + 2 occurrences)
	"a1 b2 c1 d1",          // the same, other child position
	"a1 b1 c1 d1",          // branch {x,x} twice under one parent, leaf 4 times
	"a2 b2 c1 d2",          // leaf yy 3 times, x once
	"a1 b1 c1 d1 e1",       // value child; leaf 5 times
	"a2 e1 c1",             // value child + extension
	"f1 g1 h1 i1 j1 k1",    // inner subtree E under two different parents
	"f1 g1 h2 i1 j1 k1",    // the same, the parents differ in a leaf too
	"a1 b1 f1 g1 h1 i1 k1", // mixed depths
}

// ---- snapshots ---------------------------------------------------------------------

type storeSnap struct {
	dao, ps []storage.KeyValue
}

func snapOf(s storage.Store) []storage.KeyValue {
	var out []storage.KeyValue
	s.Seek(storage.SeekRange{Prefix: []byte{byte(storage.DataMPT)}}, func(k, v []byte) bool {
		out = append(out, storage.KeyValue{Key: bytes.Clone(k), Value: bytes.Clone(v)})
		return true
	})
	return out
}

func (in *inst) snap() *storeSnap {
	return &storeSnap{dao: snapOf(in.dao), ps: snapOf(in.ps)}
}

func diffKVs(layer string, after, before []storage.KeyValue, allowed map[string]bool) string {
	i, j := 0, 0
	for i < len(after) || j < len(before) {
		var c int
		switch {
		case i == len(after):
			c = 1
		case j == len(before):
			c = -1
		default:
			c = bytes.Compare(after[i].Key, before[j].Key)
		}
		switch {
		case c < 0:
			if !allowed[string(after[i].Key)] {
				return fmt.Sprintf("%s: record %x appeared (%x)", layer, after[i].Key[1:5], after[i].Value)
			}
			i++
		case c > 0:
			return fmt.Sprintf("%s: record %x disappeared", layer, before[j].Key[1:5])
		default:
			if !bytes.Equal(after[i].Value, before[j].Value) && !allowed[string(after[i].Key)] {
				return fmt.Sprintf("%s: record %x changed from %x to %x", layer, after[i].Key[1:5], before[j].Value, after[i].Value)
			}
			i++
			j++
		}
	}
	return ""
}

// diff: s is the state after the call, before the state before it. allowed =
// DataMPT keys the call may create or rewrite in the cache layer. mayPersist:
// the call is allowed to end with a Persist (then the backing store must equal
// the merged view).
func (s *storeSnap) diff(before *storeSnap, allowed map[string]bool, mayPersist bool) string {
	if d := diffKVs("cache layer", s.dao, before.dao, allowed); d != "" {
		return d
	}
	d := diffKVs("backing store (nothing was persisted)", s.ps, before.ps, nil)
	if d != "" && mayPersist && diffKVs("", s.ps, s.dao, nil) == "" {
		return ""
	}
	return d
}

type astats struct {
	computeChecked, readsChecked, restoreChecked      int64
	cases, orders, restarts, crashes, flushDeliveries int64
	cachedRestores                                    int64 // deliveries after which a stored node was restored again from the store
	byStack                                           map[string]int64
	digestsDiffer                                     int64
}

func (a *astats) merge(o *astats) {
	a.computeChecked += o.computeChecked
	a.readsChecked += o.readsChecked
	a.restoreChecked += o.restoreChecked
	a.cases += o.cases
	a.orders += o.orders
	a.restarts += o.restarts
	a.crashes += o.crashes
	a.flushDeliveries += o.flushDeliveries
	a.cachedRestores += o.cachedRestores
	a.digestsDiffer += o.digestsDiffer
	addMap(&a.byStack, o.byStack)
}

func aliasCoverage(cov map[string]any, a *astats) {
	cov["alias_oracle"] = aliasOracle
	cov["alias_computed_blocks_checked"] = int(a.computeChecked)
	cov["alias_read_rounds_checked"] = int(a.readsChecked)
	cov["alias_restore_calls_checked"] = int(a.restoreChecked)
	cov["restore_shared_states"] = restoreInits
	cov["restore_shared_cases"] = int(a.cases)
	cov["restore_shared_delivery_orders"] = int(a.orders)
	cov["restore_shared_restarts"] = int(a.restarts)
	cov["restore_shared_crashes"] = int(a.crashes)
	cov["restore_shared_deliveries_during_flush"] = int(a.flushDeliveries)
	cov["restore_shared_deliveries_restoring_stored_nodes_again"] = int(a.cachedRestores)
	cov["restore_shared_cases_by_stack"] = a.byStack
	for k, v := range a.byStack {
		cov["restore_shared_cases_"+strings.NewReplacer("=", "_", "-", "_").Replace(strings.TrimSuffix(k, "="))] = int(v)
	}
	cov["restore_shared_stores_differing_from_plain_restore"] = int(a.digestsDiffer)
}

// ---- store stacks --------------------------------------------------------------------

// hookStore runs fn (once) inside PutChangeSet, before the batch is handed to
// the real store: "something happens while a flush is in flight".
type hookStore struct {
	storage.Store
	fn func()
}

func (h *hookStore) PutChangeSet(puts, stores map[string][]byte) error {
	if f := h.fn; f != nil {
		h.fn = nil
		f()
	}
	return h.Store.PutChangeSet(puts, stores)
}

func newInstFor(c *caseRec, st *stats) (*inst, func()) {
	if c.Sync == nil || (c.Sync.Stack != "bolt" && c.Sync.Stack != "level" && c.Sync.Flush == 0) {
		return newInst(c.Cfg, st, c.Heights), func() {}
	}
	var ps storage.Store
	cleanup := func() {}
	switch c.Sync.Stack {
	case "bolt", "level":
		dir, clean := vk.Scratch("c11-")
		var cfg dbconfig.DBConfiguration
		if c.Sync.Stack == "bolt" {
			cfg.Type = dbconfig.BoltDB
			cfg.BoltDBOptions.FilePath = dir + "/db.bolt"
		} else {
			cfg.Type = dbconfig.LevelDB
			cfg.LevelDBOptions.DataDirectoryPath = dir + "/level"
		}
		s, err := storage.NewStore(cfg)
		if err != nil {
			clean()
			panic(err)
		}
		ps = s
		cleanup = func() { _ = s.Close(); clean() }
	default:
		ps = storage.NewMemoryStore()
	}
	if c.Sync.Flush != 0 {
		ps = &hookStore{Store: ps}
	}
	return newInstOn(c.Cfg, st, c.Heights, ps), cleanup
}

// ---- the ledger the state synchronisation module sees ---------------------------------

type stubLedger struct {
	cfg  config.Blockchain
	root util.Uint256
	p    uint32
}

func (l *stubLedger) AddHeaders(...*block.Header) error               { return nil }
func (l *stubLedger) BlockHeight() uint32                             { return 0 }
func (l *stubLedger) IsHardforkEnabled(*config.Hardfork, uint32) bool { return false }
func (l *stubLedger) GetConfig() config.Blockchain                    { return l.cfg }
func (l *stubLedger) GetHeaderHash(i uint32) util.Uint256 {
	return util.Uint256{byte(i), byte(i >> 8), byte(i >> 16), byte(i >> 24), 1}
}
func (l *stubLedger) HeaderHeight() uint32  { return l.p + 1 }
func (l *stubLedger) NativePolicyID() int32 { return -7 }
func (l *stubLedger) GetHeader(util.Uint256) (*block.Header, error) {
	return &block.Header{Index: l.p + 1, PrevStateRoot: l.root}, nil
}
func (l *stubLedger) VerifyWitness(util.Uint160, hash.Hashable, *transaction.Witness, int64) (int64, error) {
	return 0, nil
}

// attach makes the instance work on a fresh cache layer over its backing store
// (node start): stateroot module and trie are rebuilt on it.
func (in *inst) attach() *dao.Simple {
	d := dao.NewSimple(in.ps, false)
	in.dao = d.Store
	in.newModule()
	if err := in.mod.Init(0); err != nil {
		panic(err)
	}
	in.tr = mpt.NewTrie(nil, in.mode, in.dao)
	return d
}

func parsePicks(order string) ([]int, error) {
	if order == "pick:" || order == "pick" {
		return nil, nil
	}
	if !strings.HasPrefix(order, "pick:") {
		return nil, fmt.Errorf("order %q: the module path needs pick:<i.j.k>", order)
	}
	var out []int
	for _, f := range strings.Split(order[5:], ".") {
		n, err := strconv.Atoi(f)
		if err != nil {
			return nil, err
		}
		out = append(out, n)
	}
	return out, nil
}

// restoreViaModule feeds the state to a real statesync.Module. sizes[i] = the
// number of hashes the module asked for before the i-th delivery.
func (in *inst) restoreViaModule(rec *syncRec, c *canon, root util.Uint256) (kind, detail string, sizes []int) {
	picks, err := parsePicks(rec.Order)
	if err != nil {
		return "harness-bad-case", err.Error(), nil
	}
	if !in.mode.RC() || rec.At%2 != 0 || rec.At < 4 {
		return "harness-bad-case", "the module path needs a counting mode and an even height", nil
	}
	var lc config.Blockchain
	lc.P2PStateExchangeExtensions = true
	lc.RemoveUntraceableBlocks = true // statesync is off without it; the Billet's mode is ModeLatest either way
	lc.KeepOnlyLatestState = in.cfg.Mode == "latest"
	lc.StateSyncInterval = int(rec.At / 2)
	lc.MaxTraceableBlocks = rec.At // nothing below the sync point counts as saved
	led := &stubLedger{cfg: lc, root: root, p: rec.At}
	var sm *statesync.Module
	start := func() (string, string) {
		d := in.attach()
		sm = statesync.NewModule(led, in.mod, nopLog, d, func(uint32) error { return nil })
		if err := sm.Init(rec.At); err != nil {
			return "statesync-init-error", err.Error()
		}
		if sm.GetStateSyncPoint() != rec.At || !sm.IsActive() {
			return "harness-bad-case", fmt.Sprintf("module works on point %d, active=%v", sm.GetStateSyncPoint(), sm.IsActive())
		}
		return "", ""
	}
	if kind, detail = start(); kind != "" {
		return
	}
	hook, _ := in.ps.(*hookStore)
	persistEvery := rec.Stack != "" && rec.Flush == 0
	for step := 0; ; step++ {
		if step > 4*len(c.mult)+8 {
			return "statesync-never-completes", fmt.Sprintf("%d deliveries for %d distinct nodes", step, len(c.mult)), sizes
		}
		unknown := sm.GetUnknownMPTNodesBatch(1 << 16)
		if len(unknown) == 0 {
			break
		}
		sort.Slice(unknown, func(i, j int) bool { return bytes.Compare(unknown[i][:], unknown[j][:]) < 0 })
		sizes = append(sizes, len(unknown))
		pick := 0
		if step < len(picks) {
			pick = picks[step]
		}
		pick %= len(unknown) // after a restart the module may ask for another set
		h := h256(unknown[pick])
		body, ok := c.body[h]
		if !ok {
			return "statesync-asks-for-a-foreign-node", fmt.Sprintf("delivery %d: %s is not a node of the state", step+1, h.short()), sizes
		}
		var derr error
		deliver := func() { derr = sm.AddMPTNodes([][]byte{bytes.Clone(body)}) }
		inFlush := false
		if rec.Flush == step+1 && hook != nil && len(unknown) >= 2 {
			// The delivery is made while the cache layer is being flushed (the
			// changeset is already detached, not yet written). With >= 2 pending
			// hashes the pool cannot run empty, so the module does not persist itself.
			hook.fn = deliver
			if _, err := in.dao.Persist(); err != nil {
				return "persist-error", err.Error(), sizes
			}
			if hook.fn == nil {
				inFlush = true
				in.st.ax.flushDeliveries++
			}
			hook.fn = nil
		}
		if !inFlush {
			var before *storeSnap
			if aliasOracle {
				before = in.snap()
			}
			deliver()
			if before != nil && derr == nil {
				after := in.snap()
				// Legitimate: new records, and counters of records going up (same body).
				if d := restoreDiff(after, before, len(sm.GetUnknownMPTNodesBatch(1)) == 0); d != "" {
					return "store-record-changed-by-restore", fmt.Sprintf("delivery %d (node %s): %s", step+1, h.short(), d), sizes
				}
				in.st.ax.restoreChecked++
				if othersWritten(after.dao, before.dao, h) {
					in.st.ax.cachedRestores++
				}
			}
		}
		if derr != nil {
			return "statesync-add-nodes-error", fmt.Sprintf("delivery %d (node %s): %v", step+1, h.short(), derr), sizes
		}
		in.st.sx.delivered++
		if persistEvery && !inFlush {
			if _, err := in.dao.PersistSync(); err != nil {
				return "persist-error", err.Error(), sizes
			}
			in.st.persists++
		}
		if rec.Restart == step+1 {
			if !rec.Crash {
				if _, err := in.dao.PersistSync(); err != nil {
					return "persist-error", err.Error(), sizes
				}
				in.st.persists++
			} else {
				in.st.ax.crashes++
			}
			in.st.ax.restarts++
			if kind, detail = start(); kind != "" {
				return kind, detail, sizes
			}
		}
	}
	return "", "", sizes
}

// restoreDiff: what a restore call may do to the DataMPT records. Cache layer:
// records appear; a record that changes keeps its body and its counter grows.
// Backing store: untouched unless the call persisted (then it equals the
// cache layer's view).
func restoreDiff(after, before *storeSnap, mayPersist bool) string {
	i, j := 0, 0
	for j < len(before.dao) {
		if i == len(after.dao) {
			return fmt.Sprintf("cache layer: record %x disappeared", before.dao[j].Key[1:5])
		}
		c := bytes.Compare(after.dao[i].Key, before.dao[j].Key)
		if c < 0 {
			i++
			continue
		}
		if c > 0 {
			return fmt.Sprintf("cache layer: record %x disappeared", before.dao[j].Key[1:5])
		}
		a, b := after.dao[i].Value, before.dao[j].Value
		if !bytes.Equal(a, b) {
			if len(a) != len(b) || len(a) < 5 || !bytes.Equal(a[:len(a)-4], b[:len(b)-4]) || le32(a[len(a)-4:]) <= le32(b[len(b)-4:]) {
				return fmt.Sprintf("cache layer: record %x changed from %x to %x", before.dao[j].Key[1:5], b, a)
			}
		}
		i++
		j++
	}
	d := diffKVs("backing store (nothing was persisted)", after.ps, before.ps, nil)
	if d != "" && mayPersist && diffKVs("", after.ps, after.dao, nil) == "" {
		return ""
	}
	return d
}

// othersWritten: did the call write a record other than the delivered node's
// (i.e. was a node that is already stored restored again from the store)?
func othersWritten(after, before []storage.KeyValue, h h256) bool {
	old := make(map[string][]byte, len(before))
	for _, e := range before {
		old[string(e.Key)] = e.Value
	}
	for _, e := range after {
		if bytes.Equal(e.Key[1:], h[:]) {
			continue
		}
		if v, ok := old[string(e.Key)]; ok && !bytes.Equal(v, e.Value) {
			return true
		}
	}
	return false
}

func le32(b []byte) uint32 {
	return uint32(b[0]) | uint32(b[1])<<8 | uint32(b[2])<<16 | uint32(b[3])<<24
}

// ---- the family --------------------------------------------------------------------------

type restoreJob struct {
	cfg   runCfg
	init  string
	stack string
	lean  bool
}

// restoreShared runs the restore-shared family. Restored stores that differ
// from the plain (round 2, fifo) restore of the same state are returned: the
// histories run on top of them as well.
func restoreShared(r *vk.Run, total *stats, report func(*caseRec, string, string, int)) (cases int64, differing []syncRec) {
	if os.Getenv("C11_RESTORE") == "off" {
		return 0, nil
	}
	at := uint32(syncAtQuick)
	inits := restoreInits
	stacks := []string{"", "mem-p", "bolt", "level"}
	cfgs := []runCfg{{"gc", 1, 10, "batch"}, {"latest", 1, 10, "batch"}}
	// Quick: the states with hundreds of orders (big) run on the memory stacks in
	// mode gc only, and their flush variants always end with the crash.
	var jobs []restoreJob
	for ii := len(inits) - 1; ii >= 0; ii-- { // the big ones first: they are the long jobs
		init := inits[ii]
		big := ii >= len(inits)-3
		for _, st := range stacks {
			for _, cfg := range cfgs {
				disk := st == "bolt" || st == "level"
				if !r.Thorough() && ((disk && cfg.Mode == "latest") || (big && (disk || cfg.Mode == "latest"))) {
					continue // the Billet runs in ModeLatest for both modes
				}
				jobs = append(jobs, restoreJob{cfg, init, st, big && !r.Thorough()})
			}
		}
	}
	var mu sync.Mutex
	r.Parallel(len(jobs), func(ji int) {
		j := jobs[ji]
		var st stats
		var nc int64
		var diffs []syncRec
		// the plain restore of the same state: reference bytes
		ref := &caseRec{Cfg: j.cfg, Hist: []int{}, Sync: &syncRec{Init: j.init, Order: "fifo", At: at}}
		refDigest, kind, detail := runRestoreOnly(ref, &st)
		if kind != "" {
			report(ref, kind, detail, 0)
			return
		}
		run := func(rec syncRec) (sizes []int, ok bool) {
			c := &caseRec{Cfg: j.cfg, Hist: []int{}, Sync: &rec}
			nc++
			st.ax.cases++
			if st.ax.byStack == nil {
				st.ax.byStack = map[string]int64{}
			}
			st.ax.byStack["stack="+rec.Stack]++
			d, kind, detail, sizes := runRestoreSizes(c, &st)
			if kind != "" {
				st.oc("restore-shared:" + kind)
				report(c, kind, detail, 0)
				return sizes, false
			}
			variant := "plain"
			switch {
			case rec.Flush != 0 && rec.Crash:
				variant = "flush+crash"
			case rec.Flush != 0:
				variant = "flush"
			case rec.Crash:
				variant = "crash"
			case rec.Restart != 0:
				variant = "restart"
			}
			st.oc("restore-shared:stack=" + rec.Stack + ":" + variant + ":ok")
			if d != refDigest {
				st.ax.digestsDiffer++
				diffs = append(diffs, rec)
			}
			return sizes, true
		}
		// every order, by stateless search over the picks
		var rec func(prefix []int)
		rec = func(prefix []int) {
			if r.Expired() || r.TooMany() {
				return
			}
			base := syncRec{Init: j.init, Order: pickString(prefix), At: at, Via: "module", Stack: j.stack}
			sizes, ok := run(base)
			st.ax.orders++
			if !ok {
				return
			}
			n := len(sizes)
			// restarts after every delivery but the last, graceful and crash; one
			// delivery during a flush, alone and followed by a crash.
			for k := 1; k < n; k++ {
				v := base
				v.Restart = k
				run(v)
				v.Crash = true
				run(v)
				if j.stack == "" || j.stack == "bolt" {
					f := base
					f.Flush = k
					if !j.lean {
						run(f)
					}
					f.Restart, f.Crash = k, true
					run(f)
				}
			}
			for i := len(prefix); i < n; i++ {
				for alt := 1; alt < sizes[i]; alt++ {
					p := append(append([]int{}, prefix...), make([]int, i-len(prefix))...)
					rec(append(p, alt))
				}
			}
		}
		rec(nil)
		if os.Getenv("C11_RESTORE_DEBUG") != "" {
			fmt.Printf("RESTORE-JOB %s {%s} stack=%q orders=%d cases=%d\n", j.cfg, j.init, j.stack, st.ax.orders, nc)
		}
		mu.Lock()
		total.merge(&st)
		cases += nc
		differing = append(differing, diffs...)
		mu.Unlock()
	})
	return
}

func pickString(p []int) string {
	s := make([]string, len(p))
	for i, x := range p {
		s[i] = strconv.Itoa(x)
	}
	return "pick:" + strings.Join(s, ".")
}

func runRestoreSizes(c *caseRec, st *stats) (digest uint64, kind, detail string, sizes []int) {
	defer func() {
		if p := recover(); p != nil {
			kind, detail = "panic", fmt.Sprint(p)
		}
	}()
	in, closeStore := newInstFor(c, st)
	defer closeStore()
	kind, detail = in.syncStart(c.Sync)
	return in.digest, kind, detail, in.syncSizes
}

var _ = state.MPTRoot{}
