// C11 extension (round 2): the block HEIGHT SEQUENCE is a parameter of a history.
//
// Heights are just numbers handed to Module.AddMPTBatch / Trie.Flush /
// Module.UpdateCurrentLocal / Module.Init / Module.GC at this level, so a
// history of B batches can run at the heights 254,255,256,257 or
// 255,256,65535,65536 as cheaply as at 1,2,3,4. Everything that stores,
// decodes or compares a height (the 4-byte LE field of an inactive record, the
// big-endian state root keys, the GC comparison, the module's local height)
// is then exercised across the byte boundaries of the encoding, which the
// histories at heights 1..6 never reach: a GC that compares the encodings
// instead of the numbers, a field truncated to 16 bits or a signed
// comparison are all invisible below 256.
//
// Families (all judged by the unchanged oracle of check_test.go, with block
// ordinals mapped to real heights):
//
//	heights-single : every history of B batches over K, plain and with every
//	                 single GC(G)@point, G over the target set of the sequence
//	heights-pairs  : every two GC events in ANY order of targets (increasing
//	                 across a boundary, decreasing, equal; also twice at the
//	                 same point with a decreasing or equal target)
//	heights-long   : longer histories, smaller alphabet, single GC events
//	gc-any-order   : the decreasing / equal pairs at the heights 1,2,3,...
//
// GC targets of a sequence: 1, 10, every H(j)-1, H(j), H(j)+1 and the middle
// of every gap between two heights - i.e. below / at / above each boundary and
// between the deactivation heights - as far as they are <= the persisted height.
//
// Extra oracles of these families (checkHeightRecords): the state root record
// of height H(r) carries Index H(r); Module.GetLatestStateHeight(root) is the
// highest height of the history with that root (doc comment of the method;
// it walks the big-endian keys backwards from the module's local height).
package c11

import (
	"fmt"
	"math"
	"sort"
	"strings"

	"github.com/nspcc-dev/neo-go/pkg/util"

	"verif/lib/vk"
)

type hseq struct {
	Name string
	H    []uint32 // H[i-1] = height of block i
}

func heightsString(h []uint32) string {
	s := make([]string, len(h))
	for i, x := range h {
		s[i] = fmt.Sprint(x)
	}
	return strings.Join(s, ".")
}

func contig(start uint32, n int) hseq {
	q := hseq{Name: fmt.Sprintf("from-%d", start)}
	for i := 0; i < n; i++ {
		q.H = append(q.H, start+uint32(i))
	}
	return q
}

// The lead's sparse list, continued to the upper boundaries.
var sparseAll = []uint32{1, 255, 256, 257, 511, 512, 65535, 65536, 65537, 16777215, 16777216, math.MaxInt32, math.MaxInt32 + 1, math.MaxUint32 - 1, math.MaxUint32}

// quickSparse: two heights around each of the first boundaries, one history.
var quickSparse = []uint32{255, 256, 65535, 65536, 16777215, 16777216}

// quickSteep: every block crosses the next byte boundary, the last one the sign bit.
var quickSteep = []uint32{255, 256, 65536, 16777216, math.MaxInt32 + 1, math.MaxUint32}

func sparse(list []uint32, from, n int) hseq {
	q := hseq{H: append([]uint32{}, list[from:from+n]...)}
	q.Name = "sparse-" + heightsString(q.H)
	return q
}

// sequences: quick = one contiguous crossing of 2^8 and one sparse sequence
// over 2^8 and 2^16; thorough = every position of every boundary (2^8, 2^16,
// 2^24, 2^31 - the sign bit - and the end of the range) inside a window of n
// blocks, and every window of the sparse list.
func heightSeqs(n int, thorough bool) []hseq {
	out := []hseq{contig(254, n), sparse(quickSparse, 0, n), sparse(quickSteep, 0, n)}
	if !thorough {
		return out
	}
	seen := map[string]bool{}
	for _, q := range out {
		seen[heightsString(q.H)] = true
	}
	add := func(q hseq) {
		if k := heightsString(q.H); !seen[k] {
			seen[k] = true
			out = append(out, q)
		}
	}
	for _, b := range []uint64{1 << 8, 1 << 16, 1 << 24, 1 << 31} {
		for pos := 0; pos < n; pos++ { // the boundary is the height of block pos+1
			add(contig(uint32(b-uint64(pos)), n))
		}
		add(contig(uint32(b-uint64(n)), n)) // ends just below the boundary
	}
	add(contig(250, n)) // the lead's 250..
	add(contig(uint32(math.MaxUint32-uint64(n)+1), n))
	add(contig(uint32(math.MaxUint32-uint64(n)-9), n))
	for from := 0; from+n <= len(sparseAll); from++ {
		add(sparse(sparseAll, from, n))
	}
	return out
}

// someSeqs: the thorough subset for the expensive plans: the boundary in the
// middle of the window for every boundary, the end of the range, the quick
// sequences and two windows of the sparse list.
func someSeqs(n int) []hseq {
	out := heightSeqs(n, false)
	for _, b := range []uint64{1 << 16, 1 << 24, 1 << 31} {
		out = append(out, contig(uint32(b-uint64(n/2)), n))
	}
	out = append(out, contig(uint32(math.MaxUint32-uint64(n)+1), n), sparse(sparseAll, 0, n), sparse(sparseAll, 4, n))
	return out
}

// gcTargets: candidate GC targets of a sequence, ascending. reduced: 10 and
// the heights themselves (pairs phases). wide (thorough): also 1 and 2.
func gcTargets(H []uint32, reduced, wide bool) []uint32 {
	set := map[uint64]bool{10: true}
	if wide {
		set[1], set[2] = true, true
	}
	for j, h := range H {
		x := uint64(h)
		set[x] = true
		if !reduced {
			set[x-1] = true
		}
		if !reduced {
			set[x+1] = true
			if j+1 < len(H) && uint64(H[j+1]) > x+3 {
				set[(x+uint64(H[j+1]))/2] = true
			}
		}
	}
	var out []uint32
	for x := range set {
		if x >= 1 && x <= math.MaxUint32 {
			out = append(out, uint32(x))
		}
	}
	sort.Slice(out, func(i, j int) bool { return out[i] < out[j] })
	return out
}

type planMode int

const (
	planSingle    planMode = iota // every single event
	planPairsUp                   // two events at different points, increasing targets (the original phase 2)
	planPairsAny                  // two events: later point with ANY target, or the same point with a decreasing / equal target
	planPairsDown                 // only the decreasing / equal ones of planPairsAny
)

// gcPlansH: the GC plans of a history of n blocks at the heights H under
// persist period `persist`. An event (point i, G) needs G <= H(persisted(i)).
// h0 > 0: the history starts from a state synchronised (and persisted) at h0.
func gcPlansH(H []uint32, n, persist int, pm planMode, wide bool, h0 uint32) [][]gcEv {
	all := H[:n]
	if h0 > 0 {
		all = append([]uint32{h0}, all...)
	}
	tg := gcTargets(all, pm != planSingle, wide)
	var single []gcEv
	for i := 1; i <= n; i++ {
		p := persistedAfter(i, persist)
		bound := h0
		if p > 0 {
			bound = H[p-1]
		}
		for _, g := range tg {
			if g <= bound {
				single = append(single, gcEv{i, g})
			}
		}
	}
	var out [][]gcEv
	if pm == planSingle {
		for _, e := range single {
			out = append(out, []gcEv{e})
		}
		return out
	}
	for _, a := range single {
		for _, b := range single {
			up := b.G > a.G
			switch {
			case b.After > a.After && (pm == planPairsAny || (pm == planPairsUp && up) || (pm == planPairsDown && !up)):
				out = append(out, []gcEv{a, b})
			case b.After == a.After && !up && pm != planPairsUp:
				out = append(out, []gcEv{a, b})
			}
		}
	}
	return out
}

// defaultHeights: 1,2,...,n as an explicit sequence (family gc-any-order).
func defaultHeights(n int) hseq {
	q := contig(1, n)
	q.Name = "from-1"
	return q
}

// ---- phases ------------------------------------------------------------------------

type hphase struct {
	Fam  string
	K, B int
	Plan planMode
	Cfgs []runCfg
	Seqs []hseq
	// synced-start (ext_sync_test.go): every history starts from each of these
	// restored states; a state goes with the sequence that begins at At+1.
	Syncs []syncRec
}

func heightPhases(r *vk.Run, cfgs2 []runCfg) []hphase {
	// Modes without deactivation heights: the state root records, the local
	// height and a restart at the heights of the sequence still apply.
	other := []runCfg{{"all", 1, 10, "batch"}, {"latest", 1, -1, "batch"}, {"latest", 2, 10, "putdel"}}
	pairCfgs := []runCfg{{"gc", 1, 10, "batch"}, {"gc", 1, -1, "batch"}, {"gc", 2, 1, "batch"}}
	if r.Thorough() {
		return []hphase{
			{"heights-single", 5, 4, planSingle, append(append([]runCfg{}, cfgs2...), other...), heightSeqs(4, true), nil},
			{"heights-pairs", 4, 4, planPairsAny, pairCfgs, someSeqs(4), nil},
			{"heights-long", 4, 5, planSingle, append(append([]runCfg{}, pairCfgs...), other...), someSeqs(5), nil},
			{"gc-any-order", 4, 5, planPairsDown, cfgs2, []hseq{defaultHeights(5)}, nil},
		}
	}
	return []hphase{
		{"heights-single", 4, 4, planSingle, append(append([]runCfg{}, cfgs2...), other...), heightSeqs(4, false)[:2], nil},
		{"heights-pairs", 5, 3, planPairsAny, pairCfgs, []hseq{contig(255, 3)}, nil},
		{"heights-long", 3, 5, planSingle, pairCfgs, heightSeqs(5, false)[2:], nil},
		{"gc-any-order", 5, 3, planPairsDown, pairCfgs, []hseq{defaultHeights(3)}, nil},
	}
}

// ---- counters ----------------------------------------------------------------------

type hstats struct {
	cases, gcCases                       map[string]int64 // by family
	seqCases                             map[string]int64 // by sequence
	gcRuns, gcRemoving                   int64
	inact8, inact16, inact24, inact31    int64 // inactive records judged with a height >= 2^8, 2^16, 2^24, 2^31
	recordChecks, latestHeightQueries    int64
	secondGCNotAbove, secondGCNotAboveRm int64 // GC with a target <= an earlier target: runs, runs that removed something
	targets                              map[uint32]bool
}

func addMap(dst *map[string]int64, src map[string]int64) {
	if len(src) == 0 {
		return
	}
	if *dst == nil {
		*dst = map[string]int64{}
	}
	for k, v := range src {
		(*dst)[k] += v
	}
}

func (s *hstats) merge(o *hstats) {
	addMap(&s.cases, o.cases)
	addMap(&s.gcCases, o.gcCases)
	addMap(&s.seqCases, o.seqCases)
	s.gcRuns += o.gcRuns
	s.gcRemoving += o.gcRemoving
	s.inact8 += o.inact8
	s.inact16 += o.inact16
	s.inact24 += o.inact24
	s.inact31 += o.inact31
	s.recordChecks += o.recordChecks
	s.latestHeightQueries += o.latestHeightQueries
	s.secondGCNotAbove += o.secondGCNotAbove
	s.secondGCNotAboveRm += o.secondGCNotAboveRm
	if len(o.targets) > 0 && s.targets == nil {
		s.targets = map[uint32]bool{}
	}
	for k := range o.targets {
		s.targets[k] = true
	}
}

func (s *hstats) countCase(fam, seq string, gc bool) {
	if s.cases == nil {
		s.cases, s.gcCases, s.seqCases = map[string]int64{}, map[string]int64{}, map[string]int64{}
	}
	s.cases[fam]++
	s.seqCases[seq]++
	if gc {
		s.gcCases[fam]++
	}
}

func (s *hstats) noteInactive(h uint32) {
	switch {
	case h >= 1<<31:
		s.inact31++
	case h >= 1<<24:
		s.inact24++
	case h >= 1<<16:
		s.inact16++
	case h >= 1<<8:
		s.inact8++
	}
}

func (s *hstats) total() (n int64) {
	for _, v := range s.cases {
		n += v
	}
	return
}

// noteHeightGC classifies a GC run of a height-sequence case: where the
// target lies relative to the heights of the blocks applied so far, and
// whether the target is not above an earlier one.
func (in *inst) noteHeightGC(g uint32, removed int) {
	hx := &in.st.hx
	hx.gcRuns++
	if hx.targets == nil {
		hx.targets = map[uint32]bool{}
	}
	hx.targets[g] = true
	pos := "below-h1"
	if in.synced {
		pos = "below-h0"
	}
	for j := in.first(); j <= in.height; j++ {
		switch {
		case g == in.H(j):
			pos = fmt.Sprintf("at-h%d", j)
		case g > in.H(j):
			pos = fmt.Sprintf("above-h%d", j)
		}
	}
	res := "removed-none"
	if removed > 0 {
		res = "removed-some"
		hx.gcRemoving++
	}
	// bytes of the target against the bytes of the latest height: does a
	// bytewise comparison of the encodings disagree with the numbers somewhere?
	in.st.oc(fmt.Sprintf("hgc:%s/latest-h%d:%s", pos, in.height, res))
	if in.gcRan && g <= in.gmax { // in.gmax: the highest target before this run
		hx.secondGCNotAbove++
		rel := "below"
		if g == in.gmax {
			rel = "equal"
		}
		if removed > 0 {
			hx.secondGCNotAboveRm++
		}
		in.st.oc("hgc:second-target-" + rel + "-the-first:" + res)
	}
}

// gcEdge: proofs are requested under the oldest retained root and under the
// newest collected one.
func (in *inst) gcEdge(r uint32) bool {
	if in.hs == nil {
		return r == in.gmax || r+1 == in.gmax
	}
	if in.gmax == 0 {
		return false
	}
	if in.H(r) >= in.gmax {
		return r == in.first() || in.H(r-1) < in.gmax
	}
	return r == in.height || in.H(r+1) >= in.gmax
}

// checkHeightRecords: what the module says about the heights themselves.
// (1) the state root record read back under height H(r) was written for H(r);
// (2) GetLatestStateHeight "returns the latest blockchain height by the given
// stateroot": the highest height of the history so far with that root.
func (in *inst) checkHeightRecords(r, idx uint32, root util.Uint256) (kind, detail string) {
	in.st.hx.recordChecks++
	if idx != in.H(r) {
		return "state-root-record-wrong", fmt.Sprintf("the record read under height %d carries index %d", in.H(r), idx)
	}
	var want uint32
	for j := in.first(); j <= in.height; j++ {
		if in.repRoots[j] == root {
			want = in.H(j)
		}
	}
	in.st.hx.latestHeightQueries++
	got, err := in.mod.GetLatestStateHeight(root)
	if err != nil || got != want {
		return "latest-state-height-wrong", fmt.Sprintf("GetLatestStateHeight(root of height %d) = %d, %v; the latest height with that root is %d (local height %d)", in.H(r), got, err, want, in.mod.CurrentLocalHeight())
	}
	return "", ""
}

func boolCount(m map[uint32]bool) int { return len(m) }

// heightCoverage adds the measured counters of the height-sequence families.
func heightCoverage(cov map[string]any, phases []hphase, hx *hstats) {
	if len(phases) == 0 {
		return
	}
	var desc []string
	seqs := map[string]bool{}
	for _, p := range phases {
		var sn []string
		for _, q := range p.Seqs {
			sn = append(sn, heightsString(q.H))
			seqs[heightsString(q.H)] = true
		}
		desc = append(desc, fmt.Sprintf("%s: K=%d B=%d plan=%d configs=%d sequences=%d [%s]", p.Fam, p.K, p.B, p.Plan, len(p.Cfgs), len(p.Seqs), strings.Join(sn[:min(len(sn), 4)], " ")))
	}
	cov["height_families"] = desc
	cov["height_families_n"] = len(phases)
	cov["height_sequences"] = len(seqs)
	cov["height_cases_run"] = int(hx.total())
	cov["height_cases_by_family"] = hx.cases
	cov["height_cases_with_gc_by_family"] = hx.gcCases
	cov["height_cases_by_sequence"] = hx.seqCases
	for f, n := range hx.cases {
		cov["height_cases_"+f] = int(n)
	}
	cov["height_gc_runs"] = int(hx.gcRuns)
	cov["height_gc_runs_removing_nodes"] = int(hx.gcRemoving)
	cov["height_gc_distinct_targets"] = boolCount(hx.targets)
	cov["height_gc_second_target_not_above_first"] = int(hx.secondGCNotAbove)
	cov["height_gc_second_target_not_above_first_removing"] = int(hx.secondGCNotAboveRm)
	cov["height_inactive_records_judged_ge_2^8"] = int(hx.inact8)
	cov["height_inactive_records_judged_ge_2^16"] = int(hx.inact16)
	cov["height_inactive_records_judged_ge_2^24"] = int(hx.inact24)
	cov["height_inactive_records_judged_ge_2^31"] = int(hx.inact31)
	cov["height_state_root_record_checks"] = int(hx.recordChecks)
	cov["height_latest_state_height_queries"] = int(hx.latestHeightQueries)
}
