// C11 extension (round 2): histories that start from a SYNCHRONISED state.
//
// A node that bootstraps by state synchronisation does not build its trie
// with Trie.PutBatch: the nodes of the state at the sync point arrive one by
// one and mpt.Billet.RestoreHashNode stores each (node, path) pair, keeping the
// reference counters itself (Billet.incrementRefAndStore - a second
// implementation of the counting, in an anchored file the check never
// executed). Then Module.JumpToState makes the restored root the current one
// and blocks are applied on top as usual. The property makes no exception for
// such a node: after every block the stored count of a node is the number of
// times it occurs in the latest trie, and nothing a retained root needs is
// missing.
//
// Family synced-start: the state S0 (a few maps built to share nodes) is
// restored into the empty store of the instance in the instance's mode (the
// Billet runs with ModeLatest whenever counters are kept, like
// statesync.Module does), JumpToState(h0), persist; the store is judged by the
// unchanged oracle right there, then every history of B batches over K
// follows at the heights h0+1.. (h0 = 254: the blocks cross 2^8), plain and
// with every single GC event. Delivery orders (every (node, path) pair exactly
// once, a parent before its children - Billet's stated assumptions):
//
//	dfs, dfs-rev : per occurrence, depth first, children ascending / descending
//	fifo, lifo   : the way statesync's pool works - take a requested hash,
//	               restore it under ALL paths pending for it, request its children
//
// Family restore-orders judges the restored store for every S0 x order x mode;
// the histories run with one order (fifo) as long as all orders leave the
// same store bytes (counted in the coverage, not demanded).
package c11

import (
	"fmt"
	"sort"

	"github.com/nspcc-dev/neo-go/pkg/core/mpt"
	"github.com/nspcc-dev/neo-go/pkg/core/state"
	"github.com/nspcc-dev/neo-go/pkg/core/storage"
	nio "github.com/nspcc-dev/neo-go/pkg/io"
	"github.com/nspcc-dev/neo-go/pkg/util"
)

type syncRec struct {
	Init  string `json:"state"` // batch spec applied to the empty state, e.g. "a1 b1 c1 d1"
	Order string `json:"order"`
	At    uint32 `json:"height"`
	// round 3 (ext_alias_test.go)
	Via     string `json:"via,omitempty"`                   // "" = Billet.RestoreHashNode called by the harness; "module" = statesync.Module.AddMPTNodes (Order = pick:<i.j.k>: which of the hashes asked for is delivered at each step)
	Stack   string `json:"stack,omitempty"`                 // "" | mem-p | bolt | level
	Restart int    `json:"restart_after,omitempty"`         // the module is restarted after this delivery
	Crash   bool   `json:"crash,omitempty"`                 // ... without persisting first
	Flush   int    `json:"delivery_during_flush,omitempty"` // this delivery is made while the cache layer is being flushed
}

func (s *syncRec) String() string {
	k := fmt.Sprintf("sync={%s}/%s@%d", s.Init, s.Order, s.At)
	if s.Via != "" || s.Stack != "" || s.Restart != 0 || s.Flush != 0 {
		k += fmt.Sprintf("/via=%s/stack=%s/restart=%d/crash=%v/flush=%d", s.Via, s.Stack, s.Restart, s.Crash, s.Flush)
	}
	return k
}

// Simplest first. Leaf "x" under 2 and 4 keys, the branch {1:x,2:x} under two
// first nibbles, a value child, mixed values.
var syncInits = []string{"a1", "a1 b1", "a1 b1 c1 d1", "a1 b1 c2", "a1 b1 c1 d1 e1", "a2 b1 c1 d1", "a2 e1 c1"}

var syncOrders = []string{"fifo", "dfs", "dfs-rev", "lifo"}

func (in *inst) first() uint32 {
	if in.synced {
		return 0
	}
	return 1
}

type occ struct {
	h    h256
	path []byte
}

func occChildren(c *canon, o occ) ([]occ, error) {
	n, err := decodeBody(c.body[o.h])
	if err != nil {
		return nil, err
	}
	var out []occ
	switch n.typ {
	case tExt:
		out = append(out, occ{n.next, append(append([]byte{}, o.path...), n.key...)})
	case tBranch:
		for i, ch := range n.children {
			if ch == nil {
				continue
			}
			p := append([]byte{}, o.path...)
			if i < 16 {
				p = append(p, byte(i))
			}
			out = append(out, occ{*ch, p})
		}
	}
	return out, nil
}

// deliveries: the (node, path) pairs of the trie in the given order.
func deliveries(c *canon, order string) ([]occ, error) {
	var out []occ
	root := occ{c.root, nil}
	switch order {
	case "dfs", "dfs-rev":
		stack := []occ{root}
		for len(stack) > 0 {
			o := stack[len(stack)-1]
			stack = stack[:len(stack)-1]
			out = append(out, o)
			ch, err := occChildren(c, o)
			if err != nil {
				return nil, err
			}
			if order == "dfs" { // pop ascending
				for i := len(ch) - 1; i >= 0; i-- {
					stack = append(stack, ch[i])
				}
			} else {
				stack = append(stack, ch...)
			}
		}
	case "fifo", "lifo":
		pending := map[h256][][]byte{c.root: {nil}}
		queue := []h256{c.root}
		for len(queue) > 0 {
			var h h256
			if order == "fifo" {
				h, queue = queue[0], queue[1:]
			} else {
				h, queue = queue[len(queue)-1], queue[:len(queue)-1]
			}
			paths := pending[h]
			delete(pending, h)
			for _, p := range paths {
				o := occ{h, p}
				out = append(out, o)
				ch, err := occChildren(c, o)
				if err != nil {
					return nil, err
				}
				for _, x := range ch {
					if _, ok := pending[x.h]; !ok {
						queue = append(queue, x.h)
					}
					pending[x.h] = append(pending[x.h], x.path)
				}
			}
		}
	default:
		return nil, fmt.Errorf("unknown order %q", order)
	}
	return out, nil
}

// syncStart restores the state of rec through a Billet, jumps to it and judges the store.
func (in *inst) syncStart(rec *syncRec) (kind, detail string) {
	m := map[string][]byte{}
	for k, v := range mkBatch(rec.Init).kv {
		if v != nil {
			m[k] = v
		}
	}
	c := canonOf(m)
	if c.empty || rec.At == 0 {
		return "harness-bad-case", "synchronised start needs a non-empty state and a height"
	}
	root := util.Uint256(c.root)
	if rec.Via == "module" {
		kind, detail, in.syncSizes = in.restoreViaModule(rec, c, root)
		if kind != "" {
			return kind, detail
		}
		in.st.sx.restores++
		return in.syncFinish(rec, m, c, root)
	}
	dl, err := deliveries(c, rec.Order)
	if err != nil {
		return "harness-bad-case", err.Error()
	}
	total := 0
	for _, n := range c.mult {
		total += n
	}
	if len(dl) != total {
		return "harness-bad-case", fmt.Sprintf("%d deliveries for %d node occurrences", len(dl), total)
	}
	mode := mpt.ModeAll
	if in.mode.RC() {
		mode = mpt.ModeLatest // statesync.Module: "No need to enable GC here, it only has the latest things."
	}
	bl := mpt.NewBillet(root, mode, storage.STTempStorage, in.dao)
	for i, o := range dl {
		var no mpt.NodeObject
		r := nio.NewBinReaderFromBuf(c.body[o.h])
		no.DecodeBinary(r)
		if r.Err != nil {
			return "harness-bad-case", "canonical node does not decode: " + r.Err.Error()
		}
		var before *storeSnap
		if aliasOracle {
			before = in.snap()
		}
		if err := bl.RestoreHashNode(o.path, no.Node); err != nil {
			return "billet-restore-error", fmt.Sprintf("delivery %d of %d (node %s, path %x): %v", i+1, len(dl), o.h.short(), o.path, err)
		}
		if before != nil {
			k := string(append([]byte{byte(storage.DataMPT)}, o.h[:]...))
			if d := in.snap().diff(before, map[string]bool{k: true}, false); d != "" {
				return "store-record-changed-by-restore", fmt.Sprintf("delivery %d of %d (node %s, path %x): %s", i+1, len(dl), o.h.short(), o.path, d)
			}
			in.st.ax.restoreChecked++
		}
		in.st.sx.delivered++
	}
	in.st.sx.restores++
	return in.syncFinish(rec, m, c, root)
}

// syncFinish: the jump to the restored state, persist, oracle.
func (in *inst) syncFinish(rec *syncRec, m map[string][]byte, c *canon, root util.Uint256) (kind, detail string) {
	in.synced, in.h0 = true, rec.At
	in.maps[0], in.canons[0], in.repRoots[0] = m, c, root
	if in.cfg.Applier == "batch" {
		in.mod.JumpToState(&state.MPTRoot{Index: rec.At, Root: root})
		if got := in.mod.CurrentLocalStateRoot(); got != root || in.mod.CurrentLocalHeight() != rec.At {
			return "current-local-state-root-wrong", fmt.Sprintf("after JumpToState(%d): module reports root %s at height %d", rec.At, got.StringBE(), in.mod.CurrentLocalHeight())
		}
	} else {
		in.tr = mpt.NewTrie(mpt.NewHashNode(root), in.mode, in.dao)
	}
	if _, err := in.dao.Persist(); err != nil {
		return "persist-error", err.Error()
	}
	in.st.persists++
	if kind, detail = in.check(); kind != "" {
		return kind + "-after-restore", detail
	}
	return "", ""
}

type sstats struct {
	restores, delivered int64
	cases               int64
	orderCases          int64
	orderDigestsDiffer  int64
}

func (s *sstats) merge(o *sstats) {
	s.restores += o.restores
	s.delivered += o.delivered
	s.cases += o.cases
	s.orderCases += o.orderCases
	s.orderDigestsDiffer += o.orderDigestsDiffer
}

const syncAtQuick = 254

// syncPhases: the synced-start histories. One order while all orders give the
// same bytes (sameBytes, measured by restoreOrders).
func syncPhases(thorough bool, sameBytes bool) []hphase {
	orders := syncOrders[:1]
	if !sameBytes {
		orders = syncOrders
	}
	cfgs := []runCfg{{"gc", 1, 10, "batch"}, {"gc", 1, -1, "batch"}, {"gc", 2, 1, "batch"}, {"latest", 1, 10, "batch"}, {"latest", 2, -1, "putdel"}, {"all", 1, 10, "batch"}}
	K, B := 4, 3
	ats := []uint32{syncAtQuick}
	inits := syncInits[:5]
	if thorough {
		K, B = 4, 4
		ats = []uint32{syncAtQuick, 65534, 1<<31 - 2}
		inits = syncInits
		cfgs = append(cfgs, runCfg{"gc", 2, -1, "batch"}, runCfg{"gc", 1, 10, "putdel"}, runCfg{"latest", 1, 1, "batch"})
	}
	var syncs []syncRec
	var seqs []hseq
	for _, at := range ats {
		seqs = append(seqs, contig(at+1, B))
		for _, in := range inits {
			for _, o := range orders {
				syncs = append(syncs, syncRec{Init: in, Order: o, At: at})
			}
		}
	}
	return []hphase{{Fam: "synced-start", K: K, B: B, Plan: planSingle, Cfgs: cfgs, Seqs: seqs, Syncs: syncs}}
}

// restoreOrders judges the restored store for every state x order x mode and
// reports whether every order leaves the same bytes.
func restoreOrders(thorough bool, st *stats, report func(*caseRec, string, string, int)) (cases int, same bool) {
	same = true
	cfgs := []runCfg{{"gc", 1, 10, "batch"}, {"latest", 1, 10, "batch"}, {"latest", 1, 10, "putdel"}, {"all", 1, 10, "batch"}}
	ats := []uint32{syncAtQuick}
	if thorough {
		ats = append(ats, 1<<31-2)
	}
	for _, cfg := range cfgs {
		for _, at := range ats {
			for _, init := range syncInits {
				var digests []uint64
				for _, o := range syncOrders {
					c := &caseRec{Cfg: cfg, Hist: []int{}, Sync: &syncRec{Init: init, Order: o, At: at}}
					cases++
					st.sx.orderCases++
					d, kind, detail := runRestoreOnly(c, st)
					if kind != "" {
						report(c, kind, detail, 0)
						continue
					}
					digests = append(digests, d)
				}
				sort.Slice(digests, func(i, j int) bool { return digests[i] < digests[j] })
				if len(digests) > 0 && digests[0] != digests[len(digests)-1] {
					same = false
					st.sx.orderDigestsDiffer++
				}
			}
		}
	}
	return
}

func runRestoreOnly(c *caseRec, st *stats) (digest uint64, kind, detail string) {
	defer func() {
		if p := recover(); p != nil {
			kind, detail = "panic", fmt.Sprint(p)
		}
	}()
	in := newInst(c.Cfg, st, c.Heights)
	kind, detail = in.syncStart(c.Sync)
	return in.digest, kind, detail
}

func syncCoverage(cov map[string]any, phases []hphase, sx *sstats, orderCases int) {
	for _, p := range phases {
		if len(p.Syncs) == 0 {
			continue
		}
		var ss []string
		for i := range p.Syncs {
			ss = append(ss, p.Syncs[i].String())
		}
		cov["synced_start_states_orders_heights"] = ss
		cov["synced_start_variants"] = len(ss)
	}
	cov["restore_orders"] = syncOrders
	cov["restore_orders_cases"] = orderCases
	cov["restore_orders_groups_with_differing_bytes"] = int(sx.orderDigestsDiffer)
	cov["billet_restores"] = int(sx.restores)
	cov["billet_nodes_delivered"] = int(sx.delivered)
}
