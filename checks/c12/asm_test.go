// C12: a small assembler with labels and the harness's own instruction decoder.
package c12

import (
	"encoding/binary"
	"fmt"
	"math/big"

	"github.com/nspcc-dev/neo-go/pkg/vm/opcode"
)

// ---- own decoder ----------------------------------------------------------------
//
// Operand sizes written from the NeoVM instruction set description (not from
// scparser): -1 = not an instruction, 0..32 fixed operand bytes, pfx1/2/4 =
// length-prefixed data.
const (
	pfx1 = 101
	pfx2 = 102
	pfx4 = 104
)

var operand [256]int

func init() {
	for i := range operand {
		operand[i] = -1
	}
	set := func(n int, from, to int) {
		for i := from; i <= to; i++ {
			operand[i] = n
		}
	}
	for i := 0; i <= 5; i++ {
		operand[i] = 1 << i // PUSHINT8..PUSHINT256
	}
	set(0, 0x08, 0x09) // PUSHT PUSHF
	operand[0x0A] = 4  // PUSHA
	operand[0x0B] = 0  // PUSHNULL
	operand[0x0C], operand[0x0D], operand[0x0E] = pfx1, pfx2, pfx4
	set(0, 0x0F, 0x21)              // PUSHM1..PUSH16, NOP
	for i := 0x22; i <= 0x35; i++ { // JMP..JMPLE and CALL: short, long alternating
		if i%2 == 0 {
			operand[i] = 1
		} else {
			operand[i] = 4
		}
	}
	operand[0x36] = 0  // CALLA
	operand[0x37] = 2  // CALLT
	set(0, 0x38, 0x3A) // ABORT ASSERT THROW
	operand[0x3B] = 2  // TRY
	operand[0x3C] = 8  // TRY_L
	operand[0x3D] = 1  // ENDTRY
	operand[0x3E] = 4  // ENDTRY_L
	set(0, 0x3F, 0x40) // ENDFINALLY RET
	operand[0x41] = 4  // SYSCALL
	for _, i := range []int{0x43, 0x45, 0x46, 0x48, 0x49, 0x4A, 0x4B, 0x4D, 0x4E, 0x50, 0x51, 0x52, 0x53, 0x54, 0x55} {
		operand[i] = 0
	}
	operand[0x56] = 1 // INITSSLOT
	operand[0x57] = 2 // INITSLOT
	set(0, 0x58, 0x87)
	for _, i := range []int{0x5F, 0x67, 0x6F, 0x77, 0x7F, 0x87} { // LDSFLD STSFLD LDLOC STLOC LDARG STARG
		operand[i] = 1
	}
	for _, i := range []int{0x88, 0x89, 0x8B, 0x8C, 0x8D, 0x8E, 0x90, 0x91, 0x92, 0x93, 0x97, 0x98} {
		operand[i] = 0
	}
	set(0, 0x99, 0xA6)
	for _, i := range []int{0xA8, 0xA9, 0xAA, 0xAB, 0xAC, 0xB1, 0xB3, 0xB4, 0xB5, 0xB6, 0xB7, 0xB8, 0xB9, 0xBA, 0xBB, 0xBE, 0xBF} {
		operand[i] = 0
	}
	set(0, 0xC0, 0xC3)
	operand[0xC4] = 1 // NEWARRAY_T
	for _, i := range []int{0xC5, 0xC6, 0xC8, 0xCA, 0xCB, 0xCC, 0xCD, 0xCE, 0xCF, 0xD0, 0xD1, 0xD2, 0xD3, 0xD4, 0xD8} {
		operand[i] = 0
	}
	operand[0xD9] = 1 // ISTYPE
	operand[0xDB] = 1 // CONVERT
	operand[0xE0], operand[0xE1] = 0, 0
	// self-check of the table against the opcode set of the tree under test
	for i := 0; i < 256; i++ {
		if (operand[i] >= 0) != opcode.IsValid(opcode.Opcode(i)) {
			panic(fmt.Sprintf("C12: own opcode table and opcode.IsValid differ at %#x", i))
		}
	}
}

// boundaries decodes script linearly from offset 0 and returns the set of
// instruction start offsets (len(script)+1 entries; the end offset counts as a
// boundary: it is where the implicit RET sits). ok=false if the decoding hits
// an invalid opcode or a truncated operand.
func boundaries(script []byte) (b []bool, ok bool) {
	b = make([]bool, len(script)+1)
	i := 0
	for i < len(script) {
		b[i] = true
		n := operand[script[i]]
		i++
		switch n {
		case -1:
			return b, false
		case pfx1, pfx2, pfx4:
			w := n - 100
			if i+w > len(script) {
				return b, false
			}
			var l uint32
			switch w {
			case 1:
				l = uint32(script[i])
			case 2:
				l = uint32(binary.LittleEndian.Uint16(script[i:]))
			case 4:
				l = binary.LittleEndian.Uint32(script[i:])
			}
			i += w
			if int64(i)+int64(l) > int64(len(script)) {
				return b, false
			}
			i += int(l)
		default:
			if i+n > len(script) {
				return b, false
			}
			i += n
		}
	}
	b[len(script)] = true
	return b, true
}

// ---- assembler ------------------------------------------------------------------

type fixup struct {
	at    int // offset of the operand
	size  int // 1 or 4
	base  int // offset of the instruction (offsets are relative to it)
	label int
}

type asm struct {
	buf    []byte
	labels []int // label -> offset, -1 undefined
	fix    []fixup
}

func (a *asm) pos() int { return len(a.buf) }

func (a *asm) newLabel() int {
	a.labels = append(a.labels, -1)
	return len(a.labels) - 1
}

func (a *asm) here(l int) {
	if a.labels[l] >= 0 {
		panic("label defined twice")
	}
	a.labels[l] = len(a.buf)
}

func (a *asm) defined(l int) bool { return a.labels[l] >= 0 }

func (a *asm) op(ops ...opcode.Opcode) {
	for _, o := range ops {
		a.buf = append(a.buf, byte(o))
	}
}

func (a *asm) raw(b ...byte) { a.buf = append(a.buf, b...) }

// jmp emits op (any instruction with one relative offset) to label l; long
// decides the operand width, which must match op.
func (a *asm) jmp(op opcode.Opcode, l int) {
	size := operand[op]
	base := len(a.buf)
	a.buf = append(a.buf, byte(op))
	a.fix = append(a.fix, fixup{at: len(a.buf), size: size, base: base, label: l})
	a.buf = append(a.buf, make([]byte, size)...)
}

// try emits TRY/TRY_L; a label of -1 means "no such block" (offset 0).
func (a *asm) try(op opcode.Opcode, catchL, finL int) {
	size := operand[op] / 2
	base := len(a.buf)
	a.buf = append(a.buf, byte(op))
	for _, l := range []int{catchL, finL} {
		if l >= 0 {
			a.fix = append(a.fix, fixup{at: len(a.buf), size: size, base: base, label: l})
		}
		a.buf = append(a.buf, make([]byte, size)...)
	}
}

func (a *asm) pushInt(n int64) {
	switch {
	case n >= -1 && n <= 16:
		a.buf = append(a.buf, byte(int64(opcode.PUSH0)+n))
	case n >= -128 && n <= 127:
		a.buf = append(a.buf, byte(opcode.PUSHINT8), byte(int8(n)))
	case n >= -32768 && n <= 32767:
		a.buf = append(a.buf, byte(opcode.PUSHINT16), 0, 0)
		binary.LittleEndian.PutUint16(a.buf[len(a.buf)-2:], uint16(int16(n)))
	default:
		a.buf = append(a.buf, byte(opcode.PUSHINT32), 0, 0, 0, 0)
		binary.LittleEndian.PutUint32(a.buf[len(a.buf)-4:], uint32(int32(n)))
	}
}

// pushBig emits PUSHINT256 with the two's complement little-endian encoding.
func (a *asm) pushBig(n *big.Int) {
	v := new(big.Int).Set(n)
	if v.Sign() < 0 {
		v.Add(v, new(big.Int).Lsh(big.NewInt(1), 256))
	}
	be := v.Bytes()
	if len(be) > 32 {
		panic("pushBig: does not fit")
	}
	a.buf = append(a.buf, byte(opcode.PUSHINT256))
	for i := 0; i < 32; i++ {
		if i < len(be) {
			a.buf = append(a.buf, be[len(be)-1-i])
		} else {
			a.buf = append(a.buf, 0)
		}
	}
}

func (a *asm) pushData(b []byte) {
	switch {
	case len(b) < 256:
		a.buf = append(a.buf, byte(opcode.PUSHDATA1), byte(len(b)))
	case len(b) < 65536:
		a.buf = append(a.buf, byte(opcode.PUSHDATA2), 0, 0)
		binary.LittleEndian.PutUint16(a.buf[len(a.buf)-2:], uint16(len(b)))
	default:
		a.buf = append(a.buf, byte(opcode.PUSHDATA4), 0, 0, 0, 0)
		binary.LittleEndian.PutUint32(a.buf[len(a.buf)-4:], uint32(len(b)))
	}
	a.buf = append(a.buf, b...)
}

func (a *asm) bytes() []byte {
	for _, f := range a.fix {
		t := a.labels[f.label]
		if t < 0 {
			panic("undefined label")
		}
		d := t - f.base
		switch f.size {
		case 1:
			if d < -128 || d > 127 {
				panic(fmt.Sprintf("short jump out of range: %d", d))
			}
			a.buf[f.at] = byte(int8(d))
		case 4:
			binary.LittleEndian.PutUint32(a.buf[f.at:], uint32(int32(d)))
		default:
			panic("bad fixup size")
		}
	}
	a.fix = nil
	return a.buf
}

// disasm lists the instructions of a script (own decoder), for reports.
func disasm(script []byte) string {
	var out []byte
	i := 0
	for i < len(script) && len(out) < 6000 {
		op := opcode.Opcode(script[i])
		n := operand[script[i]]
		start := i
		i++
		if n < 0 {
			out = append(out, fmt.Sprintf("%4d  <invalid %#x>\n", start, byte(op))...)
			break
		}
		if n >= 100 {
			w := n - 100
			if i+w > len(script) {
				out = append(out, fmt.Sprintf("%4d  %s <truncated>\n", start, op)...)
				break
			}
			l := 0
			for k := w - 1; k >= 0; k-- {
				l = l<<8 | int(script[i+k])
			}
			i += w
			n = l
		}
		if i+n > len(script) {
			out = append(out, fmt.Sprintf("%4d  %s <truncated>\n", start, op)...)
			break
		}
		arg := script[i : i+n]
		i += n
		if len(arg) > 12 {
			out = append(out, fmt.Sprintf("%4d  %s %x... (%d bytes)\n", start, op, arg[:12], len(arg))...)
		} else if len(arg) > 0 {
			out = append(out, fmt.Sprintf("%4d  %s %x\n", start, op, arg)...)
		} else {
			out = append(out, fmt.Sprintf("%4d  %s\n", start, op)...)
		}
	}
	if i < len(script) && len(out) >= 6000 {
		out = append(out, "      ...\n"...)
	}
	return string(out)
}
