// C12: the VM is total, bounded and memory-safe on every script
// (DESIGN.md section 4, C12). Bounded exhaustive exploration on the real VM:
//
//	raw    all byte strings up to length 2 (quick) / 3 (thorough), each under the
//	       gas limits {unlimited, 0, 1, 3, need-1, need}, stepped and with Run();
//	limits hand-written loop programs that drive every limit of the property to
//	       its edge and one past it, and a matrix of integer operations at the
//	       256-bit boundary;
//	deep   all sequences up to length L over an alphabet of ~75 macro
//	       instructions that type-check against the observed machine state
//	       (breadth first, merged by canonical machine state incl. hidden
//	       counters).
//
// After EVERY instruction the machine is walked independently (oracle_test.go).
package c12

import (
	"encoding/hex"
	"fmt"
	"sort"
	"strings"
	"sync"
	"testing"
	"time"

	"github.com/nspcc-dev/neo-go/pkg/smartcontract/scparser"

	"verif/lib/vk"
)

const (
	rawBase  = 12345  // picoGAS per price unit in the raw part: prices are not whole datoshi, so rounding matters
	deepBase = 300000 // the network default (30 datoshi per unit) elsewhere
)

// replayRec is the detail of a violation and the input of --replay.
type replayRec struct {
	Part    string   `json:"part"`
	Name    string   `json:"name,omitempty"`
	Macros  []string `json:"macros,omitempty"`
	Script  string   `json:"script_hex"`
	Cfg     cfg      `json:"cfg"`
	Correct bool     `json:"passes_IsScriptCorrect"`
	Finding *finding `json:"finding"`
	State   string   `json:"final_state"`
	Steps   int      `json:"steps"`
	Gas     int64    `json:"gas_consumed_datoshi"`
	OwnPico int64    `json:"executed_prices_picogas"`
	Err     string   `json:"vm_error,omitempty"`
	Disasm  string   `json:"disasm,omitempty"`
}

type stats struct {
	r           *vk.Run
	execs       vk.Counter // executions on the real VM
	steps       vk.Counter // instructions executed under the per-step oracle
	correct     vk.Counter // scripts accepted by IsScriptCorrect
	cyclic      vk.Counter // runs in which a cycle was built
	overCyclic  vk.Counter // runs where the VM counter exceeded the walk (only legal with a cycle)
	runStepDiff vk.Counter // Run() and Step() ended differently (reported in coverage, not asserted)
	deepNotStatic vk.Counter // generated programs rejected by IsScriptCorrect (harness self-check, must be 0)
	decoderDiff vk.Counter // own decoder and IsScriptCorrect disagree (harness self-check)
	sigs        *vk.Set
	mu          sync.Mutex
	maxWalk     int
	maxInvoc    int
	maxTry      int
	found       map[string]*pending
}

func (s *stats) note(res *result) {
	s.execs.Inc()
	s.steps.Add(res.Steps)
	if res.Cyclic {
		s.cyclic.Inc()
	}
	if res.Over > 0 {
		s.overCyclic.Inc()
	}
	s.mu.Lock()
	if res.MaxWalk > s.maxWalk {
		s.maxWalk = res.MaxWalk
	}
	if res.MaxInvoc > s.maxInvoc {
		s.maxInvoc = res.MaxInvoc
	}
	if res.MaxTry > s.maxTry {
		s.maxTry = res.MaxTry
	}
	s.mu.Unlock()
}

func gasClass(part string, c cfg, need int64) string {
	g := "limit"
	switch {
	case c.Gas < 0:
		g = "unlimited"
	case need >= 0 && c.Gas == need:
		g = "need"
	case need >= 0 && c.Gas == need-1:
		g = "need-1"
	case c.Gas <= 3:
		g = fmt.Sprintf("limit%d", c.Gas)
	}
	m := "step"
	if c.UseRun {
		m = "run"
	}
	return part + "/" + m + "/" + g
}

// report files a finding under its class (what failed : at which instruction on
// which operand types). Many inputs usually hit the same defect, so only the
// smallest input of each class (shortest script, then lexicographic) becomes a
// violation, at the end of the run (flush); the others are counted. The key is
// <what>:<site>:<part>:<input>:<gas>, so a known finding can be listed as
// "<what>:<site>:*".
func (s *stats) report(part, name string, macros []string, script []byte, c cfg, correct bool, res *result) {
	if res.F == nil {
		return
	}
	id := name
	if id == "" {
		id = hex.EncodeToString(script)
	}
	g := fmt.Sprintf("gas=%d", c.Gas)
	if c.Gas < 0 {
		g = "gas=unlimited"
	}
	if c.UseRun {
		g += ":run"
	}
	class := res.F.Kind + ":" + res.F.Site
	key := fmt.Sprintf("%s:%s:%s:%s", class, part, id, g)
	rec := replayRec{Part: part, Name: name, Macros: macros, Script: hex.EncodeToString(script), Cfg: c, Correct: correct,
		Finding: res.F, State: res.State, Steps: res.Steps, Gas: res.Gas, OwnPico: res.OwnPico, Err: res.Err, Disasm: disasm(script)}
	s.mu.Lock()
	defer s.mu.Unlock()
	if s.found == nil {
		s.found = map[string]*pending{}
	}
	p := s.found[class]
	if p == nil {
		p = &pending{}
		s.found[class] = p
	}
	p.n++
	if p.key == "" || len(script) < p.size || (len(script) == p.size && key < p.key) {
		p.key, p.size, p.rec = key, len(script), rec
	}
}

type pending struct {
	key  string
	size int
	rec  replayRec
	n    int
}

// flush turns the smallest input of every class into a violation.
func (s *stats) flush() map[string]int {
	s.mu.Lock()
	defer s.mu.Unlock()
	var cs []string
	for c := range s.found {
		cs = append(cs, c)
	}
	sort.Strings(cs)
	more := map[string]int{}
	for _, c := range cs {
		p := s.found[c]
		s.r.Violation(p.key, p.rec)
		more[c] = p.n
	}
	return more
}

// fullCheck executes one script under every gas configuration.
// stepAll=false: the finite limits are executed with Run() only when the
// unlimited run was long (the per-step oracle has seen the same instruction
// sequence already: a run under a lower limit is a prefix of it).
func (s *stats) fullCheck(part, name string, macros []string, script []byte, base int64, budget int, w *walker, opts execOpts, light bool) (r0 result) {
	bounds, decoded := boundaries(script)
	correct := scparser.IsScriptCorrect(script, nil) == nil
	if !correct && part == "deep" {
		s.deepNotStatic.Inc()
	}
	if correct {
		s.correct.Inc()
		if !decoded {
			s.decoderDiff.Inc()
		} else {
			opts.bounds = bounds
		}
	}
	opts.w = w
	c0 := cfg{Gas: -1, Base: base, MaxSteps: budget}
	r0 = exec(script, c0, opts)
	s.note(&r0)
	s.report(part, name, macros, script, c0, correct, &r0)
	s.r.Outcome(gasClass(part, c0, -1) + "->" + r0.State)
	opts.mark, opts.onMark = -1, nil
	var limits []int64
	need := int64(-1)
	if r0.State == "HALT" || r0.State == "FAULT" {
		need = (r0.OwnPico + picoPerDat - 1) / picoPerDat
		limits = []int64{0, 1, 3, need - 1, need}
		if light {
			limits = []int64{need - 1, need}
		}
	} else {
		limits = []int64{0, 1, 3, 50}
	}
	sort.Slice(limits, func(i, j int) bool { return limits[i] < limits[j] })
	prev := int64(-1)
	for _, l := range limits {
		if l < 0 || l == prev {
			continue
		}
		prev = l
		var rs result
		stepped := (r0.Steps <= 3000 && !light) || need < 0
		if stepped {
			c := cfg{Gas: l, Base: base, MaxSteps: budget}
			rs = exec(script, c, opts)
			s.note(&rs)
			if rs.State == "BUDGET" && rs.F == nil {
				rs.F = &finding{Kind: "no-termination-under-finite-gas", Step: rs.Steps, Msg: fmt.Sprintf("%d instructions executed under a limit of %d datoshi", rs.Steps, l)}
			}
			s.report(part, name, macros, script, c, correct, &rs)
			s.r.Outcome(gasClass(part, c, need) + "->" + rs.State)
		}
		if stepped && rs.State != "HALT" && rs.State != "FAULT" {
			continue // never call Run() on something that did not stop when stepped
		}
		c := cfg{Gas: l, Base: base, MaxSteps: budget, UseRun: true}
		rr := exec(script, c, opts)
		s.execs.Inc()
		s.report(part, name, macros, script, c, correct, &rr)
		s.r.Outcome(gasClass(part, c, need) + "->" + rr.State)
		if stepped && (rr.State != rs.State || rr.Gas != rs.Gas) {
			s.runStepDiff.Inc()
		}
	}
	s.sigs.Add(fmt.Sprintf("%s/%d/%d/%d/%d/%d", r0.State, r0.Steps, r0.Gas, r0.MaxWalk, r0.MaxInvoc, r0.MaxTry))
	return r0
}

// ---- raw part -------------------------------------------------------------------

func rawPart(s *stats, maxLen int) (scripts int64) {
	const budget = 20000
	var n vk.Counter
	one := func(w *walker, script []byte) {
		r0 := s.fullCheck("raw", "", nil, script, rawBase, budget, w, execOpts{mark: -1}, false)
		n.Inc()
		if len(script) <= 1 || r0.MaxWalk >= limItems || r0.MaxInvoc >= limInvoc {
			s.r.Sample(map[string]any{"part": "raw", "script": hex.EncodeToString(script), "unlimited": r0.State, "steps": r0.Steps, "gas": r0.Gas, "max_walk": r0.MaxWalk, "max_invocations": r0.MaxInvoc})
		}
	}
	// lengths 0..2: one shard per first byte; length 3: one shard per two first bytes.
	w0 := newWalker()
	one(w0, []byte{})
	s.r.Parallel(256, func(i int) {
		w := newWalker()
		one(w, []byte{byte(i)})
		if maxLen >= 2 {
			for j := 0; j < 256; j++ {
				one(w, []byte{byte(i), byte(j)})
			}
		}
	})
	if maxLen >= 3 {
		s.r.Parallel(65536, func(i int) {
			w := newWalker()
			for k := 0; k < 256; k++ {
				if k%64 == 0 && s.r.Expired() {
					return
				}
				one(w, []byte{byte(i >> 8), byte(i), byte(k)})
			}
		})
	}
	return n.Get()
}

// ---- main -----------------------------------------------------------------------

func TestCheck(t *testing.T) {
	r := vk.Start("C12", "model_checking", 150*time.Second, 24*time.Minute)
	r.SetSampleCap(16)
	s := &stats{r: r, sigs: vk.NewSet()}
	if r.Replay != "" {
		replay(r, s)
		return
	}
	rawLen := vk.Pick(r, 2, 3)
	depth := vk.Pick(r, 5, 6)

	t0 := time.Now()
	nLimit, limitMiss := limitsPart(s)
	tLimits := time.Since(t0).Seconds()

	t0 = time.Now()
	nRaw := rawPart(s, rawLen)
	tRaw := time.Since(t0).Seconds()
	rawCorrect := s.correct.Get()

	t0 = time.Now()
	d := deepPart(s, depth)
	tDeep := time.Since(t0).Seconds()

	fmt.Printf("C12 %s: limits %d programs %.1fs | raw len<=%d %d scripts %.1fs | deep L=%d levels=%v states=%d programs=%d %.1fs | execs=%d steps=%d\n",
		r.Tier, nLimit, tLimits, rawLen, nRaw, tRaw, depth, d.levelSizes, d.states, d.programs, tDeep, s.execs.Get(), s.steps.Get())

	inputsPerClass := s.flush()
	r.Finish(map[string]any{
		"failing_inputs_per_class":      inputsPerClass,
		"states":                        d.states + s.sigs.Len(),
		"transitions":                   int(s.steps.Get()),
		"traces_validated_against_impl": int(s.execs.Get()),
		"rule":                          "states = distinct canonical machine states of the deep part (stacks, slots, compound graph with sharing, try/call brackets, hidden counters) + distinct run signatures elsewhere; transitions = VM instructions executed with the full oracle after each; traces = executions on the real VM",
		"raw_max_length":                rawLen,
		"raw_scripts":                   int(nRaw),
		"raw_scripts_passing_static":    int(rawCorrect),
		"raw_gas_limits":                "unlimited, 0, 1, 3, need-1, need (datoshi; base price 1.2345 datoshi per unit), each stepped and with Run()",
		"limit_programs":                nLimit,
		"limit_programs_missing_target": limitMiss,
		"deep_depth":                    depth,
		"deep_alphabet":                 len(macros),
		"deep_level_sizes_after_merge":  d.levelSizes,
		"deep_candidates_per_level":     d.levelCands,
		"deep_programs_executed":        d.programs,
		"deep_programs_faulted":         d.faulted,
		"deep_mark_missed":              d.markMissed,
		"deep_programs_failing_static":  int(s.deepNotStatic.Get()),
		"deep_states_with_sharing":      d.shared,
		"deep_states_after_cycle":       d.cyclic,
		"deep_states_in_call":           d.inCall,
		"deep_states_in_try":            d.inTry,
		"deep_witness_sequences":        d.witness,
		"scripts_passing_static_check":  int(s.correct.Get()),
		"runs_with_cycle":               int(s.cyclic.Get()),
		"runs_vm_counter_above_walk":    int(s.overCyclic.Get()),
		"run_vs_step_differences":       int(s.runStepDiff.Get()),
		"own_decoder_vs_static_check":   int(s.decoderDiff.Get()),
		"max_reachable_items_seen":      s.maxWalk,
		"max_invocation_depth_seen":     s.maxInvoc,
		"max_try_depth_seen":            s.maxTry,
		"wall_limits_raw_deep_s":        []float64{tLimits, tRaw, tDeep},
	}, []string{
		"one script per VM, loaded with vm.Load, no syscall handler and no CALLT tokens (SYSCALL/CALLT fault): contexts of other scripts, whose evaluation stacks are separate, are not reached",
		"unlimited gas (limit -1) may legitimately not terminate; such runs stop at the instruction budget and are then re-run under finite limits only",
		"BREAK cannot occur: the harness sets no breakpoints; any state other than NONE/HALT/FAULT after a step is reported",
		"the exactness assertion (VM counter == walk) is switched off for the rest of a run once an APPEND/SETITEM inserts an item from which the container is reachable",
		"the offset len(script), where the implicit RET is executed, counts as an instruction boundary",
		"unexported state read by the harness: Context.tryStack (length only); rc.count of compounds is read for state merging only, never asserted",
	})
}

func replay(r *vk.Run, s *stats) {
	var c replayRec
	if err := r.ReadReplay(&c); err != nil {
		fmt.Println("cannot read replay:", err)
		r.Finish(map[string]any{"states": 1, "transitions": 1, "traces_validated_against_impl": 0}, nil)
	}
	script, err := hex.DecodeString(c.Script)
	if err != nil {
		fmt.Println("bad script in replay:", err)
		r.Finish(map[string]any{"states": 1, "transitions": 1, "traces_validated_against_impl": 0}, nil)
	}
	bounds, decoded := boundaries(script)
	correct := scparser.IsScriptCorrect(script, nil) == nil
	o := execOpts{mark: -1}
	if correct && decoded {
		o.bounds = bounds
	}
	outs := map[string]int{}
	steps := 0
	for i := 0; i < 5; i++ {
		res := exec(script, c.Cfg, o)
		steps += res.Steps
		k := "clean:" + res.State
		if res.F != nil {
			k = fmt.Sprintf("%s at step %d ip %d %s: %s", res.F.Kind, res.F.Step, res.F.IP, res.F.Op, res.F.Msg)
			s.report(c.Part, c.Name, c.Macros, script, c.Cfg, correct, &res)
		}
		outs[k]++
	}
	var ks []string
	for k, n := range outs {
		ks = append(ks, fmt.Sprintf("%dx %s", n, k))
	}
	s.flush()
	sort.Strings(ks)
	fmt.Printf("replayed %s %s (%s) gas=%d 5x:\n  %s\n%s", c.Part, c.Name, c.Script, c.Cfg.Gas, strings.Join(ks, "\n  "), disasm(script))
	r.Finish(map[string]any{"states": 1, "transitions": steps + 1, "traces_validated_against_impl": 5}, nil)
}
