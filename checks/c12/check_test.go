// C12: the VM is total, bounded and memory-safe on every script
// (DESIGN.md section 4, C12). Bounded exhaustive exploration on the real VM:
//
//	raw    all byte strings up to length 2 (quick) / 3 (thorough), each under the
//	       gas limits {unlimited, 0, 1, 3, need-1, need}, stepped and with Run();
//	limits hand-written loop programs that drive every limit of the property to
//	       its edge and one past it, and a matrix of integer operations at the
//	       256-bit boundary;
//	xscript caller programs (TRY/CATCH/FINALLY around loading another script,
//	       repeated) x callee programs (statics, nested calls, THROW/RET, a
//	       third script), loaded by a harness SYSCALL handler (xscript_test.go);
//	xfer   every offset-carrying opcode (JMP*, CALL*, PUSHA, TRY*: both offsets,
//	       ENDTRY*) x every way of making the transfer live x every target byte
//	       offset (before 0 .. past the end, inside every kind of operand) x every
//	       position among the filler instructions, on scripts padded to a multiple
//	       of 64 bytes; pointers handed across scripts (xfer_test.go);
//	gasedge programs around SYSCALLs whose handler charges through AddDatoshi /
//	       AddPicoGas, under four price configurations (none, all-zero, 1.0001, 30
//	       datoshi per unit) and the limits 0, 1, 3, need-1, need (gasedge_test.go);
//	trunc  every opcode with an operand cut off by the end of the script at every
//	       byte (trunc_test.go);
//	deep   all sequences up to length L (5 quick, 6 thorough) over an alphabet
//	       of 76 macro instructions that type-check against the observed
//	       machine state (breadth first, merged by canonical machine state
//	       incl. hidden counters), and a second pass over a 34-macro core
//	       alphabet up to length 6 (quick) / 7 (thorough). If time is left
//	       the thorough tier then tries one level more in each alphabet
//	       (optional: reported, but not part of the stated bounds).
//
// After EVERY instruction the machine is walked independently (oracle_test.go).
package c12

import (
	"encoding/hex"
	"fmt"
	"os"
	"sort"
	"strconv"
	"strings"
	"sync"
	"testing"
	"time"

	"github.com/nspcc-dev/neo-go/pkg/smartcontract/scparser"
	"github.com/nspcc-dev/neo-go/pkg/util"
	"github.com/nspcc-dev/neo-go/pkg/util/bitfield"

	"verif/lib/vk"
)

const (
	rawBase  = 10001  // picoGAS per price unit in the raw part: prices are not whole datoshi, so rounding matters, and a one-unit script misses a limit of 1 datoshi by exactly one picoGAS
	deepBase = 300000 // the network default (30 datoshi per unit) elsewhere
)

// replayRec is the detail of a violation and the input of --replay.
type replayRec struct {
	Part    string      `json:"part"`
	Name    string      `json:"name,omitempty"`
	Macros  []string    `json:"macros,omitempty"`
	Script  string      `json:"script_hex"`
	Cfg     cfg         `json:"cfg"`
	Correct bool        `json:"passes_IsScriptCorrect"`
	Finding *finding    `json:"finding"`
	State   string      `json:"final_state"`
	Steps   int         `json:"steps"`
	Gas     int64       `json:"gas_consumed_datoshi"`
	OwnPico int64       `json:"executed_prices_picogas"`
	Err     string      `json:"vm_error,omitempty"`
	Disasm  string      `json:"disasm,omitempty"`
	Handler bool        `json:"harness_syscall_handler,omitempty"`
	Loaded  []loadRec   `json:"loadable_scripts,omitempty"` // xscript part: what the harness's SYSCALL handler loads (index = low byte of the syscall id)
	Sys     *sysLiteral `json:"syscalls_case,omitempty"`    // syscalls part: the case as a worker subprocess runs it
}

type loadRec struct {
	Script    string `json:"script_hex"`
	Hash      string `json:"hash_le"`
	Disasm    string `json:"disasm"`
	NefScript string `json:"nef_style_script_hex,omitempty"` // what modes 3/4 (LoadNEFMethod) load
	NefHash   string `json:"nef_style_hash_le,omitempty"`
	MethodOff int    `json:"nef_style_method_offset,omitempty"`
}

// local: per-worker counters (kept in the worker's walker, merged under the
// lock when the worker's shard is done).
type ocKey struct {
	part  string
	run   bool
	gas   string
	state string
}

type local struct {
	execs, steps, correct, cyclic, over, runStepDiff, deepNotStatic, decoderDiff, notes, methodOffsets int64
	maxWalk, maxInvoc, maxTry                                                                          int
	outcomes                                                                                           map[ocKey]int64
	sigs                                                                                               map[string]struct{}
}

type stats struct {
	r     *vk.Run
	mu    sync.Mutex
	tot   local
	found map[string]*pending
}

func newStats(r *vk.Run) *stats {
	return &stats{r: r, tot: local{outcomes: map[ocKey]int64{}, sigs: map[string]struct{}{}}}
}

func (l *local) note(res *result) {
	l.execs++
	l.notes += int64(res.Notes)
	l.steps += int64(res.Steps)
	if res.Cyclic {
		l.cyclic++
	}
	if res.Over > 0 {
		l.over++
	}
	if res.MaxWalk > l.maxWalk {
		l.maxWalk = res.MaxWalk
	}
	if res.MaxInvoc > l.maxInvoc {
		l.maxInvoc = res.MaxInvoc
	}
	if res.MaxTry > l.maxTry {
		l.maxTry = res.MaxTry
	}
}

func (l *local) outcome(part string, c cfg, need int64, state string) {
	if l.outcomes == nil {
		l.outcomes = map[ocKey]int64{}
	}
	l.outcomes[ocKey{part, c.UseRun, gasClass(c, need), state}]++
}

// merge adds a worker's counters to the totals and resets them.
func (s *stats) merge(w *walker) {
	l := &w.loc
	s.mu.Lock()
	t := &s.tot
	t.execs += l.execs
	t.steps += l.steps
	t.correct += l.correct
	t.cyclic += l.cyclic
	t.over += l.over
	t.runStepDiff += l.runStepDiff
	t.deepNotStatic += l.deepNotStatic
	t.decoderDiff += l.decoderDiff
	t.notes += l.notes
	t.methodOffsets += l.methodOffsets
	t.maxWalk = max(t.maxWalk, l.maxWalk)
	t.maxInvoc = max(t.maxInvoc, l.maxInvoc)
	t.maxTry = max(t.maxTry, l.maxTry)
	for k, n := range l.outcomes {
		t.outcomes[k] += n
	}
	for k := range l.sigs {
		t.sigs[k] = struct{}{}
	}
	s.mu.Unlock()
	*l = local{}
}

func gasClass(c cfg, need int64) string {
	switch {
	case c.Gas < 0:
		return "unlimited"
	case need >= 0 && c.Gas == need:
		return "need"
	case need >= 0 && c.Gas == need-1:
		return "need-1"
	case c.Gas <= 3:
		return "limit" + string(rune('0'+c.Gas))
	}
	return "limit"
}

func (s *stats) outcomeMap() map[string]int64 {
	o := map[string]int64{}
	for k, n := range s.tot.outcomes {
		m := "step"
		if k.run {
			m = "run"
		}
		o[k.part+"/"+m+"/"+k.gas+"->"+k.state] = n
	}
	return o
}

// report files a finding under its class (what failed : at which instruction on
// which operand types). Many inputs usually hit the same defect, so only the
// smallest input of each class (shortest script, then lexicographic) becomes a
// violation, at the end of the run (flush); the others are counted. The key is
// <what>:<site>:<part>:<input>:<gas>, so a known finding can be listed as
// "<what>:<site>:*".
func (s *stats) report(part, name string, macros []string, script []byte, c cfg, correct bool, res *result, tbl []loaded) {
	if res.F == nil {
		return
	}
	id := name
	if id == "" {
		id = hex.EncodeToString(script)
	}
	g := fmt.Sprintf("gas=%d", c.Gas)
	if c.Gas < 0 {
		g = "gas=unlimited"
	}
	if c.UseRun {
		g += ":run"
	}
	class := res.F.Kind + ":" + res.F.Site
	key := fmt.Sprintf("%s:%s:%s:%s", class, part, id, g)
	if part == "xscript-leftover" { // a family of its own: its findings must not stand in for (or hide behind) those of other parts
		class += ":" + part
	}
	rec := replayRec{Part: part, Name: name, Macros: macros, Script: hex.EncodeToString(script), Cfg: c, Correct: correct,
		Finding: res.F, State: res.State, Steps: res.Steps, Gas: res.Gas, OwnPico: res.OwnPico, Err: res.Err, Disasm: disasm(script)}
	rec.Handler = tbl != nil
	for _, l := range tbl {
		lr := loadRec{Script: hex.EncodeToString(l.script), Hash: l.hash.StringLE(), Disasm: disasm(l.script)}
		if l.nefScript != nil {
			lr.NefScript, lr.NefHash, lr.MethodOff = hex.EncodeToString(l.nefScript), l.nefHash.StringLE(), l.methodOff
		}
		rec.Loaded = append(rec.Loaded, lr)
	}
	s.mu.Lock()
	defer s.mu.Unlock()
	if s.found == nil {
		s.found = map[string]*pending{}
	}
	p := s.found[class]
	if p == nil {
		p = &pending{}
		s.found[class] = p
	}
	p.n++
	if p.key == "" || len(script) < p.size || (len(script) == p.size && key < p.key) {
		p.key, p.size, p.rec = key, len(script), rec
	}
}

type pending struct {
	key  string
	size int
	rec  replayRec
	n    int
}

// flush turns the smallest input of every class into a violation.
func (s *stats) flush() map[string]int {
	s.mu.Lock()
	defer s.mu.Unlock()
	var cs []string
	for c := range s.found {
		cs = append(cs, c)
	}
	sort.Strings(cs)
	more := map[string]int{}
	for _, c := range cs {
		p := s.found[c]
		s.r.Violation(p.key, p.rec)
		more[c] = p.n
	}
	return more
}

// fullCheck executes one script under every gas configuration: unlimited with
// the per-step oracle, then the finite limits {0, 1, 3, need-1, need} (need =
// what the unlimited run consumed), each stepped and with one Run() call.
// light (deep part): only need-1 and need, with Run().
// A run under a lower limit executes a prefix of the same instruction sequence,
// so long runs (> 3000 instructions) are repeated with Run() only, and a
// script that faults on its very first instruction only under limit 0.
func (s *stats) fullCheck(part, name string, macros []string, script []byte, base int64, budget int, w *walker, opts execOpts, light bool) (r0 result) {
	return s.fullCheckT(part, name, macros, script, cfg{Base: base, MaxSteps: budget}, w, opts, light)
}

// fullCheckCfg: light variant with a configuration template (hardforks, reuse).
func (s *stats) fullCheckCfg(part, name string, script []byte, tmpl cfg, w *walker, opts execOpts) result {
	return s.fullCheckT(part, name, nil, script, tmpl, w, opts, true)
}

func (s *stats) fullCheckT(part, name string, macros []string, script []byte, tmpl cfg, w *walker, opts execOpts, light bool) (r0 result) {
	base, budget := tmpl.Base, tmpl.MaxSteps
	_, _ = base, budget
	l := &w.loc
	bounds, decoded := boundaries(script)
	correct := s.staticOK(part, name, script, opts.tbl)
	if !correct && part == "deep" {
		l.deepNotStatic++
	}
	if correct {
		l.correct++
		if !decoded {
			l.decoderDiff++
		} else {
			opts.bounds = bounds
		}
	}
	opts.w = w
	c0 := tmpl
	c0.Gas, c0.UseRun = -1, false
	r0 = exec(script, c0, opts)
	l.note(&r0)
	s.report(part, name, macros, script, c0, correct, &r0, opts.tbl)
	l.outcome(part, c0, -1, r0.State)
	opts.mark, opts.onMark = -1, nil
	var limits [5]int64
	nl := 0
	need := int64(-1)
	switch {
	case r0.State == "FAULT" && r0.Steps <= 1:
		need = (r0.OwnPico + picoPerDat - 1) / picoPerDat
		limits[0], nl = 0, 1
	case r0.State == "HALT" || r0.State == "FAULT":
		need = (r0.OwnPico + picoPerDat - 1) / picoPerDat
		if light && opts.lowLimits {
			limits = [5]int64{0, 1, need - 1, need}
			nl = 4
			sort.Slice(limits[:nl], func(i, j int) bool { return limits[i] < limits[j] })
		} else if light {
			limits[0], limits[1], nl = need-1, need, 2
		} else {
			limits = [5]int64{0, 1, 3, need - 1, need}
			nl = 5
			sort.Slice(limits[:], func(i, j int) bool { return limits[i] < limits[j] })
		}
	default:
		limits = [5]int64{0, 1, 3, 50}
		nl = 4
	}
	prev := int64(-1)
	for _, lim := range limits[:nl] {
		if lim < 0 || lim == prev {
			continue
		}
		prev = lim
		var rs result
		stepped := (r0.Steps <= 3000 && !light) || need < 0
		if stepped {
			c := c0
			c.Gas = lim
			rs = exec(script, c, opts)
			l.note(&rs)
			if rs.State == "BUDGET" && rs.F == nil && (c.Base > 0 || opts.charges) { // without priced instructions nothing bounds a loop
				rs.F = &finding{Kind: "no-termination-under-finite-gas", Site: "at-end", Step: rs.Steps, Msg: fmt.Sprintf("%d instructions executed under a limit of %d datoshi", rs.Steps, lim)}
			}
			s.report(part, name, macros, script, c, correct, &rs, opts.tbl)
			l.outcome(part, c, need, rs.State)
		}
		if stepped && rs.State != "HALT" && rs.State != "FAULT" {
			continue // never call Run() on something that did not stop when stepped
		}
		c := c0
		c.Gas, c.UseRun = lim, true
		rr := exec(script, c, opts)
		l.execs++
		l.notes += int64(rr.Notes)
		s.report(part, name, macros, script, c, correct, &rr, opts.tbl)
		l.outcome(part, c, need, rr.State)
		if stepped && (rr.State != rs.State || rr.Gas != rs.Gas) {
			l.runStepDiff++
		}
	}
	if l.sigs == nil {
		l.sigs = map[string]struct{}{}
	}
	var sig [64]byte
	b := append(sig[:0], r0.State...)
	for _, x := range [...]int64{int64(r0.Steps), r0.Gas, int64(r0.MaxWalk), int64(r0.MaxInvoc), int64(r0.MaxTry)} {
		b = append(b, '/')
		b = strconv.AppendInt(b, x, 10)
	}
	if _, ok := l.sigs[string(b)]; !ok {
		l.sigs[string(b)] = struct{}{}
	}
	return r0
}

// staticCheck calls IsScriptCorrect and recovers a Go panic (its contract: "it
// returns nil, but it can return some specific error").
func staticCheck(script []byte, methods bitfield.Field) (err error, pan any) {
	defer func() {
		if r := recover(); r != nil {
			pan = r
		}
	}()
	return scparser.IsScriptCorrect(script, methods), nil
}

// staticOK: did the script pass the static check; a panic of the check is reported.
func (s *stats) staticOK(part, name string, script []byte, tbl []loaded) bool {
	err, pan := staticCheck(script, nil)
	if pan != nil {
		res := result{State: "STATIC", F: &finding{Kind: "static-check-panics", Site: "IsScriptCorrect", IP: -1, Msg: fmt.Sprint(pan)}}
		s.report(part, name, nil, script, cfg{}, false, &res, tbl)
		return false
	}
	return err == nil
}

// methodsCheck: IsScriptCorrect with a method offset accepts the script only if
// that offset is an instruction boundary by the harness's own decoding (entry
// points are where execution starts, so this is the static half of "never
// executes an offset that is not a boundary"). Every offset alone, together
// with offset 0, and together with all real boundaries.
func (s *stats) methodsCheck(w *walker, part, name string, script []byte) {
	if len(script) == 0 || !s.staticOK(part, name, script, nil) {
		return
	}
	bounds, ok := boundaries(script)
	if !ok {
		return
	}
	for k := range script {
		for set := 0; set < 3; set++ {
			if set > 0 && len(script) <= 3 {
				break
			}
			m := bitfield.New(len(script))
			m.Set(k)
			switch set {
			case 1:
				m.Set(0)
			case 2:
				for i := range script {
					if bounds[i] {
						m.Set(i)
					}
				}
			}
			err, pan := staticCheck(script, m)
			accepted := err == nil && pan == nil
			w.loc.methodOffsets++
			if pan != nil {
				res := result{State: "STATIC", F: &finding{Kind: "static-check-panics", Site: "IsScriptCorrect-methods", IP: k, Msg: fmt.Sprint(pan)}}
				s.report(part, name, nil, script, cfg{}, true, &res, nil)
			} else if accepted && !bounds[k] {
				res := result{State: "STATIC", F: &finding{Kind: "static-check-accepts-method-offset-inside-an-instruction", Site: "IsScriptCorrect", IP: k,
					Msg: fmt.Sprintf("method offset %d accepted (method set kind %d), but it is not an instruction boundary", k, set)}}
				s.report(part, name, nil, script, cfg{}, true, &res, nil)
			} else if !accepted && bounds[k] {
				w.loc.notes++ // stricter than needed: not a property violation
			}
		}
	}
}

// ---- raw part -------------------------------------------------------------------

func rawPart(s *stats, from, to int) (scripts int64) {
	const budget = 20000
	var n vk.Counter
	one := func(w *walker, script []byte) {
		r0 := s.fullCheck("raw", "", nil, script, rawBase, budget, w, execOpts{mark: -1}, false)
		n.Inc()
		s.methodsCheck(w, "raw", "", script)
		if len(script) <= 1 || r0.MaxWalk >= limItems || r0.MaxInvoc >= limInvoc {
			s.r.Sample(map[string]any{"part": "raw", "script": hex.EncodeToString(script), "unlimited": r0.State, "steps": r0.Steps, "gas": r0.Gas, "max_walk": r0.MaxWalk, "max_invocations": r0.MaxInvoc})
		}
	}
	// lengths 0..2: one shard per first byte; length 3: one shard per two first bytes.
	if from <= 0 {
		w0 := newWalker()
		one(w0, []byte{})
		s.merge(w0)
	}
	if from <= 2 && to >= 1 {
		s.r.Parallel(256, func(i int) {
			w := newWalker()
			one(w, []byte{byte(i)})
			if to >= 2 {
				for j := 0; j < 256; j++ {
					one(w, []byte{byte(i), byte(j)})
				}
			}
			s.merge(w)
		})
	}
	if to == 2 { // quick: the three-byte scripts that are one TRY instruction (every pair of catch/finally offsets)
		s.r.Parallel(256, func(i int) {
			w := newWalker()
			for k := 0; k < 256; k++ {
				one(w, []byte{0x3B, byte(i), byte(k)})
			}
			s.merge(w)
		})
	}
	if from <= 3 && to >= 3 {
		s.r.Parallel(65536, func(i int) {
			w := newWalker()
			for k := 0; k < 256; k++ {
				if k%64 == 0 && s.r.Expired() {
					break
				}
				one(w, []byte{byte(i >> 8), byte(i), byte(k)})
			}
			s.merge(w)
		})
	}
	return n.Get()
}

// ---- main -----------------------------------------------------------------------

func TestCheck(t *testing.T) {
	vk.UseT(t)
	if os.Getenv(sysEnvVar) != "" || os.Getenv(sysCaseVar) != "" { // a worker subprocess of the syscalls part
		if code := sysWorkerMain(); code != 0 {
			os.Exit(code)
		}
		return
	}
	r := vk.Start("C12", "model_checking", 150*time.Second, 24*time.Minute)
	r.SetSampleCap(16)
	s := newStats(r)
	if r.Replay != "" {
		replay(r, s)
		return
	}
	rawLen := vk.Pick(r, 2, 3)
	depth := vk.Pick(r, 5, 6)
	coreDepth := vk.Pick(r, 6, 7)
	start := time.Now()
	budget := vk.Pick(r, 150*time.Second, 24*time.Minute)
	if b, err := strconv.Atoi(os.Getenv("VERIF_BUDGET_S")); err == nil {
		budget = time.Duration(b) * time.Second
	}
	must := &sched{r: r}

	if os.Getenv("VERIF_C12_ONLY") == "syscalls" { // development aid: this part alone (never exhaustive)
		sy := syscallsPart(s)
		fmt.Printf("C12 %s: syscalls %d cases %v in %d worker processes (%d restarts, %d process deaths): %d interops/native methods, %d outcome classes %v, under limits %v, goroutines left %d, cpu %.1fs wall %.1fs\n",
			r.Tier, sy.cases, sy.fams, sy.workers, sy.restarts, sy.deaths, sy.targets, sy.classes, sy.famClasses, sy.limStates, sy.gorLeft, sy.cpu.Seconds(), sy.wall)
		r.Capped()
		more := s.flush()
		r.Finish(map[string]any{"failing_inputs_per_class": more, "states": len(s.tot.sigs) + 1, "transitions": int(s.tot.steps) + 1, "traces_validated_against_impl": int(s.tot.execs) + 1, "outcomes": s.outcomeMap()}, nil)
	}

	// Mandatory passes; what the quick tier does comes first, so a thorough run
	// that hits its deadline on a busy machine still contains the quick one.
	t0 := time.Now()
	nLimit, limitMiss := limitsPart(s)
	tLimits := time.Since(t0).Seconds()

	t0 = time.Now()
	xo := xscriptPart(s, vk.Pick(r, []int{1, 2, 9}, []int{1, 2, 3, 4, 5, 6, 7, 8, 9}))
	tX := time.Since(t0).Seconds()

	t0 = time.Now()
	xf := xferPart(s)
	tXfer := time.Since(t0).Seconds()

	t0 = time.Now()
	ge := gasedgePart(s)
	tGas := time.Since(t0).Seconds()

	t0 = time.Now()
	nTrunc, truncDecodable := truncPart(s)
	tTrunc := time.Since(t0).Seconds()

	t0 = time.Now()
	nMatrix := opmatrixPart(s)
	tMatrix := time.Since(t0).Seconds()

	t0 = time.Now()
	nRaw := rawPart(s, 0, 2)
	tRaw := time.Since(t0).Seconds()

	sy := syscallsPart(s)

	t0 = time.Now()
	d := deepPart(s, must, depth, alphabetMask(nil), true)
	tDeep := time.Since(t0).Seconds()

	t0 = time.Now()
	dc := deepPart(s, must, coreDepth, alphabetMask(coreAlphabet), false)
	tCore := time.Since(t0).Seconds()

	if rawLen >= 3 {
		t0 = time.Now()
		nRaw += rawPart(s, 3, 3)
		tRaw += time.Since(t0).Seconds()
	}
	fmt.Printf("C12 %s: xscript %d callers x %d callees (+specials) = %d programs %.1fs | opmatrix %d programs %.1fs\n", r.Tier, xo.callers, xo.callees, xo.programs, tX, nMatrix, tMatrix)
	fmt.Printf("C12 %s: xfer %d variants x %d layouts = %d programs (%d accepted by the static check, %d of them with a target inside an instruction, %d distinct outcomes) + xptr %d programs %.1fs | gasedge %d programs %.1fs | trunc %d programs (%d complete) %.1fs\n",
		r.Tier, xf.variants, xf.layouts/xf.variants, xf.programs, xf.accepted, xf.acceptedBad, xf.outcomes, xf.xptrPrograms, tXfer, ge.programs, tGas, nTrunc, truncDecodable, tTrunc)
	fmt.Printf("C12 %s: syscalls %d cases %v in %d worker processes (%d restarts, %d process deaths): %d interops/native methods, %d outcome classes %v, under limits %v, cpu %.1fs wall %.1fs\n",
		r.Tier, sy.cases, sy.fams, sy.workers, sy.restarts, sy.deaths, sy.targets, sy.classes, sy.famClasses, sy.limStates, sy.cpu.Seconds(), sy.wall)
	fmt.Printf("C12 %s: limits %d programs %.1fs | raw len<=%d %d scripts %.1fs | deep L=%d levels=%v states=%d programs=%d %.1fs | core L=%d levels=%v states=%d programs=%d %.1fs | execs=%d steps=%d\n",
		r.Tier, nLimit, tLimits, rawLen, nRaw, tRaw, depth, d.levelSizes, d.states, d.programs, tDeep, coreDepth, dc.levelSizes, dc.states, dc.programs, tCore, s.tot.execs, s.tot.steps)

	// Optional deepening (thorough only): one level more in each alphabet, as
	// far as the time left allows. It does not change the stated bounds and
	// never marks the run as capped; the evidence says how far it got.
	extra := map[string]any{}
	if r.Thorough() && !r.IsCapped() {
		for _, x := range []struct {
			name  string
			L     int
			names []string
		}{{"core", coreDepth + 1, coreAlphabet}, {"deep", depth + 1, nil}} {
			opt := &sched{r: r, soft: start.Add(budget * 9 / 10)}
			if opt.expired() {
				break
			}
			t0 = time.Now()
			o := deepPart(s, opt, x.L, alphabetMask(x.names), false)
			extra[x.name] = map[string]any{"target_depth": x.L, "complete_to_depth": o.completeDepth, "candidates_per_level": o.levelCands,
				"level_sizes_after_merge": o.levelSizes, "programs_executed": o.programs, "states": o.states, "wall_s": time.Since(t0).Seconds()}
			fmt.Printf("C12 %s: optional %s pass to L=%d: complete to %d, programs=%d, %.1fs\n", r.Tier, x.name, x.L, o.completeDepth, o.programs, time.Since(t0).Seconds())
		}
	}

	inputsPerClass := s.flush()
	outcomes := s.outcomeMap()
	r.Finish(map[string]any{
		"failing_inputs_per_class":            inputsPerClass,
		"optional_deepening":                  extra,
		"states":                              d.states + dc.states + len(s.tot.sigs),
		"transitions":                         int(s.tot.steps),
		"traces_validated_against_impl":       int(s.tot.execs),
		"rule":                                "states = distinct canonical machine states of the deep passes (stacks, slots, compound graph with sharing, try/call brackets, hidden counters) + distinct run signatures elsewhere; transitions = VM instructions executed with the full oracle after each; traces = executions on the real VM",
		"distinct_outcomes":                   len(outcomes),
		"outcomes":                            outcomes,
		"raw_max_length":                      rawLen,
		"raw_scripts":                         int(nRaw),
		"raw_gas_limits":                      "unlimited, 0, 1, 3, need-1, need (datoshi; base price 1.0001 datoshi per unit), each stepped and with Run(); scripts faulting on their first instruction: unlimited and 0 only",
		"xscript_callers":                     xo.callers,
		"xscript_callees":                     xo.callees,
		"xscript_programs":                    xo.programs,
		"xscript_scripts_failing_static":      int(xo.notStatic),
		"xscript_wall_s":                      tX,
		"xfer_offset_opcodes":                 len(offsetOps),
		"xfer_other_immediate_opcodes_probed": xf.probedOps,
		"xfer_probe_runs":                     xf.probeRuns,
		"xfer_variants":                       xf.variants,
		"xfer_layouts":                        xf.layouts,
		"xfer_programs":                       xf.programs,
		"xfer_programs_by_target_class":       xf.byClass,
		"xfer_accepted_by_static_check":       xf.accepted,
		"xfer_accepted_with_target_inside_an_instruction": xf.acceptedBad,
		"xfer_distinct_outcomes":                          xf.outcomes,
		"xfer_method_offset_scripts":                      xf.methodScripts,
		"xptr_programs":                                   xf.xptrPrograms,
		"xfer_wall_s":                                     tXfer,
		"syscalls_cases":                                  sy.cases,
		"syscalls_cases_by_family":                        sy.fams,
		"syscalls_outcome_classes_by_family":              sy.famClasses,
		"syscalls_outcome_classes":                        sy.classes,
		"syscalls_interops_and_native_methods":            sy.targets,
		"syscalls_states_under_finite_limits":             sy.limStates,
		"syscalls_scripts_passing_static_check":           sy.static,
		"syscalls_worker_processes":                       sy.workers,
		"syscalls_worker_restarts":                        sy.restarts,
		"syscalls_process_deaths":                         sy.deaths,
		"syscalls_goroutines_left_after_wait":             sy.gorLeft,
		"syscalls_cpu_s":                                  sy.cpu.Seconds(),
		"syscalls_wall_s":                                 sy.wall,
		"gasedge_programs":                                ge.programs,
		"gasedge_price_configurations":                    ge.configs,
		"gasedge_unlimited_halt_fault":                    []int64{ge.halts, ge.faults},
		"gasedge_wall_s":                                  tGas,
		"trunc_programs":                                  nTrunc,
		"trunc_programs_decodable":                        int(truncDecodable),
		"trunc_wall_s":                                    tTrunc,
		"method_offset_checks":                            int(s.tot.methodOffsets),
		"limit_programs":                                  nLimit,
		"limit_programs_missing_target":                   limitMiss,
		"deep_depth":                                      depth,
		"deep_alphabet":                                   len(macros),
		"deep_level_sizes_after_merge":                    d.levelSizes,
		"deep_candidates_per_level":                       d.levelCands,
		"deep_programs_executed":                          d.programs,
		"deep_programs_not_halting":                       d.faulted + dc.faulted,
		"deep_mark_missed":                                d.markMissed + dc.markMissed,
		"deep_programs_failing_static":                    int(s.tot.deepNotStatic),
		"deep_states_with_sharing":                        d.shared,
		"deep_states_after_cycle":                         d.cyclic,
		"deep_states_in_call":                             d.inCall,
		"deep_states_in_try":                              d.inTry,
		"deep_witness_sequences":                          d.witness,
		"core_depth":                                      coreDepth,
		"core_alphabet":                                   coreAlphabet,
		"core_level_sizes_after_merge":                    dc.levelSizes,
		"core_candidates_per_level":                       dc.levelCands,
		"core_programs_executed":                          dc.programs,
		"core_states_with_sharing":                        dc.shared,
		"core_states_after_cycle":                         dc.cyclic,
		"core_states_in_call":                             dc.inCall,
		"core_states_in_try":                              dc.inTry,
		"scripts_passing_static_check":                    int(s.tot.correct),
		"runs_with_cycle":                                 int(s.tot.cyclic),
		"runs_vm_counter_above_walk":                      int(s.tot.over),
		"run_vs_step_differences":                         int(s.tot.runStepDiff),
		"own_decoder_vs_static_check":                     int(s.tot.decoderDiff),
		"api_consistency_notes":                           int(s.tot.notes),
		"max_reachable_items_seen":                        s.tot.maxWalk,
		"max_invocation_depth_seen":                       s.tot.maxInvoc,
		"max_try_depth_seen":                              s.tot.maxTry,
		"wall_limits_raw_deep_core_s":                     []float64{tLimits, tRaw, tDeep, tCore},
	}, []string{
		"raw, limits and deep parts: one script per VM, loaded with vm.Load, no syscall handler and no CALLT tokens (SYSCALL/CALLT fault)",
		"xscript part: other scripts are loaded by a harness SYSCALL handler that mimics the contract-call interop (pops the arguments, LoadScriptWithHash or LoadScriptWithFlags, pushes the arguments onto the new stack); callee scripts come from a fixed family, nesting is at most caller -> callee -> third script",
		"xfer/xptr/gasedge parts: the harness's SYSCALL handler; ids with top byte 0xC2 only charge gas (AddDatoshi, AddPicoGas); without a price getter (or with the all-zero one) a loop that charges nothing is not bounded by any gas limit, so termination under a finite limit is asserted only where every instruction has a positive price or every loop iteration charges a positive amount",
		"xfer: the offset-carrying opcodes are those of the harness's own table (xfer_offset_opcodes); every other opcode with an immediate operand is probed on the VM under test and the check stops with an error if one of them moves the instruction pointer, opens a try block or pushes a pointer",
		"unlimited gas (limit -1) may legitimately not terminate; such runs stop at the instruction budget and are then re-run under finite limits only",
		"BREAK cannot occur: the harness sets no breakpoints; any state other than NONE/HALT/FAULT after a step is reported",
		"the exactness assertion (VM counter == walk) is switched off for the rest of a run once an APPEND/SETITEM inserts an item from which the container is reachable",
		"the offset len(script), where the implicit RET is executed, counts as an instruction boundary",
		"unexported state read by the harness: Context.tryStack (length only); rc.count of compounds is read for state merging only, never asserted",
		"deep passes: at most 3 open try blocks per call frame and 6 open brackets (calls + try blocks) at a time; indices/keys 0 and 1; THROW only where the nearest handler is a catch block (a pending exception inside finally is covered by the THROW_VIA_FINALLY macro and by the limit programs)",
		"one violation per class of finding (what : instruction[operand kinds]), carrying the smallest failing input; failing_inputs_per_class counts the rest",
		"syscalls part: scripts run as the code of a helper contract deployed on two single-validator test ledgers (every hardfork from genesis / none) inside the interop.Context of Blockchain.GetTestVM (Application trigger, a container transaction signed by account 1, the validator and the committee with Global scope, all call flags), one fresh context per run; every case runs in a worker subprocess that announces it first and reports it only after the goroutines it started are gone (3 s at most, leftovers are counted); a worker death or a silence of 45 s is attributed to the announced case, re-run alone and, if it does not die alone, bisected over the cases of its slice; a slice (every 16th case) is given up at its first death",
		"syscalls part: instruction boundaries and harness-side prices are asserted for the case's own script only (identified by the identity of its byte slice), not for native contracts' or dynamically loaded scripts; the harness-side consumption is a lower bound (opcode prices + the interop table's price of each SYSCALL), the handlers' own charges are the VM's",
	})
}

func replay(r *vk.Run, s *stats) {
	var c replayRec
	if err := r.ReadReplay(&c); err != nil {
		fmt.Println("cannot read replay:", err)
		r.Finish(map[string]any{"states": 1, "transitions": 1, "traces_validated_against_impl": 0}, nil)
	}
	if c.Part == "syscalls" && c.Sys != nil {
		replaySys(r, s, &c)
		return
	}
	script, err := hex.DecodeString(c.Script)
	if err != nil {
		fmt.Println("bad script in replay:", err)
		r.Finish(map[string]any{"states": 1, "transitions": 1, "traces_validated_against_impl": 0}, nil)
	}
	bounds, decoded := boundaries(script)
	serr, span := staticCheck(script, nil)
	correct := serr == nil && span == nil
	if c.Finding != nil && strings.HasPrefix(c.Finding.Kind, "static-") { // a finding about the static check itself: nothing is executed
		w := newWalker()
		for i := 0; i < 5; i++ {
			s.methodsCheck(w, c.Part, c.Name, script) // reports a panic of the plain check too
		}
		more := s.flush()
		fmt.Printf("replayed static check of %s %s (%s) 5x: findings %v\n%s", c.Part, c.Name, c.Script, more, disasm(script))
		r.Finish(map[string]any{"states": 1, "transitions": 1, "traces_validated_against_impl": 5}, nil)
	}
	o := execOpts{mark: -1}
	if correct && decoded {
		o.bounds = bounds
	}
	for _, l := range c.Loaded {
		b, err1 := hex.DecodeString(l.Script)
		h, err2 := util.Uint160DecodeStringLE(l.Hash)
		if err1 != nil || err2 != nil {
			fmt.Println("bad loadable script in replay")
			continue
		}
		ld := loaded{script: b, hash: h, methodOff: l.MethodOff}
		if l.NefScript != "" {
			ld.nefScript, _ = hex.DecodeString(l.NefScript)
			ld.nefHash, _ = util.Uint160DecodeStringLE(l.NefHash)
		}
		o.tbl = append(o.tbl, ld)
	}
	if c.Handler && o.tbl == nil {
		o.tbl = []loaded{}
	}
	if o.tbl != nil {
		o.boundsBy = loadedBounds(o.tbl)
	}
	outs := map[string]int{}
	steps := 0
	for i := 0; i < 5; i++ {
		res := exec(script, c.Cfg, o)
		steps += res.Steps
		k := "clean:" + res.State
		if res.F != nil {
			k = fmt.Sprintf("%s at step %d ip %d %s: %s", res.F.Kind, res.F.Step, res.F.IP, res.F.Op, res.F.Msg)
			s.report(c.Part, c.Name, c.Macros, script, c.Cfg, correct, &res, o.tbl)
		}
		outs[k]++
	}
	var ks []string
	for k, n := range outs {
		ks = append(ks, fmt.Sprintf("%dx %s", n, k))
	}
	s.flush()
	sort.Strings(ks)
	fmt.Printf("replayed %s %s (%s) gas=%d 5x:\n  %s\n%s", c.Part, c.Name, c.Script, c.Cfg.Gas, strings.Join(ks, "\n  "), disasm(script))
	r.Finish(map[string]any{"states": 1, "transitions": steps + 1, "traces_validated_against_impl": 5}, nil)
}
