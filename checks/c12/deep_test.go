// C12, deep part: all sequences of macro instructions up to length L that
// type-check, breadth first, merged by canonical machine state.
//
// A macro is a short fixed instruction sequence. Whether a macro type-checks
// after a prefix is decided by a tiny abstract view (obs) of the machine at
// the end of the prefix: types and sizes of the three top items, which slots
// exist, plus the purely syntactic bracket state (open calls and try blocks).
// Calls and try blocks are brackets in the linear sequence:
//
//	ENTER     CALL_L f; JMP_L after; f:          (the rest runs inside the callee)
//	LEAVE     RET; after:
//	TRY_*     TRY_L catch, finally               ENDTRY closes the innermost block
//	THROW     THROW; catch:                      (control continues in the nearest catch,
//	                                              unloading every call frame in between)
//
// The epilogue closes what is still open, so every program is a complete
// script that passes the static check and, unless a limit is hit, HALTs.
package c12

import (
	"fmt"
	"sort"
	"strings"
	"sync"
	"sync/atomic"
	"time"

	"github.com/nspcc-dev/neo-go/pkg/vm"
	"github.com/nspcc-dev/neo-go/pkg/vm/opcode"
	"github.com/nspcc-dev/neo-go/pkg/vm/stackitem"

	"verif/lib/vk"
)

// ---- abstract view ------------------------------------------------------------

type tinfo struct {
	k          byte // i int, b bytestring, u buffer, n null, o bool, p pointer, a array, s struct, m map, ? other
	n          int  // number of elements of a compound
	has0, has1 bool // map has key 0 / 1
}

type obs struct {
	d             int // evaluation stack depth
	t             [4]tinfo
	loc, arg, sta int // slot sizes of the current context (0 = not initialised)
}

var (
	key0 = stackitem.Make(0)
	key1 = stackitem.Make(1)
)

func infoOf(it stackitem.Item) tinfo {
	switch t := it.(type) {
	case *stackitem.BigInteger:
		return tinfo{k: 'i'}
	case *stackitem.ByteArray:
		return tinfo{k: 'b'}
	case *stackitem.Buffer:
		return tinfo{k: 'u'}
	case stackitem.Null:
		return tinfo{k: 'n'}
	case stackitem.Bool:
		return tinfo{k: 'o'}
	case *stackitem.Pointer:
		return tinfo{k: 'p'}
	case *stackitem.Array:
		return tinfo{k: 'a', n: t.Len()}
	case *stackitem.Struct:
		return tinfo{k: 's', n: t.Len()}
	case *stackitem.Map:
		return tinfo{k: 'm', n: t.Len(), has0: t.Has(key0), has1: t.Has(key1)}
	}
	return tinfo{k: '?'}
}

func observe(v *vm.VM) (o obs) {
	es := v.Estack()
	o.d = es.Len()
	for i := 0; i < len(o.t) && i < o.d; i++ {
		o.t[i] = infoOf(es.Peek(i).Item())
	}
	c := v.Context()
	o.loc, o.arg, o.sta = c.LocalsSlot().Size(), c.ArgumentsSlot().Size(), c.StaticsSlot().Size()
	return
}

func (t tinfo) list() bool     { return t.k == 'a' || t.k == 's' }
func (t tinfo) compound() bool { return t.k == 'a' || t.k == 's' || t.k == 'm' }
func (t tinfo) keyable() bool  { return t.k == 'i' || t.k == 'b' || t.k == 'o' }
func (t tinfo) at(i int) bool { // t[i] exists / can be written
	if t.k == 'm' {
		return true
	}
	return t.list() && t.n > i
}
func (t tinfo) holds(i int) bool { // t[i] can be read
	if t.k == 'm' {
		return (i == 0 && t.has0) || (i == 1 && t.has1)
	}
	return t.list() && t.n > i
}

// ---- brackets -----------------------------------------------------------------

type bkind byte

const (
	bFrame bkind = iota
	bTryC
	bTryF
	bTryCF
	bCatchC  // inside the catch block of a TRY with catch only
	bCatchCF // inside the catch block of a TRY with catch and finally
)

var bnames = [...]string{"F", "Tc", "Tf", "Tcf", "Cc", "Ccf"}

type bracket struct {
	k          bkind
	l1, l2, l3 int // frame: l1 = return label; try: l1 catch, l2 finally, l3 end
}

type prog struct {
	a          asm
	br         []bracket
	fnThrow    int // helper labels, -1 = not used
	fnIdentity int
}

func newProg() *prog { return &prog{fnThrow: -1, fnIdentity: -1} }

func (p *prog) define(l int) {
	if l >= 0 && !p.a.defined(l) {
		p.a.here(l)
	}
}

// discard gives every pending label of b a (never used) place.
func (p *prog) discard(b bracket) {
	p.define(b.l1)
	if b.k != bFrame {
		p.define(b.l2)
		p.define(b.l3)
	}
}

// closeTop closes the innermost bracket the normal way.
func (p *prog) closeTop() {
	b := p.br[len(p.br)-1]
	p.br = p.br[:len(p.br)-1]
	a := &p.a
	switch b.k {
	case bFrame:
		a.op(opcode.RET)
		a.here(b.l1)
	case bTryC:
		a.jmp(opcode.ENDTRYL, b.l3)
		a.here(b.l1)
		a.jmp(opcode.ENDTRYL, b.l3) // catch block, not reached
		a.here(b.l3)
	case bTryF:
		a.jmp(opcode.ENDTRYL, b.l3)
		a.here(b.l2)
		a.op(opcode.ENDFINALLY)
		a.here(b.l3)
	case bTryCF:
		a.jmp(opcode.ENDTRYL, b.l3)
		a.here(b.l1)
		a.jmp(opcode.ENDTRYL, b.l3) // catch block, not reached
		a.here(b.l2)
		a.op(opcode.ENDFINALLY)
		a.here(b.l3)
	case bCatchC:
		a.jmp(opcode.ENDTRYL, b.l3)
		a.here(b.l3)
	case bCatchCF:
		a.jmp(opcode.ENDTRYL, b.l3)
		a.here(b.l2)
		a.op(opcode.ENDFINALLY)
		a.here(b.l3)
	}
}

// throwTarget returns the index of the bracket whose catch block a THROW at
// this point reaches, or -1 if the linear model does not cover the case
// (a finally block would run first, or nothing would catch).
func (p *prog) throwTarget() int {
	for i := len(p.br) - 1; i >= 0; i-- {
		switch p.br[i].k {
		case bFrame, bCatchC:
			continue
		case bTryC, bTryCF:
			return i
		default:
			return -1
		}
	}
	return -1
}

func (p *prog) topFrame() int {
	for i := len(p.br) - 1; i >= 0; i-- {
		if p.br[i].k == bFrame {
			return i
		}
	}
	return -1
}

func (p *prog) brString() string {
	var b strings.Builder
	for _, x := range p.br {
		b.WriteString(bnames[x.k])
	}
	return b.String()
}

func (p *prog) epilogue() {
	for len(p.br) > 0 {
		p.closeTop()
	}
	a := &p.a
	a.op(opcode.RET)
	if p.fnThrow >= 0 { // f(x): keeps x in an argument and a local, then throws it
		a.here(p.fnThrow)
		a.op(opcode.INITSLOT)
		a.raw(1, 1)
		a.op(opcode.LDARG0, opcode.STLOC0, opcode.LDLOC0, opcode.THROW)
	}
	if p.fnIdentity >= 0 { // f(x): keeps x in an argument and a local, returns it
		a.here(p.fnIdentity)
		a.op(opcode.INITSLOT)
		a.raw(1, 1)
		a.op(opcode.LDARG0, opcode.DUP, opcode.STLOC0, opcode.RET)
	}
}

// ---- the alphabet ---------------------------------------------------------------

type macro struct {
	name string
	ok   func(o *obs, p *prog) bool
	emit func(p *prog)
}

var macros []macro

func ops(name string, ok func(o *obs, p *prog) bool, code ...opcode.Opcode) macro {
	return macro{name: name, ok: ok, emit: func(p *prog) { p.a.op(code...) }}
}

func depth(n int) func(o *obs, p *prog) bool {
	return func(o *obs, _ *prog) bool { return o.d >= n }
}

func top(f func(t tinfo) bool) func(o *obs, p *prog) bool {
	return func(o *obs, _ *prog) bool { return o.d >= 1 && f(o.t[0]) }
}

func second(f func(t tinfo) bool) func(o *obs, p *prog) bool {
	return func(o *obs, _ *prog) bool { return o.d >= 2 && f(o.t[1]) }
}

func convert(name string, to stackitem.Type, keep bool) macro {
	return macro{name: name, ok: top(tinfo.list), emit: func(p *prog) {
		if keep {
			p.a.op(opcode.DUP)
		}
		p.a.op(opcode.CONVERT)
		p.a.raw(byte(to))
	}}
}

func try(name string, k bkind) macro {
	return macro{name: name, ok: func(o *obs, p *prog) bool {
		n := 0 // try depth of the current frame
		for i := len(p.br) - 1; i >= 0 && p.br[i].k != bFrame; i-- {
			n++
		}
		return n < 3
	}, emit: func(p *prog) {
		b := bracket{k: k, l1: -1, l2: -1, l3: p.a.newLabel()}
		if k == bTryC || k == bTryCF {
			b.l1 = p.a.newLabel()
		}
		if k == bTryF || k == bTryCF {
			b.l2 = p.a.newLabel()
		}
		p.a.try(opcode.TRYL, b.l1, b.l2)
		p.br = append(p.br, b)
	}}
}

func init() {
	always := func(*obs, *prog) bool { return true }
	m := func(x macro) { macros = append(macros, x) }
	// constants and constructors, simplest first
	m(ops("PUSH1", always, opcode.PUSH1))
	m(macro{name: "PUSHDATA", ok: always, emit: func(p *prog) { p.a.pushData([]byte("a")) }})
	m(ops("PUSHNULL", always, opcode.PUSHNULL))
	m(ops("NEWARRAY0", always, opcode.NEWARRAY0))
	m(ops("NEWSTRUCT0", always, opcode.NEWSTRUCT0))
	m(ops("NEWMAP", always, opcode.NEWMAP))
	m(ops("NEWARRAY2", always, opcode.PUSH2, opcode.NEWARRAY))
	m(ops("NEWSTRUCT2", always, opcode.PUSH2, opcode.NEWSTRUCT))
	// stack
	m(ops("DUP", depth(1), opcode.DUP))
	m(ops("DROP", depth(1), opcode.DROP))
	m(ops("SWAP", depth(2), opcode.SWAP))
	m(ops("OVER", depth(2), opcode.OVER))
	m(ops("NIP", depth(2), opcode.NIP))
	m(ops("TUCK", depth(2), opcode.TUCK))
	m(ops("ROT", depth(3), opcode.ROT))
	// collections; *_K keeps the container on the stack
	m(ops("APPEND", second(tinfo.list), opcode.APPEND))
	m(ops("APPEND_K", second(tinfo.list), opcode.OVER, opcode.SWAP, opcode.APPEND))
	m(ops("SETITEM0", second(func(t tinfo) bool { return t.at(0) }), opcode.PUSH0, opcode.SWAP, opcode.SETITEM))
	m(ops("SETITEM0_K", second(func(t tinfo) bool { return t.at(0) }), opcode.OVER, opcode.PUSH0, opcode.ROT, opcode.SETITEM))
	m(ops("SETITEM1_K", second(func(t tinfo) bool { return t.at(1) }), opcode.OVER, opcode.PUSH1, opcode.ROT, opcode.SETITEM))
	m(ops("PICKITEM0", top(func(t tinfo) bool { return t.holds(0) }), opcode.PUSH0, opcode.PICKITEM))
	m(ops("PICKITEM0_K", top(func(t tinfo) bool { return t.holds(0) }), opcode.DUP, opcode.PUSH0, opcode.PICKITEM))
	m(ops("PICKITEM1_K", top(func(t tinfo) bool { return t.holds(1) }), opcode.DUP, opcode.PUSH1, opcode.PICKITEM))
	m(ops("REMOVE0", top(func(t tinfo) bool { return t.at(0) }), opcode.PUSH0, opcode.REMOVE))
	m(ops("REMOVE0_K", top(func(t tinfo) bool { return t.at(0) }), opcode.DUP, opcode.PUSH0, opcode.REMOVE))
	m(ops("REMOVE1_K", top(func(t tinfo) bool { return t.at(1) }), opcode.DUP, opcode.PUSH1, opcode.REMOVE))
	m(ops("CLEARITEMS", top(tinfo.compound), opcode.CLEARITEMS))
	m(ops("CLEARITEMS_K", top(tinfo.compound), opcode.DUP, opcode.CLEARITEMS))
	m(ops("POPITEM", top(func(t tinfo) bool { return t.list() && t.n > 0 }), opcode.POPITEM))
	m(ops("POPITEM_K", top(func(t tinfo) bool { return t.list() && t.n > 0 }), opcode.DUP, opcode.POPITEM))
	m(ops("PACK1", depth(1), opcode.PUSH1, opcode.PACK))
	m(ops("PACK2", depth(2), opcode.PUSH2, opcode.PACK))
	m(ops("PACKSTRUCT1", depth(1), opcode.PUSH1, opcode.PACKSTRUCT))
	m(ops("PACKSTRUCT2", depth(2), opcode.PUSH2, opcode.PACKSTRUCT))
	m(ops("PACKMAP1", func(o *obs, _ *prog) bool { return o.d >= 2 && o.t[0].keyable() }, opcode.PUSH1, opcode.PACKMAP))
	m(ops("PACKMAP2", func(o *obs, _ *prog) bool { return o.d >= 4 && o.t[0].keyable() && o.t[2].keyable() }, opcode.PUSH2, opcode.PACKMAP))
	m(ops("UNPACK", top(tinfo.compound), opcode.UNPACK, opcode.DROP))
	m(ops("UNPACK_K", top(tinfo.compound), opcode.DUP, opcode.UNPACK, opcode.DROP))
	m(ops("VALUES", top(tinfo.compound), opcode.VALUES))
	m(ops("VALUES_K", top(tinfo.compound), opcode.DUP, opcode.VALUES))
	m(ops("KEYS", top(func(t tinfo) bool { return t.k == 'm' }), opcode.KEYS))
	m(ops("KEYS_K", top(func(t tinfo) bool { return t.k == 'm' }), opcode.DUP, opcode.KEYS))
	m(ops("REVERSEITEMS_K", top(tinfo.list), opcode.DUP, opcode.REVERSEITEMS))
	m(convert("CONVERT_ARRAY", stackitem.ArrayT, false))
	m(convert("CONVERT_STRUCT", stackitem.StructT, false))
	m(convert("CONVERT_ARRAY_K", stackitem.ArrayT, true))
	m(convert("CONVERT_STRUCT_K", stackitem.StructT, true))
	// slots
	m(macro{name: "INITSSLOT2", ok: func(o *obs, _ *prog) bool { return o.sta == 0 }, emit: func(p *prog) { p.a.op(opcode.INITSSLOT); p.a.raw(2) }})
	noSlots := func(need int) func(o *obs, p *prog) bool {
		return func(o *obs, _ *prog) bool { return o.loc == 0 && o.arg == 0 && o.d >= need }
	}
	m(macro{name: "INITSLOT_L2", ok: noSlots(0), emit: func(p *prog) { p.a.op(opcode.INITSLOT); p.a.raw(2, 0) }})
	m(macro{name: "INITSLOT_L1A1", ok: noSlots(1), emit: func(p *prog) { p.a.op(opcode.INITSLOT); p.a.raw(1, 1) }})
	m(macro{name: "INITSLOT_A2", ok: noSlots(2), emit: func(p *prog) { p.a.op(opcode.INITSLOT); p.a.raw(0, 2) }})
	st := func(sz func(o *obs) int, i int) func(o *obs, p *prog) bool {
		return func(o *obs, _ *prog) bool { return sz(o) > i && o.d >= 1 }
	}
	ld := func(sz func(o *obs) int, i int) func(o *obs, p *prog) bool {
		return func(o *obs, _ *prog) bool { return sz(o) > i }
	}
	loc := func(o *obs) int { return o.loc }
	arg := func(o *obs) int { return o.arg }
	sta := func(o *obs) int { return o.sta }
	m(ops("STLOC0", st(loc, 0), opcode.STLOC0))
	m(ops("LDLOC0", ld(loc, 0), opcode.LDLOC0))
	m(ops("STLOC1", st(loc, 1), opcode.STLOC1))
	m(ops("LDLOC1", ld(loc, 1), opcode.LDLOC1))
	m(ops("STSFLD0", st(sta, 0), opcode.STSFLD0))
	m(ops("LDSFLD0", ld(sta, 0), opcode.LDSFLD0))
	m(macro{name: "STSFLD1", ok: st(sta, 1), emit: func(p *prog) { p.a.op(opcode.STSFLD); p.a.raw(1) }}) // the operand form
	m(macro{name: "LDSFLD1", ok: ld(sta, 1), emit: func(p *prog) { p.a.op(opcode.LDSFLD); p.a.raw(1) }})
	m(ops("STARG0", st(arg, 0), opcode.STARG0))
	m(ops("LDARG0", ld(arg, 0), opcode.LDARG0))
	m(ops("STARG1", st(arg, 1), opcode.STARG1))
	m(ops("LDARG1", ld(arg, 1), opcode.LDARG1))
	// calls
	m(macro{name: "ENTER", ok: func(_ *obs, p *prog) bool { return len(p.br) < 6 }, emit: func(p *prog) {
		f, after := p.a.newLabel(), p.a.newLabel()
		p.a.jmp(opcode.CALLL, f)
		p.a.jmp(opcode.JMPL, after)
		p.a.here(f)
		p.br = append(p.br, bracket{k: bFrame, l1: after})
	}})
	m(macro{name: "ENTER_A", ok: func(_ *obs, p *prog) bool { return len(p.br) < 6 }, emit: func(p *prog) {
		f, after := p.a.newLabel(), p.a.newLabel()
		p.a.jmp(opcode.PUSHA, f)
		p.a.op(opcode.CALLA)
		p.a.jmp(opcode.JMPL, after)
		p.a.here(f)
		p.br = append(p.br, bracket{k: bFrame, l1: after})
	}})
	m(macro{name: "LEAVE", ok: func(_ *obs, p *prog) bool { return p.topFrame() >= 0 }, emit: func(p *prog) {
		i := p.topFrame()
		p.a.op(opcode.RET) // open try blocks of the frame are abandoned
		for j := len(p.br) - 1; j > i; j-- {
			p.discard(p.br[j])
		}
		p.a.here(p.br[i].l1)
		p.br = p.br[:i]
	}})
	// exceptions
	m(try("TRY_C", bTryC))
	m(try("TRY_F", bTryF))
	m(try("TRY_CF", bTryCF))
	m(macro{name: "ENDTRY", ok: func(_ *obs, p *prog) bool { return len(p.br) > 0 && p.br[len(p.br)-1].k != bFrame }, emit: func(p *prog) { p.closeTop() }})
	m(macro{name: "THROW", ok: func(o *obs, p *prog) bool { return o.d >= 1 && p.throwTarget() >= 0 }, emit: func(p *prog) {
		i := p.throwTarget()
		p.a.op(opcode.THROW)
		for j := len(p.br) - 1; j > i; j-- {
			p.discard(p.br[j])
		}
		p.a.here(p.br[i].l1)
		p.br = p.br[:i+1]
		if p.br[i].k == bTryC {
			p.br[i].k = bCatchC
		} else {
			p.br[i].k = bCatchCF
		}
	}})
	m(macro{name: "THROW_VIA_FINALLY", ok: depth(1), emit: func(p *prog) {
		a := &p.a
		c, f, e := a.newLabel(), a.newLabel(), a.newLabel()
		a.try(opcode.TRYL, c, -1)
		a.try(opcode.TRYL, -1, f)
		a.op(opcode.THROW)
		a.here(f)
		a.op(opcode.ENDFINALLY) // the exception is pending here
		a.here(c)
		a.jmp(opcode.ENDTRYL, e)
		a.here(e)
	}})
	m(macro{name: "CALL_THROW", ok: depth(1), emit: func(p *prog) {
		a := &p.a
		if p.fnThrow < 0 {
			p.fnThrow = a.newLabel()
		}
		c, e := a.newLabel(), a.newLabel()
		a.try(opcode.TRYL, c, -1)
		a.jmp(opcode.CALLL, p.fnThrow)
		a.here(c)
		a.jmp(opcode.ENDTRYL, e)
		a.here(e)
	}})
	m(macro{name: "CALL_IDENTITY", ok: depth(1), emit: func(p *prog) {
		if p.fnIdentity < 0 {
			p.fnIdentity = p.a.newLabel()
		}
		p.a.jmp(opcode.CALLL, p.fnIdentity)
	}})
	oor := func(name string, ok func(o *obs, p *prog) bool, code ...opcode.Opcode) macro {
		return macro{name: name, ok: ok, emit: func(p *prog) { // the VM itself throws (index out of range), caught here
			a := &p.a
			c, e := a.newLabel(), a.newLabel()
			a.try(opcode.TRYL, c, -1)
			a.pushInt(100)
			a.op(code...)
			a.here(c)
			a.jmp(opcode.ENDTRYL, e)
			a.here(e)
		}}
	}
	m(oor("PICKITEM_OUT_OF_RANGE", top(tinfo.compound), opcode.PICKITEM))
	m(oor("SETITEM_OUT_OF_RANGE", second(tinfo.list), opcode.SWAP, opcode.SETITEM))
	if len(macros) > 128 {
		panic("mask too small")
	}
}

func macroIndex(name string) int {
	for i := range macros {
		if macros[i].name == name {
			return i
		}
	}
	panic("no macro " + name)
}

// ---- one program ------------------------------------------------------------------

type mask [2]uint64

func (m mask) has(i int) bool { return m[i/64]&(1<<(i%64)) != 0 }
func (m *mask) set(i int)     { m[i/64] |= 1 << (i % 64) }

// packed sequence: 7 bits per macro, length in the top byte (L <= 8).
type pseq uint64

func pack(seq []uint8) pseq {
	p := pseq(len(seq)) << 56
	for i, x := range seq {
		p |= pseq(x) << (7 * i)
	}
	return p
}

func (p pseq) unpack(extra int) []uint8 {
	n := int(p >> 56)
	out := make([]uint8, n, n+extra)
	for i := range out {
		out[i] = uint8(p>>(7*i)) & 0x7f
	}
	return out
}

type node struct {
	seq pseq
	m   mask
}

type cand struct {
	seq   pseq
	key   [16]byte
	m     mask
	flags uint8 // 1 shared compound, 2 after cycle, 4 inside a call, 8 inside a try
}

func seqNames(seq []uint8) []string {
	out := make([]string, len(seq))
	for i, x := range seq {
		out[i] = macros[x].name
	}
	return out
}

// build assembles the program of seq; body is the bracket state at the end of
// the sequence (before the epilogue), mark the offset where the epilogue starts.
func build(seq []uint8) (script []byte, mark int, body *prog) {
	p := newProg()
	for _, x := range seq {
		macros[x].emit(p)
	}
	mark = p.a.pos()
	body = &prog{br: append([]bracket{}, p.br...)}
	p.epilogue()
	return p.a.bytes(), mark, body
}

type deepOut struct {
	completeDepth                         int // all sequences up to this length were executed
	states, programs, faulted, markMissed int
	shared, cyclic, inCall, inTry         int
	levelSizes, levelCands                []int
	witness                               map[string]string
}

// runDeep executes one program; wantState: compute key and successor mask.
func runDeep(s *stats, seq []uint8, w *walker, wantState bool, faulted, missed *vk.Counter) (c cand, alive bool) {
	script, mark, body := build(seq)
	opts := execOpts{mark: mark}
	reached := false
	cyc := false
	var o obs
	opts.onMark = func(v *vm.VM, w *walker) {
		reached = true
		if !wantState {
			return
		}
		o = observe(v)
		walk := w.walk(v, true)
		k := append(w.key, '|')
		k = append(k, fmt.Sprintf("%d|%s", v.VerifRefs()-walk, body.brString())...)
		c.key = h16(k)
		for _, ch := range w.key {
			if ch == '#' {
				c.flags |= 1
				break
			}
		}
	}
	names := seqNames(seq)
	r0 := s.fullCheck("deep", strings.Join(names, ","), names, script, deepBase, 5000, w, opts, true)
	cyc = r0.Cyclic
	if r0.State != "HALT" {
		faulted.Inc()
	}
	if !reached {
		missed.Inc()
		return c, false
	}
	if r0.F != nil || !wantState {
		return c, false
	}
	c.seq = pack(seq)
	if cyc {
		c.flags |= 2
		c.key[0] ^= 0x5a // "a cycle was built" is part of the state: it decides what is asserted later
	}
	for _, b := range body.br {
		if b.k == bFrame {
			c.flags |= 4
		} else {
			c.flags |= 8
		}
	}
	for i := range macros {
		if macros[i].ok(&o, body) {
			c.m.set(i)
		}
	}
	return c, true
}

// witnesses: sequences the property text names; the search has to contain them
// (checked against the successor masks, level by level).
var witnessSeqs = map[string][]string{
	"slot+compound, removed one way":  {"NEWARRAY0", "DUP", "INITSLOT_L1A1", "PACK1", "REMOVE0_K"},
	"self-referencing array":          {"NEWARRAY0", "DUP", "DUP", "APPEND", "DROP"},
	"struct cloned on APPEND":         {"NEWSTRUCT2", "NEWARRAY0", "OVER", "APPEND_K"},
	"struct cloned on SETITEM":        {"NEWSTRUCT2", "NEWARRAY2", "OVER", "SETITEM0_K"},
	"throw out of a call with slots":  {"NEWMAP", "TRY_C", "ENTER", "INITSLOT_L1A1", "LDARG0", "THROW"},
	"static kept across call, unpack": {"INITSSLOT2", "NEWARRAY2", "DUP", "STSFLD0", "ENTER_A", "UNPACK_K"},
}

// coreAlphabet: the sub-alphabet of the second, deeper pass (containers kept
// on the stack, one slot of each kind, one call bracket, one try bracket).
var coreAlphabet = []string{
	"PUSH1", "NEWARRAY0", "NEWSTRUCT0", "NEWMAP", "DUP", "DROP", "SWAP",
	"APPEND", "APPEND_K", "SETITEM0_K", "PICKITEM0_K", "REMOVE0", "REMOVE0_K", "CLEARITEMS_K", "POPITEM_K",
	"PACK1", "PACKSTRUCT1", "PACKMAP1", "UNPACK", "UNPACK_K", "VALUES_K", "CONVERT_STRUCT",
	"INITSSLOT2", "INITSLOT_L1A1", "STLOC0", "LDLOC0", "LDARG0", "STSFLD0", "LDSFLD0",
	"ENTER", "LEAVE", "TRY_C", "ENDTRY", "THROW",
}

func alphabetMask(names []string) (m mask) {
	if names == nil {
		for i := range macros {
			m.set(i)
		}
		return
	}
	for _, n := range names {
		m.set(macroIndex(n))
	}
	return
}

// sched decides when a pass has to stop. The mandatory passes use the run's
// deadline (hitting it marks the run as not exhaustive); the optional
// deepening passes of the thorough tier have a soft deadline of their own and
// never mark the run: the stated bounds are those of the mandatory passes.
type sched struct {
	r    *vk.Run
	soft time.Time // zero: mandatory pass
	hit  atomic.Bool
}

func (sc *sched) expired() bool {
	if sc.soft.IsZero() {
		return sc.r.Expired()
	}
	if sc.hit.Load() || time.Now().After(sc.soft) {
		sc.hit.Store(true)
		return true
	}
	return false
}

func (sc *sched) stopped() bool {
	if sc.soft.IsZero() {
		return sc.r.IsCapped()
	}
	return sc.hit.Load()
}

func (sc *sched) parallel(n int, f func(i int)) int {
	if sc.soft.IsZero() {
		return sc.r.Parallel(n, f)
	}
	var next, done atomic.Int64
	var wg sync.WaitGroup
	for k := 0; k < min(sc.r.Workers(), n); k++ {
		wg.Add(1)
		go func() {
			defer wg.Done()
			for {
				i := int(next.Add(1) - 1)
				if i >= n || sc.expired() {
					return
				}
				f(i)
				done.Add(1)
			}
		}()
	}
	wg.Wait()
	return int(done.Load())
}

func deepPart(s *stats, sc *sched, L int, allowed mask, witnesses bool) (out deepOut) {
	r := s.r
	out.witness = map[string]string{}
	seen := map[[16]byte]struct{}{}
	var faulted, missed vk.Counter
	w0 := newWalker()
	root, ok := runDeep(s, nil, w0, true, &faulted, &missed)
	s.merge(w0)
	if !ok {
		fmt.Println("C12 note: the empty program did not reach its mark")
		return
	}
	seen[root.key] = struct{}{}
	out.programs = 1
	frontier := []node{{seq: pack(nil), m: root.m}}
	const chunk = 1 << 16 // frontier nodes per parallel batch (bounds the memory of unmerged candidates)
	for d := 1; d <= L && len(frontier) > 0; d++ {
		last := d == L
		var next []node
		cands, complete := 0, true
		for lo := 0; lo < len(frontier) && complete; lo += chunk {
			part := frontier[lo:min(lo+chunk, len(frontier))]
			results := make([][]cand, len(part))
			var execd vk.Counter
			done := sc.parallel(len(part), func(i int) {
				w := newWalker()
				n := part[i]
				for m := range macros {
					if !n.m.has(m) || !allowed.has(m) {
						continue
					}
					if m%8 == 0 && sc.expired() {
						break
					}
					seq := append(n.seq.unpack(1), uint8(m))
					c, alive := runDeep(s, seq, w, !last, &faulted, &missed)
					execd.Inc()
					if alive {
						results[i] = append(results[i], c)
					}
				}
				s.merge(w)
			})
			cands += int(execd.Get())
			if done < len(part) || sc.stopped() {
				complete = false
			}
			if last {
				continue
			}
			// merge in frontier order, so the representative of a state is the
			// first sequence in (length, alphabet) order that reaches it
			for i := range results {
				for _, c := range results[i] {
					if _, dup := seen[c.key]; dup {
						continue
					}
					seen[c.key] = struct{}{}
					next = append(next, node{seq: c.seq, m: c.m})
					if c.flags&1 != 0 {
						out.shared++
					}
					if c.flags&2 != 0 {
						out.cyclic++
					}
					if c.flags&4 != 0 {
						out.inCall++
					}
					if c.flags&8 != 0 {
						out.inTry++
					}
					if d <= 2 || (len(next)%50000 == 0) {
						r.Sample(map[string]any{"part": "deep", "macros": seqNames(c.seq.unpack(0)), "state_flags": c.flags})
					}
				}
			}
		}
		out.programs += cands
		out.levelCands = append(out.levelCands, cands)
		if complete {
			out.completeDepth = d
		}
		if !complete || last {
			break
		}
		frontier = next
		out.levelSizes = append(out.levelSizes, len(next))
	}
	out.states = len(seen)
	out.faulted = int(faulted.Get())
	out.markMissed = int(missed.Get())
	// witnesses are executed on their own: each has to type-check macro by macro
	// (so it is a member of the enumerated language) and is run with the oracle.
	var wn []string
	for name := range witnessSeqs {
		wn = append(wn, name)
	}
	sort.Strings(wn)
	for _, name := range wn {
		if witnesses {
			out.witness[name] = runWitness(s, witnessSeqs[name], L)
		}
	}
	return
}

// runWitness checks that every macro of the sequence is applicable after its
// prefix (by the same rule the search uses) and returns what happened.
func runWitness(s *stats, names []string, L int) string {
	var seq []uint8
	var faulted, missed vk.Counter
	w := newWalker()
	c, ok := runDeep(s, nil, w, true, &faulted, &missed)
	for _, n := range names {
		i := macroIndex(n)
		if !ok || !c.m.has(i) {
			return "NOT IN THE LANGUAGE at " + n
		}
		seq = append(seq, uint8(i))
		c, ok = runDeep(s, seq, w, true, &faulted, &missed)
	}
	s.merge(w)
	res := "member"
	if len(names) > L {
		res = fmt.Sprintf("member (length %d > L=%d: run on its own)", len(names), L)
	}
	if c.flags&2 != 0 {
		res += ", cycle built"
	}
	if c.flags&1 != 0 {
		res += ", shared compound"
	}
	return res
}
