// C12, gasedge part: the gas limit at its edges when SYSCALL handlers charge.
//
// Gas is consumed on two paths: the price of every instruction (price getter,
// compared with the limit before the instruction runs) and what handlers add
// through AddDatoshi/AddPicoGas. Under the ordinary configurations the first
// instruction's price already exceeds a limit of 0 or 1, so the second path
// never decides at those limits. Here small programs around charging syscalls
// (amounts 0..7 datoshi x {0, 1, 9999, 10000, 10001} picoGAS, either order)
// run under four price configurations - no price getter at all, a price getter
// that prices everything at 0, 1.0001 datoshi per unit, 30 datoshi per unit -
// and under unlimited gas and the limits 0, 1, 3, need-1, need, stepped and
// with Run(). A limit of exactly 0 is a finite limit: a run that halts must
// have consumed nothing.
package c12

import (
	"fmt"

	"github.com/nspcc-dev/neo-go/pkg/util"
	"github.com/nspcc-dev/neo-go/pkg/vm/opcode"

	"verif/lib/vk"
)

type gasProg struct {
	name  string
	build func(a *asm, sys func(a *asm))
	loop  bool
	other []byte // a script for the loader's slot 0 (nil: none)
}

func gasProgs() []gasProg {
	chargeOnly := &asm{}
	chargeOnly.op(opcode.SYSCALL)
	chargeOnly.raw(gid(1, 1, 0)...)
	chargeOnly.op(opcode.PUSH1, opcode.RET)
	return []gasProg{
		{name: "syscall-only", build: func(a *asm, sys func(a *asm)) { sys(a) }},
		{name: "syscall-ret", build: func(a *asm, sys func(a *asm)) { sys(a); a.op(opcode.RET) }},
		{name: "push-syscall-drop", build: func(a *asm, sys func(a *asm)) { a.op(opcode.PUSH1); sys(a); a.op(opcode.DROP) }},
		{name: "syscall-twice", build: func(a *asm, sys func(a *asm)) { sys(a); sys(a) }},
		{name: "nop-syscall-nop", build: func(a *asm, sys func(a *asm)) { a.op(opcode.NOP); sys(a); a.op(opcode.NOP) }},
		{name: "syscall-loop", loop: true, build: func(a *asm, sys func(a *asm)) {
			l := a.newLabel()
			a.here(l)
			sys(a)
			a.jmp(opcode.JMP, l)
		}},
		{name: "syscall-in-try", build: func(a *asm, sys func(a *asm)) {
			c, e := a.newLabel(), a.newLabel()
			a.try(opcode.TRY, c, -1)
			sys(a)
			a.jmp(opcode.ENDTRY, e)
			a.here(c)
			a.op(opcode.DROP)
			a.jmp(opcode.ENDTRY, e)
			a.here(e)
			a.op(opcode.RET)
		}},
		{name: "syscall-in-called-frame", build: func(a *asm, sys func(a *asm)) {
			f := a.newLabel()
			a.jmp(opcode.CALL, f)
			a.op(opcode.RET)
			a.here(f)
			sys(a)
			a.op(opcode.RET)
		}},
		{name: "syscall-in-loaded-script", other: chargeOnly.bytes(), build: func(a *asm, sys func(a *asm)) {
			a.op(opcode.SYSCALL)
			a.raw(xid(idxMain, 0, 1)...) // the load itself charges loadDatoshi + loadPico
			sys(a)
		}},
		{name: "ten-syscalls", build: func(a *asm, sys func(a *asm)) {
			for i := 0; i < 10; i++ {
				sys(a)
			}
		}},
	}
}

type gasOut struct {
	programs, configs int
	halts, faults     int64 // final states under unlimited gas
}

func gasedgePart(s *stats) (out gasOut) {
	type job struct {
		name   string
		script []byte
		tmpl   cfg
		opts   execOpts
	}
	var jobs []job
	prices := []struct {
		n string
		c cfg
	}{{"no-price-getter", cfg{}}, {"zero-price-getter", cfg{ZeroPrice: true}}, {"1.0001-datoshi", cfg{Base: rawBase}}, {"30-datoshi", cfg{Base: deepBase}}}
	out.configs = len(prices)
	for _, gp := range gasProgs() {
		for _, d := range []int{0, 1, 2, 7} {
			for pi := range gasPico {
				for fl := 0; fl <= 1; fl++ {
					a := &asm{}
					gp.build(a, func(a *asm) { a.op(opcode.SYSCALL); a.raw(gid(d, pi, fl)...) })
					script := a.bytes()
					for _, pr := range prices {
						c := pr.c
						c.MaxSteps = 300
						o := execOpts{mark: -1, tbl: []loaded{}, charges: d > 0 || gasPico[pi] >= picoPerDat-1} // at least 0.9999 datoshi per iteration: limit 50 is exceeded within the step budget
						if gp.other != nil {
							o.tbl = []loaded{{script: gp.other, hash: util.Uint160{1}}}
							o.boundsBy = loadedBounds(o.tbl)
						}
						jobs = append(jobs, job{fmt.Sprintf("%s/d%d+p%d/order%d/%s", gp.name, d, gasPico[pi], fl, pr.n), script, c, o})
					}
				}
			}
		}
	}
	out.programs = len(jobs)
	var halts, faults vk.Counter
	const chunk = 64
	s.r.Parallel((len(jobs)+chunk-1)/chunk, func(ci int) {
		w := newWalker()
		for i := ci * chunk; i < min((ci+1)*chunk, len(jobs)); i++ {
			j := jobs[i]
			r0 := s.fullCheckT("gasedge", j.name, nil, j.script, j.tmpl, w, j.opts, false)
			switch r0.State {
			case "HALT":
				halts.Inc()
			case "FAULT":
				faults.Inc()
			}
			if i%211 == 0 {
				s.r.Sample(map[string]any{"part": "gasedge", "name": j.name, "script": fmt.Sprintf("%x", j.script), "unlimited": r0.State, "gas": r0.Gas, "own_picogas": r0.OwnPico})
			}
		}
		s.merge(w)
	})
	out.halts, out.faults = halts.Get(), faults.Get()
	return
}
