// C12: hand-written programs that drive each limit of the property to its edge
// and one past it, and a matrix of integer operations at the 256-bit boundary.
package c12

import (
	"fmt"
	"math/big"

	"github.com/nspcc-dev/neo-go/pkg/vm"
	"github.com/nspcc-dev/neo-go/pkg/vm/opcode"
	"github.com/nspcc-dev/neo-go/pkg/vm/stackitem"

	"verif/lib/vk"
)

type limitProg struct {
	name   string
	script []byte
	want   string // expected final state under unlimited gas ("" = any); a miss is a harness note, not a violation
	walk   int    // the run has to reach at least this many really reachable items (0 = no target)
	invoc  int    // ... this invocation depth
	try    int    // ... this try depth
}

// loop emits: local0 = 0; do { body } while (++local0 < n). Needs INITSLOT with >= 1 local.
func loop(a *asm, n int, body func()) {
	a.op(opcode.PUSH0, opcode.STLOC0)
	l := a.newLabel()
	a.here(l)
	body()
	a.op(opcode.LDLOC0, opcode.INC, opcode.DUP, opcode.STLOC0)
	a.pushInt(int64(n))
	a.jmp(opcode.JMPLTL, l)
}

func mk(name string, want string, walk, invoc, try int, f func(a *asm)) limitProg {
	a := &asm{}
	f(a)
	return limitProg{name: name, script: a.bytes(), want: want, walk: walk, invoc: invoc, try: try}
}

func initLocals(a *asm, n byte) { a.op(opcode.INITSLOT); a.raw(n, 0) }

func limitProgs() []limitProg {
	var ps []limitProg
	add := func(p limitProg) { ps = append(ps, p) }
	const max = stackitem.MaxSize

	// ---- A: 2048 items ----
	add(mk("items/push-loop", "FAULT", 2048, 0, 0, func(a *asm) {
		l := a.newLabel()
		a.here(l)
		a.op(opcode.PUSH1)
		a.jmp(opcode.JMP, l)
	}))
	for _, n := range []int{2044, 2045, 2046} {
		want, walk := "HALT", n+3
		if n+3 > 2048 {
			want, walk = "FAULT", 2048
		}
		add(mk(fmt.Sprintf("items/fill-%d", n), want, walk, 0, 0, func(a *asm) {
			initLocals(a, 1)
			loop(a, n, func() { a.op(opcode.PUSHNULL) })
		}))
	}
	for _, n := range []int{2047, 2048} {
		want, walk := "HALT", 2048
		if n == 2048 {
			want, walk = "FAULT", 1
		}
		add(mk(fmt.Sprintf("items/newarray-%d", n), want, walk, 0, 0, func(a *asm) { a.pushInt(int64(n)); a.op(opcode.NEWARRAY) }))
		add(mk(fmt.Sprintf("items/newstruct-%d", n), want, walk, 0, 0, func(a *asm) { a.pushInt(int64(n)); a.op(opcode.NEWSTRUCT) }))
		add(mk(fmt.Sprintf("items/newarray_t-int-%d", n), want, walk, 0, 0, func(a *asm) {
			a.pushInt(int64(n))
			a.op(opcode.NEWARRAYT)
			a.raw(byte(stackitem.IntegerT))
		}))
		add(mk(fmt.Sprintf("items/newarray_t-bytes-%d", n), want, walk, 0, 0, func(a *asm) {
			a.pushInt(int64(n))
			a.op(opcode.NEWARRAYT)
			a.raw(byte(stackitem.ByteArrayT))
		}))
	}
	add(mk("items/newarray-2049", "FAULT", 0, 0, 0, func(a *asm) { a.pushInt(2049); a.op(opcode.NEWARRAY) }))
	add(mk("items/newarray-2047-dup", "FAULT", 2048, 0, 0, func(a *asm) { a.pushInt(2047); a.op(opcode.NEWARRAY, opcode.DUP) }))
	for _, n := range []int{1023, 1024} {
		want := "HALT"
		if n == 1024 {
			want = "FAULT"
		}
		add(mk(fmt.Sprintf("items/newarray-%d-dup-unpack", n), want, n+2, 0, 0, func(a *asm) {
			a.pushInt(int64(n))
			a.op(opcode.NEWARRAY, opcode.DUP, opcode.UNPACK)
		}))
		add(mk(fmt.Sprintf("items/newstruct-%d-dup-unpack", n), want, n+2, 0, 0, func(a *asm) {
			a.pushInt(int64(n))
			a.op(opcode.NEWSTRUCT, opcode.DUP, opcode.UNPACK)
		}))
	}
	add(mk("items/newarray-2046-unpack-pack", "HALT", 2047, 0, 0, func(a *asm) {
		a.pushInt(2046)
		a.op(opcode.NEWARRAY, opcode.UNPACK, opcode.PACK, opcode.DUP)
	}))
	for _, n := range []int{2043, 2044, 2045} {
		want, walk := "HALT", n+4
		if n+4 > 2048 {
			want, walk = "FAULT", 2048
		}
		add(mk(fmt.Sprintf("items/append-loop-%d", n), want, walk, 0, 0, func(a *asm) {
			initLocals(a, 1)
			a.op(opcode.NEWARRAY0)
			loop(a, n, func() { a.op(opcode.DUP, opcode.PUSH1, opcode.APPEND) })
		}))
		add(mk(fmt.Sprintf("items/struct-append-loop-%d", n), want, walk, 0, 0, func(a *asm) {
			initLocals(a, 1)
			a.op(opcode.NEWSTRUCT0)
			loop(a, n, func() { a.op(opcode.DUP, opcode.PUSHNULL, opcode.APPEND) })
		}))
		add(mk(fmt.Sprintf("items/nest-loop-%d", n), want, walk, 0, 0, func(a *asm) {
			initLocals(a, 1)
			a.op(opcode.NEWARRAY0)
			loop(a, n, func() { a.op(opcode.PUSH1, opcode.PACK) })
		}))
	}
	add(mk("items/struct-clone-on-append", "FAULT", 1800, 0, 0, func(a *asm) {
		a.pushInt(600)
		a.op(opcode.NEWSTRUCT, opcode.NEWARRAY0)
		for i := 0; i < 4; i++ {
			a.op(opcode.DUP, opcode.PUSH2, opcode.PICK, opcode.APPEND)
		}
	}))
	add(mk("items/struct-clone-on-setitem", "FAULT", 1800, 0, 0, func(a *asm) {
		a.pushInt(600)
		a.op(opcode.NEWSTRUCT, opcode.PUSH4, opcode.NEWARRAY)
		for i := 0; i < 4; i++ { // a[i] = clone(s)
			a.op(opcode.DUP)
			a.pushInt(int64(i))
			a.op(opcode.PUSH3, opcode.PICK, opcode.SETITEM)
		}
	}))
	for _, n := range []int{1021, 1022, 1023} {
		want, walk := "HALT", 2*n+4
		if 2*n+3 > 2048 {
			want, walk = "FAULT", 2046
		}
		add(mk(fmt.Sprintf("items/map-fill-%d", n), want, walk, 0, 0, func(a *asm) {
			initLocals(a, 1)
			a.op(opcode.NEWMAP)
			loop(a, n, func() { a.op(opcode.DUP, opcode.LDLOC0, opcode.DUP, opcode.SETITEM) })
		}))
	}
	for _, n := range []int{450, 700} {
		want, walk := "HALT", 1800
		if n == 700 {
			want, walk = "FAULT", 1400
		}
		add(mk(fmt.Sprintf("items/map-%d-keys-values", n), want, walk, 0, 0, func(a *asm) {
			initLocals(a, 1)
			a.op(opcode.NEWMAP)
			loop(a, n, func() { a.op(opcode.DUP, opcode.LDLOC0, opcode.DUP, opcode.SETITEM) })
			a.op(opcode.DUP, opcode.KEYS, opcode.DROP, opcode.DUP, opcode.VALUES, opcode.DROP, opcode.DUP, opcode.UNPACK)
		}))
	}
	add(mk("items/map-overwrite-loop", "HALT", 0, 0, 0, func(a *asm) {
		initLocals(a, 1)
		a.op(opcode.NEWMAP)
		loop(a, 3000, func() { a.op(opcode.DUP, opcode.PUSH1, opcode.NEWARRAY0, opcode.SETITEM) }) // m[1] = [] again and again
	}))
	add(mk("items/shared-big", "HALT", 1000, 0, 0, func(a *asm) {
		a.op(opcode.INITSSLOT)
		a.raw(1)
		a.op(opcode.INITSLOT)
		a.raw(2, 0)
		a.pushInt(1000)
		a.op(opcode.NEWARRAY, opcode.DUP, opcode.STLOC1, opcode.DUP, opcode.STSFLD0) // x on stack, in a local, in a static
		a.op(opcode.DUP, opcode.PUSH1, opcode.PACK)                                  // [x]
		a.op(opcode.DUP, opcode.PUSH1, opcode.PACKSTRUCT)                            // {[x]}
		a.op(opcode.DUP, opcode.PUSH0, opcode.PICKITEM, opcode.PUSH0, opcode.REMOVE) // [x] -> []: x removed one way
		a.op(opcode.DROP, opcode.DROP, opcode.DROP)                                  // x still in the slots
		a.op(opcode.LDLOC1, opcode.UNPACK, opcode.PACK)                              // referenced UNPACK of x, repacked
		a.op(opcode.PUSHNULL, opcode.STLOC1, opcode.PUSHNULL, opcode.STSFLD0)        // x dies
		a.op(opcode.CLEARITEMS)
	}))
	add(mk("items/values-clones-structs", "FAULT", 1600, 0, 0, func(a *asm) {
		initLocals(a, 1)
		a.pushInt(40)
		a.op(opcode.NEWSTRUCT, opcode.NEWARRAY0)
		loop(a, 20, func() { a.op(opcode.DUP, opcode.PUSH2, opcode.PICK, opcode.APPEND) })
		a.op(opcode.DUP, opcode.VALUES, opcode.DUP, opcode.VALUES)
	}))
	add(mk("items/pack-2040", "HALT", 2042, 0, 0, func(a *asm) {
		initLocals(a, 1)
		loop(a, 2040, func() { a.op(opcode.PUSHNULL) })
		a.pushInt(2040)
		a.op(opcode.PACK, opcode.DUP, opcode.SIZE, opcode.DROP, opcode.CLEAR)
	}))
	add(mk("items/pack-1000-unpack", "HALT", 2003, 0, 0, func(a *asm) {
		initLocals(a, 1)
		loop(a, 1000, func() { a.op(opcode.PUSHNULL) })
		a.pushInt(1000)
		a.op(opcode.PACK, opcode.DUP, opcode.UNPACK, opcode.DROP, opcode.CLEAR)
	}))
	add(mk("items/packmap-1000", "HALT", 2002, 0, 0, func(a *asm) {
		initLocals(a, 1)
		loop(a, 1000, func() { a.op(opcode.PUSHNULL, opcode.LDLOC0) })
		a.pushInt(1000)
		a.op(opcode.PACKMAP, opcode.DUP, opcode.CLEARITEMS)
	}))
	add(mk("items/packmap-equal-keys", "HALT", 1001, 0, 0, func(a *asm) {
		initLocals(a, 1)
		loop(a, 500, func() { a.op(opcode.NEWARRAY0, opcode.PUSH7) }) // 500 pairs, all with key 7
		a.pushInt(500)
		a.op(opcode.PACKMAP)
	}))
	add(mk("items/popitem-loop", "HALT", 1000, 0, 0, func(a *asm) {
		initLocals(a, 1)
		a.pushInt(1000)
		a.op(opcode.NEWARRAY)
		loop(a, 1000, func() { a.op(opcode.DUP, opcode.POPITEM, opcode.DROP) })
	}))
	add(mk("items/remove-from-shared-struct", "HALT", 500, 0, 0, func(a *asm) {
		initLocals(a, 2)
		a.pushInt(500)
		a.op(opcode.NEWSTRUCT, opcode.DUP, opcode.STLOC1, opcode.DUP, opcode.PUSH1, opcode.PACK) // s in local 1 and inside an array
		loop(a, 500, func() { a.op(opcode.LDLOC1, opcode.PUSH0, opcode.REMOVE) })
	}))
	add(mk("items/cycle-then-fill", "FAULT", 1000, 0, 0, func(a *asm) {
		a.pushInt(1000)
		a.op(opcode.NEWARRAY, opcode.DUP, opcode.DUP, opcode.APPEND, opcode.DROP) // a contains a; dropped: an unreachable ring stays counted
		l := a.newLabel()
		a.here(l)
		a.op(opcode.PUSH1)
		a.jmp(opcode.JMP, l)
	}))
	add(mk("items/map-self-remove", "", 0, 0, 0, func(a *asm) { // m[0] = m, then removed through the last outside reference
		a.op(opcode.NEWMAP, opcode.DUP, opcode.PUSH0, opcode.OVER, opcode.SETITEM, opcode.PUSH0, opcode.REMOVE)
	}))
	add(mk("items/array-self-remove", "", 0, 0, 0, func(a *asm) {
		a.op(opcode.PUSH1, opcode.NEWARRAY, opcode.DUP, opcode.PUSH0, opcode.OVER, opcode.SETITEM, opcode.PUSH0, opcode.REMOVE)
	}))
	add(mk("items/map-self-clearitems", "", 0, 0, 0, func(a *asm) {
		a.op(opcode.NEWMAP, opcode.DUP, opcode.PUSH0, opcode.OVER, opcode.SETITEM, opcode.CLEARITEMS)
	}))
	add(mk("items/reverse-clear-2046", "HALT", 2048, 0, 0, func(a *asm) {
		a.pushInt(2046)
		a.op(opcode.NEWARRAY, opcode.DUP, opcode.REVERSEITEMS, opcode.DUP, opcode.CLEARITEMS, opcode.CLEAR)
	}))

	// ---- B: 1024 invocations ----
	add(limitProg{name: "invoc/call-self", script: []byte{byte(opcode.CALL), 0}, want: "FAULT", invoc: 1024})
	for locals := byte(1); locals <= 3; locals++ {
		p := limitProg{name: fmt.Sprintf("invoc/initslot-%d-call-self", locals), want: "FAULT",
			script: []byte{byte(opcode.INITSLOT), locals, 0, byte(opcode.CALL), 0xFD}}
		if locals <= 2 {
			p.invoc, p.walk = 1024, 1024*int(locals)
		} else {
			p.walk = 2046
		}
		add(p)
	}
	add(mk("invoc/calla-self", "FAULT", 0, 1024, 0, func(a *asm) {
		l := a.newLabel()
		a.here(l)
		a.jmp(opcode.PUSHA, l)
		a.op(opcode.CALLA)
	}))
	for _, d := range []int{1023, 1024} {
		want := "HALT"
		if d == 1024 {
			want = "FAULT"
		}
		add(mk(fmt.Sprintf("invoc/counted-recursion-%d", d), want, 0, 1024, 0, func(a *asm) {
			f, end := a.newLabel(), a.newLabel()
			a.op(opcode.INITSSLOT)
			a.raw(1)
			a.op(opcode.PUSH0, opcode.STSFLD0)
			a.jmp(opcode.CALL, f)
			a.op(opcode.RET)
			a.here(f)
			a.op(opcode.LDSFLD0, opcode.INC, opcode.DUP, opcode.STSFLD0)
			a.pushInt(int64(d))
			a.jmp(opcode.JMPGE, end)
			a.jmp(opcode.CALL, f)
			a.here(end)
			a.op(opcode.RET)
		}))
	}
	add(mk("invoc/throw-through-1000-frames", "HALT", 1000, 1001, 1, func(a *asm) {
		f, c, e, thr := a.newLabel(), a.newLabel(), a.newLabel(), a.newLabel()
		a.op(opcode.INITSSLOT)
		a.raw(1)
		a.op(opcode.PUSH0, opcode.STSFLD0, opcode.NEWARRAY0)
		a.try(opcode.TRY, c, -1)
		a.jmp(opcode.CALL, f)
		a.here(c)
		a.jmp(opcode.ENDTRY, e)
		a.here(e)
		a.op(opcode.RET)
		a.here(f) // every frame keeps the shared array in a local
		a.op(opcode.INITSLOT)
		a.raw(1, 0)
		a.op(opcode.DUP, opcode.STLOC0, opcode.LDSFLD0, opcode.INC, opcode.DUP, opcode.STSFLD0)
		a.pushInt(1000)
		a.jmp(opcode.JMPGE, thr)
		a.jmp(opcode.CALL, f)
		a.op(opcode.RET)
		a.here(thr)
		a.op(opcode.DUP, opcode.THROW)
	}))
	add(mk("invoc/finally-chain-500", "HALT", 0, 501, 1, func(a *asm) {
		f, c, x, thr, fin, e := a.newLabel(), a.newLabel(), a.newLabel(), a.newLabel(), a.newLabel(), a.newLabel()
		a.op(opcode.INITSSLOT)
		a.raw(1)
		a.op(opcode.PUSH0, opcode.STSFLD0)
		a.try(opcode.TRY, c, -1)
		a.jmp(opcode.CALL, f)
		a.jmp(opcode.ENDTRY, x)
		a.here(c)
		a.jmp(opcode.ENDTRY, x)
		a.here(x)
		a.op(opcode.RET)
		a.here(f)
		a.op(opcode.LDSFLD0, opcode.INC, opcode.DUP, opcode.STSFLD0)
		a.pushInt(500)
		a.jmp(opcode.JMPGE, thr)
		a.try(opcode.TRY, -1, fin)
		a.jmp(opcode.CALL, f)
		a.jmp(opcode.ENDTRY, e)
		a.here(fin)
		a.op(opcode.ENDFINALLY)
		a.here(e)
		a.op(opcode.RET)
		a.here(thr)
		a.op(opcode.NEWSTRUCT0, opcode.THROW)
	}))

	// ---- C: 16 nested try blocks ----
	add(mk("try/loop", "FAULT", 0, 0, 16, func(a *asm) {
		l, c := a.newLabel(), a.newLabel()
		a.here(l)
		a.try(opcode.TRY, c, -1)
		a.jmp(opcode.JMP, l)
		a.here(c)
		a.op(opcode.RET)
	}))
	add(mk("try/loop-long-form-finally", "FAULT", 0, 0, 16, func(a *asm) {
		l, c := a.newLabel(), a.newLabel()
		a.here(l)
		a.try(opcode.TRYL, -1, c)
		a.jmp(opcode.JMPL, l)
		a.here(c)
		a.op(opcode.ENDFINALLY)
	}))
	for _, n := range []int{16, 17} {
		want := "HALT"
		if n == 17 {
			want = "FAULT"
		}
		add(mk(fmt.Sprintf("try/nest-%d-endtry", n), want, 0, 0, 16, func(a *asm) {
			c := a.newLabel()
			for i := 0; i < n; i++ {
				a.try(opcode.TRY, c, -1)
			}
			for i := 0; i < n; i++ {
				nx := a.newLabel()
				a.jmp(opcode.ENDTRY, nx)
				a.here(nx)
			}
			a.op(opcode.RET)
			a.here(c)
			a.op(opcode.RET)
		}))
	}
	add(mk("try/nest-16-rethrow-chain", "HALT", 0, 0, 16, func(a *asm) {
		cs := make([]int, 16)
		for i := range cs {
			cs[i] = a.newLabel()
			a.try(opcode.TRY, cs[i], -1)
		}
		a.op(opcode.NEWARRAY0, opcode.DUP, opcode.THROW)
		for i := 15; i >= 1; i-- {
			a.here(cs[i])
			a.op(opcode.THROW)
		}
		e := a.newLabel()
		a.here(cs[0])
		a.jmp(opcode.ENDTRY, e)
		a.here(e)
		a.op(opcode.RET)
	}))
	add(mk("try/16-in-each-of-3-frames", "HALT", 0, 3, 16, func(a *asm) {
		c := a.newLabel()
		fs := []int{a.newLabel(), a.newLabel()}
		for fr := 0; fr < 3; fr++ {
			if fr > 0 {
				a.here(fs[fr-1])
			}
			for i := 0; i < 16; i++ {
				a.try(opcode.TRYL, c, -1)
			}
			if fr < 2 {
				a.jmp(opcode.CALLL, fs[fr])
			}
			a.op(opcode.RET) // RET with open try blocks
		}
		a.here(c)
		a.op(opcode.RET)
	}))
	add(mk("try/throw-inside-finally", "HALT", 0, 0, 2, func(a *asm) {
		c, f, e := a.newLabel(), a.newLabel(), a.newLabel()
		a.try(opcode.TRY, c, -1)
		a.try(opcode.TRY, -1, f)
		a.op(opcode.NEWARRAY0, opcode.THROW)
		a.here(f)
		a.op(opcode.NEWMAP, opcode.THROW)
		a.here(c)
		a.jmp(opcode.ENDTRY, e)
		a.here(e)
		a.op(opcode.RET)
	}))

	// ---- D: item size ----
	for _, n := range []int{max, max + 1} {
		want := "HALT"
		if n > max {
			want = "FAULT"
		}
		add(mk(fmt.Sprintf("size/newbuffer-%d", n), want, 0, 0, 0, func(a *asm) { a.pushInt(int64(n)); a.op(opcode.NEWBUFFER) }))
		data := make([]byte, n)
		add(mk(fmt.Sprintf("size/pushdata4-%d", n), want, 0, 0, 0, func(a *asm) { a.pushData(data); a.op(opcode.DUP) }))
	}
	add(mk("size/cat-to-max", "HALT", 0, 0, 0, func(a *asm) {
		a.pushInt(65535)
		a.op(opcode.NEWBUFFER, opcode.DUP, opcode.CAT)
	}))
	add(mk("size/cat-to-max-plus-1", "FAULT", 0, 0, 0, func(a *asm) {
		a.pushInt(65535)
		a.op(opcode.NEWBUFFER, opcode.DUP, opcode.CAT)
		a.pushData([]byte("a"))
		a.op(opcode.CAT)
	}))
	add(mk("size/pushdata2-cat", "FAULT", 0, 0, 0, func(a *asm) {
		a.pushData(make([]byte, 65535))
		a.op(opcode.DUP, opcode.CAT)
		a.pushData(make([]byte, 1))
		a.op(opcode.CAT)
	}))
	for _, n := range []int{16, 17} {
		want := "HALT"
		if n == 17 {
			want = "FAULT"
		}
		add(mk(fmt.Sprintf("size/cat-doubling-%d", n), want, 0, 0, 0, func(a *asm) {
			initLocals(a, 1)
			a.pushData([]byte("a"))
			loop(a, n, func() { a.op(opcode.DUP, opcode.CAT) })
		}))
	}
	add(mk("size/convert-max-and-cat", "FAULT", 0, 0, 0, func(a *asm) {
		a.pushInt(max)
		a.op(opcode.NEWBUFFER, opcode.CONVERT)
		a.raw(byte(stackitem.ByteArrayT))
		a.op(opcode.DUP, opcode.CONVERT)
		a.raw(byte(stackitem.BufferT))
		a.op(opcode.CAT)
	}))
	add(mk("size/substr-left-right-max", "HALT", 0, 0, 0, func(a *asm) {
		a.pushInt(max)
		a.op(opcode.NEWBUFFER, opcode.DUP, opcode.PUSH0)
		a.pushInt(max)
		a.op(opcode.SUBSTR, opcode.DROP, opcode.DUP)
		a.pushInt(max)
		a.op(opcode.LEFT, opcode.DROP, opcode.DUP)
		a.pushInt(max)
		a.op(opcode.RIGHT)
	}))
	add(mk("size/right-max-plus-1", "FAULT", 0, 0, 0, func(a *asm) {
		a.pushInt(max)
		a.op(opcode.NEWBUFFER)
		a.pushInt(max + 1)
		a.op(opcode.RIGHT)
	}))
	add(mk("size/memcpy-max", "HALT", 0, 0, 0, func(a *asm) {
		a.pushInt(max)
		a.op(opcode.NEWBUFFER, opcode.DUP, opcode.PUSH0)
		a.pushInt(max)
		a.op(opcode.NEWBUFFER, opcode.PUSH0)
		a.pushInt(max)
		a.op(opcode.MEMCPY)
	}))
	add(mk("size/int-to-bytes-and-back", "HALT", 0, 0, 0, func(a *asm) {
		a.pushBig(intMin)
		a.op(opcode.CONVERT)
		a.raw(byte(stackitem.ByteArrayT))
		a.op(opcode.DUP, opcode.CONVERT)
		a.raw(byte(stackitem.IntegerT))
		a.op(opcode.SWAP, opcode.CONVERT)
		a.raw(byte(stackitem.BufferT))
		a.op(opcode.CONVERT)
		a.raw(byte(stackitem.IntegerT))
	}))
	add(mk("size/33-byte-string-as-integer", "FAULT", 0, 0, 0, func(a *asm) {
		a.pushData(make([]byte, 33))
		a.op(opcode.INC)
	}))
	add(mk("size/32-byte-max-string-inc", "FAULT", 0, 0, 0, func(a *asm) {
		b := make([]byte, 32)
		for i := range b {
			b[i] = 0xFF
		}
		b[31] = 0x7F
		a.pushData(b)
		a.op(opcode.INC)
	}))
	// ---- E: special cases of single instructions (second time, out of range, nothing to work on) ----
	add(mk("try/both-offsets-zero", "FAULT", 0, 0, 0, func(a *asm) { a.try(opcode.TRY, -1, -1) }))
	add(mk("try/finally-on-the-normal-path", "HALT", 0, 0, 1, func(a *asm) {
		f, e := a.newLabel(), a.newLabel()
		a.try(opcode.TRY, -1, f)
		a.op(opcode.NEWARRAY0)
		a.jmp(opcode.ENDTRY, e)
		a.here(f)
		a.op(opcode.ENDFINALLY)
		a.here(e)
		a.op(opcode.RET)
	}))
	add(mk("try/endtry-inside-finally", "FAULT", 0, 0, 1, func(a *asm) {
		f, e := a.newLabel(), a.newLabel()
		a.try(opcode.TRY, -1, f)
		a.jmp(opcode.ENDTRY, e)
		a.here(f)
		a.jmp(opcode.ENDTRY, e)
		a.here(e)
		a.op(opcode.RET)
	}))
	add(mk("slot/initsslot-twice", "FAULT", 0, 0, 0, func(a *asm) { a.op(opcode.INITSSLOT); a.raw(1); a.op(opcode.INITSSLOT); a.raw(1) }))
	add(mk("slot/initslot-twice", "FAULT", 0, 0, 0, func(a *asm) { initLocals(a, 1); initLocals(a, 1) }))
	add(mk("slot/initslot-args-then-locals", "FAULT", 0, 0, 0, func(a *asm) {
		a.op(opcode.PUSH1, opcode.INITSLOT)
		a.raw(0, 1)
		initLocals(a, 1)
	}))
	add(mk("slot/initslot-0-0", "FAULT", 0, 0, 0, func(a *asm) { initLocals(a, 0) }))
	add(mk("slot/stloc-out-of-range", "FAULT", 0, 0, 0, func(a *asm) { initLocals(a, 1); a.op(opcode.NEWARRAY0, opcode.STLOC); a.raw(1) }))
	add(mk("slot/ldloc-out-of-range", "FAULT", 0, 0, 0, func(a *asm) { initLocals(a, 1); a.op(opcode.LDLOC3) }))
	add(mk("slot/stsfld-uninitialised", "FAULT", 0, 0, 0, func(a *asm) { a.op(opcode.NEWARRAY0, opcode.STSFLD0) }))
	add(mk("sys/syscall-without-handler", "FAULT", 0, 0, 0, func(a *asm) { a.op(opcode.NEWARRAY0, opcode.SYSCALL); a.raw(1, 2, 3, 4) }))
	add(mk("sys/callt-without-token-loader", "FAULT", 0, 0, 0, func(a *asm) { a.op(opcode.NEWARRAY0, opcode.CALLT); a.raw(0, 0) }))
	add(mk("throw/array-with-message-uncaught", "FAULT", 0, 0, 0, func(a *asm) {
		a.pushData([]byte("msg"))
		a.op(opcode.PUSH1, opcode.PACK, opcode.THROW)
	}))
	for _, n := range []int{40, 60} { // a struct of n references to ONE struct of 40: few items, many to clone
		want := "FAULT" // 60: cloning 60 + 60*40 items exceeds MaxClonableNumOfItems
		if n == 40 {
			want = "HALT" // 1640 new items
		}
		add(mk(fmt.Sprintf("clone/fan-out-%dx41", n), want, 0, 0, 0, func(a *asm) {
			a.pushInt(40)
			a.op(opcode.NEWSTRUCT)
			for i := 1; i < n; i++ {
				a.op(opcode.DUP)
			}
			a.pushInt(int64(n))
			a.op(opcode.PACKSTRUCT, opcode.NEWARRAY0, opcode.DUP, opcode.ROT, opcode.APPEND)
		}))
	}
	add(mk("clone/fan-out-20x41", "HALT", 900, 0, 0, func(a *asm) {
		a.pushInt(40)
		a.op(opcode.NEWSTRUCT)
		for i := 1; i < 20; i++ {
			a.op(opcode.DUP)
		}
		a.pushInt(20)
		a.op(opcode.PACKSTRUCT, opcode.NEWARRAY0, opcode.DUP, opcode.ROT, opcode.APPEND, opcode.DUP, opcode.VALUES)
	}))
	for _, n := range []int{40, 60} { // comparing 60 + 60*40 items exceeds MaxComparableNumOfItems
		want := "HALT"
		if n == 60 {
			want = "FAULT"
		}
		add(mk(fmt.Sprintf("equal/fan-out-%dx41", n), want, 0, 0, 0, func(a *asm) {
			for k := 0; k < 2; k++ {
				a.pushInt(40)
				a.op(opcode.NEWSTRUCT)
				for i := 1; i < n; i++ {
					a.op(opcode.DUP)
				}
				a.pushInt(int64(n))
				a.op(opcode.PACKSTRUCT)
			}
			a.op(opcode.EQUAL)
		}))
	}
	for _, n := range []int{2, 3} { // 3 x 30000 bytes exceed MaxByteArrayComparableSize
		want := "HALT"
		if n == 3 {
			want = "FAULT"
		}
		add(mk(fmt.Sprintf("equal/structs-of-%d-big-strings", n), want, 0, 0, 0, func(a *asm) {
			for k := 0; k < 2; k++ {
				for i := 0; i < n; i++ {
					a.pushInt(30000)
					a.op(opcode.NEWBUFFER, opcode.CONVERT)
					a.raw(byte(stackitem.ByteArrayT))
				}
				a.pushInt(int64(n))
				a.op(opcode.PACKSTRUCT)
			}
			a.op(opcode.EQUAL)
		}))
	}
	add(mk("equal/strings-of-65537-bytes", "FAULT", 0, 0, 0, func(a *asm) {
		for k := 0; k < 2; k++ {
			a.pushInt(65537)
			a.op(opcode.NEWBUFFER, opcode.CONVERT)
			a.raw(byte(stackitem.ByteArrayT))
		}
		a.op(opcode.EQUAL)
	}))
	add(mk("equal/small-string-with-65537-bytes", "FAULT", 0, 0, 0, func(a *asm) {
		a.pushData([]byte("a"))
		a.pushInt(65537)
		a.op(opcode.NEWBUFFER, opcode.CONVERT)
		a.raw(byte(stackitem.ByteArrayT))
		a.op(opcode.EQUAL)
	}))
	add(mk("map/remove-first-then-use-second", "HALT", 0, 0, 0, func(a *asm) { // Drop shifts the indices of later keys
		a.op(opcode.NEWMAP)
		for k := int64(0); k < 3; k++ {
			a.op(opcode.DUP)
			a.pushInt(k)
			a.op(opcode.NEWARRAY0, opcode.SETITEM)
		}
		a.op(opcode.DUP, opcode.PUSH0, opcode.REMOVE, opcode.DUP, opcode.PUSH2, opcode.NEWSTRUCT0, opcode.SETITEM, opcode.DUP, opcode.PUSH1, opcode.REMOVE,
			opcode.DUP, opcode.PUSH2, opcode.PICKITEM, opcode.DROP, opcode.DUP, opcode.UNPACK)
	}))
	return ps
}

// ---- integer matrix -------------------------------------------------------------

type namedInt struct {
	n string
	v *big.Int
}

func intValues() []namedInt {
	p := func(k uint) *big.Int { return new(big.Int).Lsh(big.NewInt(1), k) }
	add := func(a *big.Int, d int64) *big.Int { return new(big.Int).Add(a, big.NewInt(d)) }
	neg := func(a *big.Int) *big.Int { return new(big.Int).Neg(a) }
	return []namedInt{
		{"0", big.NewInt(0)}, {"1", big.NewInt(1)}, {"-1", big.NewInt(-1)}, {"2", big.NewInt(2)}, {"-2", big.NewInt(-2)}, {"3", big.NewInt(3)},
		{"255", big.NewInt(255)}, {"256", big.NewInt(256)}, {"2^127", p(127)}, {"2^128", p(128)}, {"-2^128", neg(p(128))}, {"2^254", p(254)},
		{"max", intMax}, {"max-1", add(intMax, -1)}, {"min", intMin}, {"min+1", add(intMin, 1)},
	}
}

func intPrograms() []limitProg {
	vals := intValues()
	unary := []opcode.Opcode{opcode.INVERT, opcode.SIGN, opcode.ABS, opcode.NEGATE, opcode.INC, opcode.DEC, opcode.SQRT, opcode.NOT, opcode.NZ}
	binary := []opcode.Opcode{opcode.AND, opcode.OR, opcode.XOR, opcode.ADD, opcode.SUB, opcode.MUL, opcode.DIV, opcode.MOD, opcode.POW,
		opcode.SHL, opcode.SHR, opcode.MIN, opcode.MAX, opcode.NUMEQUAL, opcode.LT, opcode.GE, opcode.EQUAL}
	ternary := []opcode.Opcode{opcode.MODMUL, opcode.MODPOW, opcode.WITHIN}
	small := []int{0, 1, 2, 3, 4, 9, 12, 14, 15} // indices into vals for the ternary operations
	var ps []limitProg
	for _, op := range unary {
		for _, x := range vals {
			ps = append(ps, mk(fmt.Sprintf("int/%s/%s", op, x.n), "", 0, 0, 0, func(a *asm) { a.pushBig(x.v); a.op(op) }))
		}
	}
	for _, op := range binary {
		for _, x := range vals {
			for _, y := range vals {
				ps = append(ps, mk(fmt.Sprintf("int/%s/%s/%s", op, x.n, y.n), "", 0, 0, 0, func(a *asm) { a.pushBig(x.v); a.pushBig(y.v); a.op(op) }))
			}
		}
	}
	for _, op := range ternary {
		for _, i := range small {
			for _, j := range small {
				for _, k := range small {
					x, y, z := vals[i], vals[j], vals[k]
					ps = append(ps, mk(fmt.Sprintf("int/%s/%s/%s/%s", op, x.n, y.n, z.n), "", 0, 0, 0, func(a *asm) {
						a.pushBig(x.v)
						a.pushBig(y.v)
						a.pushBig(z.v)
						a.op(op)
					}))
				}
			}
		}
	}
	return ps
}

func limitsPart(s *stats) (n int, miss int) {
	hand := limitProgs()
	ps := append(hand, intPrograms()...)
	var missed vk.Counter
	s.r.Parallel(len(ps), func(i int) {
		p := ps[i]
		w := newWalker()
		r0 := s.fullCheck("limits", p.name, nil, p.script, deepBase, 400000, w, execOpts{mark: -1}, false)
		bad := (p.want != "" && r0.State != p.want) || r0.MaxWalk < p.walk || r0.MaxInvoc < p.invoc || r0.MaxTry < p.try
		if bad {
			missed.Inc()
			fmt.Printf("C12 note: limit program %s did not reach its target: state %s (want %q) walk %d/%d invocations %d/%d try %d/%d err=%s\n",
				p.name, r0.State, p.want, r0.MaxWalk, p.walk, r0.MaxInvoc, p.invoc, r0.MaxTry, p.try, r0.Err)
		}
		if p.want != "" {
			s.r.Sample(map[string]any{"part": "limits", "name": p.name, "script_bytes": len(p.script), "unlimited": r0.State, "steps": r0.Steps,
				"max_walk": r0.MaxWalk, "max_vm_counter": r0.MaxRefs, "max_invocations": r0.MaxInvoc, "max_try": r0.MaxTry, "cycle": r0.Cyclic})
		}
		if i < len(hand) && r0.F == nil && r0.Steps <= 6000 {
			s.reuseCheck("limits", p.name, p.script, deepBase, 400000, w, &r0)
		}
		s.merge(w)
	})
	s.apiTotality()
	return len(ps), int(missed.Get())
}

// reuseCheck runs the script again on a VM that executed something else before
// and was Reset() (Reset's contract: "allows to reuse existing VM for subsequent
// executions"): full oracle, and the run has to be the run of a fresh VM.
func (s *stats) reuseCheck(part, name string, script []byte, base int64, budget int, w *walker, fresh *result) {
	bounds, decoded := boundaries(script)
	correct := s.staticOK(part, name, script, nil)
	opts := execOpts{mark: -1, w: w}
	if correct && decoded {
		opts.bounds = bounds
	}
	for k := 1; k <= 3; k++ {
		c := cfg{Gas: -1, Base: base, MaxSteps: budget, Reuse: k}
		rr := exec(script, c, opts)
		w.loc.note(&rr)
		if rr.F == nil && (rr.State != fresh.State || rr.Steps != fresh.Steps || rr.Gas != fresh.Gas || rr.MaxWalk != fresh.MaxWalk || rr.MaxRefs != fresh.MaxRefs || rr.Err != fresh.Err) {
			rr.F = &finding{Kind: "reused-vm-behaves-differently", Site: "at-end", Step: rr.Steps,
				Msg: fmt.Sprintf("after Reset: %s in %d instructions, gas %d, max items %d/%d, err %q; fresh VM: %s in %d, gas %d, max items %d/%d, err %q",
					rr.State, rr.Steps, rr.Gas, rr.MaxWalk, rr.MaxRefs, rr.Err, fresh.State, fresh.Steps, fresh.Gas, fresh.MaxWalk, fresh.MaxRefs, fresh.Err)}
		}
		s.report(part, name, nil, script, c, correct, &rr, nil)
		w.loc.outcome(part+"-reused", c, -1, rr.State)
	}
}

// apiTotality: Run() where there is nothing (left) to run ends in FAULT with an
// error, never in a Go panic.
func (s *stats) apiTotality() {
	w := newWalker()
	for _, tc := range []struct {
		name   string
		script []byte
		load   bool
	}{{"run-without-program", nil, false}, {"run-again-after-halt", []byte{byte(opcode.PUSH1)}, true}, {"run-again-after-fault", []byte{byte(opcode.ABORT)}, true}} {
		v := vm.New()
		res := result{State: "FAULT"}
		var pan any
		if tc.load {
			v.Load(tc.script)
			_, pan = safeRun(v)
		}
		if pan == nil {
			_, pan = safeRun(v)
		}
		if pan != nil {
			res.State = "PANIC"
			res.F = &finding{Kind: "go-panic-escaped-Run", Site: "Run", Msg: fmt.Sprint(pan)}
		} else if st := stateName(v.State()); st != "HALT" && st != "FAULT" {
			res.State = st
			res.F = &finding{Kind: "ended-neither-halt-nor-fault", Site: "Run", Msg: st}
		}
		w.loc.execs++
		s.report("limits", "api/"+tc.name, nil, tc.script, cfg{Gas: 0, UseRun: true}, false, &res, nil)
		w.loc.outcome("limits-api", cfg{UseRun: true}, -1, res.State)
	}
	s.merge(w)
}
