// C12, opmatrix part: every instruction on every combination of operand kinds.
//
// For each opcode the harness pushes one value of each operand kind in every
// combination (35 kinds for one and two operands, 14 for three), once with the
// operands only on the stack and once with every operand also held by an array
// further down (so compounds are "referenced" when the instruction pops them),
// then executes the instruction and lets the script end. Opcodes with an
// immediate operand get every interesting immediate (type bytes, slot indices,
// jump targets). The per-step oracle checks the item accounting of every
// success, failure-with-exception and conversion path; whatever the
// instruction computes is C13's business, not checked here.
// Instructions that consult a hardfork are also run with all hardforks off.
package c12

import (
	"fmt"
	"strings"

	"github.com/nspcc-dev/neo-go/pkg/vm/opcode"
	"github.com/nspcc-dev/neo-go/pkg/vm/stackitem"

	"verif/lib/vk"
)

type vkind struct {
	n    string
	emit func(a *asm, end int)
}

func code(n string, ops ...opcode.Opcode) vkind {
	return vkind{n, func(a *asm, _ int) { a.op(ops...) }}
}

func helper(a *asm, id int) {
	a.op(opcode.SYSCALL)
	a.raw(xid(id, 0, 0)...)
}

func valueKinds() (all, few []vkind) {
	data := func(n string, b []byte) vkind { return vkind{n, func(a *asm, _ int) { a.pushData(b) }} }
	frozen := func(n string, ops ...opcode.Opcode) vkind {
		return vkind{n, func(a *asm, _ int) { a.op(ops...); helper(a, sysFreeze) }}
	}
	all = []vkind{
		code("i0", opcode.PUSH0), code("i1", opcode.PUSH1), code("im1", opcode.PUSHM1), code("i2", opcode.PUSH2),
		{"i2^31", func(a *asm, _ int) { a.raw(byte(opcode.PUSHINT64), 0, 0, 0, 0x80, 0, 0, 0, 0) }},
		{"imax", func(a *asm, _ int) { a.pushBig(intMax) }}, {"imin", func(a *asm, _ int) { a.pushBig(intMin) }},
		{"i256", func(a *asm, _ int) { a.pushInt(256) }},
		data("b0", nil), data("b1", []byte("a")), data("b33", make([]byte, 33)), data("b65", make([]byte, 65)),
		code("u0", opcode.PUSH0, opcode.NEWBUFFER), code("u2", opcode.PUSH2, opcode.NEWBUFFER),
		{"u33", func(a *asm, _ int) { a.pushInt(33); a.op(opcode.NEWBUFFER) }},
		code("n", opcode.PUSHNULL), code("t", opcode.PUSHT), code("f", opcode.PUSHF),
		code("a0", opcode.NEWARRAY0), code("a2", opcode.PUSH2, opcode.NEWARRAY),
		code("s0", opcode.NEWSTRUCT0), code("s2", opcode.PUSH2, opcode.NEWSTRUCT), code("ss", opcode.PUSH1, opcode.NEWSTRUCT, opcode.PUSH1, opcode.PACKSTRUCT),
		{"sb", func(a *asm, _ int) {
			a.op(opcode.PUSH1)
			a.pushData([]byte("a"))
			a.op(opcode.PUSH2, opcode.PACKSTRUCT)
		}}, // {"a", 1}
		{"sd", func(a *asm, _ int) {
			a.op(opcode.PUSH2)
			a.pushData([]byte("a"))
			a.op(opcode.PUSH2, opcode.PACKSTRUCT)
		}}, // {"a", 2}
		code("sn", opcode.PUSH1, opcode.PUSH1, opcode.PACKSTRUCT, opcode.PUSH1, opcode.PACKSTRUCT), // {{1}}; ss is {{null}}
		code("m0", opcode.NEWMAP), code("m2", opcode.PUSHNULL, opcode.PUSH1, opcode.NEWARRAY0, opcode.PUSH0, opcode.PUSH2, opcode.PACKMAP),
		{"p", func(a *asm, end int) { a.jmp(opcode.PUSHA, end) }},
		{"x", func(a *asm, _ int) { helper(a, sysInterop) }},
		frozen("ra", opcode.NEWARRAY0, opcode.DUP, opcode.PUSH2, opcode.PACK), // the same array twice inside
		frozen("rm", opcode.PUSH1, opcode.PUSH0, opcode.PUSH1, opcode.PACKMAP),
		{"rs", func(a *asm, end int) { // a struct holding one primitive of every kind
			a.pushData([]byte("a"))
			a.op(opcode.PUSH1, opcode.NEWBUFFER, opcode.PUSHT, opcode.PUSHNULL)
			a.jmp(opcode.PUSHA, end)
			a.op(opcode.PUSH5, opcode.PACKSTRUCT)
			helper(a, sysFreeze)
		}},
	}
	pick := map[string]bool{"i0": true, "i1": true, "im1": true, "i256": true, "i2^31": true, "b1": true, "u2": true, "n": true, "a2": true, "s2": true, "m2": true, "x": true, "ra": true, "rm": true}
	for _, k := range all {
		if pick[k.n] {
			few = append(few, k)
		}
	}
	return
}

// stack operands that name an instruction's behaviour (1 unless listed)
func operands(op opcode.Opcode) int {
	switch op {
	case opcode.ROT, opcode.REVERSE3, opcode.REVERSE4, opcode.SUBSTR, opcode.MODMUL, opcode.MODPOW, opcode.WITHIN, opcode.SETITEM, opcode.PACKMAP:
		return 3
	case opcode.NIP, opcode.XDROP, opcode.OVER, opcode.PICK, opcode.TUCK, opcode.SWAP, opcode.ROLL, opcode.REVERSEN, opcode.CAT, opcode.LEFT, opcode.RIGHT,
		opcode.EQUAL, opcode.NOTEQUAL, opcode.PICKITEM, opcode.APPEND, opcode.REMOVE, opcode.HASKEY, opcode.ASSERTMSG, opcode.PACK, opcode.PACKSTRUCT,
		opcode.CLEAR, opcode.DEPTH, opcode.BOOLAND, opcode.BOOLOR, opcode.NUMEQUAL, opcode.NUMNOTEQUAL, opcode.LT, opcode.LE, opcode.GT, opcode.GE, opcode.MIN, opcode.MAX,
		opcode.AND, opcode.OR, opcode.XOR, opcode.ADD, opcode.SUB, opcode.MUL, opcode.DIV, opcode.MOD, opcode.POW, opcode.SHL, opcode.SHR,
		opcode.JMPEQ, opcode.JMPNE, opcode.JMPGT, opcode.JMPGE, opcode.JMPLT, opcode.JMPLE, opcode.JMPEQL, opcode.JMPNEL, opcode.JMPGTL, opcode.JMPGEL, opcode.JMPLTL, opcode.JMPLEL:
		return 2
	}
	return 1
}

type opForm struct {
	name string
	op   opcode.Opcode
	emit func(a *asm) // the instruction with its immediate
	noHF bool         // also run with the hardforks off
}

func opForms() []opForm {
	var out []opForm
	types := []byte{byte(stackitem.AnyT), byte(stackitem.PointerT), byte(stackitem.BooleanT), byte(stackitem.IntegerT), byte(stackitem.ByteArrayT),
		byte(stackitem.BufferT), byte(stackitem.ArrayT), byte(stackitem.StructT), byte(stackitem.MapT), byte(stackitem.InteropT), 0x07, 0xFF}
	for i := 0; i < 256; i++ {
		op := opcode.Opcode(i)
		switch {
		case operand[i] < 0, op == opcode.MEMCPY:
		case operand[i] == 0:
			out = append(out, opForm{name: op.String(), op: op, emit: func(a *asm) { a.op(op) },
				noHF: op == opcode.SHL || op == opcode.SHR || op == opcode.HASKEY})
		case op == opcode.ISTYPE || op == opcode.CONVERT || op == opcode.NEWARRAYT:
			for _, t := range types {
				out = append(out, opForm{name: fmt.Sprintf("%s:%02x", op, t), op: op, emit: func(a *asm) { a.op(op); a.raw(t) }})
			}
		case op >= opcode.JMP && op <= opcode.JMPLEL: // both ways land on an instruction
			out = append(out, opForm{name: op.String(), op: op, emit: func(a *asm) {
				l := a.newLabel()
				a.jmp(op, l)
				a.op(opcode.NOP)
				a.here(l)
				a.op(opcode.NOP)
			}})
		case op == opcode.LDSFLD || op == opcode.STSFLD || op == opcode.LDLOC || op == opcode.STLOC || op == opcode.LDARG || op == opcode.STARG:
			for _, idx := range []byte{0, 1, 2, 255} {
				out = append(out, opForm{name: fmt.Sprintf("%s:%d", op, idx), op: op, emit: func(a *asm) { a.op(op); a.raw(idx) }})
			}
		case op == opcode.INITSSLOT:
			for _, n := range []byte{0, 1, 255} {
				out = append(out, opForm{name: fmt.Sprintf("%s:%d", op, n), op: op, emit: func(a *asm) { a.op(op); a.raw(n) }})
			}
		case op == opcode.INITSLOT:
			for _, la := range [][2]byte{{0, 0}, {1, 0}, {0, 1}, {1, 1}, {0, 2}, {255, 255}} {
				out = append(out, opForm{name: fmt.Sprintf("%s:%d,%d", op, la[0], la[1]), op: op, emit: func(a *asm) { a.op(op); a.raw(la[0], la[1]) }})
			}
		}
	}
	return out
}

// sameTwice: the second operand is the first one again (DUP): the "is it the
// very same item" paths of comparisons, and containers inserted into themselves.
var sameTwice = vkind{"=", func(a *asm, _ int) { a.op(opcode.DUP) }}

type mprog struct {
	name   string
	script []byte
	noHF   bool
}

// matrixProgram: [slots] values [PACK DUP UNPACK DROP] instruction; end: RET.
// slots: the program starts with INITSSLOT 2 / INITSLOT 2,2 (two Null
// arguments), so that the slot instructions have something to work on.
func matrixProgram(f opForm, vals []vkind, referenced, slots bool) []byte {
	a := &asm{}
	end := a.newLabel()
	if slots {
		a.op(opcode.INITSSLOT)
		a.raw(2)
		a.op(opcode.PUSHNULL, opcode.NEWARRAY0, opcode.INITSLOT)
		a.raw(2, 2)
		a.op(opcode.NEWMAP, opcode.STLOC0, opcode.NEWSTRUCT0, opcode.STSFLD1)
	}
	if f.op == opcode.REVERSE4 {
		a.op(opcode.NEWARRAY0)
	}
	for _, v := range vals {
		v.emit(a, end)
	}
	if referenced {
		a.pushInt(int64(len(vals)))
		a.op(opcode.PACK, opcode.DUP, opcode.UNPACK, opcode.DROP)
	}
	f.emit(a)
	a.here(end)
	a.op(opcode.RET)
	return a.bytes()
}

func isSlotOp(op opcode.Opcode) bool {
	return op >= opcode.INITSSLOT && op <= opcode.STARG
}

func matrixPrograms() []mprog {
	all, few := valueKinds()
	var out []mprog
	add := func(f opForm, vals []vkind) {
		names := make([]string, len(vals))
		for i, v := range vals {
			names[i] = v.n
		}
		base := f.name + "(" + strings.Join(names, ",") + ")"
		for _, ref := range []bool{false, true} {
			n := base
			if ref {
				n += "/held"
			}
			if isSlotOp(f.op) {
				out = append(out, mprog{n + "/slots", matrixProgram(f, vals, ref, true), false})
				if f.op != opcode.INITSLOT && f.op != opcode.INITSSLOT {
					continue
				}
			}
			sc := matrixProgram(f, vals, ref, false)
			out = append(out, mprog{n, sc, false})
			if f.noHF {
				out = append(out, mprog{n + "/nohf", sc, true})
			}
		}
	}
	for _, f := range opForms() {
		switch operands(f.op) {
		case 1:
			for _, x := range all {
				add(f, []vkind{x})
			}
		case 2:
			for _, x := range all {
				add(f, []vkind{x, sameTwice})
				for _, y := range all {
					add(f, []vkind{x, y})
				}
			}
		case 3:
			for _, x := range few {
				for _, y := range few {
					for _, z := range few {
						add(f, []vkind{x, y, z})
					}
				}
			}
		}
	}
	// MEMCPY(dst, di, src, si, n)
	pickK := func(names ...string) []vkind {
		var r []vkind
		for _, n := range names {
			for _, k := range all {
				if k.n == n {
					r = append(r, k)
				}
			}
		}
		return r
	}
	mem := opForm{name: "MEMCPY", op: opcode.MEMCPY, emit: func(a *asm) { a.op(opcode.MEMCPY) }}
	for _, dst := range pickK("u2", "u0", "b1", "n", "a2") {
		for _, di := range pickK("im1", "i0", "i2") {
			for _, src := range pickK("b1", "u2", "b33", "n", "m0") {
				for _, si := range pickK("im1", "i0", "i2") {
					for _, n := range pickK("im1", "i0", "i1", "i2", "i2^31") {
						add(mem, []vkind{dst, di, src, si, n})
					}
				}
			}
		}
	}
	return out
}

func opmatrixPart(s *stats) (n int) {
	ps := matrixPrograms()
	var done vk.Counter
	const chunk = 512
	s.r.Parallel((len(ps)+chunk-1)/chunk, func(c int) {
		w := newWalker()
		for i := c * chunk; i < min((c+1)*chunk, len(ps)); i++ {
			if i%64 == 0 && s.r.Expired() {
				break
			}
			p := ps[i]
			opts := execOpts{mark: -1, tbl: []loaded{}}
			r0 := s.fullCheckCfg("opmatrix", p.name, p.script, cfg{Gas: -1, Base: deepBase, MaxSteps: 5000, NoHF: p.noHF}, w, opts)
			done.Inc()
			if i%20011 == 0 {
				s.r.Sample(map[string]any{"part": "opmatrix", "name": p.name, "script": fmt.Sprintf("%x", p.script), "unlimited": r0.State, "steps": r0.Steps, "err": r0.Err})
			}
		}
		s.merge(w)
	})
	return int(done.Get())
}
