// C12: the runner and the oracle shared by all parts.
//
// A script is executed with Step(), one instruction at a time; after every
// instruction that did not fault the whole machine state is walked
// independently of the VM's own item counter and compared with it.
package c12

import (
	"crypto/sha256"
	"encoding/hex"
	"fmt"
	"math/big"
	"reflect"
	"strconv"
	"unsafe"

	"github.com/nspcc-dev/neo-go/pkg/config"
	"github.com/nspcc-dev/neo-go/pkg/core/fee"
	"github.com/nspcc-dev/neo-go/pkg/smartcontract/trigger"
	"github.com/nspcc-dev/neo-go/pkg/util"
	"github.com/nspcc-dev/neo-go/pkg/vm"
	"github.com/nspcc-dev/neo-go/pkg/vm/opcode"
	"github.com/nspcc-dev/neo-go/pkg/vm/stackitem"
	"github.com/nspcc-dev/neo-go/pkg/vm/vmstate"
)

// ---- limits of the property (written out, not taken from the code) -----------

const (
	limItems   = 2048
	limInvoc   = 1024
	limTry     = 16
	limBytes   = 65535 * 2
	picoPerDat = 10000
)

var (
	intMax = new(big.Int).Sub(new(big.Int).Lsh(big.NewInt(1), 255), big.NewInt(1)) // 2^255-1
	intMin = new(big.Int).Neg(new(big.Int).Lsh(big.NewInt(1), 255))                // -2^255
)

func init() {
	// The property's numbers against the constants of the code under test: a
	// difference is a harness/tree mismatch, not something to search for.
	if vm.MaxStackSize != limItems || vm.MaxInvocationStackSize != limInvoc || vm.MaxTryNestingDepth != limTry ||
		stackitem.MaxSize != limBytes || stackitem.MaxBigIntegerSizeBits != 256 || vm.ExecFeeFactorMultiplier != picoPerDat {
		panic("C12: VM limit constants differ from the property text")
	}
}

// ---- access to unexported state (harness only; read-only) ---------------------
//
// Slots and evaluation stacks have exported getters. Two things do not:
//   - Context.tryStack (needed for the "16 nested try blocks" bound): read
//     through its field offset;
//   - the per-compound reference count rc.count of Array/Struct/Map: NOT used
//     by any assertion, only mixed into the state key that prunes the search
//     (two states are merged only if this hidden state is equal too).

var (
	offTryStack = fieldOff(reflect.TypeOf(vm.Context{}), "tryStack")
	offRCArray  = rcOff(reflect.TypeOf(stackitem.Array{}))
	offRCStruct = rcOff(reflect.TypeOf(stackitem.Struct{}))
	offRCMap    = rcOff(reflect.TypeOf(stackitem.Map{}))
)

func fieldOff(t reflect.Type, name string) uintptr {
	f, ok := t.FieldByName(name)
	if !ok {
		panic("C12: no field " + name + " in " + t.String())
	}
	return f.Offset
}

func rcOff(t reflect.Type) uintptr {
	f, ok := t.FieldByName("rc")
	if !ok {
		panic("C12: no rc in " + t.String())
	}
	c, ok := f.Type.FieldByName("count")
	if !ok || c.Type.Kind() != reflect.Int {
		panic("C12: no rc.count in " + t.String())
	}
	return f.Offset + c.Offset
}

func tryDepth(c *vm.Context) int {
	return (*vm.Stack)(unsafe.Add(unsafe.Pointer(c), offTryStack)).Len()
}

func rcOf(it stackitem.Item) int {
	switch t := it.(type) {
	case *stackitem.Array:
		return *(*int)(unsafe.Add(unsafe.Pointer(t), offRCArray))
	case *stackitem.Struct:
		return *(*int)(unsafe.Add(unsafe.Pointer(t), offRCStruct))
	case *stackitem.Map:
		return *(*int)(unsafe.Add(unsafe.Pointer(t), offRCMap))
	}
	return -1
}

// ---- the independent walk -----------------------------------------------------
//
// Counting rule (derived from refCounter.Add/Remove, Stack.Push/Pop, Slot.init):
// the VM counts one per reference held by a root (an element of an evaluation
// stack; a cell of a locals/arguments/static slot, empty cells included, they
// are "virtual Null elements") and, for every compound that is referenced at
// all, one per child reference (two per map element: key and value), no matter
// how many references point at the compound. So
//
//	walk = #stack elements + #slot cells + sum over DISTINCT reachable compounds of their child references
//
// Evaluation stacks and static slots shared by contexts of one script are
// counted once. The pending exception and try records are not items on stacks
// or in slots and are not counted (the VM does not count them either).
// With a cycle the VM may keep counting an unreachable ring; without one the
// two numbers have to agree.

type walker struct {
	seen    map[stackitem.Item]int // compound -> id (visit order)
	stacks  []*vm.Stack
	statics []*vm.Slot
	count   int
	bad     string // first out-of-range primitive found
	key     []byte // optional canonical serialization (nil: off)
	wantKey bool
	loc     local // the owning worker's counters
}

func newWalker() *walker { return &walker{seen: make(map[stackitem.Item]int, 16)} }

func (w *walker) item(it stackitem.Item) {
	switch t := it.(type) {
	case nil:
		if w.wantKey {
			w.key = append(w.key, '_')
		}
	case *stackitem.BigInteger:
		b := t.Big()
		if b.BitLen() >= 255 && (b.Cmp(intMax) > 0 || b.Cmp(intMin) < 0) {
			if w.bad == "" {
				w.bad = "integer-over-256-bits:" + strconv.Itoa(b.BitLen()) + "bits"
			}
		}
		if w.wantKey {
			w.key = append(w.key, 'i')
			w.key = b.Append(w.key, 16)
			w.key = append(w.key, ';')
		}
	case *stackitem.ByteArray:
		if len(*t) > limBytes {
			if w.bad == "" {
				w.bad = "bytestring-over-max-size:" + strconv.Itoa(len(*t))
			}
		}
		if w.wantKey {
			w.key = append(w.key, 'b')
			w.key = appendBytes(w.key, *t)
		}
	case *stackitem.Buffer:
		if t.Len() > limBytes {
			if w.bad == "" {
				w.bad = "buffer-over-max-size:" + strconv.Itoa(t.Len())
			}
		}
		if w.wantKey {
			w.key = append(w.key, 'u')
			w.key = appendBytes(w.key, t.Value().([]byte))
		}
	case *stackitem.Array:
		w.compound(t, 'a', t.Value().([]stackitem.Item), nil)
	case *stackitem.Struct:
		w.compound(t, 's', t.Value().([]stackitem.Item), nil)
	case *stackitem.Map:
		w.compound(t, 'm', nil, t.Value().([]stackitem.MapElement))
	default:
		if w.wantKey {
			switch x := it.(type) {
			case stackitem.Null:
				w.key = append(w.key, 'n')
			case stackitem.Bool:
				if x {
					w.key = append(w.key, 'T')
				} else {
					w.key = append(w.key, 'F')
				}
			case *stackitem.Pointer:
				w.key = append(w.key, 'p')
			default:
				w.key = append(w.key, '?')
			}
		}
	}
}

func appendBytes(k []byte, b []byte) []byte {
	if len(b) > 40 {
		s := sha256.Sum256(b)
		k = strconv.AppendInt(k, int64(len(b)), 10)
		k = append(k, '~')
		k = append(k, s[:8]...)
	} else {
		k = append(k, hex.EncodeToString(b)...)
	}
	return append(k, ';')
}

func (w *walker) compound(it stackitem.Item, kind byte, arr []stackitem.Item, m []stackitem.MapElement) {
	if id, ok := w.seen[it]; ok {
		if w.wantKey {
			w.key = append(w.key, '#')
			w.key = strconv.AppendInt(w.key, int64(id), 10)
			w.key = append(w.key, ';')
		}
		return
	}
	w.seen[it] = len(w.seen)
	if w.wantKey {
		w.key = append(w.key, kind)
		w.key = strconv.AppendInt(w.key, int64(rcOf(it)), 10) // hidden state, for pruning only
		w.key = append(w.key, '[')
	}
	if kind == 'm' {
		w.count += 2 * len(m)
		for i := range m {
			w.item(m[i].Key)
			w.item(m[i].Value)
		}
	} else {
		w.count += len(arr)
		for _, c := range arr {
			w.item(c)
		}
	}
	if w.wantKey {
		w.key = append(w.key, ']')
	}
}

func (w *walker) stack(s *vm.Stack) {
	for _, o := range w.stacks {
		if o == s {
			return
		}
	}
	w.stacks = append(w.stacks, s)
	w.count += s.Len()
	if w.wantKey {
		w.key = append(w.key, 'E')
	}
	s.IterBack(func(e vm.Element) { w.item(e.Item()) })
}

func (w *walker) slot(s *vm.Slot, tag byte) {
	if w.wantKey {
		w.key = append(w.key, tag)
	}
	if s == nil || *s == nil {
		return
	}
	w.count += len(*s)
	for _, it := range *s {
		w.item(it)
	}
}

// walk returns the number of references really reachable from the machine.
func (w *walker) walk(v *vm.VM, wantKey bool) int {
	clear(w.seen)
	w.stacks = w.stacks[:0]
	w.statics = w.statics[:0]
	w.count = 0
	w.bad = ""
	w.wantKey = wantKey
	w.key = w.key[:0]
	for _, c := range v.Istack() {
		if wantKey {
			w.key = append(w.key, 'C')
			w.key = strconv.AppendInt(w.key, int64(tryDepth(c)), 10)
		}
		w.stack(c.Estack())
		w.slot(c.LocalsSlot(), 'L')
		w.slot(c.ArgumentsSlot(), 'A')
		st := c.StaticsSlot()
		dup := false
		for _, o := range w.statics {
			if o == st {
				dup = true
			}
		}
		if !dup {
			w.statics = append(w.statics, st)
			w.slot(st, 'S')
		}
	}
	w.stack(v.Estack()) // the current one (the result stack once everything is unloaded)
	return w.count
}

// reaches reports whether target is reachable from it (it included).
func reaches(it, target stackitem.Item, seen map[stackitem.Item]bool) bool {
	if it == target {
		return true
	}
	switch t := it.(type) {
	case *stackitem.Array, *stackitem.Struct:
		if seen[it] {
			return false
		}
		seen[it] = true
		for _, c := range t.Value().([]stackitem.Item) {
			if reaches(c, target, seen) {
				return true
			}
		}
	case *stackitem.Map:
		if seen[it] {
			return false
		}
		seen[it] = true
		for _, e := range t.Value().([]stackitem.MapElement) {
			if reaches(e.Value, target, seen) {
				return true
			}
		}
	}
	return false
}

func isCompound(it stackitem.Item) bool {
	switch it.(type) {
	case *stackitem.Array, *stackitem.Struct, *stackitem.Map:
		return true
	}
	return false
}

// mayBuildCycle looks at the operands of the instruction about to run. Only
// APPEND and SETITEM put an existing item into an existing compound; a cycle
// appears iff the container is reachable from the inserted item. (Struct values
// are cloned on insertion; treating them like the original is conservative: it
// only switches the exactness assertion off for the rest of that run.)
func mayBuildCycle(v *vm.VM, op opcode.Opcode) bool {
	es := v.Estack()
	var val, cont stackitem.Item
	switch op {
	case opcode.APPEND:
		if es.Len() < 2 {
			return false
		}
		val, cont = es.Peek(0).Item(), es.Peek(1).Item()
	case opcode.SETITEM:
		if es.Len() < 3 {
			return false
		}
		val, cont = es.Peek(0).Item(), es.Peek(2).Item()
	default:
		return false
	}
	if !isCompound(val) || !isCompound(cont) {
		return false
	}
	return reaches(val, cont, map[stackitem.Item]bool{})
}

// ---- runner -------------------------------------------------------------------

type cfg struct {
	Gas      int64 `json:"gas_limit_datoshi"` // -1: unlimited
	Base     int64 `json:"base_price_picogas"`
	MaxSteps int   `json:"max_steps"`
	UseRun   bool  `json:"use_run,omitempty"`      // one Run() call instead of Step()s (no per-step oracle)
	NoHF     bool  `json:"no_hardforks,omitempty"` // SetIsHardforkEnabled(always false): the pre-hardfork branches
	// Reuse > 0: the VM first runs dirty prelude number Reuse (reusePrelude), is
	// Reset() and re-initialised the way interop.Context.ReuseVM does, and only
	// then loads the script. Reuse < 0: same prelude, but no Reset (plain reload).
	Reuse int `json:"reuse_prelude,omitempty"`
	// ZeroPrice (only with Base == 0): a price getter IS set, but it prices every
	// instruction at 0, so only what SYSCALL handlers charge through
	// AddDatoshi/AddPicoGas counts. Base == 0 without ZeroPrice: no price getter.
	ZeroPrice bool `json:"zero_price_getter,omitempty"`
}

type finding struct {
	Kind string `json:"kind"`
	Step int    `json:"step"`
	IP   int    `json:"ip"`
	Op   string `json:"op"`
	Msg  string `json:"msg"`
	Site string `json:"site"` // instruction + kinds of its operands on the stack before it (+ "/after-cycle")
}

type result struct {
	State   string // HALT | FAULT | BUDGET | PANIC | BREAK | other
	Steps   int
	Gas     int64 // GasConsumed() (datoshi)
	OwnPico int64 // sum of the prices of the executed instructions, computed by the harness
	Err     string
	F       *finding
	Cyclic  bool
	// maxima over the run (after non-faulting instructions)
	MaxWalk, MaxRefs, MaxInvoc, MaxTry int
	Over                               int // max(refs-walk)
	Marked                             bool
	Notes                              int // API-consistency observations that the property does not demand (counted, not asserted)
}

type execOpts struct {
	bounds []bool                    // instruction boundaries (len(script)+1 entries) if the script passed the static check
	mark   int                       // offset; -1: none
	onMark func(v *vm.VM, w *walker) // called (once) before the instruction at mark executes
	w      *walker
	// several scripts (xscript part): the harness's loader and, per script hash
	// of a loaded script, its instruction boundaries (len+1 entries; nil entry
	// = script did not pass the static check, offsets not asserted).
	tbl      []loaded // scripts the harness's SYSCALL handler can load (nil: no handler)
	boundsBy map[util.Uint160][]bool
	// light runs of fullCheckT (limits need-1 and need only): also the limits 0 and 1
	lowLimits bool
	// every path through the program charges a positive amount per loop iteration
	// even without a price getter (gas-edge programs): termination under a finite
	// limit is asserted although Base == 0
	charges bool
	// syscalls part: the VM comes from a real interop.Context (prices, syscall
	// handler, hardforks, script already loaded as mainHash); done releases what
	// the context registered (iterators). sysPrice: picoGAS a SYSCALL of the main
	// script is charged before its handler runs (nil entry = unknown id, nothing).
	spawn    func() (v *vm.VM, done func())
	sysPrice map[uint32]int64
	site     string // names the site of every finding of the run (the syscall / native method under test)
}

func price(base int64) func(opcode.Opcode, []byte) int64 {
	return func(op opcode.Opcode, _ []byte) int64 { return fee.Opcode(base, op) }
}

func stateName(s vmstate.State) string {
	switch {
	case s.HasFlag(vmstate.Fault):
		return "FAULT"
	case s.HasFlag(vmstate.Halt):
		return "HALT"
	case s.HasFlag(vmstate.Break):
		return "BREAK"
	case s == vmstate.None:
		return "NONE"
	}
	return fmt.Sprintf("state(%d)", s)
}

func safeStep(v *vm.VM) (err error, pan any) {
	defer func() {
		if r := recover(); r != nil {
			pan = r
		}
	}()
	return v.Step(), nil
}

func safeRun(v *vm.VM) (err error, pan any) {
	defer func() {
		if r := recover(); r != nil {
			pan = r
		}
	}()
	return v.Run(), nil
}

// exec runs script under c and evaluates the oracle.
func exec(script []byte, c cfg, o execOpts) (res result) {
	v := vm.New()
	if o.spawn != nil {
		var done func()
		v, done = o.spawn()
		defer done()
	}
	w := o.w
	if w == nil {
		w = newWalker()
	}
	var (
		hookIP = -1
		hookOp opcode.Opcode
		offB   = -1
		offBy  = "entry" // the instruction executed right before the first non-boundary offset (what transferred control there)
		seenOp bool
		own    int64
		pre    [3]byte // kinds of the top stack items before the current instruction
		npre   int
		atEnd  bool
		live   = c.Reuse == 0
	)
	v.SetOnExecHook(func(h util.Uint160, ip int, op opcode.Opcode) {
		if !live {
			return
		}
		prevOp, hadPrev := hookOp, seenOp
		hookIP, hookOp, seenOp = ip, op, true
		if o.spawn != nil { // a native contract's, a dynamically loaded or another deployed contract's script: neither asserted nor priced by the harness
			p := v.Context().Program()
			if len(p) != len(script) || (len(p) > 0 && &p[0] != &script[0]) {
				return
			}
		}
		b, n := o.bounds, len(script)
		if o.boundsBy != nil {
			if bb, ok := o.boundsBy[h]; ok { // an instruction of a loaded script
				b, n = bb, len(bb)-1
			}
		}
		if o.spawn != nil && op == opcode.SYSCALL && ip+5 <= len(script) {
			own += o.sysPrice[uint32(script[ip+1])|uint32(script[ip+2])<<8|uint32(script[ip+3])<<16|uint32(script[ip+4])<<24]
		}
		if b != nil && (ip < 0 || ip >= len(b) || !b[ip]) && offB < 0 {
			offB = ip
			if hadPrev {
				offBy = "after-" + prevOp.String()
			}
		}
		if ip < n && c.Base > 0 {
			own += fee.Opcode(c.Base, op)
		}
	})
	if c.Reuse != 0 {
		pre, steps := reusePrelude(c.Reuse)
		v.SetPriceGetter(price(7))
		v.SetGasLimit(1 << 40)
		v.Load(pre)
		for i := 0; i < steps && !v.HasStopped() && v.Context() != nil; i++ {
			if _, pan := safeStep(v); pan != nil {
				break
			}
		}
		if c.Reuse > 0 {
			v.Reset(trigger.Application)
		}
		live = true
	}
	if o.spawn != nil {
		v.SetGasLimit(c.Gas) // everything else is the interop context's business; the script is loaded
	} else {
		if c.Base > 0 {
			v.SetPriceGetter(price(c.Base))
		} else if c.ZeroPrice {
			v.SetPriceGetter(func(opcode.Opcode, []byte) int64 { return 0 })
		}
		v.SetGasLimit(c.Gas)
		if c.NoHF {
			v.SetIsHardforkEnabled(func(config.Hardfork) bool { return false })
		}
		if o.tbl != nil {
			v.SyscallHandler = loader(o.tbl, &own)
			v.LoadToken = tokenLoader(v, o.tbl, &own)
		}
		v.Load(script)
	}
	fail := func(kind, msg string) {
		if res.F == nil {
			site := hookOp.String() + "[" + string(pre[:npre]) + "]"
			if c.UseRun {
				site = "Run"
			} else if atEnd {
				site = "at-end"
			}
			if res.Cyclic && !c.UseRun && !atEnd {
				site += "/after-cycle"
			}
			if kind == "non-boundary-offset-executed" { // named after the instruction that transferred control there
				site = offBy
			}
			if o.site != "" {
				site = o.site
				if res.Cyclic && !c.UseRun && !atEnd {
					site += "/after-cycle"
				}
			}
			res.F = &finding{Kind: kind, Step: res.Steps, IP: hookIP, Op: hookOp.String(), Msg: msg, Site: site}
		}
	}
	finish := func() {
		atEnd = true
		res.Gas = v.GasConsumed()
		res.OwnPico = own
		if offB >= 0 {
			fail("non-boundary-offset-executed", fmt.Sprintf("offset %d of a script accepted by IsScriptCorrect is not an instruction boundary", offB))
		}
		if res.State == "HALT" && c.Gas >= 0 { // without a price getter (Base 0) only the handlers' charges count
			if res.Gas > c.Gas {
				fail("halt-with-gas-over-limit", fmt.Sprintf("GasConsumed()=%d > limit %d", res.Gas, c.Gas))
			}
			if own > c.Gas*picoPerDat {
				fail("halt-with-gas-over-limit", fmt.Sprintf("prices of executed instructions sum to %d picoGAS > limit %d datoshi", own, c.Gas))
			}
		}
	}
	if c.UseRun {
		err, pan := safeRun(v)
		res.State = stateName(v.State())
		if pan != nil {
			res.State = "PANIC"
			fail("go-panic-escaped-Run", fmt.Sprint(pan))
		} else if res.State != "HALT" && res.State != "FAULT" {
			fail("ended-neither-halt-nor-fault", "state "+res.State+" after Run()")
		} else if (err != nil) != (res.State == "FAULT") {
			res.Notes++
		}
		if err != nil {
			res.Err = err.Error()
		}
		finish()
		return
	}
	for {
		ctx := v.Context()
		if ctx == nil { // cannot be stepped any further, and it is not halted
			res.State = stateName(v.State())
			fail("ended-neither-halt-nor-fault", "no context left, state "+res.State)
			break
		}
		nip, nop := ctx.NextInstr()
		if o.mark >= 0 && nip == o.mark && !res.Marked {
			res.Marked = true
			if o.onMark != nil {
				o.onMark(v, w)
			}
		}
		if !res.Cyclic && (nop == opcode.APPEND || nop == opcode.SETITEM) && mayBuildCycle(v, nop) {
			res.Cyclic = true
		}
		es := v.Estack()
		for npre = 0; npre < arity(nop) && npre < es.Len(); npre++ {
			pre[npre] = kindOf(es.Peek(npre).Item())
		}
		err, pan := safeStep(v)
		res.Steps++
		if pan != nil {
			res.State = "PANIC"
			fail("go-panic-escaped-Step", fmt.Sprint(pan))
			break
		}
		if hookIP != nip {
			res.Notes++
		}
		st := v.State()
		if st.HasFlag(vmstate.Fault) {
			res.State = "FAULT"
			if err == nil {
				res.Notes++
			} else {
				res.Err = err.Error()
			}
			break
		}
		if err != nil {
			res.Notes++
		}
		// --- the oracle, after every instruction that did not fault ---
		walk := w.walk(v, false)
		refs := v.VerifRefs()
		if walk > res.MaxWalk {
			res.MaxWalk = walk
		}
		if refs > res.MaxRefs {
			res.MaxRefs = refs
		}
		if refs-walk > res.Over {
			res.Over = refs - walk
		}
		if walk > refs {
			fail("item-counter-under-counts", fmt.Sprintf("really reachable %d > VM counter %d", walk, refs))
		} else if walk != refs && !res.Cyclic {
			fail("item-counter-inexact-without-cycle", fmt.Sprintf("really reachable %d, VM counter %d, no cyclic structure was built", walk, refs))
		}
		if walk > limItems {
			fail("reachable-items-over-2048", fmt.Sprintf("really reachable %d after an instruction that did not fault (VM counter %d)", walk, refs))
		}
		if w.bad != "" {
			fail(w.bad, "reachable after an instruction that did not fault")
		}
		is := v.Istack()
		if len(is) > res.MaxInvoc {
			res.MaxInvoc = len(is)
		}
		if len(is) > limInvoc {
			fail("invocation-depth-over-1024", strconv.Itoa(len(is)))
		}
		for _, c := range is {
			td := tryDepth(c)
			if td > res.MaxTry {
				res.MaxTry = td
			}
			if td > limTry {
				fail("try-nesting-over-16", strconv.Itoa(td))
			}
		}
		if st.HasFlag(vmstate.Halt) {
			res.State = "HALT"
			break
		}
		if st != vmstate.None {
			// Break can only come from breakpoints, which the harness never sets.
			res.State = stateName(st)
			fail("ended-neither-halt-nor-fault", "state "+res.State+" after a step")
			break
		}
		if res.F != nil {
			res.State = "STOPPED"
			break
		}
		if res.Steps >= c.MaxSteps {
			res.State = "BUDGET"
			break
		}
	}
	finish()
	return
}

func h16(b []byte) [16]byte {
	s := sha256.Sum256(b)
	var k [16]byte
	copy(k[:], s[:16])
	return k
}

func kindOf(it stackitem.Item) byte {
	switch it.(type) {
	case *stackitem.BigInteger:
		return 'i'
	case *stackitem.ByteArray:
		return 'b'
	case *stackitem.Buffer:
		return 'u'
	case stackitem.Null:
		return 'n'
	case stackitem.Bool:
		return 'o'
	case *stackitem.Pointer:
		return 'p'
	case *stackitem.Array:
		return 'a'
	case *stackitem.Struct:
		return 's'
	case *stackitem.Map:
		return 'm'
	}
	return '?'
}

// arity: how many stack operands name the "site" of a finding (1 unless listed).
func arity(op opcode.Opcode) int {
	switch op {
	case opcode.SETITEM:
		return 3
	case opcode.APPEND, opcode.PICKITEM, opcode.REMOVE, opcode.HASKEY, opcode.CAT, opcode.SWAP, opcode.OVER, opcode.NIP, opcode.TUCK:
		return 2
	case opcode.ROT:
		return 3
	}
	if op >= opcode.AND && op <= opcode.WITHIN && op != opcode.INVERT {
		return 2
	}
	return 1
}

// reusePrelude: what ran on the VM before it is reused. Returns the script and
// how many instructions of it are executed before it is abandoned.
//
//	1 halts, leaving a compound and a primitive on the result stack, statics set
//	2 faults two calls deep with locals, statics, an open try block and a cyclic array
//	3 is abandoned inside a finally block with an exception pending
func reusePrelude(k int) ([]byte, int) {
	if k < 0 {
		k = -k
	}
	a := &asm{}
	switch k {
	case 1:
		a.op(opcode.INITSSLOT)
		a.raw(1)
		a.op(opcode.NEWARRAY0, opcode.DUP, opcode.STSFLD0, opcode.PUSH5)
		return a.bytes(), 100
	case 2:
		f, c := a.newLabel(), a.newLabel()
		a.op(opcode.INITSSLOT)
		a.raw(2)
		a.op(opcode.NEWMAP, opcode.STSFLD0, opcode.PUSH7)
		a.try(opcode.TRY, c, -1)
		a.jmp(opcode.CALL, f)
		a.here(c)
		a.op(opcode.RET)
		a.here(f)
		a.op(opcode.INITSLOT)
		a.raw(2, 0)
		a.op(opcode.NEWARRAY0, opcode.DUP, opcode.DUP, opcode.APPEND, opcode.STLOC0, opcode.NEWSTRUCT0, opcode.ABORT)
		return a.bytes(), 100
	default:
		f := a.newLabel()
		a.op(opcode.PUSH3)
		a.try(opcode.TRY, -1, f)
		a.op(opcode.NEWSTRUCT0, opcode.THROW)
		a.here(f)
		a.op(opcode.NOP, opcode.NOP, opcode.ENDFINALLY)
		return a.bytes(), 5 // PUSH3, TRY, NEWSTRUCT0, THROW, NOP: inside finally, exception pending
	}
}
