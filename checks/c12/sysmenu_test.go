// C12, syscalls part: the case list.
//
// Every case is one script: code fragments that push the arguments (each
// fragment leaves exactly one item and is position independent), then the
// SYSCALL under test (System.Contract.Call for native methods). The script runs
// as the code of a deployed contract H inside a real interop.Context
// (sysrun_test.go) in a worker subprocess (sysproc_test.go).
//
// Families (all enumerated completely, simplest first):
//
//	sys1      every System.* interop of the context's function table x every
//	          parameter x the universal menu, the other parameters at a
//	          well-formed baseline (plus the all-baseline call)
//	sysN      every interop with 2..4 parameters x the full product of the core
//	          menu (25 values; 8 for the four parameters of System.Contract.Call
//	          in the quick tier) over all its parameters
//	multisig  System.Crypto.CheckMultisig: n <= 4 keys x m <= n signatures x
//	          both argument forms (arrays / counted items) x signature pattern
//	          (all valid in order, none valid, reversed, valid with one of
//	          length 63 / 65 at every position, all 63, all 65) x every key
//	          position malformed with every malformed-key kind (and all positions)
//	checksig  System.Crypto.CheckSig: key kinds x signature kinds
//	account   CreateStandardAccount / CreateMultisigAccount / CheckWitness with
//	          every key kind, m at its edges, key arrays with one bad position
//	crypto    CryptoLib: verifyWithECDsa key kinds x signature kinds x curves x
//	          messages; verifyWithEd25519, recoverSecp256K1 and the hashes over
//	          byte lengths; bls12381 methods over points of every group, wrong
//	          interop kinds, byte lengths around 48/96/576
//	native1   every method of every native contract x every parameter x the
//	          universal menu (baseline by declared parameter type)
//	native2   every method x every pair of parameters x the product of the pair
//	          menu (25 values), the others at the baseline
//	iter      System.Storage.Find / Local.Find with every option value 0..255 x
//	          prefixes, traversed completely with Iterator.Next/Value
//	seq       hand-written short histories (notifications then GetNotifications,
//	          storage writes while iterators are open, read-only contexts,
//	          dynamically loaded scripts that call interops, calls inside TRY)
//	callt     CALLT with every method token of the NEF and ids past the table x
//	          the universal menu for the topmost argument
package c12

import (
	"crypto/elliptic"
	"crypto/sha256"
	"encoding/binary"
	"encoding/hex"
	"fmt"
	"hash"
	"math/big"
	"strings"

	"github.com/nspcc-dev/neo-go/pkg/core/interop/interopnames"
	"github.com/nspcc-dev/neo-go/pkg/core/state"
	"github.com/nspcc-dev/neo-go/pkg/smartcontract"
	"github.com/nspcc-dev/neo-go/pkg/util"
	"github.com/nspcc-dev/neo-go/pkg/vm/opcode"
)

// sval is one labelled argument value.
type sval struct {
	L string
	C []byte // code leaving the value on the stack
}

type sysCase struct {
	ID     string // <family>/<target>/<argument labels>/<hardfork set>: stable, names the input
	Fam    string
	Target string // syscall name or Native.method: the site of findings
	HF     int    // 0: every hardfork from genesis; 1: none
	Script []byte
}

var hfNames = [...]string{"hf-all", "hf-none"}

// ---- fragments --------------------------------------------------------------------

func frag(f func(a *asm)) []byte {
	a := &asm{}
	f(a)
	b := a.bytes()
	out := make([]byte, len(b))
	copy(out, b)
	return out
}

func fInt(n int64) []byte {
	return frag(func(a *asm) {
		if n >= -(1<<31) && n < 1<<31 {
			a.pushInt(n)
		} else {
			a.op(opcode.PUSHINT64)
			var b [8]byte
			binary.LittleEndian.PutUint64(b[:], uint64(n))
			a.raw(b[:]...)
		}
	})
}

func fBig(n *big.Int) []byte {
	if n.IsInt64() {
		return fInt(n.Int64())
	}
	return frag(func(a *asm) { a.pushBig(n) })
}

func fBytes(b []byte) []byte { return frag(func(a *asm) { a.pushData(b) }) }

func fOps(ops ...opcode.Opcode) []byte { return frag(func(a *asm) { a.op(ops...) }) }

// fPack: items[0] becomes element 0.
func fPack(op opcode.Opcode, items ...[]byte) []byte {
	return frag(func(a *asm) {
		for i := len(items) - 1; i >= 0; i-- {
			a.raw(items[i]...)
		}
		a.pushInt(int64(len(items)))
		a.op(op)
	})
}

func fArr(items ...[]byte) []byte { return fPack(opcode.PACK, items...) }

func fNewArray(n int) []byte {
	return frag(func(a *asm) { a.pushInt(int64(n)); a.op(opcode.NEWARRAY) })
}

func fMap(kv ...[]byte) []byte {
	return frag(func(a *asm) {
		a.op(opcode.NEWMAP)
		for i := 0; i+1 < len(kv); i += 2 {
			a.op(opcode.DUP)
			a.raw(kv[i]...)
			a.raw(kv[i+1]...)
			a.op(opcode.SETITEM)
		}
	})
}

func fBuffer(b []byte) []byte {
	return frag(func(a *asm) { a.pushData(b); a.op(opcode.CONVERT); a.raw(0x30) })
}

func sysID(name string) []byte {
	id := interopnames.ToID([]byte(name))
	return []byte{byte(id), byte(id >> 8), byte(id >> 16), byte(id >> 24)}
}

func fSyscall(name string) []byte {
	return frag(func(a *asm) { a.op(opcode.SYSCALL); a.raw(sysID(name)...) })
}

func cat(parts ...[]byte) []byte {
	var out []byte
	for _, p := range parts {
		out = append(out, p...)
	}
	return out
}

// fCall: System.Contract.Call(hash, method, flags, args) with the given fragments.
func fCall(hash, method, flags, args []byte) []byte {
	return cat(args, flags, method, hash, fSyscall(interopnames.SystemContractCall))
}

func fNative(h util.Uint160, method string, args ...[]byte) []byte {
	return fCall(fBytes(h.BytesBE()), fBytes([]byte(method)), fInt(15), fArr(args...))
}

func pat(n int, seed byte) []byte {
	b := make([]byte, n)
	for i := range b {
		b[i] = seed + byte(i*7)
	}
	return b
}

// ---- keys ---------------------------------------------------------------------------

// keyKinds: the valid encodings of key k and every kind of malformed one.
func keyKinds(comp []byte, x, y *big.Int) (good, bad []sval) {
	curve := elliptic.P256()
	p := curve.Params().P
	xb, yb := make([]byte, 32), make([]byte, 32)
	x.FillBytes(xb)
	y.FillBytes(yb)
	unc := cat([]byte{4}, xb, yb)
	good = []sval{{"key", fBytes(comp)}, {"key-uncompressed", fBytes(unc)}}
	with := func(pfx byte, rest ...[]byte) []byte { return cat(append([][]byte{{pfx}}, rest...)...) }
	add := func(l string, b []byte) { bad = append(bad, sval{l, fBytes(b)}) }
	for _, pfx := range []byte{0, 1, 5, 6, 7, 4, 0xff} {
		add(fmt.Sprintf("key-prefix%02x", pfx), with(pfx, xb))
	}
	// a compressed key whose X has no point: the first X' > X for which X'^3-3X'+b is not a square
	for d := int64(1); ; d++ {
		x2 := new(big.Int).Add(x, big.NewInt(d))
		y2 := new(big.Int).Exp(x2, big.NewInt(3), p)
		y2.Sub(y2, new(big.Int).Mul(big.NewInt(3), x2))
		y2.Add(y2, curve.Params().B)
		y2.Mod(y2, p)
		if new(big.Int).ModSqrt(y2, p) == nil {
			b := make([]byte, 32)
			x2.FillBytes(b)
			add("key-x-off-curve", with(comp[0], b))
			break
		}
	}
	add("key-x-above-p", with(2, bytesOf(0xff, 32)))
	pb := make([]byte, 32)
	p.FillBytes(pb)
	add("key-x-equals-p", with(3, pb))
	add("key-zero-x", with(2, make([]byte, 32)))
	add("key-truncated32", comp[:32])
	add("key-truncated1", comp[:1])
	add("key-empty", nil)
	add("key-34bytes", cat(comp, []byte{0}))
	add("key-infinity", []byte{0})
	add("key-33zero", make([]byte, 33))
	y1 := new(big.Int).Add(y, big.NewInt(1))
	y1b := make([]byte, 32)
	y1.FillBytes(y1b)
	add("key-uncompressed-bad-y", cat([]byte{4}, xb, y1b))
	add("key-uncompressed-y-above-p", cat([]byte{4}, xb, bytesOf(0xff, 32)))
	add("key-uncompressed-truncated64", unc[:64])
	add("key-uncompressed-66bytes", cat(unc, []byte{0}))
	add("key-hybrid06", cat([]byte{6}, xb, yb))
	add("key-hybrid07", cat([]byte{7}, xb, yb))
	add("key-1024bytes", cat(comp, make([]byte, 1024-33)))
	return
}

func bytesOf(v byte, n int) []byte {
	b := make([]byte, n)
	for i := range b {
		b[i] = v
	}
	return b
}

// ---- the menus ----------------------------------------------------------------------

// sysEnv is what the case list depends on (all deterministic).
type sysEnv struct {
	H       util.Uint160 // the helper contract the scripts run as
	Acc     []sysKey     // accounts 1..4: compressed key, coordinates, signature of the container
	Signer  util.Uint160 // a signer of the container (account 1)
	Absent  util.Uint160
	Natives [2][]state.Contract // per hardfork set
	Funcs   [2][]sysFunc        // per hardfork set: the interop table of the context
	BlsG1   []byte
	BlsG2   []byte
	BlsGt   []byte
	NTokens int // method tokens of the NEF the scripts run as
}

type sysKey struct {
	Comp []byte
	X, Y *big.Int
	Sig  []byte // valid signature of the container
	Hash util.Uint160
}

type sysFunc struct {
	Name  string
	ID    uint32
	Price int64
}

func (e *sysEnv) ctxFrag() []byte { return fSyscall(interopnames.SystemStorageGetContext) }

func (e *sysEnv) iterFrag() []byte {
	return cat(fInt(0), fBytes(nil), e.ctxFrag(), fSyscall(interopnames.SystemStorageFind))
}

func (e *sysEnv) blsFrag(b []byte) []byte {
	return fNative(nativeHash("CryptoLib"), "bls12381Deserialize", fBytes(b))
}

var nativeHashes = map[string]util.Uint160{}

func nativeHash(name string) util.Uint160 {
	h, ok := nativeHashes[name]
	if !ok {
		panic("C12 syscalls: no native " + name)
	}
	return h
}

func pow2(k uint) *big.Int { return new(big.Int).Lsh(big.NewInt(1), k) }

// universal: the values every parameter of every interop and native method sees.
func (e *sysEnv) universal() []sval {
	var m []sval
	add := func(l string, c []byte) { m = append(m, sval{l, c}) }
	add("null", fOps(opcode.PUSHNULL))
	add("true", fOps(opcode.PUSHT))
	add("false", fOps(opcode.PUSHF))
	for _, n := range []int64{0, 1, -1, 2, 3, 4, 5, 15, 16, 17, 31, 32, 33, 64, 65, 127, 128, 255, 256, 1023, 1024, 1025, 2047, 2048, 65535, 65536, 1<<31 - 1, 1 << 31, -(1 << 31), -(1 << 31) - 1, 1<<32 - 1, 1 << 32, 1<<63 - 1, -(1 << 63)} {
		add(fmt.Sprintf("int%d", n), fInt(n))
	}
	add("int2^63", fBig(pow2(63)))
	add("int-2^63-1", fBig(new(big.Int).Sub(new(big.Int).Neg(pow2(63)), big.NewInt(1))))
	add("int2^64", fBig(pow2(64)))
	add("int2^255-1", fBig(intMax))
	add("int-2^255", fBig(intMin))
	for _, n := range []int{0, 1, 2, 19, 20, 21, 31, 32, 33, 34, 63, 64, 65, 66, 1024} {
		add(fmt.Sprintf("bytes%d", n), fBytes(pat(n, 1)))
	}
	add("bytes1-00", fBytes([]byte{0}))
	add("bytes1-80", fBytes([]byte{0x80}))
	add("bytes2-not-utf8", fBytes([]byte{0xff, 0xfe}))
	add("bytes32-ff", fBytes(bytesOf(0xff, 32)))
	add("bytes33-9bytes-int", fBytes(append(bytesOf(0xff, 32), 0x7f)))
	add("str-abc", fBytes([]byte("abc")))
	add("str-echo", fBytes([]byte("echo")))
	add("str-json", fBytes([]byte(`{"a":[1,null,"x"]}`)))
	add("str-number", fBytes([]byte("-12")))
	add("hash-H", fBytes(e.H.BytesBE()))
	add("hash-signer", fBytes(e.Signer.BytesBE()))
	add("hash-absent", fBytes(e.Absent.BytesBE()))
	add("hash-GAS", fBytes(nativeHash("GasToken").BytesBE()))
	add("sig", fBytes(e.Acc[0].Sig))
	good, bad := keyKinds(e.Acc[0].Comp, e.Acc[0].X, e.Acc[0].Y)
	m = append(m, good...)
	m = append(m, bad...)
	add("key2", fBytes(e.Acc[1].Comp))
	add("buffer0", fBuffer(nil))
	add("buffer33-key", fBuffer(e.Acc[0].Comp))
	add("buffer20", fBuffer(e.Signer.BytesBE()))
	add("array0", fOps(opcode.NEWARRAY0))
	add("array[null]", fArr(fOps(opcode.PUSHNULL)))
	add("array[1,2]", fArr(fInt(1), fInt(2)))
	add("array[key]", fArr(fBytes(e.Acc[0].Comp)))
	add("array[key,key2]", fArr(fBytes(e.Acc[0].Comp), fBytes(e.Acc[1].Comp)))
	add("array[key,bad]", fArr(fBytes(e.Acc[0].Comp), bad[0].C))
	add("array[[]]", fArr(fOps(opcode.NEWARRAY0)))
	add("array[[1],[2,[3]]]", fArr(fArr(fInt(1)), fArr(fInt(2), fArr(fInt(3)))))
	add("array[map,struct,buffer]", fArr(fMap(fInt(1), fInt(2)), fOps(opcode.NEWSTRUCT0), fBuffer([]byte{1})))
	add("array[ctx]", fArr(e.ctxFrag()))
	add("array[pointer]", fArr(frag(func(a *asm) { a.op(opcode.PUSHA); a.raw(0, 0, 0, 0) })))
	add("array-cyclic", fOps(opcode.NEWARRAY0, opcode.DUP, opcode.DUP, opcode.APPEND))
	add("array2-nulls", fNewArray(2))
	add("array16-nulls", fNewArray(16))
	add("array17-nulls", fNewArray(17))
	add("array1024-nulls", fNewArray(1024))
	add("array1025-nulls", fNewArray(1025))
	add("array2040-nulls", fNewArray(2040))
	add("struct0", fOps(opcode.NEWSTRUCT0))
	add("struct[1,abc]", fPack(opcode.PACKSTRUCT, fInt(1), fBytes([]byte("abc"))))
	add("map0", fOps(opcode.NEWMAP))
	add("map{1:2}", fMap(fInt(1), fInt(2)))
	add("map{abc:[1]}", fMap(fBytes([]byte("abc")), fArr(fInt(1))))
	add("pointer", frag(func(a *asm) { a.op(opcode.PUSHA); a.raw(0, 0, 0, 0) }))
	add("interop-ctx", e.ctxFrag())
	add("interop-ctx-readonly", fSyscall(interopnames.SystemStorageGetReadOnlyContext))
	add("interop-iterator", e.iterFrag())
	add("interop-blsG1", e.blsFrag(e.BlsG1))
	add("interop-blsG2", e.blsFrag(e.BlsG2))
	return m
}

// core: the small menu whose full products are enumerated.
func (e *sysEnv) core(big bool) []sval {
	u := e.universal()
	pick := []string{"null", "int0", "int-1", "bytes0", "key", "array0", "interop-ctx", "array[1,2]"}
	if big {
		pick = append(pick, "true", "int1", "int2^63", "bytes1", "bytes20", "key-prefix00", "key-x-off-curve", "buffer0", "struct0", "map0", "map{1:2}", "pointer", "interop-iterator", "array-cyclic", "array1024-nulls", "str-echo", "hash-H")
	}
	var m []sval
	for _, l := range pick {
		m = append(m, byLabel(u, l))
	}
	return m
}

func byLabel(m []sval, l string) sval {
	for _, v := range m {
		if v.L == l {
			return v
		}
	}
	panic("C12 syscalls: no menu value " + l)
}

// sysParams: pop order; every entry is the well-formed baseline of the
// parameter followed by values of its own domain (added to the universal menu).
func (e *sysEnv) sysParams() map[string][][]sval {
	n := func(l string, c []byte) sval { return sval{l, c} }
	ctx := n("ctx", e.ctxFrag())
	key := func(s string) sval { return n("k:"+s, fBytes([]byte(s))) }
	flags := []sval{n("flags15", fInt(15))}
	for _, f := range []int64{0, 1, 2, 4, 5, 8, 16, 31, 255, 256} {
		flags = append(flags, n(fmt.Sprintf("flags%d", f), fInt(f)))
	}
	findOpts := []sval{n("opts0", fInt(0))}
	for _, f := range []int64{1, 2, 3, 4, 6, 8, 9, 16, 24, 32, 48, 64, 128, 129, -128} {
		findOpts = append(findOpts, n(fmt.Sprintf("opts%d", f), fInt(f)))
	}
	keys := []sval{key("a"), key(""), key("ab"), key("zz"), n("k:64bytes", fBytes(pat(64, 3))), n("k:65bytes", fBytes(pat(65, 3)))}
	vals := []sval{n("v:abc", fBytes([]byte("abc"))), n("v:empty", fBytes(nil)), n("v:65535bytes", fBytes(pat(65535, 5))), n("v:65536bytes", fBytes(pat(65536, 5)))}
	methods := []sval{n("m:echo", fBytes([]byte("echo"))), n("m:main", fBytes([]byte("main"))), n("m:_deploy", fBytes([]byte("_deploy"))), n("m:balanceOf", fBytes([]byte("balanceOf"))),
		n("m:32chars", fBytes([]byte(strings.Repeat("m", 32)))), n("m:33chars", fBytes([]byte(strings.Repeat("m", 33))))}
	hashes := []sval{n("H", fBytes(e.H.BytesBE())), n("GAS", fBytes(nativeHash("GasToken").BytesBE())), n("CryptoLib", fBytes(nativeHash("CryptoLib").BytesBE())), n("absent", fBytes(e.Absent.BytesBE()))}
	callArgs := []sval{n("args[1]", fArr(fInt(1))), n("args[]", fOps(opcode.NEWARRAY0)), n("args[signer]", fArr(fBytes(e.Signer.BytesBE()))), n("args[1,2]", fArr(fInt(1), fInt(2))), n("args16", fNewArray(16)), n("args17", fNewArray(17))}
	scripts := []sval{n("script-ret", fBytes([]byte{byte(opcode.RET)})), n("script-empty", fBytes(nil)), n("script-push-args", fBytes([]byte{byte(opcode.DEPTH)})),
		n("script-abort", fBytes([]byte{byte(opcode.ABORT)})), n("script-bad-opcode", fBytes([]byte{0xff})), n("script-truncated", fBytes([]byte{byte(opcode.PUSHDATA4), 1})),
		n("script-jump-out", fBytes([]byte{byte(opcode.JMP), 0x7f})), n("script-syscall-getcontext", fBytes(e.ctxFrag())), n("script-throw", fBytes([]byte{byte(opcode.PUSH1), byte(opcode.THROW)}))}
	names := []sval{n("ev:abc", fBytes([]byte("abc"))), n("ev:empty", fBytes(nil)), n("ev:32", fBytes([]byte(strings.Repeat("e", 32)))), n("ev:33", fBytes([]byte(strings.Repeat("e", 33)))), n("ev:Transfer", fBytes([]byte("Transfer")))}
	logs := []sval{n("log:abc", fBytes([]byte("abc"))), n("log:1024", fBytes([]byte(strings.Repeat("l", 1024)))), n("log:1025", fBytes([]byte(strings.Repeat("l", 1025))))}
	gasv := []sval{n("gas1", fInt(1)), n("gas0", fInt(0)), n("gas-1", fInt(-1)), n("gas10^8", fInt(100000000)), n("gas2^63-1", fInt(1<<63-1))}
	iter := []sval{n("iterator", e.iterFrag())}
	k1 := n("key", fBytes(e.Acc[0].Comp))
	sig := n("sig", fBytes(e.Acc[0].Sig))
	return map[string][][]sval{
		interopnames.SystemContractCall:                  {hashes, methods, flags, callArgs},
		interopnames.SystemContractCallNative:            {{n("ver0", fInt(0)), n("ver1", fInt(1))}},
		interopnames.SystemContractCreateMultisigAccount: {{n("m1", fInt(1)), n("m2", fInt(2))}, {n("keys2", fArr(fBytes(e.Acc[0].Comp), fBytes(e.Acc[1].Comp)))}},
		interopnames.SystemContractCreateStandardAccount: {{k1}},
		interopnames.SystemContractGetCallFlags:          {},
		interopnames.SystemContractNativeOnPersist:       {},
		interopnames.SystemContractNativePostPersist:     {},
		interopnames.SystemCryptoCheckMultisig:           {{n("keys2", fArr(fBytes(e.Acc[0].Comp), fBytes(e.Acc[1].Comp)))}, {n("sigs2", fArr(fBytes(e.Acc[0].Sig), fBytes(e.Acc[1].Sig)))}},
		interopnames.SystemCryptoCheckSig:                {{k1}, {sig}},
		interopnames.SystemIteratorNext:                  {iter},
		interopnames.SystemIteratorValue:                 {iter},
		interopnames.SystemRuntimeBurnGas:                {gasv},
		interopnames.SystemRuntimeCheckWitness:           {{n("signer", fBytes(e.Signer.BytesBE())), k1, n("H", fBytes(e.H.BytesBE()))}},
		interopnames.SystemRuntimeCurrentSigners:         {},
		interopnames.SystemRuntimeGasLeft:                {},
		interopnames.SystemRuntimeGetAddressVersion:      {},
		interopnames.SystemRuntimeGetCallingScriptHash:   {},
		interopnames.SystemRuntimeGetEntryScriptHash:     {},
		interopnames.SystemRuntimeGetExecutingScriptHash: {},
		interopnames.SystemRuntimeGetInvocationCounter:   {},
		interopnames.SystemRuntimeGetNetwork:             {},
		interopnames.SystemRuntimeGetNotifications:       {{n("null", fOps(opcode.PUSHNULL)), n("H", fBytes(e.H.BytesBE()))}},
		interopnames.SystemRuntimeGetRandom:              {},
		interopnames.SystemRuntimeGetScriptContainer:     {},
		interopnames.SystemRuntimeGetTime:                {},
		interopnames.SystemRuntimeGetTrigger:             {},
		interopnames.SystemRuntimeLoadScript:             {scripts, flags, callArgs},
		interopnames.SystemRuntimeLog:                    {logs},
		interopnames.SystemRuntimeNotify:                 {names, callArgs},
		interopnames.SystemRuntimePlatform:               {},
		interopnames.SystemStorageDelete:                 {{ctx}, keys},
		interopnames.SystemStorageFind:                   {{ctx}, keys, findOpts},
		interopnames.SystemStorageGet:                    {{ctx}, keys},
		interopnames.SystemStorageGetContext:             {},
		interopnames.SystemStorageGetReadOnlyContext:     {},
		interopnames.SystemStoragePut:                    {{ctx}, keys, vals},
		interopnames.SystemStorageAsReadOnly:             {{ctx}},
		interopnames.SystemStorageLocalGet:               {keys},
		interopnames.SystemStorageLocalFind:              {keys, findOpts},
		interopnames.SystemStorageLocalPut:               {keys, vals},
		interopnames.SystemStorageLocalDelete:            {keys},
	}
}

// tail: what runs after the call under test, so that what it pushed is used
// (an iterator is advanced and read, a returned item is serialized into a
// notification).
func sysTail(name string) []byte {
	switch name {
	case interopnames.SystemStorageFind, interopnames.SystemStorageLocalFind:
		return cat(fOps(opcode.DUP), fSyscall(interopnames.SystemIteratorNext), fOps(opcode.DROP), fSyscall(interopnames.SystemIteratorValue))
	case interopnames.SystemIteratorNext:
		return nil
	}
	return nil
}

type caseList struct {
	cases []sysCase // entries the keep filter rejected are empty
	fams  map[string]int
	seen  map[string]bool
	keep  func(i int) bool // nil: all (a worker keeps the cases of its slice only)
	sum   hash.Hash
}

func newCaseList(keep func(i int) bool) *caseList {
	return &caseList{fams: map[string]int{}, seen: map[string]bool{}, keep: keep, sum: sha256.New()}
}

func (l *caseList) add(fam, target, labels string, hf int, script []byte) {
	id := fam + "/" + target + "/" + labels + "/" + hfNames[hf]
	if l.keep == nil { // the parent checks that ids are unique
		if l.seen[id] {
			panic("C12 syscalls: duplicate case id " + id)
		}
		l.seen[id] = true
	}
	l.fams[fam]++
	l.sum.Write([]byte(id))
	l.sum.Write([]byte{0})
	l.sum.Write(script)
	l.sum.Write([]byte{1})
	if l.keep != nil && !l.keep(len(l.cases)) {
		l.cases = append(l.cases, sysCase{})
		return
	}
	l.cases = append(l.cases, sysCase{ID: id, Fam: fam, Target: target, HF: hf, Script: script})
}

func labelsOf(vs []sval) string {
	s := make([]string, len(vs))
	for i, v := range vs {
		s[i] = v.L
	}
	return strings.Join(s, ",")
}

// callScript: parameters in pop order.
func callScript(name string, vs []sval) []byte {
	var parts [][]byte
	for i := len(vs) - 1; i >= 0; i-- {
		parts = append(parts, vs[i].C)
	}
	parts = append(parts, fSyscall(name), sysTail(name))
	return cat(parts...)
}

// buildSysCases enumerates the case list of a tier.
func buildSysCases(e *sysEnv, thorough bool, keep func(i int) bool) *caseList {
	l := newCaseList(keep)
	uni := e.universal()
	params := e.sysParams()
	hfs := []int{0}
	if thorough {
		hfs = []int{0, 1}
	}
	// sys1 + sysN
	for _, hf := range hfs {
		for _, f := range e.Funcs[hf] {
			ps, ok := params[f.Name]
			if !ok {
				panic("C12 syscalls: interop " + f.Name + " of the context's table has no parameter list in the harness")
			}
			base := make([]sval, len(ps))
			for i := range ps {
				base[i] = ps[i][0]
			}
			l.add("sys1", f.Name, "baseline("+labelsOf(base)+")", hf, callScript(f.Name, base))
			for i := range ps {
				for k, v := range append(append([]sval{}, ps[i][1:]...), uni...) {
					args := append([]sval{}, base...)
					args[i] = v
					own := "" // a value of the parameter's own domain
					if k < len(ps[i])-1 {
						own = "own:"
					}
					l.add("sys1", f.Name, fmt.Sprintf("p%d=%s%s", i, own, v.L), hf, callScript(f.Name, args))
				}
			}
			// one item short / no item at all on the stack
			if len(ps) > 0 {
				l.add("sys1", f.Name, "empty-stack", hf, callScript(f.Name, nil))
			}
			if len(ps) > 1 {
				l.add("sys1", f.Name, "one-short", hf, callScript(f.Name, base[:len(ps)-1]))
			}
			if len(ps) >= 2 {
				core := e.core(thorough || len(ps) <= 3)
				idx := make([]int, len(ps))
				for {
					args := make([]sval, len(ps))
					for i, k := range idx {
						args[i] = core[k]
					}
					l.add("sysN", f.Name, labelsOf(args), hf, callScript(f.Name, args))
					i := len(idx) - 1
					for ; i >= 0; i-- {
						idx[i]++
						if idx[i] < len(core) {
							break
						}
						idx[i] = 0
					}
					if i < 0 {
						break
					}
				}
			}
		}
	}
	e.multisigCases(l, thorough)
	e.sigCases(l, thorough)
	e.cryptoCases(l, thorough)
	e.nativeCases(l, uni, thorough)
	e.iterCases(l, thorough)
	e.calltCases(l, uni, thorough)
	e.seqCases(l, thorough)
	return l
}

// ---- CheckMultisig ------------------------------------------------------------------

func (e *sysEnv) multisigCases(l *caseList, thorough bool) {
	_, bad := keyKinds(e.Acc[0].Comp, e.Acc[0].X, e.Acc[0].Y)
	bad = append(bad, sval{"key-int", fInt(7)}, sval{"key-null", fOps(opcode.PUSHNULL)}, sval{"key-array", fOps(opcode.NEWARRAY0)}, sval{"key-other-valid", fBytes(e.Acc[3].Comp)})
	name := interopnames.SystemCryptoCheckMultisig
	short := func(s []byte) []byte { return s[:63] }
	long := func(s []byte) []byte { return append(append([]byte{}, s...), 0) }
	wrong := func(s []byte) []byte { o := append([]byte{}, s...); o[40] ^= 1; return o }
	for hf := 0; hf <= 1; hf++ {
		for n := 1; n <= 4; n++ {
			for m := 1; m <= n; m++ {
				// the signers: the keys at the first m positions, at the last m positions, and (m < n) alternating
				for _, which := range []string{"first", "last"} {
					if which == "last" && m == n {
						continue
					}
					signer := func(j int) int { // key index signing signature j
						if which == "first" {
							return j
						}
						return n - m + j
					}
					type sigPat struct {
						l string
						f func(j int) []byte
					}
					pats := []sigPat{
						{"valid", func(j int) []byte { return e.Acc[signer(j)].Sig }},
						{"none-valid", func(j int) []byte { return wrong(e.Acc[signer(j)].Sig) }},
						{"reversed", func(j int) []byte { return e.Acc[signer(m-1-j)].Sig }},
						{"all63", func(j int) []byte { return short(e.Acc[signer(j)].Sig) }},
						{"all65", func(j int) []byte { return long(e.Acc[signer(j)].Sig) }},
					}
					for p := 0; p < m; p++ {
						p := p
						pats = append(pats,
							sigPat{fmt.Sprintf("sig%d-63bytes", p), func(j int) []byte {
								if j == p {
									return short(e.Acc[signer(j)].Sig)
								}
								return e.Acc[signer(j)].Sig
							}},
							sigPat{fmt.Sprintf("sig%d-65bytes", p), func(j int) []byte {
								if j == p {
									return long(e.Acc[signer(j)].Sig)
								}
								return e.Acc[signer(j)].Sig
							}},
							sigPat{fmt.Sprintf("sig%d-wrong", p), func(j int) []byte {
								if j == p {
									return wrong(e.Acc[signer(j)].Sig)
								}
								return e.Acc[signer(j)].Sig
							}})
					}
					for _, sp := range pats {
						// key sets: all good; position q malformed with every kind; all positions malformed
						type keySet struct {
							l string
							f func(i int) []byte
						}
						sets := []keySet{{"keys-good", func(i int) []byte { return fBytes(e.Acc[i].Comp) }}}
						for q := 0; q < n; q++ {
							for _, b := range bad {
								q, b := q, b
								sets = append(sets, keySet{fmt.Sprintf("key%d=%s", q, b.L), func(i int) []byte {
									if i == q {
										return b.C
									}
									return fBytes(e.Acc[i].Comp)
								}})
							}
						}
						for _, bl := range []string{"key-prefix00", "key-x-off-curve", "key-truncated32"} {
							b := byLabel(bad, bl)
							sets = append(sets, keySet{"all-keys=" + b.L, func(int) []byte { return b.C }})
						}
						for _, ks := range sets {
							if !thorough && hf == 1 && n == 4 && !strings.HasPrefix(ks.l, "keys-good") && !strings.Contains(ks.l, "prefix00") && !strings.Contains(ks.l, "x-off-curve") {
								continue // quick, no hardforks: the whole key menu up to n = 3 only
							}
							var kf, sf [][]byte
							for i := 0; i < n; i++ {
								kf = append(kf, ks.f(i))
							}
							for j := 0; j < m; j++ {
								sf = append(sf, fBytes(sp.f(j)))
							}
							for _, form := range []string{"arrays", "counted"} {
								var script []byte
								if form == "arrays" {
									script = cat(fArr(sf...), fArr(kf...), fSyscall(name))
								} else { // sig[m-1] .. sig[0] m key[n-1] .. key[0] n
									var parts [][]byte
									for j := m - 1; j >= 0; j-- {
										parts = append(parts, sf[j])
									}
									parts = append(parts, fInt(int64(m)))
									for i := n - 1; i >= 0; i-- {
										parts = append(parts, kf[i])
									}
									parts = append(parts, fInt(int64(n)), fSyscall(name))
									script = cat(parts...)
								}
								l.add("multisig", name, fmt.Sprintf("n%d,m%d,signers-%s,%s,%s,%s", n, m, which, sp.l, ks.l, form), hf, script)
							}
						}
					}
				}
			}
		}
	}
}

// sigCases: CheckSig, account creation, CheckWitness.
func (e *sysEnv) sigCases(l *caseList, thorough bool) {
	good, bad := keyKinds(e.Acc[0].Comp, e.Acc[0].X, e.Acc[0].Y)
	keys := append(append([]sval{}, good...), bad...)
	keys = append(keys, sval{"key2", fBytes(e.Acc[1].Comp)}, sval{"key-null", fOps(opcode.PUSHNULL)}, sval{"key-int", fInt(3)}, sval{"key-array", fOps(opcode.NEWARRAY0)}, sval{"key-buffer", fBuffer(e.Acc[0].Comp)})
	s := e.Acc[0].Sig
	hi := append([]byte{}, s...)
	copy(hi[32:], bytesOf(0xff, 32))
	sigs := []sval{{"sig", fBytes(s)}, {"sig-wrong", fBytes(append(append([]byte{}, s[:40]...), append([]byte{s[40] ^ 1}, s[41:]...)...))}, {"sig63", fBytes(s[:63])}, {"sig65", fBytes(append(append([]byte{}, s...), 0))},
		{"sig0", fBytes(nil)}, {"sig64-zero", fBytes(make([]byte, 64))}, {"sig64-ff", fBytes(bytesOf(0xff, 64))}, {"sig-s-above-n", fBytes(hi)}, {"sig-null", fOps(opcode.PUSHNULL)}, {"sig-int", fInt(-1)}, {"sig-array", fOps(opcode.NEWARRAY0)}, {"sig-1024", fBytes(pat(1024, 9))}}
	for hf := 0; hf <= 1; hf++ {
		for _, k := range keys {
			for _, sg := range sigs {
				l.add("checksig", interopnames.SystemCryptoCheckSig, k.L+","+sg.L, hf, cat(sg.C, k.C, fSyscall(interopnames.SystemCryptoCheckSig)))
			}
		}
	}
	hfs := []int{0}
	if thorough {
		hfs = []int{0, 1}
	}
	for _, hf := range hfs {
		for _, k := range keys {
			l.add("account", interopnames.SystemContractCreateStandardAccount, k.L, hf, cat(k.C, fSyscall(interopnames.SystemContractCreateStandardAccount)))
			l.add("account", interopnames.SystemRuntimeCheckWitness, k.L, hf, cat(k.C, fSyscall(interopnames.SystemRuntimeCheckWitness)))
		}
		ms := []sval{}
		for _, m := range []int64{-1, 0, 1, 2, 3, 4, 5, 1024, 1025, 1<<31 - 1, 1 << 31, 1 << 32, 1<<63 - 1, -(1 << 63)} {
			ms = append(ms, sval{fmt.Sprintf("m%d", m), fInt(m)})
		}
		ms = append(ms, sval{"m2^63", fBig(pow2(63))}, sval{"m2^64+1", fBig(new(big.Int).Add(pow2(64), big.NewInt(1)))}, sval{"m-null", fOps(opcode.PUSHNULL)}, sval{"m-bytes", fBytes([]byte{2})})
		for n := 0; n <= 4; n++ {
			var sets []sval
			goodSet := make([][]byte, n)
			for i := range goodSet {
				goodSet[i] = fBytes(e.Acc[i].Comp)
			}
			sets = append(sets, sval{fmt.Sprintf("keys%d", n), fArr(goodSet...)})
			for q := 0; q < n; q++ {
				for _, b := range keys[2:] {
					ks := append([][]byte{}, goodSet...)
					ks[q] = b.C
					sets = append(sets, sval{fmt.Sprintf("keys%d[%d]=%s", n, q, b.L), fArr(ks...)})
				}
			}
			if n == 2 {
				sets = append(sets, sval{"keys2-equal", fArr(goodSet[0], goodSet[0])})
			}
			for _, ks := range sets {
				for _, m := range ms {
					if ks.L != fmt.Sprintf("keys%d", n) && m.L != "m1" && m.L != fmt.Sprintf("m%d", n) {
						continue // malformed positions with m = 1 and m = n only
					}
					l.add("account", interopnames.SystemContractCreateMultisigAccount, m.L+","+ks.L, hf, cat(ks.C, m.C, fSyscall(interopnames.SystemContractCreateMultisigAccount)))
				}
			}
		}
		for _, sz := range []int{1024, 1025} {
			l.add("account", interopnames.SystemContractCreateMultisigAccount, fmt.Sprintf("m1,keys%d-nulls", sz), hf, cat(fNewArray(sz), fInt(1), fSyscall(interopnames.SystemContractCreateMultisigAccount)))
		}
	}
}

// ---- CryptoLib ----------------------------------------------------------------------

func (e *sysEnv) cryptoCases(l *caseList, thorough bool) {
	cl := nativeHash("CryptoLib")
	good, bad := keyKinds(e.Acc[0].Comp, e.Acc[0].X, e.Acc[0].Y)
	keys := append(append([]sval{}, good...), bad...)
	keys = append(keys, sval{"key-null", fOps(opcode.PUSHNULL)}, sval{"key-int", fInt(3)}, sval{"key-array", fOps(opcode.NEWARRAY0)})
	s := e.Acc[0].Sig
	sigs := []sval{{"sig", fBytes(s)}, {"sig63", fBytes(s[:63])}, {"sig65", fBytes(append(append([]byte{}, s...), 0))}, {"sig0", fBytes(nil)}, {"sig64-zero", fBytes(make([]byte, 64))}, {"sig64-ff", fBytes(bytesOf(0xff, 64))}, {"sig-null", fOps(opcode.PUSHNULL)}, {"sig-array", fOps(opcode.NEWARRAY0)}}
	curves := []sval{}
	for _, c := range []int64{23, 22, 122, 123, 0, 1, 21, 24, 121, 124, -1, 255, 256, 1 << 31, 1<<63 - 1} {
		curves = append(curves, sval{fmt.Sprintf("curve%d", c), fInt(c)})
	}
	curves = append(curves, sval{"curve2^64", fBig(pow2(64))}, sval{"curve-null", fOps(opcode.PUSHNULL)}, sval{"curve-bytes", fBytes([]byte{23})}, sval{"curve-array", fOps(opcode.NEWARRAY0)})
	msgs := []sval{{"msg-abc", fBytes([]byte("abc"))}, {"msg-empty", fBytes(nil)}, {"msg-null", fOps(opcode.PUSHNULL)}, {"msg-32", fBytes(pat(32, 2))}, {"msg-array", fOps(opcode.NEWARRAY0)}}
	for hf := 0; hf <= 1; hf++ {
		for mi, msg := range msgs {
			for _, k := range keys {
				for _, sg := range sigs {
					for ci, c := range curves {
						if !thorough && (mi > 2 || hf == 1) && ci > 5 {
							continue // quick: the whole curve menu with the first three messages and every hardfork only
						}
						l.add("crypto", "CryptoLib.verifyWithECDsa", strings.Join([]string{msg.L, k.L, sg.L, c.L}, ","), hf, fNative(cl, "verifyWithECDsa", msg.C, k.C, sg.C, c.C))
					}
				}
			}
		}
		lens := []int{0, 1, 31, 32, 33, 63, 64, 65, 66, 96, 1024}
		for _, kl := range lens {
			for _, sl := range lens {
				for _, msg := range msgs[:3] {
					l.add("crypto", "CryptoLib.verifyWithEd25519", fmt.Sprintf("%s,key%d,sig%d", msg.L, kl, sl), hf, fNative(cl, "verifyWithEd25519", msg.C, fBytes(pat(kl, 1)), fBytes(pat(sl, 1))))
					l.add("crypto", "CryptoLib.recoverSecp256K1", fmt.Sprintf("%s,hash%d,sig%d", msg.L, kl, sl), hf, fNative(cl, "recoverSecp256K1", fBytes(pat(kl, 1)), fBytes(pat(sl, 1))))
				}
			}
		}
		// recoverSecp256K1: the recovery byte at every value around its range, on a 65-byte signature
		for _, v := range []byte{0, 1, 2, 3, 4, 26, 27, 28, 29, 30, 31, 32, 255} {
			sg := append(append([]byte{}, s...), v)
			l.add("crypto", "CryptoLib.recoverSecp256K1", fmt.Sprintf("hash32,sig-v%d", v), hf, fNative(cl, "recoverSecp256K1", fBytes(pat(32, 4)), fBytes(sg)))
			z := make([]byte, 65)
			z[64] = v
			l.add("crypto", "CryptoLib.recoverSecp256K1", fmt.Sprintf("hash32,sig-zero-v%d", v), hf, fNative(cl, "recoverSecp256K1", fBytes(pat(32, 4)), fBytes(z)))
		}
		for _, h := range []string{"sha256", "ripemd160", "keccak256"} {
			for _, n := range []int{0, 1, 55, 56, 64, 65, 1024, 65535} {
				l.add("crypto", "CryptoLib."+h, fmt.Sprintf("bytes%d", n), hf, fNative(cl, h, fBytes(pat(n, 1))))
			}
		}
		for _, n := range []int{0, 1, 3, 4, 5, 1024} {
			for _, seed := range []sval{{"seed0", fInt(0)}, {"seed-1", fInt(-1)}, {"seed2^32-1", fInt(1<<32 - 1)}, {"seed2^32", fInt(1 << 32)}, {"seed-null", fOps(opcode.PUSHNULL)}} {
				l.add("crypto", "CryptoLib.murmur32", fmt.Sprintf("bytes%d,%s", n, seed.L), hf, fNative(cl, "murmur32", fBytes(pat(n, 1)), seed.C))
			}
		}
		// bls12-381
		pts := []sval{{"G1", e.blsFrag(e.BlsG1)}, {"G2", e.blsFrag(e.BlsG2)}, {"Gt", e.blsFrag(e.BlsGt)}, {"ctx", e.ctxFrag()}, {"iterator", e.iterFrag()}, {"null", fOps(opcode.PUSHNULL)}, {"bytes48", fBytes(e.BlsG1)}, {"int", fInt(1)}}
		for _, n := range []int{0, 1, 47, 48, 49, 95, 96, 97, 192, 575, 576, 577, 1024} {
			for _, first := range []byte{0x00, 0x80, 0xc0, 0xe0, 0x97} {
				b := make([]byte, n)
				if n > 0 {
					b[0] = first
				}
				l.add("crypto", "CryptoLib.bls12381Deserialize", fmt.Sprintf("bytes%d-first%02x", n, first), hf, fNative(cl, "bls12381Deserialize", fBytes(b)))
			}
		}
		for _, pt := range []struct {
			l string
			b []byte
		}{{"G1", e.BlsG1}, {"G2", e.BlsG2}, {"Gt", e.BlsGt}} {
			lbl, b := pt.l, pt.b
			for _, cut := range []int{0, 1} {
				bb := append([]byte{}, b[:len(b)-cut]...)
				l.add("crypto", "CryptoLib.bls12381Deserialize", fmt.Sprintf("%s-cut%d", lbl, cut), hf, fNative(cl, "bls12381Deserialize", fBytes(bb)))
				if cut == 0 {
					bb[len(bb)-1] ^= 1
					l.add("crypto", "CryptoLib.bls12381Deserialize", lbl+"-last-bit-flipped", hf, fNative(cl, "bls12381Deserialize", fBytes(bb)))
				}
			}
		}
		for _, a := range pts {
			l.add("crypto", "CryptoLib.bls12381Serialize", a.L, hf, fNative(cl, "bls12381Serialize", a.C))
			for _, b := range pts {
				l.add("crypto", "CryptoLib.bls12381Equal", a.L+","+b.L, hf, fNative(cl, "bls12381Equal", a.C, b.C))
				l.add("crypto", "CryptoLib.bls12381Add", a.L+","+b.L, hf, fNative(cl, "bls12381Add", a.C, b.C))
				l.add("crypto", "CryptoLib.bls12381Pairing", a.L+","+b.L, hf, fNative(cl, "bls12381Pairing", a.C, b.C))
			}
			for _, sc := range []sval{{"scalar32-3", fBytes(append([]byte{3}, make([]byte, 31)...))}, {"scalar32-ff", fBytes(bytesOf(0xff, 32))}, {"scalar31", fBytes(make([]byte, 31))}, {"scalar33", fBytes(make([]byte, 33))}, {"scalar0", fBytes(nil)}, {"scalar-null", fOps(opcode.PUSHNULL)}, {"scalar-int", fInt(3)}} {
				for _, neg := range []sval{{"neg-false", fOps(opcode.PUSHF)}, {"neg-true", fOps(opcode.PUSHT)}, {"neg-null", fOps(opcode.PUSHNULL)}, {"neg-array", fOps(opcode.NEWARRAY0)}} {
					l.add("crypto", "CryptoLib.bls12381Mul", strings.Join([]string{a.L, sc.L, neg.L}, ","), hf, fNative(cl, "bls12381Mul", a.C, sc.C, neg.C))
				}
			}
		}
	}
}

// ---- every native method ------------------------------------------------------------

func (e *sysEnv) baseline(t smartcontract.ParamType, contract, method string, i int) sval {
	switch t {
	case smartcontract.Hash160Type:
		return sval{"signer", fBytes(e.Signer.BytesBE())}
	case smartcontract.Hash256Type:
		return sval{"h256", fBytes(pat(32, 6))}
	case smartcontract.IntegerType:
		return sval{"1", fInt(1)}
	case smartcontract.StringType:
		return sval{"abc", fBytes([]byte("abc"))}
	case smartcontract.ByteArrayType:
		return sval{"bytes-abc", fBytes([]byte("abc"))}
	case smartcontract.PublicKeyType:
		return sval{"key", fBytes(e.Acc[0].Comp)}
	case smartcontract.SignatureType:
		return sval{"sig", fBytes(e.Acc[0].Sig)}
	case smartcontract.BoolType:
		return sval{"true", fOps(opcode.PUSHT)}
	case smartcontract.ArrayType:
		return sval{"array0", fOps(opcode.NEWARRAY0)}
	case smartcontract.MapType:
		return sval{"map0", fOps(opcode.NEWMAP)}
	case smartcontract.InteropInterfaceType:
		if contract == "CryptoLib" {
			return sval{"G1", e.blsFrag(e.BlsG1)}
		}
		return sval{"ctx", e.ctxFrag()}
	}
	return sval{"null", fOps(opcode.PUSHNULL)}
}

func (e *sysEnv) nativeCases(l *caseList, uni []sval, thorough bool) {
	hfs := []int{0}
	if thorough {
		hfs = []int{0, 1}
	}
	pair := e.core(true)
	for _, hf := range hfs {
		for _, cs := range e.Natives[hf] {
			name := cs.Manifest.Name
			seen := map[string]bool{}
			for _, md := range cs.Manifest.ABI.Methods {
				target := fmt.Sprintf("%s.%s/%d", name, md.Name, len(md.Parameters))
				if seen[target] {
					continue
				}
				seen[target] = true
				base := make([]sval, len(md.Parameters))
				for i, p := range md.Parameters {
					base[i] = e.baseline(p.Type, name, md.Name, i)
				}
				mk := func(args []sval) []byte {
					fs := make([][]byte, len(args))
					for i := range args {
						fs[i] = args[i].C
					}
					return fNative(cs.Hash, md.Name, fs...)
				}
				l.add("native1", target, "baseline("+labelsOf(base)+")", hf, mk(base))
				for i := range base {
					for _, v := range uni {
						args := append([]sval{}, base...)
						args[i] = v
						l.add("native1", target, fmt.Sprintf("p%d=%s", i, v.L), hf, mk(args))
					}
				}
				// native2: every pair of parameters over the product of the pair menu, the others at the baseline
				for i := range base {
					for j := i + 1; j < len(base); j++ {
						for _, vi := range pair {
							for _, vj := range pair {
								args := append([]sval{}, base...)
								args[i], args[j] = vi, vj
								l.add("native2", target, fmt.Sprintf("p%d=%s,p%d=%s", i, vi.L, j, vj.L), hf, mk(args))
							}
						}
					}
				}
			}
		}
	}
}

// ---- iterators ----------------------------------------------------------------------

// iterCases: Find with every option byte, the iterator traversed completely:
//
//	loop: DUP Next JMPIFNOT end; DUP Value DROP; JMP loop; end: (Value once more past the end)
func (e *sysEnv) iterCases(l *caseList, thorough bool) {
	hfs := []int{0}
	if thorough {
		hfs = []int{0, 1}
	}
	prefixes := []sval{{"pfx-empty", fBytes(nil)}, {"pfx-a", fBytes([]byte("a"))}, {"pfx-ab", fBytes([]byte("ab"))}, {"pfx-zz", fBytes([]byte("zz"))}, {"pfx-s", fBytes([]byte("s"))}}
	for _, hf := range hfs {
		for opts := -1; opts <= 256; opts++ {
			for _, p := range prefixes {
				for _, local := range []bool{false, true} {
					name := interopnames.SystemStorageFind
					var find []byte
					if local {
						name = interopnames.SystemStorageLocalFind
						find = cat(fInt(int64(opts)), p.C, fSyscall(name))
					} else {
						find = cat(fInt(int64(opts)), p.C, e.ctxFrag(), fSyscall(name))
					}
					script := frag(func(a *asm) {
						a.raw(find...)
						loop, end := a.newLabel(), a.newLabel()
						a.here(loop)
						a.op(opcode.DUP)
						a.raw(fSyscall(interopnames.SystemIteratorNext)...)
						a.jmp(opcode.JMPIFNOT, end)
						a.op(opcode.DUP)
						a.raw(fSyscall(interopnames.SystemIteratorValue)...)
						a.op(opcode.DROP)
						a.jmp(opcode.JMP, loop)
						a.here(end)
						a.op(opcode.DUP)
						a.raw(fSyscall(interopnames.SystemIteratorValue)...)
					})
					l.add("iter", name, fmt.Sprintf("opts%d,%s", opts, p.L), hf, script)
				}
			}
		}
	}
}

// calltCases: CALLT with every token of the NEF (natives, the helper contract
// itself, an absent contract, wrong parameter counts, a return value mismatch,
// restricted and invalid flags), token ids past the table, x the universal menu
// for the topmost argument (the others null), an empty stack.
func (e *sysEnv) calltCases(l *caseList, uni []sval, thorough bool) {
	hfs := []int{0}
	if thorough {
		hfs = []int{0, 1}
	}
	callt := func(id int) []byte { return []byte{byte(opcode.CALLT), byte(id), byte(id >> 8)} }
	for _, hf := range hfs {
		for _, id := range []int{0, 1, 2, 3, 4, 5, 6, 7, 8, 9, 10, 11, 12, 13, 14, e.NTokens, e.NTokens + 1, 255, 256, 0x7fff, 0x8000, 0xffff} {
			target := fmt.Sprintf("CALLT/token%d", id)
			l.add("callt", target, "empty-stack", hf, callt(id))
			for _, v := range uni {
				l.add("callt", target, "top="+v.L, hf, cat(fNewArray(17), fOps(opcode.UNPACK, opcode.DROP), v.C, callt(id)))
			}
		}
	}
}

// seqCases: short histories of interops whose handlers depend on what earlier
// ones left behind (notifications collected so far, the private storage layer,
// read-only contexts, dynamically loaded scripts calling interops themselves).
func (e *sysEnv) seqCases(l *caseList, thorough bool) {
	hfs := []int{0}
	if thorough {
		hfs = []int{0, 1}
	}
	sc := fSyscall
	ctx := e.ctxFrag()
	notify := func(name string, args []byte) []byte {
		return cat(args, fBytes([]byte(name)), sc(interopnames.SystemRuntimeNotify))
	}
	getN := func(arg []byte) []byte { return cat(arg, sc(interopnames.SystemRuntimeGetNotifications)) }
	put := func(c []byte, k, v string) []byte {
		return cat(fBytes([]byte(v)), fBytes([]byte(k)), c, sc(interopnames.SystemStoragePut))
	}
	get := func(c []byte, k string) []byte { return cat(fBytes([]byte(k)), c, sc(interopnames.SystemStorageGet)) }
	del := func(c []byte, k string) []byte {
		return cat(fBytes([]byte(k)), c, sc(interopnames.SystemStorageDelete))
	}
	find := func(c []byte, p string, opts int64) []byte {
		return cat(fInt(opts), fBytes([]byte(p)), c, sc(interopnames.SystemStorageFind))
	}
	traverse := frag(func(a *asm) {
		loop, end := a.newLabel(), a.newLabel()
		a.here(loop)
		a.op(opcode.DUP)
		a.raw(sc(interopnames.SystemIteratorNext)...)
		a.jmp(opcode.JMPIFNOT, end)
		a.op(opcode.DUP)
		a.raw(sc(interopnames.SystemIteratorValue)...)
		a.op(opcode.DROP)
		a.jmp(opcode.JMP, loop)
		a.here(end)
		a.op(opcode.NOP) // a jump to the very end of a script is out of range
	})
	repeat := func(n int, body []byte) []byte { // n <= 127 iterations, counter in static slot 0
		return frag(func(a *asm) {
			a.op(opcode.INITSSLOT)
			a.raw(1)
			a.pushInt(0)
			a.op(opcode.STSFLD0)
			loop := a.newLabel()
			a.here(loop)
			a.raw(body...)
			a.op(opcode.LDSFLD0, opcode.INC, opcode.DUP, opcode.STSFLD0)
			a.pushInt(int64(n))
			a.jmp(opcode.JMPLTL, loop)
		})
	}
	null, one := fOps(opcode.PUSHNULL), fArr(fInt(1))
	ro := sc(interopnames.SystemStorageGetReadOnlyContext)
	asRO := cat(ctx, sc(interopnames.SystemStorageAsReadOnly))
	load := func(script []byte, flags int64, args []byte) []byte {
		return cat(args, fInt(flags), fBytes(script), sc(interopnames.SystemRuntimeLoadScript))
	}
	seqs := []struct {
		n string
		s []byte
	}{
		{"notify,get(null)", cat(notify("abc", one), getN(null))},
		{"notify,notify,get(H)", cat(notify("abc", one), notify("ev0", fOps(opcode.NEWARRAY0)), getN(fBytes(e.H.BytesBE())))},
		{"notify,get(absent)", cat(notify("abc", one), getN(fBytes(e.Absent.BytesBE())))},
		{"notify,get,modify-state,get", cat(notify("abc", fArr(fArr(fInt(7)))), getN(null), fInt(0), fOps(opcode.PICKITEM), fInt(2), fOps(opcode.PICKITEM), fInt(5), fOps(opcode.APPEND), getN(null))},
		{"notify(Transfer),get", cat(notify("Transfer", fArr(fBytes(e.Signer.BytesBE()), null, fInt(5))), getN(null))},
		{"notify(Transfer-bad-types)", notify("Transfer", fArr(fInt(1), fInt(2), fBytes([]byte("x"))))},
		{"notify(array,bytes)x20-of-100,get", cat(repeat(20, notify(strings.Repeat("e", 32), fArr(fNewArray(100), fBytes(pat(900, 2))))), getN(null))},
		{"notify-x127,get", cat(repeat(127, notify("ev0", fOps(opcode.NEWARRAY0))), getN(null))},
		{"notify(ctx)", notify("abc", fArr(ctx))},
		{"notify(cyclic)", notify("abc", fArr(fOps(opcode.NEWARRAY0, opcode.DUP, opcode.DUP, opcode.APPEND)))},
		{"notify(1024-bytes-of-1024)", notify("abc", fArr(fBytes(pat(1024, 1))))},
		{"notify(1025-bytes)", notify("abc", fArr(fBytes(pat(1025, 1))))},
		{"log-x100", repeat(100, cat(fBytes([]byte("l")), sc(interopnames.SystemRuntimeLog)))},
		{"put,get,del,get", cat(put(ctx, "k", "v"), get(ctx, "k"), del(ctx, "k"), get(ctx, "k"))},
		{"put-existing,find,traverse", cat(put(ctx, "a", "new"), put(ctx, "aa", "x"), del(ctx, "ab"), find(ctx, "a", 0), traverse)},
		{"find,put-while-open,traverse", cat(find(ctx, "", 0), put(ctx, "a0", "x"), del(ctx, "b"), traverse)},
		{"find-backwards,put-while-open,traverse", cat(find(ctx, "", 128), put(ctx, "zz", "x"), traverse)},
		{"find-x100-open", repeat(100, cat(find(ctx, "", 0), fOps(opcode.DROP)))},
		{"find-x100-open-after-puts", cat(put(ctx, "a1", "1"), put(ctx, "a2", "2"), repeat(100, cat(find(ctx, "a", 0), fOps(opcode.DUP), sc(interopnames.SystemIteratorNext), fOps(opcode.DROP, opcode.DROP))))},
		{"put-readonly", put(ro, "k", "v")},
		{"del-readonly", del(ro, "a")},
		{"put-as-readonly", put(asRO, "k", "v")},
		{"get-readonly,find-readonly", cat(get(ro, "a"), find(asRO, "a", 4), traverse)},
		{"put-x127-same-key-growing", repeat(127, cat(fBytes(pat(1000, 1)), fBytes([]byte("g")), ctx, sc(interopnames.SystemStoragePut)))},
		{"load(notify)", load(notify("abc", one), 15, fOps(opcode.NEWARRAY0))},
		{"load(getcontext,put)", load(put(ctx, "k", "v"), 15, fOps(opcode.NEWARRAY0))},
		{"load(getcallflags)-flags0", load(sc(interopnames.SystemContractGetCallFlags), 0, fOps(opcode.NEWARRAY0))},
		{"load(load(load(depth)))", load(load(load(fOps(opcode.DEPTH), 15, fOps(opcode.NEWARRAY0)), 15, fOps(opcode.NEWARRAY0)), 15, fArr(fInt(1), fInt(2)))},
		{"load(args-used)", load(fOps(opcode.ADD), 15, fArr(fInt(1), fInt(2)))},
		{"load(throw)-in-try", frag(func(a *asm) {
			c, end := a.newLabel(), a.newLabel()
			a.try(opcode.TRY, c, -1)
			a.raw(load([]byte{byte(opcode.PUSH1), byte(opcode.THROW)}, 15, fOps(opcode.NEWARRAY0))...)
			a.jmp(opcode.ENDTRY, end)
			a.here(c)
			a.op(opcode.DROP)
			a.jmp(opcode.ENDTRY, end)
			a.here(end)
			a.op(opcode.PUSH2)
		})},
		{"call(H.echo)-in-try,put,throw", frag(func(a *asm) {
			c, end := a.newLabel(), a.newLabel()
			a.try(opcode.TRY, c, -1)
			a.raw(put(ctx, "t", "1")...)
			a.raw(fCall(fBytes(e.H.BytesBE()), fBytes([]byte("echo")), fInt(15), fArr(fNewArray(3)))...)
			a.op(opcode.THROW)
			a.here(c)
			a.op(opcode.DROP)
			a.raw(get(ctx, "t")...)
			a.jmp(opcode.ENDTRY, end)
			a.here(end)
			a.op(opcode.NOP)
		})},
		{"call(GAS.transfer-to-H)-no-payment-method", fNative(nativeHash("GasToken"), "transfer", fBytes(e.Signer.BytesBE()), fBytes(e.H.BytesBE()), fInt(1), null)},
		{"call(H.echo)x127", repeat(127, cat(fCall(fBytes(e.H.BytesBE()), fBytes([]byte("echo")), fInt(15), fArr(fNewArray(10))), fOps(opcode.DROP)))},
		{"burngas-x3,gasleft", cat(repeat(3, cat(fInt(1000), sc(interopnames.SystemRuntimeBurnGas))), sc(interopnames.SystemRuntimeGasLeft))},
		{"getrandom-x5", repeat(5, cat(sc(interopnames.SystemRuntimeGetRandom), fOps(opcode.DROP)))},
		{"signers,container,unpack", cat(sc(interopnames.SystemRuntimeCurrentSigners), fOps(opcode.UNPACK, opcode.DROP), sc(interopnames.SystemRuntimeGetScriptContainer), fOps(opcode.UNPACK))},
	}
	for _, hf := range hfs {
		for _, q := range seqs {
			l.add("seq", "sequence", q.n, hf, q.s)
		}
	}
}

// digest of a case list (the worker must have built the same list as the parent).
func (l *caseList) digest() string {
	return fmt.Sprintf("%d:%s", len(l.cases), hex.EncodeToString(l.sum.Sum(nil)[:8]))
}

func (l *caseList) famSummary() map[string]int {
	out := map[string]int{}
	for k, v := range l.fams {
		out[k] = v
	}
	return out
}
