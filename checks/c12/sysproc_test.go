// C12, syscalls part: worker subprocesses.
//
// A Go panic in a goroutine other than the one executing the VM cannot be
// turned into FAULT by VM.execute's recover: it kills the process. So the cases
// of this part run in re-executions of the test binary (environment variable
// VERIF_C12_SYSW = "<tier>:<from>:<to>:<step>:<digest>" selects the indices
// from, from+step, ... < to of the case list). A worker prints "B <index>"
// before a case and "E <json>" after it, and only after the goroutines the case
// started are gone; the parent attributes a death (non-zero exit, signal,
// "panic:" / "fatal error:" on stderr) or a hang to the case announced last,
// confirms it by running that case alone (and, should it not die alone, bisects
// the indices of the slice run so far), reports it and gives up the rest of
// that slice (so the reported set - the first dying case of each slice - does
// not depend on timing).
package c12

import (
	"bufio"
	"bytes"
	"encoding/hex"
	"encoding/json"
	"fmt"
	"io"
	"os"
	osexec "os/exec"
	"runtime/debug"
	"sort"
	"strconv"
	"strings"
	"sync"
	"time"

	"verif/lib/vk"
)

const (
	sysEnvVar   = "VERIF_C12_SYSW"
	sysCaseVar  = "VERIF_C12_SYSW_CASE" // replay: one literal case (JSON) instead of indices of the list
	sysLinePfx  = "\x01C12W "
	sysHangSecs = 45
)

// ---- worker side -----------------------------------------------------------------

type sysLiteral struct {
	ID     string `json:"id"`
	Target string `json:"target"`
	HF     int    `json:"hf"`
	Script string `json:"script_hex"`
	Times  int    `json:"times"`
}

// sysWorkerMain runs inside the subprocess; returns the exit code.
func sysWorkerMain() int {
	debug.SetMaxStack(256 << 20) // an unbounded recursion of the subject dies here quickly instead of eating 1 GB first
	out := bufio.NewWriterSize(os.Stdout, 1<<16)
	defer out.Flush()
	w, err := newSysWorld()
	if err != nil {
		fmt.Fprintln(os.Stderr, "C12 syscalls worker: world:", err)
		return 3
	}
	wk := newWalker()
	withIDs := os.Getenv("VERIF_C12_SYSW_IDS") != "" // development aid: results carry the case ids
	emit := func(i int, c *sysCase) {
		fmt.Fprintf(out, "%sB %d\n", sysLinePfx, i)
		out.Flush()
		res := w.runCase(i, c, wk, true)
		if withIDs {
			res.ID = c.ID
		}
		b, _ := json.Marshal(res)
		fmt.Fprintf(out, "%sE %s\n", sysLinePfx, b)
	}
	if lit := os.Getenv(sysCaseVar); lit != "" {
		var l sysLiteral
		if err := json.Unmarshal([]byte(lit), &l); err != nil {
			fmt.Fprintln(os.Stderr, "C12 syscalls worker: bad literal case:", err)
			return 3
		}
		script, err := hex.DecodeString(l.Script)
		if err != nil || l.HF < 0 || l.HF > 1 {
			fmt.Fprintln(os.Stderr, "C12 syscalls worker: bad literal case")
			return 3
		}
		c := &sysCase{ID: l.ID, Target: l.Target, HF: l.HF, Script: script}
		for k := 0; k < max(1, l.Times); k++ {
			emit(k, c)
		}
		fmt.Fprintf(out, "%sD\n", sysLinePfx)
		return 0
	}
	f := strings.Split(os.Getenv(sysEnvVar), ":")
	if len(f) != 6 {
		fmt.Fprintln(os.Stderr, "C12 syscalls worker: bad spec")
		return 3
	}
	from, _ := strconv.Atoi(f[1])
	to, _ := strconv.Atoi(f[2])
	step, _ := strconv.Atoi(f[3])
	l := buildSysCases(w.env, f[0] == "thorough", func(i int) bool { return i >= from && i < to && (i-from)%max(step, 1) == 0 })
	if d := l.digest(); d != f[4]+":"+f[5] && f[5] != "any" { // digest "0:any": a worker started by hand while developing
		fmt.Fprintf(os.Stderr, "C12 syscalls worker: case list %s differs from the parent's %s:%s\n", d, f[4], f[5])
		return 3
	}
	if to > len(l.cases) && f[5] == "any" {
		to = len(l.cases)
	}
	if step < 1 || from < 0 || to > len(l.cases) {
		fmt.Fprintln(os.Stderr, "C12 syscalls worker: bad range")
		return 3
	}
	for i := from; i < to; i += step {
		emit(i, &l.cases[i])
	}
	fmt.Fprintf(out, "%sD\n", sysLinePfx)
	return 0
}

// ---- parent side -----------------------------------------------------------------

type tailBuf struct {
	mu  sync.Mutex
	buf []byte
}

func (t *tailBuf) Write(p []byte) (int, error) {
	t.mu.Lock()
	t.buf = append(t.buf, p...)
	if len(t.buf) > 1<<15 {
		t.buf = append([]byte{}, t.buf[len(t.buf)-1<<14:]...)
	}
	t.mu.Unlock()
	return len(p), nil
}

func (t *tailBuf) String() string { t.mu.Lock(); defer t.mu.Unlock(); return string(t.buf) }

// workerRun is the outcome of one subprocess.
type workerRun struct {
	results  []caseRes
	lastB    int // index announced last without a result (-1: none)
	done     bool
	died     bool // ended without "D": exit != 0, signal, or killed for hanging
	hung     bool
	exit     string
	stderr   string
	cpu      time.Duration
	checkErr string // the worker could not do its job (world, case list mismatch)
}

func runWorker(env []string, onRes func(caseRes)) (wr workerRun) {
	wr.lastB = -1
	self, err := os.Executable()
	if err != nil {
		self = os.Args[0]
	}
	cmd := osexec.Command(self, "-test.run", "^TestCheck$", "-test.timeout", "0", "-test.count", "1")
	for _, a := range os.Args[1:] {
		if strings.HasPrefix(a, "-test.gocoverdir") {
			cmd.Args = append(cmd.Args, a)
		}
	}
	cmd.Env = append(append(os.Environ(), "GOMAXPROCS=1", "GOTRACEBACK=single"), env...)
	stdout, err := cmd.StdoutPipe()
	if err != nil {
		wr.checkErr = err.Error()
		return
	}
	var errb tailBuf
	cmd.Stderr = &errb
	if err := cmd.Start(); err != nil {
		wr.checkErr = err.Error()
		return
	}
	var mu sync.Mutex
	last := time.Now()
	stop := make(chan struct{})
	go func() { // watchdog: a case that neither ends nor dies
		t := time.NewTicker(time.Second)
		defer t.Stop()
		for {
			select {
			case <-stop:
				return
			case <-t.C:
				mu.Lock()
				idle := time.Since(last)
				mu.Unlock()
				if idle > sysHangSecs*time.Second {
					mu.Lock()
					wr.hung = true
					mu.Unlock()
					_ = cmd.Process.Kill()
					return
				}
			}
		}
	}()
	rd := bufio.NewReaderSize(stdout, 1<<16)
	for {
		line, err := rd.ReadString('\n')
		if strings.HasPrefix(line, sysLinePfx) {
			mu.Lock()
			last = time.Now()
			mu.Unlock()
			body := strings.TrimSuffix(line[len(sysLinePfx):], "\n")
			switch {
			case strings.HasPrefix(body, "B "):
				wr.lastB, _ = strconv.Atoi(body[2:])
			case strings.HasPrefix(body, "E "):
				var r caseRes
				if json.Unmarshal([]byte(body[2:]), &r) == nil {
					wr.lastB = -1
					if onRes != nil {
						onRes(r)
					} else {
						wr.results = append(wr.results, r)
					}
				}
			case body == "D":
				wr.done = true
			}
		}
		if err != nil {
			break
		}
	}
	_, _ = io.Copy(io.Discard, rd)
	werr := cmd.Wait()
	close(stop)
	if cmd.ProcessState != nil {
		wr.cpu = cmd.ProcessState.UserTime() + cmd.ProcessState.SystemTime()
		wr.exit = cmd.ProcessState.String()
	}
	wr.stderr = errb.String()
	if cmd.ProcessState != nil && cmd.ProcessState.ExitCode() == 3 && !wr.hung {
		wr.checkErr = "worker exit 3: " + lastLines(wr.stderr, 5)
		return
	}
	if !wr.done || werr != nil {
		wr.died = true
	}
	return
}

func lastLines(s string, n int) string {
	ls := strings.Split(strings.TrimSpace(s), "\n")
	if len(ls) > n {
		ls = ls[len(ls)-n:]
	}
	return strings.Join(ls, "\n")
}

// stderrHead: the part of a crash report that names it (first "panic:" /
// "fatal error:" line and the goroutine header with a few frames).
func stderrHead(s string) string {
	i := strings.Index(s, "panic:")
	if j := strings.Index(s, "fatal error:"); j >= 0 && (i < 0 || j < i) {
		i = j
	}
	if i < 0 {
		return lastLines(s, 12)
	}
	s = s[i:]
	ls := strings.Split(s, "\n")
	if len(ls) > 24 {
		ls = ls[:24]
	}
	return strings.Join(ls, "\n")
}

type sysDeath struct {
	Part      string `json:"part"`
	Case      string `json:"case"`
	Index     int    `json:"index"`
	Target    string `json:"target"`
	HF        string `json:"hardforks"`
	Script    string `json:"script_hex"`
	Disasm    string `json:"disasm"`
	Kind      string `json:"kind"`
	Exit      string `json:"worker_exit"`
	Stderr    string `json:"worker_stderr"`
	Alone     string `json:"rerun_alone"`
	SliceSpec string `json:"slice,omitempty"`
}

type sysOut struct {
	cases       int
	fams        map[string]int
	famClasses  map[string]int
	classes     int
	targets     int
	workers     int
	restarts    int
	deaths      int
	gorLeft     int
	static      int
	cpu         time.Duration
	wall        float64
	limStates   map[string]int64
	stoppedSoon bool
}

func sysSpec(tier string, from, to, step int, digest string) string {
	return fmt.Sprintf("%s=%s:%d:%d:%d:%s", sysEnvVar, tier, from, to, step, digest)
}

// syscallsPart runs the case list in worker subprocesses.
func syscallsPart(s *stats) (out sysOut) {
	t0 := time.Now()
	out.fams, out.famClasses, out.limStates = map[string]int{}, map[string]int{}, map[string]int64{}
	w, err := newSysWorld()
	if err != nil {
		fmt.Println("CHECK-ERROR C12 syscalls: cannot build the world:", err)
		os.Exit(3)
	}
	l := buildSysCases(w.env, s.r.Thorough(), nil)
	digest := l.digest()
	out.cases, out.fams = len(l.cases), l.famSummary()
	nw := min(s.r.Workers(), 16)
	out.workers = nw
	var (
		mu       sync.Mutex
		classes  = map[string]map[string]int{} // family -> class -> count
		targets  = map[string]bool{}
		got      = make([]bool, len(l.cases))
		loc      local
		deaths   int
		checkErr string
	)
	onRes := func(r caseRes) {
		if r.I < 0 || r.I >= len(l.cases) {
			return
		}
		c := &l.cases[r.I]
		mu.Lock()
		defer mu.Unlock()
		if got[r.I] {
			return
		}
		got[r.I] = true
		if classes[c.Fam] == nil {
			classes[c.Fam] = map[string]int{}
		}
		classes[c.Fam][c.Target+"->"+r.Class]++
		targets[c.Target] = true
		loc.execs += int64(r.Execs)
		loc.steps += int64(r.AllStep)
		if r.Cyclic {
			loc.cyclic++
		}
		if r.Static {
			loc.correct++
			out.static++
		}
		loc.maxWalk = max(loc.maxWalk, r.Walk)
		loc.outcome("syscalls", cfg{Gas: -1}, -1, r.State)
		for _, ls := range strings.Split(r.Lim, ",") {
			if ls != "" {
				out.limStates[ls]++
			}
		}
		out.gorLeft += r.Left
		if r.I%997 == 0 {
			s.r.Sample(map[string]any{"part": "syscalls", "case": c.ID, "script": hex.EncodeToString(c.Script), "unlimited": r.State, "class": r.Class, "steps": r.Steps, "gas": r.Gas, "under_limits": r.Lim})
		}
		if r.F != nil {
			res := result{State: r.State, Steps: r.Steps, Gas: r.Gas, F: r.F}
			cc := cfg{Gas: -1}
			if r.FCfg != nil {
				cc = *r.FCfg
			}
			mu.Unlock()
			s.reportSys(c, cc, &res)
			mu.Lock()
		}
	}
	// Every worker slice stops at its first death: the set of reported cases (the
	// first dying index of each of the nw slices) does not depend on timing.
	tooMany := func() bool { mu.Lock(); defer mu.Unlock(); return checkErr != "" }
	var wg sync.WaitGroup
	var cpuMu sync.Mutex
	for k := 0; k < nw; k++ {
		wg.Add(1)
		go func(k int) {
			defer wg.Done()
			from := k
			for from < len(l.cases) && !tooMany() && !s.r.Expired() { // (one pass: every exit below returns)
				wr := runWorker([]string{sysSpec(s.r.Tier, from, len(l.cases), nw, digest)}, onRes)
				cpuMu.Lock()
				out.cpu += wr.cpu
				cpuMu.Unlock()
				if wr.checkErr != "" {
					mu.Lock()
					checkErr = wr.checkErr
					mu.Unlock()
					return
				}
				if !wr.died {
					return
				}
				// the slice from..to died (or hung) while case lastB was announced
				bad := wr.lastB
				mu.Lock()
				out.restarts++
				mu.Unlock()
				if bad < 0 { // between cases: nothing announced; take the next index not yet reported
					bad = from
					mu.Lock()
					for bad < len(l.cases) && got[bad] {
						bad += nw
					}
					mu.Unlock()
					if bad >= len(l.cases) {
						return
					}
				}
				culprit, alone, cpu := confirmDeath(s.r.Tier, l, digest, from, bad, nw)
				cpuMu.Lock()
				out.cpu += cpu
				cpuMu.Unlock()
				c := &l.cases[culprit]
				kind := "process-death"
				if wr.hung {
					kind = "process-hang"
				}
				d := sysDeath{Part: "syscalls", Case: c.ID, Index: culprit, Target: c.Target, HF: hfNames[c.HF], Script: hex.EncodeToString(c.Script), Disasm: disasm(c.Script),
					Kind: kind, Exit: wr.exit, Stderr: stderrHead(wr.stderr), Alone: alone, SliceSpec: fmt.Sprintf("indices %d, %d, ... up to %d", from, from+nw, bad)}
				s.reportDeath(c, &d)
				mu.Lock()
				deaths++
				got[bad] = true
				mu.Unlock()
				return
			}
		}(k)
	}
	wg.Wait()
	if checkErr != "" {
		fmt.Println("CHECK-ERROR C12 syscalls:", checkErr)
		os.Exit(3)
	}
	missing := 0
	for _, g := range got {
		if !g {
			missing++
		}
	}
	if missing > 0 {
		s.r.Capped()
		out.stoppedSoon = true
		fmt.Printf("C12 syscalls: %d of %d cases not run (stopped after %d process deaths or at the deadline)\n", missing, len(l.cases), deaths)
	}
	out.deaths = deaths
	for fam, m := range classes {
		out.famClasses[fam] = len(m)
		out.classes += len(m)
	}
	out.targets = len(targets)
	s.mu.Lock()
	t := &s.tot
	t.execs += loc.execs
	t.steps += loc.steps
	t.correct += loc.correct
	t.cyclic += loc.cyclic
	t.maxWalk = max(t.maxWalk, loc.maxWalk)
	for k, n := range loc.outcomes {
		t.outcomes[k] += n
	}
	for fam, m := range classes {
		for c := range m {
			t.sigs["syscalls/"+fam+"/"+c] = struct{}{}
		}
	}
	s.mu.Unlock()
	out.wall = time.Since(t0).Seconds()
	return
}

// confirmDeath: the case announced last is run alone; if the worker does not
// die alone, the indices from..bad (step nw) are bisected: the shortest suffix
// ending at bad that still kills a worker names the history that is needed (the
// reported culprit stays the case that was running).
func confirmDeath(tier string, l *caseList, digest string, from, bad, nw int) (culprit int, alone string, cpu time.Duration) {
	culprit = bad
	for try := 0; try < 2; try++ {
		wr := runWorker([]string{sysSpec(tier, bad, bad+1, 1, digest)}, nil)
		cpu += wr.cpu
		if wr.died {
			return bad, fmt.Sprintf("dies alone (attempt %d): %s", try+1, wr.exit), cpu
		}
	}
	n := (bad - from) / nw // cases of the slice that ran before it
	dies := func(k int) bool { return sliceDies(tier, digest, bad-k*nw, bad, nw, &cpu) }
	if n == 0 || !dies(n) {
		return bad, "does not die alone; the slice it died in does not die again either (not reproducible)", cpu
	}
	lo, hi := 1, n // the smallest number of predecessors with which it dies
	for lo < hi {
		mid := (lo + hi) / 2
		if dies(mid) {
			hi = mid
		} else {
			lo = mid + 1
		}
	}
	first := bad - lo*nw
	return bad, fmt.Sprintf("does not die alone; dies when the %d cases %d, %d, ... run before it in one process (first of them: %s)", lo, first, first+nw, l.cases[first].ID), cpu
}

func sliceDies(tier, digest string, from, bad, nw int, cpu *time.Duration) bool {
	wr := runWorker([]string{sysSpec(tier, from, bad+1, nw, digest)}, nil)
	*cpu += wr.cpu
	return wr.died
}

// reportSys files a finding of a case that ended (oracle of exec) under its class.
func (s *stats) reportSys(c *sysCase, cc cfg, res *result) {
	g := fmt.Sprintf("gas=%d", cc.Gas)
	if cc.Gas < 0 {
		g = "gas=unlimited"
	}
	if cc.UseRun {
		g += ":run"
	}
	class := res.F.Kind + ":" + res.F.Site
	key := fmt.Sprintf("%s:syscalls:%s:%s", class, c.ID, g)
	rec := replayRec{Part: "syscalls", Name: c.ID, Script: hex.EncodeToString(c.Script), Cfg: cc, Finding: res.F, State: res.State, Steps: res.Steps, Gas: res.Gas, Disasm: disasm(c.Script),
		Sys: &sysLiteral{ID: c.ID, Target: c.Target, HF: c.HF, Script: hex.EncodeToString(c.Script)}}
	s.file(class, key, len(c.Script), rec)
}

func (s *stats) reportDeath(c *sysCase, d *sysDeath) {
	class := d.Kind + ":" + c.Target
	key := fmt.Sprintf("%s:syscalls:%s", class, c.ID)
	rec := replayRec{Part: "syscalls", Name: c.ID, Script: hex.EncodeToString(c.Script), Cfg: cfg{Gas: -1}, State: "DEAD", Disasm: d.Disasm,
		Finding: &finding{Kind: d.Kind, Site: c.Target, IP: -1, Msg: d.Exit + "; " + d.Alone + "\n" + d.Stderr},
		Sys:     &sysLiteral{ID: c.ID, Target: c.Target, HF: c.HF, Script: hex.EncodeToString(c.Script)}}
	s.file(class, key, len(c.Script), rec)
}

// file: the smallest input of a class becomes the violation (see report).
func (s *stats) file(class, key string, size int, rec replayRec) {
	s.mu.Lock()
	defer s.mu.Unlock()
	if s.found == nil {
		s.found = map[string]*pending{}
	}
	p := s.found[class]
	if p == nil {
		p = &pending{}
		s.found[class] = p
	}
	p.n++
	if p.key == "" || size < p.size || (size == p.size && key < p.key) {
		p.key, p.size, p.rec = key, size, rec
	}
}

// replaySys re-runs a recorded case of the syscalls part five times in one
// worker subprocess (twice, so that a death is seen to repeat).
func replaySys(r *vk.Run, s *stats, c *replayRec) {
	lit := *c.Sys
	lit.Times = 5
	b, _ := json.Marshal(lit)
	outs := map[string]int{}
	execs := 0
	script, _ := hex.DecodeString(lit.Script)
	sc := &sysCase{ID: lit.ID, Target: lit.Target, HF: lit.HF, Script: script}
	for round := 0; round < 2; round++ {
		wr := runWorker([]string{sysCaseVar + "=" + string(b)}, nil)
		if wr.checkErr != "" {
			fmt.Println("CHECK-ERROR C12 syscalls replay:", wr.checkErr)
			os.Exit(3)
		}
		for _, res := range wr.results {
			execs += res.Execs
			k := "clean:" + res.Class + " under limits " + res.Lim
			if res.F != nil {
				k = fmt.Sprintf("%s at step %d ip %d %s: %s", res.F.Kind, res.F.Step, res.F.IP, res.F.Op, res.F.Msg)
				cc := cfg{Gas: -1}
				if res.FCfg != nil {
					cc = *res.FCfg
				}
				s.reportSys(sc, cc, &result{State: res.State, Steps: res.Steps, Gas: res.Gas, F: res.F})
			}
			outs[k]++
		}
		if wr.died {
			kind := "process-death"
			if wr.hung {
				kind = "process-hang"
			}
			outs[fmt.Sprintf("%s (%s) after %d completed runs: %s", kind, wr.exit, len(wr.results), firstLine(stderrHead(wr.stderr)))]++
			s.reportDeath(sc, &sysDeath{Kind: kind, Exit: wr.exit, Stderr: stderrHead(wr.stderr), Alone: "replay", Disasm: disasm(script)})
		}
	}
	var ks []string
	for k, n := range outs {
		ks = append(ks, fmt.Sprintf("%dx %s", n, k))
	}
	sort.Strings(ks)
	s.flush()
	fmt.Printf("replayed syscalls case %s (%s, %s) in 2 worker processes x 5 runs:\n  %s\n%s", lit.ID, lit.Script, hfNames[lit.HF], strings.Join(ks, "\n  "), disasm(script))
	r.Finish(map[string]any{"states": 1, "transitions": execs + 1, "traces_validated_against_impl": execs}, nil)
}

func firstLine(s string) string {
	if i := strings.IndexByte(s, '\n'); i >= 0 {
		return s[:i]
	}
	return s
}

var _ = bytes.MinRead
