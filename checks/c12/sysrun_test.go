// C12, syscalls part: the world (two real ledgers with a helper contract) and
// the execution of one case inside a real interop.Context.
package c12

import (
	"bytes"
	"encoding/hex"
	"errors"
	"fmt"
	"math/big"
	"regexp"
	"runtime"
	"strings"
	"time"

	"github.com/nspcc-dev/neo-go/pkg/config"
	"github.com/nspcc-dev/neo-go/pkg/core/block"
	"github.com/nspcc-dev/neo-go/pkg/core/interop"
	"github.com/nspcc-dev/neo-go/pkg/core/interop/interopnames"
	"github.com/nspcc-dev/neo-go/pkg/core/state"
	"github.com/nspcc-dev/neo-go/pkg/core/transaction"
	"github.com/nspcc-dev/neo-go/pkg/neotest"
	"github.com/nspcc-dev/neo-go/pkg/smartcontract"
	"github.com/nspcc-dev/neo-go/pkg/smartcontract/callflag"
	"github.com/nspcc-dev/neo-go/pkg/smartcontract/manifest"
	"github.com/nspcc-dev/neo-go/pkg/smartcontract/nef"
	"github.com/nspcc-dev/neo-go/pkg/smartcontract/trigger"
	"github.com/nspcc-dev/neo-go/pkg/util"
	"github.com/nspcc-dev/neo-go/pkg/vm"
	"github.com/nspcc-dev/neo-go/pkg/vm/opcode"
	"github.com/nspcc-dev/neo-go/pkg/vm/stackitem"
	"github.com/nspcc-dev/neo-go/pkg/vm/vmstate"

	"verif/lib/chainx"
)

var (
	blsG1Hex = "97f1d3a73197d7942695638c4fa9ac0fc3688c4f9774b905a14e3a3f171bac586c55e83ff97a1aeffb3af00adb22c6bb"
	blsG2Hex = "93e02b6052719f607dacd3a088274f65596bd0d09920b61ab5da61bbdc7f5049334cf11213945d57e5ac7d055d042b7e024aa2b2f08f0a91260805272dc51051c6e47ad4fa403b02b4510b647ae3d1770bac0326a805bbefd48056c8c121bdb8"
)

type sysWorld struct {
	env     *sysEnv
	nodes   [2]*chainx.Node
	blocks  [2]*block.Block
	prices  [2]map[uint32]int64
	baseFee [2]int64
	tx      *transaction.Transaction
	baseG   int // goroutines of the idle process
	helper  [2]*state.Contract
	tokens  []nef.MethodToken
}

// helperContract: H. _deploy stores the items the iterator cases traverse,
// main() returns nothing, echo(x) returns its argument.
func helperContract(sender util.Uint160) (*neotest.Contract, error) {
	ser := func(it stackitem.Item) []byte {
		b, err := stackitem.Serialize(it)
		if err != nil {
			panic(err)
		}
		return b
	}
	items := []struct{ k, v []byte }{
		{[]byte("a"), ser(stackitem.NewArray([]stackitem.Item{stackitem.Make(1), stackitem.Make(2)}))},
		{[]byte("ab"), ser(stackitem.Make(5))},
		{[]byte("abc"), []byte("xyz")}, // not a serialized item
		{[]byte("b"), []byte{}},
		{[]byte("s1"), ser(stackitem.NewStruct([]stackitem.Item{stackitem.Make(1), stackitem.NewArray([]stackitem.Item{stackitem.Make(2)})}))},
		{[]byte("s2"), ser(stackitem.NewMapWithValue([]stackitem.MapElement{{Key: stackitem.Make("k"), Value: stackitem.Make(3)}}))},
		{[]byte("s3"), ser(stackitem.NewArray([]stackitem.Item{stackitem.Make(1)}))}, // one field only
		{[]byte("s4"), ser(stackitem.NewArray(nil))},
	}
	a := &asm{}
	a.op(opcode.INITSLOT)
	a.raw(0, 2)
	for _, it := range items {
		a.pushData(it.v)
		a.pushData(it.k)
		a.raw(fSyscall(interopnames.SystemStorageGetContext)...)
		a.raw(fSyscall(interopnames.SystemStoragePut)...)
	}
	a.op(opcode.RET)
	offMain := a.pos()
	a.op(opcode.RET)
	offEcho := a.pos()
	a.op(opcode.RET)
	ne, err := nef.NewFile(a.bytes())
	if err != nil {
		return nil, err
	}
	m := manifest.NewManifest("C12H")
	m.ABI.Methods = []manifest.Method{
		{Name: "_deploy", Offset: 0, Parameters: []manifest.Parameter{manifest.NewParameter("data", smartcontract.AnyType), manifest.NewParameter("isUpdate", smartcontract.BoolType)}, ReturnType: smartcontract.VoidType},
		{Name: "main", Offset: offMain, Parameters: []manifest.Parameter{}, ReturnType: smartcontract.VoidType},
		{Name: "echo", Offset: offEcho, Parameters: []manifest.Parameter{manifest.NewParameter("x", smartcontract.AnyType)}, ReturnType: smartcontract.AnyType},
	}
	m.ABI.Events = []manifest.Event{
		{Name: "abc", Parameters: []manifest.Parameter{manifest.NewParameter("x", smartcontract.AnyType)}},
		{Name: "ev0", Parameters: []manifest.Parameter{}},
		{Name: "Transfer", Parameters: []manifest.Parameter{manifest.NewParameter("from", smartcontract.Hash160Type), manifest.NewParameter("to", smartcontract.Hash160Type), manifest.NewParameter("amount", smartcontract.IntegerType)}},
		{Name: strings.Repeat("e", 32), Parameters: []manifest.Parameter{manifest.NewParameter("a", smartcontract.ArrayType), manifest.NewParameter("b", smartcontract.ByteArrayType)}},
	}
	m.Permissions = []manifest.Permission{*manifest.NewPermission(manifest.PermissionWildcard)}
	return &neotest.Contract{Hash: state.CreateContractHash(sender, ne.Checksum, m.Name), NEF: ne, Manifest: m}, nil
}

func newSysWorld() (w *sysWorld, err error) {
	w = &sysWorld{env: &sysEnv{Absent: util.Uint160{1, 2, 3, 4, 5, 6, 7, 8, 9, 10, 11, 12, 13, 14, 15, 16, 17, 18, 19, 20}}}
	e := w.env
	for hf := 0; hf < 2; hf++ {
		hf := hf
		n, err := chainx.New(chainx.Opts{Proto: func(c *config.Blockchain) {
			c.Hardforks = map[string]uint32{}
			if hf == 0 {
				for _, h := range config.Hardforks {
					c.Hardforks[h.String()] = 0
				}
			}
		}})
		if err != nil {
			return nil, fmt.Errorf("chain %s: %w", hfNames[hf], err)
		}
		w.nodes[hf] = n
		hc, err := helperContract(n.Validator.ScriptHash())
		if err != nil {
			return nil, err
		}
		if hf == 0 {
			e.H = hc.Hash
		} else if e.H != hc.Hash {
			return nil, errors.New("helper contract hashes differ between the chains")
		}
		tx, err := n.DeployTx(hc, n.Validator, nil)
		if err != nil {
			return nil, fmt.Errorf("deploy tx on %s: %w", hfNames[hf], err)
		}
		if _, err = n.AddBlock(tx); err != nil {
			return nil, fmt.Errorf("deploy block on %s: %w", hfNames[hf], err)
		}
		aer, err := n.BC.GetAppExecResults(tx.Hash(), trigger.Application)
		if err != nil || len(aer) != 1 || aer[0].VMState != vmstate.Halt {
			return nil, fmt.Errorf("deployment of the helper contract on %s did not halt: %v %v", hfNames[hf], err, aer)
		}
		if w.blocks[hf], err = n.BC.GetFakeNextBlock(n.BC.BlockHeight() + 1); err != nil {
			return nil, err
		}
		if w.helper[hf] = n.BC.GetContractState(hc.Hash); w.helper[hf] == nil {
			return nil, errors.New("helper contract not found after its deployment")
		}
		e.Natives[hf] = n.BC.GetNatives()
		if hf == 0 {
			for _, cs := range e.Natives[hf] {
				nativeHashes[cs.Manifest.Name] = cs.Hash
			}
		}
	}
	magic := uint32(w.nodes[0].BC.GetConfig().Magic)
	e.Signer = chainx.Acc(1).ScriptHash()
	w.tx = transaction.New([]byte{byte(opcode.RET)}, 0)
	w.tx.Nonce = 12
	w.tx.ValidUntilBlock = 1000
	w.tx.Signers = []transaction.Signer{{Account: e.Signer, Scopes: transaction.Global}, {Account: w.nodes[0].Validator.ScriptHash(), Scopes: transaction.Global}}
	if c := w.nodes[0].Committee.ScriptHash(); c != w.tx.Signers[1].Account {
		w.tx.Signers = append(w.tx.Signers, transaction.Signer{Account: c, Scopes: transaction.Global})
	}
	w.tx.Scripts = make([]transaction.Witness, len(w.tx.Signers))
	for i := 1; i <= 4; i++ {
		acc := chainx.Acc(i)
		pub := acc.PublicKey()
		e.Acc = append(e.Acc, sysKey{Comp: pub.Bytes(), X: new(big.Int).Set(pub.X), Y: new(big.Int).Set(pub.Y), Sig: acc.PrivateKey().SignHashable(magic, w.tx), Hash: acc.ScriptHash()})
	}
	w.tokens = sysTokens(e)
	e.NTokens = len(w.tokens)
	e.BlsG1, _ = hex.DecodeString(blsG1Hex)
	e.BlsG2, _ = hex.DecodeString(blsG2Hex)
	for hf := 0; hf < 2; hf++ {
		ic, err := w.nodes[hf].BC.GetTestVM(trigger.Application, w.tx, w.blocks[hf])
		if err != nil {
			return nil, err
		}
		w.baseFee[hf] = ic.BaseExecFee()
		w.prices[hf] = map[uint32]int64{}
		for _, f := range ic.Functions {
			e.Funcs[hf] = append(e.Funcs[hf], sysFunc{Name: f.Name, ID: f.ID, Price: f.Price})
			if ic.GetFunction(f.ID) != nil {
				w.prices[hf][f.ID] = f.Price * ic.BaseExecFee()
			}
		}
		ic.Finalize()
	}
	// a Gt element: serialize(pairing(G1, G2)) computed by the code under test
	cl := nativeHash("CryptoLib")
	gt := fNative(cl, "bls12381Serialize", fNative(cl, "bls12381Pairing", e.blsFrag(e.BlsG1), e.blsFrag(e.BlsG2)))
	ic, err := w.nodes[0].BC.GetTestVM(trigger.Application, w.tx, w.blocks[0])
	if err != nil {
		return nil, err
	}
	w.load(ic, 0, gt)
	if err := ic.Exec(); err != nil || ic.VM.Estack().Len() != 1 {
		return nil, fmt.Errorf("computing a Gt element: %v", err)
	}
	e.BlsGt = append([]byte{}, ic.VM.Estack().Pop().Bytes()...)
	if len(e.BlsGt) != 576 {
		return nil, fmt.Errorf("Gt element of %d bytes", len(e.BlsGt))
	}
	runtime.GC()
	time.Sleep(20 * time.Millisecond)
	w.baseG = runtime.NumGoroutine()
	return w, nil
}

// sysTokens: the method tokens of the NEF the case scripts run as (CALLT).
func sysTokens(e *sysEnv) []nef.MethodToken {
	std, gas, cl, neo := nativeHash("StdLib"), nativeHash("GasToken"), nativeHash("CryptoLib"), nativeHash("NeoToken")
	return []nef.MethodToken{
		{Hash: std, Method: "itoa", ParamCount: 1, HasReturn: true, CallFlag: callflag.All},
		{Hash: std, Method: "base58CheckEncode", ParamCount: 1, HasReturn: true, CallFlag: callflag.All},
		{Hash: gas, Method: "balanceOf", ParamCount: 1, HasReturn: true, CallFlag: callflag.ReadStates},
		{Hash: e.H, Method: "echo", ParamCount: 1, HasReturn: true, CallFlag: callflag.All},
		{Hash: e.H, Method: "main", ParamCount: 0, HasReturn: false, CallFlag: callflag.All},
		{Hash: e.Absent, Method: "x", ParamCount: 0, HasReturn: false, CallFlag: callflag.All},
		{Hash: std, Method: "itoa", ParamCount: 2, HasReturn: true, CallFlag: callflag.All},
		{Hash: std, Method: "itoa", ParamCount: 3, HasReturn: true, CallFlag: callflag.All},  // no such overload
		{Hash: std, Method: "itoa", ParamCount: 1, HasReturn: false, CallFlag: callflag.All}, // return value mismatch
		{Hash: cl, Method: "verifyWithECDsa", ParamCount: 4, HasReturn: true, CallFlag: callflag.All},
		{Hash: e.H, Method: "x", ParamCount: 16, HasReturn: true, CallFlag: callflag.All},
		{Hash: gas, Method: "balanceOf", ParamCount: 1, HasReturn: true, CallFlag: callflag.NoneFlag},
		{Hash: neo, Method: "transfer", ParamCount: 4, HasReturn: true, CallFlag: callflag.All},
		{Hash: e.H, Method: "echo", ParamCount: 1, HasReturn: true, CallFlag: callflag.CallFlag(0xff)},
		{Hash: e.H, Method: "_deploy", ParamCount: 2, HasReturn: false, CallFlag: callflag.All},
	}
}

// load puts the case's script onto the VM as the code of the helper contract:
// its manifest, a NEF carrying the method tokens, the contract's hash, all flags.
func (w *sysWorld) load(ic *interop.Context, hf int, script []byte) {
	cs := w.helper[hf]
	ne := &nef.File{Header: cs.NEF.Header, Tokens: w.tokens, Script: script}
	ic.VM.LoadNEFMethod(ne, &cs.Manifest, util.Uint160{}, cs.Hash, callflag.All, true, 0, -1, nil, nil, false)
}

// quiesce waits until the goroutines the case started are gone or blocked (a
// panic in one of them must arrive while the case is still the one announced).
// The worker process runs with GOMAXPROCS=1, so goroutines only run when this
// one yields: every Gosched() lets each runnable goroutine run to its next
// blocking point (the subject's goroutines verify one signature, ~0.1 ms, far
// below the 10 ms preemption slice). The wait ends when the count is back at
// the baseline, or has not changed over 8 consecutive yields; goroutines that
// are still there then are blocked for good (leaked): they are counted and
// become part of the baseline.
func (w *sysWorld) quiesce() (leaked int) {
	g := runtime.NumGoroutine()
	if g <= w.baseG {
		return 0
	}
	stable := 0
	for i := 0; i < 5000 && stable < 8; i++ {
		runtime.Gosched()
		g2 := runtime.NumGoroutine()
		if g2 <= w.baseG {
			return 0
		}
		if g2 == g {
			stable++
		} else {
			stable, g = 0, g2
		}
	}
	leaked = g - w.baseG
	w.baseG = g
	return leaked
}

// caseRes is what a worker reports about one case.
type caseRes struct {
	I       int      `json:"i"`
	State   string   `json:"s"`
	Steps   int      `json:"n"`
	Gas     int64    `json:"g"`
	Class   string   `json:"c"`           // outcome class: state + result kind / normalized fault message
	F       *finding `json:"f,omitempty"` // first finding of the unlimited stepped run
	FCfg    *cfg     `json:"fc,omitempty"`
	Execs   int      `json:"e"`
	AllStep int      `json:"t"`
	Lim     string   `json:"l,omitempty"` // states under the finite limits: "0:FAULT,need-1:FAULT,need:HALT"
	Left    int      `json:"q,omitempty"` // goroutines still running after the wait
	Walk    int      `json:"w,omitempty"`
	Cyclic  bool     `json:"y,omitempty"`
	Static  bool     `json:"k,omitempty"`
	ID      string   `json:"d,omitempty"`
}

var (
	reDigits = regexp.MustCompile(`[0-9a-fA-F]{6,}|[0-9]+`)
)

func errClass(s string) string {
	s = reDigits.ReplaceAllString(s, "#")
	if len(s) > 70 {
		s = s[:70]
	}
	return s
}

// runCase executes one case: unlimited gas with the per-step oracle, then (if it
// stopped) under the finite limits {0, need-1, need} (and need+12345 if it
// halted) with one Run() each.
func (w *sysWorld) runCase(i int, c *sysCase, wk *walker, gasRuns bool) (out caseRes) {
	out.I = i
	hf := c.HF
	script := make([]byte, len(c.Script)) // cap == len: a read past the end cannot hide in spare capacity
	copy(script, c.Script)
	var top stackitem.Item
	o := execOpts{mark: -1, w: wk, site: c.Target, sysPrice: w.prices[hf]}
	o.spawn = func() (*vm.VM, func()) {
		ic, err := w.nodes[hf].BC.GetTestVM(trigger.Application, w.tx, w.blocks[hf])
		if err != nil {
			panic(err)
		}
		w.load(ic, hf, script)
		return ic.VM, func() {
			if ic.VM.State() == vmstate.Halt && ic.VM.Estack().Len() > 0 {
				top = ic.VM.Estack().Peek(0).Item()
			}
			ic.Finalize()
		}
	}
	if err, pan := staticCheck(script, nil); err == nil && pan == nil {
		if b, ok := boundaries(script); ok {
			o.bounds = b
			out.Static = true
		}
	}
	// the bytes of the script belong to the script: nothing an instruction or an
	// interop does may change them (what passed the static check is what runs)
	modified := func(res *result, cc cfg) {
		if bytes.Equal(script, c.Script) {
			return
		}
		at := 0
		for at < len(script) && script[at] == c.Script[at] {
			at++
		}
		to := len(script)
		for to > at && script[to-1] == c.Script[to-1] {
			to--
		}
		if res.F == nil || res.F.Kind == "non-boundary-offset-executed" { // the cause rather than its symptom
			res.F = &finding{Kind: "script-bytes-changed-by-execution", Site: c.Target, IP: at, Step: res.Steps,
				Msg: fmt.Sprintf("bytes %d..%d of the executing script were %x before the run and are %x after it", at, to-1, c.Script[at:to], script[at:to])}
		}
		copy(script, c.Script)
	}
	c0 := cfg{Gas: -1, Base: w.baseFee[hf], MaxSteps: 20000}
	r0 := exec(script, c0, o)
	out.Left += w.quiesce()
	modified(&r0, c0)
	out.State, out.Steps, out.Gas, out.Walk, out.Cyclic = r0.State, r0.Steps, r0.Gas, r0.MaxWalk, r0.Cyclic
	out.Execs, out.AllStep = 1, r0.Steps
	if r0.F != nil {
		out.F, out.FCfg = r0.F, &c0
	}
	switch r0.State {
	case "HALT":
		out.Class = "HALT:" + topClass(top)
	case "FAULT":
		out.Class = "FAULT:" + errClass(r0.Err)
	default:
		out.Class = r0.State
	}
	if !gasRuns || (r0.State != "HALT" && r0.State != "FAULT") {
		return
	}
	need := r0.Gas
	prev := int64(-2)
	limits := []int64{0, need - 1, need}
	if r0.State == "HALT" {
		limits = append(limits, need+12345) // room left: what GasLeft and the handlers' own checks see then
	}
	for _, lim := range limits {
		if lim < 0 || lim == prev {
			continue
		}
		prev = lim
		cc := c0
		cc.Gas, cc.UseRun = lim, true
		top = nil
		rr := exec(script, cc, o)
		out.Left += w.quiesce()
		modified(&rr, cc)
		out.Execs++
		if rr.F != nil && out.F == nil {
			out.F, out.FCfg = rr.F, &cc
		}
		name := fmt.Sprint(lim)
		switch lim {
		case need:
			name = "need"
		case need - 1:
			name = "need-1"
		case need + 12345:
			name = "need+12345"
		}
		if out.Lim != "" {
			out.Lim += ","
		}
		out.Lim += name + ":" + rr.State
	}
	return
}

func topClass(it stackitem.Item) string {
	switch t := it.(type) {
	case nil:
		return "empty"
	case stackitem.Bool:
		if t {
			return "true"
		}
		return "false"
	case stackitem.Null:
		return "null"
	case *stackitem.BigInteger:
		return "int"
	case *stackitem.ByteArray:
		return fmt.Sprintf("bytes%d", len(*t))
	case *stackitem.Buffer:
		return "buffer"
	case *stackitem.Array:
		return fmt.Sprintf("array%d", t.Len())
	case *stackitem.Struct:
		return "struct"
	case *stackitem.Map:
		return "map"
	case *stackitem.Interop:
		return fmt.Sprintf("interop:%T", t.Value())
	case *stackitem.Pointer:
		return "pointer"
	}
	return "?"
}
