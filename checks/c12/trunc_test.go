// C12, trunc part: instructions whose operand is cut off by the end of the script.
//
// The raw part holds every byte string up to length 2 (3 thorough), which covers
// a truncated operand only for operands of one or two bytes. Here every opcode
// with an immediate operand ends the script with 0, 1, ..., all of its operand
// bytes present (and one byte more), after three different prefixes; the
// length-prefixed pushes get a truncated length field, lengths 0, 1, 2, 255,
// 256, 65535, 65536, MaxSize, MaxSize+1, 2^31-1, 2^31, 2^32-1 and a payload that
// is missing, one short, exact, one long. Script slices have cap == len, so a read
// past the end of the script is a Go panic and not a silent read of spare capacity.
// Oracles: fullCheck (no panic out of Step/Run, HALT or FAULT, gas, the walk),
// the static check does not panic, method offsets of the short scripts.
package c12

import (
	"encoding/binary"
	"fmt"

	"github.com/nspcc-dev/neo-go/pkg/vm/opcode"
	"github.com/nspcc-dev/neo-go/pkg/vm/stackitem"

	"verif/lib/vk"
)

type truncProg struct {
	name   string
	script []byte
}

// exact returns a copy of b whose capacity equals its length.
func exact(b []byte) []byte {
	s := make([]byte, len(b))
	copy(s, b)
	return s[:len(s):len(s)]
}

func truncProgs() []truncProg {
	var out []truncProg
	prefixes := []struct {
		n string
		b []byte
	}{{"bare", nil}, {"after-nop", []byte{byte(opcode.NOP)}}, {"after-push-drop-nop", []byte{byte(opcode.PUSH1), byte(opcode.DROP), byte(opcode.NOP)}}}
	add := func(name string, body []byte) {
		for _, p := range prefixes {
			out = append(out, truncProg{name + "/" + p.n, exact(append(append([]byte{}, p.b...), body...))})
		}
	}
	for b := 0; b < 256; b++ {
		op := opcode.Opcode(b)
		n := operand[b]
		switch {
		case n <= 0:
		case n < 100: // fixed-size operand
			full := make([]byte, 1+n)
			full[0] = byte(b)
			for i := 1; i <= n; i++ {
				full[i] = 0x01
			}
			if _, isOff := offsetOps[op]; isOff { // transfer to the next instruction, second offset absent
				for i := 1; i <= n; i++ {
					full[i] = 0
				}
				full[1] = byte(1 + n)
			}
			for k := 0; k <= n; k++ {
				add(fmt.Sprintf("%s/%d-of-%d-operand-bytes", op, k, n), full[:1+k])
			}
			add(fmt.Sprintf("%s/complete-then-ret", op), append(append([]byte{}, full...), byte(opcode.RET)))
			add(fmt.Sprintf("%s/complete-then-the-opcode-again", op), append(append([]byte{}, full...), byte(b)))
		default: // PUSHDATA1/2/4
			w := n - 100
			for k := 0; k < w; k++ { // truncated length field
				add(fmt.Sprintf("%s/%d-of-%d-length-bytes", op, k, w), append([]byte{byte(b)}, make([]byte, k)...))
				ff := append([]byte{byte(b)}, make([]byte, k)...)
				for i := 1; i < len(ff); i++ {
					ff[i] = 0xFF
				}
				add(fmt.Sprintf("%s/%d-of-%d-length-bytes-ff", op, k, w), ff)
			}
			lens := []uint64{0, 1, 2, 255, 256, 65535, 65536, stackitem.MaxSize, stackitem.MaxSize + 1, 1<<31 - 1, 1 << 31, 1<<32 - 1}
			for _, l := range lens {
				if l >= 1<<(8*uint(w)) {
					continue
				}
				hdr := make([]byte, 1+w)
				hdr[0] = byte(b)
				switch w {
				case 1:
					hdr[1] = byte(l)
				case 2:
					binary.LittleEndian.PutUint16(hdr[1:], uint16(l))
				case 4:
					binary.LittleEndian.PutUint32(hdr[1:], uint32(l))
				}
				done := map[int64]bool{}
				for _, d := range []int64{-int64(l), -1, 0, 1} { // payload: missing, one short, exact, one long
					pl := int64(l) + d
					if pl < 0 || pl > stackitem.MaxSize+2 || done[pl] {
						continue
					}
					done[pl] = true
					body := append(append([]byte{}, hdr...), make([]byte, pl)...)
					for i := len(hdr); i < len(body); i++ {
						body[i] = byte(opcode.NOP)
					}
					add(fmt.Sprintf("%s/length-%d/payload-%d", op, l, pl), body)
				}
			}
		}
	}
	return out
}

func truncPart(s *stats) (programs int, decodable int64) {
	ps := truncProgs()
	var dec vk.Counter
	const chunk = 32
	s.r.Parallel((len(ps)+chunk-1)/chunk, func(c int) {
		w := newWalker()
		for i := c * chunk; i < min((c+1)*chunk, len(ps)); i++ {
			p := ps[i]
			if _, ok := boundaries(p.script); ok {
				dec.Inc()
			}
			r0 := s.fullCheck("trunc", p.name, nil, p.script, rawBase, 300, w, execOpts{mark: -1}, false)
			if len(p.script) <= 48 {
				s.methodsCheck(w, "trunc", p.name, p.script)
			}
			if i%173 == 0 {
				s.r.Sample(map[string]any{"part": "trunc", "name": p.name, "script_bytes": len(p.script), "unlimited": r0.State, "steps": r0.Steps, "err": r0.Err})
			}
		}
		s.merge(w)
	})
	return len(ps), dec.Get()
}
