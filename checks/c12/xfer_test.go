// C12, xfer part: every instruction that carries a code offset, aimed at every
// byte offset of a script.
//
// The last clause of the property ("a script that passes the static script
// check never executes an offset that is not an instruction boundary") is about
// the agreement of two lists: the opcodes whose operands IsScriptCorrect treats
// as code offsets, and the opcodes whose operands the VM really uses as code
// offsets. The part enumerates that class completely:
//
//	opcode    every opcode with a code offset operand by the harness's own table
//	          (JMP*, JMP*_L, CALL, CALL_L, PUSHA, TRY/TRY_L: both offsets,
//	          ENDTRY, ENDTRY_L); a behavioural probe of ALL other opcodes with an
//	          immediate operand stops the check with an error if the VM moves the
//	          instruction pointer, opens a try block or pushes a pointer for one
//	          of them (an offset-carrying opcode the table does not know);
//	variant   how the transfer becomes live: every condition outcome of the
//	          conditional jumps; PUSHA consumed by CALLA directly, through DUP,
//	          through a static/local/argument slot, through an array, in a called
//	          frame, returned from a called frame, dropped, left on the stack;
//	          ENDTRY without/with a finally block, in the try and in the catch
//	          block; TRY with the offset under test as catch or finally offset,
//	          the other one absent or valid, the body throwing, throwing from a
//	          called frame, or ending normally;
//	target    short forms: all 256 operand values; long forms: every absolute
//	          target from 3 before the script to 3 past its end (position 0, every
//	          instruction start, every byte inside the operands of PUSHINT16..256,
//	          PUSHDATA1/2/4, JMP, JMP_L, PUSHA, TRY_L, ENDTRY_L, SYSCALL, the
//	          instruction itself, its own operand, the last instruction,
//	          len(script), beyond) and the two extreme 32-bit values;
//	position  the instruction under test first, between the filler instructions,
//	          and as the very last instruction of the script;
//	length    scripts padded to a multiple of 64 bytes (the static check keeps
//	          bit sets) and, thorough, unpadded.
//
// Every script, accepted by the static check or not, runs under fullCheck: the
// per-instruction walk oracle, every executed offset recorded by the exec hook,
// unlimited gas and the limits 0, 1, 3, need-1, need (stepped and Run()). The
// filler contains a SYSCALL that charges through AddDatoshi/AddPicoGas.
// For one target per (variant, position) the accepted script also goes through
// the method-offset check (every offset as a method start).
//
// xptr: a pointer made by one script and called in another one whose
// instruction boundaries differ (argument to / return value from a loaded script).
package c12

import (
	"encoding/binary"
	"fmt"
	"math"
	"sort"
	"sync"

	"github.com/nspcc-dev/neo-go/pkg/util"
	"github.com/nspcc-dev/neo-go/pkg/vm"
	"github.com/nspcc-dev/neo-go/pkg/vm/opcode"
	"github.com/nspcc-dev/neo-go/pkg/vm/stackitem"

	"verif/lib/vk"
)

// ---- which opcodes carry code offsets ---------------------------------------------

type offKind struct{ n, width int } // n offsets of width bytes each

// offsetOps: written from the NeoVM instruction set description, like the operand
// size table of the own decoder (asm_test.go), and checked against it.
var offsetOps = func() map[opcode.Opcode]offKind {
	m := map[opcode.Opcode]offKind{
		0x0A: {1, 4}, // PUSHA
		0x3B: {2, 1}, // TRY
		0x3C: {2, 4}, // TRY_L
		0x3D: {1, 1}, // ENDTRY
		0x3E: {1, 4}, // ENDTRY_L
	}
	for b := 0x22; b <= 0x35; b++ { // JMP .. JMPLE_L, CALL, CALL_L: short and long forms alternate
		w := 1
		if b%2 == 1 {
			w = 4
		}
		m[opcode.Opcode(b)] = offKind{1, w}
	}
	return m
}()

func init() {
	for op, k := range offsetOps {
		if operand[op] != k.n*k.width {
			panic(fmt.Sprintf("C12: offset table and operand size table differ at %s", op))
		}
	}
}

// probeOffsetOpcodes executes every opcode with a fixed-size immediate operand
// that is NOT in offsetOps, with a range of operand values, on a stack of four
// integers and followed by NOPs. Such an instruction must fault or leave the
// instruction pointer right behind itself, in the same frame, with no try block
// opened and no pointer pushed. Anything else means the VM under test knows an
// offset-carrying opcode the harness's table does not: a check error (panic).
func probeOffsetOpcodes() (probed, runs int) {
	vals4 := []int32{0, 1, 5, 6, 7, 10, 20, -1, -4, math.MaxInt32, math.MinInt32}
	for b := 0; b < 256; b++ {
		op := opcode.Opcode(b)
		n := operand[b]
		if n <= 0 || n >= 100 {
			continue
		}
		if _, listed := offsetOps[op]; listed {
			continue
		}
		var params [][]byte
		switch {
		case n == 1:
			for x := 0; x < 256; x++ {
				params = append(params, []byte{byte(x)})
			}
		case n == 2:
			for _, x := range []byte{0, 1, 2, 3, 5, 8, 0x7f, 0x80, 0xfc, 0xff} {
				for _, y := range []byte{0, 1, 2, 3, 5, 8, 0x7f, 0x80, 0xfc, 0xff} {
					params = append(params, []byte{x, y})
				}
			}
		default: // 4, 8, 16, 32 bytes: 32-bit values in the first and the second word
			for _, x := range vals4 {
				for _, y := range vals4 {
					p := make([]byte, n)
					binary.LittleEndian.PutUint32(p, uint32(x))
					if n >= 8 {
						binary.LittleEndian.PutUint32(p[4:], uint32(y))
					} else if y != 0 {
						continue
					}
					params = append(params, p)
				}
			}
		}
		probed++
		for _, p := range params {
			script := []byte{byte(opcode.PUSH2), byte(opcode.PUSH2), byte(opcode.PUSH2), byte(opcode.PUSH2), byte(b)}
			script = append(script, p...)
			for i := 0; i < 48; i++ {
				script = append(script, byte(opcode.NOP))
			}
			v := vm.New()
			v.Load(script)
			ok := true
			for i := 0; i < 5 && ok; i++ {
				_, pan := safeStep(v)
				ok = pan == nil && !v.HasStopped()
			}
			runs++
			if !ok || v.Context() == nil {
				continue
			}
			next := v.Context().NextIP()
			bad := ""
			switch {
			case len(v.Istack()) != 1:
				bad = "changes the invocation stack"
			case next != 5+n:
				bad = fmt.Sprintf("continues at offset %d instead of %d", next, 5+n)
			case tryDepth(v.Context()) != 0:
				bad = "opens a try block"
			case v.Estack().Len() > 0 && v.Estack().Peek(0).Item().Type() == stackitem.PointerT:
				bad = "pushes a pointer"
			}
			if bad != "" {
				// reported loudly, not fatal: the transfers the harness does know stay verified
				fmt.Printf("COVERAGE-GAP C12: opcode %s (%#x) with operand %x %s: the VM under test treats it as carrying a code offset, the harness's list of offset-carrying opcodes does not know it\n", op, b, p, bad)
				return
			}
		}
	}
	return
}

// ---- the script layout --------------------------------------------------------------

type xlabels struct {
	c, fn, th, fa, over int // catch handler, finally handler, thrower, "call the pointer", behind the helper block
}

// xvariant: one way of making a transfer through the opcode under test live.
type xvariant struct {
	name  string
	op    opcode.Opcode
	which int                               // 0: the (first) offset, 1: the second one (finally offset of TRY)
	emit  func(a *asm, l *xlabels) (at int) // emits the group; returns the offset of the instruction under test (operand zeroed)
	tail  func(a *asm)                      // code appended at the very end of the script
}

// xop emits op with a zero operand.
func xop(a *asm, op opcode.Opcode) int {
	at := a.pos()
	a.op(op)
	a.raw(make([]byte, operand[op])...)
	return at
}

// The filler: instructions that execute harmlessly in sequence (every push is
// dropped again, so that backward transfers loop instead of filling the stack)
// and whose operands are the landing zones. Operand bytes are valid one-byte
// instructions where they can be chosen freely.
func xferFillers(l *xlabels, pad int) []func(a *asm) {
	op := func(o ...opcode.Opcode) []byte {
		b := make([]byte, len(o))
		for i := range o {
			b[i] = byte(o[i])
		}
		return b
	}
	rep := func(n int) []byte {
		b := make([]byte, n)
		for i := range b {
			b[i] = byte(opcode.PUSH1) + byte(i%8)
		}
		b[n-1] = byte(opcode.RET)
		return b
	}
	return []func(a *asm){
		func(a *asm) { a.op(opcode.PUSHINT16); a.raw(op(opcode.PUSH7, opcode.RET)...); a.op(opcode.DROP) },
		func(a *asm) { a.op(opcode.PUSHINT32); a.raw(rep(4)...); a.op(opcode.DROP) },
		func(a *asm) { // the helper block, jumped over (a short jump's operand is a landing zone too)
			a.jmp(opcode.JMP, l.over)
			for i := 0; i < pad; i++ {
				a.op(opcode.NOP)
			}
			a.here(l.c)
			a.op(opcode.DROP)
			a.jmp(opcode.ENDTRY, l.over)
			a.here(l.fn)
			a.op(opcode.ENDFINALLY)
			a.here(l.th)
			a.op(opcode.PUSH1, opcode.THROW)
			a.here(l.fa)
			a.op(opcode.CALLA, opcode.RET)
			a.here(l.over)
		},
		func(a *asm) { a.op(opcode.PUSHINT64); a.raw(rep(8)...); a.op(opcode.DROP) },
		func(a *asm) { a.pushData(op(opcode.PUSH1, opcode.PUSH2, opcode.DROP, opcode.RET)); a.op(opcode.DROP) },
		func(a *asm) { a.op(opcode.SYSCALL); a.raw(gid(2, 1, 0)...) }, // charges 2 datoshi + 1 picoGAS
		func(a *asm) { nx := a.newLabel(); a.jmp(opcode.JMPL, nx); a.here(nx) },
		func(a *asm) { a.op(opcode.PUSHINT128); a.raw(rep(16)...); a.op(opcode.DROP) },
		func(a *asm) { nx := a.newLabel(); a.jmp(opcode.PUSHA, nx); a.here(nx); a.op(opcode.DROP) },
		func(a *asm) {
			nx := a.newLabel()
			a.try(opcode.TRYL, l.c, -1)
			a.jmp(opcode.ENDTRYL, nx)
			a.here(nx)
		},
		func(a *asm) {
			a.op(opcode.PUSHDATA2)
			a.raw(3, 0)
			a.raw(op(opcode.PUSH3, opcode.DROP, opcode.RET)...)
			a.op(opcode.DROP, opcode.PUSHDATA4)
			a.raw(2, 0, 0, 0)
			a.raw(op(opcode.NOP, opcode.RET)...)
			a.op(opcode.DROP)
		},
		func(a *asm) { // the tail of this operand decodes, when landed in, as instructions whose operands run past the end of the script
			a.op(opcode.PUSHINT256)
			a.raw(rep(20)...)
			a.raw(byte(opcode.PUSHDATA4), 16, 0, 0, 0, byte(opcode.PUSHDATA2), 0xFF, byte(opcode.PUSHDATA1), 9, byte(opcode.PUSHINT256), byte(opcode.TRYL), byte(opcode.PUSHA))
			a.op(opcode.DROP)
		},
	}
}

const xferSlots = 13 // insertion points: before filler 0..11 and behind the last one

type xprog struct {
	v      xvariant
	pos    int
	padded bool
	script []byte // operand under test zeroed
	at     int    // offset of the instruction under test
	opAt   int    // offset of the operand under test
	width  int
}

func buildXfer(v xvariant, pos int, padded bool) xprog {
	build := func(pad int) ([]byte, int) {
		a := &asm{}
		l := &xlabels{a.newLabel(), a.newLabel(), a.newLabel(), a.newLabel(), a.newLabel()}
		fill := xferFillers(l, pad)
		if len(fill)+1 != xferSlots {
			panic("C12: xferSlots")
		}
		at := -1
		for i, f := range fill {
			if i == pos {
				at = v.emit(a, l)
			}
			f(a)
		}
		if pos == len(fill) {
			at = v.emit(a, l)
		}
		if v.tail != nil {
			v.tail(a)
		}
		return a.bytes(), at
	}
	script, at := build(0)
	if padded {
		script, at = build((64 - len(script)%64) % 64)
		if len(script)%64 != 0 {
			panic("C12: padding")
		}
	}
	k := offsetOps[v.op]
	if opcode.Opcode(script[at]) != v.op {
		panic("C12: xfer layout: " + v.name)
	}
	return xprog{v: v, pos: pos, padded: padded, script: script, at: at, opAt: at + 1 + v.which*k.width, width: k.width}
}

// rels: the operand values to enumerate.
func (p xprog) rels() []int64 {
	var out []int64
	if p.width == 1 {
		for r := -128; r <= 127; r++ {
			out = append(out, int64(r))
		}
		return out
	}
	for t := -3; t <= len(p.script)+3; t++ {
		out = append(out, int64(t-p.at))
	}
	return append(out, math.MinInt32, math.MaxInt32)
}

func (p xprog) with(rel int64) []byte {
	s := exact(p.script) // cap == len: a read past the end of the script panics
	if p.width == 1 {
		s[p.opAt] = byte(int8(rel))
	} else {
		binary.LittleEndian.PutUint32(s[p.opAt:], uint32(int32(rel)))
	}
	return s
}

// targetClass names where rel points to (by the harness's own decoding).
func (p xprog) targetClass(rel int64, bounds []bool) string {
	t := int64(p.at) + rel
	n := int64(len(p.script))
	switch {
	case t < 0:
		return "before-0"
	case t > n:
		return "past-end"
	case t == n:
		return "len"
	case t == int64(p.at):
		return "itself"
	case t == 0:
		return "offset-0"
	case bounds[t]:
		last := true
		for i := t + 1; i < n; i++ {
			if bounds[i] {
				last = false
			}
		}
		if last {
			return "last-instruction"
		}
		return "instruction-start"
	}
	i := t
	for !bounds[i] {
		i--
	}
	if i == int64(p.at) {
		return "inside-own-operand"
	}
	return "inside-" + opcode.Opcode(p.script[i]).String()
}

// ---- the variants -------------------------------------------------------------------

func xferVariants() []xvariant {
	var vs []xvariant
	pre := func(ops ...opcode.Opcode) func(op opcode.Opcode) func(a *asm, l *xlabels) int {
		return func(op opcode.Opcode) func(a *asm, l *xlabels) int {
			return func(a *asm, _ *xlabels) int { a.op(ops...); return xop(a, op) }
		}
	}
	// jumps: every condition outcome
	for b := 0x22; b <= 0x33; b++ {
		op := opcode.Opcode(b)
		switch {
		case op == opcode.JMP || op == opcode.JMPL:
			vs = append(vs, xvariant{name: op.String(), op: op, emit: pre()(op)})
		case op <= opcode.JMPIFNOTL:
			vs = append(vs, xvariant{name: op.String() + "/true", op: op, emit: pre(opcode.PUSHT)(op)},
				xvariant{name: op.String() + "/false", op: op, emit: pre(opcode.PUSHF)(op)})
		default:
			vs = append(vs, xvariant{name: op.String() + "/eq", op: op, emit: pre(opcode.PUSH1, opcode.PUSH1)(op)},
				xvariant{name: op.String() + "/lt", op: op, emit: pre(opcode.PUSH1, opcode.PUSH2)(op)},
				xvariant{name: op.String() + "/gt", op: op, emit: pre(opcode.PUSH2, opcode.PUSH1)(op)})
		}
	}
	for _, op := range []opcode.Opcode{opcode.CALL, opcode.CALLL} {
		vs = append(vs, xvariant{name: op.String(), op: op, emit: pre()(op)})
	}
	// PUSHA: how the pointer is consumed
	pa := func(name string, before []opcode.Opcode, after func(a *asm, l *xlabels), tail func(a *asm)) {
		vs = append(vs, xvariant{name: "PUSHA/" + name, op: opcode.PUSHA, tail: tail, emit: func(a *asm, l *xlabels) int {
			a.op(before...)
			at := xop(a, opcode.PUSHA)
			if after != nil {
				after(a, l)
			}
			return at
		}})
	}
	code := func(ops ...opcode.Opcode) func(a *asm, l *xlabels) {
		return func(a *asm, _ *xlabels) { a.op(ops...) }
	}
	pa("calla", nil, code(opcode.CALLA), nil)
	pa("dup-calla", nil, code(opcode.DUP, opcode.NIP, opcode.CALLA), nil)
	pa("static-slot-calla-at-the-end", nil, func(a *asm, _ *xlabels) { a.op(opcode.STSFLD0) }, func(a *asm) { a.op(opcode.LDSFLD0, opcode.CALLA) })
	vs[len(vs)-1].emit = func(a *asm, _ *xlabels) int {
		a.op(opcode.INITSSLOT)
		a.raw(1)
		at := xop(a, opcode.PUSHA)
		a.op(opcode.STSFLD0)
		return at
	}
	pa("local-slot-calla", nil, code(opcode.STLOC0, opcode.NOP, opcode.LDLOC0, opcode.CALLA), nil)
	vs[len(vs)-1].emit = func(a *asm, _ *xlabels) int {
		a.op(opcode.INITSLOT)
		a.raw(1, 0)
		at := xop(a, opcode.PUSHA)
		a.op(opcode.STLOC0, opcode.NOP, opcode.LDLOC0, opcode.CALLA)
		return at
	}
	pa("argument-slot-calla", nil, func(a *asm, _ *xlabels) {
		a.op(opcode.INITSLOT)
		a.raw(0, 1)
		a.op(opcode.LDARG0, opcode.CALLA)
	}, nil)
	pa("array-calla", nil, code(opcode.PUSH1, opcode.PACK, opcode.PUSH0, opcode.PICKITEM, opcode.CALLA), nil)
	pa("calla-in-called-frame", nil, func(a *asm, l *xlabels) { a.jmp(opcode.CALLL, l.fa) }, nil)
	vs = append(vs, xvariant{name: "PUSHA/returned-from-called-frame", op: opcode.PUSHA, emit: func(a *asm, _ *xlabels) int {
		f, after := a.newLabel(), a.newLabel()
		a.jmp(opcode.CALL, f)
		a.op(opcode.CALLA)
		a.jmp(opcode.JMP, after)
		a.here(f)
		at := xop(a, opcode.PUSHA)
		a.op(opcode.RET)
		a.here(after)
		return at
	}})
	pa("dropped", nil, code(opcode.DROP), nil)
	pa("left-on-the-stack", nil, nil, nil)
	// ENDTRY: in the try block / in the catch block, without / with a finally block
	for _, op := range []opcode.Opcode{opcode.ENDTRY, opcode.ENDTRYL} {
		for _, fin := range []bool{false, true} {
			for _, inCatch := range []bool{false, true} {
				name := op.String() + "/in-try"
				if inCatch {
					name = op.String() + "/in-catch"
				}
				if fin {
					name += "-with-finally"
				}
				vs = append(vs, xvariant{name: name, op: op, emit: func(a *asm, l *xlabels) int {
					cl, fl := l.c, -1
					if fin {
						fl = l.fn
					}
					if inCatch {
						cl = a.newLabel()
					} else if fin {
						cl = -1
					}
					a.try(opcode.TRYL, cl, fl)
					if inCatch {
						a.op(opcode.PUSH1, opcode.THROW)
						a.here(cl)
						a.op(opcode.DROP)
					}
					return xop(a, op)
				}})
			}
		}
	}
	// TRY: the offset under test as catch / finally offset
	for _, op := range []opcode.Opcode{opcode.TRY, opcode.TRYL} {
		for which := 0; which <= 1; which++ {
			for _, other := range []bool{false, true} {
				for body := 0; body < 3; body++ {
					name := fmt.Sprintf("%s/%s-under-test/other-%s/%s", op, [...]string{"catch", "finally"}[which],
						map[bool]string{false: "absent", true: "valid"}[other], [...]string{"throw", "throw-in-called-frame", "endtry"}[body])
					vs = append(vs, xvariant{name: name, op: op, which: which, emit: func(a *asm, l *xlabels) int {
						// handlers of the group first, so that the body can be the end of the script
						x, lc, lf := a.newLabel(), a.newLabel(), a.newLabel()
						a.jmp(opcode.JMP, x)
						a.here(lc)
						a.op(opcode.DROP)
						a.raw(byte(opcode.ENDTRY), 2)
						a.op(opcode.RET)
						a.here(lf)
						a.op(opcode.ENDFINALLY)
						a.here(x)
						at := a.pos()
						cl, fl := -1, -1
						if other && which == 0 {
							fl = lf
						} else if other {
							cl = lc
						}
						a.try(op, cl, fl)
						switch body {
						case 0:
							a.op(opcode.PUSH1, opcode.THROW)
						case 1:
							a.jmp(opcode.CALLL, l.th)
						case 2:
							a.raw(byte(opcode.ENDTRY), 2)
						}
						return at
					}})
				}
			}
		}
	}
	return vs
}

// ---- the part -----------------------------------------------------------------------

type xferOut struct {
	variants, layouts, programs, accepted, probedOps, probeRuns, methodScripts int
	byClass                                                                    map[string]int // target class -> programs
	acceptedBad                                                                int            // accepted although the target is not an instruction boundary (never executed there: counted, the dynamic oracle decides)
	outcomes                                                                   int            // distinct (opcode, variant, target class, accepted, final state)
	xptrPrograms                                                               int
	wall                                                                       float64
}

func xferPart(s *stats) (out xferOut) {
	out.probedOps, out.probeRuns = probeOffsetOpcodes()
	vs := xferVariants()
	out.variants = len(vs)
	seenOp := map[opcode.Opcode]bool{}
	for _, v := range vs {
		seenOp[v.op] = true
	}
	for op := range offsetOps {
		if !seenOp[op] {
			panic("C12 CHECK ERROR: no xfer variant for offset-carrying opcode " + op.String())
		}
	}
	var positions []int // every insertion point
	for i := 0; i < xferSlots; i++ {
		positions = append(positions, i)
	}
	pads := vk.Pick(s.r, []bool{true}, []bool{true, false})
	type job struct {
		v      xvariant
		pos    int
		padded bool
	}
	var jobs []job
	for _, v := range vs {
		for _, pos := range positions {
			for _, pd := range pads {
				jobs = append(jobs, job{v, pos, pd})
			}
		}
	}
	out.layouts = len(jobs)
	var mu sync.Mutex
	out.byClass = map[string]int{}
	oc := map[string]struct{}{}
	var progs, accepted, acceptedBad, mscripts vk.Counter
	s.r.Parallel(len(jobs), func(i int) {
		j := jobs[i]
		p := buildXfer(j.v, j.pos, j.padded)
		w := newWalker()
		cls := map[string]int{}
		ocl := map[string]struct{}{}
		methodsDone := false
		for _, rel := range p.rels() {
			if s.r.Expired() {
				break
			}
			script := p.with(rel)
			bounds, ok := boundaries(script)
			if !ok {
				panic("C12: xfer script does not decode")
			}
			class := p.targetClass(rel, bounds)
			name := fmt.Sprintf("%s/slot%d/len%d/rel%d", j.v.name, j.pos, len(script), rel)
			before := w.loc.correct
			r0 := s.fullCheck("xfer", name, nil, script, rawBase, 400, w, execOpts{mark: -1, tbl: []loaded{}}, false)
			acc := w.loc.correct > before
			progs.Inc()
			cls[class]++
			if acc {
				accepted.Inc()
				t := int64(p.at) + rel
				if t < 0 || t > int64(len(script)) || !bounds[t] {
					acceptedBad.Inc()
				}
				if !methodsDone && class == "instruction-start" {
					methodsDone = true
					mscripts.Inc()
					s.methodsCheck(w, "xfer", name, script)
				}
			}
			ocl[fmt.Sprintf("%s|%s|%v|%s", j.v.name, class, acc, r0.State)] = struct{}{}
			if i%97 == 0 && (class == "len" || class == "itself") {
				s.r.Sample(map[string]any{"part": "xfer", "name": name, "target": class, "script": fmt.Sprintf("%x", script), "accepted": acc, "unlimited": r0.State, "steps": r0.Steps})
			}
		}
		s.merge(w)
		mu.Lock()
		for k, n := range cls {
			out.byClass[k] += n
		}
		for k := range ocl {
			oc[k] = struct{}{}
		}
		mu.Unlock()
	})
	out.programs, out.accepted, out.acceptedBad, out.methodScripts = int(progs.Get()), int(accepted.Get()), int(acceptedBad.Get()), int(mscripts.Get())
	out.outcomes = len(oc)
	out.xptrPrograms = xptrPart(s)
	return
}

// ---- xptr: pointers across scripts --------------------------------------------------

// xptrPart: script P makes a pointer to every offset of itself (all of them
// instruction boundaries of P: P is PUSHA + NOPs where it matters) and script Q,
// whose bytes at those offsets are operands, calls it. Either P loads Q and
// hands the pointer over as an argument, or Q loads P and gets it as the return
// value. Both scripts pass the static check; Q must never execute an offset
// inside one of its instructions.
func xptrPart(s *stats) int {
	nops := func(a *asm, n int) {
		for i := 0; i < n; i++ {
			a.op(opcode.NOP)
		}
	}
	zones := func(a *asm) { // landing zones of the calling script
		a.op(opcode.PUSHINT32)
		a.raw(byte(opcode.PUSH1), byte(opcode.PUSH2), byte(opcode.PUSH3), byte(opcode.RET))
		a.op(opcode.DROP)
		a.pushData([]byte{byte(opcode.PUSH1), byte(opcode.RET)})
		a.op(opcode.DROP, opcode.PUSHINT64)
		a.raw(byte(opcode.PUSH1), byte(opcode.PUSH2), byte(opcode.PUSH3), byte(opcode.PUSH4), byte(opcode.PUSH5), byte(opcode.PUSH6), byte(opcode.PUSH7), byte(opcode.RET))
		a.op(opcode.DROP, opcode.RET)
	}
	type pair struct {
		name         string
		entry, other []byte
		mode         int
	}
	var ps []pair
	for mode := 0; mode <= 3; mode++ {
		// direction 1: the entry script makes the pointer, the loaded script calls it
		q := &asm{}
		q.op(opcode.CALLA, opcode.RET)
		zones(q)
		qs := q.bytes()
		for t := -2; t <= len(qs)+2; t++ {
			a := &asm{}
			a.op(opcode.PUSHA)
			a.raw(binaryLE(uint32(int32(t)))...)
			a.op(opcode.SYSCALL)
			a.raw(xid(idxMain, 1, mode)...)
			a.op(opcode.RET)
			nops(a, len(qs))
			ps = append(ps, pair{fmt.Sprintf("entry-pointer-called-in-loaded-script/mode%d/target%d", mode, t), a.bytes(), qs, mode})
		}
		// direction 2: the loaded script returns the pointer, the entry script calls it
		e := &asm{}
		e.op(opcode.SYSCALL)
		e.raw(xid(idxMain, 0, mode)...)
		e.op(opcode.CALLA, opcode.RET)
		zones(e)
		es := e.bytes()
		for t := -2; t <= len(es)+2; t++ {
			a := &asm{}
			a.op(opcode.PUSHA)
			a.raw(binaryLE(uint32(int32(t)))...)
			a.op(opcode.RET)
			nops(a, len(es))
			ps = append(ps, pair{fmt.Sprintf("loaded-script-pointer-called-in-entry/mode%d/target%d", mode, t), es, a.bytes(), mode})
		}
	}
	var n vk.Counter
	s.r.Parallel(len(ps), func(i int) {
		p := ps[i]
		w := newWalker()
		l := loaded{script: p.other, hash: util.Uint160{1}, nefScript: p.other, nefHash: util.Uint160{5}}
		tbl := []loaded{l}
		s.fullCheck("xptr", p.name, nil, p.entry, rawBase, 2000, w, execOpts{mark: -1, tbl: tbl, boundsBy: loadedBounds(tbl)}, false)
		n.Inc()
		s.merge(w)
	})
	return int(n.Get())
}

func sortedKeys(m map[string]int) []string {
	ks := make([]string, 0, len(m))
	for k := range m {
		ks = append(ks, k)
	}
	sort.Strings(ks)
	return ks
}
