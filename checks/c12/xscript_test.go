// C12, xscript part: exceptions, returns and context unloading across SCRIPTS.
//
// The harness installs a SYSCALL handler that, like the contract-call interop,
// loads another script into the VM (a fresh script context with its own
// evaluation stack and static slot) and hands it arguments. Caller programs
// (TRY around the load, CATCH, optional FINALLY, 1..9 repetitions, values held
// across) are crossed with callee programs (INITSSLOT 1/2/255 with unset,
// primitive, compound or argument fields, 0..2 nested CALLs, locals holding
// the field, ending in THROW, RET or in loading a third script that throws or
// returns), every pair executed with the per-step oracle. The walk covers all
// contexts of all scripts, each script's statics and evaluation stack once.
package c12

import (
	"fmt"

	"github.com/nspcc-dev/neo-go/pkg/crypto/hash"
	"github.com/nspcc-dev/neo-go/pkg/smartcontract/callflag"
	"github.com/nspcc-dev/neo-go/pkg/smartcontract/scparser"
	"github.com/nspcc-dev/neo-go/pkg/util"
	"github.com/nspcc-dev/neo-go/pkg/vm"
	"github.com/nspcc-dev/neo-go/pkg/vm/opcode"
	"github.com/nspcc-dev/neo-go/pkg/vm/stackitem"

	"verif/lib/vk"
)

const xMagic = 0xC1 // top byte of the harness's syscall ids: [script index, #args, load mode, xMagic]

func xid(idx, nargs, mode int) []byte { return []byte{byte(idx), byte(nargs), byte(mode), xMagic} }

type loaded struct {
	script []byte
	hash   util.Uint160
}

// loader returns the SYSCALL handler for a table of loadable scripts.
// mode 0: LoadScriptWithHash (one return value expected, own stack);
// mode 1: LoadScriptWithFlags (any number of return values; shares the
// caller's stack object when that is empty).
func loader(tbl []loaded) func(v *vm.VM, id uint32) error {
	return func(v *vm.VM, id uint32) error {
		idx, nargs, mode := int(id&0xff), int(id>>8&0xff), int(id>>16&0xff)
		if id>>24 != xMagic || idx >= len(tbl) || mode > 1 {
			return fmt.Errorf("unknown syscall %#x", id)
		}
		args := make([]stackitem.Item, nargs)
		for i := range args {
			args[i] = v.Estack().Pop().Item()
		}
		if mode == 0 {
			v.LoadScriptWithHash(tbl[idx].script, tbl[idx].hash, callflag.All)
		} else {
			v.LoadScriptWithFlags(tbl[idx].script, callflag.All)
		}
		for i := len(args) - 1; i >= 0; i-- {
			v.Estack().PushItem(args[i])
		}
		return nil
	}
}

// ---- callee -----------------------------------------------------------------------

type calleeSpec struct {
	nStatic  int  // 1, 2, 255
	field    int  // static 0: 0 unset, 1 primitive, 2 fresh compound, 3 the argument
	depth    int  // nested CALLs before the end
	hold     bool // every frame keeps static 0's value in a local
	end      int  // 0 THROW primitive, 1 THROW static 0, 2 RET, 3 third script throws, 4 third script returns then THROW, 5 third script returns then RET
	leftover bool // two items are left on the callee's own stack when it throws
}

func (c calleeSpec) String() string {
	return fmt.Sprintf("B[n%d,f%d,d%d,h%v,e%d,l%v]", c.nStatic, c.field, c.depth, b2i(c.hold), c.end, b2i(c.leftover))
}

func b2i(b bool) int {
	if b {
		return 1
	}
	return 0
}

const (
	idxMain = iota
	idxOther
	idxThirdThrows
	idxThirdReturns
)

func (c calleeSpec) script() []byte {
	a := &asm{}
	a.op(opcode.INITSSLOT)
	a.raw(byte(c.nStatic))
	switch c.field {
	case 1:
		a.op(opcode.PUSH1, opcode.STSFLD0)
	case 2:
		a.op(opcode.PUSH2, opcode.NEWARRAY, opcode.STSFLD0)
	case 3:
		a.op(opcode.STSFLD0) // the argument handed over by the loader
	}
	if c.nStatic > 1 {
		a.op(opcode.PUSHT, opcode.STSFLD)
		a.raw(byte(c.nStatic - 1))
	}
	frames := make([]int, c.depth)
	for i := range frames {
		frames[i] = a.newLabel()
	}
	for i := 0; i <= c.depth; i++ {
		if i > 0 {
			a.here(frames[i-1])
		}
		if c.hold {
			a.op(opcode.INITSLOT)
			a.raw(1, 0)
			a.op(opcode.LDSFLD0, opcode.STLOC0)
		}
		if i < c.depth {
			a.jmp(opcode.CALL, frames[i])
			a.op(opcode.RET)
			continue
		}
		if c.leftover {
			a.op(opcode.PUSH4, opcode.NEWARRAY0)
		}
		switch c.end {
		case 0:
			a.op(opcode.PUSH6, opcode.THROW)
		case 1:
			a.op(opcode.LDSFLD0, opcode.THROW)
		case 2:
			a.op(opcode.PUSH3, opcode.RET)
		case 3:
			a.op(opcode.SYSCALL)
			a.raw(xid(idxThirdThrows, 0, 0)...)
			a.op(opcode.RET)
		case 4:
			a.op(opcode.SYSCALL)
			a.raw(xid(idxThirdReturns, 0, 0)...)
			a.op(opcode.DROP, opcode.PUSH6, opcode.THROW)
		case 5:
			a.op(opcode.SYSCALL)
			a.raw(xid(idxThirdReturns, 0, 0)...)
			a.op(opcode.RET)
		}
	}
	return a.bytes()
}

func thirdScript(throws bool) []byte {
	a := &asm{}
	f := a.newLabel()
	a.op(opcode.INITSSLOT)
	a.raw(1)
	a.op(opcode.NEWARRAY0, opcode.STSFLD0)
	a.jmp(opcode.CALL, f)
	a.op(opcode.RET)
	a.here(f)
	a.op(opcode.PUSH7)
	if throws {
		a.op(opcode.THROW)
	} else {
		a.op(opcode.RET)
	}
	return a.bytes()
}

func otherScript() []byte { // a second, always returning callee with statics of both kinds
	a := &asm{}
	a.op(opcode.INITSSLOT)
	a.raw(2)
	a.op(opcode.PUSH1, opcode.STSFLD0, opcode.NEWARRAY0, opcode.STSFLD1, opcode.PUSH3, opcode.RET)
	return a.bytes()
}

func calleeSpecs() []calleeSpec {
	var out []calleeSpec
	for _, n := range []int{1, 2, 255} {
		for field := 0; field <= 3; field++ {
			for depth := 0; depth <= 2; depth++ {
				for _, hold := range []bool{false, true} {
					for end := 0; end <= 5; end++ {
						out = append(out, calleeSpec{n, field, depth, hold, end, false})
						if end == 0 || end == 4 {
							out = append(out, calleeSpec{n, field, depth, hold, end, true})
						}
					}
				}
			}
		}
	}
	return out
}

// ---- caller -----------------------------------------------------------------------

type callerSpec struct {
	hold      int  // 0 nothing, 1 primitive on the stack, 2 compound on the stack, 3 compound in a static of the caller
	finally   bool // TRY with a finally block too
	mode      int  // load mode of the main callee
	reps      int  // 1..9 repetitions of the try block
	alternate bool // every second repetition loads the other callee
}

func (c callerSpec) String() string {
	return fmt.Sprintf("A[h%d,f%d,m%d,r%d,a%d]", c.hold, b2i(c.finally), c.mode, c.reps, b2i(c.alternate))
}

func (c callerSpec) script(passArg bool) []byte {
	a := &asm{}
	switch c.hold {
	case 1:
		a.op(opcode.PUSH1)
	case 2:
		a.op(opcode.PUSH2, opcode.NEWARRAY)
	case 3:
		a.op(opcode.INITSSLOT)
		a.raw(1)
		a.op(opcode.PUSH2, opcode.NEWARRAY, opcode.STSFLD0)
	}
	for r := 0; r < c.reps; r++ {
		cl, fl, el := a.newLabel(), -1, a.newLabel()
		if c.finally {
			fl = a.newLabel()
		}
		a.try(opcode.TRY, cl, fl)
		if c.alternate && r%2 == 1 {
			a.op(opcode.SYSCALL)
			a.raw(xid(idxOther, 0, 0)...)
		} else {
			n := 0
			if passArg { // the held compound if there is one, otherwise a fresh one
				n = 1
				switch c.hold {
				case 2:
					a.op(opcode.DUP)
				case 3:
					a.op(opcode.LDSFLD0)
				default:
					a.op(opcode.NEWMAP)
				}
			}
			a.op(opcode.SYSCALL)
			a.raw(xid(idxMain, n, c.mode)...)
		}
		a.op(opcode.DROP) // the return value
		a.jmp(opcode.ENDTRY, el)
		a.here(cl)
		a.op(opcode.DROP) // the exception
		a.jmp(opcode.ENDTRY, el)
		if fl >= 0 {
			a.here(fl)
			a.op(opcode.ENDFINALLY)
		}
		a.here(el)
	}
	a.op(opcode.RET)
	return a.bytes()
}

func callerSpecs(reps []int) []callerSpec {
	var out []callerSpec
	for hold := 0; hold <= 3; hold++ {
		for _, fin := range []bool{false, true} {
			for mode := 0; mode <= 1; mode++ {
				for _, r := range reps {
					for _, alt := range []bool{false, true} {
						if alt && r == 1 {
							continue
						}
						out = append(out, callerSpec{hold, fin, mode, r, alt})
					}
				}
			}
		}
	}
	return out
}

// ---- the part ---------------------------------------------------------------------

type xOut struct {
	callers, callees, programs int
	notStatic                  int64 // generated scripts rejected by IsScriptCorrect (must be 0)
	maxScripts                 int   // most script contexts alive at once (self-check that the loader works)
}

func xscriptPart(s *stats, reps []int) (out xOut) {
	callees, callers := calleeSpecs(), callerSpecs(reps)
	out.callees, out.callers = len(callees), len(callers)
	fixed := []loaded{{}, {script: otherScript(), hash: util.Uint160{2}}, {script: thirdScript(true), hash: util.Uint160{3}}, {script: thirdScript(false), hash: util.Uint160{4}}}
	var notStatic, progs vk.Counter
	boundsOf := func(script []byte) []bool {
		b, ok := boundaries(script)
		if !ok || scparser.IsScriptCorrect(script, nil) != nil {
			notStatic.Inc()
			return nil
		}
		return b
	}
	s.r.Parallel(len(callees), func(i int) {
		ce := callees[i]
		w := newWalker()
		tbl := append([]loaded{}, fixed...)
		tbl[idxMain] = loaded{script: ce.script(), hash: util.Uint160{1}}
		by := map[util.Uint160][]bool{}
		for _, l := range tbl {
			b := boundsOf(l.script)
			by[l.hash] = b
			by[hash.Hash160(l.script)] = b // what a script loaded without an explicit hash reports
		}
		part := "xscript"
		if ce.leftover {
			part = "xscript-leftover"
		}
		for _, ca := range callers {
			if s.r.Expired() {
				break
			}
			script := ca.script(ce.field == 3)
			name := ca.String() + "x" + ce.String()
			opts := execOpts{mark: -1, tbl: tbl, boundsBy: by}
			r0 := s.fullCheck(part, name, nil, script, deepBase, 20000, w, opts, true)
			progs.Inc()
			if ca.reps == 1 && ca.hold == 2 && i%97 == 0 {
				s.r.Sample(map[string]any{"part": part, "name": name, "caller": fmt.Sprintf("%x", script), "callee": fmt.Sprintf("%x", tbl[idxMain].script),
					"unlimited": r0.State, "steps": r0.Steps, "max_invocations": r0.MaxInvoc, "max_walk": r0.MaxWalk})
			}
		}
		s.merge(w)
	})
	out.programs = int(progs.Get())
	out.notStatic = notStatic.Get()
	return
}

// loadedBounds: boundaries of every loadable script under both hashes it can report.
func loadedBounds(tbl []loaded) map[util.Uint160][]bool {
	by := map[util.Uint160][]bool{}
	for _, l := range tbl {
		b, ok := boundaries(l.script)
		if !ok || scparser.IsScriptCorrect(l.script, nil) != nil {
			b = nil
		}
		by[l.hash] = b
		by[hash.Hash160(l.script)] = b
	}
	return by
}
