// C12, xscript part: exceptions, returns and context unloading across SCRIPTS.
//
// The harness installs a SYSCALL handler that, like the contract-call interop,
// loads another script into the VM (a fresh script context with its own
// evaluation stack and static slot) and hands it arguments. Caller programs
// (TRY around the load, CATCH, optional FINALLY, 1..9 repetitions, values held
// across) are crossed with callee programs (INITSSLOT 1/2/255 with unset,
// primitive, compound or argument fields, 0..2 nested CALLs, locals holding
// the field, ending in THROW, RET or in loading a third script that throws or
// returns), every pair executed with the per-step oracle. The walk covers all
// contexts of all scripts, each script's statics and evaluation stack once.
package c12

import (
	"errors"
	"fmt"

	"github.com/nspcc-dev/neo-go/pkg/core/interop/interopnames"
	"github.com/nspcc-dev/neo-go/pkg/crypto/hash"
	"github.com/nspcc-dev/neo-go/pkg/smartcontract/callflag"
	"github.com/nspcc-dev/neo-go/pkg/smartcontract/nef"
	"github.com/nspcc-dev/neo-go/pkg/util"
	"github.com/nspcc-dev/neo-go/pkg/vm"
	"github.com/nspcc-dev/neo-go/pkg/vm/opcode"
	"github.com/nspcc-dev/neo-go/pkg/vm/stackitem"

	"verif/lib/vk"
)

const xMagic = 0xC1 // top byte of the harness's syscall ids: [script index, #args, load mode, xMagic]

func xid(idx, nargs, mode int) []byte { return []byte{byte(idx), byte(nargs), byte(mode), xMagic} }

type loaded struct {
	script []byte
	hash   util.Uint160
	// the same program laid out like a compiled contract (static initialisation
	// in an _initialize function at offset 0, the method after it), for LoadNEFMethod
	nefScript []byte
	nefHash   util.Uint160
	methodOff int
}

// What the loader charges for a load (as the contract-call interop charges its
// price): through the VM's own AddDatoshi/AddPicoGas, mirrored into the
// harness's sum of executed prices.
const (
	loadDatoshi = 7
	loadPico    = 1 // so that a limit of need-1 datoshi is missed by exactly one picoGAS when the load is the last thing charged
)

const (
	sysInterop = 0xF0 // push an Interop item
	sysFreeze  = 0xF1 // replace the top item by an immutable deep copy
)

// gMagic: top byte of the ids of the harness's "charging" syscalls (gas-edge and
// control-transfer parts): [datoshi, index into gasPico, flags, gMagic]. The
// handler does nothing but charge, through the VM's own AddDatoshi and
// AddPicoGas (both are always called, a zero amount included; flag bit 0: the
// picoGAS part first), mirroring the amounts into the harness's own sum.
const gMagic = 0xC2

var gasPico = [...]int64{0, 1, picoPerDat - 1, picoPerDat, picoPerDat + 1}

func gid(datoshi, picoIdx, flags int) []byte {
	return []byte{byte(datoshi), byte(picoIdx), byte(flags), gMagic}
}

func charge(v *vm.VM, id uint32, own *int64) error {
	d, pi, fl := int64(id&0xff), int(id>>8&0xff), id>>16&0xff
	if pi >= len(gasPico) || fl > 1 {
		return fmt.Errorf("unknown syscall %#x", id)
	}
	p := gasPico[pi]
	if fl&1 != 0 {
		*own += p
		if err := v.AddPicoGas(p); err != nil {
			return err
		}
		*own += d * picoPerDat
		return v.AddDatoshi(d)
	}
	*own += d * picoPerDat
	if err := v.AddDatoshi(d); err != nil {
		return err
	}
	*own += p
	return v.AddPicoGas(p)
}

// loader returns the SYSCALL handler for a table of loadable scripts.
//
//	mode 0  LoadScriptWithHash (one return value expected, own stack)
//	mode 1  LoadScriptWithFlags (any number of return values; shares the caller's
//	        stack object when that is empty)
//	mode 2  LoadDynamicScript (DynamicOnUnload: no value -> Null, more than one -> error)
//	mode 3  LoadNEFMethod, one return value, static initialisation in an
//	        _initialize function, onUnload and onUnloaded callbacks set
//	mode 4  LoadNEFMethod whose onUnload fails when the context is unloaded by
//	        an exception (what a call from a native contract does)
func loader(tbl []loaded, own *int64) func(v *vm.VM, id uint32) error {
	return func(v *vm.VM, id uint32) error {
		idx, nargs, mode := int(id&0xff), int(id>>8&0xff), int(id>>16&0xff)
		if id>>24 == gMagic {
			return charge(v, id, own)
		}
		if id>>24 != xMagic {
			return fmt.Errorf("unknown syscall %#x", id)
		}
		switch idx {
		case sysInterop:
			v.Estack().PushItem(stackitem.NewInterop(&idx))
			return nil
		case sysFreeze:
			v.Estack().PushItem(stackitem.DeepCopy(v.Estack().Pop().Item(), true))
			return nil
		}
		if idx >= len(tbl) || mode > 4 {
			return fmt.Errorf("unknown syscall %#x", id)
		}
		*own += loadDatoshi*picoPerDat + loadPico
		if err := v.AddDatoshi(loadDatoshi); err != nil {
			return err
		}
		if err := v.AddPicoGas(loadPico); err != nil {
			return err
		}
		args := make([]stackitem.Item, nargs)
		for i := range args {
			args[i] = v.Estack().Pop().Item()
		}
		l := tbl[idx]
		switch mode {
		case 0:
			v.LoadScriptWithHash(l.script, l.hash, callflag.All)
		case 1:
			v.LoadScriptWithFlags(l.script, callflag.All)
		case 2:
			v.LoadDynamicScript(l.script, callflag.All)
		case 3:
			v.LoadNEFMethod(&nef.File{Script: l.nefScript}, nil, v.GetCurrentScriptHash(), l.nefHash, callflag.All, true, l.methodOff, 0,
				func(*vm.VM, *vm.Context, bool) error { return nil }, func(*vm.VM) {}, false)
		case 4:
			v.LoadNEFMethod(&nef.File{Script: l.nefScript}, nil, v.GetCurrentScriptHash(), l.nefHash, callflag.All, true, l.methodOff, 0,
				func(_ *vm.VM, _ *vm.Context, commit bool) error {
					if !commit {
						return errors.New("unhandled exception")
					}
					return nil
				}, nil, false)
		}
		for i := len(args) - 1; i >= 0; i-- {
			v.Estack().PushItem(args[i])
		}
		return nil
	}
}

// tokenLoader is the CALLT handler: token id = index of the script, loaded like mode 0.
func tokenLoader(v *vm.VM, tbl []loaded, own *int64) func(id int32) error {
	return func(id int32) error {
		if int(id) >= len(tbl) {
			return fmt.Errorf("unknown token %d", id)
		}
		*own += loadDatoshi * picoPerDat
		if err := v.AddDatoshi(loadDatoshi); err != nil {
			return err
		}
		v.LoadScriptWithHash(tbl[id].script, tbl[id].hash, callflag.All)
		return nil
	}
}

// ---- callee -----------------------------------------------------------------------

type calleeSpec struct {
	nStatic  int  // 1, 2, 255
	field    int  // static 0: 0 unset, 1 primitive, 2 fresh compound, 3 the argument
	depth    int  // nested CALLs before the end
	hold     bool // every frame keeps static 0's value in a local
	end      int  // 0 THROW primitive, 1 THROW static 0, 2 RET one value, 3 third script throws, 4 third script returns then THROW, 5 third script returns then RET, 6 RET no value, 7 RET two values
	leftover bool // two items are left on the callee's own stack when it throws
}

func (c calleeSpec) String() string {
	return fmt.Sprintf("B[n%d,f%d,d%d,h%v,e%d,l%v]", c.nStatic, c.field, c.depth, b2i(c.hold), c.end, b2i(c.leftover))
}

func b2i(b bool) int {
	if b {
		return 1
	}
	return 0
}

const (
	idxMain = iota
	idxOther
	idxThirdThrows
	idxThirdReturns
)

// script builds the callee; nefStyle puts a RET after the static initialisation
// (which then is the _initialize function) and returns the offset of the method.
func (c calleeSpec) script(nefStyle bool) (code []byte, methodOff int) {
	a := &asm{}
	a.op(opcode.INITSSLOT)
	a.raw(byte(c.nStatic))
	switch c.field {
	case 1:
		a.op(opcode.PUSH1, opcode.STSFLD0)
	case 2:
		a.op(opcode.PUSH2, opcode.NEWARRAY, opcode.STSFLD0)
	case 3:
		a.op(opcode.STSFLD0) // the argument handed over by the loader
	}
	if c.nStatic > 1 {
		a.op(opcode.PUSHT, opcode.STSFLD)
		a.raw(byte(c.nStatic - 1))
	}
	if nefStyle {
		a.op(opcode.RET)
		methodOff = a.pos()
	}
	frames := make([]int, c.depth)
	for i := range frames {
		frames[i] = a.newLabel()
	}
	for i := 0; i <= c.depth; i++ {
		if i > 0 {
			a.here(frames[i-1])
		}
		if c.hold {
			a.op(opcode.INITSLOT)
			a.raw(1, 0)
			a.op(opcode.LDSFLD0, opcode.STLOC0)
		}
		if i < c.depth {
			a.jmp(opcode.CALL, frames[i])
			a.op(opcode.RET)
			continue
		}
		if c.leftover {
			a.op(opcode.PUSH4, opcode.NEWARRAY0)
		}
		switch c.end {
		case 0:
			a.op(opcode.PUSH6, opcode.THROW)
		case 1:
			a.op(opcode.LDSFLD0, opcode.THROW)
		case 2:
			a.op(opcode.PUSH3, opcode.RET)
		case 3:
			a.op(opcode.SYSCALL)
			a.raw(xid(idxThirdThrows, 0, 0)...)
			a.op(opcode.RET)
		case 4:
			a.op(opcode.SYSCALL)
			a.raw(xid(idxThirdReturns, 0, 0)...)
			a.op(opcode.DROP, opcode.PUSH6, opcode.THROW)
		case 5:
			a.op(opcode.SYSCALL)
			a.raw(xid(idxThirdReturns, 0, 0)...)
			a.op(opcode.RET)
		case 6:
			a.op(opcode.RET)
		case 7:
			a.op(opcode.PUSH3, opcode.NEWARRAY0, opcode.RET)
		}
	}
	return a.bytes(), methodOff
}

func (c calleeSpec) loaded() loaded {
	l := loaded{hash: util.Uint160{1}, nefHash: util.Uint160{5}}
	l.script, _ = c.script(false)
	l.nefScript, l.methodOff = c.script(true)
	return l
}

func thirdScript(throws bool) []byte {
	a := &asm{}
	f := a.newLabel()
	a.op(opcode.INITSSLOT)
	a.raw(1)
	a.op(opcode.NEWARRAY0, opcode.STSFLD0)
	a.jmp(opcode.CALL, f)
	a.op(opcode.RET)
	a.here(f)
	a.op(opcode.PUSH7)
	if throws {
		a.op(opcode.THROW)
	} else {
		a.op(opcode.RET)
	}
	return a.bytes()
}

func otherScript() []byte { // a second, always returning callee with statics of both kinds
	a := &asm{}
	a.op(opcode.INITSSLOT)
	a.raw(2)
	a.op(opcode.PUSH1, opcode.STSFLD0, opcode.NEWARRAY0, opcode.STSFLD1, opcode.PUSH3, opcode.RET)
	return a.bytes()
}

func calleeSpecs() []calleeSpec {
	var out []calleeSpec
	for _, n := range []int{1, 2, 255} {
		for field := 0; field <= 3; field++ {
			for depth := 0; depth <= 2; depth++ {
				for _, hold := range []bool{false, true} {
					for end := 0; end <= 7; end++ {
						out = append(out, calleeSpec{n, field, depth, hold, end, false})
						if end == 0 || end == 4 {
							out = append(out, calleeSpec{n, field, depth, hold, end, true})
						}
					}
				}
			}
		}
	}
	return out
}

// ---- caller -----------------------------------------------------------------------

type callerSpec struct {
	hold      int  // 0 nothing, 1 primitive on the stack, 2 compound on the stack, 3 compound in a static of the caller
	finally   bool // TRY with a finally block too
	mode      int  // load mode of the main callee (see loader)
	reps      int  // 1..9 repetitions of the try block
	alternate bool // every second repetition loads the other callee, through CALLT
}

func (c callerSpec) String() string {
	return fmt.Sprintf("A[h%d,f%d,m%d,r%d,a%d]", c.hold, b2i(c.finally), c.mode, c.reps, b2i(c.alternate))
}

func (c callerSpec) script(passArg bool) []byte {
	a := &asm{}
	switch c.hold {
	case 1:
		a.op(opcode.PUSH1)
	case 2:
		a.op(opcode.PUSH2, opcode.NEWARRAY)
	case 3:
		a.op(opcode.INITSSLOT)
		a.raw(1)
		a.op(opcode.PUSH2, opcode.NEWARRAY, opcode.STSFLD0)
	}
	for r := 0; r < c.reps; r++ {
		cl, fl, el := a.newLabel(), -1, a.newLabel()
		if c.finally {
			fl = a.newLabel()
		}
		a.try(opcode.TRY, cl, fl)
		if c.alternate && r%2 == 1 {
			a.op(opcode.CALLT)
			a.raw(idxOther, 0)
		} else {
			n := 0
			if passArg { // the held compound if there is one, otherwise a fresh one
				n = 1
				switch c.hold {
				case 2:
					a.op(opcode.DUP)
				case 3:
					a.op(opcode.LDSFLD0)
				default:
					a.op(opcode.NEWMAP)
				}
			}
			a.op(opcode.SYSCALL)
			a.raw(xid(idxMain, n, c.mode)...)
		}
		a.op(opcode.DROP) // the return value
		a.jmp(opcode.ENDTRY, el)
		a.here(cl)
		a.op(opcode.DROP) // the exception
		a.jmp(opcode.ENDTRY, el)
		if fl >= 0 {
			a.here(fl)
			a.op(opcode.ENDFINALLY)
		}
		a.here(el)
	}
	a.op(opcode.RET)
	return a.bytes()
}

func callerSpecs(reps []int) []callerSpec {
	var out []callerSpec
	for mode := 0; mode <= 4; mode++ {
		for hold := 0; hold <= 3; hold++ {
			for _, fin := range []bool{false, true} {
				if mode >= 2 && (fin || hold == 1 || hold == 3) {
					continue // the unload-callback modes: fewer caller shapes
				}
				for _, r := range reps {
					for _, alt := range []bool{false, true} {
						if alt && r == 1 {
							continue
						}
						out = append(out, callerSpec{hold, fin, mode, r, alt})
					}
				}
			}
		}
	}
	return out
}

// ---- special pairs ------------------------------------------------------------------

type xSpecial struct {
	name   string
	caller []byte
	main   []byte // the loadable script number 0
}

func xSpecials() []xSpecial {
	mk := func(f func(a *asm)) []byte { a := &asm{}; f(a); return a.bytes() }
	load := func(a *asm, nargs, mode int) { a.op(opcode.SYSCALL); a.raw(xid(idxMain, nargs, mode)...) }
	ret1 := mk(func(a *asm) { a.op(opcode.PUSH1, opcode.RET) })
	return []xSpecial{
		{"pointer-of-the-caller-called-in-the-callee", mk(func(a *asm) {
			l := a.newLabel()
			a.jmp(opcode.PUSHA, l)
			load(a, 1, 0)
			a.here(l)
			a.op(opcode.RET)
		}), mk(func(a *asm) { a.op(opcode.CALLA, opcode.PUSH1, opcode.RET) })},
		{"pointer-of-the-callee-returned-and-called", mk(func(a *asm) { load(a, 0, 0); a.op(opcode.CALLA) }),
			mk(func(a *asm) { l := a.newLabel(); a.here(l); a.jmp(opcode.PUSHA, l); a.op(opcode.RET) })},
		{"load-is-the-last-charge", mk(func(a *asm) { load(a, 0, 1) }), mk(func(a *asm) { a.op(opcode.RET) })},
		{"unknown-syscall", mk(func(a *asm) { a.op(opcode.NEWARRAY0, opcode.SYSCALL); a.raw(1, 2, 3, 4) }), ret1},
		{"known-syscall-name-the-handler-rejects", mk(func(a *asm) {
			a.op(opcode.NEWARRAY0, opcode.SYSCALL)
			a.raw(binaryLE(interopnames.ToID([]byte(interopnames.SystemRuntimePlatform)))...)
		}), ret1},
		{"unknown-script-index", mk(func(a *asm) { a.op(opcode.SYSCALL); a.raw(xid(9, 0, 0)...) }), ret1},
		{"unknown-token", mk(func(a *asm) { a.op(opcode.NEWMAP, opcode.CALLT); a.raw(9, 0) }), ret1},
		{"token-in-a-loop-until-the-depth-limit", mk(func(a *asm) { a.op(opcode.CALLT); a.raw(0, 0) }), mk(func(a *asm) { a.op(opcode.CALLT); a.raw(0, 0) })},
		{"load-in-a-loop-until-the-item-limit", mk(func(a *asm) { a.op(opcode.NEWARRAY0); load(a, 1, 1) }),
			mk(func(a *asm) { a.op(opcode.DUP, opcode.DUP); load(a, 1, 1) })},
		{"interop-item-and-immutable-copies-across-scripts", mk(func(a *asm) {
			a.op(opcode.SYSCALL)
			a.raw(xid(sysInterop, 0, 0)...)
			a.op(opcode.DUP, opcode.PUSH2, opcode.PACK, opcode.DUP, opcode.SYSCALL)
			a.raw(xid(sysFreeze, 0, 0)...)
			load(a, 2, 0)
		}), mk(func(a *asm) {
			a.op(opcode.INITSSLOT)
			a.raw(2)
			a.op(opcode.STSFLD0, opcode.DUP, opcode.STSFLD1, opcode.LDSFLD0, opcode.EQUAL, opcode.RET)
		})},
		{"immutable-copy-modified-in-the-callee", mk(func(a *asm) {
			a.op(opcode.PUSH2, opcode.NEWARRAY, opcode.SYSCALL)
			a.raw(xid(sysFreeze, 0, 0)...)
			load(a, 1, 0)
		}), mk(func(a *asm) { a.op(opcode.DUP, opcode.PUSH0, opcode.PUSH1, opcode.SETITEM, opcode.RET) })},
	}
}

// ---- the part ---------------------------------------------------------------------

type xOut struct {
	callers, callees, programs int
	notStatic                  int64 // generated scripts rejected by IsScriptCorrect (must be 0)
}

func xscriptPart(s *stats, reps []int) (out xOut) {
	callees, callers := calleeSpecs(), callerSpecs(reps)
	out.callees, out.callers = len(callees), len(callers)
	fixed := []loaded{{}, {script: otherScript(), hash: util.Uint160{2}}, {script: thirdScript(true), hash: util.Uint160{3}}, {script: thirdScript(false), hash: util.Uint160{4}}}
	var notStatic, progs vk.Counter
	count := func(tbl []loaded) map[util.Uint160][]bool {
		by := loadedBounds(tbl)
		for _, b := range by {
			if b == nil {
				notStatic.Inc()
			}
		}
		return by
	}
	specials := xSpecials()
	s.r.Parallel(len(specials), func(i int) {
		sp := specials[i]
		w := newWalker()
		tbl := append([]loaded{}, fixed...)
		tbl[idxMain] = loaded{script: sp.main, hash: util.Uint160{1}, nefScript: sp.main, nefHash: util.Uint160{5}}
		s.fullCheck("xscript", "special/"+sp.name, nil, sp.caller, deepBase, 20000, w, execOpts{mark: -1, tbl: tbl, boundsBy: count(tbl)}, false)
		progs.Inc()
		s.merge(w)
	})
	s.r.Parallel(len(callees), func(i int) {
		ce := callees[i]
		w := newWalker()
		tbl := append([]loaded{}, fixed...)
		tbl[idxMain] = ce.loaded()
		by := count(tbl)
		part := "xscript"
		if ce.leftover {
			part = "xscript-leftover"
		}
		for _, ca := range callers {
			if s.r.Expired() {
				break
			}
			script := ca.script(ce.field == 3)
			name := ca.String() + "x" + ce.String()
			opts := execOpts{mark: -1, tbl: tbl, boundsBy: by, lowLimits: true}
			r0 := s.fullCheck(part, name, nil, script, deepBase, 20000, w, opts, true)
			progs.Inc()
			if ca.reps == 1 && ca.hold == 2 && i%97 == 0 {
				s.r.Sample(map[string]any{"part": part, "name": name, "caller": fmt.Sprintf("%x", script), "callee": fmt.Sprintf("%x", tbl[idxMain].script),
					"unlimited": r0.State, "steps": r0.Steps, "max_invocations": r0.MaxInvoc, "max_walk": r0.MaxWalk})
			}
		}
		s.merge(w)
	})
	out.programs = int(progs.Get())
	out.notStatic = notStatic.Get()
	return
}

// loadedBounds: boundaries of every loadable script under every hash it can report.
func loadedBounds(tbl []loaded) map[util.Uint160][]bool {
	by := map[util.Uint160][]bool{}
	add := func(script []byte, h util.Uint160) {
		if script == nil {
			return
		}
		b, ok := boundaries(script)
		if err, pan := staticCheck(script, nil); !ok || err != nil || pan != nil {
			b = nil
		}
		by[h] = b
		by[hash.Hash160(script)] = b
	}
	for _, l := range tbl {
		add(l.script, l.hash)
		add(l.nefScript, l.nefHash)
	}
	return by
}

func binaryLE(x uint32) []byte { return []byte{byte(x), byte(x >> 8), byte(x >> 16), byte(x >> 24)} }
