package c13

// Limits that are budgets shared across ONE compound operation (second
// extension round, see lib/specvm/ext_budget.go for the reference rules):
//
//   budget-equal-bytes   EQUAL/NOTEQUAL of ByteStrings / Buffers / Integers at
//                        MaxComparableSize, shared item vs equal copy vs
//                        different content, both operand orders
//   budget-equal-flat    two structs of 1..3 fields, every field pair from an
//                        alphabet of pair kinds (the SAME ByteString item on
//                        both sides, equal copies, last byte different, other
//                        lengths, ByteString against Integer, ...) with sizes
//                        whose sums land on limit-1 / limit / limit+1
//   budget-equal-many    k fields of L bytes (k*L around the budget), operands
//                        made inside the script: DUP chains, loops, and the
//                        second struct made from the first by the cloning
//                        instructions (APPEND, SETITEM, VALUES - the clone
//                        SHARES the ByteStrings) or by UNPACK+PACKSTRUCT
//   budget-equal-nested  structs in structs, nested struct shared or copied,
//                        deep chains
//   budget-count         pair-count limit of a comparison with shared nested
//                        structs (the same object on both sides is one pair)
//   budget-clone         element-count limit of a struct clone through every
//                        cloning path, two and three levels, array kept or not
//   budget-mapkey        MaxKeySize 64 through SETITEM/HASKEY/PICKITEM/REMOVE/
//                        PACKMAP on every container type
//   budget-itemsize      MaxItemSize reached by CAT loops and friends
//
// Every operand is built by the script itself, so that what is shared and what
// is copied is what the instructions really produce.

import (
	"fmt"
	"strings"

	sv "verif/lib/specvm"
	"verif/lib/vk"
)

func isFamilySection(name string) bool {
	return strings.HasPrefix(name, "layout-") || strings.HasPrefix(name, "budget-") || strings.HasPrefix(name, "reuse-")
}

func budgetFamilyReport() map[string]any {
	out := map[string]any{}
	famMu.Lock()
	defer famMu.Unlock()
	for name, f := range fams {
		if !strings.HasPrefix(name, "budget-") {
			continue
		}
		out[name] = map[string]any{
			"programs_compared":               f.programs,
			"halt":                            f.halt,
			"fault":                           f.fault,
			"distinct_outcomes":               f.outcomes.len(),
			"undetermined_excluded_by_reason": f.undet,
		}
	}
	return out
}

// ---- building blocks ---------------------------------------------------------------------------------

// bytesN pushes a ByteString of n bytes: zeros, the last byte set to tag when
// tag != 0 (n >= 1). Short ones are literals (PUSHDATA), long ones are made
// with NEWBUFFER / SETITEM / CONVERT.
func bytesN(n int, tag byte) []byte {
	if n <= 2 {
		d := make([]byte, n)
		if n > 0 {
			d[n-1] = tag
		}
		return pushD(d)
	}
	c := cat(pushI(int64(n)), op(sv.NEWBUFFER))
	if tag != 0 {
		c = cat(c, op(sv.DUP), pushI(int64(n-1)), pushI(int64(tag)), op(sv.SETITEM))
	}
	return cat(c, convertTo(sv.TByteString))
}

// bytesFirst: n >= 1 zero bytes with the FIRST byte set to tag.
func bytesFirst(n int, tag byte) []byte {
	return cat(pushI(int64(n)), op(sv.NEWBUFFER), op(sv.DUP), pushI(0), pushI(int64(tag)), op(sv.SETITEM), convertTo(sv.TByteString))
}

// packOf: elements given first..last.
func packOf(o sv.Op, elems ...[]byte) []byte {
	var c []byte
	for i := len(elems) - 1; i >= 0; i-- {
		c = append(c, elems[i]...)
	}
	return cat(c, pushI(int64(len(elems))), op(o))
}

func stOf(elems ...[]byte) []byte { return packOf(sv.PACKSTRUCT, elems...) }

func ldsfld(i int) []byte {
	if i < 6 {
		return op(sv.LDSFLD0 + sv.Op(i))
	}
	return op(sv.LDSFLD, byte(i))
}

func stsfld(i int) []byte {
	if i < 6 {
		return op(sv.STSFLD0 + sv.Op(i))
	}
	return op(sv.STSFLD, byte(i))
}

// inTry wraps body in try{body; PUSHT}catch{...}: none of the limit faults is
// catchable, a program that halts took the catch block by mistake.
func inTry(body []byte) []byte {
	t := cat(body, op(sv.PUSHT))
	// TRY_L catch | t | ENDTRY_L end | catch: PUSHINT8 99 ; ENDTRY_L end | end: NOP
	return cat(op(sv.TRY_L, append(le32(int32(9+len(t)+5)), le32(0)...)...), t, op(sv.ENDTRY_L, le32(int32(5+2+5))...),
		op(sv.PUSHINT8, 99), op(sv.ENDTRY_L, le32(5)...), op(sv.NOP))
}

// ---- pair kinds and pair trees -----------------------------------------------------------------------------

// pairKind is one field pair of two structs under comparison.
type pairKind struct {
	name   string
	shared []byte // the item both sides hold (built once, kept in a static field); nil: none
	x, y   []byte // the two sides when they are separate items
}

func pkShared(l int) pairKind {
	return pairKind{name: fmt.Sprintf("same(%d)", l), shared: bytesN(l, 0)}
}
func pkEqual(l int) pairKind {
	return pairKind{name: fmt.Sprintf("copy(%d)", l), x: bytesN(l, 0), y: bytesN(l, 0)}
}
func pkDiff(l int) pairKind {
	return pairKind{name: fmt.Sprintf("diff(%d)", l), x: bytesN(l, 0), y: bytesN(l, 1)}
}

func pkMixed(full bool) []pairKind {
	one := pushI(1)
	out := []pairKind{
		{name: "bytes(1)|int", x: bytesN(1, 0), y: one},
		{name: "int|bytes(1)", x: one, y: bytesN(1, 0)},
		{name: "int|int=", x: one, y: one},
		{name: "int|int!", x: one, y: pushI(2)},
		{name: "null|null", x: op(sv.PUSHNULL), y: op(sv.PUSHNULL)},
	}
	if full {
		out = append(out,
			pairKind{name: "bytes(65536)|int", x: bytesN(65536, 0), y: one},
			pairKind{name: "bytes(65537)|int", x: bytesN(65537, 0), y: one},
			pairKind{name: "int|bytes(65537)", x: one, y: bytesN(65537, 0)},
			pairKind{name: "bytes(1)|bytes(65537)", x: bytesN(1, 0), y: bytesN(65537, 0)},
			pairKind{name: "bytes(0)|bytes(65537)", x: bytesN(0, 0), y: bytesN(65537, 0)},
			pairKind{name: "bytes(32768)|bytes(32769)", x: bytesN(32768, 0), y: bytesN(32769, 0)},
			pairKind{name: "bytes(1)|buffer(1)", x: bytesN(1, 0), y: pushBuf([]byte{0})},
			pairKind{name: "same-buffer(70000)", shared: zeros(70000, false)},
			pairKind{name: "same-struct[]", shared: op(sv.NEWSTRUCT0)},
			pairKind{name: "copy-struct[1]", x: stOf(one), y: stOf(one)},
		)
	}
	return out
}

func pairAlphabet(sizes []int, full bool) []pairKind {
	var out []pairKind
	for _, l := range sizes {
		out = append(out, pkShared(l), pkEqual(l))
		if l > 0 {
			out = append(out, pkDiff(l))
		}
	}
	return append(out, pkMixed(full)...)
}

// tnode is a tree of pairs: a leaf pair, or a pair of structs with children;
// same: the struct is ONE object held by both sides.
type tnode struct {
	leaf *pairKind
	kids []*tnode
	same bool
}

func (t *tnode) name() string {
	if t.leaf != nil {
		return t.leaf.name
	}
	var p []string
	for _, k := range t.kids {
		p = append(p, k.name())
	}
	s := "[" + strings.Join(p, ",") + "]"
	if t.same {
		s = "same" + s
	}
	return s
}

type treeAsm struct {
	prelude [][]byte // code of the items kept in static fields, in slot order
}

func (a *treeAsm) slot(code []byte) int {
	a.prelude = append(a.prelude, code)
	return len(a.prelude) - 1
}

// gen returns the code of both sides of a pair tree.
func (a *treeAsm) gen(t *tnode) (x, y []byte) {
	if t.leaf != nil {
		if t.leaf.shared != nil {
			ld := ldsfld(a.slot(t.leaf.shared))
			return ld, ld
		}
		return t.leaf.x, t.leaf.y
	}
	var xs, ys [][]byte
	for _, k := range t.kids {
		kx, ky := a.gen(k)
		xs = append(xs, kx)
		ys = append(ys, ky)
	}
	if t.same {
		ld := ldsfld(a.slot(stOf(xs...)))
		return ld, ld
	}
	return stOf(xs...), stOf(ys...)
}

// treeProgram: static fields, both operands, the comparison.
func treeProgram(t *tnode, o sv.Op) []byte {
	a := &treeAsm{}
	x, y := a.gen(t)
	var pre []byte
	if n := len(a.prelude); n > 0 {
		pre = op(sv.INITSSLOT, byte(n))
		for i, c := range a.prelude {
			pre = cat(pre, c, stsfld(i))
		}
	}
	return cat(pre, x, y, op(o))
}

func leafOf(k *pairKind) *tnode { return &tnode{leaf: k} }

// ---- sections ---------------------------------------------------------------------------------------------

func budgetSections(r *vk.Run) []section {
	return []section{budgetEqualBytes(), budgetEqualFlat(r), budgetEqualUnits(), budgetEqualMany(), budgetEqualNested(r), budgetCount(), budgetClone(), budgetMapKey(), budgetItemSize()}
}

// budgetEqualBytes: the two-operand comparison itself.
func budgetEqualBytes() section {
	var vals []val
	for _, l := range []int{0, 1, 65535, 65536, 65537, sv.MaxItemSize} {
		vals = append(vals, val{Name: fmt.Sprintf("bytes(%d)", l), Code: bytesN(l, 0)})
		if l > 0 {
			vals = append(vals, val{Name: fmt.Sprintf("bytes(%d,last=1)", l), Code: bytesN(l, 1)})
		}
		if l > 1 {
			vals = append(vals, val{Name: fmt.Sprintf("bytes(%d,first=1)", l), Code: bytesFirst(l, 1)})
		}
	}
	vals = append(vals,
		val{Name: "buffer(1)", Code: zeros(1, false)}, val{Name: "buffer(65536)", Code: zeros(65536, false)}, val{Name: "buffer(65537)", Code: zeros(65537, false)},
		ival(bi(0)), ival(bi(1)), val{Name: "false", Code: op(sv.PUSHF)}, val{Name: "null", Code: op(sv.PUSHNULL)},
		val{Name: "struct[bytes(65537)]", Code: stOf(bytesN(65537, 0))}, val{Name: "array[bytes(65537)]", Code: packOf(sv.PACK, bytesN(65537, 0))})
	return section{"budget-equal-bytes", len(vals), func(j int, emit func(prog)) {
		a := vals[j]
		for _, o := range []sv.Op{sv.EQUAL, sv.NOTEQUAL} {
			for _, b := range vals {
				code := cat(a.Code, b.Code, op(o))
				emit(prog{Key: "BUDGET:" + o.Name() + ":" + a.Name + "," + b.Name, Class: "budget-" + o.Name(), Script: code})
				emit(prog{Key: "BUDGET:" + o.Name() + ":" + a.Name + "," + b.Name + ",in-try", Class: "budget-" + o.Name(), Script: inTry(code)})
			}
			// the same item, directly and after a round trip through a slot / an array
			emit(prog{Key: "BUDGET:" + o.Name() + ":" + a.Name + ",<same>", Class: "budget-" + o.Name(), Script: cat(a.Code, op(sv.DUP), op(o))})
			emit(prog{Key: "BUDGET:" + o.Name() + ":" + a.Name + ",<same via static field>", Class: "budget-" + o.Name(), Script: cat(op(sv.INITSSLOT, 1), a.Code, op(sv.STSFLD0), op(sv.LDSFLD0), op(sv.LDSFLD0), op(o))})
			emit(prog{Key: "BUDGET:" + o.Name() + ":" + a.Name + ",<same via array>", Class: "budget-" + o.Name(), Script: cat(a.Code, pushI(1), op(sv.PACK), op(sv.DUP), pushI(0), op(sv.PICKITEM), op(sv.SWAP), pushI(0), op(sv.PICKITEM), op(o))})
			// a copy made by CONVERT through Buffer: equal, not the same
			emit(prog{Key: "BUDGET:" + o.Name() + ":" + a.Name + ",<copy via Buffer>", Class: "budget-" + o.Name(), Script: cat(a.Code, op(sv.DUP), convertTo(sv.TBuffer), convertTo(sv.TByteString), op(o))})
		}
	}}
}

// budgetEqualFlat: structs of 1..3 fields over the pair alphabet.
func budgetEqualFlat(r *vk.Run) section {
	full := pairAlphabet([]int{0, 1, 2, 32767, 32768, 32769, 65534, 65535, 65536, 65537}, true)
	small := pairAlphabet([]int{0, 1, 32767, 32768, 32769}, false)
	if r.Thorough() {
		small = pairAlphabet([]int{0, 1, 2, 21845, 21846, 32767, 32768, 32769, 65535}, true)
	}
	return section{"budget-equal-flat", len(full) + len(small), func(j int, emit func(prog)) {
		e := func(o sv.Op, ks ...*pairKind) {
			t := &tnode{}
			for _, k := range ks {
				t.kids = append(t.kids, leafOf(k))
			}
			emit(prog{Key: "BUDGET:" + o.Name() + ":struct" + t.name(), Class: "budget-flat-" + o.Name(), Script: treeProgram(t, o)})
		}
		if j < len(full) {
			a := &full[j]
			for _, o := range []sv.Op{sv.EQUAL, sv.NOTEQUAL} {
				e(o, a)
				for i := range full {
					e(o, a, &full[i])
				}
			}
			return
		}
		a := &small[j-len(full)]
		for i := range small {
			for k := range small {
				e(sv.EQUAL, a, &small[i], &small[k])
			}
		}
	}}
}

// budgetEqualUnits: one field of l bytes and u fields that cost one unit each
// (whatever their type): l + u around the budget, the big field first or last.
func budgetEqualUnits() section {
	one := pushI(1)
	max256 := pushB(add(p2(255), -1))
	units := []pairKind{
		{name: "int|int=", x: one, y: one},
		{name: "int(32 bytes)|=", x: max256, y: max256},
		{name: "null|null", x: op(sv.PUSHNULL), y: op(sv.PUSHNULL)},
		{name: "true|true", x: op(sv.PUSHT), y: op(sv.PUSHT)},
		{name: "copy(1)", x: bytesN(1, 0), y: bytesN(1, 0)},
		{name: "same(1)", shared: bytesN(1, 0)},
		{name: "copy(0)", x: bytesN(0, 0), y: bytesN(0, 0)},
		{name: "same-struct[]", shared: op(sv.NEWSTRUCT0)},
		{name: "same-struct[1,2,3]", shared: stOf(one, pushI(2), pushI(3))},
		{name: "copy-struct[]", x: op(sv.NEWSTRUCT0), y: op(sv.NEWSTRUCT0)},
		{name: "same-array[1,2]", shared: packOf(sv.PACK, one, pushI(2))},
		{name: "same-buffer(70000)", shared: zeros(70000, false)},
		{name: "same-map{}", shared: op(sv.NEWMAP)},
		{name: "same-pointer", shared: op(sv.PUSHA, 0, 0, 0, 0)},
	}
	return section{"budget-equal-units", len(units), func(j int, emit func(prog)) {
		u := &units[j]
		for _, l := range []int{65529, 65530, 65531, 65532, 65533, 65534, 65535, 65536, 65537} {
			for _, big := range []pairKind{pkShared(l), pkEqual(l)} {
				big := big
				for n := 0; n <= 6; n++ {
					for _, bigFirst := range []bool{true, false} {
						if n == 0 && !bigFirst {
							continue
						}
						t := &tnode{}
						if bigFirst {
							t.kids = append(t.kids, leafOf(&big))
						}
						for i := 0; i < n; i++ {
							t.kids = append(t.kids, leafOf(u))
						}
						if !bigFirst {
							t.kids = append(t.kids, leafOf(&big))
						}
						emit(prog{Key: fmt.Sprintf("BUDGET:EQUAL:units:struct%s", t.name()), Class: "budget-units", Script: treeProgram(t, sv.EQUAL)})
					}
				}
			}
		}
	}}
}

// repLoop leaves k references to the item on top of the stack (k >= 2), made
// by a counting loop: [x c] OVER SWAP DEC DUP JMPIF.
func repLoop(k int) []byte {
	return cat(pushI(int64(k-1)), op(sv.OVER), op(sv.SWAP), op(sv.DEC), op(sv.DUP), op(sv.JMPIF, 0xfc), op(sv.DROP))
}

// budgetEqualMany: k fields of l bytes.
func budgetEqualMany() section {
	type kl struct{ k, l int }
	cases := []kl{{2, 32768}, {2, 33000}, {3, 21845}, {3, 21846}, {4, 16384}, {4, 16385}, {16, 4096}, {16, 4097}, {64, 1024}, {65, 1024}, {70, 1000}, {65, 1000},
		{255, 257}, {256, 256}, {257, 256}, {1000, 65}, {1000, 66}, {1008, 65}, {1009, 65}, {1020, 64}, {1021, 64}, {1021, 65}}
	// how the first struct is made: [.. ] -> [A]
	type amode struct {
		name string
		gen  func(k, l int) []byte
	}
	amodes := []amode{
		{"A=k x one item(DUP)", func(k, l int) []byte {
			return cat(bytesN(l, 0), rep(byte(sv.DUP), k-1), pushI(int64(k)), op(sv.PACKSTRUCT))
		}},
		{"A=k x one item(loop)", func(k, l int) []byte { return cat(bytesN(l, 0), repLoop(k), pushI(int64(k)), op(sv.PACKSTRUCT)) }},
		{"A=k items", func(k, l int) []byte {
			var c []byte
			for i := 0; i < k; i++ {
				c = append(c, bytesN(l, 0)...)
			}
			return cat(c, pushI(int64(k)), op(sv.PACKSTRUCT))
		}},
	}
	// how the second one is made from the first: [A] -> [A B]
	type bmode struct {
		name string
		gen  func(k, l int) []byte
	}
	bmodes := []bmode{
		{"B=UNPACK,PACKSTRUCT(shares fields)", func(k, l int) []byte { return cat(op(sv.DUP), op(sv.UNPACK), op(sv.PACKSTRUCT)) }},
		{"B=clone by APPEND", func(k, l int) []byte {
			return cat(op(sv.DUP), op(sv.NEWARRAY0), op(sv.TUCK), op(sv.SWAP), op(sv.APPEND), pushI(0), op(sv.PICKITEM))
		}},
		{"B=clone by VALUES", func(k, l int) []byte {
			return cat(op(sv.DUP), pushI(1), op(sv.PACK), op(sv.VALUES), pushI(0), op(sv.PICKITEM))
		}},
		{"B=clone by SETITEM(map)", func(k, l int) []byte {
			return cat(op(sv.DUP), op(sv.NEWMAP), op(sv.TUCK), op(sv.SWAP), pushI(0), op(sv.SWAP), op(sv.SETITEM), pushI(0), op(sv.PICKITEM))
		}},
		{"B=CONVERT(Array),CONVERT(Struct)(shares fields)", func(k, l int) []byte {
			return cat(op(sv.DUP), convertTo(sv.TArray), convertTo(sv.TStruct))
		}},
		{"B=built again", func(k, l int) []byte {
			return cat(bytesN(l, 0), rep(byte(sv.DUP), k-1), pushI(int64(k)), op(sv.PACKSTRUCT))
		}},
		{"B=built again,last field differs", func(k, l int) []byte {
			return cat(bytesN(l, 1), bytesN(l, 0), rep(byte(sv.DUP), k-2), pushI(int64(k)), op(sv.PACKSTRUCT))
		}},
		{"B=built again,first field differs", func(k, l int) []byte {
			return cat(bytesN(l, 0), rep(byte(sv.DUP), k-2), bytesN(l, 1), pushI(int64(k)), op(sv.PACKSTRUCT))
		}},
		{"B=A itself", func(k, l int) []byte { return op(sv.DUP) }},
	}
	return section{"budget-equal-many", len(cases), func(j int, emit func(prog)) {
		c := cases[j]
		for _, am := range amodes {
			for _, bm := range bmodes {
				for _, o := range []sv.Op{sv.EQUAL, sv.NOTEQUAL} {
					code := cat(am.gen(c.k, c.l), bm.gen(c.k, c.l), op(o))
					emit(prog{Key: fmt.Sprintf("BUDGET:%s:%dx%d:%s:%s", o.Name(), c.k, c.l, am.name, bm.name), Class: "budget-many-" + o.Name(), Script: code})
				}
			}
		}
	}}
}

// budgetEqualNested: structs in structs.
func budgetEqualNested(r *vk.Run) section {
	var leaves []pairKind
	for _, l := range []int{1, 32768, 32769, 65535, 65536} {
		leaves = append(leaves, pkShared(l), pkEqual(l))
	}
	leaves = append(leaves, pkDiff(1), pairKind{name: "int|int=", x: pushI(1), y: pushI(1)}, pairKind{name: "int|int!", x: pushI(1), y: pushI(2)})
	nl := len(leaves)
	st := func(same bool, kids ...*tnode) *tnode { return &tnode{kids: kids, same: same} }
	// deep chains made by a loop: S(d) = [S(d-1), bytes(l)] on both sides (the
	// second operand built again, or a clone of the first)
	chain := func(d, l int) []byte {
		// [S c] -> SWAP bytes SWAP 2 PACKSTRUCT SWAP DEC DUP JMPIF
		body := cat(op(sv.SWAP), bytesN(l, 0), op(sv.SWAP), pushI(2), op(sv.PACKSTRUCT), op(sv.SWAP), op(sv.DEC), op(sv.DUP))
		return cat(op(sv.NEWSTRUCT0), pushI(int64(d)), body, op(sv.JMPIF_L, le32(int32(-len(body)))...), op(sv.DROP))
	}
	// single-field chains: depth alone (pairs = depth + 1)
	deep := func(d int) []byte {
		body := cat(op(sv.SWAP), pushI(1), op(sv.PACKSTRUCT), op(sv.SWAP), op(sv.DEC), op(sv.DUP))
		return cat(op(sv.NEWSTRUCT0), pushI(int64(d)), body, op(sv.JMPIF, byte(int8(-len(body)))), op(sv.DROP))
	}
	chains := [][2]int{{2, 32768}, {2, 32769}, {16, 4000}, {16, 4200}, {64, 1000}, {64, 1100}, {500, 1}, {500, 140}}
	deeps := []int{1, 100, 1022}
	if r.Thorough() {
		chains = append(chains, [2]int{300, 200}, [2]int{300, 230}, [2]int{500, 120})
		deeps = append(deeps, 1000, 1021)
	}
	return section{"budget-equal-nested", nl + len(chains) + len(deeps), func(j int, emit func(prog)) {
		e := func(t *tnode) {
			emit(prog{Key: "BUDGET:EQUAL:struct" + t.name(), Class: "budget-nested", Script: treeProgram(t, sv.EQUAL)})
		}
		if j >= nl+len(chains) {
			d := deeps[j-nl-len(chains)]
			emit(prog{Key: fmt.Sprintf("BUDGET:EQUAL:deep(depth=%d)", d), Class: "budget-nested-chain", Script: cat(deep(d), deep(d), op(sv.EQUAL))})
			return
		}
		if j >= nl {
			d, l := chains[j-nl][0], chains[j-nl][1]
			emit(prog{Key: fmt.Sprintf("BUDGET:EQUAL:chain(depth=%d,bytes=%d),built again", d, l), Class: "budget-nested-chain", Script: cat(chain(d, l), chain(d, l), op(sv.EQUAL))})
			emit(prog{Key: fmt.Sprintf("BUDGET:EQUAL:chain(depth=%d,bytes=%d),clone by VALUES", d, l), Class: "budget-nested-chain", Script: cat(chain(d, l), op(sv.DUP), pushI(1), op(sv.PACK), op(sv.VALUES), pushI(0), op(sv.PICKITEM), op(sv.EQUAL))})
			return
		}
		a := leafOf(&leaves[j])
		for i := range leaves {
			b := leafOf(&leaves[i])
			for _, same := range []bool{false, true} {
				e(st(false, a, st(same, b)))
				e(st(false, st(same, a), b))
				e(st(false, st(same, a), st(same, b)))
				e(st(false, st(same, a), st(false, b)))
				e(st(false, st(false, st(same, a)), b))
				e(st(false, st(same, a, b)))
			}
			if !r.Thorough() && i%3 != j%3 {
				continue // quick: a third of the three-leaf trees
			}
			for k := range leaves {
				c := leafOf(&leaves[k])
				e(st(false, a, st(false, b, c)))
				e(st(false, st(false, a, b), c))
				if r.Thorough() {
					e(st(false, st(false, a), b, st(false, c)))
				}
			}
		}
	}}
}

// structTree3: s = k x the SAME u, u = m x the SAME t, t = j zeros: elements
// below s = k*(1 + m*(1 + j)).
func structTree3(k, m, j int) []byte {
	c := cat(rep(byte(sv.PUSH0), j), pushI(int64(j)), op(sv.PACKSTRUCT))
	c = cat(c, rep(byte(sv.DUP), m-1), pushI(int64(m)), op(sv.PACKSTRUCT))
	return cat(c, rep(byte(sv.DUP), k-1), pushI(int64(k)), op(sv.PACKSTRUCT))
}

// budgetCount: the number of pairs a comparison may visit.
func budgetCount() section {
	return section{"budget-count", 1, func(_ int, emit func(prog)) {
		e := func(key string, code ...[]byte) {
			emit(prog{Key: "BUDGET:count:" + key, Class: "budget-count", Script: cat(code...)})
		}
		// two levels: element pairs = k*(m+1)
		for _, km := range [][2]int{{5, 408}, {409, 4}, {66, 30}, {31, 65}, {6, 340}, {341, 5}, {2, 1022}, {89, 22}, {64, 31}, {4, 511}, {512, 3}, {16, 127}, {3, 682}, {683, 2}} {
			k, m := km[0], km[1]
			n := k * (m + 1)
			e(fmt.Sprintf("equal(%d=%dx%d)", n, k, m+1), structOfStructs(k, m), structOfStructs(k, m), op(sv.EQUAL))
			e(fmt.Sprintf("notequal(%d=%dx%d)", n, k, m+1), structOfStructs(k, m), structOfStructs(k, m), op(sv.NOTEQUAL))
			// B shares its nested struct with A: every nested pair is one pair
			e(fmt.Sprintf("equal-shared-nested(%d=%dx%d)", n, k, m+1), structOfStructs(k, m), op(sv.DUP), op(sv.UNPACK), op(sv.PACKSTRUCT), op(sv.EQUAL))
		}
		// elements of other types: every element pair counts, whatever it is
		for _, km := range [][2]int{{66, 30}, {89, 22}, {64, 31}, {683, 2}} {
			k, m := km[0], km[1]
			for _, el := range []val{bval(nil), bval([]byte{0}), {Name: "null", Code: op(sv.PUSHNULL)}, {Name: "true", Code: op(sv.PUSHT)}, {Name: "struct[]", Code: op(sv.NEWSTRUCT0)}, {Name: "array[]", Code: op(sv.NEWARRAY0)}} {
				mk := func() []byte {
					var c []byte
					for i := 0; i < m; i++ {
						c = append(c, el.Code...)
					}
					c = cat(c, pushI(int64(m)), op(sv.PACKSTRUCT), rep(byte(sv.DUP), k-1), pushI(int64(k)), op(sv.PACKSTRUCT))
					return c
				}
				e(fmt.Sprintf("equal(%d=%dx%d of %s)", k*(m+1), k, m+1, el.Name), mk(), mk(), op(sv.EQUAL))
				// B holds the same nested struct k times as well, but a copy of it
				// made by cloning (primitive elements and arrays shared, structs copied)
				e(fmt.Sprintf("equal-nested-cloned(%d=%dx%d of %s)", k*(m+1), k, m+1, el.Name), mk(), op(sv.DUP), pushI(0), op(sv.PICKITEM), pushI(1), op(sv.PACK), op(sv.VALUES), pushI(0), op(sv.PICKITEM),
					rep(byte(sv.DUP), k-1), pushI(int64(k)), op(sv.PACKSTRUCT), op(sv.EQUAL))
			}
		}
		// j of the k nested pairs are the same object (one pair each), the
		// other k-j are copies: pairs = 1 + j + (k-j)*(m+1)
		for _, c := range [][3]int{{33, 61, 0}, {34, 61, 1}, {34, 61, 2}, {35, 61, 2}, {66, 30, 0}, {67, 30, 1}, {68, 30, 2}, {70, 30, 4}, {69, 30, 34}, {24, 88, 1}, {23, 88, 0}, {24, 88, 2}} {
			k, m, j := c[0], c[1], c[2]
			pairs := 1 + j + (k-j)*(m+1)
			t := cat(rep(byte(sv.PUSH0), m), pushI(int64(m)), op(sv.PACKSTRUCT))
			// static field 0 = t (A's and the shared positions), static field 1 = copy of t
			pre := cat(op(sv.INITSSLOT, 2), t, op(sv.STSFLD0), t, op(sv.STSFLD0+1))
			a := cat(rep(byte(sv.LDSFLD0), k), pushI(int64(k)), op(sv.PACKSTRUCT))
			// shared positions first (element 0 is the top at PACKSTRUCT time)
			bFirst := cat(rep(byte(sv.LDSFLD0+1), k-j), rep(byte(sv.LDSFLD0), j), pushI(int64(k)), op(sv.PACKSTRUCT))
			bLast := cat(rep(byte(sv.LDSFLD0), j), rep(byte(sv.LDSFLD0+1), k-j), pushI(int64(k)), op(sv.PACKSTRUCT))
			e(fmt.Sprintf("equal-partly-shared(pairs=%d,k=%d,m=%d,same=%d first)", pairs, k, m, j), pre, a, bFirst, op(sv.EQUAL))
			e(fmt.Sprintf("equal-partly-shared(pairs=%d,k=%d,m=%d,same=%d last)", pairs, k, m, j), pre, a, bLast, op(sv.EQUAL))
		}
		// three levels
		for _, c := range [][3]int{{2, 31, 32}, {2, 33, 30}, {3, 31, 21}, {11, 5, 36}, {11, 6, 30}, {23, 8, 10}, {23, 11, 7}, {16, 127, 0}} {
			k, m, j := c[0], c[1], c[2]
			n := k * (1 + m*(1+j))
			e(fmt.Sprintf("equal-3-levels(%d=%dx(1+%dx%d))", n, k, m, j+1), structTree3(k, m, j), structTree3(k, m, j), op(sv.EQUAL))
		}
	}}
}

// budgetClone: the number of elements a struct clone may copy.
func budgetClone() section {
	return section{"budget-clone", 1, func(_ int, emit func(prog)) {
		type shape struct {
			name string
			n    int
			code []byte
		}
		var shapes []shape
		for _, km := range [][2]int{{5, 408}, {66, 30}, {341, 5}, {2, 1022}, {1023, 1}, {89, 22}, {23, 88}, {64, 31}, {4, 511}, {512, 3}, {2, 1023}, {3, 682}, {683, 2}} {
			k, m := km[0], km[1]
			shapes = append(shapes, shape{fmt.Sprintf("%d=%dx%d", k*(m+1), k, m+1), k * (m + 1), structOfStructs(k, m)})
		}
		for _, c := range [][3]int{{2, 31, 32}, {2, 33, 30}, {3, 31, 21}, {11, 5, 36}, {11, 6, 30}, {23, 8, 10}, {23, 11, 7}, {1, 2, 1022}, {1, 2, 1023}, {2, 1, 1022}} {
			k, m, j := c[0], c[1], c[2]
			n := k * (1 + m*(1+j))
			shapes = append(shapes, shape{fmt.Sprintf("%d=%dx(1+%dx%d)", n, k, m, j+1), n, structTree3(k, m, j)})
		}
		// the paths: code taking [s] on the stack
		paths := []cop{
			{"APPEND(array dropped)", cat(op(sv.NEWARRAY0), op(sv.SWAP), op(sv.APPEND))},
			{"APPEND(array kept)", cat(op(sv.NEWARRAY0), op(sv.TUCK), op(sv.SWAP), op(sv.APPEND))},
			{"APPEND(struct dropped)", cat(op(sv.NEWSTRUCT0), op(sv.SWAP), op(sv.APPEND))},
			{"SETITEM(array dropped)", cat(pushI(1), op(sv.NEWARRAY), pushI(0), op(sv.ROT), op(sv.SETITEM))},
			{"SETITEM(array kept)", cat(pushI(1), op(sv.NEWARRAY), op(sv.TUCK), pushI(0), op(sv.ROT), op(sv.SETITEM))},
			{"SETITEM(map dropped)", cat(op(sv.NEWMAP), pushI(0), op(sv.ROT), op(sv.SETITEM))},
			{"SETITEM(map kept)", cat(op(sv.NEWMAP), op(sv.TUCK), pushI(0), op(sv.ROT), op(sv.SETITEM))},
			{"SETITEM(out of range: catchable index error or clone error first?)", inTry(cat(op(sv.NEWARRAY0), pushI(0), op(sv.ROT), op(sv.SETITEM)))},
			{"VALUES(array),DROP", cat(pushI(1), op(sv.PACK), op(sv.VALUES), op(sv.DROP))},
			{"VALUES(struct),DROP", cat(pushI(1), op(sv.PACKSTRUCT), op(sv.VALUES), op(sv.DROP))},
			{"VALUES(map),DROP", cat(pushI(0), pushI(1), op(sv.PACKMAP), op(sv.VALUES), op(sv.DROP))},
			{"VALUES(array)", cat(pushI(1), op(sv.PACK), op(sv.VALUES))},
			{"VALUES(itself)", op(sv.VALUES)}, // clones each nested struct on its own
			{"APPEND in try", inTry(cat(op(sv.NEWARRAY0), op(sv.SWAP), op(sv.APPEND)))},
			// not cloning
			{"PACK,UNPACK(no clone)", cat(pushI(1), op(sv.PACK), op(sv.UNPACK), op(sv.DROP), op(sv.SIZE))},
			{"UNPACK,PACKSTRUCT(no clone)", cat(op(sv.UNPACK), op(sv.PACKSTRUCT), op(sv.SIZE))},
			{"CONVERT(Array)(no clone)", cat(convertTo(sv.TArray), op(sv.SIZE))},
			{"PACKMAP,PICKITEM(no clone)", cat(pushI(0), pushI(1), op(sv.PACKMAP), pushI(0), op(sv.PICKITEM), op(sv.SIZE))},
			{"STSFLD,LDSFLD(no clone)", cat(op(sv.INITSSLOT, 1), op(sv.STSFLD0), op(sv.LDSFLD0), op(sv.SIZE))},
			{"INITSLOT-arg(no clone)", cat(op(sv.INITSLOT, 0, 1), op(sv.LDARG0), op(sv.SIZE))},
		}
		for _, s := range shapes {
			for _, p := range paths {
				emit(prog{Key: "BUDGET:clone:" + s.name + ":" + p.Name, Class: "budget-clone-" + strings.SplitN(p.Name, "(", 2)[0], Script: cat(s.code, p.Code)})
			}
		}
	}}
}

// budgetMapKey: MaxKeySize.
func budgetMapKey() section {
	key64 := bytesN(64, 0)
	conts := []val{
		{Name: "map{}", Code: op(sv.NEWMAP)},
		{Name: "map{bytes(64):5}", Code: cat(pushI(5), key64, pushI(1), op(sv.PACKMAP))},
		{Name: "map{bytes(64,last=1):5,bytes(63):6,0:7}", Code: cat(pushI(7), pushI(0), pushI(6), bytesN(63, 0), pushI(5), bytesN(64, 1), pushI(3), op(sv.PACKMAP))},
		{Name: "array[5,6]", Code: packOf(sv.PACK, pushI(5), pushI(6))},
		{Name: "struct[5]", Code: stOf(pushI(5))},
		{Name: "buffer(3)", Code: zeros(3, false)},
		{Name: "bytes(3)", Code: zeros(3, true)},
	}
	var keys []val
	for _, l := range []int{0, 1, 31, 32, 33, 63, 64, 65, 66, 255, 65536} {
		keys = append(keys, val{Name: fmt.Sprintf("bytes(%d)", l), Code: bytesN(l, 0)})
		if l > 0 {
			keys = append(keys, val{Name: fmt.Sprintf("bytes(%d,last=1)", l), Code: bytesN(l, 1)})
		}
	}
	keys = append(keys, ival(bi(0)), ival(bi(1)), ival(add(p2(255), -1)), ival(neg(p2(255))), val{Name: "true", Code: op(sv.PUSHT)},
		val{Name: "buffer(1)", Code: zeros(1, false)}, val{Name: "buffer(65)", Code: zeros(65, false)}, val{Name: "null", Code: op(sv.PUSHNULL)},
		val{Name: "array[]", Code: op(sv.NEWARRAY0)}, val{Name: "struct[]", Code: op(sv.NEWSTRUCT0)}, val{Name: "map{}", Code: op(sv.NEWMAP)}, val{Name: "pointer", Code: op(sv.PUSHA, 0, 0, 0, 0)},
		// a 64/65-byte key made by CAT (a Buffer) and converted
		val{Name: "CAT(bytes(32),bytes(32))->bytes", Code: cat(bytesN(32, 0), bytesN(32, 0), op(sv.CAT), convertTo(sv.TByteString))},
		val{Name: "CAT(bytes(32),bytes(33))->bytes", Code: cat(bytesN(32, 0), bytesN(33, 0), op(sv.CAT), convertTo(sv.TByteString))},
		val{Name: "CAT(bytes(32),bytes(32))", Code: cat(bytesN(32, 0), bytesN(32, 0), op(sv.CAT))})
	type kop struct {
		name string
		gen  func(c, k []byte) []byte
	}
	ops := []kop{
		{"SETITEM", func(c, k []byte) []byte { return cat(c, op(sv.DUP), k, pushI(9), op(sv.SETITEM)) }},
		{"SETITEM,SETITEM(same key again)", func(c, k []byte) []byte {
			return cat(c, op(sv.DUP), k, pushI(9), op(sv.SETITEM), op(sv.DUP), k, pushI(8), op(sv.SETITEM))
		}},
		{"HASKEY", func(c, k []byte) []byte { return cat(c, k, op(sv.HASKEY)) }},
		{"PICKITEM", func(c, k []byte) []byte { return cat(c, k, op(sv.PICKITEM)) }},
		{"REMOVE", func(c, k []byte) []byte { return cat(c, op(sv.DUP), k, op(sv.REMOVE)) }},
		{"SETITEM,HASKEY,KEYS", func(c, k []byte) []byte {
			return cat(c, op(sv.DUP), k, pushI(9), op(sv.SETITEM), op(sv.DUP), k, op(sv.HASKEY), op(sv.SWAP), op(sv.KEYS))
		}},
	}
	return section{"budget-mapkey", len(keys), func(j int, emit func(prog)) {
		k := keys[j]
		for _, c := range conts {
			for _, o := range ops {
				code := o.gen(c.Code, k.Code)
				emit(prog{Key: "BUDGET:key:" + o.name + ":" + c.Name + "," + k.Name, Class: "budget-key-" + o.name, Script: code})
				emit(prog{Key: "BUDGET:key:" + o.name + ":" + c.Name + "," + k.Name + ",in-try", Class: "budget-key-" + o.name, Script: inTry(code)})
			}
		}
		emit(prog{Key: "BUDGET:key:PACKMAP:" + k.Name, Class: "budget-key-PACKMAP", Script: cat(pushI(9), k.Code, pushI(1), op(sv.PACKMAP))})
		emit(prog{Key: "BUDGET:key:PACKMAP:" + k.Name + ",in-try", Class: "budget-key-PACKMAP", Script: inTry(cat(pushI(9), k.Code, pushI(1), op(sv.PACKMAP)))})
		emit(prog{Key: "BUDGET:key:PACKMAP(twice):" + k.Name, Class: "budget-key-PACKMAP", Script: cat(pushI(9), k.Code, pushI(8), k.Code, pushI(2), op(sv.PACKMAP))})
		emit(prog{Key: "BUDGET:key:PACKMAP(second of two):" + k.Name, Class: "budget-key-PACKMAP", Script: cat(pushI(9), k.Code, pushI(8), pushI(1), pushI(2), op(sv.PACKMAP))})
	}}
}

// budgetItemSize: MaxItemSize reached inside the script.
func budgetItemSize() section {
	return section{"budget-itemsize", 1, func(_ int, emit func(prog)) {
		e := func(key string, code ...[]byte) {
			emit(prog{Key: "BUDGET:size:" + key, Class: "budget-size", Script: cat(code...)})
		}
		const max = sv.MaxItemSize
		// doubling loop: x = seed; while SIZE(x) < bound { x = x CAT x }
		double := func(seed []byte, bound int) []byte {
			body := cat(op(sv.DUP), op(sv.CAT), op(sv.DUP), op(sv.SIZE), pushI(int64(bound)))
			return cat(seed, body, op(sv.JMPLT_L, le32(int32(-len(body)))...))
		}
		for _, seed := range []val{bval([]byte{7}), bval([]byte{7, 8, 9}), {Name: "buffer(0505)", Code: pushBuf([]byte{5, 5})}, ival(bi(1)), {Name: "true", Code: op(sv.PUSHT)}, ival(bi(0x0102))} {
			for _, bound := range []int{65536, max / 2, max/2 + 1, max, max + 1} {
				e(fmt.Sprintf("double(%s,until>=%d),SIZE", seed.Name, bound), double(seed.Code, bound), op(sv.SIZE))
			}
		}
		// append one byte per iteration up to the limit and one more: 65535
		// doubling first, then exact steps
		for _, extra := range []int{max - 65536 - 1, max - 65536, max - 65536 + 1} {
			e(fmt.Sprintf("CAT(65536,%d)", extra), double(pushD([]byte{1}), 65536), bytesN(extra, 0), op(sv.CAT), op(sv.SIZE))
			e(fmt.Sprintf("CAT(%d,65536)", extra), bytesN(extra, 0), double(pushD([]byte{1}), 65536), op(sv.CAT), op(sv.SIZE))
		}
		for _, n := range []int{max - 1, max, max + 1} {
			e(fmt.Sprintf("NEWBUFFER(%d),CAT(empty)", n), zeros(n, false), pushD(nil), op(sv.CAT), op(sv.SIZE))
			e(fmt.Sprintf("NEWBUFFER(%d),CAT(PUSH0)", n), zeros(n, false), pushI(0), op(sv.CAT), op(sv.SIZE)) // Integer 0 has an empty span
			e(fmt.Sprintf("NEWBUFFER(%d),CAT(PUSH1)", n), zeros(n, false), pushI(1), op(sv.CAT), op(sv.SIZE))
			e(fmt.Sprintf("NEWBUFFER(%d),CAT(PUSHF)", n), zeros(n, false), op(sv.PUSHF), op(sv.CAT), op(sv.SIZE)) // Boolean has a one-byte span
			e(fmt.Sprintf("NEWBUFFER(%d),CAT(256)", n), zeros(n, false), pushI(256), op(sv.CAT), op(sv.SIZE))
			e(fmt.Sprintf("NEWBUFFER(%d),CONVERT(ByteString),CONVERT(Buffer),SIZE", n), zeros(n, true), convertTo(sv.TBuffer), op(sv.SIZE))
			e(fmt.Sprintf("NEWBUFFER(%d),whole SUBSTR/LEFT/RIGHT", n), zeros(n, false), op(sv.DUP), pushI(0), pushI(int64(n)), op(sv.SUBSTR), op(sv.SIZE),
				op(sv.OVER), pushI(int64(n)), op(sv.LEFT), op(sv.SIZE), op(sv.ROT), pushI(int64(n)), op(sv.RIGHT), op(sv.SIZE))
			e(fmt.Sprintf("NEWBUFFER(%d),MEMCPY(whole)", n), zeros(n, false), op(sv.DUP), pushI(0), zeros(n, true), pushI(0), pushI(int64(n)), op(sv.MEMCPY), op(sv.SIZE))
			e(fmt.Sprintf("NEWBUFFER(%d),last SETITEM,PICKITEM,HASKEY", n), zeros(n, false), op(sv.DUP), pushI(int64(n-1)), pushI(255), op(sv.SETITEM), op(sv.DUP), pushI(int64(n-1)), op(sv.PICKITEM), op(sv.SWAP), pushI(int64(n-1)), op(sv.HASKEY))
			e(fmt.Sprintf("NEWBUFFER(%d),REVERSEITEMS", n), zeros(n, false), op(sv.DUP), pushI(0), pushI(1), op(sv.SETITEM), op(sv.DUP), op(sv.REVERSEITEMS), pushI(int64(n-1)), op(sv.PICKITEM))
		}
		// CAT of three: budget is per instruction, not per chain
		e("CAT(65535,65535),CAT(1)", zeros(65535, true), op(sv.DUP), op(sv.CAT), pushD([]byte{1}), op(sv.CAT))
		e("CAT(65535,CAT(65535,1))", zeros(65535, true), op(sv.DUP), pushD([]byte{1}), op(sv.CAT), op(sv.CAT))
		e("CAT(65535,65535),CAT(empty),SIZE", zeros(65535, true), op(sv.DUP), op(sv.CAT), pushD(nil), op(sv.CAT), op(sv.SIZE))
	}}
}

// budgetFacts: reference facts about the shared budgets the model alone has to
// reproduce at start-up (sources: the reference rules quoted in
// lib/specvm/ext_budget.go); only facts outside the bands the model leaves
// undetermined.
func budgetFacts() []fact {
	two := func(l int) []byte { // [A B]: two structs holding the SAME two l-byte strings
		return cat(op(sv.INITSSLOT, 2), bytesN(l, 0), op(sv.STSFLD0), bytesN(l, 0), op(sv.STSFLD0+1),
			op(sv.LDSFLD0+1), op(sv.LDSFLD0), pushI(2), op(sv.PACKSTRUCT), op(sv.LDSFLD0+1), op(sv.LDSFLD0), pushI(2), op(sv.PACKSTRUCT))
	}
	const charge = "NeoVM ByteString.Equals(other, ref limits): limits -= comparedSize in the finally block, also after ReferenceEquals"
	return []fact{
		{"structs sharing 2x33000 bytes", cat(two(33000), op(sv.EQUAL)), "FAULT", charge},
		{"structs sharing 2x32000 bytes", cat(two(32000), op(sv.EQUAL)), "true", charge},
		{"struct of 2x33000 bytes equal itself", cat(bytesN(33000, 0), bytesN(33000, 0), pushI(2), op(sv.PACKSTRUCT), op(sv.DUP), op(sv.EQUAL)), "true", "NeoVM Struct.Equals: ReferenceEquals(a, b) => continue"},
		{"bytes(1) equal bytes(65537)", cat(bytesN(1, 0), bytesN(65537, 0), op(sv.EQUAL)), "FAULT", "NeoVM ByteString.Equals: b.Size > limits"},
		{"1 equal bytes(65537)", cat(pI(1), bytesN(65537, 0), op(sv.EQUAL)), "false", "NeoVM Integer.Equals: no size limit"},
		{"bytes(65536) equal itself", cat(bytesN(65536, 0), op(sv.DUP), op(sv.EQUAL)), "true", "NeoVM ByteString.Equals: ReferenceEquals"},
		{"bytes(65537) equal itself", cat(bytesN(65537, 0), op(sv.DUP), op(sv.EQUAL)), "FAULT", "NeoVM ByteString.Equals: Size > limits is checked first"},
		{"struct[bytes(65535),1,1,1] equal copy", cat(stOf(bytesN(65535, 0), pI(1), pI(1), pI(1)), stOf(bytesN(65535, 0), pI(1), pI(1), pI(1)), op(sv.EQUAL)), "FAULT", "NeoVM Struct.Equals: every other pair costs maxComparableSize -= 1"},
		{"struct[bytes(65000),1,1,1] equal copy", cat(stOf(bytesN(65000, 0), pI(1), pI(1), pI(1)), stOf(bytesN(65000, 0), pI(1), pI(1), pI(1)), op(sv.EQUAL)), "true", "NeoVM Struct.Equals"},
		{"clone of 2047 elements", cat(op(sv.NEWARRAY0), structOfStructs(23, 88), op(sv.APPEND), op(sv.DEPTH)), "i0", "NeoVM Struct.Clone: count = MaxStackSize - 1"},
		{"clone of 2048 elements", cat(op(sv.NEWARRAY0), structOfStructs(32, 63), op(sv.APPEND), op(sv.DEPTH)), "FAULT", "NeoVM Struct.Clone: Beyond clone limits"},
		{"compare 1+2046 pairs", cat(structOfStructs(33, 61), structOfStructs(33, 61), op(sv.EQUAL)), "true", "NeoVM Struct.Equals: count = MaxStackSize"},
		{"compare 1+2048 pairs", cat(structOfStructs(32, 63), structOfStructs(32, 63), op(sv.EQUAL)), "FAULT", "NeoVM Struct.Equals: Too many struct items to compare"},
		{"map key of 64 bytes", cat(op(sv.NEWMAP), bytesN(64, 0), op(sv.HASKEY)), "false", "NeoVM Map.MaxKeySize = 64"},
		{"map key of 65 bytes", cat(op(sv.NEWMAP), bytesN(65, 0), op(sv.HASKEY)), "FAULT", "NeoVM Map.ContainsKey: key.Size > MaxKeySize"},
	}
}
