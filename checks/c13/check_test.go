// C13: VM instructions compute what the NeoVM specification says.
//
// An independent executable specification (verif/lib/specvm) is compared with
// pkg/vm over exhaustively enumerated programs (DESIGN.md section 4, C13):
// every opcode over a boundary value set (1, 2 and 3 operands), every
// CONVERT/ISTYPE pair, all short instruction sequences over an alphabet, all
// TRY/CATCH/FINALLY/CALL nests to depth 2 with a throw at each position,
// compound-type programs with aliasing, and programs at the limits
// (MaxStackSize, MaxItemSize, nesting depths), and hand-laid-out control flow
// at the byte level (layout_test.go: every transfer instruction with every
// target position from before the script to past its end, handler blocks in
// every order, all short sequences of exception-handling instructions).
// Before that the model alone has to reproduce a table of hand-curated
// reference facts.
package c13

import (
	"encoding/hex"
	"encoding/json"
	"errors"
	"fmt"
	"hash/fnv"
	"math/big"
	"os"
	"path/filepath"
	"runtime/pprof"
	"sort"
	"strings"
	"sync"
	"sync/atomic"
	"testing"
	"time"

	"github.com/nspcc-dev/neo-go/pkg/config"
	"github.com/nspcc-dev/neo-go/pkg/core/fee"
	"github.com/nspcc-dev/neo-go/pkg/crypto/hash"
	"github.com/nspcc-dev/neo-go/pkg/smartcontract/callflag"
	"github.com/nspcc-dev/neo-go/pkg/util"
	"github.com/nspcc-dev/neo-go/pkg/vm"
	"github.com/nspcc-dev/neo-go/pkg/vm/opcode"
	"github.com/nspcc-dev/neo-go/pkg/vm/stackitem"

	sv "verif/lib/specvm"
	"verif/lib/vk"
)

// ---- running the implementation ------------------------------------------------

type implRes struct {
	State string // HALT | FAULT | other
	Stack []stackitem.Item
	Canon string
	Gas   int64
	Err   string
	Steps int
	Panic string
	// ScriptChanged: the loaded script bytes were modified by the execution.
	ScriptChanged bool
}

const implGasLimit = 100_0000_0000 // 100 GAS in datoshi: a guard against endless loops, never reached by our programs

func runImpl(p prog) implRes { return runImplOpt(p, true) }

// runSpec runs the model on a program.
func runSpec(p prog) *sv.VM {
	var m *sv.VM
	if p.Extra != nil {
		m = sv.NewHost(p.Script, p.Extra, p.RV)
	} else {
		m = sv.New(p.Script)
	}
	m.PreGorgon = p.PreGorgon
	limit := specStepLimit
	if p.Steps > 0 {
		limit = p.Steps
	}
	m.Run(limit)
	return m
}

// runImplOpt: countSteps installs the per-instruction hook (first run only).
func runImplOpt(p prog, countSteps bool) (res implRes) {
	script := p.Script
	defer func() {
		if r := recover(); r != nil {
			res.State = "PANIC"
			res.Panic = fmt.Sprint(r)
		}
	}()
	// The VM gets a private copy: a ByteString pushed by PUSHDATA may share
	// memory with the loaded script, and an implementation that lets a script
	// write through it must not corrupt the program of the next run (or the
	// recorded one). A changed copy is reported.
	orig := script
	script = append([]byte{}, script...)
	defer func() {
		if string(orig) != string(script) {
			res.ScriptChanged = true
		}
	}()
	v := vm.New()
	v.SetPriceGetter(func(op opcode.Opcode, _ []byte) int64 { return fee.Opcode(30*vm.ExecFeeFactorMultiplier, op) })
	v.SetGasLimit(implGasLimit)
	steps := 0
	if countSteps {
		v.SetOnExecHook(func(util.Uint160, int, opcode.Opcode) { steps++ })
	}
	if p.PreGorgon {
		v.SetIsHardforkEnabled(func(config.Hardfork) bool { return false })
	}
	if p.Extra != nil {
		// The miniature host (see specvm, SYSCALL): service id pops one item,
		// loads script id as a new context (own evaluation stack, return value
		// count RV) and hands it the item.
		all := append([][]byte{script}, p.Extra...)
		rv := append([]int{-1}, p.RV...)
		v.SyscallHandler = func(v *vm.VM, id uint32) error {
			if int(id) >= len(all) {
				return errors.New("unknown service")
			}
			arg := v.Estack().Pop().Item()
			code := append([]byte{}, all[id]...)
			if rv[id] == 1 {
				v.LoadScriptWithHash(code, hash.Hash160(code), callflag.All)
			} else {
				// With return count -1 the implementation gives the new
				// context its own evaluation stack only if the caller's is
				// not empty (otherwise both share one, and what an unwound
				// callee left behind stays visible to the caller - a property
				// of this loading API, reported separately). The host under
				// test always means "own stack": keep a placeholder on the
				// caller's stack while loading.
				v.Estack().PushItem(stackitem.Null{})
				v.LoadScriptWithFlags(code, callflag.All)
				is := v.Istack()
				is[len(is)-2].Estack().Pop()
			}
			v.Estack().PushItem(arg)
			return nil
		}
	}
	v.LoadScript(script)
	err := v.Run()
	res.Steps = steps
	res.Gas = v.GasConsumed()
	if err != nil {
		res.Err = err.Error()
	}
	switch {
	case v.HasHalted():
		res.State = "HALT"
		res.Stack = v.Estack().ToArray()
		res.Canon = canonImpl(res.Stack)
	case v.HasFailed():
		res.State = "FAULT"
	default:
		res.State = v.State().String()
	}
	return res
}

// canonImpl renders an implementation stack in the format of specvm.Canon.
func canonImpl(items []stackitem.Item) string {
	ids := map[stackitem.Item]int{}
	var b strings.Builder
	var w func(it stackitem.Item)
	ref := func(it stackitem.Item) (int, bool) {
		if id, ok := ids[it]; ok {
			fmt.Fprintf(&b, "@%d", id)
			return id, true
		}
		id := len(ids) + 1
		ids[it] = id
		return id, false
	}
	w = func(it stackitem.Item) {
		switch t := it.(type) {
		case stackitem.Null:
			b.WriteString("null")
		case stackitem.Bool:
			if bool(t) {
				b.WriteString("true")
			} else {
				b.WriteString("false")
			}
		case *stackitem.BigInteger:
			b.WriteString("i" + t.Big().String())
		case *stackitem.ByteArray:
			b.WriteString("s" + hexAbbrev([]byte(*t)))
		case *stackitem.Pointer:
			fmt.Fprintf(&b, "p%d", t.Position())
		case *stackitem.Buffer:
			if id, seen := ref(it); !seen {
				fmt.Fprintf(&b, "B%d(%s)", id, hexAbbrev([]byte(*t)))
			}
		case *stackitem.Array, *stackitem.Struct:
			if id, seen := ref(it); !seen {
				if _, ok := it.(*stackitem.Array); ok {
					fmt.Fprintf(&b, "A%d[", id)
				} else {
					fmt.Fprintf(&b, "S%d[", id)
				}
				for i, e := range it.Value().([]stackitem.Item) {
					if i > 0 {
						b.WriteByte(',')
					}
					w(e)
				}
				b.WriteByte(']')
			}
		case *stackitem.Map:
			if id, seen := ref(it); !seen {
				fmt.Fprintf(&b, "M%d{", id)
				for i, e := range t.Value().([]stackitem.MapElement) {
					if i > 0 {
						b.WriteByte(',')
					}
					w(e.Key)
					b.WriteByte(':')
					w(e.Value)
				}
				b.WriteByte('}')
			}
		default:
			fmt.Fprintf(&b, "?%T", it)
		}
	}
	for i, it := range items {
		if i > 0 {
			b.WriteByte(' ')
		}
		w(it)
	}
	return b.String()
}

func hexAbbrev(d []byte) string {
	if len(d) <= 40 {
		return hex.EncodeToString(d)
	}
	h := fnv.New64a()
	h.Write(d)
	return fmt.Sprintf("#%d:%016x", len(d), h.Sum64())
}

// sameStacks is the deep typed comparison of the model's result stack with the
// implementation's, including the sharing structure: reference-type objects
// (Buffer, Array, Struct, Map) must correspond one to one. It returns "" or
// the first difference.
// scriptHashes: hashes of the scripts of a program, indexed like specvm's
// Item.Sid (0 = entry script).
func scriptHashes(p prog) []util.Uint160 {
	h := []util.Uint160{hash.Hash160(p.Script)}
	for _, e := range p.Extra {
		h = append(h, hash.Hash160(e))
	}
	return h
}

func sameStacks(sp []*sv.Item, im []stackitem.Item, hashes []util.Uint160) string {
	if len(sp) != len(im) {
		return fmt.Sprintf("stack depth: spec %d, impl %d", len(sp), len(im))
	}
	sid := map[*sv.Item]int{}
	iid := map[stackitem.Item]int{}
	var rec func(a *sv.Item, b stackitem.Item, path string) string
	shared := func(a *sv.Item, b stackitem.Item, path string) (done bool, diff string) {
		x, okx := sid[a]
		y, oky := iid[b]
		if okx != oky || (okx && x != y) {
			return true, fmt.Sprintf("%s: sharing differs (spec object #%d seen=%v, impl object #%d seen=%v)", path, x, okx, y, oky)
		}
		if okx {
			return true, ""
		}
		sid[a] = len(sid) + 1
		iid[b] = len(iid) + 1
		return false, ""
	}
	rec = func(a *sv.Item, b stackitem.Item, path string) string {
		mismatch := func() string {
			return fmt.Sprintf("%s: spec %s, impl %s", path, sv.Canon([]*sv.Item{a}), canonImpl([]stackitem.Item{b}))
		}
		switch a.T {
		case sv.TAny:
			if _, ok := b.(stackitem.Null); !ok {
				return mismatch()
			}
		case sv.TBoolean:
			if t, ok := b.(stackitem.Bool); !ok || bool(t) != a.Bool {
				return mismatch()
			}
		case sv.TInteger:
			if t, ok := b.(*stackitem.BigInteger); !ok || t.Big().Cmp(a.Int) != 0 {
				return mismatch()
			}
		case sv.TByteString:
			t, ok := b.(*stackitem.ByteArray)
			if !ok {
				return mismatch()
			}
			if !a.EngineMsg && string(a.Data) != string([]byte(*t)) {
				return mismatch()
			}
		case sv.TPointer:
			if t, ok := b.(*stackitem.Pointer); !ok || t.Position() != a.Pos || a.Sid >= len(hashes) || t.ScriptHash() != hashes[a.Sid] {
				return mismatch()
			}
		case sv.TBuffer:
			t, ok := b.(*stackitem.Buffer)
			if !ok {
				return mismatch()
			}
			if done, d := shared(a, b, path); done {
				return d
			}
			if string(a.Data) != string([]byte(*t)) {
				return mismatch()
			}
		case sv.TArray, sv.TStruct:
			switch b.(type) {
			case *stackitem.Array:
				if a.T != sv.TArray {
					return mismatch()
				}
			case *stackitem.Struct:
				if a.T != sv.TStruct {
					return mismatch()
				}
			default:
				return mismatch()
			}
			if done, d := shared(a, b, path); done {
				return d
			}
			el := b.Value().([]stackitem.Item)
			if len(el) != len(a.Elems) {
				return fmt.Sprintf("%s: length spec %d, impl %d", path, len(a.Elems), len(el))
			}
			for i := range el {
				if d := rec(a.Elems[i], el[i], fmt.Sprintf("%s[%d]", path, i)); d != "" {
					return d
				}
			}
		case sv.TMap:
			t, ok := b.(*stackitem.Map)
			if !ok {
				return mismatch()
			}
			if done, d := shared(a, b, path); done {
				return d
			}
			el := t.Value().([]stackitem.MapElement)
			if len(el) != len(a.Keys) {
				return fmt.Sprintf("%s: map size spec %d, impl %d", path, len(a.Keys), len(el))
			}
			for i := range el {
				if d := rec(a.Keys[i], el[i].Key, fmt.Sprintf("%s.key%d", path, i)); d != "" {
					return d
				}
				if d := rec(a.Vals[i], el[i].Value, fmt.Sprintf("%s.val%d", path, i)); d != "" {
					return d
				}
			}
		default:
			return mismatch()
		}
		return ""
	}
	for i := range sp {
		if d := rec(sp[i], im[i], fmt.Sprintf("stack[%d]", i)); d != "" {
			return d
		}
	}
	return ""
}

// ---- one program ------------------------------------------------------------------

// prog is one enumerated program.
type prog struct {
	Section string // which enumeration produced it
	Key     string // stable, "<opcode>:<operands>"
	Class   string // opcode (or shape) used for outcome classes
	Script  []byte
	// Extra/RV: scripts the miniature SYSCALL host can load (service ids
	// 1..n) and their return value counts (-1 or 1).
	Extra [][]byte
	RV    []int
	// PreGorgon: run both sides with all hardforks disabled.
	PreGorgon bool
	// Steps: the model's step limit for this program (0: specStepLimit).
	Steps int
}

// caseRec is what is written to samples and replay files.
type caseRec struct {
	Section   string   `json:"section"`
	Key       string   `json:"key"`
	Script    string   `json:"script_hex"`
	Extra     []string `json:"host_scripts_hex,omitempty"`
	RV        []int    `json:"host_return_counts,omitempty"`
	PreGorgon bool     `json:"pre_gorgon,omitempty"`
	Steps     int      `json:"spec_step_limit,omitempty"`
	Disasm    string   `json:"disasm,omitempty"`
	Oracle    string   `json:"oracle,omitempty"`
	Diff      string   `json:"difference,omitempty"`
	SpecState string   `json:"spec_state"`
	SpecStack string   `json:"spec_stack,omitempty"`
	SpecFault string   `json:"spec_fault,omitempty"`
	SpecUndet string   `json:"spec_undetermined,omitempty"`
	ImplState string   `json:"impl_state"`
	ImplStack string   `json:"impl_stack,omitempty"`
	ImplErr   string   `json:"impl_error,omitempty"`
	ImplGas   int64    `json:"impl_gas"`
	// Reuse: the case is a history on one VM object (reuse_test.go).
	Reuse *reuseRec `json:"reuse,omitempty"`
}

const specStepLimit = 20_000

var dumpPrefix = os.Getenv("VERIF_C13_DUMP")

type stats struct {
	r           *vk.Run
	programs    atomic.Int64 // run on both sides and compared
	implRuns    atomic.Int64
	transitions atomic.Int64 // instructions executed by the implementation
	specSteps   atomic.Int64
	halts       atomic.Int64
	faults      atomic.Int64
	thrown      atomic.Int64
	undetMu     sync.Mutex
	undet       map[string]int64
	bySection   map[string]int64
	stacks      *hashSet
	classes     *hashSet
	nsample     atomic.Int64
	samples     []any
}

func isPow10(n int64) bool {
	for n >= 10 && n%10 == 0 {
		n /= 10
	}
	return n == 1
}

func (s *stats) addSample(v any) {
	s.undetMu.Lock()
	if len(s.samples) < 12 {
		s.samples = append(s.samples, v)
	}
	s.undetMu.Unlock()
}

func newStats(r *vk.Run) *stats {
	return &stats{r: r, undet: map[string]int64{}, bySection: map[string]int64{}, stacks: newHashSet(), classes: newHashSet()}
}

func (s *stats) noteUndet(why string) {
	s.undetMu.Lock()
	s.undet[why]++
	s.undetMu.Unlock()
}

func (s *stats) noteSection(sec string, n int64) {
	s.undetMu.Lock()
	s.bySection[sec] += n
	s.undetMu.Unlock()
}

func record(p prog, m *sv.VM, a implRes) caseRec {
	c := caseRec{Section: p.Section, Key: p.Key, Script: hex.EncodeToString(p.Script), Disasm: disasm(p.Script),
		SpecState: m.State.String(), SpecFault: m.FaultMsg, SpecUndet: m.Undet,
		ImplState: a.State, ImplErr: a.Err, ImplGas: a.Gas}
	for _, e := range p.Extra {
		c.Extra = append(c.Extra, hex.EncodeToString(e))
	}
	c.RV, c.PreGorgon, c.Steps = p.RV, p.PreGorgon, p.Steps
	if len(c.Script) > 40000 {
		c.Script = c.Script[:40000] + "...(truncated; regenerate from key)"
	}
	if m.State == sv.HALT {
		c.SpecStack = clip(sv.Canon(m.Result))
	}
	if a.State == "HALT" {
		c.ImplStack = clip(a.Canon)
	}
	if a.Panic != "" {
		c.ImplErr = "panic: " + a.Panic
	}
	return c
}

func clip(s string) string {
	if len(s) > 2000 {
		return s[:2000] + "..."
	}
	return s
}

// check runs one program on the model and twice on the implementation and
// evaluates the oracle. It returns false if a violation was reported.
func (s *stats) check(p prog) bool {
	m := runSpec(p)
	s.specSteps.Add(int64(m.Steps))
	if m.Undet == "step-limit" {
		// The model does not decide termination; the program is not run.
		s.noteUndet("step-limit(not run)")
		s.noteFamilyUndet(p, "step-limit(not run)")
		return true
	}
	a := runImpl(p)
	b := runImplOpt(p, false)
	b.Steps = a.Steps
	if dumpPrefix != "" && strings.HasPrefix(p.Key, dumpPrefix) { // development aid
		fmt.Printf("DUMP %s | spec %s %s undet=%q | impl %s %s %s\n", p.Key, m.State, clip(sv.Canon(m.Result)), m.Undet, a.State, clip(a.Canon), a.Err)
	}
	s.implRuns.Add(2)
	s.transitions.Add(int64(a.Steps))
	ok := true
	viol := func(oracle, diff string) {
		c := record(p, m, a)
		c.Oracle, c.Diff = oracle, diff
		s.r.Violation(p.Key, c)
		ok = false
	}
	// Determinism of the implementation: state, stack (with sharing), gas.
	if a.State != b.State || a.Canon != b.Canon || a.Gas != b.Gas || a.Steps != b.Steps {
		viol("determinism", fmt.Sprintf("run1: %s [%s] gas=%d steps=%d; run2: %s [%s] gas=%d steps=%d",
			a.State, clip(a.Canon), a.Gas, a.Steps, b.State, clip(b.Canon), b.Gas, b.Steps))
		return false
	}
	if a.ScriptChanged || b.ScriptChanged {
		viol("script-modified", "the execution wrote into the bytes of the loaded script (a ByteString is immutable)")
		return false
	}
	if a.State == "PANIC" {
		viol("panic", a.Panic)
		return false
	}
	if m.Undet != "" {
		s.noteUndet(m.Undet)
		s.noteFamilyUndet(p, m.Undet)
		// Not part of the oracle: how often the model's reading of the
		// reference would have differed from the implementation there.
		if m.State.String() != a.State || (m.State == sv.HALT && sameStacks(m.Result, a.Stack, scriptHashes(p)) != "") {
			s.noteSection("undet-differs:"+m.Undet, 1)
		}
		return true
	}
	s.programs.Add(1)
	class := p.Class + "->" + m.State.String()
	if m.Thrown > 0 {
		class += "+throw"
	}
	if s.classes.add(p.Section + "/" + class) {
		s.r.Outcome(class)
	}
	if m.State.String() != a.State {
		if m.CycleMade && m.State == sv.HALT && a.State == "FAULT" && strings.Contains(a.Err, "stack is too big") {
			// Unreachable cyclic garbage is collected by the reference (and so
			// not counted by the model); whether the item limit may count it
			// is not settled by any rule we can cite.
			s.programs.Add(-1)
			s.noteUndet("cyclic-garbage-at-MaxStackSize")
			return true
		}
		if m.UnwoundLeft > 0 && m.State == sv.HALT && a.State == "FAULT" && strings.Contains(a.Err, "stack is too big") {
			s.programs.Add(-1)
			s.noteUndet("unwound-context-leftovers-at-MaxStackSize")
			return true
		}
		viol("state", fmt.Sprintf("spec %s (%s), impl %s (%s)", m.State, m.FaultMsg, a.State, a.Err))
		return false
	}
	if m.State == sv.HALT {
		s.halts.Add(1)
		if d := sameStacks(m.Result, a.Stack, scriptHashes(p)); d != "" {
			viol("stack", d)
			return false
		}
		s.stacks.add(a.Canon)
	} else {
		s.faults.Add(1)
	}
	if isFamilySection(p.Section) {
		s.noteFamily(p, m, a)
	}
	if m.Thrown > 0 {
		s.thrown.Add(1)
	}
	if n := s.nsample.Add(1); n <= 2 || isPow10(n) {
		s.addSample(sampleOf(p, m, a))
	}
	return ok
}

func sampleOf(p prog, m *sv.VM, a implRes) any {
	c := record(p, m, a)
	if len(c.Script) > 200 {
		c.Script = c.Script[:200] + "..."
		c.Disasm = ""
	}
	return c
}

// ---- small sharded hash set ----------------------------------------------------------

type hashSet struct {
	sh [64]struct {
		mu sync.Mutex
		m  map[uint64]struct{}
	}
}

func newHashSet() *hashSet {
	h := &hashSet{}
	for i := range h.sh {
		h.sh[i].m = map[uint64]struct{}{}
	}
	return h
}

func (h *hashSet) add(s string) bool {
	f := fnv.New64a()
	f.Write([]byte(s))
	k := f.Sum64()
	sh := &h.sh[k%64]
	sh.mu.Lock()
	defer sh.mu.Unlock()
	if _, ok := sh.m[k]; ok {
		return false
	}
	sh.m[k] = struct{}{}
	return true
}

func (h *hashSet) len() int {
	n := 0
	for i := range h.sh {
		h.sh[i].mu.Lock()
		n += len(h.sh[i].m)
		h.sh[i].mu.Unlock()
	}
	return n
}

// ---- disassembly for reports ------------------------------------------------------------

func disasm(s []byte) string {
	var out []string
	for ip := 0; ip < len(s) && len(out) < 60; {
		b := s[ip]
		if !sv.Defined(b) {
			out = append(out, fmt.Sprintf("0x%02x", b))
			ip++
			continue
		}
		fixed, prefix := sv.OperandSize(sv.Op(b))
		p := ip + 1
		n := fixed
		if prefix > 0 {
			if p+prefix > len(s) {
				out = append(out, sv.Op(b).Name()+" <truncated>")
				break
			}
			n = 0
			for i := prefix - 1; i >= 0; i-- {
				n = n<<8 | int(s[p+i])
			}
			p += prefix
		}
		if n < 0 || p+n > len(s) {
			out = append(out, sv.Op(b).Name()+" <truncated>")
			break
		}
		arg := s[p : p+n]
		switch {
		case n == 0:
			out = append(out, sv.Op(b).Name())
		case sv.Op(b) <= sv.PUSHINT256:
			out = append(out, fmt.Sprintf("%s %s", sv.Op(b).Name(), leInt(arg)))
		case n > 24:
			out = append(out, fmt.Sprintf("%s <%d bytes>", sv.Op(b).Name(), n))
		default:
			out = append(out, fmt.Sprintf("%s %x", sv.Op(b).Name(), arg))
		}
		ip = p + n
	}
	return strings.Join(out, "; ")
}

func leInt(le []byte) *big.Int {
	be := make([]byte, len(le))
	for i := range le {
		be[len(le)-1-i] = le[i]
	}
	v := new(big.Int).SetBytes(be)
	if len(le) > 0 && le[len(le)-1]&0x80 != 0 {
		v.Sub(v, new(big.Int).Lsh(big.NewInt(1), uint(8*len(le))))
	}
	return v
}

// ---- the test ------------------------------------------------------------------------------

type section struct {
	name string
	jobs int
	run  func(job int, emit func(prog))
}

// directRun (instead of section.run, by section name): the section evaluates
// its own cases (histories on one VM object) and returns how many.
var directRun = map[string]func(job int, st *stats) int64{}

func TestCheck(t *testing.T) {
	vk.UseT(t)
	r := vk.Start("C13", "model_checking", 150*time.Second, 24*time.Minute)
	r.SetSampleCap(10)
	// (i) the model alone against the reference facts: a failure is an error
	// of the check (exit code 3), never a violation.
	nfacts, bad := selfTest()
	if len(bad) > 0 {
		fmt.Printf("C13 CHECK-ERROR: specvm contradicts %d of %d reference facts:\n", len(bad), nfacts)
		for _, b := range bad {
			fmt.Println("  " + b)
		}
		os.Exit(3)
	}
	st := newStats(r)
	if r.Replay != "" {
		replay(r, st)
		return
	}
	secs := sections(r)
	if only := os.Getenv("VERIF_C13_ONLY"); only != "" { // development aid: sections with this name prefix only
		var keep []section
		for _, s := range secs {
			if strings.HasPrefix(s.name, only) {
				keep = append(keep, s)
			}
		}
		secs = keep
	}
	if pf := os.Getenv("VERIF_C13_PROF"); pf != "" { // development aid
		f, _ := os.Create(pf)
		_ = pprof.StartCPUProfile(f)
		defer pprof.StopCPUProfile()
	}
	type job struct{ s, j int }
	var jobs []job
	for si, s := range secs {
		for j := 0; j < s.jobs; j++ {
			jobs = append(jobs, job{si, j})
		}
	}
	r.Parallel(len(jobs), func(i int) {
		s := secs[jobs[i].s]
		t0 := time.Now()
		defer func() { st.noteSection("cpu_ms:"+s.name, time.Since(t0).Milliseconds()) }()
		n := int64(0)
		if d := directRun[s.name]; d != nil {
			st.noteSection(s.name, d(jobs[i].j, st))
			return
		}
		s.run(jobs[i].j, func(p prog) {
			if r.TooMany() {
				return
			}
			p.Section = s.name
			st.check(p)
			n++
		})
		st.noteSection(s.name, n)
	})
	writeRecordedSample()
	pprof.StopCPUProfile()
	var undetTotal int64
	undet := map[string]int64{}
	for k, v := range st.undet {
		undet[k] = v
		undetTotal += v
	}
	undetDiffers := map[string]int64{}
	for k, v := range st.bySection {
		if strings.HasPrefix(k, "undet-differs:") {
			undetDiffers[strings.TrimPrefix(k, "undet-differs:")] = v
		}
	}
	var secNames []string
	for _, s := range secs {
		secNames = append(secNames, fmt.Sprintf("%s: %d programs (%.1f cpu-s)", s.name, st.bySection[s.name], float64(st.bySection["cpu_ms:"+s.name])/1000))
	}
	fmt.Println("C13 sections:", strings.Join(secNames, "; "))
	fmt.Printf("C13 %s: programs compared=%d (HALT %d, FAULT %d, with exceptions %d), undetermined(excluded)=%d %v (model's reading differs from impl in: %v), distinct result stacks=%d, outcome classes=%d, impl instructions=%d, spec facts=%d\n",
		r.Tier, st.programs.Load(), st.halts.Load(), st.faults.Load(), st.thrown.Load(), undetTotal, undet, undetDiffers, st.stacks.len(), st.classes.len(), st.transitions.Load(), nfacts)
	r.Finish(map[string]any{
		"samples":                       st.samples,
		"states":                        st.stacks.len() + st.classes.len(),
		"transitions":                   int(st.transitions.Load()),
		"traces_validated_against_impl": int(st.programs.Load()),
		"distinct_result_stacks":        st.stacks.len(),
		"distinct_opcode_outcome":       st.classes.len(),
		"programs_halt":                 int(st.halts.Load()),
		"programs_fault":                int(st.faults.Load()),
		"programs_with_exceptions":      int(st.thrown.Load()),
		"impl_runs":                     int(st.implRuns.Load()),
		"spec_instructions":             int(st.specSteps.Load()),
		"spec_selftest_facts":           nfacts,
		"undetermined_excluded":         int(undetTotal),
		"undetermined_by_reason":        undet,
		"undetermined_where_model_reading_differs_from_impl": undetDiffers,
		"sections":                 secNames,
		"layout_families":          st.familyReport(),
		"budget_families":          budgetFamilyReport(),
		"reuse_family":             reuseReport(),
		"reuse_histories_compared": int(reuseCnt.histories.Load()),
		"reuse_histories_after_unhandled_exception": int(reuseCnt.exceptionPendingAtEnd.Load()),
		"reuse_first_programs":                      reuseCnt.nFirst,
		"reuse_second_programs":                     reuseCnt.nSecond,
		"reuse_second_programs_from_blocks":         reuseCnt.nBlockSecond,
		"reuse_ways":                                reuseCnt.nWays,
		"reuse_distinct_second_outcomes":            reuseCnt.qOutcomes.len(),
		"reuse_distinct_end_of_first_x_outcome":     reuseCnt.outcomes.len(),
		"value_set_sizes":                           fmt.Sprintf("V=%d (unary adds %d typed values), V'=%d, sequence alphabet=%d over %d operand values, compound alphabet=%d over %d aliasing prefixes", len(valuesV()), len(valuesTyped()), len(valuesTernary()), len(seqAlphabet()), len(seqValues(r)), len(compoundAlphabet()), len(compoundPrefixes())),
	}, []string{
		"the C# JSON vectors (pkg/vm/testdata/neo-vm) are an empty submodule here: the model is bound to the reference by the cited opcode descriptions / .NET BigInteger documentation and by the self-test facts, not by vectors",
		"latest hardfork behaviour (vm.New() enables all hardforks): SHL/SHR by 0 yield an Integer (Gorgon, docs/node-configuration.md)",
		"excluded as undetermined (counted in undetermined_by_reason): CALL/CALLA/ENDTRY/ENDFINALLY/handler dispatch exactly to the end of the script (JMP* there is decided: the reference's ExecuteJump rejects position >= Script.Length), programs of the layout families that exceed their model step limit (loops), not-taken jumps / TRY handlers / ENDTRY targets outside the script, ROLL 0 on an otherwise empty stack, HASKEY index >= MaxItemSize, text of engine-raised exception messages, struct comparisons whose outcome depends on a detail of the reference's Struct.Equals the model does not claim (visiting order of the pairs when a mismatch and an exhausted budget compete, one size budget for the whole comparison or one per struct, whether the outermost pair costs a unit, pair limit including or excluding the outermost pair - see lib/specvm/ext_budget.go), ASSERTMSG with a Null or non-ASCII message, unreachable cyclic garbage deciding the MaxStackSize limit",
		"SYSCALL and CALLT have external effects and are only exercised on a bare VM (both sides fault)",
		"gas is only compared between two runs of the implementation, the model has no notion of gas",
		"family reuse: the reference for a script executed on a VM object that executed other scripts before is the same script on a fresh VM loaded the same way (and the model); the ways are those of the node (interop.Context.ReuseVM = Reset + initVM, then LoadScriptWithFlags / LoadNEFMethod / LoadScriptWithHash) plus Reset + LoadWithFlags and a reload by LoadWithFlags alone, whose doc comment promises to clear all stacks and state",
	})
}

// writeRecordedSample stores one recorded script in the replay format so that
// `./vr C13 --replay replays/C13/recorded-modpow-3612.json` can be tried on a
// clean tree.
func writeRecordedSample() {
	p := prog{Section: "recorded", Key: "MODPOW:-1,3,3", Class: "MODPOW", Script: cat(pushI(-1), pushI(3), pushI(3), op(sv.MODPOW))}
	m := runSpec(p)
	a := runImpl(p)
	dir := filepath.Join(vk.ReplayRoot(), "C13")
	_ = os.MkdirAll(dir, 0o755)
	b, _ := json.MarshalIndent(map[string]any{"property": "C13", "key": p.Key, "tier": "quick", "detail": record(p, m, a)}, "", " ")
	_ = os.WriteFile(filepath.Join(dir, "recorded-modpow-3612.json"), b, 0o644)
}

func replay(r *vk.Run, st *stats) {
	var c caseRec
	if err := r.ReadReplay(&c); err != nil {
		fmt.Println("cannot read replay:", err)
		os.Exit(3)
	}
	if c.Reuse != nil {
		replayReuse(r, st, c)
		r.Finish(map[string]any{"states": 1, "transitions": int(st.transitions.Load()) + 1, "traces_validated_against_impl": 5}, nil)
		return
	}
	script, err := hex.DecodeString(c.Script)
	if err != nil {
		fmt.Println("replay file has no complete script (", err, "); regenerate it from its key:", c.Key)
		os.Exit(3)
	}
	p := prog{Section: c.Section, Key: c.Key, Class: "replay", Script: script, RV: c.RV, PreGorgon: c.PreGorgon, Steps: c.Steps}
	for _, e := range c.Extra {
		x, _ := hex.DecodeString(e)
		p.Extra = append(p.Extra, x)
	}
	outs := map[string]int{}
	for i := 0; i < 5; i++ {
		m := runSpec(p)
		a := runImpl(p)
		clean := st.check(p)
		outs[fmt.Sprintf("spec=%s[%s]%s impl=%s[%s] gas=%d err=%q clean=%v", m.State, clip(sv.Canon(m.Result)), m.Undet, a.State, clip(a.Canon), a.Gas, a.Err, clean)]++
	}
	fmt.Printf("replayed %s (%s) 5x:\n  %s\n", c.Key, disasm(script), strings.Join(sortedKeys(outs), "\n  "))
	r.Finish(map[string]any{"states": 1, "transitions": int(st.transitions.Load()) + 1, "traces_validated_against_impl": 5}, nil)
}

func sortedKeys(m map[string]int) []string {
	var k []string
	for s, n := range m {
		k = append(k, fmt.Sprintf("%dx %s", n, s))
	}
	sort.Strings(k)
	return k
}
