package c13

import (
	"fmt"
	"math/big"

	sv "verif/lib/specvm"
)

// Reference facts the model has to reproduce ALONE before it is allowed to
// judge the implementation. `want` is "FAULT" or the canonical text of the
// result stack (specvm.Canon: iN integer, sHEX ByteString, Bk(HEX) Buffer,
// Ak[..] Array, Sk[..] Struct, Mk{..} Map, true/false/null).
//
// Sources (abbreviations used in the src column):
//
//	C#-spec 12.10.3/12.10.4  C# language specification, integer division
//	              ("rounds towards zero"; examples 5/3=1, -5/3=-1, 5/-3=-1,
//	              -5/-3=1) and remainder ("x - (x / y) * y"; examples 5%3=2,
//	              -5%3=-2, 5%-3=2, -5%-3=-2), which BigInteger.Divide /
//	              BigInteger.Remainder document as their behaviour ("The sign
//	              of the remainder is the sign of the dividend").
//	C#-spec 12.11 shift operators: ">> on a signed operand is an arithmetic
//	              shift (sign bit propagated)"; BigInteger.RightShift docs.
//	.NET ModPow   BigInteger.ModPow docs: exponent < 0 ->
//	              ArgumentOutOfRangeException, modulus == 0 ->
//	              DivideByZeroException; result = value^exponent % modulus
//	              with the sign rule of %.
//	.NET Pow      BigInteger.Pow docs ("any value raised to 0 is 1").
//	.NET ToByteArray / ctor  BigInteger(byte[]) / ToByteArray docs:
//	              little-endian two's complement, minimal length, a positive
//	              value with the top bit set gets an extra 0x00.
//	NeoVM <OP>    the opcode's description in the NeoVM reference (OpCode.cs)
//	              and the limits in ExecutionEngineLimits (MaxShift 256,
//	              MaxItemSize 65535*2, MaxStackSize 2048,
//	              MaxTryNestingDepth 16, MaxInvocationStackSize 1024,
//	              MaxComparableSize 65536), Integer.MaxSize 32.
//	neo-go #3612  upstream issue: MODPOW with a negative base and an odd
//	              exponent must give the NEGATIVE residue as C# does
//	              (e.g. (-1)^3 mod 3 = -1, not 2).
//	neo-go Gorgon docs/node-configuration.md, hardfork table, "Gorgon".
//	python        value computed independently with Python 3 (math.isqrt/pow).
type fact struct {
	name string
	code []byte
	want string
	src  string
}

func pI(x int64) []byte { return pushI(x) }

var (
	maxI  = add(p2(255), -1) // 2^255-1
	minI  = neg(p2(255))     // -2^255
	maxIs = "i" + maxI.String()
	minIs = "i" + minI.String()
)

func bin(a, b *big.Int, o sv.Op) []byte { return cat(pushB(a), pushB(b), op(o)) }
func binI(a, b int64, o sv.Op) []byte   { return bin(bi(a), bi(b), o) }
func tern(a, b, c int64, o sv.Op) []byte {
	return cat(pI(a), pI(b), pI(c), op(o))
}

func facts() []fact {
	i := func(x int64) string { return fmt.Sprintf("i%d", x) }
	sq255, _ := new(big.Int).SetString("240615969168004511545033772477625056927", 10)
	return []fact{
		// ---- DIV / MOD -----------------------------------------------------------
		{"7/2", binI(7, 2, sv.DIV), i(3), "C#-spec 12.10.3"},
		{"-7/2", binI(-7, 2, sv.DIV), i(-3), "C#-spec 12.10.3 (rounds towards zero; cf. -5/3=-1)"},
		{"7/-2", binI(7, -2, sv.DIV), i(-3), "C#-spec 12.10.3 (5/-3=-1)"},
		{"-7/-2", binI(-7, -2, sv.DIV), i(3), "C#-spec 12.10.3 (-5/-3=1)"},
		{"5/3", binI(5, 3, sv.DIV), i(1), "C#-spec 12.10.3 example"},
		{"-5/3", binI(-5, 3, sv.DIV), i(-1), "C#-spec 12.10.3 example"},
		{"-1/2", binI(-1, 2, sv.DIV), i(0), "C#-spec 12.10.3 (towards zero, not floor)"},
		{"5%3", binI(5, 3, sv.MOD), i(2), "C#-spec 12.10.4 example"},
		{"-5%3", binI(-5, 3, sv.MOD), i(-2), "C#-spec 12.10.4 example; BigInteger.Remainder: sign of the dividend"},
		{"5%-3", binI(5, -3, sv.MOD), i(2), "C#-spec 12.10.4 example"},
		{"-5%-3", binI(-5, -3, sv.MOD), i(-2), "C#-spec 12.10.4 example"},
		{"-1%2", binI(-1, 2, sv.MOD), i(-1), "BigInteger.Remainder: sign of the dividend"},
		{"1/0", binI(1, 0, sv.DIV), "FAULT", "BigInteger.Divide: DivideByZeroException"},
		{"1%0", binI(1, 0, sv.MOD), "FAULT", "BigInteger.Remainder: DivideByZeroException"},
		{"min/-1", bin(minI, bi(-1), sv.DIV), "FAULT", "NeoVM Integer.MaxSize 32: 2^255 needs 33 bytes"},
		{"min%-1", bin(minI, bi(-1), sv.MOD), i(0), "C#-spec 12.10.4: x - (x / y) * y = 0"},
		{"max/1", bin(maxI, bi(1), sv.DIV), maxIs, "identity at the upper bound"},
		{"min/1", bin(minI, bi(1), sv.DIV), minIs, "identity at the lower bound"},
		// ---- SHL / SHR -------------------------------------------------------------
		{"-1>>1", binI(-1, 1, sv.SHR), i(-1), "C#-spec 12.11 arithmetic shift"},
		{"-2>>1", binI(-2, 1, sv.SHR), i(-1), "C#-spec 12.11"},
		{"-3>>1", binI(-3, 1, sv.SHR), i(-2), "C#-spec 12.11: two's complement ...11101 >> 1 = ...1110 = -2 (floor, not truncation)"},
		{"-9>>3", binI(-9, 3, sv.SHR), i(-2), "C#-spec 12.11 (floor(-9/8))"},
		{"-8>>3", binI(-8, 3, sv.SHR), i(-1), "C#-spec 12.11"},
		{"7>>1", binI(7, 1, sv.SHR), i(3), "C#-spec 12.11"},
		{"min>>255", bin(minI, bi(255), sv.SHR), i(-1), "C#-spec 12.11"},
		{"min>>256", bin(minI, bi(256), sv.SHR), i(-1), "C#-spec 12.11; NeoVM MaxShift 256 is allowed"},
		{"max>>255", bin(maxI, bi(255), sv.SHR), i(0), "C#-spec 12.11"},
		{"1>>257", binI(1, 257, sv.SHR), "FAULT", "NeoVM SHR: AssertShift, MaxShift 256"},
		{"1>>-1", binI(1, -1, sv.SHR), "FAULT", "NeoVM SHR: AssertShift, negative shift"},
		{"1<<254", binI(1, 254, sv.SHL), "i" + p2(254).String(), "NeoVM SHL"},
		{"1<<255", binI(1, 255, sv.SHL), "FAULT", "NeoVM Integer.MaxSize 32: 2^255 does not fit"},
		{"-1<<255", binI(-1, 255, sv.SHL), minIs, "-2^255 is the smallest 32-byte integer"},
		{"-1<<256", binI(-1, 256, sv.SHL), "FAULT", "NeoVM Integer.MaxSize 32"},
		{"0<<256", binI(0, 256, sv.SHL), i(0), "NeoVM SHL: shift 256 allowed, 0 stays 0"},
		{"1<<257", binI(1, 257, sv.SHL), "FAULT", "NeoVM SHL: AssertShift, MaxShift 256"},
		{"1<<-1", binI(1, -1, sv.SHL), "FAULT", "NeoVM SHL: AssertShift, negative shift"},
		{"bytes(01)<<0", cat(pushD([]byte{1}), pI(0), op(sv.SHL)), i(1), "neo-go Gorgon: zero shift yields the Integer"},
		// ---- POW --------------------------------------------------------------------
		{"3^2", binI(3, 2, sv.POW), i(9), ".NET Pow"},
		{"-3^3", binI(-3, 3, sv.POW), i(-27), ".NET Pow"},
		{"0^0", binI(0, 0, sv.POW), i(1), ".NET Pow: any value raised to 0 is 1"},
		{"2^254", binI(2, 254, sv.POW), "i" + p2(254).String(), ".NET Pow"},
		{"2^255", binI(2, 255, sv.POW), "FAULT", "NeoVM Integer.MaxSize 32"},
		{"-2^255", binI(-2, 255, sv.POW), minIs, "(-2)^255 = -2^255 fits"},
		{"-2^256", binI(-2, 256, sv.POW), "FAULT", "2^256 does not fit"},
		{"-1^256", binI(-1, 256, sv.POW), i(1), "NeoVM POW: exponent 256 allowed"},
		{"1^257", binI(1, 257, sv.POW), "FAULT", "NeoVM POW: AssertShift(exponent), MaxShift 256"},
		{"2^-1", binI(2, -1, sv.POW), "FAULT", "NeoVM POW: AssertShift(exponent); .NET Pow: ArgumentOutOfRangeException"},
		// ---- SQRT -------------------------------------------------------------------
		{"sqrt0", cat(pI(0), op(sv.SQRT)), i(0), "NeoVM SQRT"},
		{"sqrt1", cat(pI(1), op(sv.SQRT)), i(1), "NeoVM SQRT"},
		{"sqrt3", cat(pI(3), op(sv.SQRT)), i(1), "NeoVM SQRT: floor"},
		{"sqrt4", cat(pI(4), op(sv.SQRT)), i(2), "NeoVM SQRT"},
		{"sqrt8", cat(pI(8), op(sv.SQRT)), i(2), "NeoVM SQRT: floor"},
		{"sqrt15", cat(pI(15), op(sv.SQRT)), i(3), "NeoVM SQRT: floor"},
		{"sqrt16", cat(pI(16), op(sv.SQRT)), i(4), "NeoVM SQRT"},
		{"sqrt(2^254)", cat(pushB(p2(254)), op(sv.SQRT)), "i" + p2(127).String(), "python"},
		{"sqrt(max)", cat(pushB(maxI), op(sv.SQRT)), "i" + sq255.String(), "python math.isqrt(2**255-1)"},
		{"sqrt(-1)", cat(pI(-1), op(sv.SQRT)), "FAULT", "NeoVM SQRT: negative value faults"},
		// ---- MODMUL ------------------------------------------------------------------
		{"3*4%5", tern(3, 4, 5, sv.MODMUL), i(2), "NeoVM MODMUL"},
		{"-3*4%5", tern(-3, 4, 5, sv.MODMUL), i(-2), "NeoVM MODMUL = x1*x2 % m; C#-spec 12.10.4 sign of the dividend"},
		{"3*4%-5", tern(3, 4, -5, sv.MODMUL), i(2), "C#-spec 12.10.4"},
		{"-3*-4%5", tern(-3, -4, 5, sv.MODMUL), i(2), "C#-spec 12.10.4"},
		{"3*4%0", tern(3, 4, 0, sv.MODMUL), "FAULT", "DivideByZeroException"},
		{"max*2%(max-2)", cat(pushB(maxI), pI(2), pushB(add(maxI, -2)), op(sv.MODMUL)), i(4), "python; the product (2^256-2) is an intermediate value and is not range checked"},
		{"max*max%max", cat(pushB(maxI), pushB(maxI), pushB(maxI), op(sv.MODMUL)), i(0), "intermediate product beyond 256 bits"},
		// ---- MODPOW -------------------------------------------------------------------
		{"2^3%5", tern(2, 3, 5, sv.MODPOW), i(3), ".NET ModPow"},
		{"-2^3%5", tern(-2, 3, 5, sv.MODPOW), i(-3), ".NET ModPow: (-8) % 5 = -3; neo-go #3612"},
		{"-1^3%3", tern(-1, 3, 3, sv.MODPOW), i(-1), "neo-go #3612"},
		{"-2^2%5", tern(-2, 2, 5, sv.MODPOW), i(4), ".NET ModPow: 4 % 5"},
		{"2^3%-5", tern(2, 3, -5, sv.MODPOW), i(3), ".NET ModPow: 8 % -5 = 3"},
		{"-2^3%-5", tern(-2, 3, -5, sv.MODPOW), i(-3), ".NET ModPow: -8 % -5 = -3"},
		{"-3^3%9", tern(-3, 3, 9, sv.MODPOW), i(0), ".NET ModPow: -27 % 9 = 0"},
		{"5^0%1", tern(5, 0, 1, sv.MODPOW), i(0), ".NET ModPow: 1 % 1 = 0"},
		{"5^0%7", tern(5, 0, 7, sv.MODPOW), i(1), ".NET ModPow"},
		{"0^0%7", tern(0, 0, 7, sv.MODPOW), i(1), ".NET ModPow / Pow: 0^0 = 1"},
		{"2^3%0", tern(2, 3, 0, sv.MODPOW), "FAULT", ".NET ModPow: DivideByZeroException"},
		{"2^-2%5", tern(2, -2, 5, sv.MODPOW), "FAULT", ".NET ModPow: ArgumentOutOfRangeException (only -1 is special in NeoVM)"},
		{"7^max%(2^255-19)", cat(pI(7), pushB(maxI), pushB(add(p2(255), -19)), op(sv.MODPOW)), "i11398895185373143", "python pow(7, 2**255-1, 2**255-19)"},
		{"3^-1%7", tern(3, -1, 7, sv.MODPOW), i(5), "NeoVM MODPOW: exponent -1 = modular inverse; python pow(3,-1,7)"},
		{"10^-1%7", tern(10, -1, 7, sv.MODPOW), i(5), "python pow(10,-1,7)"},
		{"1^-1%2", tern(1, -1, 2, sv.MODPOW), i(1), "NeoVM ModInverse: smallest allowed modulus"},
		{"2^-1%4", tern(2, -1, 4, sv.MODPOW), "FAULT", "NeoVM ModInverse: no inverse"},
		{"0^-1%7", tern(0, -1, 7, sv.MODPOW), "FAULT", "NeoVM ModInverse: value <= 0"},
		{"-3^-1%7", tern(-3, -1, 7, sv.MODPOW), "FAULT", "NeoVM ModInverse: value <= 0"},
		{"3^-1%1", tern(3, -1, 1, sv.MODPOW), "FAULT", "NeoVM ModInverse: modulus < 2"},
		{"3^-1%-7", tern(3, -1, -7, sv.MODPOW), "FAULT", "NeoVM ModInverse: modulus < 2"},
		// ---- range of the results of the other arithmetic opcodes -------------------------
		{"max+1", bin(maxI, bi(1), sv.ADD), "FAULT", "NeoVM Integer.MaxSize 32"},
		{"max+0", bin(maxI, bi(0), sv.ADD), maxIs, "upper bound"},
		{"min+-1", bin(minI, bi(-1), sv.ADD), "FAULT", "NeoVM Integer.MaxSize 32"},
		{"min-1", bin(minI, bi(1), sv.SUB), "FAULT", "NeoVM Integer.MaxSize 32"},
		{"0-min", bin(bi(0), minI, sv.SUB), "FAULT", "2^255 does not fit"},
		{"2^128*2^127", bin(p2(128), p2(127), sv.MUL), "FAULT", "2^255 does not fit"},
		{"-2^128*2^127", bin(neg(p2(128)), p2(127), sv.MUL), minIs, "-2^255 fits"},
		{"inc(max)", cat(pushB(maxI), op(sv.INC)), "FAULT", "NeoVM Integer.MaxSize 32"},
		{"dec(min)", cat(pushB(minI), op(sv.DEC)), "FAULT", "NeoVM Integer.MaxSize 32"},
		{"abs(min)", cat(pushB(minI), op(sv.ABS)), "FAULT", "2^255 does not fit"},
		{"negate(min)", cat(pushB(minI), op(sv.NEGATE)), "FAULT", "2^255 does not fit"},
		{"negate(max)", cat(pushB(maxI), op(sv.NEGATE)), "i" + neg(maxI).String(), "fits"},
		{"sign(-5)", cat(pI(-5), op(sv.SIGN)), i(-1), "NeoVM SIGN"},
		{"sign(min)", cat(pushB(minI), op(sv.SIGN)), i(-1), "NeoVM SIGN"},
		// ---- bitwise ------------------------------------------------------------------------
		{"~0", cat(pI(0), op(sv.INVERT)), i(-1), "BigInteger.OnesComplement: -(x+1)"},
		{"~max", cat(pushB(maxI), op(sv.INVERT)), minIs, "BigInteger.OnesComplement"},
		{"~min", cat(pushB(minI), op(sv.INVERT)), maxIs, "BigInteger.OnesComplement"},
		{"-1&255", binI(-1, 255, sv.AND), i(255), "BigInteger bitwise: two's complement with sign extension"},
		{"-256&255", binI(-256, 255, sv.AND), i(0), "two's complement"},
		{"-256|255", binI(-256, 255, sv.OR), i(-1), "two's complement"},
		{"-1^max", bin(bi(-1), maxI, sv.XOR), minIs, "two's complement"},
		{"min&max", bin(minI, maxI, sv.AND), i(0), "two's complement"},
		{"min|max", bin(minI, maxI, sv.OR), i(-1), "two's complement"},
		// ---- boolean / comparison ---------------------------------------------------------------
		{"not 0", cat(pI(0), op(sv.NOT)), "true", "NeoVM NOT"},
		{"not 2", cat(pI(2), op(sv.NOT)), "false", "NeoVM NOT: any non-zero is true"},
		{"not null", cat(op(sv.PUSHNULL), op(sv.NOT)), "true", "NeoVM Null.GetBoolean() is false"},
		{"not bytes(0000)", cat(pushD([]byte{0, 0}), op(sv.NOT)), "true", "NeoVM ByteString.GetBoolean(): all zero bytes are false"},
		{"not bytes(33x00)", cat(pushD(rep(0, 33)), op(sv.NOT)), "FAULT", "NeoVM ByteString.GetBoolean(): Size > Integer.MaxSize faults"},
		{"not buffer()", cat(pushBuf(nil), op(sv.NOT)), "false", "NeoVM Buffer.GetBoolean() is true"},
		{"nz(bytes(0080))", cat(pushD([]byte{0, 0x80}), op(sv.NZ)), "true", "bytes 00 80 = -32768"},
		{"1 numequal true", cat(pI(1), op(sv.PUSHT), op(sv.NUMEQUAL)), "true", "NeoVM NUMEQUAL compares GetInteger()"},
		{"1 equal true", cat(pI(1), op(sv.PUSHT), op(sv.EQUAL)), "false", "NeoVM EQUAL: Integer equals only an Integer"},
		{"1 equal bytes(01)", cat(pI(1), pushD([]byte{1}), op(sv.EQUAL)), "false", "NeoVM EQUAL: different types"},
		{"bytes equal bytes", cat(pushD([]byte{1}), pushD([]byte{1}), op(sv.EQUAL)), "true", "NeoVM EQUAL: ByteString by content"},
		{"buffer equal buffer", cat(pushBuf([]byte{1}), pushBuf([]byte{1}), op(sv.EQUAL)), "false", "NeoVM EQUAL: Buffer by reference"},
		{"buffer equal itself", cat(pushBuf([]byte{1}), op(sv.DUP), op(sv.EQUAL)), "true", "NeoVM EQUAL: Buffer by reference"},
		{"null equal null", cat(op(sv.PUSHNULL), op(sv.PUSHNULL), op(sv.EQUAL)), "true", "NeoVM EQUAL"},
		{"array equal array", cat(op(sv.NEWARRAY0), op(sv.NEWARRAY0), op(sv.EQUAL)), "false", "NeoVM EQUAL: Array by reference"},
		{"struct equal struct", cat(pI(1), pI(1), op(sv.PACKSTRUCT), pI(1), pI(1), op(sv.PACKSTRUCT), op(sv.EQUAL)), "true", "NeoVM EQUAL: Struct by value"},
		{"struct notequal struct", cat(pI(1), pI(1), op(sv.PACKSTRUCT), pI(2), pI(1), op(sv.PACKSTRUCT), op(sv.EQUAL)), "false", "NeoVM EQUAL: Struct by value"},
		{"bytes(65537) equal 1", cat(zeros(65537, true), pI(1), op(sv.EQUAL)), "FAULT", "NeoVM MaxComparableSize 65536"},
		{"bytes(65536) equal 1", cat(zeros(65536, true), pI(1), op(sv.EQUAL)), "false", "NeoVM MaxComparableSize 65536"},
		{"null lt 1", cat(op(sv.PUSHNULL), pI(1), op(sv.LT)), "false", "NeoVM LT: Null operand gives false"},
		{"null ge null", cat(op(sv.PUSHNULL), op(sv.PUSHNULL), op(sv.GE)), "false", "NeoVM GE: Null operand gives false"},
		{"null numequal null", cat(op(sv.PUSHNULL), op(sv.PUSHNULL), op(sv.NUMEQUAL)), "FAULT", "NeoVM NUMEQUAL: GetInteger() of Null faults"},
		{"1 within [1,2)", tern(1, 1, 2, sv.WITHIN), "true", "NeoVM WITHIN: left-inclusive"},
		{"2 within [1,2)", tern(2, 1, 2, sv.WITHIN), "false", "NeoVM WITHIN: right-exclusive"},
		{"0 within [1,2)", tern(0, 1, 2, sv.WITHIN), "false", "NeoVM WITHIN"},
		{"min(-1,1)", binI(-1, 1, sv.MIN), i(-1), "NeoVM MIN"},
		{"max(-1,1)", binI(-1, 1, sv.MAX), i(1), "NeoVM MAX"},
		// ---- integer <-> bytes ---------------------------------------------------------------------
		{"PUSHINT8 80", op(sv.PUSHINT8, 0x80), i(-128), ".NET ctor: signed"},
		{"PUSHINT16 0080", op(sv.PUSHINT16, 0x00, 0x80), i(-32768), ".NET ctor: little endian signed"},
		{"PUSHINT16 ff00", op(sv.PUSHINT16, 0xff, 0x00), i(255), ".NET ctor"},
		{"PUSHINT256 ff..ff", op(sv.PUSHINT256, rep(0xff, 32)...), i(-1), ".NET ctor: sign extension"},
		{"bytes(80)->int", cat(pushD([]byte{0x80}), convertTo(sv.TInteger)), i(-128), ".NET ctor"},
		{"bytes(8000)->int", cat(pushD([]byte{0x80, 0x00}), convertTo(sv.TInteger)), i(128), ".NET ctor"},
		{"bytes()->int", cat(pushD(nil), convertTo(sv.TInteger)), i(0), "empty span is 0"},
		{"bytes(32:min)->int", cat(pushD(append(rep(0, 31), 0x80)), convertTo(sv.TInteger)), minIs, ".NET ctor"},
		{"bytes(32:max)->int", cat(pushD(append(rep(0xff, 31), 0x7f)), convertTo(sv.TInteger)), maxIs, ".NET ctor"},
		{"bytes(33)->int", cat(pushD(rep(0, 33)), convertTo(sv.TInteger)), "FAULT", "NeoVM Integer.MaxSize 32"},
		{"bytes(33) inc", cat(pushD(rep(0, 33)), op(sv.INC)), "FAULT", "NeoVM GetInteger(): Size > 32 faults"},
		{"buffer(01) inc", cat(pushBuf([]byte{1}), op(sv.INC)), "FAULT", "NeoVM Buffer is not a PrimitiveType: GetInteger() faults"},
		{"buffer(01)->int", cat(pushBuf([]byte{1}), convertTo(sv.TInteger)), i(1), "NeoVM Buffer.ConvertTo(Integer)"},
		{"-128->bytes", cat(pI(-128), convertTo(sv.TByteString)), "s80", ".NET ToByteArray"},
		{"128->bytes", cat(pI(128), convertTo(sv.TByteString)), "s8000", ".NET ToByteArray: extra 0x00 for a positive with top bit set"},
		{"255->bytes", cat(pI(255), convertTo(sv.TByteString)), "sff00", ".NET ToByteArray"},
		{"-1->bytes", cat(pI(-1), convertTo(sv.TByteString)), "sff", ".NET ToByteArray"},
		{"-256->bytes", cat(pI(-256), convertTo(sv.TByteString)), "s00ff", ".NET ToByteArray"},
		{"-129->bytes", cat(pI(-129), convertTo(sv.TByteString)), "s7fff", ".NET ToByteArray"},
		{"0->bytes", cat(pI(0), convertTo(sv.TByteString)), "s", "NeoVM Integer: zero is the empty span"},
		{"size(0)", cat(pI(0), op(sv.SIZE)), i(0), "NeoVM Integer.Size of zero"},
		{"size(128)", cat(pI(128), op(sv.SIZE)), i(2), ".NET ToByteArray length"},
		{"size(min)", cat(pushB(minI), op(sv.SIZE)), i(32), "32 bytes"},
		{"size(true)", cat(op(sv.PUSHT), op(sv.SIZE)), i(1), "NeoVM Boolean.Size"},
		{"true->int", cat(op(sv.PUSHT), convertTo(sv.TInteger)), i(1), "NeoVM Boolean.GetInteger()"},
		{"true->bytes", cat(op(sv.PUSHT), convertTo(sv.TByteString)), "s01", "NeoVM Boolean span"},
		{"2->bool", cat(pI(2), convertTo(sv.TBoolean)), "true", "NeoVM GetBoolean()"},
		// ---- CONVERT / ISTYPE ---------------------------------------------------------------------------
		{"null->int", cat(op(sv.PUSHNULL), convertTo(sv.TInteger)), "null", "NeoVM Null.ConvertTo: stays Null for any defined type but Any"},
		{"null->any", cat(op(sv.PUSHNULL), convertTo(sv.TAny)), "FAULT", "NeoVM Null.ConvertTo(Any) faults"},
		{"null->0x50", cat(op(sv.PUSHNULL), op(sv.CONVERT, 0x50)), "FAULT", "NeoVM Null.ConvertTo(undefined) faults"},
		{"1->any", cat(pI(1), convertTo(sv.TAny)), "FAULT", "NeoVM ConvertTo: invalid cast"},
		{"array->struct", cat(pI(1), pI(1), op(sv.PACK), op(sv.DUP), convertTo(sv.TStruct)), "A1[i1] S2[i1]", "NeoVM Array.ConvertTo(Struct): a new item"},
		{"array->array", cat(op(sv.NEWARRAY0), op(sv.DUP), convertTo(sv.TArray)), "A1[] @1", "NeoVM ConvertTo own type: the item itself"},
		{"map->array", cat(op(sv.NEWMAP), convertTo(sv.TArray)), "FAULT", "NeoVM ConvertTo: invalid cast"},
		{"map->bool", cat(op(sv.NEWMAP), convertTo(sv.TBoolean)), "true", "NeoVM ConvertTo(Boolean) = GetBoolean()"},
		{"buffer->bytes", cat(pushBuf([]byte{1, 2}), convertTo(sv.TByteString)), "s0102", "NeoVM Buffer.ConvertTo(ByteString)"},
		{"istype any", cat(pI(1), op(sv.ISTYPE, 0)), "FAULT", "NeoVM ISTYPE: Any is invalid"},
		{"istype 0x50", cat(pI(1), op(sv.ISTYPE, 0x50)), "FAULT", "NeoVM ISTYPE: undefined type"},
		{"istype int", cat(pI(1), op(sv.ISTYPE, byte(sv.TInteger))), "true", "NeoVM ISTYPE"},
		{"null istype int", cat(op(sv.PUSHNULL), op(sv.ISTYPE, byte(sv.TInteger))), "false", "NeoVM ISTYPE"},
		{"isnull", cat(op(sv.PUSHNULL), op(sv.ISNULL)), "true", "NeoVM ISNULL"},
		// ---- splice -----------------------------------------------------------------------------------------
		{"cat", cat(pushD([]byte("ab")), pushD([]byte("cd")), op(sv.CAT)), "B1(61626364)", "NeoVM CAT: result is a Buffer"},
		{"cat 1,2", cat(pI(1), pI(2), op(sv.CAT)), "B1(0102)", "NeoVM CAT on the spans of integers"},
		{"substr", cat(pushD([]byte("abcdef")), pI(2), pI(3), op(sv.SUBSTR)), "B1(636465)", "NeoVM SUBSTR(index 2, count 3)"},
		{"substr end", cat(pushD([]byte("abcdef")), pI(6), pI(0), op(sv.SUBSTR)), "B1()", "index+count == length is allowed"},
		{"substr over", cat(pushD([]byte("abcdef")), pI(4), pI(3), op(sv.SUBSTR)), "FAULT", "index+count > length"},
		{"left", cat(pushD([]byte("abc")), pI(2), op(sv.LEFT)), "B1(6162)", "NeoVM LEFT"},
		{"left over", cat(pushD([]byte("abc")), pI(4), op(sv.LEFT)), "FAULT", "count > length"},
		{"right", cat(pushD([]byte("abc")), pI(2), op(sv.RIGHT)), "B1(6263)", "NeoVM RIGHT"},
		{"right over", cat(pushD([]byte("abc")), pI(4), op(sv.RIGHT)), "FAULT", "count > length"},
		{"right neg", cat(pushD([]byte("abc")), pI(-1), op(sv.RIGHT)), "FAULT", "negative count"},
		{"newbuffer 2", cat(pI(2), op(sv.NEWBUFFER)), "B1(0000)", "NeoVM NEWBUFFER: zero filled"},
		{"newbuffer -1", cat(pI(-1), op(sv.NEWBUFFER)), "FAULT", "AssertMaxItemSize"},
		{"newbuffer max+1", cat(pI(sv.MaxItemSize+1), op(sv.NEWBUFFER)), "FAULT", "NeoVM MaxItemSize 65535*2"},
		{"newbuffer max size", cat(pI(sv.MaxItemSize), op(sv.NEWBUFFER), op(sv.SIZE)), i(sv.MaxItemSize), "NeoVM MaxItemSize 65535*2"},
		{"cat max+1", cat(zeros(sv.MaxItemSize, false), pushD([]byte{1}), op(sv.CAT)), "FAULT", "NeoVM CAT: AssertMaxItemSize"},
		{"cat max", cat(zeros(sv.MaxItemSize-1, false), pushD([]byte{1}), op(sv.CAT), op(sv.SIZE)), i(sv.MaxItemSize), "NeoVM CAT: exactly MaxItemSize is allowed"},
		{"memcpy", cat(pushBuf([]byte("abcdef")), op(sv.DUP), pI(1), pushD([]byte("XYZ")), pI(1), pI(2), op(sv.MEMCPY)), "B1(61595a646566)", "NeoVM MEMCPY dst[1..] = src[1..3]"},
		// ---- stack ----------------------------------------------------------------------------------------------
		{"swap", cat(pI(1), pI(2), op(sv.SWAP)), "i2 i1", "NeoVM SWAP"},
		{"rot", cat(pI(1), pI(2), pI(3), op(sv.ROT)), "i2 i3 i1", "NeoVM ROT: the third item moves to the top"},
		{"tuck", cat(pI(1), pI(2), op(sv.TUCK)), "i2 i1 i2", "NeoVM TUCK"},
		{"over", cat(pI(1), pI(2), op(sv.OVER)), "i1 i2 i1", "NeoVM OVER"},
		{"nip", cat(pI(1), pI(2), op(sv.NIP)), "i2", "NeoVM NIP"},
		{"pick", cat(pI(1), pI(2), pI(3), pI(2), op(sv.PICK)), "i1 i2 i3 i1", "NeoVM PICK"},
		{"roll", cat(pI(1), pI(2), pI(3), pI(2), op(sv.ROLL)), "i2 i3 i1", "NeoVM ROLL"},
		{"xdrop", cat(pI(1), pI(2), pI(3), pI(1), op(sv.XDROP)), "i1 i3", "NeoVM XDROP"},
		{"reverse3", cat(pI(1), pI(2), pI(3), op(sv.REVERSE3)), "i3 i2 i1", "NeoVM REVERSE3"},
		{"reversen", cat(pI(1), pI(2), pI(3), pI(2), op(sv.REVERSEN)), "i1 i3 i2", "NeoVM REVERSEN"},
		{"depth", cat(pI(7), pI(7), op(sv.DEPTH)), "i7 i7 i2", "NeoVM DEPTH"},
		{"drop empty", op(sv.DROP), "FAULT", "NeoVM DROP on an empty stack"},
		// ---- compound ---------------------------------------------------------------------------------------------
		{"pack", cat(pI(1), pI(2), pI(2), op(sv.PACK)), "A1[i2,i1]", "NeoVM PACK: the top item becomes element 0"},
		{"unpack", cat(pI(1), pI(2), pI(2), op(sv.PACK), op(sv.UNPACK)), "i1 i2 i2", "NeoVM UNPACK: inverse of PACK plus the size"},
		{"packmap", cat(pI(10), pI(1), pI(20), pI(2), pI(2), op(sv.PACKMAP)), "M1{i2:i20,i1:i10}", "NeoVM PACKMAP: key on top of its value"},
		{"append struct clones", cat(op(sv.NEWARRAY0), op(sv.DUP), op(sv.NEWSTRUCT0), op(sv.DUP), op(sv.ROT), op(sv.SWAP), op(sv.APPEND)), "A1[S2[]] S3[]", "NeoVM APPEND: a Struct is cloned"},
		{"pack does not clone", cat(op(sv.NEWSTRUCT0), op(sv.DUP), pI(1), op(sv.PACK)), "S1[] A2[@1]", "NeoVM PACK: items are not cloned"},
		{"pickitem bytes", cat(pushD([]byte{7, 8}), pI(1), op(sv.PICKITEM)), i(8), "NeoVM PICKITEM on a ByteString: the byte as Integer"},
		{"pickitem int", cat(pI(256), pI(1), op(sv.PICKITEM)), i(1), "NeoVM PICKITEM on the span of an Integer (00 01)"},
		{"pickitem out of range", cat(op(sv.NEWARRAY0), pI(0), op(sv.PICKITEM)), "FAULT", "NeoVM PICKITEM: uncaught catchable exception"},
		{"pickitem out of range caught", cat(op(sv.TRY, 7, 0), op(sv.NEWARRAY0), pI(0), op(sv.PICKITEM), op(sv.RET), op(sv.ISTYPE, byte(sv.TByteString))), "true", "NeoVM PICKITEM: the exception can be caught, its value is a ByteString message"},
		{"remove out of range", cat(op(sv.TRY, 7, 0), op(sv.NEWARRAY0), pI(0), op(sv.REMOVE), op(sv.RET), pI(1)), "FAULT", "NeoVM REMOVE: index error is not catchable"},
		{"haskey neg", cat(op(sv.NEWARRAY0), pI(-1), op(sv.HASKEY)), "FAULT", "NeoVM HASKEY: negative index faults"},
		{"haskey", cat(pI(1), pI(1), op(sv.PACK), pI(1), op(sv.HASKEY)), "false", "NeoVM HASKEY"},
		{"map keys by type", cat(op(sv.NEWMAP), op(sv.DUP), pI(1), pI(5), op(sv.SETITEM), op(sv.DUP), pushD([]byte{1}), op(sv.HASKEY)), "M1{i1:i5} false", "NeoVM Map: Integer 1 and ByteString 01 are different keys"},
		{"map key 65", cat(op(sv.NEWMAP), pushD(rep(1, 65)), pI(5), op(sv.SETITEM)), "FAULT", "NeoVM Map.MaxKeySize 64"},
		{"map key 64", cat(op(sv.NEWMAP), op(sv.DUP), pushD(rep(1, 64)), pI(5), op(sv.SETITEM), op(sv.SIZE)), i(1), "NeoVM Map.MaxKeySize 64"},
		{"setitem buffer 255", cat(pushBuf([]byte{0}), op(sv.DUP), pI(0), pI(255), op(sv.SETITEM)), "B1(ff)", "NeoVM SETITEM on a Buffer: value in [-128, 255]"},
		{"setitem buffer -128", cat(pushBuf([]byte{0}), op(sv.DUP), pI(0), pI(-128), op(sv.SETITEM)), "B1(80)", "NeoVM SETITEM on a Buffer"},
		{"setitem buffer 256", cat(pushBuf([]byte{0}), op(sv.DUP), pI(0), pI(256), op(sv.SETITEM)), "FAULT", "NeoVM SETITEM on a Buffer: value out of range"},
		{"newarray_t int", cat(pI(2), op(sv.NEWARRAY_T, byte(sv.TInteger))), "A1[i0,i0]", "NeoVM NEWARRAY_T"},
		{"newarray_t bytes", cat(pI(1), op(sv.NEWARRAY_T, byte(sv.TByteString))), "A1[s]", "NeoVM NEWARRAY_T"},
		{"newarray_t map", cat(pI(1), op(sv.NEWARRAY_T, byte(sv.TMap))), "A1[null]", "NeoVM NEWARRAY_T: Null for other types"},
		{"newarray_t undefined", cat(pI(1), op(sv.NEWARRAY_T, 0x50)), "FAULT", "NeoVM NEWARRAY_T: undefined type"},
		{"newarray 2047", cat(pI(2047), op(sv.NEWARRAY), op(sv.SIZE)), i(2047), "NeoVM MaxStackSize 2048: 1 + 2047 items"},
		{"newarray 2048", cat(pI(2048), op(sv.NEWARRAY)), "FAULT", "NeoVM MaxStackSize 2048: 1 + 2048 items"},
		{"popitem", cat(pI(1), pI(2), pI(2), op(sv.PACK), op(sv.DUP), op(sv.POPITEM)), "A1[i2] i1", "NeoVM POPITEM: removes the last element"},
		{"values clones structs", cat(op(sv.NEWSTRUCT0), op(sv.DUP), pI(1), op(sv.PACK), op(sv.VALUES)), "S1[] A2[S3[]]", "NeoVM VALUES: Struct values are cloned"},
		// ---- control flow / exceptions ------------------------------------------------------------------------------------
		{"jmp", cat(op(sv.JMP, 3), pI(1), pI(2)), "i2", "NeoVM JMP: offset from the beginning of the instruction"},
		{"jmpif not taken", cat(op(sv.PUSHF), op(sv.JMPIF, 3), pI(1), pI(2)), "i1 i2", "NeoVM JMPIF"},
		{"jmpeq", cat(pI(1), op(sv.PUSHT), op(sv.JMPEQ, 3), pI(1), pI(2)), "i2", "NeoVM JMPEQ compares integers"},
		{"call", cat(op(sv.CALL, 4), pI(1), op(sv.RET), pI(2), op(sv.RET)), "i2 i1", "NeoVM CALL / RET: shared evaluation stack"},
		{"calla", cat(op(sv.PUSHA, 8, 0, 0, 0), op(sv.CALLA), pI(1), op(sv.RET), pI(2), op(sv.RET)), "i2 i1", "NeoVM PUSHA / CALLA"},
		{"abort in try", cat(op(sv.TRY, 4, 0), op(sv.ABORT), pI(1)), "FAULT", "NeoVM ABORT: cannot be caught"},
		{"assert false in try", cat(op(sv.TRY, 5, 0), op(sv.PUSHF), op(sv.ASSERT), pI(1)), "FAULT", "NeoVM ASSERT: FAULT, not an exception"},
		{"throw uncaught", cat(pI(1), op(sv.THROW)), "FAULT", "NeoVM THROW without handler"},
		{"try catch", cat(op(sv.TRY, 8, 0), pI(5), op(sv.THROW), op(sv.ENDTRY, 2), op(sv.RET), pI(6)), "i5 i6", "NeoVM TRY/THROW: the exception is pushed for the catch block"},
		{"try finally rethrow", cat(op(sv.TRY, 0, 5), pI(5), op(sv.THROW), pI(6), op(sv.ENDFINALLY), pI(7)), "FAULT", "NeoVM ENDFINALLY: rethrows the pending exception"},
		{"try finally normal", cat(op(sv.TRY, 0, 6), pI(5), op(sv.ENDTRY, 4), pI(6), op(sv.ENDFINALLY), pI(7)), "i5 i6 i7", "NeoVM ENDTRY: runs the finally block, then continues at the target"},
		{"try 0 0", op(sv.TRY, 0, 0), "FAULT", "NeoVM TRY: catch and finally offsets can't both be 0"},
		{"endfinally alone", op(sv.ENDFINALLY), "FAULT", "NeoVM ENDFINALLY without TRY"},
		{"try nesting 16", cat(rep3(sv.TRY, 0, 3, 16), pI(1)), "i1", "NeoVM MaxTryNestingDepth 16"},
		{"try nesting 17", cat(rep3(sv.TRY, 0, 3, 17), pI(1)), "FAULT", "NeoVM MaxTryNestingDepth 16"},
		{"initsslot 0", op(sv.INITSSLOT, 0), "FAULT", "NeoVM INITSSLOT: zero count"},
		{"initslot twice", cat(op(sv.INITSLOT, 1, 0), op(sv.INITSLOT, 1, 0)), "FAULT", "NeoVM INITSLOT: already initialised"},
		{"args order", cat(pI(1), pI(2), op(sv.INITSLOT, 0, 2), op(sv.LDARG0), op(sv.LDARG0+1)), "i2 i1", "NeoVM INITSLOT: the top of the stack is argument 0"},
		{"ldloc uninit", op(sv.LDLOC0), "FAULT", "NeoVM LDLOC without INITSLOT"},
		{"static shared with callee", cat(op(sv.INITSSLOT, 1), op(sv.CALL, 4), op(sv.LDSFLD0), op(sv.RET), pI(9), op(sv.STSFLD0), op(sv.RET)), "i9", "NeoVM static fields are shared by CALL contexts"},
		{"locals are per context", cat(op(sv.INITSLOT, 1, 0), op(sv.CALL, 4), op(sv.LDLOC0), op(sv.RET), op(sv.INITSLOT, 1, 0), pI(9), op(sv.STLOC0), op(sv.RET)), "null", "NeoVM local variables belong to one context"},
	}
}

func rep3(o sv.Op, a, b byte, n int) []byte {
	var out []byte
	for i := 0; i < n; i++ {
		out = append(out, byte(o), a, b)
	}
	return out
}

// selfTest runs the facts through the model alone.
func selfTest() (int, []string) {
	var bad []string
	fs := append(facts(), budgetFacts()...)
	for _, f := range fs {
		m := sv.Run(f.code, specStepLimit)
		got := "FAULT"
		switch {
		case m.Undet != "":
			got = "UNDETERMINED(" + m.Undet + ")"
		case m.State == sv.HALT:
			got = sv.Canon(m.Result)
		case m.State != sv.FAULT:
			got = m.State.String()
		}
		if got != f.want {
			bad = append(bad, fmt.Sprintf("%s [%s]: model gives %q (%s), reference fact is %q (source: %s)", f.name, disasm(f.code), got, m.FaultMsg, f.want, f.src))
		}
	}
	return len(fs), bad
}
