package c13

import (
	"encoding/binary"
	"fmt"
	"math/big"
	"sort"
	"strings"

	sv "verif/lib/specvm"
	"verif/lib/vk"
)

// ---- tiny assembler ------------------------------------------------------------

func cat(parts ...[]byte) []byte {
	var out []byte
	for _, p := range parts {
		out = append(out, p...)
	}
	return out
}

func op(o sv.Op, operand ...byte) []byte { return append([]byte{byte(o)}, operand...) }

func p2(k uint) *big.Int { return new(big.Int).Lsh(big.NewInt(1), k) }

func bi(x int64) *big.Int { return big.NewInt(x) }

func add(a *big.Int, d int64) *big.Int { return new(big.Int).Add(a, big.NewInt(d)) }

func neg(a *big.Int) *big.Int { return new(big.Int).Neg(a) }

// leBytes: two's complement little endian of x in exactly n bytes (x must fit).
func leBytes(x *big.Int, n int) []byte {
	v := new(big.Int).Set(x)
	if v.Sign() < 0 {
		v.Add(v, p2(uint(8*n)))
	}
	be := v.Bytes()
	out := make([]byte, n)
	for i := 0; i < len(be); i++ {
		out[i] = be[len(be)-1-i]
	}
	return out
}

func fitsBytes(x *big.Int, n int) bool {
	lim := p2(uint(8*n - 1))
	return x.Cmp(neg(lim)) >= 0 && x.Cmp(add(lim, -1)) <= 0
}

// pushB pushes an integer with PUSHM1..PUSH16 or the shortest PUSHINT*.
func pushB(x *big.Int) []byte {
	if x.IsInt64() && x.Int64() >= -1 && x.Int64() <= 16 {
		return []byte{byte(int64(sv.PUSH0) + x.Int64())}
	}
	for i, n := range []int{1, 2, 4, 8, 16, 32} {
		if fitsBytes(x, n) {
			return append([]byte{byte(int(sv.PUSHINT8) + i)}, leBytes(x, n)...)
		}
	}
	panic("integer does not fit 256 bits: " + x.String())
}

func pushI(x int64) []byte { return pushB(big.NewInt(x)) }

// pushD pushes a ByteString.
func pushD(d []byte) []byte {
	switch {
	case len(d) < 256:
		return cat([]byte{byte(sv.PUSHDATA1), byte(len(d))}, d)
	case len(d) < 65536:
		l := make([]byte, 2)
		binary.LittleEndian.PutUint16(l, uint16(len(d)))
		return cat([]byte{byte(sv.PUSHDATA2)}, l, d)
	}
	l := make([]byte, 4)
	binary.LittleEndian.PutUint32(l, uint32(len(d)))
	return cat([]byte{byte(sv.PUSHDATA4)}, l, d)
}

func convertTo(t sv.Type) []byte { return op(sv.CONVERT, byte(t)) }

// pushBuf pushes a Buffer with the given content.
func pushBuf(d []byte) []byte { return cat(pushD(d), convertTo(sv.TBuffer)) }

// zeros pushes a zero-filled Buffer (or ByteString) of n bytes without a long script.
func zeros(n int, asBytes bool) []byte {
	c := cat(pushI(int64(n)), op(sv.NEWBUFFER))
	if asBytes {
		c = cat(c, convertTo(sv.TByteString))
	}
	return c
}

// ---- value sets ---------------------------------------------------------------------

type val struct {
	Name string
	Code []byte
	Int  *big.Int // set for integer values
}

func ival(x *big.Int) val { return val{x.String(), pushB(x), x} }

func bval(d []byte) val { return val{Name: fmt.Sprintf("bytes(%x)", d), Code: pushD(d)} }

// hugeCount: the implementation's RIGHT allocates its result before it checks
// the count against the length of the string, so a count near 2^31 costs a
// 2 GB allocation per run. Such programs are not run in parallel sweeps (OOM
// guard); the limits section runs one of them on its own.
func hugeCount(o byte, top val) bool {
	return sv.Op(o) == sv.RIGHT && top.Int != nil && top.Int.IsInt64() && top.Int.Int64() > 1<<24 && top.Int.Int64() < 1<<31
}

func rep(b byte, n int) []byte { return []byte(strings.Repeat(string([]byte{b}), n)) }

// valuesV is the boundary value set V of the design.
func valuesV() []val {
	var v []val
	for _, x := range []int64{0, 1, -1, 2, -2} {
		v = append(v, ival(bi(x)))
	}
	for _, k := range []uint{7, 8, 15, 16, 31, 32, 63, 64, 127, 128, 255} {
		v = append(v, ival(add(p2(k), -1)))
		if k < 255 {
			v = append(v, ival(p2(k)), ival(add(p2(k), 1)))
		}
	}
	v = append(v, ival(neg(p2(255))), ival(add(neg(p2(255)), 1)))
	for _, k := range []uint{7, 31, 63, 127} {
		v = append(v, ival(neg(p2(k))))
	}
	v = append(v, ival(add(neg(p2(7)), -1)), ival(add(neg(p2(63)), -1)))
	for _, x := range []int64{3, 5, 7, 11, 256, 257} {
		v = append(v, ival(bi(x)))
	}
	// byte strings of length 0, 1, 31, 32, 33
	v = append(v,
		bval([]byte{}),
		bval([]byte{0x00}),
		bval([]byte{0x80}), // -128 as an integer
		bval([]byte{0x01, 0x00}),
		bval(rep(0xff, 31)),
		bval(append(rep(0x00, 31), 0x80)), // 32 bytes: -2^255
		bval(append(rep(0xff, 31), 0x7f)), // 32 bytes: 2^255-1
		bval(rep(0xff, 32)),               // 32 bytes: -1, non-minimal
		bval(rep(0x00, 33)),               // 33 bytes: too long for an integer
		bval(append(rep(0x00, 32), 0x01)), // 33 bytes, non-zero
		bval([]byte("abcdef")),
	)
	v = append(v, val{Name: "true", Code: op(sv.PUSHT)}, val{Name: "false", Code: op(sv.PUSHF)}, val{Name: "null", Code: op(sv.PUSHNULL)})
	return v
}

// valuesTyped adds one or more values of every other stack item type.
func valuesTyped() []val {
	return []val{
		{Name: "buffer()", Code: pushBuf(nil)},
		{Name: "buffer(01)", Code: pushBuf([]byte{1})},
		{Name: "buffer(abcdef)", Code: pushBuf([]byte("abcdef"))},
		{Name: "buffer(32:-2^255)", Code: pushBuf(append(rep(0, 31), 0x80))},
		{Name: "buffer(33)", Code: pushBuf(rep(0, 33))},
		{Name: "array[]", Code: op(sv.NEWARRAY0)},
		{Name: "array[1,2,3]", Code: cat(pushI(3), pushI(2), pushI(1), pushI(3), op(sv.PACK))},
		{Name: "struct[]", Code: op(sv.NEWSTRUCT0)},
		{Name: "struct[1,bytes(ab)]", Code: cat(pushD([]byte("ab")), pushI(1), pushI(2), op(sv.PACKSTRUCT))},
		{Name: "map{}", Code: op(sv.NEWMAP)},
		{Name: "map{1:2,bytes(01):3,true:4}", Code: cat(pushI(4), op(sv.PUSHT), pushI(3), pushD([]byte{1}), pushI(2), pushI(1), pushI(3), op(sv.PACKMAP))},
		{Name: "pointer", Code: op(sv.PUSHA, 0, 0, 0, 0)},
		{Name: "array[array[]]", Code: cat(op(sv.NEWARRAY0), pushI(1), op(sv.PACK))},
	}
}

// valuesBinary: V plus a few reference-typed values for the binary sweep.
func valuesBinary() []val {
	v := valuesV()
	t := valuesTyped()
	for _, i := range []int{1, 2, 5, 6, 8, 10, 11} {
		v = append(v, t[i])
	}
	return v
}

// valuesTernary is V'.
func valuesTernary() []val {
	return []val{
		ival(bi(0)), ival(bi(1)), ival(bi(-1)), ival(bi(2)), ival(bi(-2)), ival(bi(3)), ival(bi(5)), ival(bi(6)), ival(bi(7)),
		ival(p2(31)), ival(add(p2(255), -1)), ival(neg(p2(255))),
		bval([]byte("abcdef")), {Name: "buffer(abcdef)", Code: pushBuf([]byte("abcdef"))},
	}
}

// big values (MaxItemSize and the comparison limit) for selected opcodes.
func valuesBig() []val {
	const max = sv.MaxItemSize
	return []val{
		{Name: "buffer(MaxSize-1)", Code: zeros(max-1, false)},
		{Name: "buffer(MaxSize)", Code: zeros(max, false)},
		{Name: "buffer(MaxSize+1)", Code: zeros(max+1, false)}, // cannot be created
		{Name: "bytes(MaxSize)", Code: zeros(max, true)},
		{Name: "bytes(65535)", Code: zeros(65535, true)},
		{Name: "bytes(65536)", Code: zeros(65536, true)},
		{Name: "bytes(65537)", Code: zeros(65537, true)},
		{Name: "buffer(65536)", Code: zeros(65536, false)},
		ival(bi(max - 1)), ival(bi(max)), ival(bi(max + 1)),
		ival(bi(0)), ival(bi(1)), ival(bi(2)),
		bval([]byte{}), bval([]byte{0}), bval([]byte{0, 0}),
		{Name: "buffer(01)", Code: pushBuf([]byte{1})},
	}
}

// ---- operand variants of opcodes with immediate operands ---------------------------------

// variants returns, for an opcode byte, the instruction encodings to try
// (immediate operands) and a trailer to append (so that forward jumps have a
// target). Undefined bytes are tried bare.
func variants(b byte) (encs [][]byte, trailer []byte) {
	o := sv.Op(b)
	// two one-byte instructions that leave a trace: a jump/call to the second
	// one is visible in the result stack
	nops := []byte{byte(sv.PUSH5), byte(sv.PUSH6)}
	if !sv.Defined(b) {
		return [][]byte{{b}}, nil
	}
	fixed, prefix := sv.OperandSize(o)
	switch {
	case o <= sv.PUSHINT256:
		for _, pat := range [][2]byte{{0x00, 0x00}, {0xff, 0xff}, {0x00, 0x80}, {0xff, 0x7f}, {0x01, 0x00}} {
			a := rep(pat[0], fixed)
			a[fixed-1] = pat[1]
			encs = append(encs, op(o, a...))
		}
		encs = append(encs, op(o, rep(0, fixed-1)...)) // truncated operand
	case prefix > 0:
		l := make([]byte, prefix)
		encs = append(encs, op(o, l...)) // empty
		l[0] = 2
		encs = append(encs, cat(op(o, l...), []byte{0x01, 0x80}), cat(op(o, l...), []byte{0x01})) // 2 bytes; truncated
		// truncated length prefix (the script ends inside it), also none at all
		for k := 0; k < prefix; k++ {
			encs = append(encs, op(o, rep(0, k)...))
		}
		if prefix == 4 {
			// declared length just above MaxItemSize, data absent / present
			encs = append(encs, op(o, le32(sv.MaxItemSize+1)...), cat(op(o, le32(sv.MaxItemSize+1)...), rep(0, sv.MaxItemSize+1)),
				cat(op(o, le32(sv.MaxItemSize)...), rep(0, sv.MaxItemSize), op(sv.SIZE)), op(o, 0xff, 0xff, 0xff, 0xff), op(o, 0, 0, 0, 0x80))
		}
	case o == sv.PUSHA:
		for _, off := range []int32{0, 5, 7, 8, -1, -100} {
			encs = append(encs, op(o, le32(off)...))
		}
		trailer = nops
	case o >= sv.JMP && o <= sv.CALL_L:
		sz := 1 + fixed
		offs := []int{sz, sz + 1, sz + 2, 0, -1, 127}
		if o == sv.JMP || o == sv.JMP_L {
			offs = []int{sz, sz + 1, sz + 2, 127}
		}
		for _, off := range offs {
			if fixed == 1 {
				encs = append(encs, op(o, byte(int8(off))))
			} else {
				encs = append(encs, op(o, le32(int32(off))...))
			}
		}
		if fixed == 4 {
			encs = append(encs, op(o, le32(1<<30)...), op(o, le32(-1<<31)...))
		}
		trailer = nops
	case o == sv.TRY:
		for _, cf := range [][2]int8{{0, 0}, {3, 0}, {0, 3}, {3, 4}, {4, 5}, {-1, 0}, {0, 100}} {
			encs = append(encs, op(o, byte(cf[0]), byte(cf[1])))
		}
		trailer = nops
	case o == sv.TRY_L:
		for _, cf := range [][2]int32{{0, 0}, {9, 0}, {0, 9}, {9, 10}, {1 << 30, 0}} {
			encs = append(encs, op(o, append(le32(cf[0]), le32(cf[1])...)...))
		}
		trailer = nops
	case o == sv.ENDTRY:
		for _, off := range []int8{2, 3, 4, 0, -1} {
			encs = append(encs, op(o, byte(off)))
		}
		trailer = nops
	case o == sv.ENDTRY_L:
		for _, off := range []int32{5, 6, 7, 0} {
			encs = append(encs, op(o, le32(off)...))
		}
		trailer = nops
	case o == sv.INITSSLOT:
		for _, n := range []byte{0, 1, 2, 255} {
			encs = append(encs, op(o, n))
		}
	case o == sv.INITSLOT:
		for _, la := range [][2]byte{{0, 0}, {1, 0}, {0, 1}, {1, 1}, {0, 2}, {2, 2}, {255, 3}} {
			encs = append(encs, op(o, la[0], la[1]))
		}
	case o == sv.NEWARRAY_T, o == sv.ISTYPE, o == sv.CONVERT:
		for _, t := range allTypeBytes() {
			encs = append(encs, op(o, t))
		}
	case fixed > 0:
		// LDSFLD/STSFLD/LDLOC/..., SYSCALL, CALLT
		encs = append(encs, op(o, rep(0, fixed)...))
		a := rep(0, fixed)
		a[0] = 1
		encs = append(encs, op(o, a...), op(o, rep(0xff, fixed)...))
	default:
		encs = [][]byte{{b}}
	}
	return encs, trailer
}

func allTypeBytes() []byte {
	return []byte{0x00, 0x10, 0x20, 0x21, 0x28, 0x30, 0x40, 0x41, 0x48, 0x60, 0x01, 0x22, 0x50, 0xff}
}

func le32(x int32) []byte {
	b := make([]byte, 4)
	binary.LittleEndian.PutUint32(b, uint32(x))
	return b
}

func encName(e []byte) string {
	if !sv.Defined(e[0]) {
		return fmt.Sprintf("0x%02x", e[0])
	}
	if len(e) == 1 {
		return sv.Op(e[0]).Name()
	}
	if len(e) > 40 {
		return fmt.Sprintf("%s(%x..,%d bytes)", sv.Op(e[0]).Name(), e[1:9], len(e)-1)
	}
	return fmt.Sprintf("%s(%x)", sv.Op(e[0]).Name(), e[1:])
}

func className(e []byte) string {
	if !sv.Defined(e[0]) {
		return "undefined"
	}
	return sv.Op(e[0]).Name()
}

// ---- sections --------------------------------------------------------------------------------

func sections(r *vk.Run) []section {
	V := valuesV()
	V1 := append(append([]val{}, V...), valuesTyped()...)
	V2 := valuesBinary()
	V3 := valuesTernary()
	VB := valuesBig()
	var secs []section

	// every opcode byte (all 256, all operand variants) on an empty stack
	secs = append(secs, section{"nullary", 1, func(_ int, emit func(prog)) {
		for b := 0; b < 256; b++ {
			encs, tr := variants(byte(b))
			for _, e := range encs {
				emit(prog{Key: encName(e) + ":", Class: className(e), Script: cat(e, tr)})
			}
		}
	}})
	// every opcode over V (plus a value of every type): includes every
	// CONVERT/ISTYPE/NEWARRAY_T type byte over a value of each type.
	secs = append(secs, section{"unary", len(V1), func(j int, emit func(prog)) {
		for b := 0; b < 256; b++ {
			encs, tr := variants(byte(b))
			for _, e := range encs {
				emit(prog{Key: encName(e) + ":" + V1[j].Name, Class: className(e), Script: cat(V1[j].Code, e, tr)})
			}
		}
	}})
	// every opcode over V x V
	secs = append(secs, section{"binary", len(V2) * len(V2), func(j int, emit func(prog)) {
		a, c := V2[j/len(V2)], V2[j%len(V2)]
		for b := 0; b < 256; b++ {
			if !sv.Defined(byte(b)) || hugeCount(byte(b), c) {
				continue
			}
			encs, tr := variants(byte(b))
			if !r.Thorough() && len(encs) > 3 && sv.Op(b) != sv.CONVERT {
				encs = encs[:3] // quick: the first operand variants only
			}
			for _, e := range encs {
				emit(prog{Key: encName(e) + ":" + a.Name + "," + c.Name, Class: className(e), Script: cat(a.Code, c.Code, e, tr)})
			}
		}
	}})
	// every operand-less opcode over V'^3
	secs = append(secs, section{"ternary", len(V3) * len(V3), func(j int, emit func(prog)) {
		a, c := V3[j/len(V3)], V3[j%len(V3)]
		for _, d := range V3 {
			for b := 0; b < 256; b++ {
				if !sv.Defined(byte(b)) {
					continue
				}
				if f, p := sv.OperandSize(sv.Op(b)); f != 0 || p != 0 {
					continue
				}
				emit(prog{Key: sv.Op(b).Name() + ":" + a.Name + "," + c.Name + "," + d.Name, Class: sv.Op(b).Name(), Script: cat(a.Code, c.Code, d.Code, []byte{byte(b)})})
			}
		}
	}})
	// MEMCPY has five operands: dst di src si n, with and without aliasing.
	secs = append(secs, section{"memcpy", 1, func(_ int, emit func(prog)) {
		dsts := []val{{Name: "buffer(abcdef)", Code: pushBuf([]byte("abcdef"))}, {Name: "buffer()", Code: pushBuf(nil)}, bval([]byte("abcdef"))}
		srcs := []val{bval([]byte("uvwxyz")), {Name: "buffer(uvw)", Code: pushBuf([]byte("uvw"))}, ival(bi(0x010203)), {Name: "<dst itself>", Code: cat(pushI(2), op(sv.PICK))}, {Name: "null", Code: op(sv.PUSHNULL)}}
		for _, d := range dsts {
			for _, di := range []int64{-1, 0, 1, 5, 6, 7} {
				for _, s := range srcs {
					for _, si := range []int64{-1, 0, 2, 3, 6, 7} {
						for _, n := range []int64{-1, 0, 1, 3, 4, 6, 7} {
							emit(prog{Key: fmt.Sprintf("MEMCPY:%s,%d,%s,%d,%d", d.Name, di, s.Name, si, n), Class: "MEMCPY",
								Script: cat(d.Code, op(sv.DUP), pushI(di), s.Code, pushI(si), pushI(n), op(sv.MEMCPY))})
						}
					}
				}
			}
		}
	}})
	// MaxItemSize / comparison-limit values: every operand-less opcode, one and two operands
	secs = append(secs, section{"big-values", len(VB), func(j int, emit func(prog)) {
		a := VB[j]
		for b := 0; b < 256; b++ {
			if !sv.Defined(byte(b)) {
				continue
			}
			if f, p := sv.OperandSize(sv.Op(b)); f != 0 || p != 0 {
				if o := sv.Op(b); o != sv.CONVERT && o != sv.ISTYPE {
					continue
				}
			}
			encs, _ := variants(byte(b))
			for _, e := range encs {
				emit(prog{Key: encName(e) + ":" + a.Name, Class: className(e), Script: cat(a.Code, e)})
			}
		}
		for _, c := range VB {
			for _, o := range []sv.Op{sv.CAT, sv.SUBSTR, sv.LEFT, sv.RIGHT, sv.EQUAL, sv.NOTEQUAL, sv.NEWBUFFER, sv.PICKITEM, sv.HASKEY, sv.SETITEM, sv.MEMCPY, sv.APPEND, sv.NUMEQUAL, sv.ADD, sv.BOOLAND, sv.PACK, sv.PACKSTRUCT} {
				emit(prog{Key: o.Name() + ":" + a.Name + "," + c.Name, Class: o.Name(), Script: cat(a.Code, c.Code, op(o))})
				// the same item twice (identity)
				emit(prog{Key: o.Name() + ":" + a.Name + ",<same>", Class: o.Name(), Script: cat(a.Code, op(sv.DUP), op(o))})
			}
			for _, d := range []int64{0, 1, 65535, 65536, sv.MaxItemSize - 1, sv.MaxItemSize} {
				emit(prog{Key: fmt.Sprintf("SUBSTR:%s,%s,%d", a.Name, c.Name, d), Class: "SUBSTR", Script: cat(a.Code, c.Code, pushI(d), op(sv.SUBSTR))})
			}
		}
	}})
	secs = append(secs, seqSection(r), trySection(r), compoundSection(r), limitSection(), slotSection(r), freshSection(), freshCompoundSection(),
		sameItemSection(), setitemBufferSection(), structEqualSection(), preGorgonSection(), hostSection())
	secs = append(secs, layoutSections(r)...)
	secs = append(secs, budgetSections(r)...)
	secs = append(secs, reuseSections(r)...)
	// cheap and diverse sections first, the big sweeps last (the deadline, if
	// it ever strikes, then cuts the most redundant part).
	order := map[string]int{"nullary": 0, "limits": 1, "unary": 2, "memcpy": 3, "big-values": 4, "try-nests(depth2)": 5}
	rank := func(s section) int {
		if k, ok := order[s.name]; ok {
			return k
		}
		switch {
		case strings.HasPrefix(s.name, "layout-"), strings.HasPrefix(s.name, "budget-"):
			return 5
		case strings.HasPrefix(s.name, "reuse-"):
			if s.name == "reuse-triples" && r.Thorough() {
				return 9
			}
			return 2
		case strings.HasPrefix(s.name, "compound"):
			if r.Thorough() {
				return 10 // len 4: the largest section of the thorough tier goes last
			}
			return 6
		case strings.HasPrefix(s.name, "slots"), strings.HasPrefix(s.name, "result-freshness"),
			s.name == "same-item", s.name == "setitem-buffer", s.name == "struct-equal", strings.HasPrefix(s.name, "pre-gorgon"), s.name == "host-scripts":
			return 6
		case s.name == "binary":
			return 7
		case s.name == "ternary":
			return 8
		}
		return 9
	}
	sort.SliceStable(secs, func(i, j int) bool { return rank(secs[i]) < rank(secs[j]) })
	return secs
}

// ---- all instruction sequences -----------------------------------------------------------------

func seqAlphabet() []sv.Op {
	return []sv.Op{
		sv.DUP, sv.DROP, sv.SWAP, sv.OVER, sv.ROT, sv.NIP, sv.TUCK, sv.DEPTH, sv.PICK, sv.ROLL, sv.REVERSE3, sv.XDROP,
		sv.ADD, sv.SUB, sv.MUL, sv.DIV, sv.MOD, sv.NEGATE, sv.INC, sv.DEC, sv.ABS, sv.SIGN, sv.SHL, sv.SHR, sv.POW, sv.SQRT, sv.MODMUL, sv.MODPOW,
		sv.AND, sv.OR, sv.XOR, sv.INVERT, sv.NOT, sv.BOOLAND, sv.BOOLOR, sv.NZ, sv.NUMEQUAL, sv.EQUAL, sv.LT, sv.GE, sv.MIN, sv.MAX, sv.WITHIN,
		sv.CAT, sv.LEFT, sv.SIZE, sv.PACK, sv.UNPACK, sv.PICKITEM, sv.ISNULL,
	}
}

func seqValues(r *vk.Run) []val {
	v := []val{ival(bi(0)), ival(bi(1)), ival(bi(-1)), ival(add(p2(255), -1)), ival(neg(p2(255)))}
	if r.Thorough() {
		v = append(v, bval([]byte{0x00, 0x80}))
	}
	return v
}

func seqSection(r *vk.Run) section {
	alpha := seqAlphabet()
	vals := seqValues(r)
	depth := vk.Pick(r, 2, 3)
	nv := len(vals)
	// one job per (operand triple, first opcode)
	return section{fmt.Sprintf("sequences(len<=%d)", depth), nv * nv * nv * len(alpha), func(j int, emit func(prog)) {
		first := alpha[j%len(alpha)]
		t := j / len(alpha)
		a, b, c := vals[t/(nv*nv)], vals[(t/nv)%nv], vals[t%nv]
		prefix := cat(a.Code, b.Code, c.Code)
		operands := a.Name + "," + b.Name + "," + c.Name
		var rec func(seq []sv.Op)
		rec = func(seq []sv.Op) {
			names := make([]string, len(seq))
			code := append([]byte{}, prefix...)
			for i, o := range seq {
				names[i] = o.Name()
				code = append(code, byte(o))
			}
			emit(prog{Key: strings.Join(names, ",") + ":" + operands, Class: seq[len(seq)-1].Name(), Script: code})
			if len(seq) < depth {
				for _, o := range alpha {
					rec(append(append([]sv.Op{}, seq...), o))
				}
			}
		}
		rec([]sv.Op{first})
	}}
}

// ---- structured TRY / CATCH / FINALLY / CALL nests ------------------------------------------------

// A node of a structured program.
type node struct {
	kind  string // "mark", "throw", "try", "call"
	shape string // try: "TC", "TF", "TCF"
	body  []*node
	catch []*node
	fin   []*node
	fn    int // call: index of the function
}

type asmCtx struct {
	mark int
	desc []string
}

// emitNodes assembles statements; every executed position leaves a marker on
// the stack, so that the result stack is the trace of the path taken.
func (c *asmCtx) nodes(ns []*node, fnOffsets func(fn int, at int) int32, base int) []byte {
	var out []byte
	for _, n := range ns {
		out = append(out, c.one(n, fnOffsets, base+len(out))...)
	}
	return out
}

func (c *asmCtx) marker() []byte {
	c.mark++
	return op(sv.PUSHINT8, byte(c.mark))
}

func (c *asmCtx) one(n *node, fnOff func(fn int, at int) int32, base int) []byte {
	switch n.kind {
	case "mark":
		return c.marker()
	case "throw":
		return cat(c.marker(), op(sv.THROW))
	case "engine":
		return cat(c.marker(), op(sv.NEWARRAY0), pushI(0), op(sv.PICKITEM))
	case "abort":
		return cat(c.marker(), op(sv.ABORT))
	case "endtry":
		return cat(c.marker(), op(sv.ENDTRY, 2))
	case "endfinally":
		return cat(c.marker(), op(sv.ENDFINALLY))
	case "ret":
		return cat(c.marker(), op(sv.RET))
	case "call":
		return op(sv.CALL_L, le32(fnOff(n.fn, base))...)
	case "try":
		// TRY_L c f | body | ENDTRY_L end | catch: catchbody ENDTRY_L end | fin: finbody ENDFINALLY | end:
		const tryLen, endLen = 9, 5
		body := c.nodes(n.body, fnOff, base+tryLen)
		var catchB, finB []byte
		pos := base + tryLen + len(body) + endLen
		catchAt, finAt := 0, 0
		if n.shape != "TF" {
			catchAt = pos
			catchB = c.nodes(n.catch, fnOff, pos)
			pos += len(catchB) + endLen
		}
		if n.shape != "TC" {
			finAt = pos
			finB = c.nodes(n.fin, fnOff, pos)
			pos += len(finB) + 1
		}
		end := pos
		co, fo := int32(0), int32(0)
		if catchAt != 0 {
			co = int32(catchAt - base)
		}
		if finAt != 0 {
			fo = int32(finAt - base)
		}
		out := op(sv.TRY_L, append(le32(co), le32(fo)...)...)
		out = append(out, body...)
		at := base + len(out)
		out = append(out, op(sv.ENDTRY_L, le32(int32(end-at))...)...)
		if catchAt != 0 {
			out = append(out, catchB...)
			at = base + len(out)
			out = append(out, op(sv.ENDTRY_L, le32(int32(end-at))...)...)
		}
		if finAt != 0 {
			out = append(out, finB...)
			out = append(out, byte(sv.ENDFINALLY))
		}
		return out
	}
	panic("bad node")
}

func describe(ns []*node) string {
	var p []string
	for _, n := range ns {
		switch n.kind {
		case "mark":
			p = append(p, "m")
		case "throw":
			p = append(p, "throw")
		case "engine":
			p = append(p, "pickitem-out-of-range")
		case "abort":
			p = append(p, "abort")
		case "endtry", "endfinally", "ret":
			p = append(p, n.kind)
		case "call":
			p = append(p, fmt.Sprintf("call%d", n.fn))
		case "try":
			s := "try{" + describe(n.body) + "}"
			if n.shape != "TF" {
				s += "catch{" + describe(n.catch) + "}"
			}
			if n.shape != "TC" {
				s += "finally{" + describe(n.fin) + "}"
			}
			p = append(p, s)
		}
	}
	return strings.Join(p, ";")
}

// assemble builds: main ; RET ; fn0 ; RET ; fn1 ; RET ... (two passes: function
// offsets depend on sizes only, which do not depend on the offsets).
func assemble(main []*node, fns [][]*node) []byte {
	starts := make([]int, len(fns))
	build := func() []byte {
		c := &asmCtx{}
		off := func(fn, at int) int32 { return int32(starts[fn] - at) }
		out := c.nodes(main, off, 0)
		out = append(out, byte(sv.RET))
		for i, f := range fns {
			starts[i] = len(out)
			out = append(out, c.nodes(f, off, len(out))...)
			out = append(out, byte(sv.RET))
		}
		return out
	}
	build()
	return build()
}

var mk = &node{kind: "mark"}
var thr = &node{kind: "throw"}
var eng = &node{kind: "engine"}     // exception raised by the engine: PICKITEM out of range
var abt = &node{kind: "abort"}      // ABORT: not catchable
var etr = &node{kind: "endtry"}     // a stray ENDTRY to the next instruction (faults inside a finally block, leaves the block elsewhere)
var efn = &node{kind: "endfinally"} // a stray ENDFINALLY
var rtn = &node{kind: "ret"}        // RET out of the block

func tryNode(shape string, body, catch, fin []*node) *node {
	return &node{kind: "try", shape: shape, body: body, catch: catch, fin: fin}
}

// regionFills: what a region of a try statement can contain.
// depth 1: marker | throw. depth 2 adds every inner try statement (all three
// shapes with marker|throw in each of its regions), a call of a function that
// throws, and a call of a function made of each inner try statement.
func innerTries() []*node {
	var out []*node
	fill := [][]*node{{mk}, {thr}}
	for _, sh := range []string{"TC", "TF", "TCF"} {
		for _, b := range fill {
			for _, x := range fill {
				if sh == "TCF" {
					for _, y := range fill {
						out = append(out, tryNode(sh, b, x, y))
					}
				} else if sh == "TC" {
					out = append(out, tryNode(sh, b, x, nil))
				} else {
					out = append(out, tryNode(sh, b, nil, x))
				}
			}
		}
	}
	return out
}

type fillOpt struct {
	ns []*node
	fn []*node // body of the function the fill calls (nil: none)
}

func regionFills() []fillOpt {
	opts := []fillOpt{{ns: []*node{mk}}, {ns: []*node{thr}}, {ns: []*node{eng, mk}}, {ns: []*node{abt}},
		{ns: []*node{etr, mk}}, {ns: []*node{efn, mk}}, {ns: []*node{rtn}}}
	for _, in := range innerTries() {
		opts = append(opts, fillOpt{ns: []*node{mk, in, mk}})
	}
	opts = append(opts, fillOpt{ns: []*node{mk, {kind: "call"}, mk}, fn: []*node{mk, thr}})
	for _, in := range innerTries() {
		opts = append(opts, fillOpt{ns: []*node{mk, {kind: "call"}, mk}, fn: []*node{mk, in, mk}})
	}
	return opts
}

func trySection(r *vk.Run) section {
	fills := regionFills()
	nf := len(fills)
	shapes := []string{"TC", "TF", "TCF"}
	// job = (shape, fill of the try body); the job enumerates the other regions
	return section{"try-nests(depth2)", len(shapes) * nf, func(j int, emit func(prog)) {
		sh := shapes[j/nf]
		fb := fills[j%nf]
		build := func(regs []fillOpt, wrap bool) {
			var fns [][]*node
			bind := func(f fillOpt) []*node {
				if f.fn == nil {
					return f.ns
				}
				fns = append(fns, f.fn)
				ns := make([]*node, len(f.ns))
				for i, n := range f.ns {
					if n.kind == "call" {
						n = &node{kind: "call", fn: len(fns) - 1}
					}
					ns[i] = n
				}
				return ns
			}
			var t *node
			switch sh {
			case "TC":
				t = tryNode(sh, bind(regs[0]), bind(regs[1]), nil)
			case "TF":
				t = tryNode(sh, bind(regs[0]), nil, bind(regs[1]))
			default:
				t = tryNode(sh, bind(regs[0]), bind(regs[1]), bind(regs[2]))
			}
			main := []*node{mk, t, mk}
			if wrap {
				// the whole statement runs in a function called from a
				// try/catch in main: unwinding across contexts
				fns = append(fns, main)
				main = []*node{mk, tryNode("TC", []*node{{kind: "call", fn: len(fns) - 1}, mk}, []*node{mk}, nil), mk}
			}
			d := describe(main)
			for i, f := range fns {
				d += fmt.Sprintf("|f%d{%s}", i, describe(f))
			}
			emit(prog{Key: "TRY:" + d, Class: "TRY-" + sh, Script: assemble(main, fns)})
		}
		for _, f2 := range fills {
			if sh == "TCF" {
				for _, f3 := range fills {
					build([]fillOpt{fb, f2, f3}, false)
					if r.Thorough() {
						build([]fillOpt{fb, f2, f3}, true)
					}
				}
			} else {
				build([]fillOpt{fb, f2}, false)
				build([]fillOpt{fb, f2}, true)
			}
		}
	}}
}

// ---- compound types with aliasing ------------------------------------------------------------------

type cop struct {
	Name string
	Code []byte
}

func compoundAlphabet() []cop {
	o := func(x sv.Op) cop { return cop{x.Name(), op(x)} }
	return []cop{
		{"PUSH0", pushI(0)}, {"PUSH1", pushI(1)}, {"PUSH2", pushI(2)}, {"PUSHM1", pushI(-1)}, {"bytes(01)", pushD([]byte{1})}, {Name: "PUSHT", Code: op(sv.PUSHT)}, {Name: "PUSHNULL", Code: op(sv.PUSHNULL)},
		o(sv.DUP), o(sv.SWAP), o(sv.OVER), o(sv.DROP), o(sv.ROT),
		o(sv.APPEND), o(sv.SETITEM), o(sv.PICKITEM), o(sv.REMOVE), o(sv.HASKEY), o(sv.SIZE), o(sv.KEYS), o(sv.VALUES),
		o(sv.UNPACK), o(sv.PACK), o(sv.PACKSTRUCT), o(sv.PACKMAP), o(sv.REVERSEITEMS), o(sv.CLEARITEMS), o(sv.POPITEM),
		o(sv.NEWARRAY0), o(sv.NEWSTRUCT0), o(sv.NEWMAP), o(sv.NEWARRAY), o(sv.NEWSTRUCT), o(sv.EQUAL),
		{"CONVERT(Array)", convertTo(sv.TArray)}, {"CONVERT(Struct)", convertTo(sv.TStruct)}, {Name: "ISTYPE(Struct)", Code: op(sv.ISTYPE, byte(sv.TStruct))},
	}
}

// compoundPrefixes set up stacks with aliasing.
func compoundPrefixes() []val {
	arr123 := cat(pushI(3), pushI(2), pushI(1), pushI(3), op(sv.PACK))
	st12 := cat(pushI(2), pushI(1), pushI(2), op(sv.PACKSTRUCT))
	return []val{
		{Name: "[a,a] a=[]", Code: cat(op(sv.NEWARRAY0), op(sv.DUP))},
		{Name: "[a,a] a=[1,2,3]", Code: cat(arr123, op(sv.DUP))},
		{Name: "[s,s] s=struct[1,2]", Code: cat(st12, op(sv.DUP))},
		// a = [clone of s] (APPEND clones), s stays separate
		{Name: "[s,a] s=struct[1,2] a=[s']", Code: cat(st12, op(sv.NEWARRAY0), op(sv.DUP), pushI(2), op(sv.PICK), op(sv.APPEND))},
		// a = [s] without cloning (PACK does not clone): struct inside array, aliased
		{Name: "[s,a] s=struct[1,2] a=[s]", Code: cat(st12, op(sv.DUP), pushI(1), op(sv.PACK))},
		{Name: "[m,m] m={1:10,bytes(01):11,true:12}", Code: cat(pushI(12), op(sv.PUSHT), pushI(11), pushD([]byte{1}), pushI(10), pushI(1), pushI(3), op(sv.PACKMAP), op(sv.DUP))},
		{Name: "[b,b] b=buffer(010203)", Code: cat(pushBuf([]byte{1, 2, 3}), op(sv.DUP))},
		{Name: "[a,m] m={1:a} a=[1,2,3]", Code: cat(arr123, op(sv.DUP), pushI(1), pushI(1), op(sv.PACKMAP))},
		{Name: "[t,t] t=struct[struct[1,2],array[]]", Code: cat(op(sv.NEWARRAY0), st12, pushI(2), op(sv.PACKSTRUCT), op(sv.DUP))},
	}
}

func compoundSection(r *vk.Run) section {
	alpha := compoundAlphabet()
	pre := compoundPrefixes()
	depth := vk.Pick(r, 3, 4)
	return section{fmt.Sprintf("compound-aliasing(len<=%d)", depth), len(pre) * len(alpha), func(j int, emit func(prog)) {
		p := pre[j/len(alpha)]
		first := j % len(alpha)
		var rec func(seq []int)
		rec = func(seq []int) {
			names := make([]string, len(seq))
			code := append([]byte{}, p.Code...)
			for i, k := range seq {
				names[i] = alpha[k].Name
				code = append(code, alpha[k].Code...)
			}
			emit(prog{Key: strings.Join(names, ",") + ":" + p.Name, Class: alpha[seq[len(seq)-1]].Name, Script: code})
			if len(seq) < depth {
				for k := range alpha {
					rec(append(append([]int{}, seq...), k))
				}
			}
		}
		rec([]int{first})
	}}
}

// ---- programs at the limits --------------------------------------------------------------------------

func limitSection() section {
	return section{"limits", 1, func(_ int, emit func(prog)) {
		e := func(key string, code ...[]byte) {
			emit(prog{Key: "LIMIT:" + key, Class: "limit-" + strings.SplitN(key, "(", 2)[0], Script: cat(code...)})
		}
		for _, n := range []int64{2046, 2047, 2048, 2049} {
			ns := fmt.Sprint(n)
			e("NEWARRAY("+ns+")", pushI(n), op(sv.NEWARRAY))
			e("NEWSTRUCT("+ns+")", pushI(n), op(sv.NEWSTRUCT))
			e("NEWARRAY_T-int("+ns+")", pushI(n), op(sv.NEWARRAY_T, byte(sv.TInteger)))
			e("NEWARRAY,DUP("+ns+")", pushI(n), op(sv.NEWARRAY), op(sv.DUP))
			e("NEWARRAY,UNPACK("+ns+")", pushI(n), op(sv.NEWARRAY), op(sv.UNPACK))
			e("NEWARRAY,UNPACK,PACK("+ns+")", pushI(n), op(sv.NEWARRAY), op(sv.UNPACK), op(sv.PACK))
			e("NEWARRAY,VALUES("+ns+")", pushI(n), op(sv.NEWARRAY), op(sv.VALUES))
			e("NEWARRAY,DUP,VALUES("+ns+")", pushI(n), op(sv.NEWARRAY), op(sv.DUP), op(sv.VALUES))
			e("NEWARRAY,DROP,NEWARRAY("+ns+")", pushI(n), op(sv.NEWARRAY), op(sv.DROP), pushI(n), op(sv.NEWARRAY))
		}
		for _, n := range []int64{1020, 1021, 1022, 1023, 1024, 1025} {
			ns := fmt.Sprint(n)
			// array of n elements referenced twice and unpacked once: 1 + n (children) + n + 1
			e("NEWARRAY,DUP,UNPACK("+ns+")", pushI(n), op(sv.NEWARRAY), op(sv.DUP), op(sv.UNPACK))
			// two arrays sharing nothing: 2 + 2n
			e("NEWARRAY,NEWARRAY("+ns+")", pushI(n), op(sv.NEWARRAY), pushI(n), op(sv.NEWARRAY))
			// nested: b = [a], a has n elements: stack 1 + 1 + n ; then DUP etc.
			e("NEWARRAY,1,PACK,DUP,PICKITEM0("+ns+")", pushI(n), op(sv.NEWARRAY), pushI(1), op(sv.PACK), op(sv.DUP), pushI(0), op(sv.PICKITEM), op(sv.UNPACK))
			// map with n entries costs 2n: build with a loop is long; use PACKMAP of PUSHed pairs for small n only
		}
		// n PUSH1 in a row: the evaluation stack itself
		for _, n := range []int{2047, 2048, 2049} {
			e(fmt.Sprintf("PUSH1x(%d)", n), rep(byte(sv.PUSH1), n))
			e(fmt.Sprintf("PUSH1x,DEPTH(%d)", n), rep(byte(sv.PUSH1), n), op(sv.DEPTH))
			e(fmt.Sprintf("PUSH1x,PACK-all(%d)", n), rep(byte(sv.PUSH1), n-1), op(sv.DEPTH), op(sv.PACK))
		}
		// slots count: INITSSLOT 255 + INITSLOT 255 255(args need 255 items) ...
		e("INITSSLOT255,INITSLOT255-0", op(sv.INITSSLOT, 255), op(sv.INITSLOT, 255, 0), op(sv.DEPTH))
		for _, n := range []int64{1535, 1536, 1537, 1538, 1539} {
			e(fmt.Sprintf("slots510+NEWARRAY(%d)", n), op(sv.INITSSLOT, 255), op(sv.INITSLOT, 255, 0), pushI(n), op(sv.NEWARRAY))
		}
		// map entries count twice (key and value): PACKMAP of n pairs, then DUP, KEYS, VALUES
		for _, n := range []int{600, 681, 682, 683, 684, 1023, 1024} {
			var c []byte
			for i := n; i >= 1; i-- {
				c = append(c, pushI(0)...)        // value
				c = append(c, pushI(int64(i))...) // key
			}
			c = append(c, pushI(int64(n))...)
			c = append(c, byte(sv.PACKMAP))
			e(fmt.Sprintf("PACKMAP(%d)", n), c)
			e(fmt.Sprintf("PACKMAP,DUP,KEYS(%d)", n), c, op(sv.DUP), op(sv.KEYS))
			e(fmt.Sprintf("PACKMAP,DUP,VALUES(%d)", n), c, op(sv.DUP), op(sv.VALUES))
			e(fmt.Sprintf("PACKMAP,UNPACK(%d)", n), c, op(sv.UNPACK))
			e(fmt.Sprintf("PACKMAP,DUP,UNPACK(%d)", n), c, op(sv.DUP), op(sv.UNPACK))
		}
		// TRY nesting limit per context: k nested TRYs, then fall off the end.
		for _, k := range []int{15, 16, 17} {
			var c []byte
			for i := 0; i < k; i++ {
				c = append(c, op(sv.TRY, 0, 3)...) // finally = next instruction
			}
			c = append(c, pushI(int64(k))...)
			e(fmt.Sprintf("TRYx(%d)", k), c)
			// a CALL starts a new context with its own nesting budget
			var d []byte
			for i := 0; i < 16; i++ {
				d = append(d, op(sv.TRY, 0, 3)...)
			}
			d = append(d, op(sv.CALL, 3)...) // to the function after RET
			d = append(d, byte(sv.RET))
			for i := 0; i < k; i++ {
				d = append(d, op(sv.TRY, 0, 3)...)
			}
			d = append(d, pushI(int64(k))...)
			d = append(d, byte(sv.RET))
			e(fmt.Sprintf("TRYx16,CALL,TRYx(%d)", k), d)
		}
		// invocation depth: f(n) calls f(n-1) until 0.
		for _, n := range []int64{10, 1021, 1022, 1023, 1024, 1025} {
			// PUSH n; CALL f; RET; f: DUP; JMPIFNOT end; DEC; CALL f; end: RET
			f := cat(op(sv.DUP), op(sv.JMPIFNOT, 5), op(sv.DEC), op(sv.CALL, 0xfc /* -4: back to f */), op(sv.RET))
			e(fmt.Sprintf("recursion(%d)", n), pushI(n), op(sv.CALL, 3), op(sv.RET), f)
		}
		// bounded loops with backward jumps (short and long forms, every compare)
		for _, n := range []int64{0, 1, 5, 300} {
			// acc=0; i=n; while i > 0 { acc += i; i-- }  -> acc
			// PUSH0 PUSH n | loop: DUP PUSH0 JMPLE end | DUP ROT ADD SWAP DEC JMP loop | end: DROP
			head := cat(pushI(0), pushI(n))
			body := cat(op(sv.DUP), pushI(0), op(sv.JMPLE, 9), op(sv.DUP), op(sv.ROT), op(sv.ADD), op(sv.SWAP), op(sv.DEC), op(sv.JMP, 0xf7 /* -9 */))
			e(fmt.Sprintf("loop-sum-JMPLE(%d)", n), head, body, op(sv.DROP))
			bodyL := cat(op(sv.DUP), pushI(0), op(sv.JMPLE_L, le32(15)...), op(sv.DUP), op(sv.ROT), op(sv.ADD), op(sv.SWAP), op(sv.DEC), op(sv.JMP_L, le32(-12)...))
			e(fmt.Sprintf("loop-sum-JMPLE_L(%d)", n), head, bodyL, op(sv.DROP))
			// count down with JMPIF: PUSH n | loop: DUP JMPIFNOT end | DEC JMP loop | end:
			e(fmt.Sprintf("loop-JMPIFNOT(%d)", n), pushI(n), op(sv.DUP), op(sv.JMPIFNOT, 5), op(sv.DEC), op(sv.JMP, 0xfc), op(sv.DEPTH))
			// do { i-- } while (i >= 0) with JMPGE backwards
			e(fmt.Sprintf("loop-JMPGE-back(%d)", n), pushI(n), op(sv.DEC), op(sv.DUP), pushI(0), op(sv.JMPGE, 0xfd), op(sv.DEPTH))
		}
		// RIGHT with the largest int32 count (the implementation allocates 2 GB
		// before it rejects it: run here, alone)
		e("RIGHT(bytes(abc),2^31-1)", pushD([]byte("abc")), pushI(1<<31-1), op(sv.RIGHT))
		// endless recursion / endless pushing end by a limit, not by luck
		e("CALL-self", op(sv.CALL, 0))
		e("PUSH1,JMP-back", op(sv.PUSH1), op(sv.JMP, 0xff))
		// struct clone limit: s with 2047 / 2048 elements appended to an array
		for _, n := range []int64{1022, 1023, 1024} {
			e(fmt.Sprintf("NEWSTRUCT,APPEND-clone(%d)", n), op(sv.NEWARRAY0), op(sv.DUP), pushI(n), op(sv.NEWSTRUCT), op(sv.APPEND))
			e(fmt.Sprintf("NEWSTRUCT,DUP,EQUAL(%d)", n), pushI(n), op(sv.NEWSTRUCT), op(sv.DUP), op(sv.EQUAL))
			e(fmt.Sprintf("NEWSTRUCTx2,EQUAL(%d)", n), pushI(n), op(sv.NEWSTRUCT), pushI(n), op(sv.NEWSTRUCT), op(sv.EQUAL))
		}
		structLimitPrograms(e)
		// self reference: array appended to itself, result compared with sharing
		e("cycle-array", op(sv.NEWARRAY0), op(sv.DUP), op(sv.DUP), op(sv.APPEND))
		e("cycle-array,SIZE", op(sv.NEWARRAY0), op(sv.DUP), op(sv.DUP), op(sv.APPEND), op(sv.DUP), pushI(0), op(sv.PICKITEM), op(sv.SIZE))
		e("cycle-map", op(sv.NEWMAP), op(sv.DUP), pushI(1), op(sv.OVER), op(sv.SETITEM))
		e("cycle-struct-clone", op(sv.NEWSTRUCT0), op(sv.DUP), op(sv.DUP), op(sv.APPEND)) // APPEND clones: no cycle
		for _, n := range []int64{1000, 1500} {
			// cyclic garbage, then an allocation that only fits if the garbage is not counted
			e(fmt.Sprintf("cyclic-garbage-then-NEWARRAY(%d)", n), pushI(n), op(sv.NEWARRAY), op(sv.DUP), op(sv.DUP), op(sv.APPEND), op(sv.DROP), pushI(n), op(sv.NEWARRAY))
		}
	}}
}

// ---- slots ----------------------------------------------------------------------------------------------

// slotSection: all sequences over load/store instructions of the three slot
// kinds (with an out-of-range index, an aliased array and a callee that has
// its own locals/arguments but shares the static fields) after
// INITSSLOT 2; INITSLOT 2 locals, 2 arguments.
func slotSection(r *vk.Run) section {
	type sop struct {
		Name string
		Code []byte
	}
	o := func(x sv.Op) sop { return sop{x.Name(), op(x)} }
	// CALL_L to the function placed after the final RET; patched per program.
	alpha := []sop{
		o(sv.LDSFLD0), o(sv.LDSFLD0 + 1), o(sv.STSFLD0), o(sv.STSFLD0 + 1), {"LDSFLD(2)", op(sv.LDSFLD, 2)}, {"STSFLD(255)", op(sv.STSFLD, 255)},
		o(sv.LDLOC0), o(sv.LDLOC0 + 1), o(sv.STLOC0), {"STLOC(1)", op(sv.STLOC, 1)}, {"LDLOC(2)", op(sv.LDLOC, 2)},
		o(sv.LDARG0), o(sv.LDARG0 + 1), o(sv.STARG0), {"STARG(1)", op(sv.STARG, 1)}, {"LDARG(6)", op(sv.LDARG0 + 6)},
		{"PUSH7", pushI(7)}, o(sv.NEWARRAY0), o(sv.DUP), o(sv.APPEND), o(sv.DROP), {"CALL", nil}, {"INITSLOT(1,0)", op(sv.INITSLOT, 1, 0)}, {"INITSSLOT(1)", op(sv.INITSSLOT, 1)},
	}
	depth := vk.Pick(r, 3, 4)
	prefix := cat(pushI(21), pushI(22), op(sv.INITSSLOT, 2), op(sv.INITSLOT, 2, 2))
	// callee: own frame (1 local, 1 argument taken from the shared stack),
	// writes static field 1, returns its argument + 1.
	callee := cat(op(sv.INITSLOT, 1, 1), op(sv.LDARG0), op(sv.INC), op(sv.DUP), op(sv.STSFLD0+1), op(sv.LDLOC0), op(sv.DROP), op(sv.RET))
	return section{fmt.Sprintf("slots(len<=%d)", depth), len(alpha), func(j int, emit func(prog)) {
		var rec func(seq []int)
		rec = func(seq []int) {
			names := make([]string, len(seq))
			// size of the body first (CALL_L is 5 bytes)
			size := len(prefix)
			for _, k := range seq {
				if alpha[k].Code == nil {
					size += 5
				} else {
					size += len(alpha[k].Code)
				}
			}
			fnAt := size + 1 // after the RET
			code := append([]byte{}, prefix...)
			for i, k := range seq {
				names[i] = alpha[k].Name
				if alpha[k].Code == nil {
					code = append(code, op(sv.CALL_L, le32(int32(fnAt-len(code)))...)...)
				} else {
					code = append(code, alpha[k].Code...)
				}
			}
			code = append(code, byte(sv.RET))
			code = append(code, callee...)
			emit(prog{Key: strings.Join(names, ",") + ":slots(static2,local2,args[22,21])", Class: alpha[seq[len(seq)-1]].Name, Script: code})
			if len(seq) < depth {
				for k := range alpha {
					rec(append(append([]int{}, seq...), k))
				}
			}
		}
		rec([]int{j})
	}}
}

// ---- result freshness ------------------------------------------------------------------------------------
//
// NeoVM: the splice instructions "Concatenates two strings" (CAT), "Returns a
// section of a string" (SUBSTR), "Keeps only characters left/right of the
// specified point" (LEFT/RIGHT) push a NEW Buffer; CONVERT to another type
// makes a new item (own type: the item itself); a ByteString is immutable.
// An implementation that returns memory of an operand (for instance CAT with
// an empty operand) gives the right immediate result and is exposed only by a
// later in-place mutation. Pattern: a kept twice on the stack; producer turns
// the upper copy into r (optionally a second producer turns r into r');
// every in-place mutation of the result (or, for Buffer originals, of the
// original); then the result is dropped (final stack = the original) or both
// are left.

type producer struct {
	name string
	// code for an operand of length n on top of the stack; outLen < 0: the
	// producer is not applicable / faults for this n.
	gen func(n int) (code []byte, outLen int)
}

func freshProducers() []producer {
	empty := pushD(nil)
	fixed := func(name string, code []byte, delta int) producer {
		return producer{name, func(n int) ([]byte, int) { return code, n + delta }}
	}
	return []producer{
		fixed("CAT(a,bytes())", cat(empty, op(sv.CAT)), 0),
		fixed("CAT(a,buffer())", cat(pushBuf(nil), op(sv.CAT)), 0),
		fixed("CAT(a,0)", cat(pushI(0), op(sv.CAT)), 0), // Integer 0 has an empty span
		fixed("CAT(bytes(),a)", cat(empty, op(sv.SWAP), op(sv.CAT)), 0),
		fixed("CAT(buffer(),a)", cat(pushBuf(nil), op(sv.SWAP), op(sv.CAT)), 0),
		fixed("CAT(a,bytes(7a))", cat(pushD([]byte{0x7a}), op(sv.CAT)), 1),
		fixed("CAT(bytes(7a),a)", cat(pushD([]byte{0x7a}), op(sv.SWAP), op(sv.CAT)), 1),
		{"CAT(a,a)", func(n int) ([]byte, int) { return cat(op(sv.DUP), op(sv.CAT)), 2 * n }},
		{"SUBSTR(0,len)", func(n int) ([]byte, int) { return cat(pushI(0), pushI(int64(n)), op(sv.SUBSTR)), n }},
		{"SUBSTR(0,0)", func(n int) ([]byte, int) { return cat(pushI(0), pushI(0), op(sv.SUBSTR)), 0 }},
		{"SUBSTR(1,len-1)", func(n int) ([]byte, int) {
			if n < 1 {
				return nil, -1
			}
			return cat(pushI(1), pushI(int64(n-1)), op(sv.SUBSTR)), n - 1
		}},
		{"LEFT(len)", func(n int) ([]byte, int) { return cat(pushI(int64(n)), op(sv.LEFT)), n }},
		{"LEFT(0)", func(n int) ([]byte, int) { return cat(pushI(0), op(sv.LEFT)), 0 }},
		{"RIGHT(len)", func(n int) ([]byte, int) { return cat(pushI(int64(n)), op(sv.RIGHT)), n }},
		{"RIGHT(0)", func(n int) ([]byte, int) { return cat(pushI(0), op(sv.RIGHT)), 0 }},
		fixed("CONVERT(Buffer)", convertTo(sv.TBuffer), 0),
		fixed("CONVERT(ByteString)", convertTo(sv.TByteString), 0),
		fixed("CONVERT(ByteString),CONVERT(Buffer)", cat(convertTo(sv.TByteString), convertTo(sv.TBuffer)), 0),
		{"NEWBUFFER,MEMCPY(from a)", func(n int) ([]byte, int) {
			// [.., a] -> [.., d] with d = new buffer filled from a
			return cat(pushI(int64(n)), op(sv.NEWBUFFER), op(sv.DUP), op(sv.ROT), // d d a
				pushI(0), op(sv.SWAP), pushI(0), pushI(int64(n)), op(sv.MEMCPY)), n
		}},
		fixed("copy,REVERSEITEMS", cat(convertTo(sv.TByteString), convertTo(sv.TBuffer), op(sv.DUP), op(sv.REVERSEITEMS)), 0),
		fixed("DUP(identity)", op(sv.NOP), 0),
	}
}

// mutations of the item on top of the stack (length m); the item stays on the stack.
func freshMutations(m int) []cop {
	var out []cop
	idx := map[int]bool{}
	for _, i := range []int{0, 1, 2, m / 2, m - 1} {
		if i >= 0 && i < m && !idx[i] {
			idx[i] = true
			out = append(out, cop{fmt.Sprintf("SETITEM(%d,5a)", i), cat(op(sv.DUP), pushI(int64(i)), pushI(0x5a), op(sv.SETITEM))})
		}
	}
	out = append(out, cop{"REVERSEITEMS", cat(op(sv.DUP), op(sv.REVERSEITEMS))})
	if m >= 1 {
		out = append(out,
			cop{"MEMCPY(into 0)", cat(op(sv.DUP), pushI(0), pushD([]byte{0x5b}), pushI(0), pushI(1), op(sv.MEMCPY))},
			cop{"MEMCPY(into last)", cat(op(sv.DUP), pushI(int64(m-1)), pushD([]byte{0x5c}), pushI(0), pushI(1), op(sv.MEMCPY))})
	}
	return out
}

func freshSection() section {
	type orig struct {
		name string
		code []byte
		n    int
	}
	var origs []orig
	for _, n := range []int{0, 1, 3, 32} {
		d := make([]byte, n)
		for i := range d {
			d[i] = byte(i + 1)
		}
		origs = append(origs, orig{fmt.Sprintf("bytes(%d)", n), pushD(d), n}, orig{fmt.Sprintf("buffer(%d)", n), pushBuf(d), n})
	}
	prods := freshProducers()
	return section{"result-freshness", len(origs), func(j int, emit func(prog)) {
		o := origs[j]
		run := func(pname string, pcode []byte, m int) {
			base := cat(o.code, op(sv.DUP), pcode) // [a, r]
			e := func(what string, code ...[]byte) {
				emit(prog{Key: "FRESH:" + o.name + ":" + pname + ":" + what, Class: "fresh-" + strings.SplitN(pname, "(", 2)[0], Script: cat(append([][]byte{base}, code...)...)})
			}
			e("none")
			for _, mu := range freshMutations(m) {
				e("result."+mu.Name+",DROP", mu.Code, op(sv.DROP)) // final stack: the original
				e("result."+mu.Name+",both", mu.Code)
			}
			// mutate the ORIGINAL (possible for Buffer originals) and look at the result
			for _, mu := range freshMutations(o.n) {
				e("original."+mu.Name+",both", op(sv.SWAP), mu.Code, op(sv.SWAP))
				e("original."+mu.Name+",NIP", op(sv.SWAP), mu.Code, op(sv.DROP))
			}
		}
		for _, p := range prods {
			c1, m1 := p.gen(o.n)
			if m1 < 0 {
				continue
			}
			run(p.name, c1, m1)
			for _, q := range prods {
				c2, m2 := q.gen(m1)
				if m2 < 0 {
					continue
				}
				run(p.name+";"+q.name, cat(c1, c2), m2)
			}
		}
	}}
}

// freshCompoundSection: the same pattern for compound results whose aliasing
// is part of the NeoVM semantics: VALUES/KEYS make a new Array that shares the
// elements (Struct elements cloned), CONVERT Array<->Struct makes a new
// container with the same elements, PACK/UNPACK move references, APPEND and
// SETITEM clone a Struct value, everything else keeps identity.
func freshCompoundSection() section {
	arr := func(elems ...[]byte) []byte { // elems given first..last
		var c []byte
		for i := len(elems) - 1; i >= 0; i-- {
			c = append(c, elems[i]...)
		}
		return cat(c, pushI(int64(len(elems))), op(sv.PACK))
	}
	str := func(elems ...[]byte) []byte {
		var c []byte
		for i := len(elems) - 1; i >= 0; i-- {
			c = append(c, elems[i]...)
		}
		return cat(c, pushI(int64(len(elems))), op(sv.PACKSTRUCT))
	}
	origs := []val{
		{Name: "array[1,2,3]", Code: arr(pushI(1), pushI(2), pushI(3))},
		{Name: "array[array[7],array[8]]", Code: arr(arr(pushI(7)), arr(pushI(8)))},
		{Name: "array[struct[1,2],buffer(0102)]", Code: arr(str(pushI(1), pushI(2)), pushBuf([]byte{1, 2}))},
		{Name: "struct[1,struct[2],array[3]]", Code: str(pushI(1), str(pushI(2)), arr(pushI(3)))},
		{Name: "map{0:array[7],1:struct[5]}", Code: cat(str(pushI(5)), pushI(1), arr(pushI(7)), pushI(0), pushI(2), op(sv.PACKMAP))},
		{Name: "map{0:buffer(0102),1:map{}}", Code: cat(op(sv.NEWMAP), pushI(1), pushBuf([]byte{1, 2}), pushI(0), pushI(2), op(sv.PACKMAP))},
	}
	prods := []cop{
		{"DUP(identity)", op(sv.NOP)},
		{"VALUES", op(sv.VALUES)},
		{"KEYS", op(sv.KEYS)},
		{"CONVERT(Array)", convertTo(sv.TArray)},
		{"CONVERT(Struct)", convertTo(sv.TStruct)},
		{"UNPACK,PACK", cat(op(sv.UNPACK), op(sv.PACK))},
		{"UNPACK,PACKSTRUCT", cat(op(sv.UNPACK), op(sv.PACKSTRUCT))},
		{"UNPACK,PACKMAP", cat(op(sv.UNPACK), op(sv.PACKMAP))},
		{"APPEND-into-new-array", cat(op(sv.NEWARRAY0), op(sv.DUP), op(sv.ROT), op(sv.APPEND))}, // r = [c or its clone]
		{"SETITEM-into-new-array", cat(pushI(1), op(sv.NEWARRAY), op(sv.DUP), op(sv.ROT), pushI(0), op(sv.SWAP), op(sv.SETITEM))}, // r = [c or its clone]
		{"SETITEM-into-new-map", cat(op(sv.NEWMAP), op(sv.DUP), op(sv.ROT), pushI(0), op(sv.SWAP), op(sv.SETITEM))},
		{"1,PACK", cat(pushI(1), op(sv.PACK))},
		{"1,PACKSTRUCT", cat(pushI(1), op(sv.PACKSTRUCT))},
		{"0,PICKITEM", cat(pushI(0), op(sv.PICKITEM))},
		{"POPITEM", op(sv.POPITEM)},
	}
	// in-place mutations of the item on top of the stack (kept), at the
	// container itself, at its element 0 and at element 0 of element 0
	var muts []cop
	for _, path := range []struct {
		name string
		sel  []byte
	}{{"r", op(sv.DUP)}, {"r[0]", cat(op(sv.DUP), pushI(0), op(sv.PICKITEM))}, {"r[1]", cat(op(sv.DUP), pushI(1), op(sv.PICKITEM))}, {"r[0][0]", cat(op(sv.DUP), pushI(0), op(sv.PICKITEM), pushI(0), op(sv.PICKITEM))}} {
		for _, m := range []cop{
			{"APPEND(9)", cat(pushI(9), op(sv.APPEND))},
			{"REMOVE(0)", cat(pushI(0), op(sv.REMOVE))},
			{"CLEARITEMS", op(sv.CLEARITEMS)},
			{"SETITEM(0,9)", cat(pushI(0), pushI(9), op(sv.SETITEM))},
			{"SETITEM(5,9)", cat(pushI(5), pushI(9), op(sv.SETITEM))},
			{"REVERSEITEMS", op(sv.REVERSEITEMS)},
			{"POPITEM,DROP", cat(op(sv.POPITEM), op(sv.DROP))},
		} {
			muts = append(muts, cop{path.name + "." + m.Name, cat(path.sel, m.Code)})
		}
	}
	return section{"result-freshness-compound", len(origs), func(j int, emit func(prog)) {
		o := origs[j]
		run := func(pname string, pcode []byte) {
			base := cat(o.Code, op(sv.DUP), pcode) // [c, r]
			e := func(what string, code ...[]byte) {
				emit(prog{Key: "FRESHC:" + o.Name + ":" + pname + ":" + what, Class: "freshc-" + pname, Script: cat(append([][]byte{base}, code...)...)})
			}
			e("none")
			for _, mu := range muts {
				e("result:"+mu.Name+",DROP", mu.Code, op(sv.DROP))
				e("result:"+mu.Name+",both", mu.Code)
				e("original:"+mu.Name+",both", op(sv.SWAP), mu.Code, op(sv.SWAP))
			}
		}
		for _, p := range prods {
			run(p.Name, p.Code)
			for _, q := range prods {
				run(p.Name+";"+q.Name, cat(p.Code, q.Code))
			}
		}
	}}
}

// ---- the same item as both operands ---------------------------------------------------------------------

// sameItemSection: every operand-less opcode on [v, v] where both stack
// entries are THE SAME item (v DUP op): identity short cuts of equality
// (Pointer, ByteString, Struct, Buffer ...), APPEND/SETITEM/CAT/MEMCPY of an
// item to itself.
func sameItemSection() section {
	V1 := append(valuesV(), valuesTyped()...)
	return section{"same-item", len(V1), func(j int, emit func(prog)) {
		v := V1[j]
		for b := 0; b < 256; b++ {
			if !sv.Defined(byte(b)) {
				continue
			}
			if f, p := sv.OperandSize(sv.Op(b)); f != 0 || p != 0 {
				continue
			}
			if hugeCount(byte(b), v) {
				continue
			}
			emit(prog{Key: sv.Op(b).Name() + ":" + v.Name + ",<same>", Class: sv.Op(b).Name(), Script: cat(v.Code, op(sv.DUP), []byte{byte(b)})})
			emit(prog{Key: sv.Op(b).Name() + ":" + v.Name + ",<same>,<same>", Class: sv.Op(b).Name(), Script: cat(v.Code, op(sv.DUP), op(sv.DUP), []byte{byte(b)})})
		}
	}}
}

// ---- SETITEM on a Buffer: index x value ---------------------------------------------------------------------

func setitemBufferSection() section {
	return section{"setitem-buffer", 1, func(_ int, emit func(prog)) {
		vals := []val{ival(bi(-129)), ival(bi(-128)), ival(bi(-1)), ival(bi(0)), ival(bi(127)), ival(bi(128)), ival(bi(255)), ival(bi(256)),
			ival(p2(31)), ival(add(p2(31), -1)), ival(neg(p2(31))), ival(add(neg(p2(31)), -1)), ival(add(p2(255), -1)),
			{Name: "true", Code: op(sv.PUSHT)}, {Name: "false", Code: op(sv.PUSHF)}, bval([]byte{0xff}), bval([]byte{0xff, 0x00}), bval([]byte{0x00, 0x01}), bval(nil), bval(rep(0, 33)),
			{Name: "null", Code: op(sv.PUSHNULL)}, {Name: "buffer(01)", Code: pushBuf([]byte{1})}, {Name: "array[]", Code: op(sv.NEWARRAY0)}, {Name: "struct[]", Code: op(sv.NEWSTRUCT0)}, {Name: "pointer", Code: op(sv.PUSHA, 0, 0, 0, 0)}}
		idxs := []val{ival(bi(-1)), ival(bi(0)), ival(bi(2)), ival(bi(3)), ival(p2(31)), {Name: "true", Code: op(sv.PUSHT)}, bval([]byte{1}), bval(nil), {Name: "null", Code: op(sv.PUSHNULL)}, {Name: "buffer(01)", Code: pushBuf([]byte{1})}}
		for _, n := range []int{0, 3} {
			for _, i := range idxs {
				for _, v := range vals {
					for _, wrap := range []bool{false, true} {
						body := cat(pushBuf(rep(7, n)), op(sv.DUP), i.Code, v.Code, op(sv.SETITEM))
						key := fmt.Sprintf("SETITEM:buffer(%d),%s,%s", n, i.Name, v.Name)
						if wrap {
							// inside try/catch: a catchable index error vs an uncatchable value error
							body = cat(op(sv.TRY, byte(3+len(body)+2), 0), body, op(sv.ENDTRY, 3), op(sv.PUSHT))
							key += ",in-try"
						}
						emit(prog{Key: key, Class: "SETITEM-buffer", Script: body})
					}
				}
			}
		}
	}}
}

// ---- struct equality by value ----------------------------------------------------------------------------------

func structEqualSection() section {
	elems := []val{ival(bi(1)), ival(bi(2)), bval([]byte{1}), bval([]byte{2}), {Name: "true", Code: op(sv.PUSHT)}, {Name: "null", Code: op(sv.PUSHNULL)},
		{Name: "buffer(01)", Code: pushBuf([]byte{1})}, {Name: "array[]", Code: op(sv.NEWARRAY0)}, {Name: "struct[]", Code: op(sv.NEWSTRUCT0)},
		{Name: "struct[1]", Code: cat(pushI(1), pushI(1), op(sv.PACKSTRUCT))}, {Name: "struct[bytes(01)]", Code: cat(pushD([]byte{1}), pushI(1), op(sv.PACKSTRUCT))},
		{Name: "struct[struct[2]]", Code: cat(pushI(2), pushI(1), op(sv.PACKSTRUCT), pushI(1), op(sv.PACKSTRUCT))}, {Name: "map{}", Code: op(sv.NEWMAP)}, {Name: "pointer", Code: op(sv.PUSHA, 0, 0, 0, 0)}}
	var structs []val
	structs = append(structs, val{Name: "struct[]", Code: op(sv.NEWSTRUCT0)})
	for _, a := range elems {
		structs = append(structs, val{Name: "struct[" + a.Name + "]", Code: cat(a.Code, pushI(1), op(sv.PACKSTRUCT))})
	}
	for _, a := range elems {
		for _, b := range elems {
			structs = append(structs, val{Name: "struct[" + a.Name + "," + b.Name + "]", Code: cat(b.Code, a.Code, pushI(2), op(sv.PACKSTRUCT))})
		}
	}
	return section{"struct-equal", len(structs), func(j int, emit func(prog)) {
		a := structs[j]
		for _, b := range structs {
			emit(prog{Key: "EQUAL:" + a.Name + "," + b.Name, Class: "EQUAL-struct", Script: cat(a.Code, b.Code, op(sv.EQUAL))})
		}
		if j < len(elems)+1 && j > 0 {
			// the SAME element object in two different structs (reference
			// types are equal only then), and the same struct nested in two
			e := elems[j-1]
			emit(prog{Key: "EQUAL:struct[x],struct[x]:x=" + e.Name, Class: "EQUAL-struct", Script: cat(e.Code, op(sv.DUP), pushI(1), op(sv.PACKSTRUCT), op(sv.SWAP), pushI(1), op(sv.PACKSTRUCT), op(sv.EQUAL))})
			emit(prog{Key: "EQUAL:struct[x,1],struct[x,2]:x=" + e.Name, Class: "EQUAL-struct", Script: cat(pushI(1), e.Code, op(sv.DUP), op(sv.ROT), op(sv.SWAP), pushI(2), op(sv.PACKSTRUCT), op(sv.SWAP), pushI(2), op(sv.SWAP), pushI(2), op(sv.PACKSTRUCT), op(sv.EQUAL))})
			emit(prog{Key: "NOTEQUAL:struct[x],array[x]:x=" + e.Name, Class: "EQUAL-struct", Script: cat(e.Code, op(sv.DUP), pushI(1), op(sv.PACKSTRUCT), op(sv.SWAP), pushI(1), op(sv.PACK), op(sv.NOTEQUAL))})
		}
	}}
}

// structOfStructs: s = [t, t, ... (k times the SAME t)], t = struct of m
// zeros: k*(m+1) elements are compared/cloned although only k+m+2 items exist.
func structOfStructs(k, m int) []byte {
	c := cat(rep(byte(sv.PUSH0), m), pushI(int64(m)), op(sv.PACKSTRUCT))
	c = append(c, rep(byte(sv.DUP), k-1)...)
	return cat(c, pushI(int64(k)), op(sv.PACKSTRUCT))
}

func structLimitPrograms(e func(key string, code ...[]byte)) {
	// element pairs compared = k*(m+1): 2046 (within every reading), 2047
	// (exactly at the budget: undetermined), 2048 and more (fault).
	for _, km := range [][2]int{{45, 44}, {33, 61}, {23, 88}, {32, 63}, {45, 45}} {
		k, m := km[0], km[1]
		n := k * (m + 1)
		e(fmt.Sprintf("struct-equal-elements(%d=%dx%d)", n, k, m+1), structOfStructs(k, m), structOfStructs(k, m), op(sv.EQUAL))
		e(fmt.Sprintf("struct-equal-elements-mismatch-last(%d=%dx%d)", n, k, m+1), structOfStructs(k, m), structOfStructs(k, m), op(sv.DUP), pushI(0), op(sv.PICKITEM), pushI(int64(m-1)), pushI(1), op(sv.SETITEM), op(sv.EQUAL))
		// cloning the same structure (APPEND clones; the clone un-shares t)
		e(fmt.Sprintf("struct-clone-elements(%d=%dx%d)", n, k, m+1), op(sv.NEWARRAY0), structOfStructs(k, m), op(sv.APPEND))
		e(fmt.Sprintf("struct-clone-elements,VALUES(%d=%dx%d)", n, k, m+1), structOfStructs(k, m), pushI(1), op(sv.PACK), op(sv.VALUES))
	}
	// byte budget of a comparison: 65536 units over the whole struct
	z := func(n int) []byte { return zeros(n, true) }
	st := func(elems ...[]byte) []byte {
		var c []byte
		for i := len(elems) - 1; i >= 0; i-- {
			c = append(c, elems[i]...)
		}
		return cat(c, pushI(int64(len(elems))), op(sv.PACKSTRUCT))
	}
	for _, n := range []int{65534, 65535, 65536} {
		e(fmt.Sprintf("struct-equal-bytes(%d)+int", n), st(z(n), pushI(1)), st(z(n), pushI(1)), op(sv.EQUAL))
		e(fmt.Sprintf("struct-equal-int+bytes(%d)", n), st(pushI(1), z(n)), st(pushI(1), z(n)), op(sv.EQUAL))
		e(fmt.Sprintf("struct-equal-bytes(%d)+bytes()", n), st(z(n), pushD(nil)), st(z(n), pushD(nil)), op(sv.EQUAL))
		e(fmt.Sprintf("struct-equal-bytes(%d)+bytes(1)", n), st(z(n), pushD([]byte{0})), st(z(n), pushD([]byte{0})), op(sv.EQUAL))
		e(fmt.Sprintf("struct-equal-bytes(%d)-vs-int", n), st(z(n)), st(pushI(1)), op(sv.EQUAL))
	}
	e("struct-equal-bytes(65537)", st(z(65537)), st(z(65537)), op(sv.EQUAL))
	e("struct-equal-bytes(32768)x2", st(z(32768), z(32768)), st(z(32768), z(32768)), op(sv.EQUAL))
	e("struct-equal-bytes(32768)+bytes(32769)", st(z(32768), z(32769)), st(z(32768), z(32769)), op(sv.EQUAL))
	// nested: does the byte budget span nested structs? (undetermined)
	e("struct-equal-nested-bytes(40000)x2", st(z(40000), st(z(40000))), st(z(40000), st(z(40000))), op(sv.EQUAL))
	e("struct-equal-nested-bytes(30000)x2", st(z(30000), st(z(30000))), st(z(30000), st(z(30000))), op(sv.EQUAL))
}

// ---- behaviour before the Gorgon hardfork -------------------------------------------------------------------------

func preGorgonSection() section {
	V1 := append(valuesV(), valuesTyped()...)
	V2 := valuesBinary()
	return section{"pre-gorgon(SHL,SHR,HASKEY)", len(V2) + 1, func(j int, emit func(prog)) {
		if j == len(V2) {
			// every opcode over one operand with all hardforks disabled
			for _, v := range V1 {
				for b := 0; b < 256; b++ {
					encs, tr := variants(byte(b))
					emit(prog{Key: "pre-gorgon:" + encName(encs[0]) + ":" + v.Name, Class: "pre-gorgon-" + className(encs[0]), Script: cat(v.Code, encs[0], tr), PreGorgon: true})
				}
			}
			return
		}
		a := V2[j]
		extra := []val{ival(bi(sv.MaxItemSize - 1)), ival(bi(sv.MaxItemSize)), ival(bi(sv.MaxItemSize + 1))}
		for _, c := range append(append([]val{}, V2...), extra...) {
			for _, o := range []sv.Op{sv.SHL, sv.SHR, sv.HASKEY} {
				emit(prog{Key: "pre-gorgon:" + o.Name() + ":" + a.Name + "," + c.Name, Class: "pre-gorgon-" + o.Name(), Script: cat(a.Code, c.Code, op(o)), PreGorgon: true})
			}
		}
	}}
}

// ---- several scripts: contexts with their own evaluation stacks ------------------------------------------------------

// hostSection: the entry script calls other scripts through the miniature
// SYSCALL host (one argument in, RV values out). Under test: RET copying the
// callee's evaluation stack / return value count check, exceptions crossing
// contexts with different stacks (and what is left on the catcher's stack),
// static fields and pointers per script (CALLA with a foreign pointer), item
// identity across contexts, the item limit after a context was unwound.
func hostSection() section {
	type callee struct {
		name string
		code []byte
		rv   int
	}
	sys := func(id int) []byte { return op(sv.SYSCALL, le32(int32(id))...) }
	callees := []callee{
		{"ret-arg+7", pushI(7), -1},
		{"rv1-ok", cat(op(sv.DROP), pushI(8)), 1},
		{"rv1-two", pushI(8), 1},
		{"rv1-none", op(sv.DROP), 1},
		{"throw-arg", op(sv.THROW), -1},
		{"push-then-throw", cat(pushI(5), pushI(6), op(sv.ROT), op(sv.THROW)), -1},
		{"own-pointer", cat(op(sv.DROP), op(sv.PUSHA, 0, 0, 0, 0)), -1},
		{"append9", cat(op(sv.DUP), pushI(9), op(sv.APPEND)), -1},
		{"statics", cat(op(sv.INITSSLOT, 1), op(sv.STSFLD0), op(sv.LDSFLD0), op(sv.LDSFLD0)), -1},
		{"catches-inner-throw", cat(op(sv.TRY, 10, 0), sys(5), pushI(1), op(sv.ENDTRY, 3), pushI(2)), -1}, // calls throw-arg inside its own try
		{"finally-then-propagate", cat(op(sv.TRY, 0, 9), sys(5), pushI(1), op(sv.ENDTRY, 3), pushI(3), op(sv.ENDFINALLY)), -1},
		{"inner-call", cat(op(sv.CALL, 3), op(sv.RET), op(sv.INC), op(sv.DUP), op(sv.RET)), -1},
		{"abort", op(sv.ABORT), -1},
		{"push1500-throw", cat(op(sv.DROP), pushI(1500), op(sv.NEWARRAY), op(sv.UNPACK), op(sv.THROW)), -1},
		{"push1500-ret", cat(op(sv.DROP), pushI(1500), op(sv.NEWARRAY), op(sv.UNPACK), op(sv.DROP)), -1},
		{"static1500-throw", cat(op(sv.INITSSLOT, 1), pushI(1500), op(sv.NEWARRAY), op(sv.STSFLD0), op(sv.THROW)), -1},
		{"local1500-throw", cat(op(sv.INITSLOT, 1, 0), pushI(1500), op(sv.NEWARRAY), op(sv.STLOC0), op(sv.THROW)), -1},
		{"calls-entry-service-0", cat(sys(0)), -1}, // loads the entry script again (recursion across scripts, ends by a limit)
		{"unknown-service", cat(sys(99)), -1},
	}
	var extra [][]byte
	var rv []int
	for _, c := range callees {
		extra = append(extra, c.code)
		rv = append(rv, c.rv)
	}
	args := []val{ival(bi(1)), {Name: "array[1,2]+kept", Code: cat(pushI(2), pushI(1), pushI(2), op(sv.PACK), op(sv.DUP))}, {Name: "struct[]+kept", Code: cat(op(sv.NEWSTRUCT0), op(sv.DUP))}, {Name: "<nothing>", Code: nil}, {Name: "5,null", Code: cat(pushI(5), op(sv.PUSHNULL))}}
	posts := []cop{{"none", nil}, {"DEPTH", op(sv.DEPTH)}, {"CALLA", op(sv.CALLA)}, {"PUSHA0,EQUAL", cat(op(sv.PUSHA, 0, 0, 0, 0), op(sv.EQUAL))},
		{"DUP,EQUAL", cat(op(sv.DUP), op(sv.EQUAL))}, {"LDSFLD0", op(sv.LDSFLD0)}, {"NEWARRAY(1000)", cat(pushI(1000), op(sv.NEWARRAY))}, {"again", nil}}
	wraps := []string{"none", "TC", "TF", "TCF", "in-CALL"}
	return section{"host-scripts", len(callees), func(j int, emit func(prog)) {
		id := j + 1
		for _, a := range args {
			for _, p := range posts {
				for _, w := range wraps {
					call := sys(id)
					post := p.Code
					if p.Name == "again" {
						post = sys(id)
					}
					pre := cat(op(sv.INITSSLOT, 1), pushI(77), op(sv.STSFLD0), a.Code)
					var body []byte
					switch w {
					case "none":
						body = cat(call, post)
					case "TC": // try{call; m}catch{m}; post
						t := cat(call, pushI(41))
						body = cat(op(sv.TRY, byte(3+len(t)+2), 0), t, op(sv.ENDTRY, 4), pushI(42), op(sv.NOP), post)
					case "TF": // try{call; m}finally{m}; post
						t := cat(call, pushI(41))
						body = cat(op(sv.TRY, 0, byte(3+len(t)+2)), t, op(sv.ENDTRY, 5), pushI(43), op(sv.ENDFINALLY), op(sv.NOP), post)
					case "TCF":
						t := cat(call, pushI(41))
						c := cat(pushI(42))
						// TRY c f | t | ENDTRY end | c | ENDTRY end | fin ENDFINALLY | end: NOP post
						catchAt := 3 + len(t) + 2
						finAt := catchAt + len(c) + 2
						endAt := finAt + 2
						body = cat(op(sv.TRY, byte(catchAt), byte(finAt)), t, op(sv.ENDTRY, byte(endAt-(3+len(t)))), c, op(sv.ENDTRY, byte(endAt-(catchAt+len(c)))), pushI(43), op(sv.ENDFINALLY), op(sv.NOP), post)
					case "in-CALL": // the service is called from a function of the entry script which is itself in a try
						fn := cat(call, pushI(44), op(sv.RET))
						t := cat(op(sv.CALL_L, le32(0)...), pushI(41)) // patched below
						head := cat(op(sv.TRY, byte(3+len(t)+2), 0), t, op(sv.ENDTRY, 4), pushI(42), op(sv.NOP), post, op(sv.RET))
						// CALL_L sits at offset len(pre)+3 and must reach len(pre)+len(head)
						off := int32(len(head) - 3)
						head = cat(op(sv.TRY, byte(3+len(t)+2), 0), op(sv.CALL_L, le32(off)...), pushI(41), op(sv.ENDTRY, 4), pushI(42), op(sv.NOP), post, op(sv.RET))
						body = cat(head, fn)
					}
					emit(prog{Key: fmt.Sprintf("HOST:%s:arg=%s:%s:post=%s", callees[j].name, a.Name, w, p.Name), Class: "host-" + callees[j].name, Script: cat(pre, body), Extra: extra, RV: rv})
				}
			}
		}
	}}
}
