// Byte-level assembler with labels for the hand-laid-out control-flow
// families (layout_*.go): every offset-carrying instruction (JMP*, CALL*,
// PUSHA, TRY*, ENDTRY*) is written with a label or an absolute position as its
// target, in the short or the long form, and the blocks of a program can be
// placed in any order - so that handlers may precede the TRY that names them
// (negative offsets, position 0) or follow it.
package c13

import (
	"fmt"
	"strconv"

	sv "verif/lib/specvm"
)

// target of an offset-carrying instruction: a label, or an absolute position
// "@<n>" (which may lie outside the script), or "" (TRY only: block absent,
// offset 0).
type lfix struct {
	at     int // position of the instruction (offsets are relative to it)
	opnd   int // position of the operand bytes
	size   int // 1 or 4
	target string
}

type lasm struct {
	buf    []byte
	labels map[string]int
	fix    []lfix
	err    error
}

func newAsm() *lasm { return &lasm{labels: map[string]int{}} }

func (a *lasm) pos() int { return len(a.buf) }

func (a *lasm) label(name string) *lasm {
	if _, dup := a.labels[name]; dup {
		a.err = fmt.Errorf("label %s defined twice", name)
	}
	a.labels[name] = len(a.buf)
	return a
}

func (a *lasm) raw(b ...byte) *lasm { a.buf = append(a.buf, b...); return a }

func (a *lasm) ops(os ...sv.Op) *lasm {
	for _, o := range os {
		a.buf = append(a.buf, byte(o))
	}
	return a
}

// longForm gives the _L form of a short offset-carrying opcode (JMP..CALL,
// TRY, ENDTRY: the long form is the next opcode value).
func longForm(o sv.Op) sv.Op { return o + 1 }

// xfer emits an instruction with one offset operand. o is the SHORT form
// (JMP, JMPIF, ..., CALL, ENDTRY) or PUSHA (always 4 bytes).
func (a *lasm) xfer(o sv.Op, long bool, target string) *lasm {
	at := len(a.buf)
	size := 1
	if o == sv.PUSHA {
		size = 4
	} else if long {
		o, size = longForm(o), 4
	}
	a.buf = append(a.buf, byte(o))
	a.fix = append(a.fix, lfix{at: at, opnd: len(a.buf), size: size, target: target})
	a.buf = append(a.buf, make([]byte, size)...)
	return a
}

// try emits TRY / TRY_L; "" = block absent.
func (a *lasm) try(long bool, catch, fin string) *lasm {
	at := len(a.buf)
	o, size := sv.TRY, 1
	if long {
		o, size = sv.TRY_L, 4
	}
	a.buf = append(a.buf, byte(o))
	a.fix = append(a.fix, lfix{at: at, opnd: len(a.buf), size: size, target: catch})
	a.buf = append(a.buf, make([]byte, size)...)
	a.fix = append(a.fix, lfix{at: at, opnd: len(a.buf), size: size, target: fin})
	a.buf = append(a.buf, make([]byte, size)...)
	return a
}

// link resolves the targets. A short offset that does not fit into int8, an
// unknown label, or a TRY target that happens to have offset 0 (which would
// silently mean "absent") are errors of the generator.
func (a *lasm) link() ([]byte, error) {
	if a.err != nil {
		return nil, a.err
	}
	out := append([]byte{}, a.buf...)
	for _, f := range a.fix {
		if f.target == "" {
			continue // offset 0
		}
		var p int
		if f.target[0] == '@' {
			n, err := strconv.Atoi(f.target[1:])
			if err != nil {
				return nil, err
			}
			p = n
		} else {
			q, ok := a.labels[f.target]
			if !ok {
				return nil, fmt.Errorf("unknown label %s", f.target)
			}
			p = q
		}
		off := p - f.at
		if f.size == 1 {
			if off < -128 || off > 127 {
				return nil, fmt.Errorf("offset %d does not fit the short form", off)
			}
			out[f.opnd] = byte(int8(off))
		} else {
			copy(out[f.opnd:], le32(int32(off)))
		}
	}
	return out, nil
}

func (a *lasm) mustLink() []byte {
	b, err := a.link()
	if err != nil {
		panic("layout assembler: " + err.Error())
	}
	return b
}

func abs(p int) string { return "@" + strconv.Itoa(p) }
