// Hand-laid-out control flow (byte level), run on the implementation and on
// specvm like every other section.
//
// Blind spot closed: the structured TRY/CALL nests of gen_test.go always put
// handlers AFTER the TRY and callees AFTER the caller, in the long form only,
// with every target on an instruction boundary inside the script. Nothing
// placed a handler at script position 0 (an absolute position that is valid
// although "0" also encodes "absent" as a relative offset), before the TRY,
// on the last instruction, exactly at / one past the end, before the start,
// or onto the instruction itself; short forms of TRY/ENDTRY only occurred in
// the one-instruction variants.
//
// Three families:
//
//	layout-edge-targets  one transfer instruction X (JMP*, CALL*, PUSHA[+CALLA],
//	                     TRY catch / finally / both, ENDTRY in a try / catch /
//	                     try-with-finally region) in a fixed surrounding
//	                     script, its target(s) enumerated over EVERY absolute
//	                     position from 3 before the script to 3 past its end,
//	                     X first / in the middle / last, short and long form.
//	layout-blocks        try-catch / try-finally / try-catch-finally, nested
//	                     tries, CALL into a function whose TRY has its
//	                     handlers elsewhere: the blocks (body, catch, finally,
//	                     continuation, callee, outer handler) are laid out in
//	                     every order (or every before/after split for 6+
//	                     blocks), a raise of every kind in every region.
//	layout-eh-cells      every sequence of 3 cells over the alphabet {marker,
//	                     THROW, ENDFINALLY, RET, TRY c / f / c+f, ENDTRY, CALL}
//	                     with every cell as the target of every operand (the
//	                     state machine of the exception handling contexts in
//	                     all orders, forwards and backwards), without and with
//	                     an entry guard that makes cell 0 a re-enterable
//	                     handler at position 0.
//
// A block placed at position 0 that is not the entry block starts with the
// guard "DEPTH; JMPIFNOT main": on entry (empty stack) control goes to main,
// on every later arrival (main pushes a marker first; a catch handler gets
// the exception) it falls through into the block.
package c13

import (
	"fmt"
	"sort"
	"strings"
	"sync"

	sv "verif/lib/specvm"
	"verif/lib/vk"
)

// layoutStepLimit bounds the model's steps for programs of these families:
// their straight paths are a few dozen instructions; what runs longer is a
// loop (excluded as undetermined, the model does not decide termination).
const layoutStepLimit = 400

// ---- counters of the families (evidence) -------------------------------------------

type layoutCounters struct {
	mu      sync.Mutex
	targets map[string]int64 // target class -> programs
	shapes  map[string]int64 // family/template -> programs
}

var layoutCnt = &layoutCounters{targets: map[string]int64{}, shapes: map[string]int64{}}

func (c *layoutCounters) note(m map[string]int64, k string) {
	c.mu.Lock()
	m[k]++
	c.mu.Unlock()
}

func sortedCounts(m map[string]int64) []string {
	var out []string
	for k, v := range m {
		out = append(out, fmt.Sprintf("%s=%d", k, v))
	}
	sort.Strings(out)
	return out
}

// targetClass classifies an absolute target position of instruction X (at
// position at) in script s.
func targetClass(s []byte, at, p int) string {
	starts := sv.InstrStarts(s)
	switch {
	case p < 0:
		return "before-start"
	case p == len(s):
		return "exactly-at-end"
	case p > len(s):
		return "past-end"
	case p == at:
		return "itself"
	case p == 0:
		return "position-0"
	}
	for i, st := range starts {
		if st == p {
			if i == len(starts)-1 {
				return "last-instruction"
			}
			if p < at {
				return "backward"
			}
			return "forward"
		}
	}
	return "inside-an-instruction"
}

func formName(long bool) string {
	if long {
		return "long"
	}
	return "short"
}

var markers = []sv.Op{sv.PUSH1, sv.PUSH2, sv.PUSH3, sv.PUSH4, sv.PUSH5, sv.PUSH6, sv.PUSH7, sv.PUSH8, sv.PUSH9, sv.PUSH10, sv.PUSH11, sv.PUSH12, sv.PUSH13, sv.PUSH14, sv.PUSH15, sv.PUSH16}

// guard: "DEPTH; JMPIFNOT main".
func (a *lasm) guard(main string) *lasm {
	return a.ops(sv.DEPTH).xfer(sv.JMPIFNOT, false, main)
}

// ---- family 1: one transfer, every target ----------------------------------------------------

// edgeTpl builds a script around one transfer instruction X whose target(s)
// are free. x marks X's position (for the target classes).
type edgeTpl struct {
	name  string
	two   bool // two free targets (TRY catch and finally)
	build func(a *lasm, long bool, p, q string) (x int)
}

// the tail every try template ends with: landing on each of its positions is a
// different situation (a handler that leaves with ENDTRY, a bare ENDTRY, a
// finally block, a bare ENDFINALLY, the continuation).
func (a *lasm) handlerTail() *lasm {
	return a.ops(sv.PUSH5).xfer(sv.ENDTRY, false, "E").ops(sv.PUSH6, sv.ENDFINALLY).label("E").ops(sv.PUSH7, sv.RET)
}

func edgeTemplates() []edgeTpl {
	var out []edgeTpl
	add := func(name string, two bool, b func(a *lasm, long bool, p, q string) int) {
		out = append(out, edgeTpl{name, two, b})
	}
	// placements of X: first (position 0, no guard), mid, last
	type xop struct {
		name string
		pre  []sv.Op // operands
		op   sv.Op
	}
	xs := []xop{{"JMP", nil, sv.JMP}, {"CALL", nil, sv.CALL}, {"PUSHA", nil, sv.PUSHA},
		{"JMPIF(true)", []sv.Op{sv.PUSHT}, sv.JMPIF}, {"JMPIF(false)", []sv.Op{sv.PUSHF}, sv.JMPIF},
		{"JMPIFNOT(true)", []sv.Op{sv.PUSHT}, sv.JMPIFNOT}, {"JMPIFNOT(false)", []sv.Op{sv.PUSHF}, sv.JMPIFNOT}}
	for _, c := range []struct {
		n string
		o sv.Op
	}{{"JMPEQ", sv.JMPEQ}, {"JMPNE", sv.JMPNE}, {"JMPGT", sv.JMPGT}, {"JMPGE", sv.JMPGE}, {"JMPLT", sv.JMPLT}, {"JMPLE", sv.JMPLE}} {
		for _, pr := range [][2]sv.Op{{sv.PUSH1, sv.PUSH2}, {sv.PUSH2, sv.PUSH2}, {sv.PUSH2, sv.PUSH1}} {
			xs = append(xs, xop{fmt.Sprintf("%s(%d,%d)", c.n, int(pr[0]-sv.PUSH0), int(pr[1]-sv.PUSH0)), []sv.Op{pr[0], pr[1]}, c.o})
		}
	}
	for _, x := range xs {
		x := x
		for _, calla := range []bool{false, true} {
			if calla && x.op != sv.PUSHA {
				continue
			}
			sfx := ""
			if calla {
				sfx = "+CALLA"
			}
			emitX := func(a *lasm, long bool, p string) int {
				a.ops(x.pre...)
				at := a.pos()
				a.xfer(x.op, long, p)
				if calla {
					a.ops(sv.CALLA)
				}
				return at
			}
			if len(x.pre) == 0 {
				add(x.name+sfx+"/first", false, func(a *lasm, long bool, p, _ string) int {
					at := emitX(a, long, p)
					a.ops(sv.PUSH1, sv.PUSH2, sv.RET, sv.PUSH3, sv.RET)
					return at
				})
			}
			add(x.name+sfx+"/mid", false, func(a *lasm, long bool, p, _ string) int {
				a.guard("main").ops(sv.PUSH16, sv.RET).label("main").ops(sv.PUSH1)
				at := emitX(a, long, p)
				a.ops(sv.PUSH2, sv.PUSH3, sv.RET, sv.PUSH4)
				return at
			})
			add(x.name+sfx+"/last", false, func(a *lasm, long bool, p, _ string) int {
				a.guard("main").ops(sv.PUSH16, sv.RET).label("main").ops(sv.PUSH1).xfer(sv.JMP, false, "skip").ops(sv.PUSH2, sv.RET).label("skip").ops(sv.PUSH3)
				return emitX(a, long, p)
			})
		}
	}
	// TRY with free handler positions. wrap: an outer try/catch K in the same
	// context makes an exception that leaves the inner statement observable
	// (HALT with the path on the stack instead of a bare FAULT).
	for _, g := range []bool{false, true} {
		for _, wrap := range []bool{false, true} {
			g, wrap := g, wrap
			pfx := func(a *lasm) {
				if g {
					a.guard("main").ops(sv.PUSH16, sv.RET).label("main")
				}
				a.ops(sv.PUSH1)
				if wrap {
					a.try(false, "K", "")
				}
			}
			sfx := func(a *lasm) {
				if wrap {
					a.label("K").ops(sv.PUSH15, sv.RET)
				}
			}
			tag := map[bool]string{false: "first", true: "guarded"}[g] + map[bool]string{false: "", true: "+outer-catch"}[wrap]
			add("TRY(c=p);THROW/"+tag, false, func(a *lasm, long bool, p, _ string) int {
				pfx(a)
				at := a.pos()
				a.try(long, p, "").ops(sv.PUSH2, sv.PUSH3, sv.THROW).handlerTail()
				sfx(a)
				return at
			})
			add("TRY(f=p);THROW/"+tag, false, func(a *lasm, long bool, p, _ string) int {
				pfx(a)
				at := a.pos()
				a.try(long, "", p).ops(sv.PUSH2, sv.PUSH3, sv.THROW).handlerTail()
				sfx(a)
				return at
			})
			add("TRY(f=p);ENDTRY/"+tag, false, func(a *lasm, long bool, p, _ string) int {
				pfx(a)
				at := a.pos()
				a.try(long, "", p).ops(sv.PUSH2).xfer(sv.ENDTRY, false, "E").ops(sv.PUSH3).handlerTail()
				sfx(a)
				return at
			})
			add("TRY(c=C,f=p);THROW;C:THROW/"+tag, false, func(a *lasm, long bool, p, _ string) int {
				pfx(a)
				at := a.pos()
				a.try(long, "C", p).ops(sv.PUSH2, sv.THROW).label("C").ops(sv.PUSH3, sv.THROW).handlerTail()
				sfx(a)
				return at
			})
			add("TRY(c=p,f=q);THROW/"+tag, true, func(a *lasm, long bool, p, q string) int {
				pfx(a)
				at := a.pos()
				a.try(long, p, q).ops(sv.PUSH2, sv.THROW).handlerTail()
				sfx(a)
				return at
			})
			add("TRY(c=p,f=q);ENDTRY/"+tag, true, func(a *lasm, long bool, p, q string) int {
				pfx(a)
				at := a.pos()
				a.try(long, p, q).ops(sv.PUSH2).xfer(sv.ENDTRY, false, "E").handlerTail()
				sfx(a)
				return at
			})
		}
	}
	// ENDTRY with a free target.
	for _, g := range []bool{false, true} {
		g := g
		pfx := func(a *lasm) {
			if g {
				a.guard("main").ops(sv.PUSH16, sv.RET).label("main")
			}
			a.ops(sv.PUSH1)
		}
		tag := map[bool]string{false: "first", true: "guarded"}[g]
		add("ENDTRY-in-try(c)/"+tag, false, func(a *lasm, long bool, p, _ string) int {
			pfx(a)
			a.try(false, "C", "").ops(sv.PUSH2)
			at := a.pos()
			a.xfer(sv.ENDTRY, long, p).label("C").ops(sv.PUSH3).xfer(sv.ENDTRY, false, "E").ops(sv.PUSH4).label("E").ops(sv.PUSH5, sv.RET)
			return at
		})
		add("ENDTRY-in-try(f)/"+tag, false, func(a *lasm, long bool, p, _ string) int {
			pfx(a)
			a.try(false, "", "F").ops(sv.PUSH2)
			at := a.pos()
			a.xfer(sv.ENDTRY, long, p).label("F").ops(sv.PUSH3, sv.ENDFINALLY, sv.PUSH4).label("E").ops(sv.PUSH5, sv.RET)
			return at
		})
		add("ENDTRY-in-catch/"+tag, false, func(a *lasm, long bool, p, _ string) int {
			pfx(a)
			a.try(false, "C", "").ops(sv.PUSH2, sv.THROW).label("C").ops(sv.PUSH3)
			at := a.pos()
			a.xfer(sv.ENDTRY, long, p).ops(sv.PUSH4, sv.RET)
			return at
		})
		add("ENDTRY-in-catch-with-finally/"+tag, false, func(a *lasm, long bool, p, _ string) int {
			pfx(a)
			a.try(false, "C", "F").ops(sv.PUSH2, sv.THROW).label("C").ops(sv.PUSH3)
			at := a.pos()
			a.xfer(sv.ENDTRY, long, p).label("F").ops(sv.PUSH4, sv.ENDFINALLY, sv.PUSH5, sv.RET)
			return at
		})
		add("ENDTRY-in-inner-try/"+tag, false, func(a *lasm, long bool, p, _ string) int {
			pfx(a)
			a.try(false, "C", "").ops(sv.PUSH2).try(false, "", "F").ops(sv.PUSH3)
			at := a.pos()
			a.xfer(sv.ENDTRY, long, p).ops(sv.PUSH4).xfer(sv.ENDTRY, false, "E").label("F").ops(sv.PUSH5, sv.ENDFINALLY).label("C").ops(sv.PUSH6).label("E").ops(sv.PUSH7, sv.RET)
			return at
		})
		add("ENDTRY-without-try/"+tag, false, func(a *lasm, long bool, p, _ string) int {
			pfx(a)
			at := a.pos()
			a.xfer(sv.ENDTRY, long, p).ops(sv.PUSH2, sv.RET)
			return at
		})
	}
	return out
}

func edgeSection() section {
	tpls := edgeTemplates()
	return section{"layout-edge-targets", len(tpls) + 1, func(j int, emit func(prog)) {
		if j == len(tpls) {
			edgeFarAndTruncated(emit)
			return
		}
		t := tpls[j]
		for _, long := range []bool{false, true} {
			if !long && strings.HasPrefix(t.name, "PUSHA") {
				continue // PUSHA has one form
			}
			probe := newAsm()
			t.build(probe, long, abs(0), abs(0))
			n := len(probe.mustLink())
			for p := -3; p <= n+3; p++ {
				qs := []int{0}
				if t.two {
					qs = qs[:0]
					for q := -3; q <= n+3; q++ {
						qs = append(qs, q)
					}
				}
				for _, q := range qs {
					a := newAsm()
					at := t.build(a, long, abs(p), abs(q))
					s := a.mustLink()
					key := fmt.Sprintf("EDGE:%s:%s:p=%d", t.name, formName(long), p)
					cls := targetClass(s, at, p)
					if p == at && t.two || p == at && strings.HasPrefix(t.name, "TRY") {
						cls = "offset-0(absent)"
					}
					layoutCnt.note(layoutCnt.targets, cls)
					if t.two {
						key += fmt.Sprintf(",q=%d", q)
						c2 := targetClass(s, at, q)
						if q == at {
							c2 = "offset-0(absent)"
						}
						layoutCnt.note(layoutCnt.targets, c2)
					}
					layoutCnt.note(layoutCnt.shapes, "edge:"+strings.SplitN(t.name, "/", 2)[0])
					emit(prog{Key: key + fmt.Sprintf("(len=%d)", n), Class: "EDGE-" + strings.SplitN(t.name, "/", 2)[0], Script: s, Steps: layoutStepLimit})
				}
			}
		}
	}}
}

// edgeFarAndTruncated: (1) the extreme distances of the operand encodings: a
// target exactly 127 forward / 128 backward in the short form, and 127, 128,
// 255, 256, 32767, 32768, 65535, 65536 (both directions, +-1) in the long
// form; the space between is filled with ABORT, so landing one byte off is
// visible. (2) every offset-carrying instruction cut off by the end of the
// script after each of its operand bytes - executed (fault) and not executed
// (after RET: the rest of the script is never decoded).
func edgeFarAndTruncated(emit func(prog)) {
	type fx struct {
		name string
		pre  func(a *lasm)            // before X (after the marker)
		x    func(a *lasm, long bool) // X -> label L
		post func(a *lasm)            // after X, before the padding (forward) / the end (backward)
	}
	xs := []fx{
		{"JMP", nil, func(a *lasm, long bool) { a.xfer(sv.JMP, long, "L") }, nil},
		{"JMPIF", func(a *lasm) { a.ops(sv.PUSHT) }, func(a *lasm, long bool) { a.xfer(sv.JMPIF, long, "L") }, nil},
		{"JMPLT", func(a *lasm) { a.ops(sv.PUSH1, sv.PUSH2) }, func(a *lasm, long bool) { a.xfer(sv.JMPLT, long, "L") }, nil},
		{"CALL", nil, func(a *lasm, long bool) { a.xfer(sv.CALL, long, "L") }, func(a *lasm) { a.ops(sv.PUSH3, sv.RET) }},
		{"PUSHA+CALLA", nil, func(a *lasm, long bool) { a.xfer(sv.PUSHA, long, "L") }, func(a *lasm) { a.ops(sv.CALLA, sv.PUSH3, sv.RET) }},
		{"TRY(c)", nil, func(a *lasm, long bool) { a.try(long, "L", "") }, func(a *lasm) { a.ops(sv.PUSH3, sv.THROW) }},
		{"TRY(f)", nil, func(a *lasm, long bool) { a.try(long, "", "L") }, func(a *lasm) { a.ops(sv.PUSH3).xfer(sv.ENDTRY, true, "@0") }},
		{"TRY(c,f)", nil, func(a *lasm, long bool) { a.try(long, "L", "L") }, func(a *lasm) { a.ops(sv.PUSH3, sv.THROW) }},
		{"ENDTRY", func(a *lasm) { a.try(false, "C", "").label("C") }, func(a *lasm, long bool) { a.xfer(sv.ENDTRY, long, "L") }, nil},
	}
	for _, x := range xs {
		for _, long := range []bool{false, true} {
			ds := []int{127, -128}
			if long {
				ds = []int{126, 127, 128, 129, -127, -128, -129, 255, 256, -255, -256, 32767, 32768, -32768, -32769, 65535, 65536, -65535, -65536}
			}
			if x.name == "PUSHA+CALLA" && !long {
				continue
			}
			for _, d := range ds {
				a := newAsm()
				var at int
				if d > 0 {
					a.ops(sv.PUSH1)
					if x.pre != nil {
						x.pre(a)
					}
					at = a.pos()
					x.x(a, long)
					if x.post != nil {
						x.post(a)
					}
					if a.pos() > at+d {
						continue
					}
					for a.pos() < at+d {
						a.ops(sv.ABORT)
					}
					a.label("L").ops(sv.PUSH2, sv.RET)
				} else {
					// JMP start; L: PUSH2 RET; ABORT...; start: PUSH1 pre X post
					a.xfer(sv.JMP, true, "start").label("L").ops(sv.PUSH2, sv.RET)
					l := a.labels["L"]
					tmp := newAsm()
					tmp.ops(sv.PUSH1)
					if x.pre != nil {
						x.pre(tmp)
					}
					preLen := tmp.pos()
					if a.pos()+preLen > l-d {
						continue
					}
					for a.pos()+preLen < l-d {
						a.ops(sv.ABORT)
					}
					a.label("start").ops(sv.PUSH1)
					if x.pre != nil {
						x.pre(a)
					}
					at = a.pos()
					x.x(a, long)
					if x.post != nil {
						x.post(a)
					}
				}
				s, err := a.link()
				if err != nil {
					panic("edge-far: " + x.name + ": " + err.Error())
				}
				layoutCnt.note(layoutCnt.targets, "extreme-distance-of-the-encoding")
				layoutCnt.note(layoutCnt.shapes, "edge:far:"+x.name)
				emit(prog{Key: fmt.Sprintf("EDGE-FAR:%s:%s:distance=%d", x.name, formName(long), d), Class: "EDGE-FAR-" + x.name, Script: s, Steps: layoutStepLimit})
			}
		}
	}
	ops := []sv.Op{sv.PUSHA, sv.TRY, sv.TRY_L, sv.ENDTRY, sv.ENDTRY_L}
	for o := sv.JMP; o <= sv.CALL_L; o++ {
		ops = append(ops, o)
	}
	for _, o := range ops {
		size, _ := sv.OperandSize(o)
		for k := 0; k < size; k++ {
			for _, executed := range []bool{true, false} {
				var s []byte
				if executed {
					s = cat(op(sv.PUSH1), op(sv.PUSH2), op(o, rep(2, k)...))
				} else {
					s = cat(op(sv.PUSH1), op(sv.RET), op(o, rep(2, k)...))
				}
				layoutCnt.note(layoutCnt.shapes, "edge:truncated-operand")
				emit(prog{Key: fmt.Sprintf("EDGE-TRUNC:%s:%d-of-%d-operand-bytes:executed=%v", o.Name(), k, size, executed), Class: "EDGE-TRUNC", Script: s, Steps: layoutStepLimit})
			}
		}
	}
}

// ---- family 2: blocks in every order -------------------------------------------------------------

// lblock is one block of a block program; emit writes its body (its label is
// defined by the layout). Every block ends with an instruction that never
// falls through (ENDTRY, ENDFINALLY, RET, THROW, JMP).
type lblock struct {
	name string
	emit func(a *lasm, long bool)
}

type blockProg struct {
	name   string
	blocks []lblock // blocks[0] is the entry block
}

// raise kinds of a region.
var raiseKinds = []string{"n", "t", "e", "d", "a", "c", "r"}

// raise emits a region's event. mark is thrown by "t". "c" calls block T
// (which the program then has to contain).
func raise(a *lasm, long bool, kind string, mark sv.Op) {
	switch kind {
	case "n":
	case "t": // THROW
		a.ops(mark, sv.THROW)
	case "e": // engine-raised catchable exception: PICKITEM index out of range
		a.ops(sv.NEWARRAY0, sv.PUSH0, sv.PICKITEM)
	case "d": // division by zero: DivideByZeroException is not a CatchableException => FAULT, no handler runs
		a.ops(sv.PUSH1, sv.PUSH0, sv.DIV)
	case "a": // ABORT: "cannot be caught"
		a.ops(sv.ABORT)
	case "c": // exception thrown by a callee
		a.xfer(sv.CALL, long, "T")
	case "r": // RET out of the region
		a.ops(sv.RET)
	default:
		panic("raise kind")
	}
}

func usesT(kinds ...string) bool {
	for _, k := range kinds {
		if k == "c" {
			return true
		}
	}
	return false
}

var blockT = lblock{"T", func(a *lasm, long bool) { a.ops(sv.PUSH13, sv.THROW) }}

// simpleTry: one try statement; shape "C", "F" or "CF"; wrapped: the statement
// is a function called under an outer try/catch of the entry block.
func simpleTry(shape string, rb, rc, rf string, wrapped bool) blockProg {
	hasC, hasF := strings.Contains(shape, "C"), strings.Contains(shape, "F")
	c, f := "", ""
	if hasC {
		c = "C"
	}
	if hasF {
		f = "F"
	}
	var bs []lblock
	if wrapped {
		bs = append(bs, lblock{"entry", func(a *lasm, long bool) {
			a.ops(sv.PUSH16).try(long, "K", "").xfer(sv.CALL, long, "main").ops(sv.PUSH14, sv.RET)
		}})
	}
	bs = append(bs, lblock{"main", func(a *lasm, long bool) {
		a.ops(sv.PUSH1).try(long, c, f).ops(sv.PUSH2)
		raise(a, long, rb, sv.PUSH10)
		a.xfer(sv.ENDTRY, long, "E")
	}})
	if hasC {
		bs = append(bs, lblock{"C", func(a *lasm, long bool) {
			a.ops(sv.PUSH3)
			raise(a, long, rc, sv.PUSH11)
			a.xfer(sv.ENDTRY, long, "E")
		}})
	}
	if hasF {
		bs = append(bs, lblock{"F", func(a *lasm, long bool) {
			a.ops(sv.PUSH4)
			raise(a, long, rf, sv.PUSH12)
			a.ops(sv.ENDFINALLY)
		}})
	}
	bs = append(bs, lblock{"E", func(a *lasm, long bool) { a.ops(sv.PUSH5, sv.RET) }})
	if usesT(rb, rc, rf) {
		bs = append(bs, blockT)
	}
	if wrapped {
		bs = append(bs, lblock{"K", func(a *lasm, long bool) { a.ops(sv.PUSH15, sv.RET) }})
	}
	w := ""
	if wrapped {
		w = "called-under-outer-catch:"
	}
	return blockProg{name: fmt.Sprintf("%stry-%s[body=%s,catch=%s,finally=%s]", w, shape, rb, rc, rf), blocks: bs}
}

// nestedTry: an inner try statement inside the body of an outer one; inner
// handlers are blocks of their own, so the layouts put them before the outer
// TRY, between, after.
func nestedTry(inner, outer string, r1, r2, r3, r4 string) blockProg {
	ic, iff, oc, of := "", "", "", ""
	if strings.Contains(inner, "C") {
		ic = "IC"
	}
	if strings.Contains(inner, "F") {
		iff = "IF"
	}
	if strings.Contains(outer, "C") {
		oc = "OC"
	}
	if strings.Contains(outer, "F") {
		of = "OF"
	}
	bs := []lblock{{"main", func(a *lasm, long bool) {
		a.ops(sv.PUSH1).try(long, oc, of).ops(sv.PUSH2).try(long, ic, iff).ops(sv.PUSH3)
		raise(a, long, r1, sv.PUSH10)
		a.xfer(sv.ENDTRY, long, "IE")
	}}}
	if ic != "" {
		bs = append(bs, lblock{"IC", func(a *lasm, long bool) {
			a.ops(sv.PUSH4)
			raise(a, long, r2, sv.PUSH11)
			a.xfer(sv.ENDTRY, long, "IE")
		}})
	}
	if iff != "" {
		bs = append(bs, lblock{"IF", func(a *lasm, long bool) {
			a.ops(sv.PUSH5)
			raise(a, long, r3, sv.PUSH12)
			a.ops(sv.ENDFINALLY)
		}})
	}
	bs = append(bs, lblock{"IE", func(a *lasm, long bool) {
		a.ops(sv.PUSH6)
		raise(a, long, r4, sv.PUSH14)
		a.xfer(sv.ENDTRY, long, "E")
	}})
	if oc != "" {
		bs = append(bs, lblock{"OC", func(a *lasm, long bool) { a.ops(sv.PUSH7).xfer(sv.ENDTRY, long, "E") }})
	}
	if of != "" {
		bs = append(bs, lblock{"OF", func(a *lasm, long bool) { a.ops(sv.PUSH8, sv.ENDFINALLY) }})
	}
	bs = append(bs, lblock{"E", func(a *lasm, long bool) { a.ops(sv.PUSH9, sv.RET) }})
	if usesT(r1, r2, r3, r4) {
		bs = append(bs, blockT)
	}
	return blockProg{name: fmt.Sprintf("nested[inner=%s,outer=%s:body=%s,icatch=%s,ifinally=%s,after-inner=%s]", inner, outer, r1, r2, r3, r4), blocks: bs}
}

// callIntoTry: main calls FN; FN's TRY names handler blocks that the layouts
// place outside the callee's region (before main, between main and FN, ...).
// catchRet: the catch block returns from the function directly (RET in the
// CATCH state) instead of leaving through ENDTRY.
func callIntoTry(shape string, r1, r2, r3 string, outer, catchRet bool) blockProg {
	c, f := "", ""
	if strings.Contains(shape, "C") {
		c = "FC"
	}
	if strings.Contains(shape, "F") {
		f = "FF"
	}
	bs := []lblock{{"main", func(a *lasm, long bool) {
		a.ops(sv.PUSH1)
		if outer {
			a.try(long, "K", "")
		}
		a.xfer(sv.CALL, long, "FN").ops(sv.PUSH2, sv.RET)
	}}, {"FN", func(a *lasm, long bool) {
		a.ops(sv.PUSH3).try(long, c, f).ops(sv.PUSH4)
		raise(a, long, r1, sv.PUSH10)
		a.xfer(sv.ENDTRY, long, "FE")
	}}}
	if c != "" {
		bs = append(bs, lblock{"FC", func(a *lasm, long bool) {
			a.ops(sv.PUSH5)
			raise(a, long, r2, sv.PUSH11)
			if catchRet {
				a.ops(sv.RET)
			} else {
				a.xfer(sv.ENDTRY, long, "FE")
			}
		}})
	}
	if f != "" {
		bs = append(bs, lblock{"FF", func(a *lasm, long bool) {
			a.ops(sv.PUSH6)
			raise(a, long, r3, sv.PUSH12)
			a.ops(sv.ENDFINALLY)
		}})
	}
	bs = append(bs, lblock{"FE", func(a *lasm, long bool) { a.ops(sv.PUSH7, sv.RET) }})
	if usesT(r1, r2, r3) {
		bs = append(bs, blockT)
	}
	if outer {
		bs = append(bs, lblock{"K", func(a *lasm, long bool) { a.ops(sv.PUSH15, sv.RET) }})
	}
	return blockProg{name: fmt.Sprintf("call-into-try-%s[body=%s,catch=%s,finally=%s,outer-catch=%v,catch-returns=%v]", shape, r1, r2, r3, outer, catchRet), blocks: bs}
}

// pendingStray: an exception is pending in a finally block F (reached by a
// THROW in the try body) and the block does something unusual before its
// ENDFINALLY: opens a nested TRY and executes ENDFINALLY inside it, calls a
// function that executes ENDFINALLY / opens a TRY and executes ENDFINALLY,
// replaces the exception by a caught one. outer: an enclosing try/catch K in
// the same context shows where the exception finally arrives.
func pendingStray(kind string, outer bool) blockProg {
	bs := []lblock{{"main", func(a *lasm, long bool) {
		a.ops(sv.PUSH1)
		if outer {
			a.try(long, "K", "")
		}
		a.try(long, "", "F").ops(sv.PUSH2, sv.PUSH10, sv.THROW)
	}}}
	f := func(body func(a *lasm, long bool)) lblock {
		return lblock{"F", func(a *lasm, long bool) {
			a.ops(sv.PUSH3)
			body(a, long)
			a.ops(sv.ENDFINALLY)
		}}
	}
	switch kind {
	case "nested-try-c;endfinally":
		bs = append(bs, f(func(a *lasm, long bool) { a.try(long, "SC", "") }),
			lblock{"SC", func(a *lasm, long bool) { a.ops(sv.PUSH4, sv.RET) }})
	case "nested-try-f;endfinally":
		bs = append(bs, f(func(a *lasm, long bool) { a.try(long, "", "SF") }),
			lblock{"SF", func(a *lasm, long bool) { a.ops(sv.PUSH4, sv.RET) }})
	case "nested-try-cf;endfinally":
		bs = append(bs, f(func(a *lasm, long bool) { a.try(long, "SC", "SF") }),
			lblock{"SC", func(a *lasm, long bool) { a.ops(sv.PUSH4, sv.RET) }},
			lblock{"SF", func(a *lasm, long bool) { a.ops(sv.PUSH5, sv.RET) }})
	case "call{endfinally}":
		bs = append(bs, f(func(a *lasm, long bool) { a.xfer(sv.CALL, long, "B") }),
			lblock{"B", func(a *lasm, long bool) { a.ops(sv.PUSH4, sv.ENDFINALLY) }})
	case "call{try-c;endfinally}":
		bs = append(bs, f(func(a *lasm, long bool) { a.xfer(sv.CALL, long, "B") }),
			lblock{"B", func(a *lasm, long bool) { a.ops(sv.PUSH4).try(long, "SC", "").ops(sv.ENDFINALLY) }},
			lblock{"SC", func(a *lasm, long bool) { a.ops(sv.PUSH5, sv.RET) }})
	case "call{ret}":
		bs = append(bs, f(func(a *lasm, long bool) { a.xfer(sv.CALL, long, "B") }),
			lblock{"B", func(a *lasm, long bool) { a.ops(sv.PUSH4, sv.RET) }})
	case "nested-try-c;throw;catch:endfinally":
		bs = append(bs, f(func(a *lasm, long bool) { a.try(long, "SC", "").ops(sv.PUSH4, sv.PUSH11, sv.THROW) }),
			lblock{"SC", func(a *lasm, long bool) { a.ops(sv.PUSH5, sv.ENDFINALLY) }})
	case "nested-try-c;throw;catch:endtry":
		bs = append(bs, f(func(a *lasm, long bool) { a.try(long, "SC", "").ops(sv.PUSH4, sv.PUSH11, sv.THROW) }),
			lblock{"SC", func(a *lasm, long bool) { a.ops(sv.PUSH5).xfer(sv.ENDTRY, long, "SE") }},
			lblock{"SE", func(a *lasm, long bool) { a.ops(sv.PUSH6, sv.ENDFINALLY) }})
	case "ret;caller:endfinally-in-catch-with-finally":
		// the statement is a function: its finally block returns with the
		// exception still pending; the caller is in the CATCH state of a
		// try/catch/finally and executes ENDFINALLY there
		bs = []lblock{{"main", func(a *lasm, long bool) {
			a.ops(sv.PUSH1)
			if outer {
				a.try(long, "K", "")
			}
			a.try(long, "C0", "F0").ops(sv.PUSH2, sv.PUSH10, sv.THROW)
		}}, {"C0", func(a *lasm, long bool) { a.ops(sv.PUSH3).xfer(sv.CALL, long, "B").ops(sv.PUSH4, sv.ENDFINALLY) }},
			{"F0", func(a *lasm, long bool) { a.ops(sv.PUSH5, sv.RET) }},
			{"B", func(a *lasm, long bool) { a.ops(sv.PUSH6).try(long, "", "F").ops(sv.PUSH11, sv.THROW) }},
			{"F", func(a *lasm, long bool) { a.ops(sv.PUSH7, sv.RET) }}}
	default:
		panic("pendingStray kind")
	}
	if outer {
		bs = append(bs, lblock{"K", func(a *lasm, long bool) { a.ops(sv.PUSH15, sv.RET) }})
	}
	return blockProg{name: fmt.Sprintf("pending-exception[finally-block=%s,outer-catch=%v]", kind, outer), blocks: bs}
}

var pendingStrayKinds = []string{"nested-try-c;endfinally", "nested-try-f;endfinally", "nested-try-cf;endfinally", "call{endfinally}", "call{try-c;endfinally}",
	"call{ret}", "nested-try-c;throw;catch:endfinally", "nested-try-c;throw;catch:endtry", "ret;caller:endfinally-in-catch-with-finally"}

// layoutsOf: orders of n blocks (indices; 0 is the entry block). all: every
// permutation. Otherwise: every split of the non-entry blocks into "before
// the entry block" / "after it", each side in the given and in the reversed
// order (so every block is first, last, directly before and directly after the
// entry block in some layout).
func layoutsOf(n int, all bool) [][]int {
	var out [][]int
	if all {
		idx := make([]int, n)
		for i := range idx {
			idx[i] = i
		}
		var rec func(k int)
		rec = func(k int) {
			if k == n {
				out = append(out, append([]int{}, idx...))
				return
			}
			for i := k; i < n; i++ {
				idx[k], idx[i] = idx[i], idx[k]
				rec(k + 1)
				idx[k], idx[i] = idx[i], idx[k]
			}
		}
		rec(0)
		return out
	}
	rev := func(s []int) []int {
		r := make([]int, len(s))
		for i, v := range s {
			r[len(s)-1-i] = v
		}
		return r
	}
	seen := map[string]bool{}
	for mask := 0; mask < 1<<(n-1); mask++ {
		var before, after []int
		for i := 1; i < n; i++ {
			if mask&(1<<(i-1)) != 0 {
				before = append(before, i)
			} else {
				after = append(after, i)
			}
		}
		for _, rb := range []bool{false, true} {
			for _, ra := range []bool{false, true} {
				b, a := before, after
				if rb {
					b = rev(b)
				}
				if ra {
					a = rev(a)
				}
				l := append(append(append([]int{}, b...), 0), a...)
				k := fmt.Sprint(l)
				if !seen[k] {
					seen[k] = true
					out = append(out, l)
				}
			}
		}
	}
	return out
}

// assembleBlocks lays the blocks out in the given order.
func assembleBlocks(bp blockProg, order []int, long bool) ([]byte, error) {
	a := newAsm()
	for i, bi := range order {
		b := bp.blocks[bi]
		a.label(b.name)
		if i == 0 && bi != 0 {
			a.guard(bp.blocks[0].name)
		}
		b.emit(a, long)
	}
	return a.link()
}

func orderName(bp blockProg, order []int) string {
	n := make([]string, len(order))
	for i, bi := range order {
		n[i] = bp.blocks[bi].name
	}
	return strings.Join(n, ">")
}

func blocksSection(r *vk.Run) section {
	thorough := r.Thorough()
	progs := blockPrograms(r)
	return section{"layout-blocks", len(progs), func(j int, emit func(prog)) {
		bp := progs[j]
		n := len(bp.blocks)
		all := n <= 5 || (thorough && n <= 6)
		fam := strings.SplitN(bp.name, "[", 2)[0]
		for _, order := range layoutsOf(n, all) {
			for _, long := range []bool{false, true} {
				s, err := assembleBlocks(bp, order, long)
				if err != nil {
					panic("layout-blocks: " + bp.name + ": " + err.Error())
				}
				layoutCnt.note(layoutCnt.shapes, "blocks:"+fam)
				if order[0] != 0 {
					layoutCnt.note(layoutCnt.shapes, "blocks:block-at-position-0="+bp.blocks[order[0]].name)
				}
				emit(prog{Key: "BLOCKS:" + bp.name + ":" + orderName(bp, order) + ":" + formName(long), Class: "BLOCKS-" + fam, Script: s, Steps: layoutStepLimit})
			}
		}
	}}
}

// blockPrograms: the block programs of layout-blocks (also the second programs
// of reuse-blocks).
func blockPrograms(r *vk.Run) []blockProg {
	var progs []blockProg
	shapes := []string{"C", "F", "CF"}
	kindsFor := func(shape string, region byte, ks []string) []string {
		if !strings.Contains(shape, string(region)) {
			return []string{"n"}
		}
		return ks
	}
	for _, sh := range shapes {
		for _, rb := range raiseKinds {
			for _, rc := range kindsFor(sh, 'C', raiseKinds) {
				for _, rf := range kindsFor(sh, 'F', raiseKinds) {
					progs = append(progs, simpleTry(sh, rb, rc, rf, false))
				}
			}
		}
		wk := vk.Pick(r, []string{"n", "t", "e"}, []string{"n", "t", "e", "c", "r"})
		for _, rb := range wk {
			for _, rc := range kindsFor(sh, 'C', wk) {
				for _, rf := range kindsFor(sh, 'F', wk) {
					progs = append(progs, simpleTry(sh, rb, rc, rf, true))
				}
			}
		}
	}
	nk := vk.Pick(r, []string{"n", "t"}, []string{"n", "t", "e"})
	for _, in := range shapes {
		for _, ou := range shapes {
			for _, r1 := range nk {
				for _, r2 := range kindsFor(in, 'C', nk) {
					for _, r3 := range kindsFor(in, 'F', nk) {
						for _, r4 := range nk {
							progs = append(progs, nestedTry(in, ou, r1, r2, r3, r4))
						}
					}
				}
			}
		}
	}
	ck := vk.Pick(r, []string{"n", "t", "r"}, []string{"n", "t", "e", "r", "c"})
	for _, sh := range shapes {
		for _, r1 := range ck {
			for _, r2 := range kindsFor(sh, 'C', ck) {
				for _, r3 := range kindsFor(sh, 'F', ck) {
					for _, outer := range []bool{false, true} {
						progs = append(progs, callIntoTry(sh, r1, r2, r3, outer, false))
						if strings.Contains(sh, "C") {
							progs = append(progs, callIntoTry(sh, r1, r2, r3, outer, true))
						}
					}
				}
			}
		}
	}
	for _, k := range pendingStrayKinds {
		for _, outer := range []bool{false, true} {
			progs = append(progs, pendingStray(k, outer))
		}
	}
	return progs
}

// ---- family 3: sequences of exception-handling cells ------------------------------------------------

// A cell is "marker; instruction". Targets are cells (the position of the
// cell's marker); cell n (one past the last free cell) is a trailing RET.
type cellKind struct {
	name string
	nt   int // number of targets
	emit func(a *lasm, long bool, t []string)
}

// cellKinds: set "full" = all nine kinds; "no-try-cf" drops the two-target
// TRY; "core" also drops CALL and RET; "+extra" adds an engine-raised
// exception and JMP.
func cellKinds(set string) []cellKind {
	ks := []cellKind{
		{"m", 0, func(a *lasm, long bool, t []string) {}},
		{"throw", 0, func(a *lasm, long bool, t []string) { a.ops(sv.DUP, sv.THROW) }},
		{"endfinally", 0, func(a *lasm, long bool, t []string) { a.ops(sv.ENDFINALLY) }},
		{"try-c", 1, func(a *lasm, long bool, t []string) { a.try(long, t[0], "") }},
		{"try-f", 1, func(a *lasm, long bool, t []string) { a.try(long, "", t[0]) }},
		{"endtry", 1, func(a *lasm, long bool, t []string) { a.xfer(sv.ENDTRY, long, t[0]) }},
	}
	if !strings.HasPrefix(set, "core") {
		ks = append(ks, cellKind{"ret", 0, func(a *lasm, long bool, t []string) { a.ops(sv.RET) }},
			cellKind{"call", 1, func(a *lasm, long bool, t []string) { a.xfer(sv.CALL, long, t[0]) }})
	}
	if strings.HasPrefix(set, "full") {
		ks = append(ks, cellKind{"try-cf", 2, func(a *lasm, long bool, t []string) { a.try(long, t[0], t[1]) }})
	}
	if strings.HasSuffix(set, "+extra") {
		ks = append(ks, cellKind{"pickitem-oob", 0, func(a *lasm, long bool, t []string) { a.ops(sv.NEWARRAY0, sv.PUSH0, sv.PICKITEM) }},
			cellKind{"jmp", 1, func(a *lasm, long bool, t []string) { a.xfer(sv.JMP, long, t[0]) }})
	}
	return ks
}

type cellInst struct {
	kind cellKind
	t    []int
}

func (c cellInst) String() string {
	if len(c.t) == 0 {
		return c.kind.name
	}
	s := make([]string, len(c.t))
	for i, v := range c.t {
		s[i] = fmt.Sprint(v)
	}
	return c.kind.name + "(" + strings.Join(s, ",") + ")"
}

// cellAlphabet: every kind with every combination of target cells 0..ncells
// (ncells = the trailing RET). A TRY whose target is its own cell is kept: the
// target is the cell's marker, not the TRY, so the offset is not 0.
func cellAlphabet(ncells int, set string) []cellInst {
	var out []cellInst
	for _, k := range cellKinds(set) {
		switch k.nt {
		case 0:
			out = append(out, cellInst{k, nil})
		case 1:
			for t := 0; t <= ncells; t++ {
				out = append(out, cellInst{k, []int{t}})
			}
		case 2:
			for t := 0; t <= ncells; t++ {
				for u := 0; u <= ncells; u++ {
					out = append(out, cellInst{k, []int{t, u}})
				}
			}
		}
	}
	return out
}

// assembleCells: guard < 0: no guard, cell 0 is the entry. guard = k: cell 0
// is "DEPTH; JMPIFNOT cell k" (no marker), the free cells are 1..n.
func assembleCells(cells []cellInst, guard int, long bool) ([]byte, error) {
	a := newAsm()
	lab := func(i int) string { return fmt.Sprintf("c%d", i) }
	first := 0
	if guard >= 0 {
		a.label(lab(0)).guard(lab(guard))
		first = 1
	}
	for i, c := range cells {
		a.label(lab(first + i)).ops(markers[first+i])
		t := make([]string, len(c.t))
		for j, v := range c.t {
			t[j] = lab(v)
		}
		c.kind.emit(a, long, t)
	}
	a.label(lab(first + len(cells))).ops(sv.RET)
	return a.link()
}

// cellVariant: guard < 0: entry at cell 0; otherwise cell 0 is the guard.
type cellVariant struct {
	guard int
	long  bool
}

// cellsSection: every sequence of n cells over the kind set, in each variant.
func cellsSection(n int, set string, vs []cellVariant) section {
	return cellsSectionFirst(n, set, "", vs)
}

// cellsSectionFirst: first != "": only sequences whose first cell is of that kind.
func cellsSectionFirst(n int, set, first string, vs []cellVariant) section {
	type jobT struct {
		v      cellVariant
		prefix []cellInst // the first one (n<=3) or two (n>=4) cells
	}
	var jobs []jobT
	alphaOf := func(v cellVariant) []cellInst {
		nc := n
		if v.guard >= 0 {
			nc = n + 1
		}
		return cellAlphabet(nc, set)
	}
	for _, v := range vs {
		al := alphaOf(v)
		for _, c := range al {
			if first != "" && c.kind.name != first {
				continue
			}
			if n < 4 {
				jobs = append(jobs, jobT{v, []cellInst{c}})
				continue
			}
			for _, d := range al {
				jobs = append(jobs, jobT{v, []cellInst{c, d}})
			}
		}
	}
	name := fmt.Sprintf("layout-eh-cells(len=%d,%s)", n, set)
	if first != "" {
		name = fmt.Sprintf("layout-eh-cells(len=%d,%s,first=%s)", n, set, first)
	}
	return section{name, len(jobs), func(j int, emit func(prog)) {
		jb := jobs[j]
		alpha := alphaOf(jb.v)
		g := "entry-at-cell-0"
		if jb.v.guard >= 0 {
			g = fmt.Sprintf("guard->cell%d", jb.v.guard)
		}
		cells := append([]cellInst{}, jb.prefix...)
		var rec func()
		rec = func() {
			if len(cells) == n {
				s, err := assembleCells(cells, jb.v.guard, jb.v.long)
				if err != nil {
					panic("layout-eh-cells: " + err.Error())
				}
				names := make([]string, n)
				for i, c := range cells {
					names[i] = c.String()
				}
				emit(prog{Key: "CELLS:" + g + ":" + formName(jb.v.long) + ":" + strings.Join(names, ","), Class: "CELLS-" + cells[n-1].kind.name, Script: s, Steps: cellStepLimit})
				return
			}
			for _, c := range alpha {
				cells = append(cells, c)
				rec()
				cells = cells[:len(cells)-1]
			}
		}
		rec()
		if j == 0 {
			for _, v := range vs {
				gg := "entry-at-cell-0"
				if v.guard >= 0 {
					gg = fmt.Sprintf("guard->cell%d", v.guard)
				}
				layoutCnt.note(layoutCnt.shapes, fmt.Sprintf("cells(len=%d,%s,alphabet=%d):%s:%s", n, set, len(alphaOf(v)), gg, formName(v.long)))
			}
		}
	}}
}

// cellStepLimit: a straight path through n<=5 cells is < 20 instructions; a
// handler loop that ends at MaxTryNestingDepth (16) takes < 250; what runs
// longer never ends by itself within the model's means (excluded, counted).
const cellStepLimit = 250

func layoutSections(r *vk.Run) []section {
	secs := []section{edgeSection(), blocksSection(r)}
	sh, lg := false, true
	if !r.Thorough() {
		// quick: all 3-cell sequences over the full alphabet (entry at cell 0 in
		// both forms, cell 0 as guarded handler at position 0 in the short form),
		// all 4-cell sequences without the two-target TRY
		return append(secs,
			cellsSection(3, "full", []cellVariant{{-1, sh}, {-1, lg}, {2, sh}, {3, sh}}),
			cellsSection(4, "no-try-cf", []cellVariant{{-1, sh}}))
	}
	return append(secs,
		cellsSection(3, "full+extra", []cellVariant{{-1, sh}, {-1, lg}, {1, sh}, {2, sh}, {3, sh}, {2, lg}, {3, lg}}),
		cellsSection(4, "full", []cellVariant{{-1, sh}}),
		cellsSection(4, "no-try-cf", []cellVariant{{-1, lg}, {2, sh}, {3, sh}, {4, sh}}),
		cellsSection(5, "core", []cellVariant{{-1, sh}}),
		// an outer handler first, then every 4-cell sequence with CALL and RET:
		// pending exceptions across invocation frames
		cellsSectionFirst(5, "no-try-cf", "try-c", []cellVariant{{-1, sh}}))
}

// ---- per-family evidence ------------------------------------------------------------------------------

type famStat struct {
	programs, halt, fault, thrown int64
	outcomes                      *hashSet
	undet                         map[string]int64
}

var (
	famMu sync.Mutex
	fams  = map[string]*famStat{}
)

func famOf(section string) *famStat {
	famMu.Lock()
	defer famMu.Unlock()
	f := fams[section]
	if f == nil {
		f = &famStat{outcomes: newHashSet(), undet: map[string]int64{}}
		fams[section] = f
	}
	return f
}

func (s *stats) noteFamily(p prog, m *sv.VM, a implRes) {
	f := famOf(p.Section)
	f.outcomes.add(a.State + " " + a.Canon)
	famMu.Lock()
	f.programs++
	if a.State == "HALT" {
		f.halt++
	} else {
		f.fault++
	}
	if m.Thrown > 0 {
		f.thrown++
	}
	famMu.Unlock()
}

func (s *stats) noteFamilyUndet(p prog, why string) {
	if !isFamilySection(p.Section) {
		return
	}
	f := famOf(p.Section)
	famMu.Lock()
	f.undet[why]++
	famMu.Unlock()
}

func (s *stats) familyReport() map[string]any {
	out := map[string]any{}
	famMu.Lock()
	for name, f := range fams {
		if !strings.HasPrefix(name, "layout-") {
			continue
		}
		out[name] = map[string]any{
			"programs_compared":               f.programs,
			"halt":                            f.halt,
			"fault":                           f.fault,
			"with_exceptions":                 f.thrown,
			"distinct_outcomes":               f.outcomes.len(),
			"undetermined_excluded_by_reason": f.undet,
		}
	}
	famMu.Unlock()
	layoutCnt.mu.Lock()
	out["edge_target_classes"] = sortedCounts(layoutCnt.targets)
	out["templates"] = sortedCounts(layoutCnt.shapes)
	layoutCnt.mu.Unlock()
	return out
}
