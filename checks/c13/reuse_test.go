package c13

// Family `reuse` (third extension round): executions on a VM object that has
// already executed something.
//
// Every other section runs each program on a FRESH vm.VM. The node does not:
// Blockchain.storeBlock spawns one VM for the OnPersist script and re-uses it
// for every transaction of the block and for PostPersist through
// interop.Context.ReuseVM (= (*VM).Reset + initVM) followed by
// LoadScriptWithFlags; contract entry points are loaded with LoadNEFMethod /
// LoadScriptWithHash. The property says "the same script and arguments always
// give the same stack, state and gas" - so whatever ran before on the same
// VM object (and however it ended) must not be visible to the next script.
//
// The family enumerates histories (first program P [, P2], second program Q)
// x way of re-use:
//
//   P   an alphabet of ENDINGS: HALT (empty / items / compound items / 2048
//       items / statics), FAULT by a non-catchable error (with items left on
//       the stacks, at MaxStackSize), ABORT / ABORTMSG / ASSERT, unhandled
//       THROW (integer, compound, null), unhandled engine-raised catchable
//       error, both at the top level, inside nested calls with locals/args,
//       inside try bodies with open handlers, inside catch and finally blocks,
//       re-thrown by ENDFINALLY, gas exhaustion (first instruction, in the
//       middle of a try in a call, exactly at the limit +-1), faults inside a
//       script loaded by the host (own evaluation stack, own statics) -
//       plus every Q (so "Q after Q" is the plain determinism question).
//   Q   try/finally completing normally, try/catch, catch+finally, nested
//       and called handlers, CALL/RET chains, CALLA, pointers, slots read
//       before written, DEPTH, programs exactly at / one over MaxStackSize
//       (the item counter must start from zero: the FAULT message carries
//       the count), compound-item programs, host scripts with a callee that
//       has to be unloaded with commit=true.
//       A second sub-family takes Q from the block programs of layout-blocks
//       (every try shape x raise kind in every region, natural order).
//   way how the second script gets onto the VM:
//       reset+LoadScriptWithFlags | reset+LoadWithFlags |
//       reset+LoadScriptWithHash | reset+LoadNEFMethod (with unload
//       callbacks, which receive commit = "no exception pending") |
//       interop.Context.ReuseVM+LoadScriptWithFlags+Exec (what storeBlock
//       does, on a real interop.Context: SpawnVM for the first execution, a
//       new Context + ReuseVM for the next) |
//       interop.Context.ReuseVM+LoadNEFMethod+Exec.
//
// Oracle: Q on the re-used VM gives exactly what Q gives on a fresh VM loaded
// the same way: state, result stack (with sharing), gas, number of executed
// instructions, error text (it carries the item count for MaxStackSize
// faults), log of the unload callbacks. The fresh outcome itself must agree
// with specvm (state and stack) in every way and have the same gas in every
// way; P and Q are also sent through the ordinary model comparison.

import (
	"encoding/hex"
	"errors"
	"fmt"
	"strings"
	"sync"
	"sync/atomic"

	"github.com/nspcc-dev/neo-go/pkg/config"
	"github.com/nspcc-dev/neo-go/pkg/core/block"
	"github.com/nspcc-dev/neo-go/pkg/core/dao"
	"github.com/nspcc-dev/neo-go/pkg/core/fee"
	"github.com/nspcc-dev/neo-go/pkg/core/interop"
	"github.com/nspcc-dev/neo-go/pkg/core/storage"
	"github.com/nspcc-dev/neo-go/pkg/crypto/hash"
	"github.com/nspcc-dev/neo-go/pkg/smartcontract/callflag"
	"github.com/nspcc-dev/neo-go/pkg/smartcontract/nef"
	"github.com/nspcc-dev/neo-go/pkg/smartcontract/trigger"
	"github.com/nspcc-dev/neo-go/pkg/util"
	"github.com/nspcc-dev/neo-go/pkg/vm"
	"github.com/nspcc-dev/neo-go/pkg/vm/opcode"
	"github.com/nspcc-dev/neo-go/pkg/vm/stackitem"

	sv "verif/lib/specvm"
	"verif/lib/vk"
)

// rprog is one program of a history.
type rprog struct {
	Name   string
	Script []byte
	Extra  [][]byte // host scripts (service ids 1..n)
	RV     []int
	Gas    int64 // gas limit in datoshi of this execution (0: implGasLimit)
	// NoSpec: not sent through the model comparison (gas-limited runs: the
	// model has no gas).
	NoSpec bool
}

func (p rprog) prog(section string) prog {
	return prog{Section: section, Key: "REUSE-PROGRAM:" + p.Name, Class: "reuse-program", Script: p.Script, Extra: p.Extra, RV: p.RV, Steps: 6000}
}

// ---- ways -----------------------------------------------------------------------------------------------

type rway struct {
	name string
	ic   bool   // through a real interop.Context (SpawnVM / ReuseVM / Exec)
	load string // flags | loadwithflags | hash | nef
	// noReset: the second script is loaded WITHOUT Reset (LoadWithFlags "could
	// be a reload"). Not a path of the node, but promised by the doc comment.
	noReset bool
}

func reuseWays() []rway {
	ws := []rway{
		{name: "ic.ReuseVM+LoadScriptWithFlags+Exec", ic: true, load: "flags"},
		{name: "Reset+LoadScriptWithFlags", load: "flags"},
		{name: "Reset+LoadWithFlags", load: "loadwithflags"},
		{name: "Reset+LoadScriptWithHash", load: "hash"},
		{name: "Reset+LoadNEFMethod(callbacks)", load: "nef"},
		{name: "ic.ReuseVM+LoadNEFMethod(callbacks)+Exec", ic: true, load: "nef"},
	}
	// a reload without Reset: LoadWithFlags promises "Clear all stacks and
	// state, it could be a reload" (fixed b953a6d: it left the pending
	// exception and the item counter behind)
	ws = append(ws, rway{name: "LoadWithFlags-without-Reset", load: "loadwithflags", noReset: true})
	return ws
}

// stubLedger is the Ledger an interop.Context needs for what the VM asks of it
// (hardfork heights).
type stubLedger struct{ cfg config.Blockchain }

func (stubLedger) BlockHeight() uint32                         { return 0 }
func (stubLedger) CurrentBlockHash() util.Uint256              { return util.Uint256{} }
func (stubLedger) GetBlock(util.Uint256) (*block.Block, error) { return nil, errors.New("no blocks") }
func (s stubLedger) GetConfig() config.Blockchain              { return s.cfg }
func (stubLedger) GetHeaderHash(uint32) util.Uint256           { return util.Uint256{} }
func (stubLedger) NativeManagementID() int32                   { return -1 }

var reuseLedger = func() stubLedger {
	hf := map[string]uint32{}
	for _, h := range config.Hardforks {
		hf[h.String()] = 0 // vm.New() enables every hardfork as well
	}
	var cfg config.Blockchain
	cfg.Hardforks = hf
	return stubLedger{cfg: cfg}
}()

// rsession is one VM object with what the harness keeps around it.
type rsession struct {
	w     rway
	v     *vm.VM
	ic    *interop.Context
	steps int
	log   []string
	cur   *rprog
}

type rout struct {
	State string
	Canon string
	Err   string
	Log   string
	Gas   int64
	Steps int
	Stack []stackitem.Item
}

func (o rout) String() string {
	return fmt.Sprintf("%s [%s] gas=%d steps=%d err=%q unload-log=%q", o.State, clip(o.Canon), o.Gas, o.Steps, o.Err, o.Log)
}

func (o rout) same(b rout) bool {
	return o.State == b.State && o.Canon == b.Canon && o.Err == b.Err && o.Log == b.Log && o.Gas == b.Gas && o.Steps == b.Steps
}

func reusePrice(op opcode.Opcode, _ []byte) int64 {
	return fee.Opcode(30*vm.ExecFeeFactorMultiplier, op)
}

func (s *rsession) newIC() *interop.Context {
	d := dao.NewSimple(storage.NewMemoryStore(), false)
	ic := interop.NewContext(trigger.Application, reuseLedger, d, 30*vm.ExecFeeFactorMultiplier, 1000*vm.ExecFeeFactorMultiplier,
		nil, nil, nil, &block.Block{Header: block.Header{Index: 1}}, nil, nil)
	// the miniature host as ordinary interop functions (sorted by id)
	for id := 0; id < 24; id++ {
		id := id
		ic.Functions = append(ic.Functions, interop.Function{ID: uint32(id), Name: fmt.Sprintf("host.%d", id), Func: func(ic *interop.Context) error {
			return s.host(ic.VM, uint32(id))
		}})
	}
	return ic
}

// host is the SYSCALL host of runImplOpt; in the ways with callbacks a callee
// with return count 1 is loaded through LoadNEFMethod with unload callbacks.
func (s *rsession) host(v *vm.VM, id uint32) error {
	p := s.cur
	if id == 0 || int(id) > len(p.Extra) {
		if id == 0 && len(p.Extra) > 0 {
			return errors.New("service 0 is not used by this family")
		}
		return errors.New("unknown service")
	}
	arg := v.Estack().Pop().Item()
	code := append([]byte{}, p.Extra[id-1]...)
	switch {
	case p.RV[id-1] == 1 && s.w.load == "nef":
		tag := fmt.Sprintf("callee%d", id)
		v.LoadNEFMethod(&nef.File{Script: code}, nil, v.GetCurrentScriptHash(), hash.Hash160(code), callflag.All, true, 0, -1, s.onUnload(tag), nil, false)
	case p.RV[id-1] == 1:
		v.LoadScriptWithHash(code, hash.Hash160(code), callflag.All)
	default:
		v.Estack().PushItem(stackitem.Null{})
		v.LoadScriptWithFlags(code, callflag.All)
		is := v.Istack()
		is[len(is)-2].Estack().Pop()
	}
	v.Estack().PushItem(arg)
	return nil
}

func (s *rsession) onUnload(tag string) vm.ContextUnloadCallback {
	return func(_ *vm.VM, _ *vm.Context, commit bool) error {
		s.log = append(s.log, fmt.Sprintf("%s:unload(commit=%v)", tag, commit))
		return nil
	}
}

// (No ContextUnloadedCallback: the node installs one only for calls made by
// native contracts, where an exception passing through the callee is meant to
// be fatal - with it a caller could not catch what its callee throws.)

// start makes the session's VM the way the node makes a VM for a first
// execution.
func newSession(w rway) *rsession {
	s := &rsession{w: w}
	if w.ic {
		s.ic = s.newIC()
		s.v = s.ic.SpawnVM()
	} else {
		s.v = vm.New()
	}
	s.v.SetOnExecHook(func(util.Uint160, int, opcode.Opcode) { s.steps++ })
	return s
}

// exec loads p (first = the VM has not run anything yet) and runs it.
func (s *rsession) exec(p *rprog, first bool) (res rout) {
	defer func() {
		if r := recover(); r != nil {
			res = rout{State: "PANIC", Err: fmt.Sprint(r)}
		}
	}()
	s.cur, s.steps, s.log = p, 0, nil
	v := s.v
	if !first {
		switch {
		case s.w.ic:
			// storeBlock: a new interop context for every transaction
			s.ic = s.newIC()
			s.ic.ReuseVM(v)
		case s.w.noReset:
		default:
			v.Reset(trigger.Application)
		}
	}
	if !s.w.ic {
		v.SetPriceGetter(reusePrice)
		v.SyscallHandler = s.host
	}
	script := append([]byte{}, p.Script...) // cap == len, private
	gas := p.Gas
	if gas == 0 {
		gas = implGasLimit
	}
	if !s.w.ic {
		v.SetGasLimit(gas)
	}
	switch s.w.load {
	case "flags":
		v.LoadScriptWithFlags(script, callflag.All)
	case "loadwithflags":
		v.LoadWithFlags(script, callflag.All)
	case "hash":
		v.LoadScriptWithHash(script, hash.Hash160(script), callflag.All)
	case "nef":
		v.LoadNEFMethod(&nef.File{Script: script}, nil, util.Uint160{}, hash.Hash160(script), callflag.All, true, 0, -1, s.onUnload("entry"), nil, false)
	}
	var err error
	if s.w.ic {
		v.SetGasLimit(gas) // storeBlock: after the load
		err = s.ic.Exec()
	} else {
		err = v.Run()
	}
	res.Steps, res.Gas, res.Log = s.steps, v.GasConsumed(), strings.Join(s.log, ";")
	if err != nil {
		res.Err = err.Error()
	}
	switch {
	case v.HasHalted():
		res.State = "HALT"
		res.Stack = v.Estack().ToArray()
		res.Canon = canonImpl(res.Stack)
	case v.HasFailed():
		res.State = "FAULT"
	default:
		res.State = v.State().String()
	}
	if string(script) != string(p.Script) {
		res.Err += " [script bytes modified]"
	}
	return res
}

// ---- alphabets ------------------------------------------------------------------------------------------

func rp(name string, code ...[]byte) rprog { return rprog{Name: name, Script: cat(code...)} }

func asmProg(name string, f func(a *lasm)) rprog {
	a := newAsm()
	f(a)
	return rprog{Name: name, Script: a.mustLink()}
}

func sysc(id int) []byte { return op(sv.SYSCALL, le32(int32(id))...) }

// reuseSeconds: the alphabet of second programs.
func reuseSeconds() []rprog {
	var q []rprog
	add := func(p ...rprog) { q = append(q, p...) }
	// --- exception handling completing normally / abnormally
	add(asmProg("try-finally-normal", func(a *lasm) { // the shape every compiled `defer` gives
		a.try(false, "", "F").ops(sv.PUSH1).xfer(sv.ENDTRY, false, "E").label("F").ops(sv.PUSH2, sv.ENDFINALLY).label("E").ops(sv.PUSH3, sv.RET)
	}))
	add(asmProg("try-finally-normal-long", func(a *lasm) {
		a.try(true, "", "F").ops(sv.PUSH1).xfer(sv.ENDTRY, true, "E").label("F").ops(sv.PUSH2, sv.ENDFINALLY).label("E").ops(sv.PUSH3)
	}))
	add(asmProg("try-catch-normal", func(a *lasm) {
		a.try(false, "C", "").ops(sv.PUSH1).xfer(sv.ENDTRY, false, "E").label("C").ops(sv.PUSH2).xfer(sv.ENDTRY, false, "E").label("E").ops(sv.PUSH3)
	}))
	add(asmProg("try-catch-throw", func(a *lasm) {
		a.try(false, "C", "").ops(sv.PUSH7, sv.THROW).xfer(sv.ENDTRY, false, "E").label("C").ops(sv.PUSH2).xfer(sv.ENDTRY, false, "E").label("E").ops(sv.PUSH3)
	}))
	add(asmProg("try-catch-engine-error", func(a *lasm) {
		a.try(false, "C", "").ops(sv.NEWARRAY0, sv.PUSH0, sv.PICKITEM).xfer(sv.ENDTRY, false, "E").label("C").ops(sv.ISNULL).xfer(sv.ENDTRY, false, "E").label("E").ops(sv.PUSH3)
	}))
	add(asmProg("try-cf-normal", func(a *lasm) {
		a.try(false, "C", "F").ops(sv.PUSH1).xfer(sv.ENDTRY, false, "E").label("C").ops(sv.PUSH2).xfer(sv.ENDTRY, false, "E").label("F").ops(sv.PUSH4, sv.ENDFINALLY).label("E").ops(sv.PUSH3)
	}))
	add(asmProg("try-cf-throw", func(a *lasm) {
		a.try(false, "C", "F").ops(sv.PUSH7, sv.THROW).xfer(sv.ENDTRY, false, "E").label("C").ops(sv.PUSH2).xfer(sv.ENDTRY, false, "E").label("F").ops(sv.PUSH4, sv.ENDFINALLY).label("E").ops(sv.PUSH3)
	}))
	add(asmProg("try-finally-throw(unhandled)", func(a *lasm) {
		a.try(false, "", "F").ops(sv.PUSH7, sv.THROW).xfer(sv.ENDTRY, false, "E").label("F").ops(sv.PUSH2, sv.ENDFINALLY).label("E").ops(sv.PUSH3)
	}))
	add(asmProg("nested-finally-normal", func(a *lasm) {
		a.try(false, "", "OF").try(false, "", "IF").ops(sv.PUSH1).xfer(sv.ENDTRY, false, "IE").label("IF").ops(sv.PUSH2, sv.ENDFINALLY).label("IE").ops(sv.PUSH3).xfer(sv.ENDTRY, false, "E").
			label("OF").ops(sv.PUSH4, sv.ENDFINALLY).label("E").ops(sv.PUSH5)
	}))
	add(asmProg("finally-inside-catch", func(a *lasm) {
		a.try(false, "C", "").ops(sv.PUSH7, sv.THROW).label("C").try(false, "", "F").ops(sv.PUSH1).xfer(sv.ENDTRY, false, "IE").label("F").ops(sv.PUSH2, sv.ENDFINALLY).label("IE").xfer(sv.ENDTRY, false, "E").label("E").ops(sv.PUSH3)
	}))
	add(asmProg("finally-inside-finally", func(a *lasm) {
		a.try(false, "", "OF").ops(sv.PUSH1).xfer(sv.ENDTRY, false, "E").label("OF").try(false, "", "F").ops(sv.PUSH2).xfer(sv.ENDTRY, false, "IE").label("F").ops(sv.PUSH4, sv.ENDFINALLY).label("IE").ops(sv.ENDFINALLY).label("E").ops(sv.PUSH3)
	}))
	add(asmProg("call{try-finally-normal}", func(a *lasm) {
		a.xfer(sv.CALL, false, "f").ops(sv.PUSH9, sv.RET).label("f").try(false, "", "F").ops(sv.PUSH1).xfer(sv.ENDTRY, false, "E").label("F").ops(sv.PUSH2, sv.ENDFINALLY).label("E").ops(sv.PUSH3, sv.RET)
	}))
	add(asmProg("try-finally{call}", func(a *lasm) {
		a.try(false, "", "F").xfer(sv.CALL, false, "f").xfer(sv.ENDTRY, false, "E").label("F").xfer(sv.CALL, false, "f").ops(sv.ENDFINALLY).label("E").ops(sv.PUSH3, sv.RET).label("f").ops(sv.PUSH8, sv.RET)
	}))
	add(asmProg("catch-from-call", func(a *lasm) {
		a.try(false, "C", "").xfer(sv.CALL, false, "f").xfer(sv.ENDTRY, false, "E").label("C").ops(sv.PUSH2).xfer(sv.ENDTRY, false, "E").label("E").ops(sv.PUSH3, sv.RET).label("f").ops(sv.PUSH5, sv.PUSH13, sv.THROW)
	}))
	add(asmProg("catch-then-finally-of-outer", func(a *lasm) {
		a.try(false, "", "OF").try(false, "C", "").ops(sv.PUSH7, sv.THROW).label("C").ops(sv.DROP).xfer(sv.ENDTRY, false, "IE").label("IE").xfer(sv.ENDTRY, false, "E").label("OF").ops(sv.PUSH4, sv.ENDFINALLY).label("E").ops(sv.PUSH3)
	}))
	add(rp("endfinally-stray", op(sv.ENDFINALLY)))
	add(rp("endtry-stray", op(sv.ENDTRY, 2)))
	add(rp("throw-unhandled", pushI(13), op(sv.THROW)))
	add(rp("abort-first-instruction", op(sv.ABORT)))
	add(rp("engine-error", op(sv.NEWARRAY0), op(sv.PUSH0), op(sv.PICKITEM)))
	// --- calls
	add(asmProg("call-chain3", func(a *lasm) {
		a.ops(sv.PUSH1).xfer(sv.CALL, false, "f").ops(sv.RET).label("f").ops(sv.PUSH2).xfer(sv.CALL, true, "g").ops(sv.ADD, sv.RET).
			label("g").ops(sv.PUSH3).xfer(sv.CALL, false, "h").ops(sv.ADD, sv.RET).label("h").ops(sv.PUSH4, sv.RET)
	}))
	add(asmProg("calla", func(a *lasm) {
		a.xfer(sv.PUSHA, false, "f").ops(sv.DUP, sv.CALLA, sv.RET).label("f").ops(sv.PUSH6, sv.RET)
	}))
	add(rp("pointer", op(sv.PUSHA, 0, 0, 0, 0), op(sv.DUP), op(sv.PUSHA, 0xfb, 0xff, 0xff, 0xff)))
	add(asmProg("call-args-locals", func(a *lasm) {
		a.ops(sv.PUSH5, sv.PUSH6).xfer(sv.CALL, false, "f").ops(sv.RET).label("f").raw(byte(sv.INITSLOT), 2, 2).ops(sv.LDLOC0, sv.LDLOC0+1, sv.LDARG0, sv.LDARG0+1, sv.NEWARRAY0, sv.STLOC0, sv.LDLOC0, sv.RET)
	}))
	// --- slots and stack state a previous run could have left
	add(rp("depth", op(sv.DEPTH)))
	add(rp("depth-clear", op(sv.PUSH1), op(sv.CLEAR), op(sv.DEPTH)))
	add(rp("statics-read-before-write", op(sv.INITSSLOT, 3), op(sv.LDSFLD0), op(sv.LDSFLD0+1), op(sv.LDSFLD0+2)))
	add(rp("statics-without-init", op(sv.LDSFLD0)))
	add(rp("stsfld-without-init", op(sv.PUSH1), op(sv.STSFLD0)))
	add(rp("locals-without-init", op(sv.LDLOC0)))
	add(rp("statics-use", op(sv.INITSSLOT, 2), op(sv.NEWARRAY0), op(sv.DUP), op(sv.STSFLD0), pushI(5), op(sv.APPEND), op(sv.LDSFLD0), op(sv.LDSFLD0+1)))
	add(rp("initsslot-twice", op(sv.INITSSLOT, 1), op(sv.INITSSLOT, 1)))
	add(rp("empty"))
	add(rp("ret", op(sv.RET)))
	add(rp("items", pushI(1), pushI(-1), pushD([]byte("ab")), op(sv.PUSHNULL), op(sv.PUSHT)))
	// --- the item counter has to start from zero
	add(rp("push1x2048", rep(byte(sv.PUSH1), 2048)))
	add(rp("push1x2049", rep(byte(sv.PUSH1), 2049)))
	add(rp("newarray2047", pushI(2047), op(sv.NEWARRAY)))
	add(rp("newarray2048", pushI(2048), op(sv.NEWARRAY)))
	add(rp("newarray1023-dup-unpack", pushI(1023), op(sv.NEWARRAY), op(sv.DUP), op(sv.UNPACK)))
	add(rp("newarray1024-dup-unpack", pushI(1024), op(sv.NEWARRAY), op(sv.DUP), op(sv.UNPACK)))
	add(rp("slots510+newarray1536", op(sv.INITSSLOT, 255), op(sv.INITSLOT, 255, 0), pushI(1536), op(sv.NEWARRAY)))
	add(rp("slots510+newarray1537", op(sv.INITSSLOT, 255), op(sv.INITSLOT, 255, 0), pushI(1537), op(sv.NEWARRAY)))
	add(rp("newstruct2046-in-static-then-push", op(sv.INITSSLOT, 1), pushI(2046), op(sv.NEWSTRUCT), op(sv.STSFLD0), op(sv.PUSH1), op(sv.PUSH2)))
	add(rp("nested-drop-rebuild", pushI(1000), op(sv.NEWARRAY), pushI(1), op(sv.PACK), op(sv.DROP), pushI(2047), op(sv.NEWARRAY)))
	add(asmProg("try-finally-at-limit", func(a *lasm) { // 2046 items inside, markers on top: exactly 2048 at the end
		a.ops(sv.PUSHINT16).raw(0xfc, 0x07).ops(sv.NEWARRAY) // 2044 -> 2045 items
		a.try(false, "", "F").ops(sv.PUSH1).xfer(sv.ENDTRY, false, "E").label("F").ops(sv.PUSH2, sv.ENDFINALLY).label("E").ops(sv.PUSH3)
	}))
	// --- compound items
	add(rp("array-aliasing", op(sv.NEWARRAY0), op(sv.DUP), op(sv.DUP), pushI(1), op(sv.APPEND), op(sv.DUP), op(sv.SIZE)))
	add(rp("struct-clone", pushI(1), pushI(2), pushI(2), op(sv.PACKSTRUCT), op(sv.NEWARRAY0), op(sv.DUP), op(sv.ROT), op(sv.APPEND), op(sv.DUP), pushI(0), op(sv.PICKITEM)))
	add(rp("map", op(sv.NEWMAP), op(sv.DUP), pushI(1), pushI(2), op(sv.SETITEM), op(sv.DUP), pushD([]byte("k")), op(sv.NEWARRAY0), op(sv.SETITEM), op(sv.DUP), op(sv.KEYS)))
	add(rp("buffer", pushI(3), op(sv.NEWBUFFER), op(sv.DUP), pushI(1), pushI(0x41), op(sv.SETITEM), op(sv.DUP), convertTo(sv.TByteString)))
	add(rp("bigint", pushB(p2(255).Sub(p2(255), bi(1))), op(sv.DUP), op(sv.NEGATE), op(sv.DEC), pushI(3), pushI(-7), op(sv.MOD)))
	// --- host scripts: a callee loaded as a contract (return count 1) must be
	// unloaded with commit=true when it returns normally
	calleeTF := asmProg("", func(a *lasm) {
		a.ops(sv.DROP).try(false, "", "F").ops(sv.PUSH1).xfer(sv.ENDTRY, false, "E").label("F").ops(sv.NOP, sv.ENDFINALLY).label("E").ops(sv.RET)
	}).Script
	calleeOK := cat(op(sv.INC))
	calleeThrow := cat(op(sv.THROW))
	ex, rv := [][]byte{calleeTF, calleeOK, calleeThrow}, []int{1, 1, 1}
	hostq := func(name string, f func(a *lasm)) {
		p := asmProg(name, f)
		p.Extra, p.RV = ex, rv
		add(p)
	}
	hostq("host:call-contract", func(a *lasm) { a.ops(sv.PUSH5).raw(sysc(2)...).ops(sv.PUSH9) })
	hostq("host:call-contract{try-finally}", func(a *lasm) { a.ops(sv.PUSH5).raw(sysc(1)...).ops(sv.PUSH9) })
	hostq("host:catch-callee-throw-then-call", func(a *lasm) {
		a.try(false, "C", "").ops(sv.PUSH5).raw(sysc(3)...).xfer(sv.ENDTRY, false, "E").label("C").ops(sv.PUSH2).xfer(sv.ENDTRY, false, "E").label("E").ops(sv.PUSH6).raw(sysc(2)...)
	})
	hostq("host:callee-throw-unhandled", func(a *lasm) { a.ops(sv.PUSH5).raw(sysc(3)...).ops(sv.PUSH9) })
	hostq("host:try-finally{call-contract}", func(a *lasm) {
		a.try(false, "", "F").ops(sv.PUSH5).raw(sysc(2)...).xfer(sv.ENDTRY, false, "E").label("F").ops(sv.PUSH7).raw(sysc(1)...).ops(sv.ENDFINALLY).label("E").ops(sv.PUSH3)
	})
	return q
}

// reuseEndings: the alphabet of first programs, named by how they end.
func reuseEndings() []rprog {
	var e []rprog
	add := func(p ...rprog) { e = append(e, p...) }
	bigArr := func(n int64) []byte { return cat(pushI(n), op(sv.NEWARRAY)) }
	// --- HALT
	add(rp("halt:items", pushI(1), pushI(2), pushD([]byte("xyz"))))
	add(rp("halt:compound-shared", pushI(2), bigArr(3), pushI(2), op(sv.PACK), op(sv.DUP), op(sv.NEWMAP)))
	add(rp("halt:2048-items", rep(byte(sv.PUSH1), 2048)))
	add(rp("halt:statics+array2000", op(sv.INITSSLOT, 2), bigArr(2000), op(sv.STSFLD0+1), op(sv.LDSFLD0+1)))
	add(asmProg("halt:caught-throw", func(a *lasm) {
		a.try(false, "C", "").ops(sv.PUSH7, sv.THROW).label("C").ops(sv.PUSH2).xfer(sv.ENDTRY, false, "E").label("E").ops(sv.PUSH3)
	}))
	add(asmProg("halt:caught-engine-error-in-call", func(a *lasm) {
		a.try(false, "C", "").xfer(sv.CALL, false, "f").label("C").xfer(sv.ENDTRY, false, "E").label("E").ops(sv.PUSH3, sv.RET).label("f").ops(sv.NEWARRAY0, sv.PUSH0, sv.PICKITEM)
	}))
	add(asmProg("halt:finally-ran-after-caught-throw", func(a *lasm) {
		a.try(false, "C", "F").ops(sv.PUSH7, sv.THROW).label("C").xfer(sv.ENDTRY, false, "E").label("F").ops(sv.PUSH4, sv.ENDFINALLY).label("E").ops(sv.PUSH3)
	}))
	// --- FAULT that no handler can take
	add(rp("fault:div-by-zero", pushI(1), pushI(0), op(sv.DIV)))
	add(rp("fault:undefined-opcode", []byte{0xff}))
	add(rp("fault:stack-underflow", op(sv.ADD)))
	add(rp("fault:items-left", pushI(1), bigArr(100), op(sv.DUP), pushD([]byte("q")), pushI(1), pushI(0), op(sv.DIV)))
	add(rp("fault:stack-too-big", rep(byte(sv.PUSH1), 2049)))
	add(rp("fault:newarray-too-big", pushI(1), bigArr(2048)))
	add(rp("fault:statics-and-slots-full", op(sv.INITSSLOT, 255), op(sv.INITSLOT, 255, 0), bigArr(1000), op(sv.STSFLD0), bigArr(500), op(sv.STLOC0), pushI(1), pushI(0), op(sv.DIV)))
	add(asmProg("fault:in-nested-tries", func(a *lasm) {
		a.try(false, "C1", "").try(false, "", "F2").try(false, "C3", "F3").ops(sv.PUSH1, sv.PUSH0, sv.DIV).
			label("C1").label("F2").label("C3").label("F3").ops(sv.RET)
	}))
	add(asmProg("fault:in-call2-with-locals", func(a *lasm) {
		a.ops(sv.PUSH5).xfer(sv.CALL, false, "f").ops(sv.RET).label("f").raw(byte(sv.INITSLOT), 1, 1).ops(sv.NEWARRAY0, sv.STLOC0).xfer(sv.CALL, false, "g").ops(sv.RET).
			label("g").raw(byte(sv.INITSLOT), 2, 0).ops(sv.NEWMAP, sv.STLOC0+1, sv.PUSH1, sv.PUSH0, sv.DIV)
	}))
	add(rp("abort", pushI(4), op(sv.ABORT)))
	add(rp("abortmsg", pushD([]byte("bye")), op(sv.ABORTMSG)))
	add(rp("assert-false", op(sv.PUSHF), op(sv.ASSERT)))
	add(asmProg("abort:in-try-catch-finally", func(a *lasm) {
		a.try(false, "C", "F").ops(sv.PUSH1, sv.ABORT).label("C").ops(sv.PUSH2).label("F").ops(sv.PUSH4, sv.ENDFINALLY)
	}))
	// --- unhandled exceptions
	add(rp("throw:int", pushI(13), op(sv.THROW)))
	add(rp("throw:null", op(sv.PUSHNULL), op(sv.THROW)))
	add(rp("throw:compound", pushI(1), bigArr(50), pushI(2), op(sv.PACK), op(sv.DUP), op(sv.THROW)))
	add(rp("throw:items-left", pushI(1), bigArr(100), op(sv.INITSSLOT, 1), op(sv.NEWMAP), op(sv.STSFLD0), pushI(13), op(sv.THROW)))
	add(rp("engine-error:pickitem", op(sv.NEWARRAY0), op(sv.PUSH0), op(sv.PICKITEM)))
	add(asmProg("throw:in-call1", func(a *lasm) { a.xfer(sv.CALL, false, "f").ops(sv.RET).label("f").ops(sv.PUSH13, sv.THROW) }))
	add(asmProg("throw:in-call2-with-locals", func(a *lasm) {
		a.ops(sv.PUSH5).xfer(sv.CALL, false, "f").ops(sv.RET).label("f").raw(byte(sv.INITSLOT), 1, 1).ops(sv.NEWARRAY0, sv.STLOC0).xfer(sv.CALL, true, "g").ops(sv.RET).
			label("g").raw(byte(sv.INITSLOT), 2, 0).ops(sv.NEWMAP, sv.STLOC0+1, sv.PUSH13, sv.THROW)
	}))
	add(asmProg("engine-error:in-call2", func(a *lasm) {
		a.xfer(sv.CALL, false, "f").ops(sv.RET).label("f").ops(sv.PUSH1).xfer(sv.CALL, false, "g").ops(sv.RET).label("g").ops(sv.NEWARRAY0, sv.PUSH0, sv.PICKITEM)
	}))
	add(asmProg("throw:in-finally", func(a *lasm) {
		a.try(false, "", "F").ops(sv.PUSH1).xfer(sv.ENDTRY, false, "E").label("F").ops(sv.PUSH13, sv.THROW).label("E").ops(sv.PUSH3)
	}))
	add(asmProg("engine-error:in-finally", func(a *lasm) {
		a.try(false, "", "F").ops(sv.PUSH1).xfer(sv.ENDTRY, false, "E").label("F").ops(sv.NEWARRAY0, sv.PUSH0, sv.PICKITEM).label("E").ops(sv.PUSH3)
	}))
	add(asmProg("throw:rethrown-by-endfinally", func(a *lasm) {
		a.try(false, "", "F").ops(sv.PUSH13, sv.THROW).label("F").ops(sv.PUSH4, sv.ENDFINALLY).ops(sv.PUSH3)
	}))
	add(asmProg("throw:in-finally-while-pending", func(a *lasm) {
		a.try(false, "", "F").ops(sv.PUSH13, sv.THROW).label("F").ops(sv.PUSH12, sv.THROW)
	}))
	add(asmProg("throw:in-catch", func(a *lasm) {
		a.try(false, "C", "").ops(sv.PUSH13, sv.THROW).label("C").ops(sv.PUSH12, sv.THROW)
	}))
	add(asmProg("throw:rethrown-by-endfinally-in-call", func(a *lasm) {
		a.xfer(sv.CALL, false, "f").ops(sv.RET).label("f").try(false, "", "F").ops(sv.PUSH13, sv.THROW).label("F").ops(sv.PUSH4, sv.ENDFINALLY)
	}))
	add(asmProg("engine-error:caught-then-thrown-again", func(a *lasm) {
		a.try(false, "C", "").ops(sv.NEWARRAY0, sv.PUSH0, sv.PICKITEM).label("C").ops(sv.THROW)
	}))
	add(asmProg("abort:with-exception-pending-in-finally", func(a *lasm) {
		a.try(false, "", "F").ops(sv.PUSH13, sv.THROW).label("F").ops(sv.ABORT)
	}))
	add(asmProg("fault:with-exception-pending-in-finally", func(a *lasm) {
		a.try(false, "", "F").ops(sv.PUSH13, sv.THROW).label("F").ops(sv.PUSH1, sv.PUSH0, sv.DIV)
	}))
	// --- host scripts: the fault happens on the callee's own evaluation stack
	ex := [][]byte{
		cat(pushI(5), bigArr(20), op(sv.ROT), op(sv.THROW)),                                       // 1: throws its argument, items left
		cat(op(sv.INITSSLOT, 2), bigArr(300), op(sv.STSFLD0), op(sv.ABORT)),                       // 2: abort with statics
		cat(op(sv.INITSSLOT, 1), op(sv.STSFLD0), op(sv.NEWARRAY0), op(sv.PUSH0), op(sv.PICKITEM)), // 3: engine error
		cat(op(sv.DROP), pushI(1)), // 4: returns 1 (rv 1)
	}
	rv := []int{-1, -1, 1, 1}
	hostp := func(name string, code ...[]byte) {
		p := rp(name, code...)
		p.Extra, p.RV = ex, rv
		add(p)
	}
	hostp("host:throw-in-callee", pushI(1), pushI(9), sysc(1))
	hostp("host:abort-in-callee", pushI(1), pushI(9), sysc(2))
	hostp("host:engine-error-in-contract-callee", pushI(1), pushI(9), sysc(3))
	hostp("host:throw-after-contract-callee-returned", pushI(9), sysc(4), op(sv.THROW))
	return e
}

// gasEndings derives the gas exhaustion endings: the limit of an execution is
// 1 datoshi, in the middle, and exactly the consumption of the program / one
// less (measured on a fresh VM).
func gasEndings() []rprog {
	body := asmProg("", func(a *lasm) {
		a.ops(sv.PUSH5).xfer(sv.CALL, false, "f").ops(sv.RET).label("f").raw(byte(sv.INITSLOT), 1, 1).ops(sv.NEWARRAY0, sv.STLOC0).
			try(false, "C", "F").raw(rep(byte(sv.PUSH1), 40)...).xfer(sv.ENDTRY, false, "E").label("C").ops(sv.PUSH2).label("F").ops(sv.PUSH4, sv.ENDFINALLY).label("E").ops(sv.RET)
	})
	s := newSession(rway{name: "measure", load: "flags"})
	full := s.exec(&body, true)
	if full.State != "HALT" || full.Gas < 100 {
		panic("reuse: cannot measure the gas of the gas-exhaustion program: " + full.String())
	}
	var out []rprog
	for _, g := range []struct {
		name string
		gas  int64
	}{{"gas:limit=1", 1}, {"gas:limit=half(in try in call)", full.Gas / 2}, {"gas:limit=consumption-1", full.Gas - 1}, {"gas:limit=consumption(HALT)", full.Gas}} {
		out = append(out, rprog{Name: g.name, Script: body.Script, Gas: g.gas, NoSpec: true})
	}
	return out
}

// ---- the family ---------------------------------------------------------------------------------------------

type reuseRec struct {
	Way     string      `json:"way"`
	History []reuseProg `json:"history"` // programs executed before, in order
	Second  reuseProg   `json:"second"`
}

type reuseProg struct {
	Name   string   `json:"name"`
	Script string   `json:"script_hex"`
	Disasm string   `json:"disasm,omitempty"`
	Extra  []string `json:"host_scripts_hex,omitempty"`
	RV     []int    `json:"host_return_counts,omitempty"`
	Gas    int64    `json:"gas_limit_datoshi,omitempty"`
	Result string   `json:"result,omitempty"`
}

func recOf(p *rprog, res string) reuseProg {
	o := reuseProg{Name: p.Name, Script: hex.EncodeToString(p.Script), RV: p.RV, Gas: p.Gas, Result: res}
	if len(p.Script) < 300 {
		o.Disasm = disasm(p.Script)
	}
	for _, e := range p.Extra {
		o.Extra = append(o.Extra, hex.EncodeToString(e))
	}
	return o
}

func (rp reuseProg) rprog() rprog {
	s, _ := hex.DecodeString(rp.Script)
	p := rprog{Name: rp.Name, Script: s, RV: rp.RV, Gas: rp.Gas}
	for _, e := range rp.Extra {
		x, _ := hex.DecodeString(e)
		p.Extra = append(p.Extra, x)
	}
	return p
}

type reuseCounters struct {
	mu                                   sync.Mutex
	histories                            atomic.Int64
	runs                                 atomic.Int64
	byWay                                map[string]int64
	bySub                                map[string]int64
	endings                              map[string]int64 // first program's end class -> histories
	outcomes                             *hashSet         // way-independent (history end class, Q outcome)
	qOutcomes                            *hashSet
	exceptionPendingAtEnd                atomic.Int64
	nFirst, nSecond, nBlockSecond, nWays int
}

var reuseCnt = &reuseCounters{byWay: map[string]int64{}, bySub: map[string]int64{}, endings: map[string]int64{}, outcomes: newHashSet(), qOutcomes: newHashSet()}

func (c *reuseCounters) report() map[string]any {
	c.mu.Lock()
	defer c.mu.Unlock()
	return map[string]any{
		"first_programs":                            c.nFirst,
		"second_programs":                           c.nSecond,
		"second_programs_from_layout_blocks":        c.nBlockSecond,
		"ways":                                      c.nWays,
		"histories_compared":                        c.histories.Load(),
		"impl_executions":                           c.runs.Load(),
		"histories_by_way":                          sortedCounts(c.byWay),
		"histories_by_subfamily":                    sortedCounts(c.bySub),
		"histories_by_first_program_end":            sortedCounts(c.endings),
		"histories_after_unhandled_exception":       c.exceptionPendingAtEnd.Load(),
		"distinct_second_program_outcomes":          c.qOutcomes.len(),
		"distinct_(end_of_first,outcome_of_second)": c.outcomes.len(),
	}
}

// endClass names how an execution ended (for the counters).
func endClass(o rout) string {
	switch {
	case o.State == "HALT":
		return "HALT"
	case strings.Contains(o.Err, "unhandled exception"):
		return "FAULT:unhandled-exception"
	case strings.Contains(o.Err, "GAS limit"):
		return "FAULT:gas"
	case strings.Contains(o.Err, "ABORT") || strings.Contains(o.Err, "ASSERT"):
		return "FAULT:abort"
	case strings.Contains(o.Err, "stack is too big"):
		return "FAULT:MaxStackSize"
	default:
		return o.State + ":other"
	}
}

// freshTable: outcome of every second program on a fresh VM, per way; checked
// against the model and across the ways once.
type freshTable struct {
	ways []rway
	qs   []rprog
	out  [][]rout // [q][way]
	bad  []bool   // q excluded (the model does not decide it)
}

func buildFresh(st *stats, sub string, ways []rway, qs []rprog) *freshTable {
	ft := &freshTable{ways: ways, qs: qs, out: make([][]rout, len(qs)), bad: make([]bool, len(qs))}
	for qi := range qs {
		q := &qs[qi]
		p := q.prog(sub)
		m := runSpec(p)
		ft.out[qi] = make([]rout, len(ways))
		for wi, w := range ways {
			o := newSession(w).exec(q, true)
			ft.out[qi][wi] = o
			reuseCnt.runs.Add(1)
			st.implRuns.Add(1)
			st.transitions.Add(int64(o.Steps))
			if m.Undet != "" {
				ft.bad[qi] = true
				continue
			}
			key := "REUSE-FRESH:" + w.name + ":" + q.Name
			det := func(oracle, diff string) caseRec {
				c := record(p, m, implRes{State: o.State, Canon: o.Canon, Err: o.Err, Gas: o.Gas})
				c.Oracle, c.Diff = oracle, diff
				c.Reuse = &reuseRec{Way: w.name, Second: recOf(q, o.String())}
				return c
			}
			if o.State != m.State.String() {
				st.r.Violation(key, det("fresh-vs-model:state", fmt.Sprintf("spec %s (%s), impl loaded by %s: %s", m.State, m.FaultMsg, w.name, o)))
			} else if m.State == sv.HALT {
				if d := sameStacks(m.Result, o.Stack, scriptHashes(p)); d != "" {
					st.r.Violation(key, det("fresh-vs-model:stack", d))
				}
			}
			if wi > 0 {
				a := ft.out[qi][0]
				if a.State != o.State || a.Canon != o.Canon || a.Gas != o.Gas || a.Steps != o.Steps {
					st.r.Violation(key, det("fresh:ways-disagree", fmt.Sprintf("%s: %s; %s: %s", ways[0].name, a, w.name, o)))
				}
			}
		}
	}
	return ft
}

// runHistory executes history then q on one VM object and compares q's
// outcome with the fresh one.
func (ft *freshTable) runHistory(st *stats, sub string, wi int, history []*rprog, qi int) (clean bool) {
	w := ft.ways[wi]
	q := &ft.qs[qi]
	s := newSession(w)
	var hres []rout
	for i, p := range history {
		hres = append(hres, s.exec(p, i == 0))
	}
	got := s.exec(q, false)
	want := ft.out[qi][wi]
	n := int64(len(history) + 1)
	reuseCnt.runs.Add(n)
	st.implRuns.Add(n)
	st.transitions.Add(int64(got.Steps))
	reuseCnt.histories.Add(1)
	var names, ends []string
	pending := false
	for i, p := range history {
		names = append(names, p.Name)
		ends = append(ends, endClass(hres[i]))
		if ends[i] == "FAULT:unhandled-exception" {
			pending = true
		}
	}
	if pending {
		reuseCnt.exceptionPendingAtEnd.Add(1)
	}
	ec := strings.Join(ends, ",")
	reuseCnt.mu.Lock()
	reuseCnt.byWay[w.name]++
	reuseCnt.bySub[sub]++
	reuseCnt.endings[ec]++
	reuseCnt.mu.Unlock()
	reuseCnt.qOutcomes.add(got.State + " " + got.Canon)
	if reuseCnt.outcomes.add(ec + "=>" + got.State + " " + got.Canon) {
		st.r.Outcome("reuse:" + ec + "=>" + got.State)
	}
	if got.same(want) {
		return true
	}
	oracle := "reused-vs-fresh:"
	switch {
	case got.State != want.State:
		oracle += "state"
	case got.Canon != want.Canon:
		oracle += "stack"
	case got.Gas != want.Gas:
		oracle += "gas"
	case got.Steps != want.Steps:
		oracle += "instructions"
	case got.Log != want.Log:
		oracle += "unload-callbacks"
	default:
		oracle += "error-text"
	}
	rec := reuseRec{Way: w.name, Second: recOf(q, got.String())}
	for i, p := range history {
		rec.History = append(rec.History, recOf(p, hres[i].String()))
	}
	c := caseRec{Section: sub, Key: "REUSE:" + w.name + ":" + strings.Join(names, "=>") + "=>" + q.Name, Script: hex.EncodeToString(q.Script), Disasm: disasm(q.Script),
		Oracle: oracle, Diff: fmt.Sprintf("on a fresh VM: %s; on the VM that executed [%s] before: %s", want, strings.Join(names, ", "), got),
		SpecState: "(see fresh)", ImplState: got.State, ImplStack: clip(got.Canon), ImplErr: got.Err, ImplGas: got.Gas, Reuse: &rec}
	st.r.Violation(c.Key, c)
	return false
}

// blockSeconds: second programs drawn from the block programs of layout-blocks
// (natural block order, short form).
func blockSeconds(r *vk.Run) []rprog {
	var out []rprog
	for _, bp := range blockPrograms(r) {
		order := make([]int, len(bp.blocks))
		for i := range order {
			order[i] = i
		}
		s, err := assembleBlocks(bp, order, false)
		if err != nil {
			panic("reuse: " + bp.name + ": " + err.Error())
		}
		out = append(out, rprog{Name: "blocks:" + bp.name, Script: s})
	}
	return out
}

func pick(all []rprog, names ...string) []*rprog {
	var out []*rprog
	for _, n := range names {
		found := false
		for i := range all {
			if all[i].Name == n {
				out = append(out, &all[i])
				found = true
			}
		}
		if !found {
			panic("reuse: no program named " + n)
		}
	}
	return out
}

func reuseSections(r *vk.Run) []section {
	ways := reuseWays()
	qs := reuseSeconds()
	firsts := append(append(reuseEndings(), gasEndings()...), qs...)
	reuseCnt.nFirst, reuseCnt.nSecond, reuseCnt.nWays = len(firsts), len(qs), len(ways)
	seen := map[string]bool{}
	for _, p := range firsts {
		if seen[p.Name] {
			panic("reuse: program name used twice: " + p.Name)
		}
		seen[p.Name] = true
	}
	var (
		once  sync.Once
		ft    *freshTable
		onceB sync.Once
		ftB   *freshTable
		bqs   []rprog
	)
	// pairs: every first program x every second program x every way
	pairs := section{name: "reuse-pairs", jobs: len(firsts)}
	directRun["reuse-pairs"] = func(j int, st *stats) int64 {
		once.Do(func() { ft = buildFresh(st, "reuse-pairs", ways, qs) })
		n := int64(0)
		for qi := range qs {
			if ft.bad[qi] {
				continue
			}
			for wi := range ways {
				if st.r.TooMany() {
					return n
				}
				ft.runHistory(st, "reuse-pairs", wi, []*rprog{&firsts[j]}, qi)
				n++
			}
		}
		return n
	}
	// the programs themselves against the model
	programs := section{name: "reuse-programs", jobs: 1, run: func(_ int, emit func(prog)) {
		for i := range firsts {
			if !firsts[i].NoSpec {
				emit(firsts[i].prog(""))
			}
		}
	}}
	// block programs as second programs after the decisive endings, the two
	// ways of the node
	bEnd := pick(firsts, "halt:items", "throw:int", "engine-error:in-call2", "throw:rethrown-by-endfinally-in-call", "abort", "fault:div-by-zero", "gas:limit=half(in try in call)", "host:throw-in-callee")
	bWays := []int{0, 5}
	nEndings := len(firsts) - len(qs) // the endings (incl. gas) come first
	if r.Thorough() {
		bEnd, bWays = nil, nil
		for i := 0; i < nEndings; i++ {
			bEnd = append(bEnd, &firsts[i])
		}
		for wi := range ways {
			bWays = append(bWays, wi)
		}
	}
	blocks := section{name: "reuse-blocks", jobs: 16}
	directRun["reuse-blocks"] = func(j int, st *stats) int64 {
		onceB.Do(func() {
			bqs = blockSeconds(r)
			reuseCnt.nBlockSecond = len(bqs)
			ftB = buildFresh(st, "reuse-blocks", ways, bqs)
		})
		n := int64(0)
		for qi := j; qi < len(bqs); qi += 16 {
			if ftB.bad[qi] {
				continue
			}
			for _, e := range bEnd {
				for _, wi := range bWays {
					if st.r.TooMany() {
						return n
					}
					ftB.runHistory(st, "reuse-blocks", wi, []*rprog{e}, qi)
					n++
				}
			}
		}
		return n
	}
	secs := []section{programs, pairs, blocks}
	// triples: two executions before the second program - an exception left
	// by the first must not survive an unrelated execution in between either
	mids := pick(firsts, "halt:items", "halt:caught-throw", "fault:div-by-zero", "abort", "throw:int", "try-catch-throw", "call-chain3")
	t1 := firsts
	if !r.Thorough() {
		t1 = nil
		for _, p := range pick(firsts, "throw:int", "throw:compound", "engine-error:in-call2", "throw:rethrown-by-endfinally-in-call", "throw:in-finally-while-pending", "host:throw-in-callee", "fault:statics-and-slots-full", "gas:limit=half(in try in call)", "halt:2048-items") {
			t1 = append(t1, *p)
		}
	} else {
		mids = nil
		for i := 0; i < nEndings; i++ {
			mids = append(mids, &firsts[i])
		}
	}
	triples := section{name: "reuse-triples", jobs: len(t1)}
	directRun["reuse-triples"] = func(j int, st *stats) int64 {
		once.Do(func() { ft = buildFresh(st, "reuse-pairs", ways, qs) })
		n := int64(0)
		for _, mid := range mids {
			for qi := range qs {
				if ft.bad[qi] {
					continue
				}
				for wi := range ways {
					if st.r.TooMany() || st.r.Expired() {
						return n
					}
					ft.runHistory(st, "reuse-triples", wi, []*rprog{&t1[j], mid}, qi)
					n++
				}
			}
		}
		return n
	}
	return append(secs, triples)
}

// replayReuse re-runs one recorded history 5 times.
func replayReuse(r *vk.Run, st *stats, c caseRec) {
	rec := c.Reuse
	var w *rway
	for _, x := range reuseWays() {
		if x.name == rec.Way {
			x := x
			w = &x
		}
	}
	if w == nil {
		fmt.Println("replay: unknown way", rec.Way)
		return
	}
	q := rec.Second.rprog()
	outs := map[string]int{}
	for i := 0; i < 5; i++ {
		ft := buildFresh(st, c.Section, []rway{*w}, []rprog{q})
		var hist []*rprog
		for _, h := range rec.History {
			p := h.rprog()
			hist = append(hist, &p)
		}
		clean := true
		if len(hist) > 0 && !ft.bad[0] {
			clean = ft.runHistory(st, c.Section, 0, hist, 0)
		}
		outs[fmt.Sprintf("fresh=%s clean=%v", ft.out[0][0], clean)]++
	}
	fmt.Printf("replayed %s 5x:\n  %s\n", c.Key, strings.Join(sortedKeys(outs), "\n  "))
}

func reuseReport() map[string]any { return reuseCnt.report() }
