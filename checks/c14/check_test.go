// C14: compiled contracts behave like the Go source. Bounded exhaustive
// program enumeration (grammar frames in gen_test.go, shape templates in
// shapes_test.go), differential execution neo-go compiler + VM against the
// standard Go toolchain (run_test.go, diff_test.go).
package c14

import (
	"fmt"
	"hash/fnv"
	"os"
	"regexp"
	"sort"
	"strconv"
	"strings"
	"sync"
	"sync/atomic"
	"testing"
	"time"

	"verif/lib/vk"
)

// unit is the smallest thing that can be put into a program and blamed.
type unit struct {
	kind  string // grammar | expr | shape
	fn    Fn     // grammar/expr: the function
	fr    *frame // grammar: its frame
	body  []*node
	shape *shape
	size  int
	seq   int // position in the deterministic generation order
}

type failure struct {
	b *batch
	u *unit
	m mismatch
}

type batch struct {
	name    string
	prelude string
	extra   map[string]string // further files of the program (grammar frames with helper packages)
	units   []*unit
	group   bool // programs that each need a file of their own, sharing one reference binary (group_test.go)
}

func (b *batch) prog(units []*unit) (*Prog, error) {
	if len(units) > 0 && units[0].kind == "shape" {
		var sb strings.Builder
		sb.WriteString(units[0].shape.Hdr) // the same for every shape of a file (see buildBatches)
		for _, u := range units {
			sb.WriteString(u.shape.Src)
			sb.WriteString("\n")
		}
		return progFromSource("shape:"+units[0].shape.Family, sb.String())
	}
	p := &Prog{Prelude: b.prelude, Extra: b.extra}
	for _, u := range units {
		p.Fns = append(p.Fns, u.fn)
	}
	return p, nil
}

// unitOf maps function index i of the program built from units back to its unit.
func unitOf(units []*unit, p *Prog, i int) *unit {
	if units[0].kind != "shape" {
		return units[i]
	}
	name := p.Fns[i].Name
	for _, u := range units {
		if u.shape.Solo || strings.HasSuffix(name, u.shape.suffix()) {
			return u
		}
	}
	return units[0]
}

type finding struct {
	sig   string
	paths []string
	key   string
	dups  int
	cause *namedCause
}

// namedCause gives a grammar finding a stable class name (like the shape
// families have) when the paths that matter of its minimal program show a
// divergence already understood; the same predicate on a failing program's own
// paths (same symptom) makes it a duplicate of the reported one.
type namedCause struct {
	frame, kind, name string
	match             func(paths []string) bool
}

func leafIs(path string, names ...string) bool {
	e := path[strings.LastIndex(path, ">")+1:]
	for _, n := range names {
		if e == n || strings.HasPrefix(e, n+"/") {
			return true
		}
	}
	return false
}

func anyLeaf(paths []string, names ...string) bool {
	for _, p := range paths {
		if leafIs(p, names...) {
			return true
		}
	}
	return false
}

var namedCauses = []*namedCause{
	// t += "b" leaves a Buffer: == / switch on it is false, []byte(t) aliases it
	{"S", "value", "concatenated-string-is-a-buffer", func(ps []string) bool { return anyLeaf(ps, "concat") }},
	// bs = bs[1:] copies (SUBSTR) where Go makes a view of the same array
	{"S", "value", "byte-subslice-is-a-copy", func(ps []string) bool { return anyLeaf(ps, "bytes-sub") }},
	// append never reallocates: a slice appended to inside a range over it stays the ranged array
	{"C", "value", "append-inside-range-keeps-the-array", func(ps []string) bool {
		for _, p := range ps {
			if leafIs(p, "append") && strings.Contains(p, "range-") {
				return true
			}
		}
		return false
	}},
}

func causeOf(frame, kind string, paths []string) *namedCause {
	for _, c := range namedCauses {
		if c.frame == frame && c.kind == kind && c.match(paths) {
			return c
		}
	}
	return nil
}

type checker struct {
	r         *vk.Run
	mu        sync.Mutex
	minMu     sync.Mutex
	findings  []*finding
	shapeSeen map[string]*finding
	famCount  map[string]int

	nFns, nCalls, nBig, nBatches       vk.Counter
	nNeoRejected, nSuppressed, nMinRun vk.Counter
	nUnreported, nWantReject           vk.Counter
	harnessErrs                        []string
	fails                              []failure
	failsDropped                       int
	neoRejects                         map[string]int
	perFeature                         map[string]int
	famStats                           map[string]*famStat
	nViol                              int64
}

const maxViolations = 60

func (ck *checker) tooMany() bool { return atomic.LoadInt64(&ck.nViol) >= maxViolations }

var reNum = regexp.MustCompile(`[0-9]+`)

func diagClass(m *mismatch) string {
	switch m.Kind {
	case "vm-faults-go-returns":
		d := m.Diag
		if i := strings.Index(d, "("); i >= 0 {
			d = d[i:]
		}
		return reNum.ReplaceAllString(d, "N")
	case "stack":
		return "" // how many items are left over depends on the enclosing constructs
	case "type":
		return m.VM
	case "meta", "malformed-code":
		return reNum.ReplaceAllString(m.Diag, "N")
	}
	return ""
}

// classOf maps a compound production to its class token.
func classOf(kind string) string {
	if i := strings.Index(kind, "["); i >= 0 {
		kind = kind[:i]
	}
	switch {
	case strings.HasPrefix(kind, "for") || strings.HasPrefix(kind, "range"):
		return "~loop"
	case strings.HasPrefix(kind, "switch"):
		return "~switch"
	case kind == "if" || kind == "if-else" || kind == "else" || kind == "else-if":
		return "~if"
	}
	return kind
}

func elemMatch(core, e string) bool {
	if core == e || strings.HasPrefix(e, core+"/") { // "x/variant" is a variant of the atom kind "x"
		return true
	}
	if strings.HasPrefix(core, "~") {
		cs, es := "", ""
		c, x := core, e
		if i := strings.Index(c, "["); i >= 0 {
			c, cs = c[:i], c[i:]
		}
		if i := strings.Index(x, "["); i >= 0 {
			x, es = x[:i], x[i:]
		}
		return c == classOf(x) && cs == es
	}
	return false
}

// embeds: the chain x (kinds joined by ">") occurs in the chain y with the same
// last element and the other elements in order, possibly with more nesting
// levels in between or around.
func embeds(x, y string) bool {
	xs, ys := strings.Split(x, ">"), strings.Split(y, ">")
	if !elemMatch(xs[len(xs)-1], ys[len(ys)-1]) {
		return false
	}
	i := 0
	for _, e := range ys {
		if i < len(xs) && elemMatch(xs[i], e) {
			i++
		}
	}
	return i == len(xs)
}

// subset: every path of a embeds in a path of b; each path of b is used at most once.
func subset(a, b []string) bool {
	used := make([]bool, len(b))
	for _, x := range a {
		found := false
		for j, y := range b {
			if !used[j] && embeds(x, y) {
				used[j] = true
				found = true
				break
			}
		}
		if !found {
			return false
		}
	}
	return true
}

// runUnits evaluates the units as one program; if neo-go rejects the program
// it is split until the rejected units are isolated.
func (ck *checker) runUnits(b *batch, units []*unit) {
	if len(units) == 0 || ck.r.Expired() {
		return
	}
	p, err := b.prog(units)
	if err != nil {
		ck.harness(fmt.Sprintf("batch %s: %v", b.name, err))
		return
	}
	ev := evalProg(p, len(units) == 1)
	ck.nBatches.Inc()
	if ev.GoErr != "" {
		if len(units) > 1 && units[0].kind == "shape" {
			// a template the reference toolchain rejects is a harness bug; isolate it for the message
			ck.runUnits(b, units[:len(units)/2])
			ck.runUnits(b, units[len(units)/2:])
			return
		}
		ck.harness(fmt.Sprintf("batch %s: reference toolchain: %s\n%s", b.name, ev.GoErr, trunc(p.Source(), 1500)))
		return
	}
	if ev.NeoErr != "" {
		if len(units) > 1 {
			ck.runUnits(b, units[:len(units)/2])
			ck.runUnits(b, units[len(units)/2:])
			return
		}
		if ev.Malformed != "" {
			// the compiler emitted bytecode its own verification refuses: reported, not counted as a rejected program
			ck.outcomeN("MISMATCH-malformed-code", 1)
			ck.mu.Lock()
			ck.fails = append(ck.fails, failure{b, units[0], mismatch{Fn: 0, Kind: "malformed-code", Diag: ev.Malformed, Count: 1}})
			ck.mu.Unlock()
			return
		}
		if u := units[0]; u.kind == "shape" && u.shape.WantReject != "" {
			if strings.Contains(ev.NeoErr, u.shape.WantReject) {
				ck.nWantReject.Inc()
				ck.r.Outcome("neo-go-rejects-as-expected: " + trunc(u.shape.WantReject, 60))
				return
			}
			// refused, but with another message: the program is not compiled either way, so the property (which
			// speaks of compiled functions) says nothing about it; a reworded diagnostic must not raise an alarm.
			// It is counted and printed so that the family's expectation gets updated.
			ck.nWantReject.Inc()
			ck.r.Outcome("neo-go-rejects-with-another-message: " + trunc(ev.NeoErr, 60))
			fmt.Printf("COVERAGE-GAP C14: %s/%s is refused with %q, expected %q\n", u.shape.Family, u.shape.Tag, trunc(ev.NeoErr, 120), u.shape.WantReject)
			return
		}
		if u := units[0]; u.kind == "shape" && strictFamily(u.shape.Family) && !strings.HasPrefix(u.shape.Tag, "promoted-method/") { // (calls of promoted methods: a refusal is a legitimate answer of the compiler)
			// every program of the composite-literal families is inside the documented dialect (the unchanged
			// compiler accepts all of them): a refusal - or a panic of the compiler - is reported
			s := u.shape
			ck.mu.Lock()
			over := ck.famCount[s.Family] >= 8
			if !over {
				ck.famCount[s.Family]++
			}
			ck.mu.Unlock()
			if over || ck.tooMany() {
				ck.nSuppressed.Inc()
				return
			}
			key := fmt.Sprintf("%s/%s/compiler-refuses:%s", s.Family, s.Tag, shortHash(s.Tmpl))
			if ck.r.Violation(key, violDetail{Kind: "shape", Feature: s.Family + "/" + s.Tag, Mismatch: mismatch{Kind: "rejected", Diag: trunc(ev.NeoErr, 400), Count: 1}, Source: pruneDecls(s.Hdr + s.Src), Prog: p, FnName: p.Fns[0].Name, ShapeTag: s.Tag, Note: "the reference toolchain accepts the program and nothing in docs/compiler.md excludes it"}) {
				atomic.AddInt64(&ck.nViol, 1)
			}
			return
		}
		ck.nNeoRejected.Inc()
		msg := reNum.ReplaceAllString(ev.NeoErr, "N")
		if i := strings.LastIndex(msg, ": "); i >= 0 && len(msg)-i < 120 {
			msg = msg[i+2:]
		}
		ck.mu.Lock()
		ck.neoRejects[trunc(msg, 100)]++
		ck.mu.Unlock()
		ck.r.Outcome("neo-go-rejects: " + trunc(msg, 60))
		ck.r.Sample(map[string]any{"neo_go_rejected": ev.NeoErr, "source": trunc(p.Source(), 1200)})
		return
	}
	ck.nFns.Add(len(p.Fns))
	ck.nCalls.Add(ev.Calls)
	ck.nBig.Add(ev.Big)
	for k, n := range ev.Outcome {
		ck.outcomeN(k, n)
	}
	ck.mu.Lock()
	for _, u := range units {
		ck.perFeature[featureOf(u)]++
	}
	for i := range p.Fns {
		fam := familyOf(unitOf(units, p, i))
		st := ck.famStats[fam]
		if st == nil {
			st = &famStat{outcomes: map[uint64]struct{}{}}
			ck.famStats[fam] = st
		}
		st.functions++
		for t, o := range ev.GoOut[i] {
			st.calls++
			if t < len(ev.VMOut[i]) && ev.VMOut[i][t] == o {
				st.agree++
			}
			h := fnv.New64a()
			h.Write([]byte(o))
			st.outcomes[h.Sum64()] = struct{}{}
		}
	}
	ck.mu.Unlock()
	if len(ev.Mism) == 0 {
		if len(units) > 0 {
			u := units[0]
			ck.r.Sample(map[string]any{"feature": featureOf(u), "source": trunc(unitSource(u), 700), "go": ev.GoOut[0], "vm": ev.VMOut[0]})
		}
		return
	}
	ck.mu.Lock()
	for i := range ev.Mism {
		m := ev.Mism[i]
		if len(ck.fails) < 20000 {
			ck.fails = append(ck.fails, failure{b, unitOf(units, p, m.Fn), m})
		} else {
			ck.failsDropped++
		}
	}
	ck.mu.Unlock()
}

// report handles the collected failures in generation order (simplest first),
// so that which program represents a root cause does not depend on scheduling.
func (ck *checker) report() {
	sort.SliceStable(ck.fails, func(i, j int) bool { return ck.fails[i].u.seq < ck.fails[j].u.seq })
	seen := map[*unit]bool{}
	if path := os.Getenv("C14_PIN"); path != "" { // development aid: record the behaviour of the shapes listed under named root causes
		var sb strings.Builder
		done := map[*unit]bool{}
		for i := range ck.fails {
			f := &ck.fails[i]
			if f.u.kind == "shape" && f.u.shape.Cause != f.u.shape.Tag && !done[f.u] {
				done[f.u] = true
				fmt.Fprintf(&sb, "\t%q: %q,\n", f.u.shape.Family+"/"+f.u.shape.Tag, symptomOf(&f.m))
			}
		}
		failed := map[string]bool{}
		for u := range done {
			failed[u.shape.Family+"/"+u.shape.Tag] = true
		}
		for _, sh := range allShapes(ck.r.Thorough()) {
			if sh.Cause != sh.Tag && !failed[sh.Family+"/"+sh.Tag] {
				fmt.Fprintf(&sb, "\t%q: %q,\n", sh.Family+"/"+sh.Tag, "agree") // listed under a cause, but this combination does not show it
			}
		}
		_ = os.WriteFile(path, []byte(sb.String()), 0o644)
	}
	for i := range ck.fails {
		f := &ck.fails[i]
		if seen[f.u] {
			continue // one report per program (a shape may have several exported functions)
		}
		seen[f.u] = true
		ck.failing(f.b, f.u, &f.m)
	}
}

// symptomOf: what a failing shape looked like - kind of disagreement, number of
// failing argument tuples, both outcomes of the first failing tuple.
func symptomOf(m *mismatch) string {
	s := fmt.Sprintf("%s|%d|%s|go=%s|vm=%s", m.Kind, m.Count, m.Args, m.Go, m.VM)
	if m.Kind == "meta" {
		s += "|" + reNum.ReplaceAllString(m.Diag, "N") // which disagreement of manifest / debug information
	}
	return s
}

var outMu sync.Mutex
var outAgg = map[string]int{}

func (ck *checker) outcomeN(k string, n int) {
	outMu.Lock()
	outAgg[k] += n
	outMu.Unlock()
}

// famStat: measured per family (shape family or grammar frame).
type famStat struct {
	functions, calls, agree int
	outcomes                map[uint64]struct{} // distinct outcomes of the reference side
}

func familyOf(u *unit) string {
	switch u.kind {
	case "shape":
		return "shape:" + u.shape.Family
	case "grammar":
		return "frame-" + u.fr.name
	}
	return "frame-X"
}

func featureOf(u *unit) string {
	switch u.kind {
	case "shape":
		return "shape:" + u.shape.Family
	case "grammar":
		return fmt.Sprintf("frame-%s/size-%d", u.fr.name, u.size)
	}
	return "frame-X"
}

func unitSource(u *unit) string {
	if u.kind == "shape" {
		return u.shape.Src
	}
	return u.fn.Src
}

func (ck *checker) harness(msg string) {
	ck.mu.Lock()
	defer ck.mu.Unlock()
	if len(ck.harnessErrs) < 10 {
		fmt.Println("HARNESS-ERROR:", msg)
	}
	ck.harnessErrs = append(ck.harnessErrs, msg)
}

type violDetail struct {
	Kind      string   `json:"kind"` // grammar | expr | shape
	Feature   string   `json:"feature"`
	Mismatch  mismatch `json:"mismatch"`
	Source    string   `json:"minimal_source"`
	Original  string   `json:"original_source,omitempty"`
	Prog      *Prog    `json:"program"` // what --replay runs
	FnName    string   `json:"function"`
	Paths     []string `json:"paths,omitempty"`
	Core      []string `json:"paths_that_matter,omitempty"` // later failing programs containing these (same symptom) count as the same cause
	ShapeTag  string   `json:"shape_tag,omitempty"`
	Note      string   `json:"note,omitempty"`
	SameCause int      `json:"other_failing_programs_with_same_cause,omitempty"`
	WantReject string  `json:"want_reject,omitempty"` // kind "rejected": the message that would have excused the refusal
}

func (d violDetail) String() string {
	return fmt.Sprintf("%s %s: %s args=(%s) go=%s vm=%s %s\n%s", d.Kind, d.Feature, d.Mismatch.Kind, d.Mismatch.Args, d.Mismatch.Go, d.Mismatch.VM, d.Mismatch.Diag, d.Source)
}

func (ck *checker) failing(b *batch, u *unit, m *mismatch) {
	if ck.tooMany() {
		return
	}
	sig := m.Kind + "|" + diagClass(m)
	if u.kind == "shape" {
		s := u.shape
		cause := s.Cause
		if s.Cause != s.Tag {
			// a shape listed under a named root cause must still show the behaviour that
			// was recorded for it (pinned_test.go): anything else is a difference of its
			// own and is reported under the shape's own key
			if want, ok := pinnedSymptoms[s.Family+"/"+s.Tag]; ok && want != symptomOf(m) {
				cause = s.Tag + "/not-the-known-behaviour"
			}
		}
		named := cause == s.Cause && s.Cause != s.Tag
		group := s.Family + "/" + cause + "/" + m.Kind
		if named {
			group = s.Family + "/" + s.Cause // a named root cause with its known behaviour: one report
		}
		ck.mu.Lock()
		if f, ok := ck.shapeSeen[group]; ok {
			f.dups++
			ck.mu.Unlock()
			ck.nSuppressed.Inc()
			return
		}
		if !named && ck.famCount[s.Family] >= 8 {
			ck.mu.Unlock()
			ck.nSuppressed.Inc()
			return
		}
		ck.famCount[s.Family]++
		f := &finding{sig: sig}
		ck.shapeSeen[group] = f
		ck.mu.Unlock()
		// confirm on the shape alone, without the declarations it does not use
		// (also what the replay will run); fall back to the full shape
		var (
			sp     *Prog
			mm     *mismatch
			minSrc string
		)
		for _, cand := range []string{pruneDecls(s.Hdr + s.Src), s.Hdr + s.Src} {
			p1, err := progFromSource("shape:"+s.Family, cand)
			if err != nil {
				continue
			}
			ev := evalProg(p1, false)
			for i := range ev.Mism {
				if ev.Mism[i].Kind == m.Kind {
					mm = &ev.Mism[i]
					break
				}
			}
			if mm == nil && ev.Malformed != "" {
				// alone, the same defect may show as bytecode the compiler's own verification refuses
				mm = &mismatch{Fn: 0, Kind: "malformed-code", Diag: ev.Malformed, Count: 1}
			}
			if mm != nil {
				sp, minSrc = p1, cand
				break
			}
		}
		if mm == nil {
			// the failure needs the neighbours (code placement): confirm and record the whole file
			if pf, err := b.prog(b.units); err == nil {
				ev := evalProg(pf, false)
				for i := range ev.Mism {
					if unitOf(b.units, pf, ev.Mism[i].Fn) == u && ev.Mism[i].Kind == m.Kind {
						mm = &ev.Mism[i]
						sp, minSrc = pf, s.Hdr+s.Src
						break
					}
				}
			}
		}
		if mm == nil {
			ck.harness(fmt.Sprintf("shape %s/%s fails inside its file but not alone (%s)", s.Family, s.Tag, m.Kind))
			return
		}
		key := fmt.Sprintf("%s/%s:%s", s.Family, cause, shortHash(s.Tmpl))
		f.key = key
		if ck.r.Violation(key, violDetail{Kind: "shape", Feature: s.Family + "/" + cause, Mismatch: *mm, Source: minSrc, Prog: sp, FnName: sp.Fns[mm.Fn].Name, ShapeTag: s.Tag}) {
			atomic.AddInt64(&ck.nViol, 1)
		} else {
			ck.mu.Lock()
			ck.famCount[s.Family]-- // a known finding does not use up the family's report quota
			ck.mu.Unlock()
		}
		return
	}
	// grammar / expression function: suppress what an already reported minimal program explains
	suppressed := func() bool {
		ck.mu.Lock()
		defer ck.mu.Unlock()
		for _, f := range ck.findings {
			if f.sig == sig && subset(f.paths, u.fn.Paths) {
				f.dups++
				return true
			}
			if f.cause != nil && f.cause == causeOf(u.fn.Feature, m.Kind, u.fn.Paths) {
				f.dups++
				return true
			}
		}
		return false
	}
	if suppressed() {
		ck.nSuppressed.Inc()
		return
	}
	if ck.tooMany() || len(ck.findings) >= 25 {
		if ck.nUnreported.Get() == 0 {
			fmt.Printf("report cap reached (%d violations, %d grammar findings): further failing programs are only counted\n", atomic.LoadInt64(&ck.nViol), len(ck.findings))
		}
		ck.nUnreported.Inc()
		return
	}
	minFn, minM := u.fn, *m
	corePaths := u.fn.Paths
	if u.kind == "grammar" && m.Kind != "malformed-code" {
		minFn, minM, corePaths = ck.minimise(b, u, m)
	}
	one := &Prog{Prelude: b.prelude, Extra: b.extra, Fns: []Fn{minFn}}
	if m.Kind != "malformed-code" && !ck.r.Expired() {
		// what is recorded must fail when replayed: a failure that depends on where the
		// code lies (jump distances, neighbours) may need the whole file
		ev := evalProg(one, false)
		same := false
		for i := range ev.Mism {
			same = same || ev.Mism[i].Kind == minM.Kind
		}
		switch {
		case same:
		case ev.Malformed != "":
			minM = mismatch{Kind: "malformed-code", Diag: ev.Malformed, Count: 1}
		default:
			if pf, err := b.prog(b.units); err == nil {
				one = pf
			}
		}
	}
	norm := strings.Replace(minFn.Src, "func "+minFn.Name+"(", "func F(", 1)
	feat := "grammar-" + minFn.Feature + "/" + strings.Join(minFn.Paths, "+")
	if len(feat) > 90 {
		feat = feat[:90]
	}
	key := fmt.Sprintf("%s/%s:%s", feat, minM.Kind, shortHash(norm))
	cause := causeOf(minFn.Feature, minM.Kind, corePaths)
	if cause != nil {
		feat = "grammar-" + minFn.Feature + "/" + cause.name
		key = fmt.Sprintf("%s:%s", feat, shortHash(norm))
	}
	ck.mu.Lock()
	if os.Getenv("C14_DEBUG") != "" {
		fmt.Printf("DEBUG finding sig=%q orig=%v min=%v core=%v key=%s\n", sig, u.fn.Paths, minFn.Paths, corePaths, key)
	}
	ck.findings = append(ck.findings, &finding{sig: sig, paths: corePaths, key: key, cause: cause})
	ck.mu.Unlock()
	minM.Fn = 0
	if ck.r.Violation(key, violDetail{Kind: u.kind, Feature: feat, Mismatch: minM, Source: norm, Original: u.fn.Src, Prog: one, FnName: minFn.Name, Paths: minFn.Paths, Core: corePaths}) {
		atomic.AddInt64(&ck.nViol, 1)
	}
}

// minimise shrinks the body of a failing grammar function while the same kind
// of mismatch stays.
func (ck *checker) minimise(b *batch, u *unit, m *mismatch) (Fn, mismatch, []string) {
	best, bestFn, bestM := u.body, u.fn, *m
	try := func(body []*node) (Fn, mismatch, bool) {
		if !validBody(body, gctx{}) {
			return Fn{}, mismatch{}, false
		}
		fn, ok := u.fr.build(u.fn.Name, body)
		if !ok {
			return Fn{}, mismatch{}, false
		}
		ck.nMinRun.Inc()
		ev := evalProg(&Prog{Prelude: b.prelude, Extra: b.extra, Fns: []Fn{fn}}, false)
		if ev.NeoErr != "" || ev.GoErr != "" {
			return Fn{}, mismatch{}, false
		}
		for _, mm := range ev.Mism {
			if mm.Kind == m.Kind && diagClass(&mm) == diagClass(m) {
				return fn, mm, true
			}
		}
		return Fn{}, mismatch{}, false
	}
	for rounds := 0; rounds < 20; rounds++ {
		improved := false
		for _, cand := range shrinks(best) {
			if ck.r.Expired() {
				return bestFn, bestM, bestFn.Paths
			}
			if fn, mm, ok := try(cand); ok {
				best, bestFn, bestM = cand, fn, mm
				improved = true
				break
			}
		}
		if !improved {
			break
		}
	}
	// Which parts of the minimal body only make the failure visible? A plain
	// statement that can be replaced by two other plain atoms without curing the
	// failure is left out of the paths used to recognise later failing programs
	// as the same cause; a compound statement that can be replaced by two other
	// productions of its class (loop / switch / if) is generalised to the class.
	var plain []*atom
	for _, a := range u.fr.atoms {
		if a.needs == "" && !a.ends {
			plain = append(plain, a)
		}
	}
	type pre struct {
		n          *node
		depth, end int // end: index after the last node of the subtree
	}
	var order []pre
	var walk func(list []*node, depth int)
	walk = func(list []*node, depth int) {
		for _, s := range list {
			k := len(order)
			order = append(order, pre{n: s, depth: depth})
			walk(s.body, depth+1)
			order[k].end = len(order)
		}
	}
	walk(best, 0)
	elems := make([][]string, len(bestFn.Paths))
	for i, p := range bestFn.Paths {
		elems[i] = strings.Split(p, ">")
	}
	dropped := make([]bool, len(order))
	// replace returns best with node k replaced by r
	var replace func(list []*node, target *node, r *node) []*node
	replace = func(list []*node, target *node, r *node) []*node {
		out := make([]*node, len(list))
		for i, s := range list {
			switch {
			case s == target:
				out[i] = r
			case s.c != nil:
				ns := *s
				ns.body = replace(s.body, target, r)
				out[i] = &ns
			default:
				out[i] = s
			}
		}
		return out
	}
	if len(order) == len(elems) {
		for k, pn := range order {
			if ck.r.Expired() {
				break
			}
			s := pn.n
			tried, still := 0, 0
			if s.a != nil {
				if s.a.needs != "" || s.a.ends {
					continue
				}
				for _, alt := range plain {
					if alt == s.a || tried == 2 {
						continue
					}
					tried++
					if _, _, ok := try(replace(best, s, &node{a: alt})); ok {
						still++
					}
				}
				dropped[k] = tried == 2 && still == 2
				continue
			}
			cl := classOf(s.c.kind)
			for _, alt := range u.fr.comps {
				if alt == s.c || tried == 2 || classOf(alt.kind) != cl || (cl == "~if" && alt.useCond != s.c.useCond) {
					continue
				}
				tried++
				ns := *s
				ns.c = alt
				if _, _, ok := try(replace(best, s, &ns)); ok {
					still++
				}
			}
			if tried == 2 && still == 2 {
				for j := k; j < pn.end; j++ {
					if pn.depth < len(elems[j]) {
						e := elems[j][pn.depth]
						suffix := ""
						if i := strings.Index(e, "["); i >= 0 {
							suffix = e[i:]
						}
						elems[j][pn.depth] = cl + suffix
					}
				}
			}
		}
	}
	var core []string
	for i := range elems {
		if !dropped[i] {
			core = append(core, strings.Join(elems[i], ">"))
		}
	}
	if len(core) == 0 {
		core = bestFn.Paths
	}
	return bestFn, bestM, core
}

// isChain: every statement list has at most one statement.
func isChain(list []*node) bool {
	if len(list) > 1 {
		return false
	}
	for _, s := range list {
		if !isChain(s.body) {
			return false
		}
	}
	return true
}

func sizeOf(list []*node) int {
	n := 0
	for _, s := range list {
		n += 1 + sizeOf(s.body)
	}
	return n
}

// shrinks returns every body obtained by deleting one node (with its subtree)
// or by replacing one compound node by its body, smallest results first.
func shrinks(list []*node) [][]*node {
	var out [][]*node
	for i, s := range list {
		without := append(append([]*node{}, list[:i]...), list[i+1:]...)
		out = append(out, without)
		if s.c != nil {
			unwrapped := append(append(append([]*node{}, list[:i]...), s.body...), list[i+1:]...)
			if len(s.body) > 0 {
				out = append(out, unwrapped)
			}
			for _, sub := range shrinks(s.body) {
				ns := *s
				ns.body = sub
				with := append(append(append([]*node{}, list[:i]...), &ns), list[i+1:]...)
				out = append(out, with)
			}
		}
	}
	sort.SliceStable(out, func(i, j int) bool { return sizeOf(out[i]) < sizeOf(out[j]) })
	return out
}

func validBody(list []*node, ctx gctx) bool {
	for i, s := range list {
		if s.a != nil {
			switch s.a.needs {
			case "loop":
				if ctx.loops == 0 {
					return false
				}
			case "breakable":
				if !ctx.breakable {
					return false
				}
			case "loopN":
				if s.loopN >= ctx.loops {
					return false
				}
			case "nested":
				if ctx.depth == 0 {
					return false
				}
			}
			if s.a.ends && i < len(list)-1 {
				return false
			}
			if s.a.decl != "" {
				for _, o := range list[i+1:] {
					if o.a != nil && o.a.decl == s.a.decl {
						return false
					}
				}
			}
			continue
		}
		sub := ctx
		sub.depth++
		if s.c.loop > 0 {
			sub.loops++
			sub.breakable = true
		}
		if s.c.sw {
			sub.breakable = true
		}
		if !validBody(s.body, sub) {
			return false
		}
	}
	return true
}

// ---- work list -----------------------------------------------------------------------------------

const batchSize = 300
const soloGroup = 24

func (ck *checker) buildBatches(thorough bool, stats map[string]any) []*batch {
	var batches []*batch
	// shapes first: few programs, they hold the features the grammar cannot reach
	shapes := allShapes(thorough)
	byFam := map[string][]*unit{}
	var fams []string
	var solos []*unit
	famCount := map[string]int{}
	for i := range shapes {
		s := &shapes[i]
		famCount[s.Family]++
		u := &unit{kind: "shape", shape: s}
		if s.Solo {
			solos = append(solos, u)
			continue
		}
		if _, ok := byFam[s.Family]; !ok {
			fams = append(fams, s.Family)
		}
		byFam[s.Family] = append(byFam[s.Family], u)
	}
	// programs with a file of their own: groups of soloGroup share a reference binary
	if only := os.Getenv("C14_ONLY"); only != "" {
		var kept []*unit
		for _, u := range solos {
			for _, o := range strings.Split(only, ",") {
				if strings.Contains("shape:"+u.shape.Family+"/"+u.shape.Tag, o) {
					kept = append(kept, u)
					break
				}
			}
		}
		solos = kept
	}
	for i := 0; i < len(solos); i += soloGroup {
		j := min(i+soloGroup, len(solos))
		batches = append(batches, &batch{name: fmt.Sprintf("solo-group#%d", i/soloGroup), units: solos[i:j], group: true})
	}
	stats["programs_with_a_file_of_their_own"] = len(solos)
	sort.Strings(fams)
	sort.SliceStable(fams, func(i, j int) bool { return earlyFamily(fams[i]) && !earlyFamily(fams[j]) }) // round 4: the new families first
	for _, f := range fams {
		us := byFam[f]
		per := 60
		if strings.HasPrefix(f, "globals-use") || f == "embed" {
			per = 100 // one package variable and one small function each
		}
		if f == "control" || f == "longjump" || f == "opassign" || f == "bools" {
			per = 240 // small functions without helpers, none of which the compiler rejects
		}
		if f == "literals" || f == "literals-ctx" || f == "literals-map" {
			per = 240 // one small function each
		}
		if f == "literals-global" {
			per = 40 // two package variables each: the static slots of a file are limited
		}
		for i := 0; i < len(us); i += per {
			j := min(i+per, len(us))
			batches = append(batches, &batch{name: fmt.Sprintf("shape:%s#%d", f, i/per), units: us[i:j]})
		}
	}
	stats["shapes"] = len(shapes)
	stats["shapes_by_family"] = famCount

	// expressions
	var xs []*unit
	exprFns(thorough, func(f Fn) { xs = append(xs, &unit{kind: "expr", fn: f}) })
	for i := 0; i < len(xs); i += batchSize {
		j := min(i+batchSize, len(xs))
		batches = append(batches, &batch{name: fmt.Sprintf("X#%d", i/batchSize), units: xs[i:j]})
	}
	stats["expression_functions"] = len(xs)

	// statement frames, smallest bodies first
	type fb struct {
		fr       *frame
		maxNodes int
		depth    int
	}
	frames := []fb{
		{frameI(thorough), vk.Pick(ck.r, 3, 3), 2},
		{frameC(thorough), vk.Pick(ck.r, 2, 3), 2},
		{frameS(thorough), vk.Pick(ck.r, 2, 3), 2},
		{frameN(thorough), vk.Pick(ck.r, 3, 3), 2}, // gen2_test.go
		{frameL(thorough), vk.Pick(ck.r, 3, 3), 2},
	}
	if thorough {
		// the largest set (frame I, three nodes) last: a capped run then still has the other frames complete
		frames = []fb{frames[3], frames[4], frames[1], frames[2], frames[0]}
	}
	var alpha []string
	enumerated, rejected := map[string]int{}, map[string]int{}
	maxSize := 0
	for _, f := range frames {
		note := ""
		if f.fr.name == "L" || (!thorough && (f.fr.name == "I" || f.fr.name == "N")) {
			note = " (bodies of 3 nodes: only those nested as a chain)"
		}
		alpha = append(alpha, fmt.Sprintf("frame %s: %d atoms, %d compound productions, %d conditions, <=%d nodes, nesting <=%d%s",
			f.fr.name, len(f.fr.atoms), len(f.fr.comps), len(f.fr.conds), f.maxNodes, f.depth, note))
		if f.maxNodes > maxSize {
			maxSize = f.maxNodes
		}
	}
	for size := 1; size <= maxSize; size++ {
		for _, f := range frames {
			if size > f.maxNodes {
				continue
			}
			var us []*unit
			n := 0
			chainOnly := size == 3 && (f.fr.name == "L" || (!thorough && (f.fr.name == "I" || f.fr.name == "N"))) // frame L: its composite atoms make the chains the cases that matter // quick: at three nodes only the nesting chains
			f.fr.enumerate(size, f.depth, func(body []*node) {
				if chainOnly && !isChain(body) {
					return
				}
				n++
				name := fmt.Sprintf("G%s%d_%d", f.fr.name, size, n)
				fn, ok := f.fr.build(name, body)
				k := fmt.Sprintf("%s/size-%d", f.fr.name, size)
				enumerated[k]++
				if !ok {
					rejected[k]++
					return
				}
				us = append(us, &unit{kind: "grammar", fn: fn, fr: f.fr, body: body, size: size})
			})
			for i := 0; i < len(us); i += batchSize {
				j := min(i+batchSize, len(us))
				batches = append(batches, &batch{name: fmt.Sprintf("%s%d#%d", f.fr.name, size, i/batchSize), prelude: f.fr.prelude, extra: f.fr.extra, units: us[i:j]})
			}
		}
	}
	if only := os.Getenv("C14_ONLY"); only != "" { // development aid: run only the files whose name contains one of the comma-separated substrings
		var kept []*batch
		for _, b := range batches {
			if b.group {
				kept = append(kept, b) // filtered above
				continue
			}
			for _, o := range strings.Split(only, ",") {
				if strings.Contains(b.name, o) {
					kept = append(kept, b)
					break
				}
			}
		}
		batches = kept
	}
	seq := 0
	for _, b := range batches {
		for _, u := range b.units {
			seq++
			u.seq = seq
		}
	}
	stats["alphabets"] = alpha
	stats["bodies_enumerated"] = enumerated
	stats["bodies_not_emitted_may_leave_64_bits"] = rejected
	return batches
}

func TestCheck(t *testing.T) {
	vk.UseT(t)
	r := vk.Start("C14", "model_checking", 180*time.Second, 24*time.Minute)
	setupEnv()
	defer vk.CleanScratch()
	ck := &checker{r: r, shapeSeen: map[string]*finding{}, famCount: map[string]int{}, neoRejects: map[string]int{}, perFeature: map[string]int{}, famStats: map[string]*famStat{}}
	if r.Replay != "" {
		replay(ck)
		return
	}
	stats := map[string]any{}
	batches := ck.buildBatches(r.Thorough(), stats)
	total := 0
	for _, b := range batches {
		total += len(b.units)
	}
	nFiles := 0
	for _, b := range batches {
		if b.group {
			nFiles += len(b.units)
		} else {
			nFiles++
		}
	}
	fmt.Printf("C14 %s: %d programs in %d files\n", r.Tier, total, nFiles)
	budget := 165.0
	if r.Thorough() {
		budget = 22 * 60
	}
	if e := os.Getenv("VERIF_BUDGET_S"); e != "" {
		if n, err := strconv.Atoi(e); err == nil {
			budget = float64(n)
		}
	}
	soft := budget * 0.9
	var next int64
	var wg sync.WaitGroup
	workers := r.Workers()
	done := int64(0)
	for w := 0; w < workers; w++ {
		wg.Add(1)
		go func() {
			defer wg.Done()
			for {
				i := int(atomic.AddInt64(&next, 1) - 1)
				// the last tenth of the budget is kept for minimising and confirming what failed
				if i >= len(batches) || r.Elapsed() > soft || r.Expired() {
					return
				}
				if batches[i].group {
					ck.runGroup(batches[i])
					atomic.AddInt64(&done, int64(len(batches[i].units)))
					continue
				}
				ck.runUnits(batches[i], batches[i].units)
				atomic.AddInt64(&done, 1)
			}
		}()
	}
	wg.Wait()
	if int(done) < nFiles {
		r.Capped()
	}
	ck.report()
	outMu.Lock()
	callsBy := map[string]int{}
	for k, n := range outAgg {
		r.Outcome(k)
		callsBy[k] = n
	}
	stats["calls_by_outcome"] = callsBy
	outMu.Unlock()
	cov := map[string]any{
		"states":                        int(ck.nFns.Get()),
		"transitions":                   int(ck.nCalls.Get()),
		"traces_validated_against_impl": int(ck.nCalls.Get()),
		"files_compiled_by_both":        int(ck.nBatches.Get()),
		"programs_generated":            total,
		"files_generated":               nFiles,
		"reference_binaries_shared_by_a_group":         int(nGroupBuilds.Get()),
		"programs_run_from_a_shared_reference_binary":  int(nGroupedProgs.Get()),
		"groups_built_program_by_program_instead":      int(nGroupFallbacks.Get()),
		"files_completed":               int(done),
		"calls_excluded_value_beyond_64_bits_seen_in_vm": int(ck.nBig.Get()),
		"units_rejected_by_neo_go_compiler":             int(ck.nNeoRejected.Get()),
		"units_rejected_with_the_expected_message":      int(ck.nWantReject.Get()),
		"neo_go_rejections":                             ck.neoRejects,
		"failing_programs_explained_by_reported_ones":   int(ck.nSuppressed.Get()),
		"minimisation_runs":                             int(ck.nMinRun.Get()),
		"functions_by_feature":                          ck.perFeature,
		"argument_domains":                              map[string]any{"int": intDom, "string": strDom, "bool": boolDom},
		"harness_errors":                                len(ck.harnessErrs),
		"failing_programs_total":                        len(ck.fails) + ck.failsDropped,
		"failing_programs_beyond_report_cap":            int(ck.nUnreported.Get()),
		"cpu_ms_neo_go_compile":                         int(tNeo.Get()),
		"cpu_ms_reference_build_and_run":                int(tGo.Get()),
		"cpu_ms_reference_build":                        int(tGoBuild.Get()),
		"cpu_ms_vm_runs":                                int(tVM.Get()),
		"generated_code":                                cstats.report(),
		"initialize_and_deploy_frames":                  fstats.report(),
		"manifest_method_sets_compared":                 int(nMetaSets.Get()),
		"debug_info_ranges_checked":                     int(nMetaRanges.Get()),
	}
	for k, v := range r4Stats {
		cov["r4_"+k] = v
	}
	for _, fam := range []string{"globals-use", "globals-use-kind", "globals-use-pkg", "globals-use-deploy", "meta-names", "meta-empty", "embed"} {
		if st := ck.famStats["shape:"+fam]; st != nil {
			k := "r4_" + strings.ReplaceAll(fam, "-", "_")
			cov[k+"_functions_run_on_both_sides"] = st.functions
			cov[k+"_calls"] = st.calls
			cov[k+"_calls_agreeing"] = st.agree
			cov[k+"_distinct_reference_outcomes"] = len(st.outcomes)
		}
	}
	cov["composite_literal_sets"] = litStats
	for k, v := range litStats { // (the merged evidence keeps scalar values only)
		cov["literals_"+k] = v
	}
	litFns, litCalls, litAgree, litOut, litFams := 0, 0, 0, 0, 0
	for k, st := range ck.famStats {
		if strings.HasPrefix(k, "shape:literals") {
			litFams++
			litFns += st.functions
			litCalls += st.calls
			litAgree += st.agree
			litOut += len(st.outcomes)
		}
	}
	cov["literals_families"] = litFams
	cov["literals_functions_run_on_both_sides"] = litFns
	cov["literals_calls"] = litCalls
	cov["literals_calls_agreeing"] = litAgree
	cov["literals_distinct_reference_outcomes_summed_over_families"] = litOut
	byFam := map[string]any{}
	for k, st := range ck.famStats {
		byFam[k] = map[string]int{"functions": st.functions, "calls": st.calls, "calls_agreeing": st.agree, "distinct_reference_outcomes": len(st.outcomes)}
	}
	cov["by_family"] = byFam
	for k, v := range stats {
		cov[k] = v
	}
	if len(ck.harnessErrs) > 0 {
		cov["harness_error_first"] = trunc(ck.harnessErrs[0], 600)
		cov["exhaustive"] = false
	}
	vk.CleanScratch()
	r.Finish(cov, []string{
		"the reference is the pinned Go 1.25 toolchain (go build, default flags) running the same source file plus a generated driver",
		"a function is entered at its DebugInfo range start after _initialize, arguments pushed first-on-top above a sentinel item; FAULT <=> Go panic",
		"string/[]byte results are compared by bytes (ByteString and Buffer both accepted); nil and empty slices/maps encode alike; int and bool results must be Integer/Boolean items",
		"programs that neo-go's compiler rejects are counted, not reported (the property speaks about compiled functions)",
		"statement-grammar functions are emitted only if an interval analysis bounds all integer intermediates by 2^62; in addition every VM run is stepped and a call is excluded if an Integer beyond 64 bits reaches the stack top",
		"calls of functions that change package state run in a fresh reference process each, like every VM invocation starts from _initialize",
		"a program that declares _deploy functions: the VM runs _initialize, then the contract's _deploy method (null, false), then the function, as contexts of one script (shared static slots); the reference driver calls the packages' _deploy functions in package initialisation order, main's last, before the function",
		"programs that need a file of their own are built into one reference binary per group of 24 (each as a package of its own, its packages renamed below it); a failing program is confirmed and replayed with a binary of its own",
	})
}

func replay(ck *checker) {
	r := ck.r
	var d violDetail
	if err := r.ReadReplay(&d); err != nil || d.Prog == nil {
		fmt.Println("cannot read replay:", err)
		r.Finish(map[string]any{"states": 1, "transitions": 1, "traces_validated_against_impl": 0}, nil)
	}
	outs := map[string]int{}
	calls := 0
	var last *mismatch
	for i := 0; i < 5; i++ {
		ev := evalProg(d.Prog, false)
		calls += ev.Calls
		o := "agree"
		if ev.NeoErr != "" || ev.GoErr != "" {
			o = "does-not-build: " + ev.NeoErr + ev.GoErr
		}
		if d.Mismatch.Kind == "rejected" && ev.NeoErr != "" && (d.WantReject == "" || !strings.Contains(ev.NeoErr, d.WantReject)) {
			o = "rejected: " + ev.NeoErr
			last = &mismatch{Fn: 0, Kind: "rejected", Diag: trunc(ev.NeoErr, 400), Count: 1}
		}
		if ev.Malformed != "" && d.Mismatch.Kind == "malformed-code" {
			last = &mismatch{Fn: 0, Kind: "malformed-code", Diag: ev.Malformed, Count: 1}
		}
		for k := range ev.Mism {
			m := &ev.Mism[k]
			if d.Prog.Fns[m.Fn].Name == d.FnName || len(ev.Mism) == 1 {
				o = fmt.Sprintf("%s args=(%s) go=%s vm=%s", m.Kind, m.Args, m.Go, m.VM)
				last = m
			}
		}
		outs[o]++
	}
	fmt.Printf("replayed %s 5x:\n%s\n", d.Feature, d.Source)
	for o, n := range outs {
		fmt.Printf("  %dx %s\n", n, o)
	}
	if last != nil && len(outs) == 1 {
		key := ""
		var w struct {
			Key string `json:"key"`
		}
		_ = readJSON(r.Replay, &w)
		key = w.Key
		d.Mismatch = *last
		r.Violation(key, d)
	}
	r.Finish(map[string]any{"states": 1, "transitions": max(calls, 1), "traces_validated_against_impl": max(calls, 1), "replay_outcomes": outs}, nil)
}
