package c14

import (
	"fmt"
	"os"
	"strings"
	"testing"

	"github.com/nspcc-dev/neo-go/pkg/vm/opcode"
)

// TestProbeHead is a development aid: C14_HEAD=<files separated by ","> prints,
// for each program, the slot instructions at the start of _initialize / _deploy
// and whether both sides agree.
func TestProbeHead(t *testing.T) {
	list := os.Getenv("C14_HEAD")
	if list == "" {
		t.Skip("C14_HEAD not set")
	}
	setupEnv()
	for _, path := range strings.Split(list, ",") {
		src, err := os.ReadFile(path)
		if err != nil {
			t.Fatal(err)
		}
		p, err := progFromSource("probe", string(src))
		if err != nil {
			fmt.Println(path, "ERROR", err)
			continue
		}
		dir, cleanup := vkScratch()
		c, err := neoCompile(dir, p)
		if err != nil {
			fmt.Println(path, "NEO-GO COMPILE ERROR:", err)
			cleanup()
			continue
		}
		fmt.Println(path, headOf(c))
		cleanup()
	}
}

// headOf describes the frame instructions of _initialize and _deploy.
func headOf(c *compiled) string {
	var parts []string
	for _, id := range []string{"_initialize", "_deploy"} {
		m := c.byID[id]
		if m == nil {
			parts = append(parts, id+": none")
			continue
		}
		var ins []string
		n := 0
		forEachInstr(c.script, func(ip int, op opcode.Opcode, param []byte) {
			if ip < int(m.Range.Start) || ip > int(m.Range.End) || n >= 2 {
				return
			}
			n++
			if op == opcode.INITSSLOT || op == opcode.INITSLOT {
				ins = append(ins, fmt.Sprintf("%s%v", op, param))
			}
		})
		parts = append(parts, fmt.Sprintf("%s[%d..%d]: %s", id, m.Range.Start, m.Range.End, strings.Join(ins, " ")))
	}
	return strings.Join(parts, "; ")
}
