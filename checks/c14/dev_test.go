package c14

import (
	"github.com/nspcc-dev/neo-go/pkg/vm/opcode"
	"fmt"
	"os"
	"testing"

	"verif/lib/vk"
)

func vkScratch() (string, func()) { return vk.Scratch("c14dev") }

// TestDump writes the first I/size-3 file and its driver for manual timing.
func TestDump(t *testing.T) {
	dir := os.Getenv("C14_DUMP")
	if dir == "" {
		t.Skip()
	}
	fr := frameI(false)
	p := &Prog{Prelude: fr.prelude}
	n := 0
	fr.enumerate(3, 2, func(body []*node) {
		n++
		if n%50 != 0 || len(p.Fns) >= 300 {
			return
		}
		fn, ok := fr.build(fmt.Sprintf("G%d", n), body)
		if ok {
			p.Fns = append(p.Fns, fn)
		}
	})
	os.MkdirAll(dir, 0o755)
	os.WriteFile(dir+"/go.mod", []byte("module x\n\ngo 1.25\n"), 0o644)
	os.WriteFile(dir+"/prog.go", []byte(p.Source()), 0o644)
	os.WriteFile(dir+"/main.go", []byte(driver(p)), 0o644)
}

func TestCount(t *testing.T) {
	if os.Getenv("C14_COUNT") == "" {
		t.Skip()
	}
	for _, th := range []bool{false, true} {
		for _, fr := range []*frame{frameI(th), frameC(th), frameS(th), frameN(th), frameL(th)} {
			for n := 1; n <= 4; n++ {
				if n == 4 {
					continue
				}
				tops := map[int]int{}
				fr.enumerate(n, 2, func(b []*node) { tops[len(b)]++ })
				fmt.Println("thorough", th, fr.name, "size", n, tops)
			}
		}
	}
}

// TestRejects lists the functions of the expression frame / frame S that neo-go's compiler rejects.
func TestRejects(t *testing.T) {
	if os.Getenv("C14_REJECTS") == "" {
		t.Skip()
	}
	setupEnv()
	var fns []Fn
	exprFns(true, func(f Fn) { fns = append(fns, f) })
	prel := ""
	if os.Getenv("C14_REJECTS") == "S" {
		fns = nil
		fr := frameS(true)
		prel = fr.prelude
		n := 0
		fr.enumerate(2, 2, func(b []*node) {
			n++
			if fn, ok := fr.build(fmt.Sprintf("G%d", n), b); ok {
				fns = append(fns, fn)
			}
		})
	}
	seen := map[string]int{}
	var rec func(fs []Fn)
	rec = func(fs []Fn) {
		dir, cleanup := vkScratch()
		defer cleanup()
		_, err := neoCompile(dir, &Prog{Prelude: prel, Fns: fs})
		if err == nil {
			return
		}
		if len(fs) == 1 {
			msg := err.Error()
			if seen[msg[len(msg)-20:]] < 2 {
				fmt.Println("REJECTED:", msg, "\n", fs[0].Src)
			}
			seen[msg[len(msg)-20:]]++
			return
		}
		rec(fs[:len(fs)/2])
		rec(fs[len(fs)/2:])
	}
	for i := 0; i < len(fns); i += 300 {
		rec(fns[i:min(i+300, len(fns))])
	}
	fmt.Println(seen)
}

// TestGoAcceptsX builds every function of the thorough expression frame with the reference toolchain.
func TestGoAcceptsX(t *testing.T) {
	if os.Getenv("C14_GOX") == "" {
		t.Skip()
	}
	setupEnv()
	p := &Prog{}
	exprFns(true, func(f Fn) { f.Args = []string{"1,2"}; p.Fns = append(p.Fns, f) })
	dir, cleanup := vkScratch()
	defer cleanup()
	_, err := goSide(dir, p)
	fmt.Println("functions:", len(p.Fns), "error:", err)
}

// TestDis prints the instructions of the contract compiled from C14_DIS (a file like C14_PROBE's).
func TestDis(t *testing.T) {
	path := os.Getenv("C14_DIS")
	if path == "" {
		t.Skip()
	}
	setupEnv()
	src, _ := os.ReadFile(path)
	p, err := progFromSource("dis", string(src))
	if err != nil {
		t.Fatal(err)
	}
	dir, cleanup := vkScratch()
	defer cleanup()
	c, err := neoCompile(dir, p)
	if err != nil {
		t.Fatal(err)
	}
	starts := map[int]string{}
	for i := range c.di.Methods {
		starts[int(c.di.Methods[i].Range.Start)] = c.di.Methods[i].ID
	}
	forEachInstr(c.script, func(ip int, op opcode.Opcode, param []byte) {
		if n, ok := starts[ip]; ok {
			fmt.Println("---", n)
		}
		fmt.Printf("%5d %-10s %x\n", ip, op, param)
	})
}
