package c14

import (
	"fmt"
	"os"
	"strings"
	"testing"
	"time"

	"verif/lib/vk"
)

// cumulated milliseconds per phase (all workers)
var tNeo, tGo, tGoBuild, tVM vk.Counter

// mismatch is one disagreement between the two sides for one function.
type mismatch struct {
	Fn    int    `json:"fn"`
	Kind  string `json:"kind"` // value | go-panics-vm-returns | vm-faults-go-returns | stack | type | hang | meta
	Args  string `json:"args"`
	Go    string `json:"go"`
	VM    string `json:"vm"`
	Diag  string `json:"diag,omitempty"`
	Count int    `json:"failing_tuples"`
}

type progEval struct {
	NeoErr  string // neo-go refused the program
	Malformed string // ... because the bytecode it had emitted does not pass its own verification (not a restriction of the dialect)
	GoErr   string // reference toolchain refused the program
	Calls   int
	Big     int // calls excluded because a value beyond 64 bits appeared in the VM
	Mism    []mismatch // at most one per function (the first failing tuple), Count = number of failing tuples
	GoOut   [][]string
	VMOut   [][]string
	Outcome map[string]int
}

func classify(goOut, vmOut string) string {
	switch {
	case goOut == vmOut:
		return ""
	case vmOut == "HANG":
		return "hang"
	case strings.HasPrefix(vmOut, "STACK("):
		return "stack"
	case strings.HasPrefix(vmOut, "TYPE("):
		return "type"
	case goOut == "PANIC":
		return "go-panics-vm-returns"
	case vmOut == "PANIC":
		return "vm-faults-go-returns"
	}
	return "value"
}

// evalProg runs both sides of p inside a fresh scratch directory. If neo-go
// rejects p the reference side is normally skipped (the caller splits the
// file); goAlways builds it nevertheless, to tell a program only neo-go
// rejects from one the generator got wrong.
func evalProg(p *Prog, goAlways bool) *progEval {
	dir, cleanup := vk.Scratch("c14")
	defer cleanup()
	ev := &progEval{Outcome: map[string]int{}}
	t0 := time.Now()
	c, err := neoCompile(dir, p)
	tNeo.Add(int(time.Since(t0).Milliseconds()))
	if err != nil {
		ev.NeoErr = err.Error()
		ev.Malformed = malformed(ev.NeoErr)
		if goAlways {
			if _, gerr := goSide(dir, p); gerr != nil {
				ev.GoErr = gerr.Error()
			}
		}
		return ev // nothing to compare
	}
	t0 = time.Now()
	goOut, gerr := goSide(dir, p)
	tGo.Add(int(time.Since(t0).Milliseconds()))
	if gerr != nil {
		ev.GoErr = gerr.Error()
		return ev
	}
	t0 = time.Now()
	defer func() { tVM.Add(int(time.Since(t0).Milliseconds())) }()
	ev.GoOut = goOut
	ev.VMOut = make([][]string, len(p.Fns))
	cstats.add(c.script)
	fstats.add(c)
	progMeta := c.metaProg(p)
	for i := range p.Fns {
		f := &p.Fns[i]
		var first *mismatch
		if i == 0 && len(progMeta) > 0 {
			// a disagreement about the contract as a whole is reported with the file's first function
			first = &mismatch{Fn: i, Kind: "meta", Diag: progMeta[0]}
			ev.Outcome["MISMATCH-meta"]++
		} else if d := c.metaCheck(f); d != "" {
			first = &mismatch{Fn: i, Kind: "meta", Diag: d}
			ev.Outcome["MISMATCH-meta"]++
		}
		tuples := f.argTuples()
		ev.VMOut[i] = make([]string, len(tuples))
		hangs := 0
		for t, tu := range tuples {
			if hangs >= 2 {
				// the function already ran into the instruction cap twice: the other tuples are not run
				ev.VMOut[i][t] = "NOT-RUN"
				ev.Outcome["not-run-after-two-hangs"]++
				continue
			}
			out, diag := c.vmCall(f, tu)
			if out == "HANG" {
				hangs++
			}
			ev.VMOut[i][t] = out
			ev.Calls++
			if out == "BIG" {
				if os.Getenv("C14_DEBUG") != "" {
					fmt.Printf("DEBUG BIG %s(%s) go=%s\n%s\n", f.Name, strings.Join(tu, ","), goOut[i][t], trunc(f.Src, 400))
				}
				ev.Big++
				ev.Outcome["excluded-beyond-64-bits"]++
				continue
			}
			k := classify(goOut[i][t], out)
			switch {
			case k != "":
				ev.Outcome["MISMATCH-"+k]++
			case out == "PANIC":
				ev.Outcome["both-fail"]++
			default:
				ev.Outcome["agree-"+resultClass(out)]++
			}
			if k == "" {
				continue
			}
			if first == nil {
				first = &mismatch{Fn: i, Kind: k, Args: strings.Join(tu, ","), Go: goOut[i][t], VM: out, Diag: diag}
			}
			first.Count++
		}
		if first != nil {
			ev.Mism = append(ev.Mism, *first)
		}
	}
	return ev
}

// malformed recognises the errors of the compiler's final verification of the
// script it has emitted (scparser.IsScriptCorrect, label resolution): the
// program was translated, and the translation is not well-formed bytecode.
func malformed(neoErr string) string {
	for _, m := range []string{"invalid offset", "some jumps are done to wrong offsets", "some methods point to wrong offsets", "incorrect opcode",
		"invalid label target", "unexpected label number", "label offset is too big", "parameter length", "failed to read instruction parameter"} {
		if i := strings.Index(neoErr, m); i >= 0 {
			return trunc(neoErr[i:], 120)
		}
	}
	return ""
}

func resultClass(out string) string {
	if out == "void" {
		return "void"
	}
	var cl []string
	for _, p := range strings.Split(out, ", ") {
		switch {
		case strings.HasPrefix(p, "i:"):
			cl = append(cl, "int")
		case strings.HasPrefix(p, "b:"):
			cl = append(cl, "bool")
		case strings.HasPrefix(p, "s:"):
			cl = append(cl, "string")
		case strings.HasPrefix(p, "y:"):
			cl = append(cl, "bytes")
		case strings.HasPrefix(p, "["):
			cl = append(cl, "slice")
		case strings.HasPrefix(p, "{"):
			cl = append(cl, "map")
		case strings.HasPrefix(p, "<"), p == "nil":
			cl = append(cl, "struct")
		default:
			cl = append(cl, "other")
		}
	}
	return strings.Join(cl, "+")
}

// TestProbe is a development aid: C14_PROBE=<file with declarations, no package
// clause> prints both sides' outcomes of every exported function.
func TestProbe(t *testing.T) {
	path := os.Getenv("C14_PROBE")
	if path == "" {
		t.Skip("C14_PROBE not set")
	}
	src, err := os.ReadFile(path)
	if err != nil {
		t.Fatal(err)
	}
	s := string(src)
	s = strings.TrimPrefix(s, "package main\n")
	p, err := progFromSource("probe", s)
	if err != nil {
		t.Fatal(err)
	}
	ev := evalProg(p, true)
	if ev.NeoErr != "" {
		fmt.Println("NEO-GO COMPILE ERROR:", ev.NeoErr)
	}
	if ev.GoErr != "" {
		fmt.Println("GO ERROR:", ev.GoErr)
	}
	if ev.GoOut == nil {
		return
	}
	for i := range p.Fns {
		f := &p.Fns[i]
		for ti, tu := range f.argTuples() {
			mark := "  "
			if ev.GoOut[i][ti] != ev.VMOut[i][ti] && ev.VMOut[i][ti] != "BIG" && ev.VMOut[i][ti] != "NOT-RUN" {
				mark = "!!"
			}
			if mark == "!!" || os.Getenv("C14_PROBE_ALL") != "" {
				fmt.Printf("%s %s(%s): go=%s vm=%s\n", mark, f.Name, strings.Join(tu, ","), ev.GoOut[i][ti], ev.VMOut[i][ti])
			}
		}
	}
	for _, m := range ev.Mism {
		fmt.Printf("MISMATCH %s kind=%s args=(%s) go=%s vm=%s tuples=%d diag=%s\n", p.Fns[m.Fn].Name, m.Kind, m.Args, m.Go, m.VM, m.Count, m.Diag)
	}
	fmt.Println("calls:", ev.Calls, "outcomes:", ev.Outcome)
}
