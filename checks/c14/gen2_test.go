// Grammar frames of C14, second part.
//
// Frame N: the control-flow grammar of frame I with calls of INLINED helpers as
// atoms (helpers that contain a loop with a return inside, a switch with
// returns, labelled loops, a range with a return): the compiler expands them in
// place, inside whatever loop / switch / labelled statement the grammar puts
// them, next to break / continue / labelled jumps of the caller.
//
// Frame L: the control-flow grammar with a padding atom of about 120 bytes, so
// that the jumps of if / loops / switch / break / continue / labelled jumps
// and the jumps over else branches cross the limit of the short jump forms in
// every nesting the grammar produces (some distances stay short, some do not).
package c14

import (
	"fmt"
	"strings"
)

const helpersN = `package h

func Early(x int) int {
	for i := 0; i < 3; i++ {
		if i == x {
			return i * 10
		}
	}
	return -1
}

func Sw(x int) int {
	switch x {
	case 1:
		return 10
	case 2:
		return x + 5
	case 0:
	default:
		return -x
	}
	return x * 2
}

func Lbl(n int) int {
	t := 0
outer:
	for i := 0; i < 3; i++ {
		for j := 0; j < 3; j++ {
			if j == n {
				continue outer
			}
			if i == n+1 {
				break outer
			}
			t += 10*i + j
		}
	}
	return t
}

func Rng(s []int, stop int) int {
	t := 0
	for _, v := range s {
		if v == stop {
			return t
		}
		t += v
	}
	return t + 100
}

func Two(x int) (int, int) {
	if x > 1 {
		return x, 1
	}
	return 0, x
}
`

func frameN(thorough bool) *frame {
	x, y, a := V("x"), V("y"), V("a")
	fr := &frame{
		name: "N", params: []Ty{TInt, TInt}, pnames: []string{"a", "b"}, results: []Ty{TInts},
		head:    "\tx, y := a, 1\n\ts := []int{b, 2, a}\n\t_ = s\n",
		tail:    "\treturn []int{x, y}\n",
		env:     map[string]iv{"a": ivK(-2, 7), "b": ivK(-2, 7), "x": ivK(-2, 7), "y": ivK(1, 1)},
		prelude: "import \"" + inlineModule + "/h\"\n",
		extra:   map[string]string{"inl/h/h.go": helpersN},
	}
	as := func(kind, text string, effs ...eff) *atom { return &atom{kind: kind, text: text, effs: effs} }
	fr.atoms = []*atom{
		as("add", "x += a", eff{"x", B("+", x, a)}),
		as("inl-loop-return", "y += h.Early(x)", eff{"y", B("+", y, Bound("h.Early", -1, 20))}),
		as("inl-switch-return", "x = h.Sw(a) + y", eff{"x", B("+", Bound("h.Sw", -7, 14), y)}),
		as("inl-range-return", "y += h.Rng(s, a)", eff{"y", B("+", y, Bound("h.Rng", -4, 120))}),
		{kind: "break", text: "break", needs: "breakable", ends: true},
		{kind: "continue", text: "continue", needs: "loop", ends: true},
		{kind: "breakL", text: "break %L", needs: "loopN", ends: true},
		{kind: "continueL", text: "continue %L", needs: "loopN", ends: true},
		{kind: "return", text: "return []int{y, h.Sw(x), 7}", ends: true},
		as("inl-labels", "y += h.Lbl(b)", eff{"y", B("+", y, Bound("h.Lbl", 0, 200))}),
		as("inl-two-results", "x, y = h.Two(y)", eff{"x", B("join", y, K(0))}, eff{"y", B("join", y, K(1))}),
		// an expanded helper followed by a jump of the caller: the helper's own loops /
		// switches / labels must not change what the caller's break / continue refers to
		{kind: "inl-loop-return/then-break", text: "y += h.Early(x)\n\tif y > 3 {\n\t\tbreak\n\t}", needs: "breakable", effs: []eff{{"y", B("+", y, Bound("h.Early", -1, 20))}}},
		{kind: "inl-switch-return/then-continue", text: "x = h.Sw(a) + y\n\tif x > 3 {\n\t\tcontinue\n\t}", needs: "loop", effs: []eff{{"x", B("+", Bound("h.Sw", -7, 14), y)}}},
		{kind: "inl-labels/then-breakL", text: "y += h.Lbl(b)\n\tif y > 30 {\n\t\tbreak %L\n\t}", needs: "loopN", effs: []eff{{"y", B("+", y, Bound("h.Lbl", 0, 200))}}},
		{kind: "inl-labels/then-continueL", text: "y += h.Lbl(b)\n\tif y > 30 {\n\t\tcontinue %L\n\t}", needs: "loopN", effs: []eff{{"y", B("+", y, Bound("h.Lbl", 0, 200))}}},
		{kind: "inl-range-return/then-break", text: "y += h.Rng(s, a)\n\tif y > 100 {\n\t\tbreak\n\t}", needs: "breakable", effs: []eff{{"y", B("+", y, Bound("h.Rng", -4, 120))}}},
	}
	fr.conds = []cond{
		{text: "h.Early(a) < b"},
		{text: "x <= y"},
	}
	fill := func(k int64) (string, []eff) {
		return fmt.Sprintf("y += %d", k*100), []eff{{"y", B("+", y, K(k*100))}}
	}
	loopFill := func(v string) (string, []eff) {
		return "x += " + v, []eff{{"x", B("+", x, V(v))}}
	}
	all := compounds(fill, loopFill, "s", Bound("", -2, 7), "a")
	keep := map[string]bool{"if": true, "else": true, "for3": true, "for-inf": true, "range-iv": true, "range-v": true, "switch-tag": true, "switch-cond": true, "switch-fall": true}
	for _, c := range all {
		if thorough || keep[c.kind] {
			fr.comps = append(fr.comps, c)
		}
	}
	return fr
}

func frameL(thorough bool) *frame {
	x, y, a := V("x"), V("y"), V("a")
	fr := &frame{
		name: "L", params: []Ty{TInt, TInt}, pnames: []string{"a", "b"}, results: []Ty{TInts},
		head: "\tx, y := a, 1\n\ts := []int{b, 2, a}\n\t_ = s\n",
		tail: "\treturn []int{x, y}\n",
		env:  map[string]iv{"a": ivK(-2, 7), "b": ivK(-2, 7), "x": ivK(-2, 7), "y": ivK(1, 1)},
	}
	as := func(kind, text string, effs ...eff) *atom { return &atom{kind: kind, text: text, effs: effs} }
	// LDLOC y, 58 x (PUSH1, ADD), STLOC y: 118 bytes
	pad := "y = y" + strings.Repeat(" + 1", 58)
	pe := []eff{{"y", B("+", y, K(58))}}
	fr.atoms = []*atom{
		as("pad", pad, pe...),
		as("add", "x += a", eff{"x", B("+", x, a)}),
		// a conditional jump in front of / behind the padding: the jump and the
		// enclosing constructs' own jumps cross it
		{kind: "break-over-pad", text: "if x > 2 {\n\t\tbreak\n\t}\n\t" + pad, needs: "breakable", effs: pe},
		{kind: "continue-over-pad", text: "if x > 2 {\n\t\tcontinue\n\t}\n\t" + pad, needs: "loop", effs: pe},
		{kind: "breakL-over-pad", text: "if x > 2 {\n\t\tbreak %L\n\t}\n\t" + pad, needs: "loopN", effs: pe},
		{kind: "continueL-over-pad", text: "if x > 2 {\n\t\tcontinue %L\n\t}\n\t" + pad, needs: "loopN", effs: pe},
		{kind: "return-over-pad", text: "if x > 2 {\n\t\treturn []int{y, x, 7}\n\t}\n\t" + pad, effs: pe},
		{kind: "continue-after-pad", text: pad + "\n\tif x > 2 {\n\t\tcontinue\n\t}", needs: "loop", effs: pe},
		{kind: "breakL-after-pad", text: pad + "\n\tif x > 2 {\n\t\tbreak %L\n\t}", needs: "loopN", effs: pe},
	}
	fr.conds = []cond{
		{text: "a < b"},
		{text: "x <= y && a != 2"},
	}
	fill := func(k int64) (string, []eff) {
		return fmt.Sprintf("y += %d", k*100), []eff{{"y", B("+", y, K(k*100))}}
	}
	loopFill := func(v string) (string, []eff) {
		return "x += " + v, []eff{{"x", B("+", x, V(v))}}
	}
	fr.comps = compounds(fill, loopFill, "s", Bound("", -2, 7), "a")
	return fr
}
