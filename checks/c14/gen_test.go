// Grammar part of C14: bounded exhaustive enumeration of function bodies.
//
// A *frame* fixes the signature, the local variables and the final return of a
// function; the body between them is every statement list with a bounded
// number of grammar nodes and bounded nesting, built from the frame's atoms
// (simple statements) and the shared compound productions (if / else / else-if,
// three loop forms, three range forms, four switch forms). break/continue with
// and without labels are generated wherever Go allows them.
//
// Integer values stay within 64 bits by construction: every atom carries its
// effect on the integer variables as an interval expression and a function is
// emitted only if a flow-insensitive interval analysis (as many rounds as the
// loop nest can take back edges, plus one) keeps every intermediate value
// within +-2^62.
package c14

import (
	"fmt"
	"math/big"
	"strings"
)

// ---- intervals -------------------------------------------------------------------

type iv struct{ lo, hi *big.Int }

func ivK(a, b int64) iv { return iv{big.NewInt(a), big.NewInt(b)} }

func (a iv) join(b iv) iv {
	r := iv{a.lo, a.hi}
	if b.lo.Cmp(r.lo) < 0 {
		r.lo = b.lo
	}
	if b.hi.Cmp(r.hi) > 0 {
		r.hi = b.hi
	}
	return r
}

func (a iv) eq(b iv) bool { return a.lo.Cmp(b.lo) == 0 && a.hi.Cmp(b.hi) == 0 }

func (a iv) maxAbs() *big.Int {
	x := new(big.Int).Abs(a.lo)
	y := new(big.Int).Abs(a.hi)
	if x.Cmp(y) > 0 {
		return x
	}
	return y
}

var lim62 = new(big.Int).Lsh(big.NewInt(1), 62)

func (a iv) within() bool {
	return a.lo.Cmp(new(big.Int).Neg(lim62)) >= 0 && a.hi.Cmp(lim62) <= 0
}

func sym(m *big.Int) iv { return iv{new(big.Int).Neg(m), new(big.Int).Set(m)} }

// ie is an integer expression: rendered as Go and evaluated over intervals.
type ie struct {
	op   string // k v + - * / % & | ^ << >> neg inv lenle join
	k    int64
	v    string
	l, r *ie
}

func K(k int64) *ie           { return &ie{op: "k", k: k} }
func V(v string) *ie          { return &ie{op: "v", v: v} }
func B(op string, l, r *ie) *ie { return &ie{op: op, l: l, r: r} }
func U(op string, l *ie) *ie  { return &ie{op: op, l: l} }

// Bound is an opaque Go expression (text) known to lie in [lo,hi].
func Bound(text string, lo, hi int64) *ie { return &ie{op: "bound", v: text, k: lo, l: K(hi)} }

func (e *ie) String() string {
	switch e.op {
	case "k":
		if e.k < 0 {
			return fmt.Sprintf("(%d)", e.k)
		}
		return fmt.Sprint(e.k)
	case "v", "bound":
		return e.v
	case "neg":
		return "(-" + e.l.String() + ")"
	case "inv":
		return "(^" + e.l.String() + ")"
	}
	return "(" + e.l.String() + " " + e.op + " " + e.r.String() + ")"
}

// eval returns the interval of e under env and false if some intermediate
// value may leave +-2^62.
func (e *ie) eval(env map[string]iv) (iv, bool) {
	var r iv
	switch e.op {
	case "k":
		r = ivK(e.k, e.k)
	case "v":
		x, ok := env[e.v]
		if !ok {
			panic("interval analysis: unknown variable " + e.v)
		}
		r = x
	case "bound":
		r = ivK(e.k, e.l.k)
	case "neg", "inv":
		a, ok := e.l.eval(env)
		if !ok {
			return a, false
		}
		r = iv{new(big.Int).Neg(a.hi), new(big.Int).Neg(a.lo)}
		if e.op == "inv" {
			r = iv{new(big.Int).Sub(r.lo, big.NewInt(1)), new(big.Int).Sub(r.hi, big.NewInt(1))}
		}
	default:
		a, ok := e.l.eval(env)
		if !ok {
			return a, false
		}
		b, ok := e.r.eval(env)
		if !ok {
			return b, false
		}
		switch e.op {
		case "+":
			r = iv{new(big.Int).Add(a.lo, b.lo), new(big.Int).Add(a.hi, b.hi)}
		case "-":
			r = iv{new(big.Int).Sub(a.lo, b.hi), new(big.Int).Sub(a.hi, b.lo)}
		case "*":
			c := []*big.Int{new(big.Int).Mul(a.lo, b.lo), new(big.Int).Mul(a.lo, b.hi), new(big.Int).Mul(a.hi, b.lo), new(big.Int).Mul(a.hi, b.hi)}
			r = iv{c[0], c[0]}
			for _, x := range c[1:] {
				r = r.join(iv{x, x})
			}
		case "/", ">>":
			r = sym(a.maxAbs())
		case "%":
			r = sym(b.maxAbs()).join(ivK(0, 0))
			if a.maxAbs().Cmp(r.hi) < 0 {
				r = sym(a.maxAbs())
			}
		case "&", "|", "^":
			if e.op == "&" && b.lo.Sign() >= 0 && b.lo.Cmp(b.hi) == 0 {
				r = iv{big.NewInt(0), b.hi} // masking with a non-negative constant
				break
			}
			if e.op == "&" && a.lo.Sign() >= 0 && a.lo.Cmp(a.hi) == 0 {
				r = iv{big.NewInt(0), a.hi}
				break
			}
			n := a.maxAbs().BitLen()
			if m := b.maxAbs().BitLen(); m > n {
				n = m
			}
			r = sym(new(big.Int).Lsh(big.NewInt(1), uint(n+1)))
		case "<<":
			// the generator only shifts by counts in [0,3]
			if b.lo.Sign() < 0 || b.hi.Cmp(big.NewInt(3)) > 0 {
				return r, false
			}
			r = sym(new(big.Int).Lsh(a.maxAbs(), uint(b.hi.Int64())))
		case "join":
			r = a.join(b)
		default:
			panic("interval analysis: operator " + e.op)
		}
	}
	return r, r.within()
}

// konst evaluates e exactly if it contains no variable.
func (e *ie) konst() (*big.Int, bool) {
	switch e.op {
	case "k":
		return big.NewInt(e.k), true
	case "v", "bound", "join":
		return nil, false
	case "neg", "inv":
		a, ok := e.l.konst()
		if !ok {
			return nil, false
		}
		if e.op == "neg" {
			return new(big.Int).Neg(a), true
		}
		return new(big.Int).Not(a), true
	}
	a, ok := e.l.konst()
	if !ok {
		return nil, false
	}
	b, ok := e.r.konst()
	if !ok {
		return nil, false
	}
	switch e.op {
	case "+":
		return new(big.Int).Add(a, b), true
	case "-":
		return new(big.Int).Sub(a, b), true
	case "*":
		return new(big.Int).Mul(a, b), true
	case "/", "%":
		if b.Sign() == 0 {
			return nil, false
		}
		if e.op == "/" {
			return new(big.Int).Quo(a, b), true
		}
		return new(big.Int).Rem(a, b), true
	case "&":
		return new(big.Int).And(a, b), true
	case "|":
		return new(big.Int).Or(a, b), true
	case "^":
		return new(big.Int).Xor(a, b), true
	case "<<", ">>":
		if b.Sign() < 0 || b.Cmp(big.NewInt(3)) > 0 {
			return nil, false
		}
		if e.op == "<<" {
			return new(big.Int).Lsh(a, uint(b.Int64())), true
		}
		return new(big.Int).Rsh(a, uint(b.Int64())), true
	}
	return nil, false
}

// eff is one assignment to an integer variable made by a statement.
type eff struct {
	v   string
	rhs *ie
}

// ---- grammar ------------------------------------------------------------------------

// atom is a simple statement. text may contain %L (label of the loop the
// branch statement refers to).
type atom struct {
	kind  string
	text  string
	effs  []eff
	needs string // "" | loop | breakable | loopN (N-th enclosing loop from outside, by label) | nested (not in the function's top block)
	decl  string // the atom declares this name in its block, shadowing the frame's variable (at most once per block)
	ends  bool   // nothing after it in the same list is reachable (return, panic, break, continue)
}

// comp is a compound production with one enumerated slot.
type comp struct {
	kind    string
	useCond bool
	loop    int  // 0 = not a loop, else the maximal number of iterations
	sw      bool // is a switch (plain break refers to it)
	// render returns the statement; id makes names unique, label is "" or "Ln: ",
	// cond is the condition text, body the rendered slot.
	render func(id int, label, cond, body string) string
	effs   func(id int) []eff       // effects of the fixed filler statements
	vars   func(id int) map[string]iv // variables the production declares
}

type cond struct {
	text string
	ints []*ie // integer subexpressions to range-check
}

// node is one grammar node of a body.
type node struct {
	a     *atom
	c     *comp
	cond  int
	body  []*node
	loopN int // for labelled branch atoms: index of the referenced enclosing loop (0 = outermost)
}

// frame fixes everything around the enumerated body.
type frame struct {
	name    string
	params  []Ty
	pnames  []string
	results []Ty
	head    string // declarations after the signature
	tail    string // final return
	env     map[string]iv
	tailInt []*ie // integer expressions of the tail to range-check
	atoms   []*atom
	conds   []cond
	comps   []*comp
	prelude string // helper declarations the frame needs (shared by the whole file)
	extra   map[string]string // further files of the program (Prog.Extra)
}

type gctx struct {
	loops     int  // number of enclosing loops
	breakable bool // innermost breakable construct exists
	depth     int
}

// enumerate calls cb for every body with exactly n nodes and nesting <= maxDepth.
func (fr *frame) enumerate(n, maxDepth int, cb func(body []*node)) {
	fr.lists(n, maxDepth, gctx{}, cb)
}

// enumerateTop is enumerate restricted to bodies with at most maxTop top-level statements.
func (fr *frame) enumerateTop(n, maxDepth, maxTop int, cb func(body []*node)) {
	fr.lists(n, maxDepth, gctx{}, func(b []*node) {
		if len(b) <= maxTop {
			cb(b)
		}
	})
}

func (fr *frame) lists(n, depth int, ctx gctx, cb func([]*node)) {
	if n == 0 {
		cb(nil)
		return
	}
	for k := 1; k <= n; k++ {
		fr.stmts(k, depth, ctx, func(s *node) {
			if k < n && s.a != nil && s.a.ends {
				return // dead code after a terminating statement adds nothing
			}
			fr.lists(n-k, depth, ctx, func(rest []*node) {
				if s.a != nil && s.a.decl != "" {
					for _, r := range rest {
						if r.a != nil && r.a.decl == s.a.decl {
							return // the same name cannot be declared twice in one block
						}
					}
				}
				cb(append([]*node{s}, rest...))
			})
		})
	}
}

func (fr *frame) stmts(n, depth int, ctx gctx, cb func(*node)) {
	if n == 1 {
		for _, a := range fr.atoms {
			switch a.needs {
			case "":
				cb(&node{a: a})
			case "loop":
				if ctx.loops > 0 {
					cb(&node{a: a})
				}
			case "breakable":
				if ctx.breakable {
					cb(&node{a: a})
				}
			case "nested":
				if ctx.depth > 0 {
					cb(&node{a: a})
				}
			case "loopN":
				for k := 0; k < ctx.loops; k++ {
					cb(&node{a: a, loopN: k})
				}
			}
		}
	}
	if depth == 0 {
		return
	}
	for _, c := range fr.comps {
		nc := 1
		if c.useCond {
			nc = len(fr.conds)
		}
		for ci := 0; ci < nc; ci++ {
			sub := gctx{loops: ctx.loops, breakable: ctx.breakable, depth: ctx.depth + 1}
			if c.loop > 0 {
				sub.loops++
				sub.breakable = true
			}
			if c.sw {
				sub.breakable = true
			}
			fr.lists(n-1, depth-1, sub, func(body []*node) {
				cb(&node{c: c, cond: ci, body: body})
			})
		}
	}
}

// rendered is a function body with everything the oracle and the dedupe need.
type rendered struct {
	text   string
	paths  []string
	effs   []eff
	checks []*ie
	vars   map[string]iv
	rounds int
}

type rstate struct {
	fr     *frame
	nextID int
	out    *rendered
}

// renderList renders stmts; loops is the stack of ids of the enclosing loops,
// mult the product of their iteration bounds; used reports referenced labels.
func (rs *rstate) renderList(list []*node, loops []int, mult int, path string, indent string, used map[int]bool) string {
	var b strings.Builder
	for _, s := range list {
		if s.a != nil {
			p := path + s.a.kind
			t := s.a.text
			if s.a.needs == "loopN" {
				id := loops[s.loopN]
				used[id] = true
				t = strings.ReplaceAll(t, "%L", fmt.Sprintf("L%d", id))
				if s.loopN == len(loops)-1 {
					p += "-self"
				} else {
					p += "-outer"
				}
			}
			rs.out.paths = append(rs.out.paths, p)
			rs.out.effs = append(rs.out.effs, s.a.effs...)
			b.WriteString(indent + t + "\n")
			continue
		}
		c := s.c
		rs.nextID++
		id := rs.nextID
		p := path + c.kind
		rs.out.paths = append(rs.out.paths, p)
		condText := ""
		if c.useCond {
			condText = rs.fr.conds[s.cond].text
			rs.out.checks = append(rs.out.checks, rs.fr.conds[s.cond].ints...)
			p += fmt.Sprintf("[c%d]", s.cond)
			rs.out.paths[len(rs.out.paths)-1] = p
		}
		if c.vars != nil {
			for k, v := range c.vars(id) {
				rs.out.vars[k] = v
			}
		}
		if c.effs != nil {
			rs.out.effs = append(rs.out.effs, c.effs(id)...)
		}
		subLoops, subMult := loops, mult
		if c.loop > 0 {
			subLoops = append(append([]int{}, loops...), id)
			subMult = mult * c.loop
			rs.out.rounds += subMult
		}
		body := rs.renderList(s.body, subLoops, subMult, p+">", indent+"\t", used)
		label := ""
		if used[id] {
			label = fmt.Sprintf("L%d:\n%s", id, indent)
		}
		text := c.render(id, label, condText, strings.TrimRight(body, "\n"))
		for _, l := range strings.Split(text, "\n") {
			b.WriteString(indent + l + "\n")
		}
	}
	return b.String()
}

// build renders the function name(...) with the given body, or ok=false if the
// interval analysis cannot keep it within 64 bits.
func (fr *frame) build(name string, body []*node) (fn Fn, ok bool) {
	rs := &rstate{fr: fr, out: &rendered{vars: map[string]iv{}, rounds: 1}}
	text := rs.renderList(body, nil, 1, "", "\t", map[int]bool{})
	r := rs.out
	env := map[string]iv{}
	for k, v := range fr.env {
		env[k] = v
	}
	for k, v := range r.vars {
		env[k] = v
	}
	rounds := r.rounds
	if rounds > 64 {
		return fn, false
	}
	for i := 0; i < rounds; i++ {
		changed := false
		for _, e := range r.effs {
			x, ok := e.rhs.eval(env)
			if !ok {
				return fn, false
			}
			j := env[e.v].join(x)
			if !j.eq(env[e.v]) {
				env[e.v] = j
				changed = true
			}
		}
		if !changed {
			break
		}
	}
	// every right-hand side, condition operand and tail expression once more under the final environment
	for _, e := range r.effs {
		if _, ok := e.rhs.eval(env); !ok {
			return fn, false
		}
	}
	for _, e := range append(append([]*ie{}, r.checks...), fr.tailInt...) {
		if _, ok := e.eval(env); !ok {
			return fn, false
		}
	}
	var sig []string
	for i, p := range fr.params {
		sig = append(sig, fr.pnames[i]+" "+string(p))
	}
	var res []string
	for _, t := range fr.results {
		res = append(res, string(t))
	}
	rt := strings.Join(res, ", ")
	if len(res) > 1 {
		rt = "(" + rt + ")"
	}
	src := fmt.Sprintf("func %s(%s) %s {\n%s%s%s}\n", name, strings.Join(sig, ", "), rt, fr.head, text, fr.tail)
	return Fn{Name: name, Params: fr.params, Results: fr.results, Src: src, Feature: fr.name, Paths: r.paths}, true
}

// ---- shared compound productions ---------------------------------------------------------

func ind(body string) string {
	if body == "" {
		return ""
	}
	return body + "\n"
}

// compounds returns the productions; acc is the statement template used as the
// fixed filler ("%d" is replaced by a distinct constant), accEff its effect;
// rng is the slice expression ranged over and its element interval.
func compounds(fill func(k int64) (string, []eff), loopFill func(v string) (string, []eff), rngExpr string, rngElem *ie, swTag string) []*comp {
	f := func(k int64) string { s, _ := fill(k); return s }
	fe := func(k int64) []eff { _, e := fill(k); return e }
	lf := func(v string) string { s, _ := loopFill(v); return s }
	lfe := func(v string) []eff { _, e := loopFill(v); return e }
	return []*comp{
		{kind: "if", useCond: true,
			render: func(id int, l, c, b string) string { return "if " + c + " {\n" + ind(b) + "}" }},
		{kind: "if-else", useCond: true,
			render: func(id int, l, c, b string) string {
				return "if " + c + " {\n" + ind(b) + "} else {\n\t" + f(3) + "\n}"
			},
			effs: func(id int) []eff { return fe(3) }},
		{kind: "else", useCond: true,
			render: func(id int, l, c, b string) string {
				return "if " + c + " {\n\t" + f(5) + "\n} else {\n" + ind(b) + "}"
			},
			effs: func(id int) []eff { return fe(5) }},
		{kind: "else-if", useCond: true,
			render: func(id int, l, c, b string) string {
				return "if " + c + " {\n\t" + f(5) + "\n} else if " + swTag + " == 1 {\n" + ind(b) + "} else {\n\t" + f(3) + "\n}"
			},
			effs: func(id int) []eff { return append(fe(5), fe(3)...) }},
		{kind: "for3", loop: 3,
			render: func(id int, l, c, b string) string {
				i := fmt.Sprintf("i%d", id)
				return fmt.Sprintf("%sfor %s := 0; %s < 3; %s++ {\n\t%s\n%s}", l, i, i, i, lf(i), ind(b))
			},
			vars: func(id int) map[string]iv { return map[string]iv{fmt.Sprintf("i%d", id): ivK(0, 3)} },
			effs: func(id int) []eff { return lfe(fmt.Sprintf("i%d", id)) }},
		{kind: "for-cond", loop: 2,
			render: func(id int, l, c, b string) string {
				j := fmt.Sprintf("j%d", id)
				return fmt.Sprintf("%s := 0\n%sfor %s < 2 {\n\t%s++\n\t%s\n%s}", j, l, j, j, lf(j), ind(b))
			},
			vars: func(id int) map[string]iv { return map[string]iv{fmt.Sprintf("j%d", id): ivK(0, 2)} },
			effs: func(id int) []eff { return lfe(fmt.Sprintf("j%d", id)) }},
		{kind: "for-inf", loop: 2,
			render: func(id int, l, c, b string) string {
				k := fmt.Sprintf("k%d", id)
				return fmt.Sprintf("%s := 0\n%sfor {\n\t%s++\n\tif %s > 2 {\n\t\tbreak\n\t}\n%s}", k, l, k, k, ind(b))
			},
			vars: func(id int) map[string]iv { return map[string]iv{fmt.Sprintf("k%d", id): ivK(0, 3)} }},
		{kind: "range-iv", loop: 3,
			render: func(id int, l, c, b string) string {
				i, v := fmt.Sprintf("ri%d", id), fmt.Sprintf("rv%d", id)
				return fmt.Sprintf("%sfor %s, %s := range %s {\n\t%s\n\t%s\n%s}", l, i, v, rngExpr, lf(i), lf(v), ind(b))
			},
			vars: func(id int) map[string]iv {
				return map[string]iv{fmt.Sprintf("ri%d", id): ivK(0, 3), fmt.Sprintf("rv%d", id): ivK(0, 0)}
			},
			effs: func(id int) []eff {
				rv := fmt.Sprintf("rv%d", id)
				return append(append([]eff{{rv, rngElem}}, lfe(fmt.Sprintf("ri%d", id))...), lfe(rv)...)
			}},
		{kind: "range-v", loop: 3,
			render: func(id int, l, c, b string) string {
				v := fmt.Sprintf("rv%d", id)
				return fmt.Sprintf("%sfor _, %s := range %s {\n\t%s\n%s}", l, v, rngExpr, lf(v), ind(b))
			},
			vars: func(id int) map[string]iv { return map[string]iv{fmt.Sprintf("rv%d", id): ivK(0, 0)} },
			effs: func(id int) []eff {
				rv := fmt.Sprintf("rv%d", id)
				return append([]eff{{rv, rngElem}}, lfe(rv)...)
			}},
		{kind: "range-i", loop: 3,
			render: func(id int, l, c, b string) string {
				i := fmt.Sprintf("ri%d", id)
				return fmt.Sprintf("%sfor %s := range %s {\n\t%s\n%s}", l, i, rngExpr, lf(i), ind(b))
			},
			vars: func(id int) map[string]iv { return map[string]iv{fmt.Sprintf("ri%d", id): ivK(0, 3)} },
			effs: func(id int) []eff { return lfe(fmt.Sprintf("ri%d", id)) }},
		{kind: "switch-tag", sw: true,
			render: func(id int, l, c, b string) string {
				return "switch " + swTag + " {\ncase 0:\n\t" + f(3) + "\ncase 1, 2:\n" + ind(b) + "default:\n\t" + f(5) + "\n}"
			},
			effs: func(id int) []eff { return append(fe(3), fe(5)...) }},
		{kind: "switch-cond", sw: true, useCond: true,
			render: func(id int, l, c, b string) string {
				return "switch {\ncase " + c + ":\n" + ind(b) + "case " + swTag + " == 1:\n\t" + f(3) + "\ndefault:\n\t" + f(5) + "\n}"
			},
			effs: func(id int) []eff { return append(fe(3), fe(5)...) }},
		{kind: "switch-fall", sw: true,
			render: func(id int, l, c, b string) string {
				return "switch " + swTag + " {\ncase 0:\n" + ind(b) + "\tfallthrough\ncase 1:\n\t" + f(3) + "\ncase 2:\n\t" + f(5) + "\n\tfallthrough\ndefault:\n\t" + f(7) + "\n}"
			},
			effs: func(id int) []eff { return append(append(fe(3), fe(5)...), fe(7)...) }},
		{kind: "switch-default-first", sw: true,
			render: func(id int, l, c, b string) string {
				return "switch " + swTag + " {\ndefault:\n" + ind(b) + "case 1:\n\t" + f(3) + "\ncase 2:\n\t" + f(5) + "\n}"
			},
			effs: func(id int) []eff { return append(fe(3), fe(5)...) }},
	}
}

// ---- frame I: integers and control flow ----------------------------------------------------

const preludeI = `
func hI(p int, q int) int {
	if p > q {
		return p - q
	}
	return q - p + 1
}

func twoI(p int, q int) (int, int) {
	if q < 0 {
		return p, -q
	}
	return q + 1, p
}

func recI(n int) int {
	if n <= 0 {
		return 1
	}
	return n + recI(n-1)
}

func sumI(xs ...int) int {
	t := 0
	for _, v := range xs {
		t += v
	}
	return t
}
`

func frameI(thorough bool) *frame {
	x, y, a, b := V("x"), V("y"), V("a"), V("b")
	fr := &frame{
		name: "I", params: []Ty{TInt, TInt}, pnames: []string{"a", "b"}, results: []Ty{TInts},
		head:    "\tx, y := a, 1\n\ts := []int{b, 2, a}\n\t_ = s\n",
		tail:    "\treturn []int{x, y}\n",
		env:     map[string]iv{"a": ivK(-2, 7), "b": ivK(-2, 7), "x": ivK(-2, 7), "y": ivK(1, 1)},
		prelude: preludeI,
	}
	as := func(kind, text string, effs ...eff) *atom { return &atom{kind: kind, text: text, effs: effs} }
	fr.atoms = []*atom{
		as("add", "x += a", eff{"x", B("+", x, a)}),
		as("trace", "y = y*2 + 1", eff{"y", B("+", B("*", y, K(2)), K(1))}),
		as("div", "x = y / b", eff{"x", B("/", y, b)}),
		{kind: "break", text: "break", needs: "breakable", ends: true},
		{kind: "continue", text: "continue", needs: "loop", ends: true},
		{kind: "breakL", text: "break %L", needs: "loopN", ends: true},
		{kind: "continueL", text: "continue %L", needs: "loopN", ends: true},
		{kind: "return", text: "return []int{y, x, 7}", ends: true},
		as("swap", "x, y = y, x", eff{"x", y}, eff{"y", x}),
		as("mod", "y = x % a", eff{"y", B("%", x, a)}),
		as("call", "x = hI(x, b)", eff{"x", B("join", B("-", x, b), B("+", B("-", b, x), K(1)))}),
		as("multi-call", "x, y = twoI(y, a)", eff{"x", B("join", y, B("+", a, K(1)))}, eff{"y", B("join", y, U("neg", a))}),
		{kind: "panic", text: `panic("p")`, ends: true},
		// block-scoped declarations shadowing the frame's variables: siblings, later
		// clauses and everything after the statement must still mean the outer ones
		{kind: "shadow-y", text: "y := a + 40\n\tx += y", needs: "nested", decl: "y", effs: []eff{{"y", B("+", a, K(40))}, {"x", B("+", x, y)}}},
		{kind: "shadow-x", text: "var x int = b + 60\n\ty += x", needs: "nested", decl: "x", effs: []eff{{"x", B("+", b, K(60))}, {"y", B("+", y, x)}}},
	}
	if thorough {
		fr.atoms = append(fr.atoms,
			as("incdec", "x++\n\ty--", eff{"x", B("+", x, K(1))}, eff{"y", B("-", y, K(1))}),
			as("shift", "y = x<<1 | y>>1", eff{"y", B("|", B("<<", x, K(1)), B(">>", y, K(1)))}),
			as("recursion", "y += recI(a)", eff{"y", B("+", y, Bound("recI(a)", 1, 29))}),
			as("variadic", "x = sumI(x, a, b) - sumI()", eff{"x", B("+", B("+", x, a), b)}),
			as("minmax", "y = min(x, y) + max(a, b, 0)", eff{"y", B("+", B("join", x, y), B("join", B("join", a, b), K(0)))}),
			as("bits", "x = x&7 ^ b", eff{"x", B("^", B("&", x, K(7)), b)}),
			as("index", "x += s[y&3]", eff{"x", B("+", x, Bound("s[y&3]", -2, 7))}),
			as("muldef", "x, y = x*b, x-y", eff{"x", B("*", x, b)}, eff{"y", B("-", x, y)}),
		)
	}
	fr.conds = []cond{
		{text: "a < b"},
		{text: "x <= y"},
	}
	if thorough {
		fr.conds = append(fr.conds,
			cond{text: "a == 1 || b > 1 && y != 3"},
			cond{text: "!(x >= b)"},
		)
	}
	fill := func(k int64) (string, []eff) {
		return fmt.Sprintf("y += %d", k*100), []eff{{"y", B("+", y, K(k*100))}}
	}
	loopFill := func(v string) (string, []eff) {
		return "x += " + v, []eff{{"x", B("+", x, V(v))}}
	}
	fr.comps = compounds(fill, loopFill, "s", Bound("", -2, 7), "a")
	return fr
}

// ---- frame C: slices and maps ----------------------------------------------------------------

const preludeC = `
func getC(m map[int]int, k int) int {
	v, ok := m[k]
	if ok {
		return v
	}
	return -9
}

func setC(s []int, m map[int]int, v int) {
	s[0] = v
	m[2] = v
}
`

func frameC(thorough bool) *frame {
	x, a, b, E := V("x"), V("a"), V("b"), V("E")
	// E is the hull of every slice element and map value the function can hold.
	fr := &frame{
		name: "C", params: []Ty{TInt, TInt}, pnames: []string{"a", "b"}, results: []Ty{TInts},
		head:    "\tx := 0\n\ts := []int{1, 2, 3}\n\tm := map[int]int{1: 10, 2: 20, 5: 50}\n",
		tail:    "\treturn append(s, x, len(m), getC(m, 1), getC(m, 2), getC(m, 7), getC(m, 5))\n",
		env:     map[string]iv{"a": ivK(-2, 7), "b": ivK(-2, 7), "x": ivK(0, 0), "E": ivK(-9, 50)},
		prelude: preludeC,
	}
	as := func(kind, text string, effs ...eff) *atom { return &atom{kind: kind, text: text, effs: effs} }
	fr.atoms = []*atom{
		as("append", "s = append(s, a)"),
		as("slice-set", "s[b] = a"),
		as("slice-get", "x += s[a]", eff{"x", B("+", x, E)}),
		as("map-set", "m[a] = b"),
		as("map-delete", "delete(m, a)"),
		as("map-get-ok", "if v, ok := m[b]; ok {\n\t\tx += v\n\t}", eff{"x", B("+", x, E)}),
		as("len", "x += len(s)*10 + len(m)", eff{"x", B("+", x, Bound("len", 0, 1000))}),
		{kind: "break", text: "break", needs: "breakable", ends: true},
		{kind: "continue", text: "continue", needs: "loop", ends: true},
		as("pass-ref", "setC(s, m, a)"),
		as("map-get-present", "x += m[5]", eff{"x", B("+", x, E)}),
	}
	if thorough {
		fr.atoms = append(fr.atoms,
			as("append/many", "s = append(s, b, x)", eff{"E", x}),
			as("reset", "s = []int{a}\n\tm = map[int]int{5: b}"),
			as("elem-opassign", "s[0] += a\n\tm[5] -= b", eff{"E", B("+", E, a)}, eff{"E", B("-", E, b)}),
			as("nil-slice", "{\n\t\tvar t []int\n\t\tt = append(t, a)\n\t\ts = t\n\t}"),
			as("make", "s = make([]int, 2)\n\tm = make(map[int]int)\n\tm[5] = a"),
			&atom{kind: "breakL", text: "break %L", needs: "loopN", ends: true},
			&atom{kind: "continueL", text: "continue %L", needs: "loopN", ends: true},
		)
	}
	fr.conds = []cond{{text: "a < len(s)"}, {text: "m[5] <= x"}}
	fill := func(k int64) (string, []eff) {
		return fmt.Sprintf("x += %d", k*100), []eff{{"x", B("+", x, K(k*100))}}
	}
	loopFill := func(v string) (string, []eff) {
		return "x += " + v, []eff{{"x", B("+", x, V(v))}}
	}
	all := compounds(fill, loopFill, "s", E, "a")
	keep := map[string]bool{"if": true, "else": true, "for3": true, "range-iv": true, "range-v": true, "switch-tag": true, "for-inf": true}
	if thorough {
		keep["switch-fall"], keep["for-cond"], keep["else-if"], keep["switch-cond"] = true, true, true, true
	}
	for _, c := range all {
		if keep[c.kind] {
			fr.comps = append(fr.comps, c)
		}
	}
	return fr
}

// ---- frame S: strings and byte slices ----------------------------------------------------------

const preludeS = `
type Rec struct {
	N int
	T string
	B []byte
	K bool
}
`

func frameS(thorough bool) *frame {
	n := V("n")
	fr := &frame{
		name: "S", params: []Ty{TStr, TInt}, pnames: []string{"s", "a"}, results: []Ty{TRec},
		head:    "\tn, t, k := 0, s, false\n\tbs := []byte(\"xyz\")\n",
		tail:    "\treturn Rec{n, t, bs, k}\n",
		env:     map[string]iv{"a": ivK(-2, 7), "n": ivK(0, 0)},
		prelude: preludeS,
	}
	as := func(kind, text string, effs ...eff) *atom { return &atom{kind: kind, text: text, effs: effs} }
	fr.atoms = []*atom{
		as("concat", `t += "b"`),
		as("concat", "t = s + t"),
		as("str-index", "n += int(t[a])", eff{"n", B("+", n, Bound("t[a]", 0, 255))}),
		as("substr-from", "t = t[a:]"),
		as("substr-to", "t = t[:a]"),
		as("str-eq", `k = t == "ab"`),
		as("str-len", "n += len(t)", eff{"n", B("+", n, Bound("len(t)", 0, 100000))}),
		as("to-bytes", "bs = []byte(t)"),
		as("from-bytes", "t = string(bs)"),
		as("byte-set", "bs[a] = 'q'"),
		{kind: "break", text: "break", needs: "breakable", ends: true},
		{kind: "continue", text: "continue", needs: "loop", ends: true},
	}
	if thorough {
		fr.atoms = append(fr.atoms,
			as("substr-both", "t = t[1:a]"),
			as("str-eq/ne", `k = s != t || k`),
			as("byte-append", "bs = append(bs, byte(a&15+65))"),
			as("byte-copy", "n += copy(bs, []byte(t))", eff{"n", B("+", n, Bound("copy", 0, 100000))}),
			as("byte-get", "n += int(bs[a])", eff{"n", B("+", n, Bound("bs[a]", 0, 255))}),
			as("bytes-sub", "bs = bs[1:]"),
			as("range-str", "for i, c := range t {\n\t\tn += i*3 + int(c)\n\t}", eff{"n", B("+", n, Bound("rs", 0, 100000000))}),
			as("range-bytes", "for _, c := range bs {\n\t\tn += int(c)\n\t}", eff{"n", B("+", n, Bound("rb", 0, 100000000))}),
			as("str-eq/switch", "switch t {\n\tcase \"\":\n\t\tn += 1\n\tcase \"a\", \"ab\":\n\t\tn += 2\n\tdefault:\n\t\tn += 3\n\t}", eff{"n", B("+", n, K(3))}),
		)
	}
	fr.conds = []cond{{text: `s == "a"`}, {text: "len(t) > a"}}
	fill := func(k int64) (string, []eff) {
		return fmt.Sprintf("n += %d", k*1000), []eff{{"n", B("+", n, K(k*1000))}}
	}
	loopFill := func(v string) (string, []eff) {
		return "n += " + v, []eff{{"n", B("+", n, V(v))}}
	}
	all := compounds(fill, loopFill, "bs", Bound("", 0, 255), "a")
	keep := map[string]bool{"if": true, "else": true, "for3": true, "range-v": true, "switch-tag": true}
	if thorough {
		keep["for-cond"], keep["if-else"], keep["range-iv"] = true, true, true
	}
	for _, c := range all {
		if keep[c.kind] {
			c2 := *c
			if c.kind == "range-v" || c.kind == "range-iv" {
				// elements are bytes: convert in the filler
				rv := c.render
				c2.render = func(id int, l, cnd, b string) string {
					return strings.ReplaceAll(rv(id, l, cnd, b), fmt.Sprintf("n += rv%d", id), fmt.Sprintf("n += int(rv%d)", id))
				}
			}
			fr.comps = append(fr.comps, &c2)
		}
	}
	return fr
}

// ---- frame X: expressions ---------------------------------------------------------------------

// exprFns enumerates integer expressions of depth <= 2 over {a, b, constants}
// with all binary operators (shift counts masked to [0,3]), and every
// comparison of two such operands as an if condition, a returned bool, a loop
// condition and a switch case.
func exprFns(thorough bool, emit func(Fn)) {
	env := map[string]iv{"a": ivK(-2, 7), "b": ivK(-2, 7)}
	leaves := []*ie{V("a"), V("b"), K(3), K(-5)}
	ops := []string{"+", "-", "*", "/", "%", "&", "|", "^", "<<", ">>"}
	// A non-constant shift whose left operand is an untyped constant takes its
	// type from the context; inside another shift's count that context is
	// unsigned and Go rejects a negative constant there. Such counts are skipped.
	constShift := func(e *ie) bool {
		if _, isConst := e.konst(); isConst {
			return false // a constant shift is a constant: no typing problem
		}
		return (e.op == "<<" || e.op == ">>") && e.l.op == "k"
	}
	mk := func(op string, l, r *ie) *ie {
		if op == "<<" || op == ">>" {
			if constShift(r) {
				return nil
			}
			return B(op, l, B("&", r, K(3)))
		}
		if op == "/" || op == "%" {
			// a constant zero divisor is a compile-time error in Go
			if x, ok := r.eval(env); ok && x.lo.Sign() == 0 && x.hi.Sign() == 0 {
				return nil
			}
			if k, ok := r.konst(); ok && k.Sign() == 0 {
				return nil
			}
		}
		return B(op, l, r)
	}
	var d1 []*ie
	for _, op := range ops {
		for _, l := range leaves {
			for _, r := range leaves {
				if e := mk(op, l, r); e != nil {
					d1 = append(d1, e)
				}
			}
		}
	}
	for _, l := range leaves[:2] {
		d1 = append(d1, U("neg", l), U("inv", l))
	}
	n := 0
	var opsOf func(e *ie, acc map[string]bool)
	opsOf = func(e *ie, acc map[string]bool) {
		if e == nil || e.op == "k" || e.op == "v" || e.op == "bound" {
			return
		}
		acc["op:"+e.op] = true
		opsOf(e.l, acc)
		opsOf(e.r, acc)
	}
	add := func(feature string, params []Ty, results []Ty, body string, checks ...*ie) {
		for _, c := range checks {
			if _, ok := c.eval(env); !ok {
				return
			}
		}
		n++
		name := fmt.Sprintf("X%d", n)
		ps := "a int, b int"
		// paths (root-cause dedupe): the operators of an expression; the comparison
		// operator and its syntactic position ("cmp-if:<="); the position of a boolean form
		paths := []string{feature}
		if len(checks) > 0 {
			acc := map[string]bool{}
			for _, c := range checks {
				opsOf(c, acc)
			}
			paths = nil
			for _, o := range []string{"+", "-", "*", "/", "%", "&", "|", "^", "<<", ">>", "neg", "inv"} {
				if acc["op:"+o] {
					paths = append(paths, "op:"+o)
				}
			}
		}
		emit(Fn{Name: name, Params: params, Results: results, Feature: "X", Paths: paths,
			Src: fmt.Sprintf("func %s(%s) %s {\n%s}\n", name, ps, results[0], body)})
	}
	ii := []Ty{TInt, TInt}
	for _, e := range d1 {
		add("expr1", ii, []Ty{TInt}, "\treturn "+e.String()+"\n", e)
	}
	// depth 2: operator applied to a depth-1 expression and a leaf, both orders
	d1sel := d1
	for _, op := range ops {
		for _, e := range d1sel {
			for _, l := range leaves {
				if !thorough && (l.op == "k" || e.l == nil || e.l.op == "k" || (e.r != nil && e.r.op == "k")) {
					continue // quick: depth 2 only over variables
				}
				if x := mk(op, e, l); x != nil {
					add("expr2", ii, []Ty{TInt}, "\treturn "+x.String()+"\n", x)
				}
				if thorough {
					if y := mk(op, l, e); y != nil {
						add("expr2", ii, []Ty{TInt}, "\treturn "+y.String()+"\n", y)
					}
				}
			}
		}
	}
	// comparisons in four syntactic positions
	cmps := []string{"<", "<=", ">", ">=", "==", "!="}
	opsC := []*ie{V("a"), V("b"), K(1), B("-", V("a"), V("b")), B("*", V("b"), K(2))}
	for _, c := range cmps {
		for _, l := range opsC {
			for _, r := range opsC {
				if l == r {
					continue
				}
				ct := l.String() + " " + c + " " + r.String()
				add("cmp-ret:"+c, ii, []Ty{TBool}, "\treturn "+ct+"\n")
				add("cmp-if:"+c, ii, []Ty{TInt}, "\tif "+ct+" {\n\t\treturn 1\n\t}\n\treturn 2\n")
				add("cmp-not:"+c, ii, []Ty{TInt}, "\tif !("+ct+") {\n\t\treturn 1\n\t} else {\n\t\treturn 2\n\t}\n")
				add("cmp-for:"+c, ii, []Ty{TInt}, "\tn := 0\n\tfor i := 0; i < 3 && "+ct+"; i++ {\n\t\tn += i + 1\n\t}\n\treturn n\n")
				add("cmp-switch:"+c, ii, []Ty{TInt}, "\tswitch {\n\tcase "+ct+":\n\t\treturn 1\n\t}\n\treturn 2\n")
				add("cmp-var:"+c, ii, []Ty{TInt}, "\tk := "+ct+"\n\tif k {\n\t\treturn 1\n\t}\n\treturn 2\n")
			}
		}
	}
	// boolean structure over three comparisons
	atoms := []string{"a < b", "a == 1", "b >= 0"}
	var forms []string
	for _, o1 := range []string{"&&", "||"} {
		for _, o2 := range []string{"&&", "||"} {
			for n1 := 0; n1 < 2; n1++ {
				for n2 := 0; n2 < 2; n2++ {
					x, y := atoms[0], atoms[1]
					if n1 == 1 {
						x = "!(" + x + ")"
					}
					if n2 == 1 {
						y = "!(" + y + ")"
					}
					forms = append(forms, x+" "+o1+" "+y+" "+o2+" "+atoms[2])
					forms = append(forms, x+" "+o1+" ("+y+" "+o2+" "+atoms[2]+")")
					forms = append(forms, "!("+x+" "+o1+" "+y+") "+o2+" "+atoms[2])
				}
			}
		}
	}
	for _, f := range forms {
		add("bool-ret", ii, []Ty{TBool}, "\treturn "+f+"\n")
		add("bool-if", ii, []Ty{TInt}, "\tif "+f+" {\n\t\treturn 1\n\t}\n\treturn 2\n")
		add("bool-for", ii, []Ty{TInt}, "\tn := 0\n\tfor i := 0; i < 2; i++ {\n\t\tif "+f+" {\n\t\t\tcontinue\n\t\t}\n\t\tn += i + 1\n\t}\n\treturn n\n")
	}
}
