// Reference side for programs that need a file of their own (the frame of
// _initialize belongs to the program): linking one reference binary per program
// is what such a program costs, so a group of them is built as ONE binary. Every
// program becomes a package p<i> of one module (its own packages move below it:
// "x/lib" -> "x/p<i>/lib", the inlined module's "h" -> ".../p<i>/h"), its driver
// is part of the package, and a small main dispatches on the first argument.
// Each call of the binary still runs exactly one program's driver; the other
// programs' packages are initialised too, which they cannot notice (no shared
// package, no shared state). The outcomes are put into refCache, where goSide
// finds them; everything else (neo-go compilation, VM runs, comparison,
// confirmation and replay of a failure with a binary of its own) is unchanged. If
// the group cannot be built, nothing is cached and every program is built alone.
package c14

import (
	"bytes"
	"context"
	"crypto/sha256"
	"encoding/hex"
	"fmt"
	"os"
	"os/exec"
	"path/filepath"
	"regexp"
	"sort"
	"strconv"
	"strings"
	"sync"
	"time"

	"verif/lib/vk"
)

var refCache sync.Map // progKey -> [][]string

var nGroupBuilds, nGroupedProgs, nGroupFallbacks vk.Counter

// progKey identifies what the reference side of p computes.
func progKey(p *Prog) string {
	h := sha256.New()
	h.Write([]byte(p.Source()))
	var ks []string
	for k := range p.Extra {
		ks = append(ks, k)
	}
	sort.Strings(ks)
	for _, k := range ks {
		fmt.Fprintf(h, "\x00%s\x00%s", k, p.Extra[k])
	}
	fmt.Fprintf(h, "\x00%v", p.Deploy)
	for i := range p.Fns {
		f := &p.Fns[i]
		fmt.Fprintf(h, "\x00%s|%v|%v|%v|%v", f.Name, f.Params, f.Results, f.Stateful, f.Args)
	}
	return hex.EncodeToString(h.Sum(nil))
}

var reImportLine = regexp.MustCompile(`(?m)^(\s*(?:import\s+)?(?:\w+\s+)?")(x|` + regexp.QuoteMeta(inlineModule) + `)/([^"\n]*"\s*)$`)

// regroup rewrites one source file of program i for the group module.
func regroup(src string, i int, top bool) string {
	src = reImportLine.ReplaceAllString(src, fmt.Sprintf("${1}${2}/p%d/${3}", i))
	if top {
		src = strings.Replace(src, "package main\n", fmt.Sprintf("package p%d\n", i), 1)
	}
	return src
}

// goSideGroup builds the programs as one reference binary, runs every program
// and stores the outcomes in refCache.
func goSideGroup(progs []*Prog) error {
	setupEnv()
	dir, cleanup := vk.Scratch("c14g")
	defer cleanup()
	files := map[string]string{}
	inl := false
	var mainSrc strings.Builder
	mainSrc.WriteString("package main\n\nimport (\n\t\"os\"\n")
	for i := range progs {
		fmt.Fprintf(&mainSrc, "\tp%d \"x/p%d\"\n", i, i)
	}
	mainSrc.WriteString(")\n\nfunc main() {\n\tswitch os.Args[1] {\n")
	for i, p := range progs {
		fmt.Fprintf(&mainSrc, "\tcase \"%d\":\n\t\tp%d.Main()\n", i, i)
		base := fmt.Sprintf("p%d/", i)
		files[base+"prog.go"] = regroup(p.Source(), i, true)
		for k, v := range p.Extra {
			switch {
			case strings.HasPrefix(k, "inl/"):
				inl = true
				files[fmt.Sprintf("inl/p%d/%s", i, strings.TrimPrefix(k, "inl/"))] = regroup(v, i, false)
			default:
				files[base+k] = regroup(v, i, !strings.Contains(k, "/"))
			}
		}
		// the driver: part of the package, reads its arguments one position later
		drv := driver(p)
		drv = strings.Replace(drv, "func main() {", "func Main() {", 1)
		drv = strings.Replace(drv, "len(os.Args) == 3", "len(os.Args) == 4", 1)
		drv = strings.Replace(drv, "os.Args[2]", "os.Args[3]", 1)
		drv = strings.Replace(drv, "os.Args[1]", "os.Args[2]", 1)
		files[base+"main.go"] = regroup(drv, i, true)
		if p.Deploy {
			tmp, tclean := vk.Scratch("c14gd")
			err := writeDeployRef(tmp, p)
			if err == nil {
				err = filepath.Walk(tmp, func(path string, info os.FileInfo, err error) error {
					if err != nil || info.IsDir() {
						return err
					}
					b, err := os.ReadFile(path)
					if err != nil {
						return err
					}
					rel, _ := filepath.Rel(tmp, path)
					files[base+filepath.ToSlash(rel)] = regroup(string(b), i, false)
					return nil
				})
			}
			tclean()
			if err != nil {
				return err
			}
		}
	}
	mainSrc.WriteString("\t}\n}\n")
	files["main.go"] = mainSrc.String()
	mod := "module x\n\ngo 1.25\n"
	if inl {
		mod += "\nrequire " + inlineModule + " v0.0.0\n\nreplace " + inlineModule + " => ./inl\n"
		files["inl/go.mod"] = "module " + inlineModule + "\n\ngo 1.25\n"
	}
	files["go.mod"] = mod
	for k, v := range files {
		f := filepath.Join(dir, filepath.FromSlash(k))
		if err := os.MkdirAll(filepath.Dir(f), 0o755); err != nil {
			return err
		}
		if err := os.WriteFile(f, []byte(v), 0o644); err != nil {
			return err
		}
	}
	ctx, cancel := context.WithTimeout(context.Background(), 5*time.Minute)
	defer cancel()
	cmd := exec.CommandContext(ctx, "go", "build", "-tags", "c14ref", "-gcflags=x/...=-N -l", "-gcflags="+inlineModule+"/...=-N -l", "-o", "prog.bin", ".")
	cmd.Dir = dir
	cmd.Env = append(os.Environ(), "GOMAXPROCS=4")
	tb := time.Now()
	out, err := cmd.CombinedOutput()
	tGoBuild.Add(int(time.Since(tb).Milliseconds()))
	tGo.Add(int(time.Since(tb).Milliseconds()))
	if err != nil {
		return fmt.Errorf("go build of a group: %v\n%s", err, trunc(string(out), 2000))
	}
	nGroupBuilds.Inc()
	t0 := time.Now()
	defer func() { tGo.Add(int(time.Since(t0).Milliseconds())) }()
	for i, p := range progs {
		run := func(args ...string) ([]byte, error) {
			ctx, cancel := context.WithTimeout(context.Background(), 2*time.Minute)
			defer cancel()
			c := exec.CommandContext(ctx, filepath.Join(dir, "prog.bin"), append([]string{strconv.Itoa(i)}, args...)...)
			c.Dir = dir
			var stderr bytes.Buffer
			c.Stderr = &stderr
			out, err := c.Output()
			if err != nil {
				return out, fmt.Errorf("reference run %d %v: %v\n%s", i, args, err, trunc(stderr.String(), 2000))
			}
			return out, nil
		}
		res, err := collectRef(p, run)
		if err != nil {
			continue // this program is built alone later, which reports what is wrong with it
		}
		refCache.Store(progKey(p), res)
		nGroupedProgs.Inc()
	}
	return nil
}

// runGroup evaluates a group of programs that each need a file of their own.
func (ck *checker) runGroup(b *batch) {
	var progs []*Prog
	for _, u := range b.units {
		sub := &batch{name: "shape:" + u.shape.Family + "/" + u.shape.Tag, units: []*unit{u}}
		if p, err := sub.prog(sub.units); err == nil {
			progs = append(progs, p)
		}
	}
	if len(progs) > 1 && !ck.r.Expired() {
		if err := goSideGroup(progs); err != nil {
			nGroupFallbacks.Inc()
			if os.Getenv("C14_DEBUG") != "" {
				fmt.Println("DEBUG group fallback:", err)
			}
		}
	}
	for _, u := range b.units {
		sub := &batch{name: "shape:" + u.shape.Family + "/" + u.shape.Tag, units: []*unit{u}}
		ck.runUnits(sub, sub.units)
	}
	for _, p := range progs {
		refCache.Delete(progKey(p))
	}
}
