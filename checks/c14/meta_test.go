// Program-level part of the manifest / debug-info oracle of C14 ("the emitted
// manifest and debug information name the same methods, offsets and parameter
// counts that the bytecode implements"): metaCheck (run_test.go) looks at one
// function under test; metaProg looks at the whole contract.
package c14

import (
	"fmt"
	"go/ast"
	"go/parser"
	"go/token"
	"sort"
	"strings"
	"unicode"
	"unicode/utf8"

	"github.com/nspcc-dev/neo-go/pkg/smartcontract/manifest"
	"github.com/nspcc-dev/neo-go/pkg/vm/opcode"

	"verif/lib/vk"
)

var nMetaSets, nMetaRanges vk.Counter

// exportedOfMain lists "name/paramcount" (manifest spelling: first letter in
// lower case) of the exported functions of package main, from the source text.
func exportedOfMain(p *Prog) (map[string]bool, error) {
	out := map[string]bool{}
	files := map[string]string{"prog.go": p.Source()}
	for k, v := range p.Extra {
		if !strings.Contains(k, "/") {
			files[k] = v
		}
	}
	for name, src := range files {
		f, err := parser.ParseFile(token.NewFileSet(), name, src, 0)
		if err != nil {
			return nil, err
		}
		for _, d := range f.Decls {
			fd, ok := d.(*ast.FuncDecl)
			if !ok || fd.Recv != nil || !fd.Name.IsExported() {
				continue
			}
			n := 0
			for _, fl := range fd.Type.Params.List {
				n += max(len(fl.Names), 1)
			}
			out[fmt.Sprintf("%s/%d", lowerFirst(fd.Name.Name), n)] = true
		}
	}
	return out, nil
}

// lowerFirst is the manifest spelling of a Go function name: the first letter
// (whatever its width in UTF-8) in lower case, the rest unchanged.
func lowerFirst(name string) string {
	r, sz := utf8.DecodeRuneInString(name)
	return string(unicode.ToLower(r)) + name[sz:]
}

// metaProg returns the disagreements between the manifest / debug information
// of the whole contract and its source and bytecode.
func (c *compiled) metaProg(p *Prog) []string {
	var bad []string
	want, err := exportedOfMain(p)
	if err != nil {
		return nil
	}
	nMetaSets.Inc()
	got := map[string]bool{}
	for i := range c.mf.ABI.Methods {
		m := &c.mf.ABI.Methods[i]
		if m.Name == manifest.MethodInit || m.Name == manifest.MethodDeploy {
			continue
		}
		k := fmt.Sprintf("%s/%d", m.Name, len(m.Parameters))
		if !utf8.ValidString(m.Name) {
			bad = append(bad, fmt.Sprintf("manifest method name %q is not valid UTF-8", m.Name))
		}
		if got[k] {
			bad = append(bad, "manifest lists method "+k+" twice")
		}
		got[k] = true
		if !want[k] {
			bad = append(bad, "manifest lists method "+k+" which is not an exported function of package main")
		}
	}
	var missing []string
	for k := range want {
		if !got[k] {
			missing = append(missing, k)
		}
	}
	sort.Strings(missing)
	if len(missing) > 0 {
		bad = append(bad, "manifest lacks the exported function "+missing[0])
	}
	// debug information: ranges lie on instruction boundaries, do not overlap, and
	// the code at a range start takes as many arguments as the entry declares
	starts := map[int]opcode.Opcode{}
	args := map[int]int{}
	forEachInstr(c.script, func(ip int, op opcode.Opcode, param []byte) {
		starts[ip] = op
		if op == opcode.INITSLOT && len(param) == 2 {
			args[ip] = int(param[1])
		}
	})
	type rg struct {
		s, e int
		id   string
	}
	var rs []rg
	for i := range c.di.Methods {
		m := &c.di.Methods[i]
		nMetaRanges.Inc()
		if m.ID != manifest.MethodInit && m.ID != manifest.MethodDeploy && m.Name.Name != lowerFirst(m.ID) {
			bad = append(bad, fmt.Sprintf("debug info names method %s %q, want %q", m.ID, m.Name.Name, lowerFirst(m.ID)))
		}
		s, e := int(m.Range.Start), int(m.Range.End)
		if s > e || e >= len(c.script) {
			bad = append(bad, fmt.Sprintf("debug info range of %s is %d..%d in a script of %d bytes", m.ID, s, e, len(c.script)))
			continue
		}
		rs = append(rs, rg{s, e, m.ID})
		op, ok := starts[s]
		if !ok {
			bad = append(bad, fmt.Sprintf("debug info range of %s starts inside an instruction", m.ID))
			continue
		}
		if _, ok := starts[e]; !ok {
			bad = append(bad, fmt.Sprintf("debug info range of %s ends inside an instruction", m.ID))
		}
		if m.ID == manifest.MethodInit || m.ID == manifest.MethodDeploy {
			// the two special methods: listed in the manifest at the offset the debug
			// information gives; _deploy takes (data, isUpdate)
			want := 0
			if m.ID == manifest.MethodDeploy {
				want = 2
				if op != opcode.INITSLOT || args[s] != 2 {
					bad = append(bad, fmt.Sprintf("code of _deploy starts with %s taking %d arguments instead of 2", op, args[s]))
				}
			} else if s != 0 {
				bad = append(bad, fmt.Sprintf("_initialize starts at %d", s))
			}
			if mm := c.mf.ABI.GetMethod(m.ID, want); mm == nil {
				bad = append(bad, fmt.Sprintf("manifest has no method %s/%d", m.ID, want))
			} else if mm.Offset != s {
				bad = append(bad, fmt.Sprintf("manifest offset of %s is %d, debug info start %d", m.ID, mm.Offset, s))
			}
			continue
		}
		n := len(m.Parameters)
		if !m.IsFunction {
			n++ // the receiver
		}
		if op == opcode.INITSLOT {
			if args[s] != n {
				bad = append(bad, fmt.Sprintf("code of %s takes %d arguments (INITSLOT), debug info declares %d", m.ID, args[s], n))
			}
		} else if n != 0 {
			bad = append(bad, fmt.Sprintf("code of %s starts with %s, debug info declares %d arguments", m.ID, op, n))
		}
	}
	if dm, dd := p.deployPackages(); (dm || len(dd) > 0) && c.byID[manifest.MethodDeploy] == nil {
		bad = append(bad, "the program declares _deploy, debug info has no _deploy method")
	}
	sort.Slice(rs, func(i, j int) bool { return rs[i].s < rs[j].s })
	for i := 1; i < len(rs); i++ {
		if rs[i].s <= rs[i-1].e {
			bad = append(bad, fmt.Sprintf("debug info ranges of %s and %s overlap", rs[i-1].id, rs[i].id))
			break
		}
	}
	return bad
}
