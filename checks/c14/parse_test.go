package c14

import (
	"bytes"
	"fmt"
	"go/ast"
	"go/parser"
	"go/printer"
	"go/token"
	"sort"
	"strings"
)

// progFromSource turns a complete source text (without package clause) into a
// Prog: every exported top-level function whose parameter types have argument
// domains and whose result types have encoders becomes a function under test.
// A line comment "//c14:args a,b;c,d" directly above a function restricts its
// argument tuples; "//c14:stateful" makes every call run in a fresh process.
func progFromSource(feature, src string) (*Prog, error) {
	src, extra := splitExtra(src)
	p, err := progFromMain(feature, src)
	if err == nil {
		p.Extra = extra
		dmain, ddirs := p.deployPackages()
		p.Deploy = dmain || len(ddirs) > 0
	}
	return p, err
}

// splitExtra separates the sections "//c14:file <path>" ... (further files of
// the program, see Prog.Extra) from the text of prog.go ("//c14:main" switches
// back to it).
func splitExtra(src string) (string, map[string]string) {
	if !strings.Contains(src, "//c14:file ") {
		return src, nil
	}
	extra := map[string]string{}
	var main strings.Builder
	cur := ""
	for _, l := range strings.SplitAfter(src, "\n") {
		t := strings.TrimSpace(l)
		switch {
		case strings.HasPrefix(t, "//c14:file "):
			cur = strings.TrimSpace(strings.TrimPrefix(t, "//c14:file "))
		case t == "//c14:main":
			cur = ""
		case cur == "":
			main.WriteString(l)
		default:
			extra[cur] += l
		}
	}
	return main.String(), extra
}

// joinExtra is the inverse of splitExtra (sections in sorted order).
func joinExtra(main string, extra map[string]string) string {
	if len(extra) == 0 {
		return main
	}
	var ks []string
	for k := range extra {
		ks = append(ks, k)
	}
	sort.Strings(ks)
	var b strings.Builder
	for _, k := range ks {
		b.WriteString("//c14:file " + k + "\n" + strings.TrimRight(extra[k], "\n") + "\n")
	}
	b.WriteString("//c14:main\n")
	b.WriteString(main)
	return b.String()
}

func progFromMain(feature, src string) (*Prog, error) {
	fset := token.NewFileSet()
	file, err := parser.ParseFile(fset, "prog.go", "package main\n\n"+src, parser.ParseComments)
	if err != nil {
		return nil, err
	}
	p := &Prog{Prelude: src}
	known := map[string]Ty{}
	for _, t := range []Ty{TInt, TBool, TStr, TBytes, TInts, TStrs, TBools, TMapII, TMapSI, TPair, TPPair, TRec} {
		known[string(t)] = t
	}
	typeOf := func(e ast.Expr) (Ty, bool) {
		var b bytes.Buffer
		printer.Fprint(&b, fset, e)
		t, ok := known[b.String()]
		return t, ok
	}
	for _, d := range file.Decls {
		fd, ok := d.(*ast.FuncDecl)
		if !ok || fd.Recv != nil || !fd.Name.IsExported() {
			continue
		}
		f := Fn{Name: fd.Name.Name, Feature: feature}
		good := true
		if fd.Doc != nil {
			skip := false
			for _, c := range fd.Doc.List {
				// exported, but not driven (a signature without argument domain); the manifest oracle still sees it
				if strings.TrimSpace(strings.TrimPrefix(c.Text, "//")) == "c14:skip" {
					skip = true
				}
			}
			if skip {
				continue
			}
		}
		for _, fl := range fd.Type.Params.List {
			t, ok := typeOf(fl.Type)
			if !ok || (t != TInt && t != TBool && t != TStr) {
				good = false
				break
			}
			n := len(fl.Names)
			if n == 0 {
				n = 1
			}
			for i := 0; i < n; i++ {
				f.Params = append(f.Params, t)
			}
		}
		if fd.Type.Results != nil {
			for _, fl := range fd.Type.Results.List {
				t, ok := typeOf(fl.Type)
				if !ok {
					good = false
					break
				}
				n := len(fl.Names)
				if n == 0 {
					n = 1
				}
				for i := 0; i < n; i++ {
					f.Results = append(f.Results, t)
				}
			}
		}
		if !good {
			return nil, fmt.Errorf("exported function %s has a signature the harness cannot drive", f.Name)
		}
		if fd.Doc != nil {
			for _, c := range fd.Doc.List {
				txt := strings.TrimSpace(strings.TrimPrefix(c.Text, "//"))
				if strings.HasPrefix(txt, "c14:args ") {
					f.Args = strings.Split(strings.TrimSpace(strings.TrimPrefix(txt, "c14:args ")), ";")
				}
				if txt == "c14:stateful" {
					f.Stateful = true
				}
			}
		}
		p.Fns = append(p.Fns, f)
	}
	if len(p.Fns) == 0 {
		return nil, fmt.Errorf("no exported function")
	}
	return p, nil
}

// pruneDecls drops the top-level declarations of src that no exported function
// reaches (shape templates share a prelude most variants use only partly).
func pruneDecls(src string) string {
	main, extra := splitExtra(src)
	return joinExtra(pruneMain(main), extra)
}

func pruneMain(src string) string {
	fset := token.NewFileSet()
	file, err := parser.ParseFile(fset, "prog.go", "package main\n\n"+src, parser.ParseComments)
	if err != nil {
		return src
	}
	type decl struct {
		names []string
		node  ast.Decl
		keep  bool
	}
	var decls []*decl
	byName := map[string]*decl{}
	for _, d := range file.Decls {
		dd := &decl{node: d}
		switch x := d.(type) {
		case *ast.FuncDecl:
			if x.Recv != nil {
				// a method stays with its receiver type
				var b bytes.Buffer
				printer.Fprint(&b, fset, x.Recv.List[0].Type)
				dd.names = []string{"method:" + strings.TrimPrefix(b.String(), "*") + "." + x.Name.Name}
			} else {
				dd.names = []string{x.Name.Name}
				if x.Name.IsExported() || x.Name.Name == "init" || x.Name.Name == "_deploy" {
					dd.keep = true
				}
			}
		case *ast.GenDecl:
			if x.Tok == token.IMPORT {
				dd.keep = true // (an import left without use makes the pruned text invalid: the caller falls back to the full text)
			}
			for _, sp := range x.Specs {
				switch s := sp.(type) {
				case *ast.ValueSpec:
					for _, n := range s.Names {
						dd.names = append(dd.names, n.Name)
					}
				case *ast.TypeSpec:
					dd.names = append(dd.names, s.Name.Name)
				}
			}
		}
		decls = append(decls, dd)
		for _, n := range dd.names {
			byName[n] = dd
		}
	}
	for changed := true; changed; {
		changed = false
		for _, d := range decls {
			if !d.keep {
				continue
			}
			ast.Inspect(d.node, func(n ast.Node) bool {
				id, ok := n.(*ast.Ident)
				if !ok {
					return true
				}
				if o, ok := byName[id.Name]; ok && !o.keep {
					o.keep = true
					changed = true
				}
				return true
			})
		}
		// methods of kept types are kept
		for _, d := range decls {
			if d.keep || len(d.names) != 1 || !strings.HasPrefix(d.names[0], "method:") {
				continue
			}
			tn := strings.TrimPrefix(d.names[0], "method:")
			tn = tn[:strings.Index(tn, ".")]
			if o, ok := byName[tn]; ok && o.keep {
				d.keep = true
				changed = true
			}
		}
	}
	// an import none of the kept declarations uses is dropped
	for _, d := range decls {
		gd, ok := d.node.(*ast.GenDecl)
		if !ok || gd.Tok != token.IMPORT || len(gd.Specs) != 1 {
			continue
		}
		is := gd.Specs[0].(*ast.ImportSpec)
		name := strings.Trim(is.Path.Value, `"`)
		name = name[strings.LastIndex(name, "/")+1:]
		if is.Name != nil {
			name = is.Name.Name
		}
		used := false
		for _, o := range decls {
			if o == d || !o.keep {
				continue
			}
			ast.Inspect(o.node, func(n ast.Node) bool {
				if se, ok := n.(*ast.SelectorExpr); ok {
					if id, ok := se.X.(*ast.Ident); ok && id.Name == name {
						used = true
					}
				}
				return !used
			})
		}
		d.keep = used
	}
	var b strings.Builder
	for _, d := range decls {
		if !d.keep {
			continue
		}
		start := d.node.Pos()
		switch x := d.node.(type) {
		case *ast.FuncDecl:
			if x.Doc != nil {
				start = x.Doc.Pos()
			}
		case *ast.GenDecl:
			if x.Doc != nil {
				start = x.Doc.Pos()
			}
		}
		full := "package main\n\n" + src
		b.WriteString(full[fset.Position(start).Offset:fset.Position(d.node.End()).Offset])
		b.WriteString("\n\n")
	}
	out := strings.TrimRight(b.String(), "\n") + "\n"
	if _, err := parser.ParseFile(token.NewFileSet(), "p.go", "package main\n\n"+out, 0); err != nil {
		return src
	}
	return out
}
