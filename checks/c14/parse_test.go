package c14

import (
	"bytes"
	"fmt"
	"go/ast"
	"go/parser"
	"go/printer"
	"go/token"
	"strings"
)

// progFromSource turns a complete source text (without package clause) into a
// Prog: every exported top-level function whose parameter types have argument
// domains and whose result types have encoders becomes a function under test.
// A line comment "//c14:args a,b;c,d" directly above a function restricts its
// argument tuples; "//c14:stateful" makes every call run in a fresh process.
func progFromSource(feature, src string) (*Prog, error) {
	fset := token.NewFileSet()
	file, err := parser.ParseFile(fset, "prog.go", "package main\n\n"+src, parser.ParseComments)
	if err != nil {
		return nil, err
	}
	p := &Prog{Prelude: src}
	known := map[string]Ty{}
	for _, t := range []Ty{TInt, TBool, TStr, TBytes, TInts, TStrs, TBools, TMapII, TMapSI, TPair, TPPair, TRec} {
		known[string(t)] = t
	}
	typeOf := func(e ast.Expr) (Ty, bool) {
		var b bytes.Buffer
		printer.Fprint(&b, fset, e)
		t, ok := known[b.String()]
		return t, ok
	}
	for _, d := range file.Decls {
		fd, ok := d.(*ast.FuncDecl)
		if !ok || fd.Recv != nil || !fd.Name.IsExported() {
			continue
		}
		f := Fn{Name: fd.Name.Name, Feature: feature}
		good := true
		for _, fl := range fd.Type.Params.List {
			t, ok := typeOf(fl.Type)
			if !ok || (t != TInt && t != TBool && t != TStr) {
				good = false
				break
			}
			n := len(fl.Names)
			if n == 0 {
				n = 1
			}
			for i := 0; i < n; i++ {
				f.Params = append(f.Params, t)
			}
		}
		if fd.Type.Results != nil {
			for _, fl := range fd.Type.Results.List {
				t, ok := typeOf(fl.Type)
				if !ok {
					good = false
					break
				}
				n := len(fl.Names)
				if n == 0 {
					n = 1
				}
				for i := 0; i < n; i++ {
					f.Results = append(f.Results, t)
				}
			}
		}
		if !good {
			return nil, fmt.Errorf("exported function %s has a signature the harness cannot drive", f.Name)
		}
		if fd.Doc != nil {
			for _, c := range fd.Doc.List {
				txt := strings.TrimSpace(strings.TrimPrefix(c.Text, "//"))
				if strings.HasPrefix(txt, "c14:args ") {
					f.Args = strings.Split(strings.TrimSpace(strings.TrimPrefix(txt, "c14:args ")), ";")
				}
				if txt == "c14:stateful" {
					f.Stateful = true
				}
			}
		}
		p.Fns = append(p.Fns, f)
	}
	if len(p.Fns) == 0 {
		return nil, fmt.Errorf("no exported function")
	}
	return p, nil
}

// pruneDecls drops the top-level declarations of src that no exported function
// reaches (shape templates share a prelude most variants use only partly).
func pruneDecls(src string) string {
	fset := token.NewFileSet()
	file, err := parser.ParseFile(fset, "prog.go", "package main\n\n"+src, parser.ParseComments)
	if err != nil {
		return src
	}
	type decl struct {
		names []string
		node  ast.Decl
		keep  bool
	}
	var decls []*decl
	byName := map[string]*decl{}
	for _, d := range file.Decls {
		dd := &decl{node: d}
		switch x := d.(type) {
		case *ast.FuncDecl:
			if x.Recv != nil {
				// a method stays with its receiver type
				var b bytes.Buffer
				printer.Fprint(&b, fset, x.Recv.List[0].Type)
				dd.names = []string{"method:" + strings.TrimPrefix(b.String(), "*") + "." + x.Name.Name}
			} else {
				dd.names = []string{x.Name.Name}
				if x.Name.IsExported() || x.Name.Name == "init" {
					dd.keep = true
				}
			}
		case *ast.GenDecl:
			for _, sp := range x.Specs {
				switch s := sp.(type) {
				case *ast.ValueSpec:
					for _, n := range s.Names {
						dd.names = append(dd.names, n.Name)
					}
				case *ast.TypeSpec:
					dd.names = append(dd.names, s.Name.Name)
				}
			}
		}
		decls = append(decls, dd)
		for _, n := range dd.names {
			byName[n] = dd
		}
	}
	for changed := true; changed; {
		changed = false
		for _, d := range decls {
			if !d.keep {
				continue
			}
			ast.Inspect(d.node, func(n ast.Node) bool {
				id, ok := n.(*ast.Ident)
				if !ok {
					return true
				}
				if o, ok := byName[id.Name]; ok && !o.keep {
					o.keep = true
					changed = true
				}
				return true
			})
		}
		// methods of kept types are kept
		for _, d := range decls {
			if d.keep || len(d.names) != 1 || !strings.HasPrefix(d.names[0], "method:") {
				continue
			}
			tn := strings.TrimPrefix(d.names[0], "method:")
			tn = tn[:strings.Index(tn, ".")]
			if o, ok := byName[tn]; ok && o.keep {
				d.keep = true
				changed = true
			}
		}
	}
	var b strings.Builder
	for _, d := range decls {
		if !d.keep {
			continue
		}
		start := d.node.Pos()
		switch x := d.node.(type) {
		case *ast.FuncDecl:
			if x.Doc != nil {
				start = x.Doc.Pos()
			}
		case *ast.GenDecl:
			if x.Doc != nil {
				start = x.Doc.Pos()
			}
		}
		full := "package main\n\n" + src
		b.WriteString(full[fset.Position(start).Offset:fset.Position(d.node.End()).Offset])
		b.WriteString("\n\n")
	}
	out := strings.TrimRight(b.String(), "\n") + "\n"
	if _, err := parser.ParseFile(token.NewFileSet(), "p.go", "package main\n\n"+out, 0); err != nil {
		return src
	}
	return out
}
