// C14 harness core: one generated Go file is (a) compiled by neo-go's compiler
// and every exported function is run in vm.VM at its debug-info offset, and
// (b) built together with a generated driver by the standard Go toolchain and
// run as a subprocess. Outcomes are compared call by call.
package c14

import (
	"bytes"
	"context"
	"crypto/sha256"
	"encoding/hex"
	"encoding/json"
	"errors"
	"fmt"
	"math/big"
	"os"
	"os/exec"
	"path/filepath"
	"regexp"
	"runtime/debug"
	"sort"
	"strconv"
	"strings"
	"sync"
	"sync/atomic"
	"time"

	"github.com/nspcc-dev/neo-go/pkg/compiler"
	"github.com/nspcc-dev/neo-go/pkg/smartcontract"
	"github.com/nspcc-dev/neo-go/pkg/smartcontract/callflag"
	"github.com/nspcc-dev/neo-go/pkg/smartcontract/manifest"
	"github.com/nspcc-dev/neo-go/pkg/smartcontract/nef"
	"github.com/nspcc-dev/neo-go/pkg/vm"
	"github.com/nspcc-dev/neo-go/pkg/vm/stackitem"
	"github.com/nspcc-dev/neo-go/pkg/vm/vmstate"
)

const goBin = "/root/go/pkg/mod/golang.org/toolchain@v0.0.1-go1.25.0.linux-amd64/bin"

var envOnce sync.Once

// setupEnv makes `go` (used by the neo-go compiler through go/packages and by
// the reference build) the pinned offline toolchain.
func setupEnv() {
	envOnce.Do(func() {
		os.Setenv("PATH", goBin+":"+os.Getenv("PATH"))
		os.Setenv("GOTOOLCHAIN", "local")
		os.Setenv("GOFLAGS", "-mod=mod")
		os.Setenv("GOPROXY", "off")
		os.Setenv("GOSUMDB", "off")
		os.Setenv("GO111MODULE", "on")
		os.Unsetenv("GOWORK")
		if os.Getenv("GOCACHE") == "" {
			os.Setenv("GOCACHE", "/verif/.build/gocache")
		}
	})
}

// ---- types of values crossing the function boundary ---------------------------

// Ty is a parameter or result type of a function under test.
type Ty string

const (
	TInt   Ty = "int"
	TBool  Ty = "bool"
	TStr   Ty = "string"
	TBytes Ty = "[]byte"
	TInts  Ty = "[]int"
	TStrs  Ty = "[]string"
	TBools Ty = "[]bool"
	TMapII Ty = "map[int]int"
	TMapSI Ty = "map[string]int"
	TPair  Ty = "Pair"  // struct{ A, B int } declared in the prelude
	TPPair Ty = "*Pair" // pointer to it
	TRec   Ty = "Rec"   // struct{ N int; T string; B []byte; K bool } declared in the prelude
)

// Fn is one exported function under test inside a program file.
type Fn struct {
	Name     string   `json:"name"`
	Params   []Ty     `json:"params"`
	Results  []Ty     `json:"results"`
	Src      string   `json:"src"`               // full source of the function and of its private helpers
	Feature  string   `json:"feature"`           // short tag used in violation keys
	Stateful bool     `json:"stateful,omitempty"` // mutates package state: every call runs in a fresh process
	Args     []string `json:"args,omitempty"`    // explicit argument tuples (Go literals joined by ","); nil = full product of the domains
	Paths    []string `json:"paths,omitempty"`   // nesting paths of the statement kinds (root-cause dedupe)
}

// Prog is one generated file.
type Prog struct {
	Prelude string `json:"prelude"` // shared declarations (types, globals, helpers)
	Fns     []Fn   `json:"fns"`
	// Extra holds further source files of the program (path relative to the
	// program directory -> content): "lib/x.go" is package x/lib of the same
	// module, "inl/h/h.go" is package h of a nested module whose path starts with
	// the prefix neo-go's compiler inlines calls into (inlinePrefix), "b.go" is a
	// second file of package main (the contract is then compiled as a directory).
	Extra map[string]string `json:"extra,omitempty"`
	// Deploy: the program declares _deploy(data any, isUpdate bool) functions (in
	// package main and/or in packages of module x). Both sides then run them
	// between package initialisation and the function under test: the VM enters
	// the contract's _deploy method (arguments null, false) in the context chain
	// _initialize -> _deploy -> function, the reference driver calls the packages'
	// functions in package initialisation order and main's last (docs/compiler.md:
	// "_deploy() functions are called for every imported package in the same order
	// as init()").
	Deploy bool `json:"deploy,omitempty"`
}

var reDeployFunc = regexp.MustCompile(`(?m)^func _deploy\(`)

// deployPackages lists the directories (relative to the module root, "" = package
// main) of the packages of module x that declare a _deploy function.
func (p *Prog) deployPackages() (main bool, dirs []string) {
	main = reDeployFunc.MatchString(p.Source())
	seen := map[string]bool{}
	for k, v := range p.Extra {
		if !reDeployFunc.MatchString(v) {
			continue
		}
		i := strings.LastIndex(k, "/")
		if i < 0 {
			main = true
			continue
		}
		if d := k[:i]; !seen[d] && !strings.HasPrefix(k, "inl/") {
			seen[d] = true
			dirs = append(dirs, d)
		}
	}
	sort.Strings(dirs)
	return main, dirs
}

var rePkgClause = regexp.MustCompile(`(?m)^package (\w+)`)

// writeDeployRef writes the reference-only files (build tag c14ref, which the
// neo-go compiler does not set) that make the packages' _deploy functions
// callable: every package registers its function when it is initialised.
func writeDeployRef(dir string, p *Prog) error {
	_, dirs := p.deployPackages()
	if len(dirs) == 0 {
		return nil
	}
	if err := os.MkdirAll(filepath.Join(dir, "c14reg"), 0o755); err != nil {
		return err
	}
	reg := "//go:build c14ref\n\npackage c14reg\n\nvar Deploys []func()\n\nfunc Register(f func()) { Deploys = append(Deploys, f) }\n"
	if err := os.WriteFile(filepath.Join(dir, "c14reg", "reg.go"), []byte(reg), 0o644); err != nil {
		return err
	}
	for _, d := range dirs {
		name := ""
		for k, v := range p.Extra {
			if strings.HasPrefix(k, d+"/") && !strings.Contains(k[len(d)+1:], "/") {
				if m := rePkgClause.FindStringSubmatch(v); m != nil {
					name = m[1]
				}
			}
		}
		if name == "" {
			return fmt.Errorf("no package clause in %s", d)
		}
		src := "//go:build c14ref\n\npackage " + name + "\n\nimport \"x/c14reg\"\n\nfunc init() { c14reg.Register(func() { _deploy(nil, false) }) }\n"
		if err := os.MkdirAll(filepath.Join(dir, filepath.FromSlash(d)), 0o755); err != nil {
			return err
		}
		if err := os.WriteFile(filepath.Join(dir, filepath.FromSlash(d), "zz_c14ref.go"), []byte(src), 0o644); err != nil {
			return err
		}
	}
	return nil
}

// inlineModule is the module path of the nested module "inl": canInline() of the
// compiler is true for every function of a package below
// github.com/nspcc-dev/neo-go/pkg/compiler/testdata/inline*, so the helpers of
// this module are inlined at every call site, while the reference toolchain
// treats them as ordinary functions of an ordinary package.
const inlineModule = "github.com/nspcc-dev/neo-go/pkg/compiler/testdata/inlinec14"

// multiFile: package main has more files than prog.go.
func (p *Prog) multiFile() bool {
	for k := range p.Extra {
		if !strings.Contains(k, "/") {
			return true
		}
	}
	return false
}

// writeTree writes go.mod, prog.go and the extra files of p into dir.
func writeTree(dir string, p *Prog) error {
	mod := "module x\n\ngo 1.25\n"
	inl := false
	for k := range p.Extra {
		if strings.HasPrefix(k, "inl/") {
			inl = true
		}
	}
	if inl {
		mod += "\nrequire " + inlineModule + " v0.0.0\n\nreplace " + inlineModule + " => ./inl\n"
		if err := os.MkdirAll(filepath.Join(dir, "inl"), 0o755); err != nil {
			return err
		}
		if err := os.WriteFile(filepath.Join(dir, "inl", "go.mod"), []byte("module "+inlineModule+"\n\ngo 1.25\n"), 0o644); err != nil {
			return err
		}
	}
	if err := os.WriteFile(filepath.Join(dir, "go.mod"), []byte(mod), 0o644); err != nil {
		return err
	}
	for k, v := range p.Extra {
		f := filepath.Join(dir, filepath.FromSlash(k))
		if err := os.MkdirAll(filepath.Dir(f), 0o755); err != nil {
			return err
		}
		if err := os.WriteFile(f, []byte(v), 0o644); err != nil {
			return err
		}
	}
	return os.WriteFile(filepath.Join(dir, "prog.go"), []byte(p.Source()), 0o644)
}

func (p *Prog) Source() string {
	var b strings.Builder
	b.WriteString("package main\n\n")
	b.WriteString(p.Prelude)
	b.WriteString("\n")
	for i := range p.Fns {
		b.WriteString(p.Fns[i].Src)
		b.WriteString("\n")
	}
	return b.String()
}

var intDom = []string{"-2", "-1", "0", "1", "2", "7"}
var strDom = []string{`""`, `"a"`, `"ab"`}
var boolDom = []string{"true", "false"}

func domOf(t Ty) []string {
	switch t {
	case TInt:
		return intDom
	case TStr:
		return strDom
	case TBool:
		return boolDom
	}
	panic("no argument domain for " + string(t))
}

// argTuples returns the argument tuples of f, each a slice of Go literals.
func (f *Fn) argTuples() [][]string {
	if f.Args != nil {
		out := make([][]string, len(f.Args))
		for i, a := range f.Args {
			if a == "" {
				out[i] = []string{}
			} else {
				out[i] = strings.Split(a, ",")
			}
		}
		return out
	}
	out := [][]string{{}}
	for _, p := range f.Params {
		var nx [][]string
		for _, t := range out {
			for _, v := range domOf(p) {
				nx = append(nx, append(append([]string{}, t...), v))
			}
		}
		out = nx
	}
	return out
}

// ---- reference side: go build + run --------------------------------------------

const driverCommon = `package main

import (
	"bufio"
	"fmt"
	"os"
	"sort"
	"strconv"
	"strings"
)

var _ = sort.Ints
var _ = strings.Join

func eInt(v int) string       { return "i:" + strconv.Itoa(v) }
func eBool(v bool) string     { if v { return "b:true" }; return "b:false" }
func eStr(v string) string    { return "s:" + fmt.Sprintf("%x", v) }
func eBytes(v []byte) string  { return "y:" + fmt.Sprintf("%x", v) }
func eInts(v []int) string {
	p := make([]string, len(v))
	for i := range v { p[i] = eInt(v[i]) }
	return "[" + strings.Join(p, " ") + "]"
}
func eStrs(v []string) string {
	p := make([]string, len(v))
	for i := range v { p[i] = eStr(v[i]) }
	return "[" + strings.Join(p, " ") + "]"
}
func eBools(v []bool) string {
	p := make([]string, len(v))
	for i := range v { p[i] = eBool(v[i]) }
	return "[" + strings.Join(p, " ") + "]"
}
func eMapII(m map[int]int) string {
	ks := make([]int, 0, len(m))
	for k := range m { ks = append(ks, k) }
	sort.Ints(ks)
	p := make([]string, len(ks))
	for i, k := range ks { p[i] = eInt(k) + "=" + eInt(m[k]) }
	return "{" + strings.Join(p, " ") + "}"
}
func eMapSI(m map[string]int) string {
	ks := make([]string, 0, len(m))
	for k := range m { ks = append(ks, k) }
	sort.Strings(ks)
	p := make([]string, len(ks))
	for i, k := range ks { p[i] = eStr(k) + "=" + eInt(m[k]) }
	return "{" + strings.Join(p, " ") + "}"
}

var only bool
var onlyF, onlyT int
var out *bufio.Writer

func emit(f int, t int, res string) {
	fmt.Fprintf(out, "%d %d %s\n", f, t, res)
}

func want(f int, t int) bool {
	if only {
		return f == onlyF && t == onlyT
	}
	return !stateful[f]
}

func main() {
	out = bufio.NewWriter(os.Stdout)
	defer out.Flush()
	only = len(os.Args) == 3
	if only {
		onlyF, _ = strconv.Atoi(os.Args[1])
		onlyT, _ = strconv.Atoi(os.Args[2])
	}
	deployAll()
	runAll()
}
`

func encFn(t Ty) string {
	switch t {
	case TInt:
		return "eInt"
	case TBool:
		return "eBool"
	case TStr:
		return "eStr"
	case TBytes:
		return "eBytes"
	case TInts:
		return "eInts"
	case TStrs:
		return "eStrs"
	case TBools:
		return "eBools"
	case TMapII:
		return "eMapII"
	case TMapSI:
		return "eMapSI"
	case TPair:
		return "ePair"
	case TPPair:
		return "ePPair"
	case TRec:
		return "eRec"
	}
	panic("no encoder for " + string(t))
}

// driver generates main.go for p: one wrapper per function, one argument table
// and one panic guard per distinct signature.
func driver(p *Prog) string {
	var b strings.Builder
	common := driverCommon
	dmain, ddirs := p.deployPackages()
	if p.Deploy && len(ddirs) > 0 {
		common = strings.Replace(common, "import (\n", "import (\n\t\"x/c14reg\"\n", 1)
	}
	b.WriteString(common)
	b.WriteString("func deployAll() {\n")
	if p.Deploy {
		if len(ddirs) > 0 {
			b.WriteString("\tfor _, d := range c14reg.Deploys {\n\t\td()\n\t}\n")
		}
		if dmain {
			b.WriteString("\t_deploy(nil, false)\n")
		}
	}
	b.WriteString("}\n\n")
	if strings.Contains(p.Prelude, "type Pair struct") {
		b.WriteString("func ePair(v Pair) string { return \"<\" + eInt(v.A) + \" \" + eInt(v.B) + \">\" }\n")
		b.WriteString("func ePPair(v *Pair) string { if v == nil { return \"nil\" }; return ePair(*v) }\n")
	}
	if strings.Contains(p.Prelude, "type Rec struct") {
		b.WriteString("func eRec(v Rec) string { return \"<\" + eInt(v.N) + \" \" + eStr(v.T) + \" \" + eBytes(v.B) + \" \" + eBool(v.K) + \">\" }\n")
	}
	b.WriteString("var stateful = map[int]bool{")
	for i := range p.Fns {
		if p.Fns[i].Stateful {
			fmt.Fprintf(&b, "%d: true, ", i)
		}
	}
	b.WriteString("}\n\n")
	sigName := map[string]string{}
	var run strings.Builder
	for i := range p.Fns {
		f := &p.Fns[i]
		var ps []string
		for _, t := range f.Params {
			ps = append(ps, string(t))
		}
		sig := strings.Join(ps, ",")
		sn, ok := sigName[sig]
		if !ok {
			sn = fmt.Sprintf("S%d", len(sigName))
			sigName[sig] = sn
			fmt.Fprintf(&b, "type a%s struct {", sn)
			for k, t := range f.Params {
				fmt.Fprintf(&b, " p%d %s;", k, t)
			}
			fmt.Fprintf(&b, " }\n")
			fmt.Fprintf(&b, "func g%s(w func(a%s) string, a a%s) (res string) {\n\tdefer func() {\n\t\tif r := recover(); r != nil {\n\t\t\tres = \"PANIC\"\n\t\t}\n\t}()\n\treturn w(a)\n}\n", sn, sn, sn)
			full := Fn{Params: f.Params}
			fmt.Fprintf(&b, "var t%s = []a%s{", sn, sn)
			for _, tu := range full.argTuples() {
				b.WriteString("{" + strings.Join(tu, ", ") + "}, ")
			}
			b.WriteString("}\n")
		}
		names := make([]string, len(f.Params))
		for k := range f.Params {
			names[k] = fmt.Sprintf("a.p%d", k)
		}
		fmt.Fprintf(&b, "func w%d(a a%s) string { %s }\n", i, sn, callExpr(f, names))
		table := "t" + sn
		if f.Args != nil {
			table = fmt.Sprintf("x%d", i)
			fmt.Fprintf(&b, "var %s = []a%s{", table, sn)
			for _, tu := range f.argTuples() {
				b.WriteString("{" + strings.Join(tu, ", ") + "}, ")
			}
			b.WriteString("}\n")
		}
		fmt.Fprintf(&b, "func r%d() {\n\tfor t, a := range %s {\n\t\tif want(%d, t) {\n\t\t\temit(%d, t, g%s(w%d, a))\n\t\t}\n\t}\n}\n", i, table, i, i, sn, i)
		fmt.Fprintf(&run, "r%d, ", i)
	}
	b.WriteString("\nvar all = []func(){" + run.String() + "}\n\nfunc runAll() {\n\tfor _, r := range all {\n\t\tr()\n\t}\n}\n")
	return b.String()
}

func callExpr(f *Fn, args []string) string {
	c := f.Name + "(" + strings.Join(args, ", ") + ")"
	if len(f.Results) == 0 {
		return c + "; return \"void\""
	}
	rs := make([]string, len(f.Results))
	es := make([]string, len(f.Results))
	for i, t := range f.Results {
		rs[i] = fmt.Sprintf("r%d", i)
		es[i] = fmt.Sprintf("%s(r%d)", encFn(t), i)
	}
	return strings.Join(rs, ", ") + " := " + c + "; return " + strings.Join(es, " + \", \" + ")
}

// goSide builds and runs p in dir and returns outcome[fn][tuple].
func goSide(dir string, p *Prog) ([][]string, error) {
	setupEnv()
	if v, ok := refCache.Load(progKey(p)); ok {
		return v.([][]string), nil // built and run as part of a group (group_test.go)
	}
	if err := writeTree(dir, p); err != nil {
		return nil, err
	}
	drv, buildArgs := driver(p), []string{"build", "-gcflags=-N -l", "-o", "prog.bin", "."}
	if p.multiFile() || p.Deploy {
		// the contract is compiled as a directory: the driver must not be part of it
		drv = "//go:build c14ref\n\n" + drv
		buildArgs = []string{"build", "-tags", "c14ref", "-gcflags=-N -l", "-o", "prog.bin", "."}
	}
	if p.Deploy {
		if err := writeDeployRef(dir, p); err != nil {
			return nil, err
		}
	}
	if err := os.WriteFile(filepath.Join(dir, "main.go"), []byte(drv), 0o644); err != nil {
		return nil, err
	}
	ctx, cancel := context.WithTimeout(context.Background(), 5*time.Minute)
	defer cancel()
	cmd := exec.CommandContext(ctx, "go", buildArgs...)
	cmd.Dir = dir
	cmd.Env = append(os.Environ(), "GOMAXPROCS=4") // many builds run side by side
	tb := time.Now()
	out, err := cmd.CombinedOutput()
	tGoBuild.Add(int(time.Since(tb).Milliseconds()))
	if err != nil {
		return nil, fmt.Errorf("go build: %v\n%s", err, trunc(string(out), 3000))
	}
	run := func(args ...string) ([]byte, error) {
		ctx, cancel := context.WithTimeout(context.Background(), 2*time.Minute)
		defer cancel()
		c := exec.CommandContext(ctx, filepath.Join(dir, "prog.bin"), args...)
		c.Dir = dir
		var stderr bytes.Buffer
		c.Stderr = &stderr
		out, err := c.Output()
		if err != nil {
			return out, fmt.Errorf("reference run %v: %v\n%s", args, err, trunc(stderr.String(), 2000))
		}
		return out, nil
	}
	return collectRef(p, run)
}

// collectRef runs the reference binary of p (all calls at once, then every call
// of a stateful function in a process of its own) and returns outcome[fn][tuple].
func collectRef(p *Prog, run func(args ...string) ([]byte, error)) ([][]string, error) {
	res := make([][]string, len(p.Fns))
	for i := range p.Fns {
		res[i] = make([]string, len(p.Fns[i].argTuples()))
	}
	parse := func(out []byte) error {
		for _, l := range strings.Split(string(out), "\n") {
			if l == "" {
				continue
			}
			f := strings.SplitN(l, " ", 3)
			if len(f) != 3 {
				return fmt.Errorf("bad driver line %q", l)
			}
			fi, _ := strconv.Atoi(f[0])
			ti, _ := strconv.Atoi(f[1])
			if fi >= len(res) || ti >= len(res[fi]) {
				return fmt.Errorf("bad driver index in %q", l)
			}
			res[fi][ti] = f[2]
		}
		return nil
	}
	out, err := run()
	if err != nil {
		return nil, err
	}
	if err := parse(out); err != nil {
		return nil, err
	}
	for i := range p.Fns {
		if !p.Fns[i].Stateful {
			continue
		}
		for t := range res[i] {
			out, err := run(strconv.Itoa(i), strconv.Itoa(t))
			if err != nil {
				return nil, err
			}
			if err := parse(out); err != nil {
				return nil, err
			}
		}
	}
	for i := range res {
		for t := range res[i] {
			if res[i][t] == "" {
				return nil, fmt.Errorf("no reference outcome for %s tuple %d", p.Fns[i].Name, t)
			}
		}
	}
	return res, nil
}

func trunc(s string, n int) string {
	if len(s) > n {
		return s[:n] + "..."
	}
	return s
}

// ---- neo-go side ----------------------------------------------------------------

type compiled struct {
	script  []byte
	di      *compiler.DebugInfo
	mf      *manifest.Manifest
	initOff int
	byID    map[string]*compiler.MethodDebugInfo
}

func neoCompile(dir string, p *Prog) (*compiled, error) {
	setupEnv()
	if err := writeTree(dir, p); err != nil {
		return nil, err
	}
	var (
		nf  []byte
		di  *compiler.DebugInfo
		err error
	)
	func() {
		defer func() {
			if r := recover(); r != nil {
				err = fmt.Errorf("compiler panic: %v", r)
				if os.Getenv("C14_DEBUG") != "" {
					fmt.Printf("DEBUG compiler panic: %v\n%s\n", r, debug.Stack())
				}
			}
		}()
		var f *nef.File
		var d *compiler.DebugInfo
		var e error
		if p.multiFile() {
			f, d, e = compiler.CompileWithOptions(dir, nil, &compiler.Options{Name: "c14"})
		} else {
			f, d, e = compiler.CompileWithOptions(filepath.Join(dir, "prog.go"), strings.NewReader(p.Source()), &compiler.Options{Name: "c14"})
		}
		if e != nil {
			err = e
			return
		}
		nf, di = f.Script, d
	}()
	if err != nil {
		return nil, err
	}
	c := &compiled{script: nf, di: di, initOff: -1, byID: map[string]*compiler.MethodDebugInfo{}}
	for i := range di.Methods {
		m := &di.Methods[i]
		if m.ID == manifest.MethodInit {
			c.initOff = int(m.Range.Start)
		}
		if m.IsFunction || m.ID == manifest.MethodInit {
			// a function of an imported package may have the name of one of package main: main's wins
			if old, dup := c.byID[m.ID]; !dup || (old.Name.Namespace != di.MainPkg && m.Name.Namespace == di.MainPkg) {
				c.byID[m.ID] = m
			}
		}
	}
	mf, err := compiler.CreateManifest(di, &compiler.Options{Name: "c14", NoEventsCheck: true, NoPermissionsCheck: true, NoStandardCheck: true})
	if err != nil {
		return nil, fmt.Errorf("manifest: %w", err)
	}
	c.mf = mf
	return c, nil
}

func scType(t Ty) smartcontract.ParamType {
	switch t {
	case TInt:
		return smartcontract.IntegerType
	case TBool:
		return smartcontract.BoolType
	case TStr:
		return smartcontract.StringType
	case TBytes:
		return smartcontract.ByteArrayType
	case TInts, TStrs, TBools, TPair, TPPair, TRec:
		return smartcontract.ArrayType
	case TMapII, TMapSI:
		return smartcontract.MapType
	}
	return smartcontract.AnyType
}

// metaCheck compares debug info and manifest of f with its Go signature.
// Returns "" or a description of the disagreement.
func (c *compiled) metaCheck(f *Fn) string {
	m := c.byID[f.Name]
	if m == nil {
		return "no debug info method " + f.Name
	}
	if !m.IsExported {
		return "debug info says not exported"
	}
	if len(m.Parameters) != len(f.Params) {
		return fmt.Sprintf("debug info has %d parameters, Go has %d", len(m.Parameters), len(f.Params))
	}
	for i, p := range f.Params {
		if m.Parameters[i].TypeSC != scType(p) {
			return fmt.Sprintf("debug info parameter %d is %s, Go type %s", i, m.Parameters[i].TypeSC, p)
		}
	}
	var want smartcontract.ParamType
	switch len(f.Results) {
	case 0:
		want = smartcontract.VoidType
	case 1:
		want = scType(f.Results[0])
	default:
		want = smartcontract.AnyType
	}
	if m.ReturnTypeSC != want {
		return fmt.Sprintf("debug info return type %s, want %s", m.ReturnTypeSC, want)
	}
	if int(m.Range.Start) >= len(c.script) || int(m.Range.End) >= len(c.script) || m.Range.End < m.Range.Start {
		return fmt.Sprintf("debug info range %d..%d outside script of %d bytes", m.Range.Start, m.Range.End, len(c.script))
	}
	mname := lowerFirst(f.Name)
	if m.Name.Name != mname {
		return fmt.Sprintf("debug info names %s %q, want %q", f.Name, m.Name.Name, mname)
	}
	mm := c.mf.ABI.GetMethod(mname, len(f.Params))
	if mm == nil {
		return fmt.Sprintf("manifest has no method %s/%d", mname, len(f.Params))
	}
	if mm.Offset != int(m.Range.Start) {
		return fmt.Sprintf("manifest offset %d, debug info start %d", mm.Offset, m.Range.Start)
	}
	if mm.ReturnType != want {
		return fmt.Sprintf("manifest return type %s, want %s", mm.ReturnType, want)
	}
	for i, p := range f.Params {
		if mm.Parameters[i].Type != scType(p) {
			return fmt.Sprintf("manifest parameter %d is %s, Go type %s", i, mm.Parameters[i].Type, p)
		}
	}
	return ""
}

func argItem(t Ty, lit string) stackitem.Item {
	switch t {
	case TInt:
		n, err := strconv.ParseInt(lit, 10, 64)
		if err != nil {
			panic(err)
		}
		return stackitem.NewBigInteger(big.NewInt(n))
	case TBool:
		return stackitem.NewBool(lit == "true")
	case TStr:
		s, err := strconv.Unquote(lit)
		if err != nil {
			panic(err)
		}
		return stackitem.NewByteArray([]byte(s))
	}
	panic("no argument item for " + string(t))
}

const gasLimit = 20_0000_0000 // 20 GAS: far above any generated terminating program
const maxSteps = 300_000      // instructions per call; generated programs need a few thousand at most

var (
	int64Min = big.NewInt(0).SetInt64(-1 << 63)
	int64Max = big.NewInt(0).SetUint64(1<<63 - 1)
)

// vmCall runs f with one argument tuple in a fresh VM and returns the outcome
// in the reference encoding ("PANIC" for FAULT) plus a diagnostic.
func (c *compiled) vmCall(f *Fn, tuple []string) (outcome string, diag string) {
	m := c.byID[f.Name]
	if m == nil {
		return "NOMETHOD", ""
	}
	v := vm.New()
	v.SetGasLimit(gasLimit)
	v.LoadScriptWithFlags(c.script, callflag.NoneFlag)
	start := int(m.Range.Start)
	if mm := c.mf.ABI.GetMethod(lowerFirst(f.Name), len(f.Params)); mm != nil && mm.Offset >= 0 && mm.Offset < len(c.script) {
		start = mm.Offset // what a caller of the deployed contract enters (metaCheck demands that both offsets agree)
	}
	v.Context().Jump(start)
	dep := c.byID[manifest.MethodDeploy]
	if dep != nil {
		atomic.AddInt64(&fstats.chains, 1)
		v.Call(int(dep.Range.Start)) // runs after _initialize, before the function (contexts of one script share static slots and the evaluation stack)
	}
	if c.initOff >= 0 {
		v.Call(c.initOff)
	}
	sentinel := stackitem.NewInterop("c14-sentinel") // arithmetic or indexing on it faults: a function must not touch what lies below its arguments
	v.Estack().PushItem(sentinel)
	for i := len(tuple) - 1; i >= 0; i-- {
		v.Estack().PushItem(argItem(f.Params[i], tuple[i]))
	}
	if dep != nil {
		v.Estack().PushItem(stackitem.NewBool(false)) // isUpdate
		v.Estack().PushItem(stackitem.Null{})        // data
	}
	var err error
	big, hang := false, false
	func() {
		defer func() {
			if r := recover(); r != nil {
				err = fmt.Errorf("vm panic: %v", r)
			}
		}()
		// v.Run() without breakpoints is this loop; stepping lets the harness watch
		// every value that reaches the top of the evaluation stack (the property
		// only speaks about runs whose intermediate values fit 64 bits).
		for steps := 0; v.Context() != nil; steps++ {
			if steps > maxSteps {
				hang = true // vm.New() has no price getter, so the gas limit alone would not stop a loop
				return
			}
			if err = v.Step(); err != nil {
				return
			}
			if st := v.Estack(); st.Len() > 0 {
				if bi, ok := st.Peek(0).Item().(*stackitem.BigInteger); ok && bi.Big().BitLen() > 63 {
					if os.Getenv("C14_DEBUG") != "" && !big {
						fmt.Printf("DEBUG big value %s (%d bits) on the stack\n", bi.Big().String(), bi.Big().BitLen())
					}
					big = true
				}
			}
		}
	}()
	if hang {
		return "HANG", fmt.Sprintf("more than %d instructions", maxSteps)
	}
	if big {
		return "BIG", ""
	}
	if err != nil {
		if strings.Contains(err.Error(), "gas limit") || errors.Is(err, vm.ErrGASLimitExceeded) {
			return "HANG", err.Error()
		}
		return "PANIC", err.Error()
	}
	if v.State() != vmstate.Halt {
		return "STATE-" + v.State().String(), ""
	}
	n := v.Estack().Len()
	items := make([]stackitem.Item, n)
	for i := 0; i < n; i++ {
		items[i] = v.Estack().Peek(i).Item() // 0 = top
	}
	want := len(f.Results)
	if n != want+1 || items[n-1] != stackitem.Item(sentinel) {
		var ds []string
		for _, it := range items {
			ds = append(ds, describe(it))
		}
		return fmt.Sprintf("STACK(%d items instead of %d)", n-1, want), "stack top first: " + strings.Join(ds, " | ")
	}
	parts := make([]string, want)
	for i := 0; i < want; i++ {
		s, bad := encItem(f.Results[i], items[i])
		if bad != "" {
			return "TYPE(" + bad + ")", describe(items[i])
		}
		parts[i] = s
	}
	if want == 0 {
		return "void", ""
	}
	return strings.Join(parts, ", "), ""
}

func describe(it stackitem.Item) string {
	if it == nil {
		return "<nil>"
	}
	s := it.String()
	switch it.Type() {
	case stackitem.IntegerT:
		s = it.Value().(*big.Int).String()
	case stackitem.ByteArrayT, stackitem.BufferT:
		b, _ := it.TryBytes()
		s = hex.EncodeToString(b)
	case stackitem.BooleanT:
		s = fmt.Sprint(it.Value())
	}
	return it.Type().String() + ":" + trunc(s, 80)
}

// encItem encodes a VM result as the reference driver encodes the Go value of
// type t; bad != "" if the item cannot be a value of that type.
func encItem(t Ty, it stackitem.Item) (s string, bad string) {
	switch t {
	case TInt:
		if it.Type() != stackitem.IntegerT {
			return "", "int result is " + it.Type().String()
		}
		v := it.Value().(*big.Int)
		if v.Cmp(int64Min) < 0 || v.Cmp(int64Max) > 0 {
			return "", "int result beyond 64 bits"
		}
		return "i:" + v.String(), ""
	case TBool:
		if it.Type() != stackitem.BooleanT {
			return "", "bool result is " + it.Type().String()
		}
		if it.Value().(bool) {
			return "b:true", ""
		}
		return "b:false", ""
	case TStr:
		// CAT and SUBSTR leave a Buffer where Go has a string; the bytes are what is compared.
		if it.Type() != stackitem.ByteArrayT && it.Type() != stackitem.BufferT {
			return "", "string result is " + it.Type().String()
		}
		b, _ := it.TryBytes()
		return "s:" + hex.EncodeToString(b), ""
	case TBytes:
		switch it.Type() {
		case stackitem.BufferT, stackitem.ByteArrayT:
			b, _ := it.TryBytes()
			return "y:" + hex.EncodeToString(b), ""
		case stackitem.AnyT: // nil slice
			return "y:", ""
		}
		return "", "[]byte result is " + it.Type().String()
	case TInts, TStrs, TBools:
		if it.Type() == stackitem.AnyT { // nil slice
			return "[]", ""
		}
		if it.Type() != stackitem.ArrayT {
			return "", "slice result is " + it.Type().String()
		}
		et := map[Ty]Ty{TInts: TInt, TStrs: TStr, TBools: TBool}[t]
		arr := it.Value().([]stackitem.Item)
		ps := make([]string, len(arr))
		for i := range arr {
			e, bad := encItem(et, arr[i])
			if bad != "" {
				return "", "element: " + bad
			}
			ps[i] = e
		}
		return "[" + strings.Join(ps, " ") + "]", ""
	case TMapII, TMapSI:
		if it.Type() == stackitem.AnyT { // nil map
			return "{}", ""
		}
		if it.Type() != stackitem.MapT {
			return "", "map result is " + it.Type().String()
		}
		kt := TInt
		if t == TMapSI {
			kt = TStr
		}
		type kv struct {
			ki  *big.Int
			ks  string
			enc string
		}
		var kvs []kv
		for _, e := range it.Value().([]stackitem.MapElement) {
			k, bad := encItem(kt, e.Key)
			if bad != "" {
				return "", "key: " + bad
			}
			val, bad := encItem(TInt, e.Value)
			if bad != "" {
				return "", "value: " + bad
			}
			x := kv{enc: k + "=" + val}
			if kt == TInt {
				x.ki = e.Key.Value().(*big.Int)
			} else {
				x.ks = string(e.Key.Value().([]byte))
			}
			kvs = append(kvs, x)
		}
		sort.Slice(kvs, func(i, j int) bool {
			if kt == TInt {
				return kvs[i].ki.Cmp(kvs[j].ki) < 0
			}
			return kvs[i].ks < kvs[j].ks
		})
		ps := make([]string, len(kvs))
		for i := range kvs {
			ps[i] = kvs[i].enc
		}
		return "{" + strings.Join(ps, " ") + "}", ""
	case TRec:
		if it.Type() != stackitem.StructT && it.Type() != stackitem.ArrayT {
			return "", "struct result is " + it.Type().String()
		}
		arr := it.Value().([]stackitem.Item)
		if len(arr) != 4 {
			return "", fmt.Sprintf("struct result has %d fields", len(arr))
		}
		ps := make([]string, 4)
		for i, ft := range []Ty{TInt, TStr, TBytes, TBool} {
			e, bad := encItem(ft, arr[i])
			if bad != "" {
				return "", fmt.Sprintf("field %d: %s", i, bad)
			}
			ps[i] = e
		}
		return "<" + strings.Join(ps, " ") + ">", ""
	case TPair, TPPair:
		if it.Type() == stackitem.AnyT && t == TPPair {
			return "nil", ""
		}
		if it.Type() != stackitem.StructT && it.Type() != stackitem.ArrayT {
			return "", "struct result is " + it.Type().String()
		}
		arr := it.Value().([]stackitem.Item)
		if len(arr) != 2 {
			return "", fmt.Sprintf("struct result has %d fields", len(arr))
		}
		a, bad := encItem(TInt, arr[0])
		if bad != "" {
			return "", "field A: " + bad
		}
		b, bad := encItem(TInt, arr[1])
		if bad != "" {
			return "", "field B: " + bad
		}
		return "<" + a + " " + b + ">", ""
	}
	return "", "unknown type " + string(t)
}

func readJSON(path string, v any) error {
	b, err := os.ReadFile(path)
	if err != nil {
		return err
	}
	return json.Unmarshal(b, v)
}

func shortHash(s string) string {
	h := sha256.Sum256([]byte(s))
	return hex.EncodeToString(h[:4])
}
