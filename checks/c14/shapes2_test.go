// Shape families of C14, second part: code-generation-relevant breadth.
//
//	longjump  bodies and operands whose size sweeps, byte by byte, across the
//	          limit of the short jump forms (the compiler emits long jumps and
//	          shortens those whose distance fits a signed byte), for every
//	          jump-producing construct
//	slots     0 / 1 / 6 / 7 / 8 / many locals, arguments and globals (slot
//	          indexes 0..6 have one-byte instructions, 7.. carry an operand),
//	          arguments reassigned, nested calls with many arguments, variadics
//	inline    helpers of a package the compiler inlines (see inlineModule):
//	          argument kinds x helper bodies, shadowing, contexts
//	packages  several packages in one program: globals, init order, methods,
//	          equal names, unused functions between used ones
//	files     several files in package main (contract compiled as a directory)
//	multiret  multiple results passed on, dropped, blanked, assigned to
//	          fields / elements / map entries
//	structs2  nested structs through pointers, omitted fields, slices and maps of
//	          structs, methods on nested fields
//	opassign  every assignment operator on every kind of target
//	consts    typed constants, iota, constant expressions, negative division
//	bools     every comparison / connective of booleans in three positions
//	forms     for with several variables, labelled continue through switch,
//	          byte-slice conversions, map ranges with commutative folds
//	meta      exported / unexported, names differing in case, unused functions
//	          between used ones, variadic parameters (manifest and debug info)
package c14

import (
	"fmt"
	"strings"
)

func allShapes2(ss *shapeSet, thorough bool) {
	shapesLongJump(ss, thorough)
	shapesSlots(ss, thorough)
	shapesInline(ss, thorough)
	shapesPackages(ss)
	shapesFiles(ss)
	shapesMultiRet(ss)
	shapesStructs2(ss)
	shapesOpAssign(ss, thorough)
	shapesConsts(ss)
	shapesBools(ss, thorough)
	shapesForms(ss)
	shapesMeta(ss)
	shapesFuncValues(ss)
	shapesGlobals(ss)
	shapesMultiDefer(ss, thorough)
}

// ---- several defers in one function ----------------------------------------------------------------------------------------------------------

// shapesMultiDefer: a VOID function registers two or three deferred calls, each
// either plain (logs its number), recovering through a named function or
// recovering through a function literal (both log their number, +4 if they
// really recovered something), the second one optionally under a condition, and
// panics (a == 1, a == 7) at the end, after the first or after the second
// registration - or not at all. Every deferred call appends a digit to a
// package variable which a wrapper returns, so neither the function's own
// results nor the wrapper's depend on how a recovered function returns: the
// digits show which deferred calls ran, in which order and which of them saw
// the panic. Sequences in which a panic would meet no recovering call are left
// out (a known difference). Plus re-panics from a recovering call with another
// recovering function one level up.
func shapesMultiDefer(ss *shapeSet, thorough bool) {
	const pre = `
var g@ int

func lg@(k int) { g@ = g@*10 + k }

func rc@(k int) {
	if r := recover(); r != nil {
		g@ = g@*10 + k + 4
	} else {
		g@ = g@*10 + k
	}
}

`
	const wrap = `
//c14:stateful
func D@(a int) int {
	body@(a)
	r := g@
	return r
}
`
	kinds := []string{"plain", "recover-named", "recover-literal"}
	stmt := func(kind string, k int) string {
		switch kind {
		case "plain":
			return fmt.Sprintf("defer lg@(%d)", k)
		case "recover-named":
			return fmt.Sprintf("defer rc@(%d)", k)
		}
		return fmt.Sprintf("defer func() {\n\t\tif r := recover(); r != nil {\n\t\t\tg@ = g@*10 + %d\n\t\t} else {\n\t\t\tg@ = g@*10 + %d\n\t\t}\n\t}()", k+4, k)
	}
	var seqs [][]string
	for _, n := range []int{2, 3} {
		var rec func(cur []string)
		rec = func(cur []string) {
			if len(cur) == n {
				seqs = append(seqs, append([]string{}, cur...))
				return
			}
			for _, k := range kinds {
				rec(append(cur, k))
			}
		}
		rec(nil)
	}
	isRec := func(k string) bool { return k != "plain" }
	for _, sq := range seqs {
		n := len(sq)
		for _, panicAt := range []string{"none", "end", "after-first", "after-second"} {
			for _, cond := range []string{"all", "second-conditional"} {
				// which registered calls can meet the panic?
				upto := n
				switch panicAt {
				case "after-first":
					upto = 1
				case "after-second":
					upto = 2
					if n == 2 {
						continue // the same as "end"
					}
				}
				if panicAt != "none" {
					ok := false
					for i := 0; i < upto; i++ {
						// the conditional second call is not registered when a == 7: it cannot be the only recovering one
						if isRec(sq[i]) && !(cond == "second-conditional" && i == 1) {
							ok = true
						}
					}
					if !ok {
						continue
					}
				}
				if !thorough && cond == "second-conditional" && panicAt != "end" && panicAt != "none" {
					continue
				}
				var b strings.Builder
				b.WriteString("func body@(a int) {\n")
				for i, k := range sq {
					d := stmt(k, i+1)
					if i == 1 && cond == "second-conditional" {
						b.WriteString("\tif a != 2 && a != 7 {\n\t\t" + strings.ReplaceAll(d, "\n\t", "\n\t\t") + "\n\t}\n")
					} else {
						b.WriteString("\t" + d + "\n")
					}
					if (panicAt == "after-first" && i == 0) || (panicAt == "after-second" && i == 1) {
						b.WriteString("\tif a == 1 || a == 7 {\n\t\tpanic(\"p\")\n\t}\n")
					}
				}
				b.WriteString("\tlg@(9)\n")
				if panicAt == "end" {
					b.WriteString("\tif a == 1 || a == 7 {\n\t\tpanic(\"p\")\n\t}\n")
				}
				b.WriteString("\tlg@(8)\n}\n")
				tag := strings.Join(sq, ",") + "/panic-" + panicAt + "/" + cond
				ss.add("multidefer", tag, "", pre+b.String()+wrap, false)
			}
		}
	}
	// a deferred call (recovering or not) panics again - also when the function ended
	// normally; the first-registered call recovers that, and the function one level
	// up has a recovering call of its own. (With a PLAIN first call the new panic
	// meets no recovering call in this function: the known difference
	// defer/defer-without-recover-swallows-panic decides the outcome, so that
	// sequence is left out.)
	for _, first := range kinds[1:] {
		for _, form := range []string{"repanic-after-recover", "repanic-without-recover"} {
			inner := "recover()\n\t\tlg@(2)\n\t\tpanic(\"again\")"
			if form == "repanic-without-recover" {
				inner = "lg@(2)\n\t\tpanic(\"again\")"
			}
			src := pre + "func body@(a int) {\n\t" + stmt(first, 1) + "\n\tdefer func() {\n\t\t" + inner + "\n\t}()\n\tlg@(9)\n\tif a == 1 || a == 7 {\n\t\tpanic(\"first\")\n\t}\n\tlg@(8)\n}\n\nfunc mid@(a int) {\n\tdefer rc@(3)\n\tbody@(a)\n\tlg@(7)\n}\n" + strings.ReplaceAll(wrap, "body@(a)", "mid@(a)")
			ss.add("multidefer", first+"/"+form, "", src, false)
		}
	}
}

// ---- package variables ----------------------------------------------------------------------------------------------------------------------

func shapesGlobals(ss *shapeSet) {
	ss.add("globals", "every-kind-with-and-without-initialiser", "", `
var lg int

func mark(k int) int {
	lg = lg*10 + k
	return k
}

var used = mark(1)
var unusedSide = mark(2)
var _ = mark(3)
var u1, u2 = mark(4), 5
var zi int
var zs string
var zb bool
var zl []int
var zm map[string]int
var zp *pt
var zst pt
var arr [3]int
var (
	grp1        = 7
	grp2        = grp1 * 2
	grp3 string = "g3"
)

type pt struct{ A, B int }

func init() {
	lg = lg*10 + 8
	zi = 5
}

func init() {
	lg = lg*10 + 9
	zl = append(zl, zi)
}

func A(a int) int { return lg*10 + used + u2 + a }

func B(a int) int {
	r := zi + len(zs) + len(zl) + len(zm) + zst.A + arr[1] + grp1 + grp2 + len(grp3)
	if zb || zm != nil || zp != nil {
		r += 1000
	}
	return r + a
}

//c14:stateful
func C(a int) int {
	zi += a
	zs += "x"
	zb = !zb
	zl = append(zl, a)
	zst.B = a
	arr[2] = a
	inc()
	r := zi*100 + len(zs)*10 + len(zl) + zst.B*1000 + arr[2]*10000
	if zb {
		r = -r
	}
	return r
}

func inc() {
	zi++
	zst.B++
}
`, true)
	ss.add("globals", "unused-between-used", "", `
var a1 = 1
var unusedX = 2
var a2 = a1 + 2
var unusedY, a3 = 4, a2 * 2
var unusedZ string
var a4 int
var onlyInInit = 6
var a5 = []int{a1, a2, a3}

func init() { a4 = onlyInInit * 2 }

func unusedFn() int { return unusedX }

func A(a int) int { return a1 + a2*10 + a3*100 + a4*1000 + a + len(a5)*100000 }

//c14:stateful
func B(a int) int {
	a3 += a
	a5[1] = a
	a4--
	return A(a) + a5[1]*1000000
}
`, true)
	ss.add("globals", "used-from-several-functions-and-methods", "", `
var cnt int
var tot = 100

type acc struct{ N int }

func (p *acc) add(v int) {
	p.N += v
	cnt++
	tot += v
}

func bump() int {
	cnt++
	return cnt
}

func get() (int, int) { return cnt, tot }

//c14:stateful
func A(a int, b int) int {
	p := &acc{}
	p.add(a)
	x := bump()
	p.add(b)
	f := func(v int) int { return v + 1 }
	c, t := get()
	return p.N + x*100 + c*1000 + t*10000 + f(bump())*1000000
}
`, true)
}

// ---- function values --------------------------------------------------------------------------------------------------------------------

func shapesFuncValues(ss *shapeSet) {
	add := func(tag, cause, src string) { ss.add("funcvalues", tag, cause, src, false) }
	add("literal-in-local-variable-and-argument", "", `
func ap@(f func(int, int) int, v int, w int) int { return f(v, w) }

func V@(a int, b int) int {
	var lf = func(v int, w int) int { return v*10 + w }
	sub := func(v int, w int) int { return v - w }
	return lf(a, b) + ap@(sub, a, b)*100 + ap@(lf, b, a)*10000 + ap@(func(v int, w int) int { return v * w }, a, b)*1000000
}
`)
	add("literals-in-slice-and-map", "", `
func V@(a int, b int) int {
	fs := []func(int) int{func(v int) int { return v + 1 }, func(v int) int { return v * 2 }}
	m := map[string]func(int) int{"neg": func(v int) int { return -v }}
	r := 0
	for _, f := range fs {
		r = r*100 + f(a)
	}
	return r + fs[1](b)*10000 + m["neg"](b)*1000000
}
`)
	add("literal-returned-and-called", "", `
func mk@(k int) func(int) int {
	if k > 0 {
		return func(v int) int { return v + 5 }
	}
	return func(v int) int { return v - 5 }
}

func V@(a int, b int) int { return mk@(a)(b)*100 + mk@(b)(a) }
`)
	add("named-function-assigned", "named-function-as-value-is-null", `
func nm@(v int) int { return v * 2 }

func V@(a int, b int) int {
	f := nm@
	return f(a) + b
}
`)
	add("named-function-passed", "named-function-as-value-is-null", `
func nm@(v int) int { return v * 2 }

func ap@(f func(int) int, v int) int { return f(v) }

func V@(a int, b int) int { return ap@(nm@, a) + b }
`)
	add("literal-in-package-variable", "function-literal-in-package-variable-is-null", `
var gf@ = func(v int) int { return v + 100 }

func V@(a int, b int) int { return gf@(a) + b }
`)
}

// addH is add with a file header (further files, imports) shared by the family.
func (ss *shapeSet) addH(family, tag, cause, hdr, tmpl string) {
	ss.add(family, tag, cause, tmpl, false)
	ss.list[len(ss.list)-1].Hdr = hdr
}

// ---- long jumps ---------------------------------------------------------------------------------------------------------

// fillStmts returns statements that compile to exactly n bytes (n >= 12):
// "x += 1" is LDLOC, PUSH1, ADD, STLOC (4 bytes), "x += 100" needs PUSHINT8 (5
// bytes); x must be one of the first seven locals.
func fillStmts(n int, indent string) string {
	j := n % 4
	i := (n - 5*j) / 4
	var b strings.Builder
	for k := 0; k < i; k++ {
		b.WriteString(indent + "x += 1\n")
	}
	for k := 0; k < j; k++ {
		b.WriteString(indent + "x += 100\n")
	}
	return b.String()
}

// fillExpr returns an integer expression over v that compiles to the load of v
// plus exactly n bytes: "+ 1" is PUSH1, ADD (2 bytes), "+ 100" is 3 bytes.
func fillExpr(v string, n int) string {
	j := n % 2
	i := (n - 3*j) / 2
	return v + strings.Repeat(" + 1", i) + strings.Repeat(" + 100", j)
}

func shapesLongJump(ss *shapeSet, thorough bool) {
	lo, hi := 88, 127
	if thorough {
		lo, hi = 40, 170
	}
	type cons struct{ name, text string }
	// %B: filler statements (two tabs deep), %E: filler expression over a.
	// Functions: J@(a int) int with x as its first local.
	stmt := []cons{
		{"if", "if a > 0 {\n%B\t}"},
		{"if-else/then", "if a > 0 {\n%B\t} else {\n\t\tx += 7\n\t}"},
		{"if-else/else", "if a > 0 {\n\t\tx += 7\n\t} else {\n%B\t}"},
		{"else-if/middle", "if a > 1 {\n\t\tx += 7\n\t} else if a > -1 {\n%B\t} else {\n\t\tx += 9\n\t}"},
		{"for3", "for i := 0; i < 2; i++ {\n%B\t}"},
		{"for3/continue-over", "for i := 0; i < 3; i++ {\n\t\tif i == a {\n\t\t\tcontinue\n\t\t}\n%B\t}"},
		{"for3/break-over", "for i := 0; i < 3; i++ {\n\t\tif i == a {\n\t\t\tbreak\n\t\t}\n%B\t}"},
		{"for-cond", "i := 0\n\tfor i < 2 {\n\t\ti++\n%B\t}"},
		{"range-slice", "for _, v := range []int{1, 2} {\n\t\tx += v * 1000\n%B\t}"},
		{"range-slice/continue-over", "for _, v := range []int{1, 2, 7} {\n\t\tif v == a {\n\t\t\tcontinue\n\t\t}\n%B\t}"},
		{"range-slice/break-over", "for _, v := range []int{1, 2, 7} {\n\t\tif v == a {\n\t\t\tbreak\n\t\t}\n%B\t}"},
		{"range-map", "for k := range map[int]int{3: 1} {\n\t\tx += k * 1000\n%B\t}"},
		{"switch/first-clause", "switch a {\n\tcase 0:\n%B\tcase 1:\n\t\tx += 7\n\tdefault:\n\t\tx += 9\n\t}"},
		{"switch/middle-clause", "switch a {\n\tcase 0:\n\t\tx += 7\n\tcase 1, 2:\n%B\tdefault:\n\t\tx += 9\n\t}"},
		{"switch/default-first", "switch a {\n\tdefault:\n%B\tcase 1:\n\t\tx += 7\n\tcase 2:\n\t\tx += 9\n\t}"},
		{"switch/fallthrough-into", "switch a {\n\tcase 0:\n\t\tx += 7\n\t\tfallthrough\n\tcase 1:\n%B\tcase 2:\n\t\tx += 9\n\t}"},
		{"switch/break-over", "switch a {\n\tcase 0, 1:\n\t\tif a == 1 {\n\t\t\tbreak\n\t\t}\n%B\tcase 2:\n\t\tx += 9\n\t}"},
		{"switch-tagless/middle", "switch {\n\tcase a > 1:\n\t\tx += 7\n\tcase a > -1:\n%B\tdefault:\n\t\tx += 9\n\t}"},
		{"labelled/continue-outer-over", "lo:\n\tfor i := 0; i < 2; i++ {\n\t\tfor j := 0; j < 2; j++ {\n\t\t\tif j == a {\n\t\t\t\tcontinue lo\n\t\t\t}\n\t\t\tx += 1000\n\t\t}\n%B\t}"},
		{"labelled/break-outer-over", "lo:\n\tfor i := 0; i < 2; i++ {\n\t\tfor j := 0; j < 2; j++ {\n\t\t\tif j == a {\n\t\t\t\tbreak lo\n\t\t\t}\n\t\t\tx += 1000\n\t\t}\n%B\t}\n\tx += 10000"},
		{"if/inner-if-first", "if a > 0 {\n\t\tif a > 1 {\n\t\t\tx += 1000\n\t\t}\n%B\t}"},
		{"if/inner-if-last", "if a > 0 {\n%B\t\tif a > 1 {\n\t\t\tx += 1000\n\t\t}\n\t}"},
		{"if/short-if-after", "if a > 0 {\n%B\t}\n\tif a > 1 {\n\t\tx += 1000\n\t}"},
		{"for3/inner-ifs-both-ends", "for i := 0; i < 2; i++ {\n\t\tif i == a {\n\t\t\tx += 1000\n\t\t}\n%B\t\tif i != a {\n\t\t\tx += 10000\n\t\t}\n\t}"},
		{"and", "if a > 0 && %E > 5 {\n\t\tx += 7\n\t}"},
		{"or", "if a > 0 || %E > 50 {\n\t\tx += 7\n\t}"},
		{"and-or", "if a > 1 && %E > 5 || a < 0 {\n\t\tx += 7\n\t}"},
		{"or-and", "if (a > 1 || %E > 50) && a != 7 {\n\t\tx += 7\n\t}"},
		{"and/value", "k := a > 0 && %E > 5\n\tif k {\n\t\tx += 7\n\t}"},
		{"or/negated", "if !(a > 0 || %E > 50) {\n\t\tx += 7\n\t}"},
		{"and/in-loop-condition", "for i := 0; i < 2 && %E > 1; i++ {\n\t\tx += 7\n\t}"},
	}
	for _, c := range stmt {
		for n := lo; n <= hi; n++ {
			body := strings.ReplaceAll(strings.ReplaceAll(c.text, "%B", fillStmts(n, "\t\t")), "%E", fillExpr("a", n))
			src := "func J@(a int) int {\n\tx := 0\n\t" + body + "\n\tx += 100000\n\treturn x\n}\n"
			ss.add("longjump", fmt.Sprintf("%s/%d", c.name, n), "", src, false)
		}
	}
	// calls and exception frames: the callee lies n bytes behind / before the call
	for n := lo; n <= hi; n++ {
		ss.add("longjump", fmt.Sprintf("call-forward/%d", n), "",
			"func J@(a int) int {\n\tx := cal@(a)\n"+fillStmts(n, "\t")+"\treturn x\n}\n\nfunc cal@(v int) int { return v * 3 }\n", false)
		ss.add("longjump", fmt.Sprintf("call-backward/%d", n), "",
			"func cal@(v int) int { return v * 3 }\n\nfunc J@(a int) int {\n\tx := 0\n"+fillStmts(n, "\t")+"\tx += cal@(a)\n\treturn x\n}\n", false)
		ss.add("longjump", fmt.Sprintf("recursion/%d", n), "",
			"func J@(a int) int {\n\tx := 0\n\tif a > 0 {\n\t\tx = J@(a-4) * 2\n\t}\n"+fillStmts(n, "\t")+"\tif a == 0 {\n\t\tx += J@(a - 1)\n\t}\n\treturn x\n}\n", false)
		ss.add("longjump", fmt.Sprintf("defer/%d", n), "",
			"var g@ int\n\nfunc lg@() { g@ += 5 }\n\nfunc body@(a int) int {\n\tx := a\n\tdefer lg@()\n"+fillStmts(n, "\t")+"\treturn x\n}\n\n//c14:stateful\n//c14:args 1;7\nfunc J@(a int) int {\n\tr := body@(a)\n\tr = r*10 + g@\n\treturn r\n}\n", false)
	}
}

// ---- slots: numbers of locals, arguments, globals ------------------------------------------------------------------------------

func shapesSlots(ss *shapeSet, thorough bool) {
	add := func(tag, src string) { ss.add("slots", tag, "", src, false) }
	counts := []int{0, 1, 2, 6, 7, 8, 9, 13}
	// n locals, each written once, read at least once; the last three modified again
	for _, n := range counts {
		var b strings.Builder
		b.WriteString("func S@(a int, b int) int {\n")
		for i := 0; i < n; i++ {
			switch i {
			case 0:
				b.WriteString("\tl0 := a + 1\n")
			case 1:
				b.WriteString("\tl1 := l0*2 - b\n")
			default:
				fmt.Fprintf(&b, "\tl%d := l%d + l%d - %d\n", i, i-1, i-2, i)
			}
		}
		for i := max(n-3, 0); i < n; i++ {
			fmt.Fprintf(&b, "\tl%d += %d\n\tl%d++\n", i, i+2, i)
		}
		b.WriteString("\tr := a\n")
		for i := 0; i < n; i++ {
			fmt.Fprintf(&b, "\tr = r*2 + l%d\n", i)
		}
		b.WriteString("\treturn r + b\n}\n")
		add(fmt.Sprintf("locals-%d", n), b.String())
	}
	// n parameters, the last two reassigned, called with expressions; as function, method and function literal
	for _, n := range []int{0, 1, 2, 3, 4, 5, 7, 8, 9, 12} {
		var ps, use, args []string
		for i := 0; i < n; i++ {
			ps = append(ps, fmt.Sprintf("p%d int", i))
			args = append(args, []string{"a", "b", "a + b", "3", "b - 1", "a * 2"}[i%6])
		}
		var body strings.Builder
		for i := max(n-2, 0); i < n; i++ {
			fmt.Fprintf(&body, "\tp%d = p%d*2 + 1\n", i, i)
		}
		body.WriteString("\tr := 1\n")
		for i := 0; i < n; i++ {
			fmt.Fprintf(&body, "\tr = r*3 + p%d\n", i)
		}
		_ = use
		add(fmt.Sprintf("params-%d/function", n), fmt.Sprintf("func f@(%s) int {\n%s\treturn r\n}\n\nfunc S@(a int, b int) int { return f@(%s)*10 + a }\n", strings.Join(ps, ", "), body.String(), strings.Join(args, ", ")))
		add(fmt.Sprintf("params-%d/method", n), fmt.Sprintf("type t@ struct{ N int }\n\nfunc (t *t@) m(%s) int {\n%s\treturn r + t.N\n}\n\nfunc (t t@) v(%s) int {\n%s\treturn r - t.N\n}\n\nfunc S@(a int, b int) int {\n\tt := &t@{N: 1000}\n\tu := t@{N: 500}\n\treturn t.m(%s)*3 + u.v(%s)\n}\n",
			strings.Join(ps, ", "), body.String(), strings.Join(ps, ", "), body.String(), strings.Join(args, ", "), strings.Join(args, ", ")))
		if n <= 8 {
			add(fmt.Sprintf("params-%d/function-literal", n), fmt.Sprintf("func S@(a int, b int) int {\n\tf := func(%s) int {\n%s\t\treturn r\n\t}\n\treturn f(%s)*10 + b\n}\n", strings.Join(ps, ", "), strings.ReplaceAll(body.String(), "\n\t", "\n\t\t"), strings.Join(args, ", ")))
		}
	}
	// k fixed parameters and m variadic arguments
	for k := 0; k <= 2; k++ {
		for m := 0; m <= 3; m++ {
			var ps, args []string
			for i := 0; i < k; i++ {
				ps = append(ps, fmt.Sprintf("p%d int", i))
				args = append(args, []string{"a", "b + 1"}[i])
			}
			ps = append(ps, "xs ...int")
			for i := 0; i < m; i++ {
				args = append(args, []string{"b", "a * 2", "5"}[i])
			}
			var body strings.Builder
			body.WriteString("\tr := len(xs) + 1\n")
			for i := 0; i < k; i++ {
				fmt.Fprintf(&body, "\tr = r*3 + p%d\n", i)
			}
			body.WriteString("\tfor i, v := range xs {\n\t\tr = r*3 + v + i\n\t}\n")
			add(fmt.Sprintf("variadic-%d+%d", k, m), fmt.Sprintf("func f@(%s) int {\n%s\treturn r\n}\n\ntype t@ struct{ N int }\n\nfunc (t *t@) m(%s) int {\n%s\treturn r + t.N\n}\n\nfunc S@(a int, b int) int {\n\tt := &t@{N: 1000}\n\treturn f@(%s)*7 + t.m(%s)\n}\n",
				strings.Join(ps, ", "), body.String(), strings.Join(ps, ", "), body.String(), strings.Join(args, ", "), strings.Join(args, ", ")))
		}
	}
	add("variadic-spread-and-pass-on", `
func inner@(base int, xs ...int) int {
	t := base
	for _, v := range xs {
		t = t*2 + v
	}
	return t
}

func outer@(xs ...int) int { return inner@(len(xs), xs...) }

func S@(a int, b int) int {
	s := []int{a, b, 3}
	return outer@(s...)*100 + outer@(a, b) + outer@()
}
`)
	add("nested-calls-many-arguments", `
func z@() int                         { return 42 }
func o@(a int) int                    { return a + 1 }
func f4@(a, b, c, d int) int          { return ((a*3+b)*3+c)*3 + d }
func f5@(a, b, c, d, e int) int       { return (((a*3+b)*3+c)*3+d)*3 + e }
func f7@(a, b, c, d, e, f, g int) int { return f4@(a, b, c, d)*27 + (e*3+f)*3 + g }

func S@(a int, b int) int {
	return f4@(o@(a), f4@(a, b, o@(b), z@()), f5@(1, 2, 3, o@(o@(a)), b), z@()) + f7@(a, b, o@(a), o@(b), z@(), f4@(1, a, 2, b), 1)
}
`)
	add("locals-in-nested-blocks-and-loops", `
func S@(a int, b int) int {
	r := 0
	for i := 0; i < 2; i++ {
		p := i + a
		q := p * 2
		if q > 2 {
			u := q - b
			w := u + p
			r += w
		} else {
			u := q + b
			w2 := u - p
			z := w2 * 2
			r -= z
		}
		for j := 0; j < 2; j++ {
			k := j + i
			l := k * q
			r += l
		}
		r += p
	}
	return r
}
`)
	add("arguments-reassigned-and-used-as-locals", `
func f@(a int, b int, s []int, t string, k bool) int {
	a = a + b
	b = a - b
	a++
	b *= 2
	s = append(s, a)
	t = t + "x"
	k = !k
	for a > 10 {
		a -= 7
	}
	r := a*100 + b + len(s)*10000 + len(t)*100000
	if k {
		return -r
	}
	return r
}

func S@(a int, b int) int {
	s := []int{1}
	r := f@(a, b, s, "q", a > b)
	return r*10 + a
}
`)
	// globals: exactly 6, 7, 8 and 12 package variables (slot 6 is the last with a one-byte instruction)
	for _, n := range []int{6, 7, 8, 12} {
		var b strings.Builder
		for i := 0; i < n; i++ {
			switch i % 3 {
			case 0:
				fmt.Fprintf(&b, "var g%d = %d\n", i, i+1)
			case 1:
				fmt.Fprintf(&b, "var g%d int\n", i)
			default:
				fmt.Fprintf(&b, "var g%d = g%d + %d\n", i, i-2, i)
			}
		}
		b.WriteString("\n//c14:stateful\nfunc S(a int, b int) int {\n")
		fmt.Fprintf(&b, "\tg%d += a\n\tg%d = g%d + b\n\tg%d++\n\tbump()\n\tr := 0\n", n-1, n-2, n-1, n-3)
		for i := 0; i < n; i++ {
			fmt.Fprintf(&b, "\tr = r*3 + g%d\n", i)
		}
		fmt.Fprintf(&b, "\treturn r\n}\n\nfunc bump() {\n\tg0 += g%d\n\tg%d--\n}\n\nfunc R(a int) int { return g%d*100 + g0 + a }\n", n-1, n-1, n-1)
		ss.add("slots", fmt.Sprintf("globals-%d", n), "", b.String(), true)
	}
}

// ---- inlined helpers ------------------------------------------------------------------------------------------------------------

const inlineHdr = `//c14:file inl/h/h.go
package h

var G = 3
var Cnt int

const K = 7

type T struct{ N int }

func (t *T) Add(i int) int {
	n := t.N
	t.N += i
	return n
}

func (t T) Get() int { return t.N }

func NewT(n int) T { return T{N: n} }

func add(x, y int) int { return x + y }

func Sq(a, b int) int { return add(a, b) * (a + b) }

func Twice(x int) int { return x + x }

func Inc(x int) int {
	x++
	x += 2
	return x
}

func Unused(x int, y int) int { return y + 1 }

func Var(a int, b ...int) int {
	s := a * 100
	for i := range b {
		s += b[i] * (i + 1)
	}
	return s + len(b)*1000
}

func Bump() int {
	Cnt++
	return Cnt
}

func Void(x int) { Cnt += x }

func Sw(x int) int {
	switch x {
	case 1:
		return 10
	case 2:
		return x + 5
	case 0:
	default:
		return -x
	}
	return x * 2
}

func Early(x int) int {
	for i := 0; i < 3; i++ {
		if i == x {
			return i * 10
		}
	}
	return -1
}

func Rng(s []int, stop int) int {
	t := 0
	for _, v := range s {
		if v == stop {
			return t
		}
		t += v
	}
	return t + 100
}

func Lbl(n int) int {
	t := 0
outer:
	for i := 0; i < 3; i++ {
		for j := 0; j < 3; j++ {
			if j == n {
				continue outer
			}
			if i == n+1 {
				break outer
			}
			t += 10*i + j
		}
	}
	return t
}

func Pos(x int) bool { return x > 0 }

func Shadow(x int) int {
	a := x * 2
	{
		x := a + 1
		a = x
	}
	return a + x
}

func Two(x int) (int, int) { return x + 1, x - 1 }

func Rep(s string, n int) string {
	r := ""
	for i := 0; i < n; i++ {
		r += s
	}
	return r
}

func lg() { Cnt += 5 }

func DeferVoid(x int) {
	defer lg()
	Cnt += x
}

// the three helpers below are the minimal forms of known differences

func SetThenGet(s []int, v int) int {
	s[0] = 9
	return v
}

func AssignInBlock(x int) int {
	if x > 0 {
		x = x * 2
	}
	return x
}

func DeferReturn(x int) int {
	defer lg()
	return x + 1
}

//c14:main
import "` + inlineModule + `/h"

`

func shapesInline(ss *shapeSet, thorough bool) {
	add := func(tag, cause, src string) { ss.addH("inline", tag, cause, inlineHdr, src) }
	// argument kinds x helpers. Every argument form reads only what the helper
	// bodies cannot change, and the side effect of the call form is visible in cnt.
	type arg struct{ name, pre, text string }
	args := []arg{
		{"constant", "", "3"},
		{"variable", "", "a"},
		{"expression", "", "a + b*2"},
		{"call-with-effect", "", "id@(c, a)"},
		{"element", "s := []int{a, b}", "s[1]"},
		{"field", "p := &pt@{A: a, B: b}", "p.B"},
		{"global", "", "gv@"},
		{"package-global", "", "h.G"},
		{"inlined-call", "", "h.Twice(b)"},
		{"shadowing-names", "x, y, n, t, i := a, b, 1, 2, 3\n\t_, _, _, _ = y, n, t, i", "x + y - n + t*i"},
	}
	type helper struct{ name, call string } // %A the argument
	helpers := []helper{
		{"used-twice", "h.Twice(%A)"},
		{"unused", "h.Unused(%A, b)"},
		{"unused-second", "h.Unused(b, %A)"},
		{"assigned", "h.Inc(%A)"},
		{"nested-inline", "h.Sq(%A, 2)"},
		{"switch-returns", "h.Sw(%A)"},
		{"loop-return", "h.Early(%A)"},
		{"labels", "h.Lbl(%A)"},
		{"shadow", "h.Shadow(%A)"},
		{"variadic", "h.Var(%A, %A, 4)"},
		{"two-results", "tw@(h.Two(%A))"},
	}
	const pre = `
var gv@ = 2

type pt@ struct{ A, B int }

func id@(c []int, v int) int {
	c[0]++
	return v
}

func tw@(p int, q int) int { return p*10 + q }

`
	for _, hp := range helpers {
		for _, ar := range args {
			if !thorough && (hp.name == "unused-second" || hp.name == "labels") && ar.name != "call-with-effect" && ar.name != "expression" && ar.name != "shadowing-names" {
				continue
			}
			p := ar.pre
			if p != "" {
				p = "\t" + p + "\n"
			}
			call := strings.ReplaceAll(hp.call, "%A", ar.text)
			src := pre + "func N@(a int, b int) int {\n\tc := []int{0}\n" + p + "\tr := " + call + "\n\tr2 := " + call + " + 1\n\treturn r*1000 + r2*10 + c[0]\n}\n"
			add("arg/"+hp.name+"/"+ar.name, "", src)
		}
	}
	// contexts of an inlined call
	ctx := []struct{ tag, src string }{
		{"in-for-body-and-condition", "func N@(a int, b int) int {\n\tx := 0\n\tfor i := 0; i < h.Twice(2) && h.Pos(b+5); i++ {\n\t\tx += h.Sw(i) + h.Early(a)\n\t\tif h.Pos(x - 20) {\n\t\t\tbreak\n\t\t}\n\t}\n\treturn x\n}\n"},
		{"in-range-over-result", "func N@(a int, b int) int {\n\tx := 0\n\ts := []int{1, 2, 7}\n\tfor _, v := range s {\n\t\tx += h.Rng(s, a) + v\n\t\tif h.Pos(v - b) {\n\t\t\tcontinue\n\t\t}\n\t\tx += 1000\n\t}\n\treturn x\n}\n"},
		{"as-switch-tag-and-case", "func N@(a int, b int) int {\n\tswitch h.Sw(a) {\n\tcase h.Twice(5):\n\t\treturn 1\n\tcase h.Inc(4), h.Sw(b):\n\t\treturn 2\n\t}\n\treturn 3\n}\n"},
		{"in-short-circuit", "func N@(a int, b int) int {\n\tr := 0\n\tif h.Pos(a) && !h.Pos(b) || h.Pos(a+b) {\n\t\tr += 1\n\t}\n\tk := !h.Pos(a) || h.Pos(b) && h.Pos(a*b)\n\tif k {\n\t\tr += 10\n\t}\n\treturn r\n}\n"},
		{"as-argument-of-a-call", "func f3@(p int, q int, r int) int { return p*100 + q*10 + r }\n\nfunc N@(a int, b int) int { return f3@(h.Twice(a), h.Sw(b), h.Early(a)) + f3@(1, h.Inc(b), 2)*1000 }\n"},
		{"nested-three-levels", "func N@(a int, b int) int { return h.Sq(h.Sq(a, 1), h.Twice(h.Sw(b))) }\n"},
		{"twice-in-one-expression", "func N@(a int, b int) int { return h.Early(a) + h.Early(b)*100 + h.Early(a+b)*10000 }\n"},
		{"result-dropped", "func N@(a int, b int) int {\n\th.Twice(a)\n\th.Two(b)\n\th.Sw(a)\n\th.Early(b)\n\t_ = h.Inc(a)\n\t_, _ = h.Two(a)\n\treturn a + b\n}\n"},
		{"results-blanked", "func N@(a int, b int) int {\n\tx, _ := h.Two(a)\n\t_, y := h.Two(b)\n\treturn x*10 + y\n}\n"},
		{"in-return-of-two-values", "func two@(a int, b int) (int, int) { return h.Twice(a), h.Sw(b) }\n\nfunc N@(a int, b int) int {\n\tx, y := two@(a, b)\n\treturn x*100 + y\n}\n"},
		{"variadic-forms", "func N@(a int, b int) int {\n\ts := []int{a, b}\n\treturn h.Var(1) + h.Var(2, a) + h.Var(3, a, b, 4) + h.Var(4, s...)\n}\n"},
		{"methods", "func N@(a int, b int) int {\n\tt := h.NewT(a)\n\tp := &h.T{N: b}\n\tr := p.Add(2)\n\tr += p.Add(a)\n\treturn r*100 + t.Get()*10 + p.Get() + h.K\n}\n"},
		{"method-on-field-and-element", "type w@ struct {\n\tT h.T\n\tP *h.T\n}\n\nfunc N@(a int, b int) int {\n\to := &w@{T: h.T{N: a}, P: &h.T{N: b}}\n\ts := []*h.T{{N: 1}, {N: a}}\n\tr := o.P.Add(3) + s[1].Add(b)\n\treturn r*1000 + o.T.Get()*100 + o.P.Get()*10 + s[1].Get()\n}\n"},
		{"in-function-literal", "func N@(a int, b int) int {\n\tf := func(v int) int { return h.Sw(v) + h.Twice(v) }\n\treturn f(a)*100 + f(b)\n}\n"},
		{"in-method-of-main", "type m@ struct{ N int }\n\nfunc (m *m@) run(v int) int {\n\tm.N += h.Twice(v)\n\treturn h.Early(m.N)\n}\n\nfunc N@(a int, b int) int {\n\tm := &m@{N: a}\n\tr := m.run(b)\n\treturn r*100 + m.N\n}\n"},
		{"string-helper", "func S@(s string, a int) string { return h.Rep(s, a) + \"|\" + h.Rep(\"z\", 2) }\n"},
		{"in-recursion", "func rc@(n int) int {\n\tif !h.Pos(n) {\n\t\treturn h.Twice(n)\n\t}\n\treturn rc@(n-3) + h.Sw(n)\n}\n\nfunc N@(a int, b int) int { return rc@(a)*100 + rc@(b) }\n"},
		{"early-return-inside-callers-range-and-switch", "func N@(a int, b int) int {\n\tx := 0\n\tfor _, v := range []int{0, 1, 2} {\n\t\tswitch v {\n\t\tcase 1:\n\t\t\tx += h.Early(a)\n\t\tdefault:\n\t\t\tx += h.Rng([]int{v, b}, a) * 10\n\t\t}\n\t}\n\treturn x\n}\n"},
	}
	for _, c := range ctx {
		add("context/"+c.tag, "", c.src)
	}
	// package state of the inlined package
	add("state/counter-order", "", "//c14:stateful\nfunc N@(a int, b int) int {\n\tx := h.Bump() + h.Bump()*10\n\th.Void(a)\n\th.Bump()\n\th.Sq(a, b)\n\treturn x*1000 + h.Cnt\n}\n")
	add("state/defer-in-void-helper", "", "//c14:stateful\nfunc N@(a int, b int) int {\n\th.DeferVoid(a)\n\th.DeferVoid(b)\n\treturn h.Cnt\n}\n")
	add("state/global-initialiser-and-init", "", "var gi@ = h.Sq(1, 2) + h.Twice(h.K)\n\nvar gj@ int\n\nfunc init() { gj@ = h.Sw(2) + gi@ }\n\nfunc N@(a int, b int) int { return gi@*1000 + gj@ + a + b }\n")
	// known differences, minimal forms
	add("argument-read-after-the-body-changed-it", "argument-evaluated-at-use", "func N@(a int, b int) int {\n\ts := []int{a, b}\n\treturn h.SetThenGet(s, s[0])\n}\n")
	add("parameter-assigned-in-a-nested-block", "parameter-assignment-in-nested-block-lost", "func N@(a int, b int) int { return h.AssignInBlock(a) }\n")
	add("defer-and-return-in-inlined-function", "defer-with-return-in-inlined-function-faults", "//c14:stateful\nfunc N@(a int, b int) int {\n\tr := h.DeferReturn(a)\n\treturn r*100 + h.Cnt\n}\n")
}

// ---- several packages -----------------------------------------------------------------------------------------------------------

const packagesHdr = `//c14:file lib/lib.go
package lib

var Log int
var Base = mark(3)
var hidden = Base * 2
var Unused = 99

const K = 4

type Acc struct{ N int }

func (a *Acc) Add(v int) { a.N += v }

func (a Acc) Get() int { return a.N }

func (a *Acc) unused() int { return -1 }

func mark(k int) int {
	Log = Log*10 + k
	return k
}

func init() { Log = Log*10 + 7 }

func NotCalledFirst(x int) int { return x - 1 }

func F(x int) int { return x + hidden }

func helper(x int) int { return x * 2 }

func notCalled(x int) int { return x - 2 }

func G(x int) int { return helper(x) + K }

func New(n int) *Acc { return &Acc{N: n} }

func Same(x int) int { return x + 1000 }

func Swap(a, b int) (int, int) { return b, a }

func Sum(xs ...int) int {
	t := 0
	for _, v := range xs {
		t += v
	}
	return t
}

//c14:file lib2/lib2.go
package lib2

import "x/lib"

var Base = lib.Base + mark(5)

var Log = 1

func mark(k int) int {
	lib.Log = lib.Log*10 + k
	return k
}

func init() { lib.Log = lib.Log*10 + 8 }

func F(x int) int { return lib.F(x) * 100 }

func Same(x int) int { return x + 2000 }

//c14:main
import "x/lib"

import l2 "x/lib2"

var Base = mark(1)

func mark(k int) int {
	lib.Log = lib.Log*10 + k
	return k
}

func init() { lib.Log = lib.Log*10 + 9 }

func notCalled(x int) int { return x + 100 }

func same(x int) int { return x + 3000 }

`

func shapesPackages(ss *shapeSet) {
	add := func(tag, src string) { ss.addH("packages", tag, "", packagesHdr, src) }
	add("functions-across-packages", "func P@(a int) int { return lib.F(a) + l2.F(a) + lib.G(a)*10000 }\n")
	add("initialisation-order", "func P@(a int) int { return lib.Log*10 + Base + lib.Base + l2.Base + l2.Log + a }\n")
	add("methods-and-types", "func P@(a int) int {\n\tacc := lib.New(a)\n\tacc.Add(5)\n\tv := lib.Acc{N: 2}\n\tw := &lib.Acc{}\n\tw.Add(acc.Get())\n\treturn acc.Get()*100 + v.Get()*10 + w.Get()*1000 + lib.K\n}\n")
	add("equal-names", "func P@(a int) int { return same(a) + lib.Same(a)*2 + l2.Same(a)*3 + mark(0) }\n")
	add("global-written-from-another-package", "//c14:stateful\nfunc P@(a int) int {\n\tlib.Log = a\n\tl2.Log += a\n\tlib.Base++\n\treturn lib.F(1)*1000 + lib.Log*100 + l2.Log*10 + lib.Base\n}\n")
	add("results-and-variadic-across-packages", "func P@(a int, b int) int {\n\tx, y := lib.Swap(a, b)\n\ts := []int{a, b}\n\treturn x*10 + y + lib.Sum()*100 + lib.Sum(a, b, 1)*1000 + lib.Sum(s...)*100000\n}\n")
}

// ---- several files --------------------------------------------------------------------------------------------------------------

const filesHdr = `//c14:file q.go
package main

var vq = mark(2)

func init() { lg = lg*10 + 6 }

func unusedQ(x int) int { return x }

func fq(x int) int { return x*2 + vq }

var vq2 = mark(3)

//c14:file z.go
package main

var vz = mark(4)

func init() { lg = lg*10 + 7 }

func Fz(x int) int { return fq(x) + vz }

type tz struct{ N int }

func (t *tz) inc() { t.N++ }

//c14:main
var lg int

var va = mark(1)

func mark(k int) int {
	lg = lg*10 + k
	return k
}

func init() { lg = lg*10 + 5 }

`

func shapesFiles(ss *shapeSet) {
	add := func(tag, src string) { ss.addH("files", tag, "", filesHdr, src) }
	add("initialisation-order-across-files", "func A@(a int) int { return lg*10 + va + vq + vq2 + vz + a }\n")
	add("functions-and-types-across-files", "func B@(a int) int {\n\tt := &tz{N: a}\n\tt.inc()\n\treturn Fz(a) + fq(a)*100 + t.N*10000\n}\n")
}

// ---- multiple results ------------------------------------------------------------------------------------------------------------

func shapesMultiRet(ss *shapeSet) {
	const pre = `
type pm@ struct{ A, B int }

func two@(a int) (int, int) { return a + 1, a - 1 }

func three@(a int) (int, bool, string) { return a * 2, a > 0, "xy" }

func named@(a int) (x, y int) {
	x = a
	y = a * 2
	return
}

func grouped@(a int) (x, y int, s string) {
	x, y, s = a, a+1, "abc"
	if a > 1 {
		return y, x, s + "d"
	}
	return
}

func add@(a int, b int) int { return a*10 + b }

func add3@(a int, k bool, s string) int {
	if k {
		return a + len(s)
	}
	return -a
}

func sum@(xs ...int) int {
	t := 0
	for i, v := range xs {
		t += (i + 1) * v
	}
	return t
}

func pass@(a int) (int, int) { return two@(a) }

func pass3@(a int) (int, bool, string) { return three@(a) }

func swap@(a int, b int) (int, int) { return b, a }

`
	cases := []struct{ tag, cause, body string }{
		{"passed-to-call", "", "return add@(two@(a))*100 + add3@(three@(b))"},
		{"passed-through-return", "", "x, y := pass@(a)\n\tv, ok, s := pass3@(b)\n\tif ok {\n\t\tv += len(s)\n\t}\n\treturn x*1000 + y*100 + v"},
		{"passed-through-swap", "", "x, y := swap@(two@(a))\n\treturn x*100 + y + b"},
		{"blanks-in-every-position", "", "_, y := two@(a)\n\tx, _ := two@(y)\n\t_, _ = two@(x)\n\t_, k, _ := three@(b)\n\tv, _, _ := three@(b)\n\t_, _, s := three@(b)\n\tif k {\n\t\tv++\n\t}\n\treturn x*1000 + y*100 + v*10 + len(s)"},
		{"all-results-dropped", "", "two@(a)\n\tthree@(a)\n\tnamed@(b)\n\tgrouped@(b)\n\tswap@(a, b)\n\treturn a*10 + b"},
		{"assigned-to-elements-fields-entries", "", "s := []int{0, 0}\n\tp := &pm@{}\n\tm := map[int]int{}\n\ts[1], p.B = two@(a)\n\tm[1], s[0] = named@(b)\n\tp.A, m[2] = swap@(a, b)\n\treturn s[0] + s[1]*10 + p.B*100 + m[1]*1000 + p.A*10000 + m[2]*100000"},
		{"in-if-and-switch-init", "", "if x, y := two@(a); x > y+b {\n\t\treturn x\n\t} else if y > 0 {\n\t\treturn y * 10\n\t}\n\tswitch x, y := swap@(a, b); {\n\tcase x > y:\n\t\treturn 100\n\t}\n\treturn 0"},
		{"var-declarations", "", "var x, y = two@(a)\n\tvar z, _ = two@(x)\n\tvar _, w = named@(b)\n\treturn x + y*10 + z*100 + w*1000"},
		{"named-and-grouped-results", "", "x, y := named@(a)\n\tp, q, s := grouped@(b)\n\treturn x + y*10 + p*100 + q*1000 + len(s)*10000"},
		{"reassigned-existing-variables", "", "x, y := 1, 2\n\tx, y = two@(a)\n\ty, x = two@(x + y)\n\tx, b = swap@(x, b)\n\treturn x*100 + y*10 + b"},
		{"in-loop", "", "x, y := 0, a\n\tfor i := 0; i < 3; i++ {\n\t\tx, y = two@(y)\n\t\tif x > b {\n\t\t\tx, _ = swap@(x, y)\n\t\t}\n\t}\n\treturn x*100 + y"},
		{"passed-to-variadic", "multi-value-call-as-variadic-arguments", "return sum@(two@(a)) + b"},
	}
	for _, c := range cases {
		ss.add("multiret", c.tag, c.cause, pre+"func M@(a int, b int) int {\n\t"+c.body+"\n}\n", false)
	}
}

// ---- structs, second part ----------------------------------------------------------------------------------------------------------

func shapesStructs2(ss *shapeSet) {
	const pre = `
type in@ struct {
	A int
	S string
}

type out@ struct {
	I in@
	P *in@
	N int
	L []int
	M map[string]int
	K bool
	Y []byte
}

func (o *out@) bump(n int) {
	o.I.A += n
	o.N++
}

func (o *out@) total() int { return o.I.A + o.N + len(o.L) }

func (i *in@) set(v int) { i.A = v }

func (i *in@) get() int { return i.A }

func mk@(a int) *out@ { return &out@{I: in@{A: a}, P: &in@{A: a + 1}} }

func chain@(o *out@) *out@ {
	o.N += 10
	return o
}

`
	cases := []struct{ tag, body string }{
		{"omitted-fields-are-zero", "o := &out@{N: a}\n\tr := o.I.A + len(o.I.S) + len(o.L) + len(o.M) + len(o.Y)\n\tif o.P == nil {\n\t\tr += 100\n\t}\n\tif o.K {\n\t\tr += 1000\n\t}\n\tif o.L == nil && o.M == nil {\n\t\tr += 10000\n\t}\n\treturn r + o.N + b"},
		{"empty-literal-and-var", "var v out@\n\tw := out@{}\n\tp := &out@{}\n\tv.N, w.N, p.N = a, b, 3\n\tv.I.A++\n\tw.I.S += \"k\"\n\treturn v.N*100 + w.N*10 + p.N + v.I.A*1000 + len(w.I.S)*10000 + len(p.I.S)"},
		{"nested-through-pointers", "o := mk@(a)\n\to.I.A += b\n\to.P.A *= 2\n\to.I.A++\n\to.P.A--\n\to.N -= 3\n\to.bump(b)\n\to.I.set(o.I.get() + 1)\n\to.P.set(o.P.get() + 1)\n\treturn o.I.A*10000 + o.P.A*100 + o.N + o.total()"},
		{"keyed-literal-any-order", "o := out@{K: a > 0, N: b, P: &in@{S: \"zz\", A: a}, I: in@{S: \"q\"}}\n\tr := o.N + o.P.A*10 + len(o.P.S)*100 + len(o.I.S)*1000\n\tif o.K {\n\t\tr = -r\n\t}\n\treturn r"},
		{"method-chain-on-result", "return chain@(chain@(mk@(a))).total() + mk@(b).P.get()*100"},
		{"pointer-shared-by-two-structs", "p := &in@{A: a}\n\to1 := &out@{P: p}\n\to2 := &out@{P: p}\n\to1.P.A += b\n\to2.P.set(o2.P.get() * 2)\n\treturn p.A*100 + o1.P.A*10 + o2.P.A"},
		{"slice-of-pointers", "s := []*in@{{A: 1}, {A: a}}\n\ts = append(s, &in@{A: 5})\n\tx := 0\n\tfor i := range s {\n\t\ts[i].A += i\n\t\tx += s[i].A\n\t}\n\tfor _, p := range s {\n\t\tp.A += b\n\t}\n\ts[1].A <<= 1\n\ts[2].A %= 4\n\treturn x*1000 + s[1].A*10 + s[2].A + len(s)*100000"},
		{"slice-of-structs-by-index", "s := []in@{{A: 1}, {A: a, S: \"k\"}}\n\ts[0].A += a\n\ts[1].A -= 2\n\ts[1].S += \"m\"\n\ts = append(s, in@{A: b})\n\tt := 0\n\tfor i := range s {\n\t\tt = t*10 + s[i].A + len(s[i].S)\n\t}\n\treturn t + len(s)*100000"},
		{"map-of-pointers", "m := map[string]*in@{\"a\": {A: a}, \"b\": {A: 2}}\n\tm[\"a\"].A += 3\n\tm[\"b\"].A *= a\n\tm[\"c\"] = &in@{A: b}\n\tt := 0\n\tfor k, v := range m {\n\t\tt += len(k) + v.A\n\t}\n\treturn t*10 + len(m)"},
		{"slice-and-map-fields", "o := &out@{L: []int{1, 2, 3}, M: map[string]int{\"k\": a}}\n\to.L[1] += a\n\to.L = append(o.L, b)\n\to.M[\"k\"] += 5\n\to.M[\"j\"] = b\n\to.M[\"k\"]++\n\to.L[3]--\n\tt := 0\n\tfor _, v := range o.L {\n\t\tt = t*3 + v\n\t}\n\tfor _, v := range o.M {\n\t\tt += v * 1000\n\t}\n\treturn t + len(o.M)*100000"},
		{"bytes-field", "o := &out@{Y: []byte(\"ab\")}\n\to.Y[0] = byte(a + 70)\n\to.Y = append(o.Y, byte(b+70))\n\treturn int(o.Y[0])*10000 + int(o.Y[2])*100 + len(o.Y)"},
		{"struct-returned-in-collections", "s := []*out@{mk@(a), mk@(b)}\n\ts[0].P.A += s[1].I.A\n\tm := map[int]*out@{1: s[0]}\n\tm[1].N = 7\n\treturn s[0].P.A*100 + s[0].N*10 + s[1].P.A"},
		{"pointer-nil-checks-and-reassign", "var p *in@\n\to := &out@{}\n\tr := 0\n\tif p == nil && o.P == nil {\n\t\tr += 1\n\t}\n\tp = &in@{A: a}\n\to.P = p\n\tif o.P != nil {\n\t\tr += 10 + o.P.A*100\n\t}\n\to.P = nil\n\tif o.P == nil && p != nil {\n\t\tr += 100000\n\t}\n\treturn r + b"},
	}
	for _, c := range cases {
		ss.add("structs2", c.tag, "", pre+"func U@(a int, b int) int {\n\t"+c.body+"\n}\n", false)
	}
}

// ---- assignment operators on every kind of target -------------------------------------------------------------------------------------

func shapesOpAssign(ss *shapeSet, thorough bool) {
	type tgt struct{ name, pre, lv string }
	tgts := []tgt{
		{"local", "v := a + 20", "v"},
		{"argument", "", "b"},
		{"global", "", "gq@"},
		{"field", "p := st@{A: a + 20}", "p.A"},
		{"pointer-field", "p := &st@{A: a + 20}", "p.A"},
		{"nested-field", "p := &ou@{I: st@{A: a + 20}}", "p.I.A"},
		{"field-through-pointer-field", "p := &ou@{P: &st@{A: a + 20}}", "p.P.A"},
		{"slice-element", "s := []int{1, a + 20, 3}", "s[1]"},
		{"slice-element-computed-index", "s := []int{1, 2, a + 20}\n\ti := 1", "s[i+1]"},
		{"map-entry", "m := map[int]int{5: a + 20}", "m[5]"},
		{"map-entry-string-key", "m := map[string]int{\"k\": a + 20}", "m[\"k\"]"},
		{"field-of-slice-element", "s := []*st@{{A: 1}, {A: a + 20}}", "s[1].A"},
		{"element-of-slice-field", "p := &ou@{L: []int{a + 20, 2}}", "p.L[0]"},
		{"entry-of-map-field", "p := &ou@{M: map[int]int{3: a + 20}}", "p.M[3]"},
	}
	ops := []struct{ name, stmt string }{
		{"add", "%L += b + 3"}, {"sub", "%L -= b"}, {"mul", "%L *= b"}, {"div", "%L /= 3"}, {"mod", "%L %= 5"},
		{"and", "%L &= 29"}, {"or", "%L |= 64"}, {"shl", "%L <<= 2"}, {"shr", "%L >>= 1"}, {"inc", "%L++"}, {"dec", "%L--"},
		{"assign-from-itself", "%L = %L*2 - b"},
	}
	const pre = `
var gq@ = 25

type st@ struct{ A, B int }

type ou@ struct {
	I st@
	P *st@
	L []int
	M map[int]int
}

`
	for _, t := range tgts {
		for _, o := range ops {
			if !thorough && (o.name == "sub" || o.name == "or" || o.name == "dec") && t.name != "local" && t.name != "slice-element" {
				continue
			}
			p := t.pre
			if p != "" {
				p = "\t" + p + "\n"
			}
			st := strings.ReplaceAll(o.stmt, "%L", t.lv)
			hd := ""
			if t.name == "global" {
				hd = "//c14:stateful\n"
			}
			src := pre + hd + "func O@(a int, b int) int {\n" + p + "\t" + st + "\n\t" + st + "\n\tr := " + t.lv + "\n\treturn r*10 + b\n}\n"
			ss.add("opassign", t.name+"/"+o.name, "", src, false)
		}
	}
}

// ---- constants -------------------------------------------------------------------------------------------------------------------------

func shapesConsts(ss *shapeSet) {
	const pre = `
type color@ int

const (
	red@ color@ = iota + 1
	green@
	_
	blue@
)

const (
	k0@ = 1 << iota
	k1@
	k2@
	k3@ = iota * 10
	k4@
)

const (
	big@   int64 = 1<<62 + 5
	neg@         = -1 << 63
	str@         = "ab" + "cd"
	tb@          = len(str@) > 3
	rn@          = 'a'
	typed@ int   = 7
	quo@         = 10 / 4
	mix@         = 10 / 4.0 * 2
	minus@       = -7
)

func (c color@) next() color@ { return c + 1 }

`
	cases := []struct{ tag, sig, body string }{
		{"iota-forms", "a int) int", "return int(red@) + int(green@)*10 + int(blue@)*100 + k0@ + k1@*2 + k2@*3 + k3@ + k4@ + a"},
		{"large-constants", "a int) int", "x := big@ >> 60\n\ty := neg@ >> 62\n\tz := big@ - 1<<62\n\treturn int(x) + int(y)*10 + int(z)*100 + len(str@) + a"},
		{"local-and-typed-constants", "a int) int", "const loc = typed@ * 2\n\tconst sh = loc << 3\n\tr := loc + quo@ + int(mix@) + int(rn@) + sh\n\tif tb@ {\n\t\tr += 1000\n\t}\n\treturn r + a"},
		{"named-integer-type-in-switch", "a int) int", "c := color@(a)\n\tswitch c.next() {\n\tcase red@:\n\t\treturn 1\n\tcase green@, blue@:\n\t\treturn 2\n\t}\n\treturn int(c.next())"},
		{"string-constant-forms", "a int) string", "const loc = str@ + \"!\"\n\treturn str@[1:3] + string(rune(rn@+1)) + loc"},
		{"constant-shadowed-by-local", "a int) int", "r := typed@\n\t{\n\t\tconst typed@ = 100\n\t\tr += typed@\n\t}\n\tif a > 0 {\n\t\ttyped@ := a\n\t\tr += typed@ * 1000\n\t}\n\treturn r + typed@"},
		{"negative-division-and-modulo", "a int, b int) int", "x := minus@\n\tr := x/2*1000 + x%3*100 + (a-9)/4*10 + (a-9)%4\n\tif b != 0 {\n\t\tr += (a-9)/b*100000 + (a-9)%b*10000\n\t\tr += (9-a)/(-b) + minus@/b*7 + minus@%b*3\n\t}\n\treturn r"},
		{"byte-and-sized-integers-without-overflow", "a int, b int) int", "var y byte = 200\n\tvar u uint8 = byte(a + 50)\n\tvar i8 int8 = int8(b - 3)\n\tvar i64 int64 = int64(a) << 40\n\tvar u32 uint32 = uint32(b+2) * 1000\n\treturn int(y) + int(u)*2 + int(i8)*3 + int(i64>>38) + int(u32)"},
		{"shifts-by-variable", "a int, b int) int", "s := b & 3\n\treturn (a-3)>>s + (a << s) + (1<<s)*100 + (-64>>s)*1000 + (a<<2>>1)*10000"},
		{"bit-operations", "a int, b int) int", "return (a&b)*1 + (a|b)*10 + (a^b)*100 + (^a)*10000 + (-a&7)*100000 + (a&(b|4)^3)*1000000"},
	}
	for _, c := range cases {
		ss.add("consts", c.tag, "", pre+"func K@("+c.sig+" {\n\t"+c.body+"\n}\n", false)
	}
}

// ---- booleans ---------------------------------------------------------------------------------------------------------------------------

func shapesBools(ss *shapeSet, thorough bool) {
	operands := []string{"p", "q", "!p", "(a < 1)", "true", "false", "(p && q)", "(p || a > 0)"}
	ops := []string{"==", "!=", "&&", "||"}
	n := 0
	for _, op := range ops {
		for _, l := range operands {
			for _, r := range operands {
				if l == r || ((l == "true" || l == "false") && (r == "true" || r == "false")) {
					continue
				}
				n++
				if !thorough && (op == "&&" || op == "||") && n%2 == 0 && l != "p" {
					continue // the connectives are also covered by the expression frame
				}
				e := l + " " + op + " " + r
				src := "func B@(p bool, q bool, a int) int {\n\tr := 0\n\tif " + e + " {\n\t\tr += 1\n\t}\n\tk := " + e + "\n\tif k {\n\t\tr += 10\n\t}\n\tif !(" + e + ") {\n\t\tr += 100\n\t}\n\tif eq@(" + e + ", p) {\n\t\tr += 1000\n\t}\n\treturn r\n}\n\nfunc eq@(x bool, y bool) bool { return x == y }\n\nfunc R@(p bool, q bool, a int) bool { return " + e + " }\n"
				ss.add("bools", fmt.Sprintf("%s/%s/%s", op, l, r), "", src, false)
			}
		}
	}
}

// ---- further statement forms -----------------------------------------------------------------------------------------------------------------

func shapesForms(ss *shapeSet) {
	add := func(tag, src string) { ss.add("forms", tag, "", src, false) }
	add("for-two-variables", "func F@(a int) int {\n\tx := 0\n\tfor i, j := 0, 10; i < j; i, j = i+1, j-2 {\n\t\tx += i*j + a\n\t}\n\treturn x\n}\n")
	add("for-three-variables-with-continue", "func F@(a int) int {\n\tx := 0\n\tfor i, j, k := 0, a, 1; i < 4 && j < 9; i, j, k = i+1, j+2, k*2 {\n\t\tif i == 1 {\n\t\t\tcontinue\n\t\t}\n\t\tx += i + j*10 + k*100\n\t}\n\treturn x\n}\n")
	add("for-outer-variable-and-empty-clauses", "func F@(a int) int {\n\tx := 0\n\tvar i int\n\tfor i = 0; i < a; i++ {\n\t\tx += i\n\t}\n\tfor ; i > 0; i -= 2 {\n\t\tx += 100\n\t}\n\tfor i < 3 {\n\t\ti += 2\n\t}\n\treturn x*10 + i\n}\n")
	add("for-post-with-call-and-swap", "func st@(v int) int { return v + 2 }\n\nfunc F@(a int) int {\n\tx, y := 0, 1\n\tfor i := a; i < 8; i = st@(i) {\n\t\tx, y = y, x+y\n\t}\n\treturn x*100 + y\n}\n")
	add("labelled-continue-through-switch-in-nested-loops", "func F@(a int) int {\n\tx := 0\nouter:\n\tfor i := 0; i < 3; i++ {\n\t\tfor j := 0; j < 3; j++ {\n\t\t\tswitch {\n\t\t\tcase j == a:\n\t\t\t\tcontinue outer\n\t\t\tcase i == 2:\n\t\t\t\tswitch j {\n\t\t\t\tcase 1:\n\t\t\t\t\tcontinue\n\t\t\t\tcase 2:\n\t\t\t\t\tbreak outer\n\t\t\t\t}\n\t\t\t\tx += 1000\n\t\t\t}\n\t\t\tx += i*10 + j\n\t\t}\n\t\tx += 100\n\t}\n\treturn x\n}\n")
	add("labelled-continue-through-switch-in-range", "func F@(a int) int {\n\tx := 0\nouter:\n\tfor i, v := range []int{3, 4, 5} {\n\t\tfor _, w := range []int{0, 1, 2} {\n\t\t\tswitch w {\n\t\t\tcase a:\n\t\t\t\tcontinue outer\n\t\t\tcase 1:\n\t\t\t\tif i == 2 {\n\t\t\t\t\tbreak outer\n\t\t\t\t}\n\t\t\t\tcontinue\n\t\t\t}\n\t\t\tx += v*10 + w\n\t\t}\n\t\tx += 100\n\t}\n\treturn x\n}\n")
	add("byte-slice-conversions", "func F@(s string, a int) []byte {\n\tb := []byte(s + \"hello\")\n\tb2 := []byte{1, 2, byte(a + 10)}\n\tb = append(b, b2...)\n\tt := string(b[:3])\n\tu := append([]byte(t), b[5:]...)\n\tu[0] = 'Z'\n\treturn append(u, []byte(t)...)\n}\n")
	add("byte-slice-compare-and-len", "func F@(s string, a int) int {\n\tb := []byte(s)\n\tr := len(b) * 10\n\tif string(b) == s {\n\t\tr += 1\n\t}\n\tif len(b) > 0 && b[0] == 'a' {\n\t\tr += 100\n\t}\n\tc := make([]byte, 2)\n\tc[1] = byte(a + 3)\n\treturn r + int(c[0]) + int(c[1])*1000\n}\n")
	add("map-range-folds", "func F@(a int) int {\n\tmi := map[int]int{1: 10, 2: 20, 7: 70}\n\tms := map[string]int{\"a\": 1, \"bc\": 2, \"\": 3}\n\tmb := map[bool]int{true: 5, false: 6}\n\tmi[a] = 1\n\tx := 0\n\tfor k, v := range mi {\n\t\tx += k*100 + v\n\t}\n\tfor k, v := range ms {\n\t\tx += len(k)*1000 + v\n\t}\n\tfor k, v := range mb {\n\t\tif k {\n\t\t\tx += v * 10000\n\t\t} else {\n\t\t\tx -= v\n\t\t}\n\t}\n\tfor k := range ms {\n\t\tx += len(k)\n\t}\n\tn := 0\n\tfor range mi {\n\t\tn++\n\t}\n\treturn x*10 + n\n}\n")
	add("map-keys-from-bytes", "func F@(s string, a int) int {\n\tm := map[string]int{\"ab\": 1, \"a\": 2}\n\tb := []byte(s)\n\tm[string(b)] = 10\n\tt := 0\n\tfor k, v := range m {\n\t\tt += len(k)*100 + v\n\t}\n\treturn t + len(m)*10000 + a\n}\n")
	add("nested-maps-and-slices", "func F@(a int) int {\n\tm := map[int]map[string]int{1: {\"x\": a}, 2: {}}\n\tm[2][\"y\"] = 5\n\tm[1][\"x\"] += 2\n\tm[3] = map[string]int{\"z\": a}\n\tt := 0\n\tfor k, in := range m {\n\t\tfor s, v := range in {\n\t\t\tt += k*100 + len(s)*10 + v\n\t\t}\n\t}\n\treturn t\n}\n")
	add("shadowing-in-every-init", "func F@(a int) int {\n\tx := a\n\tif x := x + 1; x > 2 {\n\t\tx := x * 2\n\t\ta += x\n\t} else if x := x - 5; x < 0 {\n\t\ta -= x\n\t}\n\tfor x := x + 2; x < a+4; x++ {\n\t\tx := x * 3\n\t\ta += x\n\t\tif a > 40 {\n\t\t\tbreak\n\t\t}\n\t}\n\tfor x, y := range []int{x, x + 1} {\n\t\ta += x*10 + y\n\t}\n\tswitch x := x * 2; {\n\tcase x > 4:\n\t\tx := 1\n\t\ta += x\n\tdefault:\n\t\ta += x\n\t}\n\t{\n\t\tx := 50\n\t\t{\n\t\t\tx := x + 1\n\t\t\ta += x\n\t\t}\n\t\ta += x\n\t}\n\treturn a*100 + x\n}\n")
}

// ---- manifest and debug information -----------------------------------------------------------------------------------------------------

func shapesMeta(ss *shapeSet) {
	// the program-level oracle (metaProg) compares the manifest with the exported
	// functions of the source; executing every exported function at its debug
	// offset shows whether the offsets are those of the code
	ss.add("meta", "exported-unexported-case-unused", "", `
var used = 1
var unusedVar = f0()

type T struct{ N int }

func (t *T) Exported() int { return t.N }

func (t T) unexported() int { return t.N + 1 }

func f0() int { return 5 }

func neverCalledA(x int) int { return x + 1 }

func Ab(a int) int { return helperB(a) + 1 }

func neverCalledB(x int, y int) int { return neverCalledA(x) + y }

func AB(a int) int { return a*2 + used }

func helperB(x int) int { return x * 3 }

func ab(a int) int { return a - 1 }

func aB(a int) int { return ab(a) - 1 }

func Ab2(a int, b int) int { return aB(a) + b }

func neverCalledC() {}

func XMethod(a int) int {
	t := &T{N: a}
	return t.Exported() + t.unexported()
}

//c14:skip
func Variadic(a int, xs ...int) int { return a + len(xs) }

func CallsVariadic(a int) int { return Variadic(a) + Variadic(a, 1, 2)*10 }

func Void(a int) {}

func NoArgs() int { return used }

func Strs(s string, k bool) string {
	if k {
		return s + "!"
	}
	return s
}
`, true)
	ss.add("meta", "no-globals-no-init", "", `
func unusedFirst(x int) int { return x }

func B(a int) int { return a + 1 }

func unusedMiddle() int { return 3 }

func A(a int) int { return B(a) * 2 }

func unusedLast(x int) int { return unusedMiddle() + x }
`, true)
	ss.add("meta", "lambdas-and-methods-between-exported", "", `
type t1 struct{ N int }

func (t *t1) get() int { return t.N }

func A(a int) int {
	f := func(v int) int { return v * 2 }
	return f(a) + 1
}

func (t *t1) neverUsed() int { return 0 }

func B(a int) int {
	g := func(v int, w int) int { return v - w }
	t := &t1{N: a}
	return g(t.get(), 1)
}

func C(a int) int {
	gf := func(v int) int { return v + 100 }
	return gf(a) + A(a)
}
`, true)
}
